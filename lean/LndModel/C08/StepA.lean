/-
C08 — invariant preservation, part StepA.
-/
import LndModel.C08.Lemmas

set_option linter.unusedSimpArgs false
set_option linter.unusedVariables false
set_option linter.unusedSectionVars false

namespace LndModel.C08
variable {P Hsh : Type} [DecidableEq P] [DecidableEq Hsh] (H : P → Hsh) (hash : Hsh)

theorem inv_upAdd {s s' : Pair P} (hI : Inv H hash s) (h : step H hash s (.upAdd) = some s') :
    Inv H hash s' := by
  obtain ⟨a1, a2, a3, a4, a5, a6, a7, a8, a9, a10, a11, a12, a13, a14, a15, a16, a17, a18, a19, a20, a21, a22, a23, a24, a25, a26, a27⟩ := hI
  simp only [LndModel.C08.step] at h; split at h <;> cases h; constructor <;> life_grind

theorem inv_downSettle {s s' : Pair P} (p : P) (hI : Inv H hash s) (h : step H hash s (.downSettle p) = some s') :
    Inv H hash s' := by
  obtain ⟨a1, a2, a3, a4, a5, a6, a7, a8, a9, a10, a11, a12, a13, a14, a15, a16, a17, a18, a19, a20, a21, a22, a23, a24, a25, a26, a27⟩ := hI
  simp only [LndModel.C08.step, stepDownSettle] at h
  split at h
  · split at h
    · split at h <;> cases h <;> constructor <;> life_grind
    · cases h; constructor <;> life_grind
  · cases h

theorem inv_downFail {s s' : Pair P} (hI : Inv H hash s) (h : step H hash s (.downFail) = some s') :
    Inv H hash s' := by
  obtain ⟨a1, a2, a3, a4, a5, a6, a7, a8, a9, a10, a11, a12, a13, a14, a15, a16, a17, a18, a19, a20, a21, a22, a23, a24, a25, a26, a27⟩ := hI
  simp only [LndModel.C08.step] at h; split at h <;> cases h; constructor <;> life_grind

theorem inv_setFwdFilter {s s' : Pair P} (hI : Inv H hash s) (h : step H hash s (.setFwdFilter) = some s') :
    Inv H hash s' := by
  obtain ⟨a1, a2, a3, a4, a5, a6, a7, a8, a9, a10, a11, a12, a13, a14, a15, a16, a17, a18, a19, a20, a21, a22, a23, a24, a25, a26, a27⟩ := hI
  simp only [LndModel.C08.step] at h; split at h <;> cases h; constructor <;> life_grind

theorem inv_commitCircuit {s s' : Pair P} (hI : Inv H hash s) (h : step H hash s (.commitCircuit) = some s') :
    Inv H hash s' := by
  obtain ⟨a1, a2, a3, a4, a5, a6, a7, a8, a9, a10, a11, a12, a13, a14, a15, a16, a17, a18, a19, a20, a21, a22, a23, a24, a25, a26, a27⟩ := hI
  simp only [LndModel.C08.step] at h; split at h <;> cases h; constructor <;> life_grind

theorem inv_reforward {s s' : Pair P} (hI : Inv H hash s) (h : step H hash s (.reforward) = some s') :
    Inv H hash s' := by
  obtain ⟨a1, a2, a3, a4, a5, a6, a7, a8, a9, a10, a11, a12, a13, a14, a15, a16, a17, a18, a19, a20, a21, a22, a23, a24, a25, a26, a27⟩ := hI
  simp only [LndModel.C08.step] at h; split at h <;> cases h; constructor <;> life_grind

theorem inv_switchFail {s s' : Pair P} (hI : Inv H hash s) (h : step H hash s (.switchFail) = some s') :
    Inv H hash s' := by
  obtain ⟨a1, a2, a3, a4, a5, a6, a7, a8, a9, a10, a11, a12, a13, a14, a15, a16, a17, a18, a19, a20, a21, a22, a23, a24, a25, a26, a27⟩ := hI
  simp only [LndModel.C08.step] at h; split at h <;> cases h; constructor <;> life_grind

theorem inv_refwdResp {s s' : Pair P} (hI : Inv H hash s) (h : step H hash s (.refwdResp) = some s') :
    Inv H hash s' := by
  obtain ⟨a1, a2, a3, a4, a5, a6, a7, a8, a9, a10, a11, a12, a13, a14, a15, a16, a17, a18, a19, a20, a21, a22, a23, a24, a25, a26, a27⟩ := hI
  simp only [LndModel.C08.step] at h
  split at h
  · split at h <;> cases h; constructor <;> life_grind
  · cases h

theorem inv_ackDup {s s' : Pair P} (hI : Inv H hash s) (h : step H hash s (.ackDup) = some s') :
    Inv H hash s' := by
  obtain ⟨a1, a2, a3, a4, a5, a6, a7, a8, a9, a10, a11, a12, a13, a14, a15, a16, a17, a18, a19, a20, a21, a22, a23, a24, a25, a26, a27⟩ := hI
  simp only [LndModel.C08.step] at h; split at h <;> cases h; constructor <;> life_grind

theorem inv_localReject {s s' : Pair P} (hI : Inv H hash s) (h : step H hash s (.localReject) = some s') :
    Inv H hash s' := by
  obtain ⟨a1, a2, a3, a4, a5, a6, a7, a8, a9, a10, a11, a12, a13, a14, a15, a16, a17, a18, a19, a20, a21, a22, a23, a24, a25, a26, a27⟩ := hI
  simp only [LndModel.C08.step] at h; split at h <;> cases h; constructor <;> life_grind

theorem inv_sendDownAdd {s s' : Pair P} (hI : Inv H hash s) (h : step H hash s (.sendDownAdd) = some s') :
    Inv H hash s' := by
  obtain ⟨a1, a2, a3, a4, a5, a6, a7, a8, a9, a10, a11, a12, a13, a14, a15, a16, a17, a18, a19, a20, a21, a22, a23, a24, a25, a26, a27⟩ := hI
  simp only [LndModel.C08.step] at h; split at h <;> cases h; constructor <;> life_grind

theorem inv_relayUp {s s' : Pair P} (r : Res P) (hI : Inv H hash s) (h : step H hash s (.relayUp r) = some s') :
    Inv H hash s' := by
  obtain ⟨a1, a2, a3, a4, a5, a6, a7, a8, a9, a10, a11, a12, a13, a14, a15, a16, a17, a18, a19, a20, a21, a22, a23, a24, a25, a26, a27⟩ := hI
  simp only [LndModel.C08.step] at h; split at h <;> cases h; constructor <;> life_grind

theorem inv_resendUp {s s' : Pair P} (hI : Inv H hash s) (h : step H hash s (.resendUp) = some s') :
    Inv H hash s' := by
  obtain ⟨a1, a2, a3, a4, a5, a6, a7, a8, a9, a10, a11, a12, a13, a14, a15, a16, a17, a18, a19, a20, a21, a22, a23, a24, a25, a26, a27⟩ := hI
  simp only [LndModel.C08.step] at h; split at h <;> cases h; constructor <;> life_grind

theorem inv_resendDown {s s' : Pair P} (hI : Inv H hash s) (h : step H hash s (.resendDown) = some s') :
    Inv H hash s' := by
  obtain ⟨a1, a2, a3, a4, a5, a6, a7, a8, a9, a10, a11, a12, a13, a14, a15, a16, a17, a18, a19, a20, a21, a22, a23, a24, a25, a26, a27⟩ := hI
  simp only [LndModel.C08.step] at h; split at h <;> cases h; constructor <;> life_grind

end LndModel.C08
