/-
C08 — "A forwarding node never ends up out of pocket: hops settle or fail together".

Executable model (core Lean only) of the forwarder Bob at protocol level.

* `Life`   : abstract projection of ONE htlc on ONE channel, driven by the wire
             messages of the commitment protocol (update, commit_sig, revoke_and_ack,
             reconnect): offered → locked in on both commitments → removal offered
             (settle p | fail) → irrevocably removed.
* `Pair`   : one forwarded payment = incoming htlc (`up`, offered by the upstream peer),
             outgoing htlc (`down`, offered by Bob), Bob's circuit, the durable
             forwarding-package flags, the volatile mailboxes and history variables.
* `step`   : the transition function: peers' messages, Bob's internal steps
             (fwd filter, circuit commit, mailbox delivery, re-forwarding after a restart),
             Bob's outputs (downstream add, upstream settle / fail) and a crash-restart.
* `Obs`/`Obs.step` : the wire-visible projection of a pair and the MONITOR that the driver
             runs over the recorded wire trace (the model as an acceptor).  `Props.lean`
             proves that every step of the model is accepted by the monitor.
* `GState` : all payments of a run, channel-wide events, balances.

Preimages are symbolic: `P` is the type of preimages, `H : P → Hsh` the hash; the driver
instantiates `H` with SHA-256.

Code modelled (htlcswitch/link.go, switch.go, circuit_map.go, mailbox.go,
lnwallet/channel.go, channeldb/forwarding_package.go):
  processRemoteAdds      locked-in adds only; FwdFilter persisted (`setFwdFilter`) before
                         forwarding (`commitCircuit` = Switch.ForwardPackets/CommitCircuits,
                         packet into the outgoing link's mailbox); local reject = sendHTLCError
  handleDownstreamUpdateAdd  `sendDownAdd`; keystone opened when Bob signs (`downSigBob`)
  failAddPacket / MailBox.FailAdd / half-open circuit after restart   `switchFail`
  processRemoteUpdateFulfillHTLC  `downSettle p`: preimage check, pipelined to the switch
  ReceiveRevocation fwd pkg + processRemoteSettleFails   `downRevPeer` reaching `removed`
  handlePacketSettle/Fail + mailbox + processLocalUpdateFulfill/FailHTLC   `relayUp`
  SettleHTLC/FailHTLC SourceRef/DestRef/ClosedCircuitKey in the CommitDiff   `upSigBob`
  Switch.reforwardResponses / link.resolveFwdPkgs   `refwdResp`, `reforward`
  pendingSettleFails acked on the AckEventTicker    `ackDup`
-/
namespace LndModel.C08

/-- progress of one update (add or removal) through the commitment dance:
`sent` by its author → covered by the author's commit_sig (`signed`) → acked by the other
side's revoke_and_ack (`acked`) → covered by the other side's commit_sig (`csigned`) →
(author's revoke_and_ack) irrevocable. -/
inductive Stage where
  | sent | signed | acked | csigned
  deriving DecidableEq, Repr, Inhabited

/-- how an htlc is resolved. -/
inductive Res (P : Type) where
  | settle (p : P)
  | fail
  deriving DecidableEq, Repr, Inhabited

/-- life cycle of one htlc on one channel. -/
inductive Life (P : Type) where
  | absent
  | adding (st : Stage)
  | locked
  | removing (r : Res P) (st : Stage)
  | removed (r : Res P)
  deriving DecidableEq, Repr, Inhabited

namespace Life
variable {P : Type}

/-- commit_sig sent by the OFFERER of the htlc. -/
def sigO : Life P → Life P
  | .adding .sent => .adding .signed
  | .removing r .acked => .removing r .csigned
  | l => l

/-- commit_sig sent by the RECEIVER of the htlc (the party that may settle / fail it). -/
def sigR : Life P → Life P
  | .adding .acked => .adding .csigned
  | .removing r .sent => .removing r .signed
  | l => l

/-- revoke_and_ack sent by the offerer. -/
def revO : Life P → Life P
  | .adding .csigned => .locked
  | .removing r .signed => .removing r .acked
  | l => l

/-- revoke_and_ack sent by the receiver. -/
def revR : Life P → Life P
  | .adding .signed => .adding .acked
  | .removing r .csigned => .removed r
  | l => l

/-- reconnect (channel_reestablish): updates not covered by a signature are forgotten. -/
def restart : Life P → Life P
  | .adding .sent => .absent
  | .removing _ .sent => .locked
  | l => l

/-- the resolution Bob/the peer has irrevocably decided (covered by a signature). -/
def resolvedSigned : Life P → Option (Res P)
  | .removing _ .sent => none
  | .removing r _ => some r
  | .removed r => some r
  | _ => none

/-- the resolution currently offered or done (any stage). -/
def res? : Life P → Option (Res P)
  | .removing r _ => some r
  | .removed r => some r
  | _ => none

def removedRes : Life P → Option (Res P)
  | .removed r => some r
  | _ => none

/-- the add is covered by the offerer's signature (it can no longer be forgotten). -/
def committed : Life P → Bool
  | .absent => false
  | .adding .sent => false
  | _ => true

/-- nothing in flight for this htlc. -/
def stable : Life P → Bool
  | .absent => true
  | .locked => true
  | .removed _ => true
  | _ => false

/-- no htlc on the commitments (what `ActiveHtlcs() = ∅` and no pending update mean). -/
def gone : Life P → Bool
  | .absent => true
  | .removed _ => true
  | _ => false

def settled : Life P → Bool
  | .removed (.settle _) => true
  | _ => false

end Life

/-- Bob's circuit for the payment (circuit_map.go; C07 models the map itself). `closing` is the
volatile `closed` set of the running switch; the keystone is a separate durable bit. -/
inductive Circ where
  | absent     -- no circuit (never committed, or never needed: local reject)
  | pending    -- CommitCircuits done (half-open without keystone, open with keystone)
  | closing    -- a response was accepted by closeCircuit/FailCircuit (volatile)
  | deleted    -- DeleteCircuits / teardown
  deriving DecidableEq, Repr, Inhabited

/-- location of an add in a forwarding package: (height, index). -/
abbrev Ref := Nat × Nat

structure Pair (P : Type) where
  up : Life P := .absent
  down : Life P := .absent
  -- durable: forwarding package of the incoming channel (bits of this add)
  /-- the package was processed (SetFwdFilter written). -/
  decided : Bool := false
  /-- FwdFilter bit: the add was handed to the switch. -/
  fwdFilter : Bool := false
  /-- AckFilter bit. -/
  addAcked : Bool := false
  -- durable: circuit map
  circ : Circ := .absent
  keystone : Bool := false
  /-- the AddRef stored in the circuit (sourceRef of the packet that created it). -/
  circRef : Option Ref := none
  -- durable: channel state of the two links
  /-- the upstream resolution contained in a commitment Bob signed AND persisted. -/
  upDur : Option (Res P) := none
  /-- ClosedCircuitKey persisted with that commitment, circuit not yet deleted. -/
  delPending : Bool := false
  /-- the outgoing add is contained in a commitment Bob signed and persisted. -/
  downDur : Bool := false
  -- durable: forwarding package of the outgoing channel
  resp : Option (Res P) := none
  respAcked : Bool := false
  -- volatile
  /-- the add packet sits in the outgoing link's mailbox. -/
  mbAdd : Bool := false
  /-- a response packet sits in the incoming link's mailbox. -/
  mbResp : Option (Res P) := none
  /-- that packet carries a SettleFailRef (it came out of a forwarding package). -/
  mbRef : Bool := false
  /-- the AddRef (sourceRef) the pending upstream resolution will acknowledge. -/
  respRef : Option Ref := none
  -- history variables
  known : List P := []
  sentUp : List (Res P) := []
  downAdds : Nat := 0
  envBad : Bool := false
  deriving Repr, DecidableEq

inductive Ev (P : Type) where
  -- peers
  | upAdd
  | downSettle (p : P)
  | downFail
  | upSigPeer | upRevPeer | downSigPeer | downRevPeer
  -- Bob, wire
  | upSigBob | upRevBob | downSigBob | downRevBob
  -- Bob, incoming link: processRemoteAdds
  | decide (fwd : Bool)            -- SetFwdFilter (durable)
  | localReject (ref : Ref)        -- sendHTLCError with the add's sourceRef
  | commitCircuit (ref : Ref)      -- Switch.ForwardPackets / CommitCircuits = Add (durable)
  | refwdFail (ref : Ref)          -- CommitCircuits = Fail (half-open circuit loaded from disk)
  -- Bob, switch / outgoing link
  | switchFail                     -- failAddPacket / mailbox FailAdd for a delivered add packet
  | sendDownAdd                    -- AddHTLC + update_add
  | openKeystone                   -- OpenCircuits (durable), before signing
  | downSignPersist                -- SignNextCommitment persisted (outgoing add)
  | refwdResp                      -- processRemoteSettleFails / reforwardResponses hand-over
  | ackDup                         -- response for an unknown circuit: ack via pendingSettleFails
  -- Bob, incoming link: responses
  | relayUp (r : Res P)            -- SettleHTLC / FailHTLC accepted by the channel + wire message
  | dropSpurious                   -- channel refuses (already resolved): cleanupSpuriousResponse
  | upSignPersist                  -- SignNextCommitment persisted (AddRef/SettleFailRef acks, ClosedCircuitKey)
  | deleteCircuit                  -- DeleteCircuits (durable), after the signature, before commit_sig is sent
  -- retransmission after a reconnect
  | resendUp | resendDown | resendDownAdd
  -- crash + restart of the node, reconnect of both channels
  | restart
  deriving Repr

section Step
variable {P Hsh : Type} [DecidableEq P] [DecidableEq Hsh] (H : P → Hsh) (hash : Hsh)

/-- Bob's revoke_and_ack on the downstream channel is impossible while the peer's
signed update is a fulfill with a wrong preimage (the link failed when it arrived). -/
def badSigned : Life P → Bool
  | .removing (.settle p) .signed => decide (H p ≠ hash)
  | _ => false

/-- lnwallet `SettleHTLC` / `FailHTLC`: the htlc is in the log, has no modification yet, and a
settle carries a matching preimage. (`up = locked` is "in the log, unmodified in memory",
`upDur = none` is "no persisted modification".) -/
def chanAccepts (s : Pair P) : Res P → Bool
  | .settle p => decide (s.up = .locked) && s.upDur.isNone && decide (H p = hash)
  | .fail => decide (s.up = .locked) && s.upDur.isNone

def stepDownSettle (s : Pair P) (p : P) : Option (Pair P) :=
  if s.down = .locked then
    if H p = hash then
      -- pipelined to the switch: closeCircuit succeeds iff the circuit is open
      if s.circ = .pending ∧ s.keystone = true then
        some { s with down := .removing (.settle p) .sent, known := p :: s.known,
                      circ := .closing, mbResp := some (.settle p), mbRef := false,
                      respRef := s.circRef }
      else
        some { s with down := .removing (.settle p) .sent, known := p :: s.known }
    else
      some { s with down := .removing (.settle p) .sent }
  else if s.down = .removing (.settle p) .signed then some s   -- retransmission
  else none

def stepDownRevPeer (s : Pair P) : Pair P :=
  match s.down with
  | .removing r .csigned => { s with down := .removed r, resp := some r }
  | _ => { s with down := s.down.revR }

def stepUpSigBob (s : Pair P) : Option (Pair P) :=
  match s.up with
  | .removing r .sent =>
    -- commit_sig is sent after the commitment is persisted and the circuits are deleted
    if s.upDur = some r ∧ s.delPending = false then some { s with up := .removing r .signed } else none
  | _ => some { s with up := s.up.sigR }

def stepDownSigBob (s : Pair P) : Option (Pair P) :=
  match s.down with
  | .adding .sent => if s.downDur = true then some { s with down := .adding .signed } else none
  | _ => some { s with down := s.down.sigO }

/-- `SignNextCommitment` persisted with an unsigned upstream resolution in the log. `ackSelf`:
the AddRef ack lands on this pair's own bit (always, in the per-pair model). -/
def stepUpSignPersist (s : Pair P) (ackSelf : Bool) : Option (Pair P) :=
  match s.up with
  | .removing r .sent =>
    if s.upDur = none then
      some { s with upDur := some r
                    addAcked := s.addAcked || ackSelf
                    respAcked := s.respAcked || s.mbRef
                    delPending := if s.circ = .absent then false else true }
    else none
  | _ => none

/-- `cleanupSpuriousResponse`: the channel refuses the response (htlc already resolved): ack the
AddRef and the SettleFailRef of the packet, delete the circuit. -/
def stepDropSpurious (s : Pair P) (ackSelf : Bool) : Option (Pair P) :=
  match s.mbResp with
  | some r =>
    if chanAccepts H hash s r = false ∧ s.respRef.isSome then
      some { s with addAcked := s.addAcked || ackSelf, respAcked := s.respAcked || s.mbRef, circ := .deleted,
                    mbResp := none, mbRef := false, delPending := false }
    else none
  | none => none

def stepRestart (s : Pair P) : Pair P :=
  { s with up := s.up.restart
           down := s.down.restart
           mbAdd := false
           mbResp := none
           mbRef := false
           respRef := none
           circ := if s.circ = .closing then .pending else s.circ
           -- trimAllOpenCircuits: a keystone whose add was never committed is removed
           keystone := s.keystone && s.downDur }

/-- one step of the model; `none` = the event is not enabled in `s`. -/
def step (s : Pair P) : Ev P → Option (Pair P)
  | .upAdd => if s.up = .absent then some { s with up := .adding .sent } else none
  | .downSettle p => stepDownSettle H hash s p
  | .downFail =>
    if s.down = .locked then
      some { s with down := .removing .fail .sent, envBad := s.envBad || !s.known.isEmpty }
    else none
  | .upSigPeer => some { s with up := s.up.sigO }
  | .upRevPeer => some { s with up := s.up.revO }
  | .downSigPeer => some { s with down := s.down.sigR }
  | .downRevPeer => some (stepDownRevPeer s)
  | .upSigBob => stepUpSigBob s
  | .upRevBob => some { s with up := s.up.revR }
  | .downSigBob => stepDownSigBob s
  | .downRevBob => if badSigned H hash s.down then none else some { s with down := s.down.revO }
  | .decide fwd =>
    if s.up = .locked ∧ s.decided = false then some { s with decided := true, fwdFilter := fwd } else none
  | .localReject ref =>
    if s.decided = true ∧ s.fwdFilter = false ∧ s.addAcked = false ∧ chanAccepts H hash s .fail = true then
      some { s with up := .removing .fail .sent, sentUp := .fail :: s.sentUp, respRef := some ref }
    else none
  | .commitCircuit ref =>
    -- no look at the htlc itself: the forwarding package is the only input
    if s.decided = true ∧ s.fwdFilter = true ∧ s.addAcked = false ∧ (s.circ = .absent ∨ s.circ = .deleted) then
      some { s with circ := .pending, circRef := some ref, mbAdd := true }
    else none
  | .refwdFail ref =>
    if s.decided = true ∧ s.fwdFilter = true ∧ s.addAcked = false ∧ s.circ = .pending ∧
        s.keystone = false ∧ s.mbAdd = false ∧ s.mbResp = none ∧ s.down = .absent then
      some { s with circ := .closing, mbResp := some .fail, mbRef := false, respRef := some ref }
    else none
  | .switchFail =>
    if s.mbAdd = true ∧ s.circ = .pending ∧ s.keystone = false then
      some { s with mbAdd := false, circ := .closing, mbResp := some .fail, mbRef := false,
                    respRef := s.circRef }
    else none
  | .sendDownAdd =>
    if s.mbAdd = true then
      some { s with down := .adding .sent, mbAdd := false, downAdds := s.downAdds + 1 }
    else none
  | .openKeystone =>
    if s.down = .adding .sent ∧ s.circ = .pending ∧ s.keystone = false then some { s with keystone := true }
    else none
  | .downSignPersist =>
    if s.down = .adding .sent ∧ s.keystone = true ∧ s.downDur = false then some { s with downDur := true }
    else none
  | .refwdResp =>
    match s.resp with
    | some r =>
      if s.respAcked = false ∧ s.circ = .pending ∧ s.keystone = true then
        some { s with circ := .closing, mbResp := some r, mbRef := true, respRef := s.circRef }
      else none
    | none => none
  | .ackDup =>
    if s.resp.isSome ∧ (s.circ = .deleted ∨ s.circ = .absent) then some { s with respAcked := true } else none
  | .relayUp r =>
    if s.mbResp = some r ∧ chanAccepts H hash s r = true then
      some { s with up := .removing r .sent, sentUp := r :: s.sentUp, mbResp := none }
    else none
  | .dropSpurious => stepDropSpurious H hash s true
  | .upSignPersist => stepUpSignPersist s true
  | .deleteCircuit =>
    if s.delPending = true then
      some { s with circ := .deleted, delPending := false, mbResp := none, mbRef := false }
    else none
  | .resendUp =>
    match s.upDur, s.up with
    | some r, .locked => some { s with up := .removing r .sent }
    | some _, .removing _ .signed => some s
    | _, _ => none
  | .resendDown => match s.down with
    | .removing .fail .signed => some s
    | _ => none
  | .resendDownAdd =>
    if s.downDur = true ∧ s.down = .absent then some { s with down := .adding .sent } else none
  | .restart => some (stepRestart s)

/-- run an event list; stops (returns `none`) at the first event that is not enabled. -/
def run (s : Pair P) : List (Ev P) → Option (Pair P)
  | [] => some s
  | e :: es => match step H hash s e with
    | some s' => run s' es
    | none => none

/-- what the harness can observe at quiescence: no htlc of the pair on either channel. -/
def NoHtlcs (s : Pair P) : Prop := s.up.gone = true ∧ s.down.gone = true

instance (s : Pair P) : Decidable (NoHtlcs s) := by unfold NoHtlcs; infer_instance

/-- "queues, mailboxes and forwarding packages are drained, circuits cleaned up". -/
def Quiescent (s : Pair P) : Prop :=
  s.up.gone = true ∧ s.down.gone = true ∧ s.mbAdd = false ∧ s.mbResp = none ∧
  (s.circ = .absent ∨ s.circ = .deleted) ∧ s.delPending = false ∧
  (s.up ≠ .absent → s.addAcked = true) ∧ (s.resp ≠ none → s.respAcked = true)

instance (s : Pair P) : Decidable (Quiescent s) := by unfold Quiescent; infer_instance

end Step

/-! ## wire-visible projection and the monitor -/

/-- what the wire shows of one pair. -/
structure Obs (P : Type) where
  up : Life P := .absent
  down : Life P := .absent
  known : List P := []
  deriving Repr, DecidableEq

def Pair.obs {P : Type} (s : Pair P) : Obs P := { up := s.up, down := s.down, known := s.known }

/-- wire events of one pair (what the harness records at the four channel ends). -/
inductive WEv (P : Type) where
  | upAdd | upSettle (p : P) | upFail
  | downAdd | downSettle (p : P) | downFail
  | upSigPeer | upRevPeer | upSigBob | upRevBob
  | downSigBob | downRevBob | downSigPeer | downRevPeer
  | restart
  /-- reconnect of the upstream / downstream channel only -/
  | flapUp | flapDown
  deriving Repr

/-- why the monitor rejects a wire event. The first five are violations by Bob; `env…`
means the PEER's message does not fit the trace so far (trace inconsistency, not Bob's fault). -/
inductive Clause where
  | settle_only_with_downstream_preimage
  | fail_only_after_downstream_gone
  | at_most_one_resolution
  | forward_only_locked_in_once
  | accept_invalid_preimage
  | envUpAdd | envDownSettle | envDownFail
  deriving DecidableEq, Repr

def Clause.name : Clause → String
  | .settle_only_with_downstream_preimage => "settle_only_with_downstream_preimage"
  | .fail_only_after_downstream_gone => "fail_only_after_downstream_gone"
  | .at_most_one_resolution => "at_most_one_resolution"
  | .forward_only_locked_in_once => "forward_only_locked_in_once"
  | .accept_invalid_preimage => "accept_invalid_preimage"
  | .envUpAdd => "env_up_add"
  | .envDownSettle => "env_down_settle"
  | .envDownFail => "env_down_fail"

def Clause.isEnv : Clause → Bool
  | .envUpAdd | .envDownSettle | .envDownFail => true
  | _ => false

section Monitor
variable {P Hsh : Type} [DecidableEq P] [DecidableEq Hsh] (H : P → Hsh) (hash : Hsh)

/-- THE MONITOR: one wire event of a pair against the pair's wire history so far. -/
def Obs.step (o : Obs P) : WEv P → Except Clause (Obs P)
  | .upAdd => if o.up = .absent then .ok { o with up := .adding .sent } else .error .envUpAdd
  | .upSettle p =>
    if o.up = .removing (.settle p) .signed then .ok o   -- retransmission
    else if o.up ≠ .locked then .error .at_most_one_resolution
    else if p ∈ o.known ∧ H p = hash then .ok { o with up := .removing (.settle p) .sent }
    else .error .settle_only_with_downstream_preimage
  | .upFail =>
    if o.up = .removing .fail .signed then .ok o   -- retransmission
    else if o.up ≠ .locked then .error .at_most_one_resolution
    else if o.down = .absent ∨ o.down = .removed .fail then .ok { o with up := .removing .fail .sent }
    else .error .fail_only_after_downstream_gone
  | .downAdd =>
    if o.up = .locked ∧ o.down = .absent then .ok { o with down := .adding .sent }
    else .error .forward_only_locked_in_once
  | .downSettle p =>
    if o.down = .locked then
      .ok { o with down := .removing (.settle p) .sent,
                   known := if H p = hash then p :: o.known else o.known }
    else if o.down = .removing (.settle p) .signed then .ok o   -- retransmission
    else .error .envDownSettle
  | .downFail =>
    if o.down = .locked then .ok { o with down := .removing .fail .sent }
    else if o.down = .removing .fail .signed then .ok o   -- retransmission
    else .error .envDownFail
  | .upSigPeer => .ok { o with up := o.up.sigO }
  | .upRevPeer => .ok { o with up := o.up.revO }
  | .upSigBob => .ok { o with up := o.up.sigR }
  | .upRevBob => .ok { o with up := o.up.revR }
  | .downSigBob => .ok { o with down := o.down.sigO }
  | .downRevBob =>
    if badSigned H hash o.down then .error .accept_invalid_preimage else .ok { o with down := o.down.revO }
  | .downSigPeer => .ok { o with down := o.down.sigR }
  | .downRevPeer => .ok { o with down := o.down.revR }
  | .restart => .ok { o with up := o.up.restart, down := o.down.restart }
  | .flapUp => .ok { o with up := o.up.restart }
  | .flapDown => .ok { o with down := o.down.restart }

end Monitor

/-- the wire event a model step shows in state `s` (`none`: internal step). -/
def Ev.wireIn {P : Type} (s : Pair P) : Ev P → Option (WEv P)
  | .upAdd => some .upAdd
  | .downSettle p => some (.downSettle p)
  | .downFail => some .downFail
  | .upSigPeer => some .upSigPeer | .upRevPeer => some .upRevPeer
  | .upSigBob => some .upSigBob | .upRevBob => some .upRevBob
  | .downSigBob => some .downSigBob | .downRevBob => some .downRevBob
  | .downSigPeer => some .downSigPeer | .downRevPeer => some .downRevPeer
  | .localReject _ => some .upFail
  | .sendDownAdd => some .downAdd
  | .resendDownAdd => some .downAdd
  | .relayUp (.settle p) => some (.upSettle p)
  | .relayUp .fail => some .upFail
  | .resendUp => match s.upDur with
    | some (.settle p) => some (.upSettle p)
    | some .fail => some .upFail
    | none => none
  | .resendDown => some .downFail
  | .restart => some .restart
  | _ => none

/-! ## all payments of a run; balances -/

/-- the fixed data of one forwarded payment. -/
structure Params (Hsh : Type) where
  hash : Hsh
  amtIn : Nat
  amtOut : Nat
  deriving Repr

/-- Bob's gain on the two channels from one payment, read off the abstract channel
projections: an incoming htlc irrevocably settled credits `amtIn` on the upstream channel,
an outgoing htlc irrevocably settled debits `amtOut` on the downstream channel. -/
def pairDelta {P Hsh : Type} (prm : Params Hsh) (up down : Life P) : Int :=
  (if up.settled then (prm.amtIn : Int) else 0) - (if down.settled then (prm.amtOut : Int) else 0)

/-- fee earned: only payments that succeeded (incoming htlc settled) count. -/
def pairFee {P Hsh : Type} (prm : Params Hsh) (up : Life P) : Int :=
  if up.settled then (prm.amtIn : Int) - (prm.amtOut : Int) else 0

def senderDebit {P Hsh : Type} (prm : Params Hsh) (up : Life P) : Int :=
  if up.settled then (prm.amtIn : Int) else 0

def receiverCredit {P Hsh : Type} (prm : Params Hsh) (down : Life P) : Int :=
  if down.settled then (prm.amtOut : Int) else 0

def sumInt {α : Type} (f : α → Int) : List α → Int
  | [] => 0
  | a :: as => f a + sumInt f as

abbrev GState (P Hsh : Type) := List (Params Hsh × Pair P)

def bobDelta {P Hsh : Type} (g : GState P Hsh) : Int := sumInt (fun x => pairDelta x.1 x.2.up x.2.down) g
def totalFees {P Hsh : Type} (g : GState P Hsh) : Int := sumInt (fun x => pairFee x.1 x.2.up) g
def totalDebit {P Hsh : Type} (g : GState P Hsh) : Int := sumInt (fun x => senderDebit x.1 x.2.up) g
def totalCredit {P Hsh : Type} (g : GState P Hsh) : Int := sumInt (fun x => receiverCredit x.1 x.2.down) g

end LndModel.C08
