/-
C08 — "A forwarding node never ends up out of pocket: hops settle or fail together".

Executable model (core Lean only) of the forwarder Bob at protocol level.

* `Life`   : abstract projection of ONE htlc on ONE channel, driven by the wire
             messages of the commitment protocol (update, commit_sig, revoke_and_ack,
             reconnect): offered → locked in on both commitments → removal offered
             (settle p | fail) → irrevocably removed.
* `Pair`   : one forwarded payment = incoming htlc (`up`, offered by the upstream peer),
             outgoing htlc (`down`, offered by Bob), Bob's circuit, the durable
             forwarding-package flags, the volatile mailboxes and history variables.
* `step`   : the transition function: peers' messages, Bob's internal steps
             (fwd filter, circuit commit, mailbox delivery, re-forwarding after a restart),
             Bob's outputs (downstream add, upstream settle / fail) and a crash-restart.
* `Obs`/`Obs.step` : the wire-visible projection of a pair and the MONITOR that the driver
             runs over the recorded wire trace (the model as an acceptor).  `Props.lean`
             proves that every step of the model is accepted by the monitor.
* `GState` : all payments of a run, channel-wide events, balances.

Preimages are symbolic: `P` is the type of preimages, `H : P → Hsh` the hash; the driver
instantiates `H` with SHA-256.

Code modelled (htlcswitch/link.go, switch.go, circuit_map.go, mailbox.go,
lnwallet/channel.go, channeldb/forwarding_package.go):
  processRemoteAdds      locked-in adds only; FwdFilter persisted (`setFwdFilter`) before
                         forwarding (`commitCircuit` = Switch.ForwardPackets/CommitCircuits,
                         packet into the outgoing link's mailbox); local reject = sendHTLCError
  handleDownstreamUpdateAdd  `sendDownAdd`; keystone opened when Bob signs (`downSigBob`)
  failAddPacket / MailBox.FailAdd / half-open circuit after restart   `switchFail`
  processRemoteUpdateFulfillHTLC  `downSettle p`: preimage check, pipelined to the switch
  ReceiveRevocation fwd pkg + processRemoteSettleFails   `downRevPeer` reaching `removed`
  handlePacketSettle/Fail + mailbox + processLocalUpdateFulfill/FailHTLC   `relayUp`
  SettleHTLC/FailHTLC SourceRef/DestRef/ClosedCircuitKey in the CommitDiff   `upSigBob`
  Switch.reforwardResponses / link.resolveFwdPkgs   `refwdResp`, `reforward`
  pendingSettleFails acked on the AckEventTicker    `ackDup`
-/
namespace LndModel.C08

/-- progress of one update (add or removal) through the commitment dance:
`sent` by its author → covered by the author's commit_sig (`signed`) → acked by the other
side's revoke_and_ack (`acked`) → covered by the other side's commit_sig (`csigned`) →
(author's revoke_and_ack) irrevocable. -/
inductive Stage where
  | sent | signed | acked | csigned
  deriving DecidableEq, Repr, Inhabited

/-- how an htlc is resolved. -/
inductive Res (P : Type) where
  | settle (p : P)
  | fail
  deriving DecidableEq, Repr, Inhabited

/-- life cycle of one htlc on one channel. -/
inductive Life (P : Type) where
  | absent
  | adding (st : Stage)
  | locked
  | removing (r : Res P) (st : Stage)
  | removed (r : Res P)
  deriving DecidableEq, Repr, Inhabited

namespace Life
variable {P : Type}

/-- commit_sig sent by the OFFERER of the htlc. -/
def sigO : Life P → Life P
  | .adding .sent => .adding .signed
  | .removing r .acked => .removing r .csigned
  | l => l

/-- commit_sig sent by the RECEIVER of the htlc (the party that may settle / fail it). -/
def sigR : Life P → Life P
  | .adding .acked => .adding .csigned
  | .removing r .sent => .removing r .signed
  | l => l

/-- revoke_and_ack sent by the offerer. -/
def revO : Life P → Life P
  | .adding .csigned => .locked
  | .removing r .signed => .removing r .acked
  | l => l

/-- revoke_and_ack sent by the receiver. -/
def revR : Life P → Life P
  | .adding .signed => .adding .acked
  | .removing r .csigned => .removed r
  | l => l

/-- reconnect (channel_reestablish): updates not covered by a signature are forgotten. -/
def restart : Life P → Life P
  | .adding .sent => .absent
  | .removing _ .sent => .locked
  | l => l

/-- the resolution Bob/the peer has irrevocably decided (covered by a signature). -/
def resolvedSigned : Life P → Option (Res P)
  | .removing _ .sent => none
  | .removing r _ => some r
  | .removed r => some r
  | _ => none

/-- the resolution currently offered or done (any stage). -/
def res? : Life P → Option (Res P)
  | .removing r _ => some r
  | .removed r => some r
  | _ => none

def removedRes : Life P → Option (Res P)
  | .removed r => some r
  | _ => none

/-- the add is covered by the offerer's signature (it can no longer be forgotten). -/
def committed : Life P → Bool
  | .absent => false
  | .adding .sent => false
  | _ => true

/-- nothing in flight for this htlc. -/
def stable : Life P → Bool
  | .absent => true
  | .locked => true
  | .removed _ => true
  | _ => false

/-- no htlc on the commitments (what `ActiveHtlcs() = ∅` and no pending update mean). -/
def gone : Life P → Bool
  | .absent => true
  | .removed _ => true
  | _ => false

def settled : Life P → Bool
  | .removed (.settle _) => true
  | _ => false

end Life

/-- Bob's circuit for the payment (circuit_map.go; C07 models the map itself). -/
inductive Circ where
  | absent     -- never committed (or locally rejected)
  | halfOpen   -- CommitCircuits done, no keystone
  | opened     -- keystone set (Bob signed the outgoing add)
  | closing    -- a response is on its way upstream (volatile `closed` set)
  | deleted    -- DeleteCircuits after Bob signed the upstream resolution
  deriving DecidableEq, Repr, Inhabited

structure Pair (P : Type) where
  up : Life P := .absent
  down : Life P := .absent
  circ : Circ := .absent
  /-- durable: FwdFilter bit of the add (set before forwarding). -/
  fwdFilter : Bool := false
  /-- durable: AckFilter bit of the add (set with Bob's signature of the upstream resolution). -/
  addAcked : Bool := false
  /-- durable: the settle/fail entry of the outgoing channel's forwarding package. -/
  resp : Option (Res P) := none
  /-- durable: SettleFailFilter bit. -/
  respAcked : Bool := false
  /-- volatile: the add packet sits in the outgoing link's mailbox. -/
  mbAdd : Bool := false
  /-- volatile: a response packet sits in the incoming link's mailbox. -/
  mbResp : Option (Res P) := none
  -- history variables
  /-- valid preimages received on the outgoing htlc. -/
  known : List P := []
  /-- every resolution message sent upstream (newest first). -/
  sentUp : List (Res P) := []
  /-- upstream resolutions covered by a Bob signature. -/
  signedUp : List (Res P) := []
  /-- the outgoing add was covered by a Bob signature. -/
  downCommitted : Bool := false
  /-- number of update_add sent downstream. -/
  downAdds : Nat := 0
  /-- environment flag: the downstream peer failed an htlc it had already fulfilled. -/
  envBad : Bool := false
  deriving Repr, DecidableEq

inductive Ev (P : Type) where
  -- peers
  | upAdd
  | downSettle (p : P)
  | downFail
  -- commitment protocol, upstream channel (the peer is the offerer of `up`)
  | upSigPeer | upRevPeer | upSigBob | upRevBob
  -- commitment protocol, downstream channel (Bob is the offerer of `down`)
  | downSigBob | downRevBob | downSigPeer | downRevPeer
  -- Bob, internal
  | setFwdFilter | commitCircuit | reforward | switchFail | refwdResp | ackDup
  -- Bob, outputs
  | localReject | sendDownAdd | relayUp (r : Res P)
  -- retransmission after a reconnect of an update whose signature was not acknowledged
  | resendUp | resendDown
  -- crash + restart of the node, reconnect of both channels
  | restart
  deriving Repr

section Step
variable {P Hsh : Type} [DecidableEq P] [DecidableEq Hsh] (H : P → Hsh) (hash : Hsh)

/-- Bob's revoke_and_ack on the downstream channel is impossible while the peer's
signed update is a fulfill with a wrong preimage (the link failed when it arrived). -/
def badSigned : Life P → Bool
  | .removing (.settle p) .signed => decide (H p ≠ hash)
  | _ => false

def stepUpSigBob (s : Pair P) : Pair P :=
  match s.up with
  | .removing r .sent =>
    { s with up := .removing r .signed
             signedUp := r :: s.signedUp
             addAcked := true
             circ := if s.circ = .absent then .absent else .deleted
             mbResp := none
             respAcked := s.respAcked || decide (s.resp = some r) }
  | _ => { s with up := s.up.sigR }

def stepDownSigBob (s : Pair P) : Pair P :=
  match s.down with
  | .adding .sent => { s with down := .adding .signed, circ := .opened, downCommitted := true }
  | _ => { s with down := s.down.sigO }

def stepDownRevPeer (s : Pair P) : Pair P :=
  match s.down with
  | .removing r .csigned =>
    if s.circ = .opened then
      { s with down := .removed r, resp := some r, circ := .closing, mbResp := some r }
    else
      { s with down := .removed r, resp := some r }
  | _ => { s with down := s.down.revR }

def stepDownSettle (s : Pair P) (p : P) : Option (Pair P) :=
  if s.down = .locked then
    if H p = hash then
      if s.circ = .opened then
        some { s with down := .removing (.settle p) .sent, known := p :: s.known,
                      circ := .closing, mbResp := some (.settle p) }
      else
        some { s with down := .removing (.settle p) .sent, known := p :: s.known }
    else
      some { s with down := .removing (.settle p) .sent }
  else none

def stepRestart (s : Pair P) : Pair P :=
  { s with up := s.up.restart
           down := s.down.restart
           mbAdd := false
           mbResp := none
           circ := match s.circ with
             | .closing => if s.downCommitted then .opened else .halfOpen
             | c => c }

/-- one step of the model; `none` = the event is not enabled in `s`. -/
def step (s : Pair P) : Ev P → Option (Pair P)
  | .upAdd => if s.up = .absent then some { s with up := .adding .sent } else none
  | .downSettle p => stepDownSettle H hash s p
  | .downFail =>
    if s.down = .locked then
      some { s with down := .removing .fail .sent, envBad := s.envBad || !s.known.isEmpty }
    else none
  | .upSigPeer => some { s with up := s.up.sigO }
  | .upRevPeer => some { s with up := s.up.revO }
  | .upSigBob => some (stepUpSigBob s)
  | .upRevBob => some { s with up := s.up.revR }
  | .downSigBob => some (stepDownSigBob s)
  | .downRevBob => if badSigned H hash s.down then none else some { s with down := s.down.revO }
  | .downSigPeer => some { s with down := s.down.sigR }
  | .downRevPeer => some (stepDownRevPeer s)
  | .setFwdFilter =>
    if s.up = .locked ∧ s.fwdFilter = false ∧ s.circ = .absent then some { s with fwdFilter := true } else none
  | .commitCircuit =>
    if s.up = .locked ∧ s.fwdFilter = true ∧ s.circ = .absent then
      some { s with circ := .halfOpen, mbAdd := true }
    else none
  | .reforward =>
    if s.up = .locked ∧ s.fwdFilter = true ∧ s.addAcked = false ∧ s.circ = .halfOpen ∧
        s.mbAdd = false ∧ s.mbResp = none ∧ s.down = .absent then
      some { s with mbAdd := true }
    else none
  | .switchFail =>
    if s.circ = .halfOpen ∧ s.down = .absent ∧ s.mbResp = none then
      some { s with mbAdd := false, circ := .closing, mbResp := some .fail }
    else none
  | .refwdResp =>
    match s.resp with
    | some r =>
      if s.respAcked = false ∧ s.circ = .opened then some { s with circ := .closing, mbResp := some r }
      else none
    | none => none
  | .ackDup =>
    if s.resp.isSome ∧ s.circ = .deleted then some { s with respAcked := true } else none
  | .localReject =>
    if s.up = .locked ∧ s.fwdFilter = false ∧ s.circ = .absent then
      some { s with up := .removing .fail .sent, sentUp := .fail :: s.sentUp }
    else none
  | .sendDownAdd =>
    if s.mbAdd = true ∧ s.circ = .halfOpen ∧ s.down = .absent ∧ s.up = .locked then
      some { s with down := .adding .sent, mbAdd := false, downAdds := s.downAdds + 1 }
    else none
  | .relayUp r =>
    if s.mbResp = some r ∧ s.up = .locked then
      some { s with up := .removing r .sent, sentUp := r :: s.sentUp }
    else none
  | .resendUp => match s.up with
    | .removing _ .signed => some s
    | _ => none
  | .resendDown => match s.down with
    | .removing _ .signed => some s
    | _ => none
  | .restart => some (stepRestart s)

/-- run an event list; stops (returns `none`) at the first event that is not enabled. -/
def run (s : Pair P) : List (Ev P) → Option (Pair P)
  | [] => some s
  | e :: es => match step H hash s e with
    | some s' => run s' es
    | none => none

/-- "queues, mailboxes and forwarding packages are drained". -/
def Quiescent (s : Pair P) : Prop :=
  s.up.stable = true ∧ s.down.stable = true ∧ s.mbAdd = false ∧ s.mbResp = none ∧
  (s.up ≠ .absent → s.addAcked = true) ∧ (s.resp ≠ none → s.respAcked = true)

instance (s : Pair P) : Decidable (Quiescent s) := by unfold Quiescent; infer_instance

end Step

/-! ## wire-visible projection and the monitor -/

/-- what the wire shows of one pair. -/
structure Obs (P : Type) where
  up : Life P := .absent
  down : Life P := .absent
  known : List P := []
  deriving Repr, DecidableEq

def Pair.obs {P : Type} (s : Pair P) : Obs P := { up := s.up, down := s.down, known := s.known }

/-- wire events of one pair (what the harness records at the four channel ends). -/
inductive WEv (P : Type) where
  | upAdd | upSettle (p : P) | upFail
  | downAdd | downSettle (p : P) | downFail
  | upSigPeer | upRevPeer | upSigBob | upRevBob
  | downSigBob | downRevBob | downSigPeer | downRevPeer
  | restart
  /-- reconnect of the upstream / downstream channel only -/
  | flapUp | flapDown
  deriving Repr

/-- why the monitor rejects a wire event. The first five are violations by Bob; `env…`
means the PEER's message does not fit the trace so far (trace inconsistency, not Bob's fault). -/
inductive Clause where
  | settle_only_with_downstream_preimage
  | fail_only_after_downstream_gone
  | at_most_one_resolution
  | forward_only_locked_in_once
  | accept_invalid_preimage
  | envUpAdd | envDownSettle | envDownFail
  deriving DecidableEq, Repr

def Clause.name : Clause → String
  | .settle_only_with_downstream_preimage => "settle_only_with_downstream_preimage"
  | .fail_only_after_downstream_gone => "fail_only_after_downstream_gone"
  | .at_most_one_resolution => "at_most_one_resolution"
  | .forward_only_locked_in_once => "forward_only_locked_in_once"
  | .accept_invalid_preimage => "accept_invalid_preimage"
  | .envUpAdd => "env_up_add"
  | .envDownSettle => "env_down_settle"
  | .envDownFail => "env_down_fail"

def Clause.isEnv : Clause → Bool
  | .envUpAdd | .envDownSettle | .envDownFail => true
  | _ => false

section Monitor
variable {P Hsh : Type} [DecidableEq P] [DecidableEq Hsh] (H : P → Hsh) (hash : Hsh)

/-- THE MONITOR: one wire event of a pair against the pair's wire history so far. -/
def Obs.step (o : Obs P) : WEv P → Except Clause (Obs P)
  | .upAdd => if o.up = .absent then .ok { o with up := .adding .sent } else .error .envUpAdd
  | .upSettle p =>
    if o.up = .removing (.settle p) .signed then .ok o   -- retransmission
    else if o.up ≠ .locked then .error .at_most_one_resolution
    else if p ∈ o.known ∧ H p = hash then .ok { o with up := .removing (.settle p) .sent }
    else .error .settle_only_with_downstream_preimage
  | .upFail =>
    if o.up = .removing .fail .signed then .ok o   -- retransmission
    else if o.up ≠ .locked then .error .at_most_one_resolution
    else if o.down = .absent ∨ o.down = .removed .fail then .ok { o with up := .removing .fail .sent }
    else .error .fail_only_after_downstream_gone
  | .downAdd =>
    if o.up = .locked ∧ o.down = .absent then .ok { o with down := .adding .sent }
    else .error .forward_only_locked_in_once
  | .downSettle p =>
    if o.down = .locked then
      .ok { o with down := .removing (.settle p) .sent,
                   known := if H p = hash then p :: o.known else o.known }
    else if o.down = .removing (.settle p) .signed then .ok o   -- retransmission
    else .error .envDownSettle
  | .downFail =>
    if o.down = .locked then .ok { o with down := .removing .fail .sent }
    else if o.down = .removing .fail .signed then .ok o   -- retransmission
    else .error .envDownFail
  | .upSigPeer => .ok { o with up := o.up.sigO }
  | .upRevPeer => .ok { o with up := o.up.revO }
  | .upSigBob => .ok { o with up := o.up.sigR }
  | .upRevBob => .ok { o with up := o.up.revR }
  | .downSigBob => .ok { o with down := o.down.sigO }
  | .downRevBob =>
    if badSigned H hash o.down then .error .accept_invalid_preimage else .ok { o with down := o.down.revO }
  | .downSigPeer => .ok { o with down := o.down.sigR }
  | .downRevPeer => .ok { o with down := o.down.revR }
  | .restart => .ok { o with up := o.up.restart, down := o.down.restart }
  | .flapUp => .ok { o with up := o.up.restart }
  | .flapDown => .ok { o with down := o.down.restart }

end Monitor

/-- the wire event a model step shows (`none`: internal step). -/
def Ev.wire {P : Type} : Ev P → Option (WEv P)
  | .upAdd => some .upAdd
  | .downSettle p => some (.downSettle p)
  | .downFail => some .downFail
  | .upSigPeer => some .upSigPeer | .upRevPeer => some .upRevPeer
  | .upSigBob => some .upSigBob | .upRevBob => some .upRevBob
  | .downSigBob => some .downSigBob | .downRevBob => some .downRevBob
  | .downSigPeer => some .downSigPeer | .downRevPeer => some .downRevPeer
  | .localReject => some .upFail
  | .sendDownAdd => some .downAdd
  | .relayUp (.settle p) => some (.upSettle p)
  | .relayUp .fail => some .upFail
  | .restart => some .restart
  | _ => none

/-- the wire event of a retransmission depends on the state (which update is re-sent). -/
def Ev.wireIn {P : Type} (s : Pair P) : Ev P → Option (WEv P)
  | .resendUp => match s.up with
    | .removing (.settle p) _ => some (.upSettle p)
    | .removing .fail _ => some .upFail
    | _ => none
  | .resendDown => match s.down with
    | .removing (.settle p) _ => some (.downSettle p)
    | .removing .fail _ => some .downFail
    | _ => none
  | e => e.wire

/-! ## all payments of a run; balances -/

/-- the fixed data of one forwarded payment. -/
structure Params (Hsh : Type) where
  hash : Hsh
  amtIn : Nat
  amtOut : Nat
  deriving Repr

/-- Bob's gain on the two channels from one payment, read off the abstract channel
projections: an incoming htlc irrevocably settled credits `amtIn` on the upstream channel,
an outgoing htlc irrevocably settled debits `amtOut` on the downstream channel. -/
def pairDelta {P Hsh : Type} (prm : Params Hsh) (up down : Life P) : Int :=
  (if up.settled then (prm.amtIn : Int) else 0) - (if down.settled then (prm.amtOut : Int) else 0)

/-- fee earned: only payments that succeeded (incoming htlc settled) count. -/
def pairFee {P Hsh : Type} (prm : Params Hsh) (up : Life P) : Int :=
  if up.settled then (prm.amtIn : Int) - (prm.amtOut : Int) else 0

def senderDebit {P Hsh : Type} (prm : Params Hsh) (up : Life P) : Int :=
  if up.settled then (prm.amtIn : Int) else 0

def receiverCredit {P Hsh : Type} (prm : Params Hsh) (down : Life P) : Int :=
  if down.settled then (prm.amtOut : Int) else 0

def sumInt {α : Type} (f : α → Int) : List α → Int
  | [] => 0
  | a :: as => f a + sumInt f as

abbrev GState (P Hsh : Type) := List (Params Hsh × Pair P)

def bobDelta {P Hsh : Type} (g : GState P Hsh) : Int := sumInt (fun x => pairDelta x.1 x.2.up x.2.down) g
def totalFees {P Hsh : Type} (g : GState P Hsh) : Int := sumInt (fun x => pairFee x.1 x.2.up) g
def totalDebit {P Hsh : Type} (g : GState P Hsh) : Int := sumInt (fun x => senderDebit x.1 x.2.up) g
def totalCredit {P Hsh : Type} (g : GState P Hsh) : Int := sumInt (fun x => receiverCredit x.1 x.2.down) g

/-- a global event: either an event of payment `i`, or one that hits every payment
(`all`: commitment messages cover all htlcs of the channel, a restart hits everything;
a payment that is not on that channel simply sees `none`). -/
inductive GEv (P : Type) where
  | one (i : Nat) (e : Ev P)
  | all (f : Nat → Option (Ev P))

section Global
variable {P Hsh : Type} [DecidableEq P] [DecidableEq Hsh] (H : P → Hsh)

def gstepAll (f : Nat → Option (Ev P)) : Nat → GState P Hsh → Option (GState P Hsh)
  | _, [] => some []
  | i, (prm, s) :: rest =>
    match f i with
    | none => (gstepAll f (i + 1) rest).map ((prm, s) :: ·)
    | some e =>
      match step H prm.hash s e, gstepAll f (i + 1) rest with
      | some s', some rest' => some ((prm, s') :: rest')
      | _, _ => none

def gstepOne (e : Ev P) : Nat → GState P Hsh → Option (GState P Hsh)
  | _, [] => none
  | 0, (prm, s) :: rest => (step H prm.hash s e).map (fun s' => (prm, s') :: rest)
  | i + 1, x :: rest => (gstepOne e i rest).map (x :: ·)

def gstep (g : GState P Hsh) : GEv P → Option (GState P Hsh)
  | .one i e => gstepOne H e i g
  | .all f => gstepAll H f 0 g

def grun (g : GState P Hsh) : List (GEv P) → Option (GState P Hsh)
  | [] => some g
  | e :: es => match gstep H g e with
    | some g' => grun g' es
    | none => none

end Global

end LndModel.C08
