/-
C08 — every step preserves the invariant; reachable states satisfy it.
-/
import LndModel.C08.StepA
import LndModel.C08.StepB
import LndModel.C08.StepUp1
import LndModel.C08.StepUp2
import LndModel.C08.StepUp3
import LndModel.C08.StepDown1
import LndModel.C08.StepDown2
import LndModel.C08.StepRestart

set_option linter.unusedSectionVars false

namespace LndModel.C08
variable {P Hsh : Type} [DecidableEq P] [DecidableEq Hsh] (H : P → Hsh) (hash : Hsh)

/-- every step of the model preserves the invariant. -/
theorem Inv.step {s s' : Pair P} {e : Ev P} (hI : Inv H hash s) (h : step H hash s e = some s') :
    Inv H hash s' := by
  cases e with
  | upAdd  => exact inv_upAdd H hash hI h
  | downSettle p => exact inv_downSettle H hash p hI h
  | downFail  => exact inv_downFail H hash hI h
  | upSigPeer  => exact inv_upSigPeer H hash hI h
  | upRevPeer  => exact inv_upRevPeer H hash hI h
  | upRevBob  => exact inv_upRevBob H hash hI h
  | upSigBob  => exact inv_upSigBob H hash hI h
  | downSigPeer  => exact inv_downSigPeer H hash hI h
  | downSigBob  => exact inv_downSigBob H hash hI h
  | downRevPeer  => exact inv_downRevPeer H hash hI h
  | downRevBob  => exact inv_downRevBob H hash hI h
  | decide b => exact inv_decide H hash b hI h
  | localReject ref => exact inv_localReject H hash ref hI h
  | commitCircuit ref => exact inv_commitCircuit H hash ref hI h
  | refwdFail ref => exact inv_refwdFail H hash ref hI h
  | switchFail  => exact inv_switchFail H hash hI h
  | sendDownAdd  => exact inv_sendDownAdd H hash hI h
  | openKeystone  => exact inv_openKeystone H hash hI h
  | downSignPersist  => exact inv_downSignPersist H hash hI h
  | refwdResp  => exact inv_refwdResp H hash hI h
  | ackDup  => exact inv_ackDup H hash hI h
  | relayUp r => exact inv_relayUp H hash r hI h
  | dropSpurious  => exact inv_dropSpurious H hash hI h
  | upSignPersist  => exact inv_upSignPersist H hash hI h
  | deleteCircuit  => exact inv_deleteCircuit H hash hI h
  | resendUp  => exact inv_resendUp H hash hI h
  | resendDown  => exact inv_resendDown H hash hI h
  | resendDownAdd  => exact inv_resendDownAdd H hash hI h
  | restart  => exact inv_restart H hash hI h

/-- states reachable from the initial state by any interleaving of model steps. -/
inductive Reachable : Pair P → Prop where
  | init : Reachable {}
  | step {s s' : Pair P} (e : Ev P) : Reachable s → LndModel.C08.step H hash s e = some s' → Reachable s'

theorem Reachable.inv {s : Pair P} (h : Reachable H hash s) : Inv H hash s := by
  induction h with
  | init => exact Inv.init H hash
  | step e _ hs ih => exact ih.step H hash hs

theorem run_reachable {s s' : Pair P} (hs : Reachable H hash s) :
    ∀ {es : List (Ev P)}, run H hash s es = some s' → Reachable H hash s' := by
  intro es
  induction es generalizing s with
  | nil => intro h; simp [run] at h; exact h ▸ hs
  | cons e es ih =>
    intro h
    simp only [run] at h
    split at h
    · next s1 h1 => exact ih (Reachable.step e hs h1) h
    · cases h

end LndModel.C08
