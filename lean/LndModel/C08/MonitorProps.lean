/-
C08 — soundness of the executable monitor `Obs.step` against MODEL-FREE trace properties.

`Props.lean` proves that the monitor accepts every wire trace of the model
(`monitor_complete_for_model`) and that an accepted trace satisfies the settle property
(`monitor_sound_settle`).  This file adds, for ANY list of wire events the monitor accepts —
whether it comes from the model or from the implementation:

* the FAIL clause: every upstream `update_fail` (first transmission or retransmission) is
  preceded by a history in which the outgoing htlc was **never committed** (`NeverCommitted`:
  every downstream `update_add` so far was forgotten at a reconnect before Bob signed it) or
  **irrevocably removed by a fail** (`IrrevocablyFailed`: downstream `update_fail`, the peer's
  `commit_sig` on the same connection, then Bob's `revoke_and_ack`, Bob's `commit_sig` and the
  peer's `revoke_and_ack`, in this order).  Both are stated on positions of the trace; the `Life`
  automaton of the monitor does not occur in them.
* the QUIESCENCE clause: if the trace ends with no htlc of the payment on either channel and the
  downstream peer never failed after it had fulfilled with a valid preimage (`PeerConsistent`,
  a trace property), the incoming htlc was settled iff the outgoing one was; hence the balance
  equation over any family of accepted traces (`monitor_sound_forwarder_balance`).
* `forwarder_balance_trace`: every global run of the fixed (`byIndex`) model — any number of
  payments, any interleaving of payment-local events, channel-wide commitment messages,
  retransmissions and crash-restarts — shows per payment a wire trace the monitor accepts; if
  these traces end quiescent and peer-consistent, the forwarder's total moved by exactly the fees
  of the payments that succeeded.  Hypotheses and conclusion only mention the traces and what the
  monitor computes from them.
-/
import LndModel.C08.Props

set_option linter.unusedSectionVars false
set_option linter.unusedVariables false
set_option linter.unusedSimpArgs false

namespace LndModel.C08
variable {P Hsh : Type} [DecidableEq P] [DecidableEq Hsh] (H : P → Hsh) (hash : Hsh)

/-! ### the trace-level specification of the fail clause -/

/-- a reconnect of the downstream channel (whole-node restart or flap of that link). -/
def WEv.reconnDown : WEv P → Bool
  | .restart | .flapDown => true
  | _ => false

/-- **never committed**, as a grammar of traces: a trace is built from events other than a
downstream `update_add`, and from blocks `update_add … reconnect` that contain neither Bob's
`commit_sig` on that channel nor another add — an unsigned add is forgotten at the reconnect
(BOLT 2), so it was in no commitment. -/
inductive NeverCommitted : List (WEv P) → Prop
  | nil : NeverCommitted []
  | other {h : List (WEv P)} {w : WEv P} : NeverCommitted h → w ≠ .downAdd → NeverCommitted (h ++ [w])
  | forgotten {a c : List (WEv P)} {x : WEv P} : NeverCommitted a →
      (∀ w ∈ c, w ≠ .downSigBob ∧ w ≠ .downAdd) → x.reconnDown = true →
      NeverCommitted (a ++ .downAdd :: c ++ [x])

def NoReconn (c : List (WEv P)) : Prop := ∀ w ∈ c, w.reconnDown = false

/-- the trace contains a downstream `update_fail`, then — without a reconnect in between, so that
the signature covers it — the peer's `commit_sig`, and after that the events `t` in this order. -/
def FailChain (t h : List (WEv P)) : Prop :=
  ∃ a c d, h = a ++ .downFail :: c ++ .downSigPeer :: d ∧ NoReconn c ∧ t.Sublist d

/-- **irrevocably removed by a fail**: `update_fail`, the peer's `commit_sig`, Bob's
`revoke_and_ack`, Bob's `commit_sig`, the peer's `revoke_and_ack`. -/
def IrrevocablyFailed (h : List (WEv P)) : Prop := FailChain [.downRevBob, .downSigBob, .downRevPeer] h

/-- what must hold of the trace BEFORE an upstream `update_fail`. -/
def FailJustifiedAt (h : List (WEv P)) : Prop := NeverCommitted h ∨ IrrevocablyFailed h

/-- **positional reading of `NeverCommitted`**: every downstream `update_add` of such a trace is
followed by a reconnect of that channel with no `commit_sig` of Bob in between. -/
theorem NeverCommitted.add_forgotten {h : List (WEv P)} (hn : NeverCommitted h) {a b : List (WEv P)}
    (hs : h = a ++ .downAdd :: b) :
    ∃ c x d, b = c ++ x :: d ∧ x.reconnDown = true ∧ ∀ w ∈ c, w ≠ .downSigBob := by
  induction hn generalizing a b with
  | nil => simp at hs
  | @other h w hn hw ih =>
    rcases List.eq_nil_or_concat b with rfl | ⟨b', z, rfl⟩
    · have := List.append_inj' hs (by simp)
      simp only [List.cons.injEq, and_true] at this
      exact absurd this.2 hw
    · have h2 : h ++ [w] = (a ++ .downAdd :: b') ++ [z] := by simpa using hs
      have := List.append_inj' h2 (by simp)
      obtain ⟨c, x, d, hb, hx, hc⟩ := ih this.1
      exact ⟨c, x, d ++ [z], by simp [hb], hx, hc⟩
  | @forgotten a0 c0 x0 hn hc hx ih =>
    rcases List.eq_nil_or_concat b with rfl | ⟨b', z, rfl⟩
    · have := List.append_inj' hs (by simp)
      simp only [List.cons.injEq, and_true] at this
      rw [this.2] at hx
      simp [WEv.reconnDown] at hx
    · have h2 : (a0 ++ .downAdd :: c0) ++ [x0] = (a ++ .downAdd :: b') ++ [z] := by simpa using hs
      have h3 := List.append_inj' h2 (by simp)
      have hz : x0 = z := by simpa using h3.2
      subst hz
      rcases List.append_eq_append_iff.1 h3.1 with ⟨t, ht1, ht2⟩ | ⟨t, ht1, ht2⟩
      · -- a = a0 ++ t
        cases t with
        | nil =>
          simp only [List.nil_append, List.cons.injEq, true_and] at ht2
          subst ht2
          exact ⟨c0, x0, [], by simp, hx, fun w hw => (hc w hw).1⟩
        | cons y t' =>
          simp only [List.cons_append, List.cons.injEq] at ht2
          have : WEv.downAdd ∈ c0 := by rw [ht2.2]; simp
          exact absurd rfl (hc _ this).2
      · -- a0 = a ++ t
        cases t with
        | nil =>
          simp only [List.nil_append, List.cons.injEq, true_and] at ht2
          subst ht2
          exact ⟨b', x0, [], by simp, hx, fun w hw => (hc w hw).1⟩
        | cons y t' =>
          simp only [List.cons_append, List.cons.injEq] at ht2
          obtain ⟨rfl, rfl⟩ := ht2
          obtain ⟨c, x, d, hb, hx', hc'⟩ := ih ht1
          exact ⟨c, x, d ++ .downAdd :: c0 ++ [x0], by simp [hb], hx', hc'⟩

/-! ### history invariant of the monitor state -/

def AddPending (h : List (WEv P)) : Prop :=
  ∃ a c, h = a ++ .downAdd :: c ∧ NeverCommitted a ∧ ∀ w ∈ c, w ≠ .downSigBob ∧ w ≠ .downAdd

def FailPending (h : List (WEv P)) : Prop := ∃ a c, h = a ++ .downFail :: c ∧ NoReconn c

/-- what the monitor's downstream life cycle says about the trace so far. -/
def DownHist (h : List (WEv P)) : Life P → Prop
  | .absent => NeverCommitted h
  | .adding .sent => AddPending h
  | .removing .fail .sent => FailPending h
  | .removing .fail .signed => FailChain [] h
  | .removing .fail .acked => FailChain [.downRevBob] h
  | .removing .fail .csigned => FailChain [.downRevBob, .downSigBob] h
  | .removed .fail => FailChain [.downRevBob, .downSigBob, .downRevPeer] h
  | _ => True

def Hist (h : List (WEv P)) (o : Obs P) : Prop :=
  DownHist h o.down ∧ (o.up.res? = some .fail → FailJustifiedAt h)

theorem AddPending.of_nc {h : List (WEv P)} (hn : NeverCommitted h) : AddPending (h ++ [.downAdd]) :=
  ⟨h, [], by simp, hn, by simp⟩

theorem AddPending.snoc {h : List (WEv P)} {w : WEv P} (hp : AddPending h) (h1 : w ≠ .downSigBob)
    (h2 : w ≠ .downAdd) : AddPending (h ++ [w]) := by
  obtain ⟨a, c, rfl, hn, hc⟩ := hp
  refine ⟨a, c ++ [w], by simp, hn, ?_⟩
  intro x hx
  rcases List.mem_append.1 hx with hx | hx
  · exact hc x hx
  · simp only [List.mem_singleton] at hx; subst hx; exact ⟨h1, h2⟩

theorem AddPending.forget {h : List (WEv P)} {x : WEv P} (hp : AddPending h) (hx : x.reconnDown = true) :
    NeverCommitted (h ++ [x]) := by
  obtain ⟨a, c, rfl, hn, hc⟩ := hp
  have := NeverCommitted.forgotten hn hc hx
  simpa using this

theorem FailPending.new (h : List (WEv P)) : FailPending (h ++ [.downFail]) :=
  ⟨h, [], by simp, by simp [NoReconn]⟩

theorem FailPending.snoc {h : List (WEv P)} {w : WEv P} (hp : FailPending h) (hw : w.reconnDown = false) :
    FailPending (h ++ [w]) := by
  obtain ⟨a, c, rfl, hc⟩ := hp
  refine ⟨a, c ++ [w], by simp, ?_⟩
  intro x hx
  rcases List.mem_append.1 hx with hx | hx
  · exact hc x hx
  · simp only [List.mem_singleton] at hx; subst hx; exact hw

theorem FailPending.signed {h : List (WEv P)} (hp : FailPending h) : FailChain [] (h ++ [.downSigPeer]) := by
  obtain ⟨a, c, rfl, hc⟩ := hp
  exact ⟨a, c, [], by simp, hc, List.Sublist.refl _⟩

theorem FailChain.mono {t h : List (WEv P)} (w : WEv P) (hc : FailChain t h) : FailChain t (h ++ [w]) := by
  obtain ⟨a, c, d, rfl, hn, hs⟩ := hc
  exact ⟨a, c, d ++ [w], by simp, hn, hs.trans (List.sublist_append_left d [w])⟩

theorem FailChain.next {t h : List (WEv P)} (w : WEv P) (hc : FailChain t h) : FailChain (t ++ [w]) (h ++ [w]) := by
  obtain ⟨a, c, d, rfl, hn, hs⟩ := hc
  exact ⟨a, c, d ++ [w], by simp, hn, List.Sublist.append hs (List.Sublist.refl _)⟩

theorem FailJustifiedAt.snoc {h : List (WEv P)} {w : WEv P} (hj : FailJustifiedAt h) (hw : w ≠ .downAdd) :
    FailJustifiedAt (h ++ [w]) := by
  rcases hj with hj | hj
  · exact Or.inl (NeverCommitted.other hj hw)
  · exact Or.inr (FailChain.mono w hj)

/-- an event that does not change the downstream life cycle keeps its history fact, provided it
is not one of the events the fact of that particular state is sensitive to. -/
theorem DownHist.snoc_same {h : List (WEv P)} {w : WEv P} {l : Life P} (hd : DownHist h l)
    (h1 : l = .absent → w ≠ .downAdd)
    (h2 : l = .adding .sent → w ≠ .downSigBob ∧ w ≠ .downAdd)
    (h3 : l = .removing .fail .sent → w.reconnDown = false) : DownHist (h ++ [w]) l := by
  rcases l with _ | st | _ | ⟨r, st⟩ | r
  · exact NeverCommitted.other hd (h1 rfl)
  · cases st
    · exact AddPending.snoc hd (h2 rfl).1 (h2 rfl).2
    all_goals trivial
  · trivial
  · cases r with
    | settle p => cases st <;> trivial
    | fail =>
      cases st
      · exact FailPending.snoc hd (h3 rfl)
      all_goals exact FailChain.mono w hd
  · cases r with
    | settle p => trivial
    | fail => exact FailChain.mono w hd

/-- **the history invariant is kept by every event the monitor accepts.** -/
theorem Hist.step {h : List (WEv P)} {o o' : Obs P} {w : WEv P} (hH : Hist h o)
    (hs : Obs.step H hash o w = .ok o') : Hist (h ++ [w]) o' := by
  obtain ⟨hd, hu⟩ := hH
  rcases o with ⟨up, down, known⟩
  simp only at hd hu
  -- the downstream part
  have hdown : DownHist (h ++ [w]) o'.down := by
    cases w <;> simp only [Obs.step] at hs
    case upAdd => split at hs <;> cases hs; exact hd.snoc_same (by simp) (by simp) (by simp [WEv.reconnDown])
    case upSettle p =>
      (repeat' split at hs) <;> cases hs <;>
        exact hd.snoc_same (by simp) (by simp) (by simp [WEv.reconnDown])
    case upFail =>
      (repeat' split at hs) <;> cases hs <;>
        exact hd.snoc_same (by simp) (by simp) (by simp [WEv.reconnDown])
    case upSigPeer => cases hs; exact hd.snoc_same (by simp) (by simp) (by simp [WEv.reconnDown])
    case upRevPeer => cases hs; exact hd.snoc_same (by simp) (by simp) (by simp [WEv.reconnDown])
    case upSigBob => cases hs; exact hd.snoc_same (by simp) (by simp) (by simp [WEv.reconnDown])
    case upRevBob => cases hs; exact hd.snoc_same (by simp) (by simp) (by simp [WEv.reconnDown])
    case flapUp => cases hs; exact hd.snoc_same (by simp) (by simp) (by simp [WEv.reconnDown])
    case downAdd =>
      split at hs <;> cases hs
      next hg => obtain ⟨_, rfl⟩ := hg; exact AddPending.of_nc hd
    case downSettle p =>
      (repeat' split at hs) <;> cases hs <;> first | exact True.intro | (subst_vars; exact True.intro)
    case downFail =>
      (repeat' split at hs) <;> cases hs
      · exact FailPending.new h
      · next hg => subst hg; exact FailChain.mono _ hd
    case downSigBob =>
      cases hs
      rcases down with _ | st | _ | ⟨r, st⟩ | r
      · exact NeverCommitted.other hd (by simp)
      · cases st <;> trivial
      · trivial
      · cases r with
        | settle p => cases st <;> trivial
        | fail =>
          cases st
          · exact FailPending.snoc hd (by simp [WEv.reconnDown])
          · exact FailChain.mono _ hd
          · exact FailChain.next _ hd
          · exact FailChain.mono _ hd
      · cases r with
        | settle p => trivial
        | fail => exact FailChain.mono _ hd
    case downRevBob =>
      split at hs <;> cases hs
      rcases down with _ | st | _ | ⟨r, st⟩ | r
      · exact NeverCommitted.other hd (by simp)
      · cases st
        · exact AddPending.snoc hd (by simp) (by simp)
        all_goals trivial
      · trivial
      · cases r with
        | settle p => cases st <;> trivial
        | fail =>
          cases st
          · exact FailPending.snoc hd (by simp [WEv.reconnDown])
          · exact FailChain.next _ hd
          · exact FailChain.mono _ hd
          · exact FailChain.mono _ hd
      · cases r with
        | settle p => trivial
        | fail => exact FailChain.mono _ hd
    case downSigPeer =>
      cases hs
      rcases down with _ | st | _ | ⟨r, st⟩ | r
      · exact NeverCommitted.other hd (by simp)
      · cases st
        · exact AddPending.snoc hd (by simp) (by simp)
        all_goals trivial
      · trivial
      · cases r with
        | settle p => cases st <;> trivial
        | fail =>
          cases st
          · exact FailPending.signed hd
          · exact FailChain.mono _ hd
          · exact FailChain.mono _ hd
          · exact FailChain.mono _ hd
      · cases r with
        | settle p => trivial
        | fail => exact FailChain.mono _ hd
    case downRevPeer =>
      cases hs
      rcases down with _ | st | _ | ⟨r, st⟩ | r
      · exact NeverCommitted.other hd (by simp)
      · cases st
        · exact AddPending.snoc hd (by simp) (by simp)
        all_goals trivial
      · trivial
      · cases r with
        | settle p => cases st <;> trivial
        | fail =>
          cases st
          · exact FailPending.snoc hd (by simp [WEv.reconnDown])
          · exact FailChain.mono _ hd
          · exact FailChain.mono _ hd
          · exact FailChain.next _ hd
      · cases r with
        | settle p => trivial
        | fail => exact FailChain.mono _ hd
    case restart =>
      cases hs
      rcases down with _ | st | _ | ⟨r, st⟩ | r
      · exact NeverCommitted.other hd (by simp)
      · cases st
        · exact AddPending.forget hd (by simp [WEv.reconnDown])
        all_goals trivial
      · trivial
      · cases r with
        | settle p => cases st <;> trivial
        | fail =>
          cases st
          · trivial
          all_goals exact FailChain.mono _ hd
      · cases r with
        | settle p => trivial
        | fail => exact FailChain.mono _ hd
    case flapDown =>
      cases hs
      rcases down with _ | st | _ | ⟨r, st⟩ | r
      · exact NeverCommitted.other hd (by simp)
      · cases st
        · exact AddPending.forget hd (by simp [WEv.reconnDown])
        all_goals trivial
      · trivial
      · cases r with
        | settle p => cases st <;> trivial
        | fail =>
          cases st
          · trivial
          all_goals exact FailChain.mono _ hd
      · cases r with
        | settle p => trivial
        | fail => exact FailChain.mono _ hd
  refine ⟨hdown, ?_⟩
  -- the upstream part
  intro hres
  cases w <;> simp only [Obs.step] at hs
  case upFail =>
    (repeat' split at hs) <;> cases hs
    · -- retransmission
      exact (hu hres).snoc (by simp)
    · next hg =>
      rcases hg with hg | hg <;> subst hg
      · exact Or.inl (NeverCommitted.other hd (by simp))
      · exact Or.inr (FailChain.mono _ hd)
  case downAdd =>
    split at hs <;> cases hs
    next hg => obtain ⟨rfl, _⟩ := hg; simp [Life.res?] at hres
  case upAdd => split at hs <;> cases hs; simp [Life.res?] at hres
  case upSettle p =>
    (repeat' split at hs) <;> cases hs
    · exact (hu hres).snoc (by simp)
    · simp [Life.res?] at hres
  case downSettle p => (repeat' split at hs) <;> cases hs <;> exact (hu hres).snoc (by simp)
  case downFail => (repeat' split at hs) <;> cases hs <;> exact (hu hres).snoc (by simp)
  case downRevBob => split at hs <;> cases hs; exact (hu hres).snoc (by simp)
  case upSigPeer => cases hs; exact (hu (by simpa using hres)).snoc (by simp)
  case upRevPeer => cases hs; exact (hu (by simpa using hres)).snoc (by simp)
  case upSigBob => cases hs; exact (hu (by simpa using hres)).snoc (by simp)
  case upRevBob => cases hs; exact (hu (by simpa using hres)).snoc (by simp)
  case downSigBob => cases hs; exact (hu hres).snoc (by simp)
  case downSigPeer => cases hs; exact (hu hres).snoc (by simp)
  case downRevPeer => cases hs; exact (hu hres).snoc (by simp)
  case restart => cases hs; exact (hu (Life.res_restart hres)).snoc (by simp)
  case flapUp => cases hs; exact (hu (Life.res_restart hres)).snoc (by simp)
  case flapDown => cases hs; exact (hu hres).snoc (by simp)

/-- at the moment the monitor accepts an upstream fail, the history before it justifies it. -/
theorem Hist.accept_fail {h : List (WEv P)} {o o' : Obs P} (hH : Hist h o)
    (hs : Obs.step H hash o .upFail = .ok o') : FailJustifiedAt h := by
  obtain ⟨hd, hu⟩ := hH
  rcases o with ⟨up, down, known⟩
  simp only [Obs.step] at hs hd hu
  (repeat' split at hs) <;> cases hs
  · next hg => subst hg; exact hu (by simp [Life.res?])
  · next hg =>
    rcases hg with hg | hg <;> subst hg
    · exact Or.inl hd
    · exact Or.inr hd

/-- **monitor soundness, fail clause** (general form): if the monitor state `o` is consistent
with the history `hist` and the monitor accepts `ws`, then every upstream fail in `ws` is
justified by the trace before it. -/
theorem monitor_sound_fail_from {o o' : Obs P} {ws hist : List (WEv P)} (hH : Hist hist o)
    (h : obsRun H hash o ws = .ok o') {pre post : List (WEv P)} (hs : ws = pre ++ .upFail :: post) :
    FailJustifiedAt (hist ++ pre) := by
  induction ws generalizing o hist pre with
  | nil => cases pre <;> simp at hs
  | cons w ws ih =>
    simp only [obsRun] at h
    split at h
    · next o1 h1 =>
      cases pre with
      | nil =>
        simp only [List.nil_append, List.cons.injEq] at hs
        obtain ⟨rfl, _⟩ := hs
        simpa using hH.accept_fail H hash h1
      | cons x pre =>
        simp only [List.cons_append, List.cons.injEq] at hs
        obtain ⟨rfl, hs⟩ := hs
        have := ih (hH.step H hash h1) h hs
        simpa using this
    · cases h

/-- **monitor soundness, fail clause**: in ANY wire trace the monitor accepts from its initial
state — from the model or from the implementation — every upstream `update_fail` (first
transmission or retransmission) comes only after the outgoing htlc was irrevocably removed by a
fail, or while it was never committed. -/
theorem monitor_sound_fail {o' : Obs P} {ws pre post : List (WEv P)}
    (h : obsRun H hash ({} : Obs P) ws = .ok o') (hs : ws = pre ++ .upFail :: post) :
    NeverCommitted pre ∨ IrrevocablyFailed pre := by
  have hH : Hist ([] : List (WEv P)) ({} : Obs P) := ⟨NeverCommitted.nil, by simp [Life.res?]⟩
  have := monitor_sound_fail_from H hash hH h hs
  simp only [List.nil_append] at this
  exact this

/-- **fail_only_after_downstream_gone as a statement about the wire traces of the model**: in the
trace of every run (any interleaving, crashes, retransmissions) every upstream fail is preceded by
a trace in which the outgoing htlc was never committed or irrevocably failed. -/
theorem fail_only_after_downstream_gone_trace {s : Pair P} {es : List (Ev P)}
    (h : run H hash {} es = some s) {pre post : List (WEv P)}
    (hs : wireTrace H hash {} es = pre ++ .upFail :: post) :
    NeverCommitted pre ∨ IrrevocablyFailed pre :=
  monitor_sound_fail H hash (monitor_complete_for_model H hash Reachable.init h) hs

/-! ### quiescence: hops settle or fail together, from the accepted trace alone -/

/-- the downstream peer is consistent on this trace: it never sends `update_fail` after it has
sent an `update_fulfill` with a valid preimage (`seen` = such a fulfill occurred before). -/
def PeerConsistent : Bool → List (WEv P) → Prop
  | _, [] => True
  | seen, .downSettle p :: ws => PeerConsistent (seen || decide (H p = hash)) ws
  | seen, .downFail :: ws => seen = false ∧ PeerConsistent seen ws
  | seen, _ :: ws => PeerConsistent seen ws

/-- what the monitor state implies at any point of an accepted, peer-consistent trace. -/
structure QInv (seen : Bool) (o : Obs P) : Prop where
  up_fail : o.up.res? = some .fail → o.down = .absent ∨ o.down = .removed .fail
  up_settle : ∀ p, o.up.res? = some (.settle p) → p ∈ o.known
  seen_known : seen = true ↔ o.known ≠ []
  known_down : o.known ≠ [] → o.down = .locked ∨ ∃ r, o.down.res? = some r
  known_nofail : o.known ≠ [] → o.down.res? ≠ some .fail
  early : o.up = .absent ∨ (∃ st, o.up = .adding st) → o.down = .absent
  valid_known : ∀ p, o.down.res? = some (.settle p) → H p = hash → o.known ≠ []

theorem QInv.init : QInv H hash false ({} : Obs P) := by
  constructor <;> simp [Life.res?]

/-- the flag after one event. -/
def seenAfter (seen : Bool) : WEv P → Bool
  | .downSettle p => seen || decide (H p = hash)
  | _ => seen

theorem PeerConsistent.cons {seen : Bool} {w : WEv P} {ws : List (WEv P)}
    (h : PeerConsistent H hash seen (w :: ws)) :
    PeerConsistent H hash (seenAfter H hash seen w) ws ∧ (w = .downFail → seen = false) := by
  cases w <;> simp only [PeerConsistent, seenAfter] at h ⊢ <;> first | exact ⟨h, by simp⟩ | exact ⟨h.2, fun _ => h.1⟩

/-- split the life cycle named by the argument into its 16 constructor forms. -/
macro "split_life" x:ident : tactic => `(tactic|
  (rcases $x:ident with _ | st | _ | ⟨r, st⟩ | r <;> (try cases st) <;> (try cases r)))

theorem QInv.step_up {seen : Bool} {o o' : Obs P} {w : WEv P} (hQ : QInv H hash seen o)
    (hs : Obs.step H hash o w = .ok o')
    (hw : w = .upSigPeer ∨ w = .upRevPeer ∨ w = .upSigBob ∨ w = .upRevBob ∨ w = .flapUp) :
    QInv H hash (seenAfter H hash seen w) o' := by
  obtain ⟨q1, q2, q3, q4, q5, q6, q7⟩ := hQ
  rcases o with ⟨up, down, known⟩
  simp only at q1 q2 q3 q4 q5 q6 q7
  rcases hw with rfl | rfl | rfl | rfl | rfl <;> simp only [Obs.step] at hs <;> cases hs <;>
    simp only [seenAfter] <;> (constructor <;> simp only []) <;>
    first
      | grind [Life.res?, Life.res_sigO, Life.res_sigR, Life.res_revO, Life.res_revR, Life.res_restart]
      | (split_life up <;> grind [Life.res?, Life.sigO, Life.sigR, Life.revO, Life.revR, Life.restart])

theorem QInv.step_down {seen : Bool} {o o' : Obs P} {w : WEv P} (hQ : QInv H hash seen o)
    (hs : Obs.step H hash o w = .ok o')
    (hw : w = .downSigPeer ∨ w = .downRevPeer ∨ w = .downSigBob ∨ w = .downRevBob ∨ w = .flapDown) :
    QInv H hash (seenAfter H hash seen w) o' := by
  obtain ⟨q1, q2, q3, q4, q5, q6, q7⟩ := hQ
  rcases o with ⟨up, down, known⟩
  simp only at q1 q2 q3 q4 q5 q6 q7
  rcases hw with rfl | rfl | rfl | rfl | rfl <;> simp only [Obs.step] at hs <;> (try split at hs) <;> cases hs <;>
    simp only [seenAfter] <;> (constructor <;> simp only []) <;>
    first
      | grind [Life.res?, Life.res_sigO, Life.res_sigR, Life.res_revO, Life.res_revR, Life.res_restart]
      | (split_life down <;> grind [Life.res?, Life.sigO, Life.sigR, Life.revO, Life.revR, Life.restart])

theorem QInv.step_restart {seen : Bool} {o o' : Obs P} (hQ : QInv H hash seen o)
    (hs : Obs.step H hash o .restart = .ok o') : QInv H hash seen o' := by
  obtain ⟨q1, q2, q3, q4, q5, q6, q7⟩ := hQ
  rcases o with ⟨up, down, known⟩
  simp only at q1 q2 q3 q4 q5 q6 q7
  simp only [Obs.step] at hs
  cases hs
  constructor <;> simp only []
  · intro h
    rcases q1 (Life.res_restart h) with h1 | h1 <;> subst h1 <;> simp [Life.restart]
  · intro p h; exact q2 p (Life.res_restart h)
  · exact q3
  · intro hk
    rcases q4 hk with h1 | ⟨r, h1⟩
    · subst h1; simp [Life.restart]
    · split_life down <;> simp_all [Life.restart, Life.res?]
  · intro hk h; exact q5 hk (Life.res_restart h)
  · intro h
    have : up = .absent ∨ ∃ st, up = .adding st := by
      split_life up <;> simp_all [Life.restart]
    have := q6 this
    subst this; rfl
  · intro p h hv; exact q7 p (Life.res_restart h) hv

theorem QInv.step_upd {seen : Bool} {o o' : Obs P} {w : WEv P} (hQ : QInv H hash seen o)
    (hs : Obs.step H hash o w = .ok o') (hf : w = .downFail → seen = false)
    (hw : w = .upAdd ∨ (∃ p, w = .upSettle p) ∨ w = .upFail ∨ w = .downAdd ∨ (∃ p, w = .downSettle p) ∨
      w = .downFail) :
    QInv H hash (seenAfter H hash seen w) o' := by
  obtain ⟨q1, q2, q3, q4, q5, q6, q7⟩ := hQ
  rcases o with ⟨up, down, known⟩
  simp only at q1 q2 q3 q4 q5 q6 q7
  rcases hw with rfl | ⟨p, rfl⟩ | rfl | rfl | ⟨p, rfl⟩ | rfl <;> simp only [Obs.step] at hs <;>
    (repeat' split at hs) <;> (try cases hs) <;>
    simp only [seenAfter] <;> (constructor <;> simp only []) <;>
    grind [Life.res?]

theorem QInv.step {seen : Bool} {o o' : Obs P} {w : WEv P} (hQ : QInv H hash seen o)
    (hs : Obs.step H hash o w = .ok o') (hf : w = .downFail → seen = false) :
    QInv H hash (seenAfter H hash seen w) o' := by
  cases w
  case restart => exact hQ.step_restart H hash hs
  case upSigPeer => exact hQ.step_up H hash hs (by simp)
  case upRevPeer => exact hQ.step_up H hash hs (by simp)
  case upSigBob => exact hQ.step_up H hash hs (by simp)
  case upRevBob => exact hQ.step_up H hash hs (by simp)
  case flapUp => exact hQ.step_up H hash hs (by simp)
  case downSigPeer => exact hQ.step_down H hash hs (by simp)
  case downRevPeer => exact hQ.step_down H hash hs (by simp)
  case downSigBob => exact hQ.step_down H hash hs (by simp)
  case downRevBob => exact hQ.step_down H hash hs (by simp)
  case flapDown => exact hQ.step_down H hash hs (by simp)
  all_goals exact hQ.step_upd H hash hs hf (by simp)

/-- **monitor soundness, quiescence clause**: any wire trace the monitor accepts, on which the
downstream peer is consistent, and which ends with no htlc of the payment on either channel, ends
with the incoming htlc settled iff the outgoing one was settled. -/
theorem monitor_sound_quiescent_from {seen : Bool} {o o' : Obs P} {ws : List (WEv P)} (hQ : QInv H hash seen o)
    (hpc : PeerConsistent H hash seen ws) (h : obsRun H hash o ws = .ok o') : ∃ seen', QInv H hash seen' o' := by
  induction ws generalizing o seen with
  | nil => simp only [obsRun] at h; cases h; exact ⟨seen, hQ⟩
  | cons w ws ih =>
    simp only [obsRun] at h
    split at h
    · next o1 h1 =>
      have hc := hpc.cons H hash
      exact ih (hQ.step H hash h1 hc.2) hc.1 h
    · cases h

theorem QInv.settled_eq {seen : Bool} {o : Obs P} (hQ : QInv H hash seen o) (hu : o.up.gone = true)
    (hd : o.down.gone = true) : o.up.settled = o.down.settled := by
  obtain ⟨q1, q2, q3, q4, q5, q6, q7⟩ := hQ
  rcases o with ⟨up, down, known⟩
  simp only at q1 q2 q3 q4 q5 q6 hu hd
  rcases up with _ | st | _ | ⟨r, st⟩ | r <;> simp [Life.gone] at hu
  · have := q6 (Or.inl rfl); subst this; rfl
  · cases r with
    | fail =>
      rcases q1 (by simp [Life.res?]) with h | h <;> subst h <;> rfl
    | settle p =>
      have hk : known ≠ [] := by
        have := q2 p (by simp [Life.res?])
        intro h; simp [h] at this
      rcases down with _ | st' | _ | ⟨r', st'⟩ | r' <;> simp [Life.gone] at hd
      · rcases q4 hk with h | ⟨r, h⟩ <;> simp [Life.res?] at h
      · cases r' with
        | settle p' => rfl
        | fail => exact absurd (by simp [Life.res?]) (q5 hk)

theorem monitor_sound_quiescent {o : Obs P} {ws : List (WEv P)}
    (h : obsRun H hash ({} : Obs P) ws = .ok o) (hpc : PeerConsistent H hash false ws)
    (hu : o.up.gone = true) (hd : o.down.gone = true) : o.up.settled = o.down.settled := by
  obtain ⟨seen', hQ⟩ := monitor_sound_quiescent_from H hash (QInv.init H hash) hpc h
  exact hQ.settled_eq H hash hu hd

/-- **monitor soundness, balance clause**: for ANY family of payments whose wire traces the
monitor accepts, each ending with no htlc left and a consistent downstream peer, the forwarder's
total over both channels moved by exactly the fees of the payments that succeeded, and sender
debits equal receiver credits plus those fees (amounts read off the final life cycles the
monitor computed from the traces). -/
theorem monitor_sound_forwarder_balance (l : List (Params Hsh × List (WEv P) × Obs P))
    (h : ∀ x ∈ l, obsRun H x.1.hash ({} : Obs P) x.2.1 = .ok x.2.2 ∧ PeerConsistent H x.1.hash false x.2.1 ∧
      x.2.2.up.gone = true ∧ x.2.2.down.gone = true) :
    sumInt (fun x => pairDelta x.1 x.2.2.up x.2.2.down) l = sumInt (fun x => pairFee x.1 x.2.2.up) l ∧
    sumInt (fun x => senderDebit x.1 x.2.2.up) l =
      sumInt (fun x => receiverCredit x.1 x.2.2.down) l + sumInt (fun x => pairFee x.1 x.2.2.up) l := by
  induction l with
  | nil => simp [sumInt]
  | cons x l ih =>
    have ih' := ih (fun y hy => h y (List.mem_cons_of_mem _ hy))
    obtain ⟨h1, h2, h3, h4⟩ := h x (by simp)
    have hst := monitor_sound_quiescent H x.1.hash h1 h2 h3 h4
    simp only [sumInt]
    unfold pairDelta pairFee senderDebit receiverCredit at *
    rw [← hst]
    cases x.2.2.up.settled <;> simp <;> omega

/-! ### the same over the wire traces of the global model (any number of payments) -/

section GlobalTrace

/-- the wire event of payment `j` shown by one global event. -/
def gwire (g : GS P Hsh) (j : Nat) : GEv P → Option (WEv P)
  | .one i e => if i = j then e.wireIn (g.st j) else none
  | .all f => match f j with
    | some e => e.wireIn (g.st j)
    | none => none

/-- the wire trace of payment `j` in a global run. -/
def gtrace (v : Variant) (g : GS P Hsh) (j : Nat) : List (GEv P) → List (WEv P)
  | [] => []
  | e :: es => match gstep H v g e with
    | some g' => (match gwire g j e with
        | some w => w :: gtrace v g' j es
        | none => gtrace v g' j es)
    | none => []

/-- in the `byIndex` variant a payment-local global step IS a step of the pair model for the
payment concerned (with the same wire event) and leaves every other payment alone. -/
theorem gstepOne_pair {g g' : GS P Hsh} (hG : GInv H g) {i : Nat} {e : Ev P}
    (h : gstepOne H .byIndex g i e = some g') :
    g'.n = g.n ∧ g'.prm = g.prm ∧ (∀ j, j ≠ i → g'.st j = g.st j) ∧
    ∃ e', step H (g.prm i).hash (g.st i) e' = some (g'.st i) ∧ e'.wireIn (g.st i) = e.wireIn (g.st i) := by
  unfold gstepOne at h
  split at h
  · next hi =>
    have hr := hG.reach i hi
    have hR := hG.refs i hi
    simp only [refOf] at h
    have fin : ∀ (e' : Ev P) (s' : Pair P), step H (g.prm i).hash (g.st i) e' = some s' →
        e'.wireIn (g.st i) = e.wireIn (g.st i) → g' = LndModel.C08.setSt g i s' →
        g'.n = g.n ∧ g'.prm = g.prm ∧ (∀ j, j ≠ i → g'.st j = g.st j) ∧
        ∃ e', step H (g.prm i).hash (g.st i) e' = some (g'.st i) ∧ e'.wireIn (g.st i) = e.wireIn (g.st i) := by
      intro e' s' hs hw hg
      subst hg
      refine ⟨rfl, rfl, ?_, e', ?_, hw⟩
      · intro j hj; simp [LndModel.C08.setSt, hj]
      · simpa [LndModel.C08.setSt] using hs
    cases e
    case localReject ref =>
      simp only [Option.map_eq_some_iff] at h
      obtain ⟨s', hs, rfl⟩ := h
      exact fin _ s' hs rfl rfl
    case commitCircuit ref =>
      simp only [Option.map_eq_some_iff] at h
      obtain ⟨s', hs, rfl⟩ := h
      exact fin _ s' hs rfl rfl
    case refwdFail ref =>
      simp only [Option.map_eq_some_iff] at h
      obtain ⟨s', hs, rfl⟩ := h
      exact fin _ s' hs rfl rfl
    case upSignPersist =>
      simp only [Option.map_eq_some_iff] at h
      obtain ⟨s', hs, rfl⟩ := h
      have hsome : (g.st i).respRef = some (g.loc i) := by
        have hI := hr.inv
        unfold stepUpSignPersist at hs
        split at hs
        · next r hu =>
          split at hs
          · next hd =>
            have := hI.resp_ref r hu hd
            rcases hx : (g.st i).respRef with _ | x
            · simp [hx] at this
            · rw [hR.2 x hx]
          · cases hs
        · cases hs
      have hs' : step H (g.prm i).hash (g.st i) .upSignPersist = some { s' with addAcked := true } := by
        simp only [LndModel.C08.step]
        unfold stepUpSignPersist at hs ⊢
        split at hs <;> (try cases hs)
        split at hs <;> cases hs
        simp_all
      exact fin _ _ hs' rfl (by rw [hsome, ackRef_self hi hG.inj])
    case dropSpurious =>
      simp only [Option.map_eq_some_iff] at h
      obtain ⟨s', hs, rfl⟩ := h
      have hsome : (g.st i).respRef = some (g.loc i) := by
        unfold stepDropSpurious at hs
        split at hs
        · split at hs
          · next hg =>
            rcases hx : (g.st i).respRef with _ | x
            · simp [hx] at hg
            · rw [hR.2 x hx]
          · cases hs
        · cases hs
      have hs' : step H (g.prm i).hash (g.st i) .dropSpurious = some { s' with addAcked := true } := by
        simp only [LndModel.C08.step]
        unfold stepDropSpurious at hs ⊢
        split at hs <;> (try cases hs)
        split at hs <;> cases hs
        simp_all
      exact fin _ _ hs' rfl (by rw [hsome, ackRef_self hi hG.inj])
    all_goals
      simp only [Option.map_eq_some_iff] at h
      obtain ⟨s', hs, rfl⟩ := h
      exact fin _ s' hs rfl rfl
  · cases h

/-- one global step of the fixed variant, seen from payment `j`: nothing on its wire and its
wire-visible state unchanged, or a wire event the monitor accepts. -/
theorem gstep_obs {g g' : GS P Hsh} (hG : GInv H g) {e : GEv P} (h : gstep H .byIndex g e = some g')
    {j : Nat} (hj : j < g.n) :
    g'.n = g.n ∧ g'.prm = g.prm ∧
    match gwire g j e with
    | none => (g'.st j).obs = (g.st j).obs
    | some w => Obs.step H (g.prm j).hash (g.st j).obs w = .ok (g'.st j).obs := by
  have hI := (hG.reach j hj).inv
  cases e with
  | one i e =>
    simp only [gstep] at h
    obtain ⟨hn, hp, hoth, e', hs, hw⟩ := gstepOne_pair H hG h
    refine ⟨hn, hp, ?_⟩
    simp only [gwire]
    by_cases hij : i = j
    · subst hij
      simp only [if_true]
      have := monitor_complete_step H _ hI hs
      rw [hw] at this
      exact this
    · simp only [hij, if_false]
      rw [hoth j (fun hji => hij hji.symm)]
  | all f =>
    simp only [gstep, gstepAll] at h
    split at h
    · next hall =>
      cases h
      refine ⟨rfl, rfl, ?_⟩
      simp only [gwire]
      rcases hfj : f j with _ | e
      · simp
      · simp only [hj, if_true]
        have := List.all_eq_true.1 hall j (List.mem_range.2 hj)
        simp only [hfj] at this
        rcases hs : step H (g.prm j).hash (g.st j) e with _ | s'
        · simp [hs] at this
        · simp only [Option.getD_some]
          exact monitor_complete_step H _ hI hs
    · cases h

theorem grun_n {g g' : GS P Hsh} (hG : GInv H g) {es : List (GEv P)} (hok : ∀ e ∈ es, GEvOk e)
    (h : grun H .byIndex g es = some g') : g'.n = g.n := by
  induction es generalizing g with
  | nil => simp only [grun] at h; cases h; rfl
  | cons e es ih =>
    simp only [grun] at h
    split at h
    · next g2 h2 =>
      have hG2 : GInv H g2 := by
        cases e with
        | one i e => exact hG.stepOne H h2
        | all f => exact hG.stepAll H (hok (.all f) (by simp)) h2
      have hn2 : g2.n = g.n := by
        cases e with
        | one i e =>
          simp only [gstep] at h2
          exact (gstepOne_pair H hG h2).1
        | all f =>
          simp only [gstep, gstepAll] at h2
          split at h2 <;> cases h2
          rfl
      rw [ih hG2 (fun x hx => hok x (List.mem_cons_of_mem _ hx)) h, hn2]
    · cases h

/-- **the per-payment wire traces of every global run of the fixed variant are accepted by the
monitor**, which ends in the projection of the payment's final state. -/
theorem gtrace_accepted {g g' : GS P Hsh} (hG : GInv H g) {es : List (GEv P)} (hok : ∀ e ∈ es, GEvOk e)
    (h : grun H .byIndex g es = some g') {j : Nat} (hj : j < g.n) :
    g'.n = g.n ∧ g'.prm = g.prm ∧
    obsRun H (g.prm j).hash (g.st j).obs (gtrace H .byIndex g j es) = .ok (g'.st j).obs := by
  induction es generalizing g with
  | nil => simp only [grun] at h; cases h; exact ⟨rfl, rfl, rfl⟩
  | cons e es ih =>
    simp only [grun] at h
    split at h
    · next g1 h1 =>
      have hG1 : GInv H g1 := by
        cases e with
        | one i e => exact hG.stepOne H h1
        | all f => exact hG.stepAll H (hok (.all f) (by simp)) h1
      obtain ⟨hn, hp, hob⟩ := gstep_obs H hG h1 hj
      have ih' := ih hG1 (fun x hx => hok x (List.mem_cons_of_mem _ hx)) h (by omega)
      refine ⟨by omega, by rw [ih'.2.1, hp], ?_⟩
      simp only [gtrace, h1]
      split at hob
      · next hw => simp only [hw]; rw [← hob, ← hp]; exact ih'.2.2
      · next w hw => simp only [hw, obsRun, hob]; rw [← hp]; exact ih'.2.2
    · cases h

/-- **forwarder_balance over model TRACES**: take ANY global run of the fixed (`byIndex`)
forwarder — any number of payments at distinct package locations, any interleaving of
payment-local events, channel-wide commitment messages, retransmissions and crash-restarts.
(1) the wire trace of every payment is accepted by the monitor; (2) if on every payment's trace
the downstream peer is consistent and the monitor's final state shows no htlc on either
channel, then the forwarder's total over both channels moved by exactly the fees of the payments
that succeeded and sender debits equal receiver credits plus those fees.  Hypotheses: the
traces and what the monitor computes from them; no hidden model state. -/
theorem forwarder_balance_trace [Inhabited Hsh] {l : List (Params Hsh × Ref)} {es : List (GEv P)}
    {g : GS P Hsh}
    (hinj : ∀ i j, i < l.length → j < l.length → (l[i]?.map (·.2)) = (l[j]?.map (·.2)) → i = j)
    (hok : ∀ e ∈ es, GEvOk e)
    (h : grun H .byIndex (GS.init l) es = some g)
    (hq : ∀ j, j < g.n → PeerConsistent H (g.prm j).hash false (gtrace H .byIndex (GS.init l) j es) ∧
      ∀ o, obsRun H (g.prm j).hash ({} : Obs P) (gtrace H .byIndex (GS.init l) j es) = .ok o →
        o.up.gone = true ∧ o.down.gone = true) :
    (∀ j, j < g.n → obsRun H (g.prm j).hash ({} : Obs P) (gtrace H .byIndex (GS.init l) j es) = .ok (g.st j).obs) ∧
    g.bobDelta = g.totalFees ∧ g.totalDebit = g.totalCredit + g.totalFees := by
  have hG0 : GInv H (GS.init (P := P) l) := GInv.init H hinj
  have hn : g.n = (GS.init (P := P) l).n := grun_n H hG0 hok h
  have hacc : ∀ j, j < g.n →
      obsRun H (g.prm j).hash ({} : Obs P) (gtrace H .byIndex (GS.init l) j es) = .ok (g.st j).obs := by
    intro j hj
    obtain ⟨_, hp, hrun⟩ := gtrace_accepted H hG0 hok h (j := j) (by omega)
    rw [hp]
    simpa [GS.init, Pair.obs] using hrun
  have hst : ∀ j ∈ List.range g.n, (g.st j).up.settled = (g.st j).down.settled := by
    intro j hj
    have hj' := List.mem_range.1 hj
    obtain ⟨hpc, hgone⟩ := hq j hj'
    have := hgone _ (hacc j hj')
    exact monitor_sound_quiescent H _ (hacc j hj') hpc this.1 this.2
  refine ⟨hacc, ?_, ?_⟩
  · unfold GS.bobDelta GS.totalFees
    exact sum_congr (fun j hj => pair_delta_eq_fee (hst j hj))
  · unfold GS.totalDebit GS.totalCredit GS.totalFees
    generalize List.range g.n = rng at hst
    induction rng with
    | nil => rfl
    | cons a rng ih =>
      simp only [sumInt]
      rw [ih (fun j hj => hst j (List.mem_cons_of_mem _ hj))]
      have := hst a (by simp)
      unfold senderDebit receiverCredit pairFee
      rw [← this]
      cases (g.st a).up.settled <;> simp <;> omega

end GlobalTrace

/-! ### non-vacuity: the hypotheses are satisfiable, the trace predicates are inhabited -/

section Examples

private def lockIn' : List (Ev Nat) := [.upAdd, .upSigPeer, .upRevBob, .upSigBob, .upRevPeer]
private def forward' : List (Ev Nat) :=
  [.decide true, .commitCircuit (2, 0), .sendDownAdd, .openKeystone, .downSignPersist,
   .downSigBob, .downRevPeer, .downSigPeer, .downRevBob]
private def finishUp' : List (Ev Nat) := [.upSigBob, .upRevPeer, .upSigPeer, .upRevBob]
private def finishDown' : List (Ev Nat) := [.downSigPeer, .downRevBob, .downSigBob, .downRevPeer]

/-- the outgoing htlc is failed by the peer, the fail becomes irrevocable, is handed over and
relayed upstream. -/
private def failRun : List (Ev Nat) :=
  lockIn' ++ forward' ++ [.downFail] ++ finishDown' ++ [.refwdResp, .relayUp .fail, .upSignPersist, .deleteCircuit] ++
  finishUp'

example : (run Hx 107 {} failRun).isSome = true := by decide

/-- its wire trace up to the upstream fail: the chain is there, literally. -/
example : wireTrace Hx 107 {} failRun =
    [.upAdd, .upSigPeer, .upRevBob, .upSigBob, .upRevPeer, .downAdd, .downSigBob, .downRevPeer, .downSigPeer,
     .downRevBob, .downFail, .downSigPeer, .downRevBob, .downSigBob, .downRevPeer] ++ .upFail ::
    [.upSigBob, .upRevPeer, .upSigPeer, .upRevBob] := by rfl

example : IrrevocablyFailed (P := Nat)
    [.upAdd, .upSigPeer, .upRevBob, .upSigBob, .upRevPeer, .downAdd, .downSigBob, .downRevPeer, .downSigPeer,
     .downRevBob, .downFail, .downSigPeer, .downRevBob, .downSigBob, .downRevPeer] :=
  ⟨[.upAdd, .upSigPeer, .upRevBob, .upSigBob, .upRevPeer, .downAdd, .downSigBob, .downRevPeer, .downSigPeer,
     .downRevBob], [], [.downRevBob, .downSigBob, .downRevPeer], rfl, by simp [NoReconn], List.Sublist.refl _⟩

/-- an add that was sent, never signed and forgotten at a restart was never committed. -/
example : NeverCommitted (P := Nat) [.upAdd, .downAdd, .upSigPeer, .restart] :=
  NeverCommitted.forgotten (a := [.upAdd]) (c := [.upSigPeer]) (NeverCommitted.other NeverCommitted.nil (by simp))
    (by simp) rfl

/-- … while a signed add is not: the monitor rejects an upstream fail at that point. -/
example : (match obsRun Hx 107 ({} : Obs Nat)
    [.upAdd, .upSigPeer, .upRevBob, .upSigBob, .upRevPeer, .downAdd, .downSigBob, .restart, .upFail] with
    | .error c => c == Clause.fail_only_after_downstream_gone
    | .ok _ => false) = true := by decide

/-- a complete successful forward: accepted, peer-consistent, ends with nothing left, both settled. -/
private def okRun' : List (Ev Nat) :=
  lockIn' ++ forward' ++ [.downSettle 7, .relayUp (.settle 7), .upSignPersist, .deleteCircuit] ++
  finishUp' ++ finishDown' ++ [.ackDup]

example : (match obsRun Hx 107 ({} : Obs Nat) (wireTrace Hx 107 {} okRun') with
    | .ok o => o.up.gone && o.down.gone && o.up.settled && o.down.settled
    | .error _ => false) = true := by decide

example : PeerConsistent Hx 107 false (wireTrace Hx 107 {} okRun') := by
  have : wireTrace Hx 107 {} okRun' =
      [.upAdd, .upSigPeer, .upRevBob, .upSigBob, .upRevPeer, .downAdd, .downSigBob, .downRevPeer, .downSigPeer,
       .downRevBob, .downSettle 7, .upSettle 7, .upSigBob, .upRevPeer, .upSigPeer, .upRevBob, .downSigPeer,
       .downRevBob, .downSigBob, .downRevPeer] := by rfl
  rw [this]
  simp [PeerConsistent]

/-- the hypotheses of `forwarder_balance_trace` hold for a global run with one failed-back and
one successful payment (fee 1), and its conclusion is not `0 = 0`. -/
private def twoPays : List (Params Nat × Ref) := [(⟨300, 400001, 400000⟩, (2, 0)), (⟨107, 30001, 30000⟩, (2, 1))]

private def twoRun : List (GEv Nat) :=
  (lockIn'.map (GEv.one 0)) ++ (lockIn'.map (GEv.one 1)) ++
  [.one 0 (.decide true), .one 1 (.decide true), .one 0 (.commitCircuit (0, 0)), .one 0 .switchFail,
   .one 0 (.relayUp .fail), .one 0 .upSignPersist, .one 0 .deleteCircuit] ++ (finishUp'.map (GEv.one 0)) ++
  [.all (fun _ => some .restart)] ++
  ((([.commitCircuit (0, 0), .sendDownAdd, .openKeystone, .downSignPersist,
     .downSigBob, .downRevPeer, .downSigPeer, .downRevBob, .downSettle 7, .relayUp (.settle 7),
     .upSignPersist, .deleteCircuit] : List (Ev Nat)) ++ finishUp' ++ finishDown').map (GEv.one 1))

private def twoState : GS Nat Nat := (grun Hx .byIndex (GS.init twoPays) twoRun).getD (GS.init [])

example : (grun Hx .byIndex (GS.init twoPays) twoRun).isSome = true := by decide
example : twoState.n = 2 ∧ twoState.bobDelta = 1 ∧ twoState.totalFees = 1 := by decide
example : gtrace Hx .byIndex (GS.init twoPays) 0 twoRun =
    [.upAdd, .upSigPeer, .upRevBob, .upSigBob, .upRevPeer, .upFail, .upSigBob, .upRevPeer, .upSigPeer, .upRevBob,
     .restart] := by rfl
example : (match obsRun Hx 107 ({} : Obs Nat) (gtrace Hx .byIndex (GS.init twoPays) 1 twoRun) with
    | .ok o => o.up.gone && o.down.gone && o.up.settled
    | .error _ => false) = true := by decide
example : (match obsRun Hx 300 ({} : Obs Nat) (gtrace Hx .byIndex (GS.init twoPays) 0 twoRun) with
    | .ok o => o.up.gone && o.down.gone && !o.up.settled
    | .error _ => false) = true := by decide

end Examples

end LndModel.C08
