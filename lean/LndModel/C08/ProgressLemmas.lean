/-
C08 — progress: the extra invariant `Inv2` is inductive; reachable states satisfy it.
-/
import LndModel.C08.Invariant
import LndModel.C08.Progress

set_option linter.unusedSimpArgs false
set_option linter.unusedVariables false
set_option linter.unusedSectionVars false

namespace LndModel.C08
variable {P Hsh : Type} [DecidableEq P] [DecidableEq Hsh] (H : P → Hsh) (hash : Hsh)

theorem Inv2.init : Inv2 ({} : Pair P) := by
  constructor <;> simp

/-- every step preserves `Inv2` (given `Inv` before the step). -/
theorem Inv2.step {s s' : Pair P} {e : Ev P} (hI : Inv H hash s) (hK : Inv2 s)
    (h : step H hash s e = some s') : Inv2 s' := by
  obtain ⟨a1, a2, a3, a4, a5, a6, a7, a8, a9, a10, a11, a12, a13, a14, a15, a16, a17, a18, a19, a20, a21, a22, a23, a24, a25, a26, a27, a28, a29, a30, a31, a32, a33, a34, a35⟩ := hI
  obtain ⟨k1, k2⟩ := hK
  rcases s with ⟨up, down, decided, fwdFilter, addAcked, circ, keystone, circRef, upDur, delPending, downDur,
    resp, respAcked, mbAdd, mbResp, mbRef, respRef, known, sentUp, downAdds, envBad⟩
  dsimp only at *
  cases e <;>
    simp only [LndModel.C08.step, stepDownSettle, stepDownRevPeer, stepUpSigBob, stepDownSigBob,
      stepUpSignPersist, stepDropSpurious, stepRestart] at h
  all_goals (constructor <;> grind [Life.resolvedSigned, Life.res?, Life.removedRes, Life.committed, badSigned,
    chanAccepts, Life.removedRes_eq_some, Option.isNone_iff_eq_none, Option.isSome_iff_exists,
    Life.sigO, Life.sigR, Life.revO, Life.revR, Life.restart])

end LndModel.C08
