/-
C08 — progress: every step chosen by the cooperative schedule is enabled and decreases the rank.
-/
import LndModel.C08.ProgressLemmas

set_option linter.unusedSimpArgs false
set_option linter.unusedVariables false
set_option linter.unusedSectionVars false

namespace LndModel.C08
variable {P Hsh : Type} [DecidableEq P] [DecidableEq Hsh] (H : P → Hsh) (hash : Hsh)

/-- what one scheduled step achieves: enabled, the rank drops, the peer is still honest. -/
def StepOk (s : Pair P) (e : Ev P) : Prop :=
  match step H hash s e with
  | some s' => s'.rank < s.rank ∧ Honest H hash s'
  | none => False

theorem sched_del {s : Pair P} (hH : Honest H hash s) (hd : s.delPending = true) :
    StepOk H hash s .deleteCircuit := by
  rcases s with ⟨up, down, decided, fwdFilter, addAcked, circ, keystone, circRef, upDur, delPending, downDur,
    resp, respAcked, mbAdd, mbResp, mbRef, respRef, known, sentUp, downAdds, envBad⟩
  dsimp only at *
  subst hd
  simp only [StepOk, LndModel.C08.step, Pair.rank, Honest] at hH ⊢
  refine ⟨?_, hH⟩
  cases circ <;> cases mbResp <;> simp [Circ.rank] <;> omega

macro "prog_grind" : tactic => `(tactic| grind [Life.resolvedSigned, Life.res?, Life.removedRes, Life.committed, badSigned,
    chanAccepts, Life.removedRes_eq_some, Option.isNone_iff_eq_none, Option.isSome_iff_exists,
    Life.sigO, Life.sigR, Life.revO, Life.revR, Life.rank, Circ.rank])

macro "unfold_ok" : tactic => `(tactic| simp only [StepOk, LndModel.C08.step, stepDownSettle, stepDownRevPeer, stepUpSigBob,
    stepDownSigBob, stepUpSignPersist, stepDropSpurious, Pair.rank, Honest] at *)

theorem sched_mbResp {s : Pair P} (hI : Inv H hash s) (hH : Honest H hash s) {r : Res P}
    (hm : s.mbResp = some r) :
    StepOk H hash s (if chanAccepts H hash s r then .relayUp r else .dropSpurious) := by
  obtain ⟨a1, a2, a3, a4, a5, a6, a7, a8, a9, a10, a11, a12, a13, a14, a15, a16, a17, a18, a19, a20, a21, a22, a23, a24, a25, a26, a27, a28, a29, a30, a31, a32, a33, a34, a35⟩ := hI
  rcases s with ⟨up, down, decided, fwdFilter, addAcked, circ, keystone, circRef, upDur, delPending, downDur,
    resp, respAcked, mbAdd, mbResp, mbRef, respRef, known, sentUp, downAdds, envBad⟩
  dsimp only at *
  subst hm
  split
  · next hc =>
    unfold_ok
    simp only [hc]
    prog_grind
  · next hc =>
    unfold_ok
    prog_grind

theorem sched_mbAdd {s : Pair P} (hI : Inv H hash s) (hH : Honest H hash s) (hm : s.mbAdd = true) :
    StepOk H hash s .sendDownAdd := by
  obtain ⟨a1, a2, a3, a4, a5, a6, a7, a8, a9, a10, a11, a12, a13, a14, a15, a16, a17, a18, a19, a20, a21, a22, a23, a24, a25, a26, a27, a28, a29, a30, a31, a32, a33, a34, a35⟩ := hI
  rcases s with ⟨up, down, decided, fwdFilter, addAcked, circ, keystone, circRef, upDur, delPending, downDur,
    resp, respAcked, mbAdd, mbResp, mbRef, respRef, known, sentUp, downAdds, envBad⟩
  dsimp only at *
  subst hm
  unfold_ok
  prog_grind

theorem sched_down {s : Pair P} {pol : Policy P} (hI : Inv H hash s) (hK : Inv2 s) (hH : Honest H hash s)
    (hV : pol.Valid H hash) (hdel : s.delPending = false) (hmr : s.mbResp = none) (hma : s.mbAdd = false)
    {e : Ev P} (he : schedDown pol s = some e) : StepOk H hash s e := by
  obtain ⟨k1, k2⟩ := hK
  rcases pol with ⟨fwd, ref, ans⟩
  obtain ⟨a1, a2, a3, a4, a5, a6, a7, a8, a9, a10, a11, a12, a13, a14, a15, a16, a17, a18, a19, a20, a21, a22, a23, a24, a25, a26, a27, a28, a29, a30, a31, a32, a33, a34, a35⟩ := hI
  rcases s with ⟨up, down, decided, fwdFilter, addAcked, circ, keystone, circRef, upDur, delPending, downDur,
    resp, respAcked, mbAdd, mbResp, mbRef, respRef, known, sentUp, downAdds, envBad⟩
  dsimp only at *
  simp only [Policy.Valid] at hV
  subst hdel hmr hma
  rcases down with _ | st | _ | ⟨r, st⟩ | r
  · simp only [schedDown] at he; split at he <;> cases he
    unfold_ok; prog_grind
  · cases st <;> simp only [schedDown] at he
    · split at he
      · cases he; cases circ <;> unfold_ok <;> prog_grind
      · split at he <;> cases he <;> unfold_ok <;> prog_grind
    all_goals (cases he; unfold_ok; prog_grind)
  · simp only [schedDown] at he; cases he
    cases ans with
    | fail => unfold_ok; prog_grind
    | settle p =>
      have := hV p rfl
      unfold_ok; prog_grind
  · cases st <;> simp only [schedDown] at he <;> cases he <;> cases r <;> unfold_ok <;> prog_grind
  · simp [schedDown] at he

theorem sched_up {s : Pair P} {pol : Policy P} (hI : Inv H hash s) (hK : Inv2 s) (hH : Honest H hash s)
    (hdel : s.delPending = false) (hmr : s.mbResp = none) (hma : s.mbAdd = false)
    (hdn : schedDown pol s = none) {e : Ev P} (he : schedUp pol s = some e) : StepOk H hash s e := by
  obtain ⟨k1, k2⟩ := hK
  rcases pol with ⟨fwd, ref, ans⟩
  obtain ⟨a1, a2, a3, a4, a5, a6, a7, a8, a9, a10, a11, a12, a13, a14, a15, a16, a17, a18, a19, a20, a21, a22, a23, a24, a25, a26, a27, a28, a29, a30, a31, a32, a33, a34, a35⟩ := hI
  rcases s with ⟨up, down, decided, fwdFilter, addAcked, circ, keystone, circRef, upDur, delPending, downDur,
    resp, respAcked, mbAdd, mbResp, mbRef, respRef, known, sentUp, downAdds, envBad⟩
  dsimp only at *
  subst hdel hmr hma
  have hdown : (down = .absent ∧ downDur = false) ∨ ∃ r, down = .removed r := by
    rcases down with _ | st | _ | ⟨r, st⟩ | r
    · cases downDur <;> simp [schedDown] at hdn ⊢
    · cases st <;> simp [schedDown] at hdn
      split at hdn
      · cases hdn
      · split at hdn <;> cases hdn
    · simp [schedDown] at hdn
    · cases st <;> simp [schedDown] at hdn
    · exact Or.inr ⟨r, rfl⟩
  clear hdn
  rcases up with _ | st | _ | ⟨r, st⟩ | r
  · simp [schedUp] at he
  · cases st <;> simp only [schedUp] at he <;> cases he <;> unfold_ok <;> prog_grind
  · cases upDur with
    | some r0 =>
      simp only [schedUp, Option.isSome_some, if_true] at he
      cases he
      rcases hdown with ⟨rfl, rfl⟩ | ⟨r, rfl⟩ <;> unfold_ok <;> prog_grind
    | none =>
      simp only [schedUp, Option.isSome_none, Bool.false_eq_true, if_false] at he
      split at he
      · cases he
        rcases hdown with ⟨rfl, rfl⟩ | ⟨r, rfl⟩ <;> unfold_ok <;> prog_grind
      · split at he
        · cases he
          rcases hdown with ⟨rfl, rfl⟩ | ⟨r, rfl⟩ <;> unfold_ok <;> prog_grind
        · cases circ <;> simp only at he
          · cases he
            rcases hdown with ⟨rfl, rfl⟩ | ⟨r, rfl⟩ <;> unfold_ok <;> prog_grind
          · split at he <;> cases he <;>
              rcases hdown with ⟨rfl, rfl⟩ | ⟨r, rfl⟩ <;> unfold_ok <;> prog_grind
          · cases he
          · cases he
  · cases st <;> simp only [schedUp] at he
    · cases upDur <;> simp only [Option.isSome_some, Option.isSome_none, Bool.false_eq_true, if_true, if_false] at he <;>
        cases he <;> unfold_ok <;> prog_grind
    all_goals (cases he; unfold_ok; prog_grind)
  · simp [schedUp] at he

/-- where both life-cycle schedules are idle. -/
theorem sched_idle {s : Pair P} {pol : Policy P} (hI : Inv H hash s) (hK : Inv2 s)
    (hdel : s.delPending = false) (hmr : s.mbResp = none) (hma : s.mbAdd = false)
    (hdn : schedDown pol s = none) (hup : schedUp pol s = none) :
    s.up.gone = true ∧ s.down.gone = true ∧ (s.circ = .absent ∨ s.circ = .deleted) ∧
    (s.up ≠ .absent → s.addAcked = true) := by
  obtain ⟨k1, k2⟩ := hK
  rcases pol with ⟨fwd, ref, ans⟩
  obtain ⟨a1, a2, a3, a4, a5, a6, a7, a8, a9, a10, a11, a12, a13, a14, a15, a16, a17, a18, a19, a20, a21, a22, a23, a24, a25, a26, a27, a28, a29, a30, a31, a32, a33, a34, a35⟩ := hI
  rcases s with ⟨up, down, decided, fwdFilter, addAcked, circ, keystone, circRef, upDur, delPending, downDur,
    resp, respAcked, mbAdd, mbResp, mbRef, respRef, known, sentUp, downAdds, envBad⟩
  dsimp only at *
  subst hdel hmr hma
  have hdown : (down = .absent ∧ downDur = false) ∨ ∃ r, down = .removed r := by
    rcases down with _ | st | _ | ⟨r, st⟩ | r
    · cases downDur <;> simp [schedDown] at hdn ⊢
    · cases st <;> simp [schedDown] at hdn
      split at hdn
      · cases hdn
      · split at hdn <;> cases hdn
    · simp [schedDown] at hdn
    · cases st <;> simp [schedDown] at hdn
    · exact Or.inr ⟨r, rfl⟩
  clear hdn
  rcases up with _ | st | _ | ⟨r, st⟩ | r
  · rcases hdown with ⟨rfl, rfl⟩ | ⟨r, rfl⟩ <;> cases circ <;> simp [Life.gone] <;> prog_grind
  · cases st <;> simp [schedUp] at hup
  · cases upDur with
    | some r0 => simp [schedUp] at hup
    | none =>
      simp only [schedUp, Option.isSome_none, Bool.false_eq_true, if_false] at hup
      split at hup
      · cases hup
      · split at hup
        · cases hup
        · cases circ <;> simp only at hup
          · cases hup
          · split at hup <;> cases hup
          · prog_grind
          · prog_grind
  · cases st <;> simp only [schedUp] at hup
    · split at hup <;> cases hup
    all_goals cases hup
  · rcases hdown with ⟨rfl, rfl⟩ | ⟨r', rfl⟩ <;> cases circ <;> simp [Life.gone] <;> prog_grind

theorem sched_tail {s : Pair P} {pol : Policy P} (hI : Inv H hash s) (hK : Inv2 s) (hH : Honest H hash s)
    (hdel : s.delPending = false) (hmr : s.mbResp = none) (hma : s.mbAdd = false)
    (hdn : schedDown pol s = none) (hup : schedUp pol s = none)
    (hr : s.resp.isSome ∧ s.respAcked = false) : StepOk H hash s .ackDup := by
  have hid := sched_idle H hash hI hK hdel hmr hma hdn hup
  rcases s with ⟨up, down, decided, fwdFilter, addAcked, circ, keystone, circRef, upDur, delPending, downDur,
    resp, respAcked, mbAdd, mbResp, mbRef, respRef, known, sentUp, downAdds, envBad⟩
  dsimp only at *
  obtain ⟨hr1, rfl⟩ := hr
  unfold_ok
  have hc : circ = Circ.deleted ∨ circ = Circ.absent := hid.2.2.1.symm
  simp only [hr1, hc, and_self, if_true]
  refine ⟨by simp, hH⟩

theorem sched_none {s : Pair P} {pol : Policy P} (hI : Inv H hash s) (hK : Inv2 s)
    (h : sched H hash pol s = none) : Quiescent s := by
  simp only [sched] at h
  split at h
  · cases h
  · next hdel =>
    split at h
    · split at h <;> cases h
    · next hmr =>
      split at h
      · cases h
      · next hma =>
        split at h
        · cases h
        · next hdn =>
          split at h
          · cases h
          · next hup =>
            split at h
            · cases h
            · next hr =>
              have hid := sched_idle H hash hI hK (by simpa using hdel) hmr (by simpa using hma) hdn hup
              refine ⟨hid.1, hid.2.1, by simpa using hma, hmr, hid.2.2.1, by simpa using hdel, hid.2.2.2, ?_⟩
              intro hne
              cases hra : s.respAcked
              · exact absurd ⟨Option.isSome_iff_ne_none.mpr hne, hra⟩ hr
              · rfl

/-- ONE STEP OF THE SCHEDULE: whatever `sched` picks in a state satisfying the invariants with an
honest peer is enabled, strictly decreases the rank and keeps the peer honest. -/
theorem sched_step {s : Pair P} {pol : Policy P} (hI : Inv H hash s) (hK : Inv2 s) (hH : Honest H hash s)
    (hV : pol.Valid H hash) {e : Ev P} (h : sched H hash pol s = some e) : StepOk H hash s e := by
  simp only [sched] at h
  split at h
  · next hdel => cases h; exact sched_del H hash hH hdel
  · next hdel =>
    split at h
    · next r hmr =>
      have := sched_mbResp H hash hI hH hmr
      split at h <;> cases h <;> simp_all
    · next hmr =>
      split at h
      · next hma => cases h; exact sched_mbAdd H hash hI hH hma
      · next hma =>
        have hdel' : s.delPending = false := by simpa using hdel
        have hma' : s.mbAdd = false := by simpa using hma
        split at h
        · next e' hdn => cases h; exact sched_down H hash hI hK hH hV hdel' hmr hma' hdn
        · next hdn =>
          split at h
          · next e' hup => cases h; exact sched_up H hash hI hK hH hdel' hmr hma' hdn hup
          · next hup =>
            split at h
            · next hr => cases h; exact sched_tail H hash hI hK hH hdel' hmr hma' hdn hup hr
            · cases h

end LndModel.C08
