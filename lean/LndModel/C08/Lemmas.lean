/-
C08 — the inductive invariant of the forwarder model and its preservation by every step.
-/
import LndModel.C08.Model

namespace LndModel.C08

/-! ### life-cycle facts -/
namespace Life
variable {P : Type}

@[simp] theorem resolvedSigned_sigO (l : Life P) : l.sigO.resolvedSigned = l.resolvedSigned := by
  rcases l with _ | st | _ | ⟨r, st⟩ | r <;> try rfl
  all_goals cases st <;> rfl
@[simp] theorem resolvedSigned_revO (l : Life P) : l.revO.resolvedSigned = l.resolvedSigned := by
  rcases l with _ | st | _ | ⟨r, st⟩ | r <;> try rfl
  all_goals cases st <;> rfl
@[simp] theorem resolvedSigned_revR (l : Life P) : l.revR.resolvedSigned = l.resolvedSigned := by
  rcases l with _ | st | _ | ⟨r, st⟩ | r <;> try rfl
  all_goals cases st <;> rfl
@[simp] theorem resolvedSigned_restart (l : Life P) : l.restart.resolvedSigned = l.resolvedSigned := by
  rcases l with _ | st | _ | ⟨r, st⟩ | r <;> try rfl
  all_goals cases st <;> rfl

@[simp] theorem res_sigO (l : Life P) : l.sigO.res? = l.res? := by
  rcases l with _ | st | _ | ⟨r, st⟩ | r <;> try rfl
  all_goals cases st <;> rfl
@[simp] theorem res_sigR (l : Life P) : l.sigR.res? = l.res? := by
  rcases l with _ | st | _ | ⟨r, st⟩ | r <;> try rfl
  all_goals cases st <;> rfl
@[simp] theorem res_revO (l : Life P) : l.revO.res? = l.res? := by
  rcases l with _ | st | _ | ⟨r, st⟩ | r <;> try rfl
  all_goals cases st <;> rfl
@[simp] theorem res_revR (l : Life P) : l.revR.res? = l.res? := by
  rcases l with _ | st | _ | ⟨r, st⟩ | r <;> try rfl
  all_goals cases st <;> rfl
theorem res_restart {l : Life P} {r : Res P} (h : l.restart.res? = some r) : l.res? = some r := by
  rcases l with _ | st | _ | ⟨r', st⟩ | r' <;> try (simp [restart, res?] at h)
  all_goals first | (cases st <;> simp_all [restart, res?]) | simp_all [restart, res?]

@[simp] theorem committed_sigR (l : Life P) : l.sigR.committed = l.committed := by
  rcases l with _ | st | _ | ⟨r, st⟩ | r <;> try rfl
  all_goals cases st <;> rfl
@[simp] theorem committed_revO (l : Life P) : l.revO.committed = l.committed := by
  rcases l with _ | st | _ | ⟨r, st⟩ | r <;> try rfl
  all_goals cases st <;> rfl
@[simp] theorem committed_revR (l : Life P) : l.revR.committed = l.committed := by
  rcases l with _ | st | _ | ⟨r, st⟩ | r <;> try rfl
  all_goals cases st <;> rfl
@[simp] theorem committed_restart (l : Life P) : l.restart.committed = l.committed := by
  rcases l with _ | st | _ | ⟨r, st⟩ | r <;> try rfl
  all_goals cases st <;> rfl

theorem not_committed {l : Life P} (h : l.committed = false) : l = .absent ∨ l = .adding .sent := by
  rcases l with _ | st | _ | ⟨r, st⟩ | r <;> try (simp [committed] at h)
  · exact Or.inl rfl
  · cases st <;> simp_all [committed]

end Life

macro "life_grind" : tactic => `(tactic| grind [Life.sigO, Life.sigR, Life.revO, Life.revR, Life.restart,
  Life.resolvedSigned, Life.res?, Life.removedRes, Life.committed, badSigned,
  Life.resolvedSigned_sigO, Life.resolvedSigned_revO, Life.resolvedSigned_revR, Life.resolvedSigned_restart,
  Life.res_sigO, Life.res_sigR, Life.res_revO, Life.res_revR, Life.res_restart,
  Life.committed_sigR, Life.committed_revO, Life.committed_revR, Life.committed_restart, Life.not_committed])

section
variable {P Hsh : Type} [DecidableEq P] [DecidableEq Hsh] (H : P → Hsh) (hash : Hsh)

/-- The inductive invariant tying Bob's hidden state (circuit, forwarding-package flags,
mailboxes, history) to the wire-visible life cycles of the two htlcs. -/
structure Inv (s : Pair P) : Prop where
  k_valid : ∀ p ∈ s.known, H p = hash
  mb_settle : ∀ p, s.mbResp = some (.settle p) → p ∈ s.known
  mb_fail : s.mbResp = some .fail →
    s.down = .removed .fail ∨ (s.down = .absent ∧ s.circ = .closing ∧ s.mbAdd = false)
  mb_add : s.mbAdd = true →
    s.circ = .halfOpen ∧ s.up = .locked ∧ s.fwdFilter = true ∧ s.down = .absent ∧ s.mbResp = none
  circ_absent : s.circ = .absent → s.down = .absent ∧ s.mbAdd = false ∧ s.mbResp = none
  circ_half : s.circ = .halfOpen → s.down = .absent ∨ s.down = .adding .sent
  circ_open : s.circ = .opened → s.down.committed = true
  circ_live : s.circ = .halfOpen ∨ s.circ = .opened ∨ s.circ = .closing →
    s.up = .locked ∨ ∃ r, s.up = .removing r .sent
  circ_deleted : s.circ = .deleted → s.up.resolvedSigned.isSome = true
  down_sent : s.down = .adding .sent → s.circ = .halfOpen
  down_live : s.down ≠ .absent → s.fwdFilter = true
  dcomm : s.downCommitted = s.down.committed
  signed_eq : s.signedUp = s.up.resolvedSigned.toList
  acked_add : s.addAcked = true → s.up.resolvedSigned.isSome = true
  resolved_circ : s.up.resolvedSigned.isSome = true → s.circ = .absent ∨ s.circ = .deleted
  up_early : (s.up = .absent ∨ ∃ st, s.up = .adding st) →
    s.circ = .absent ∧ s.fwdFilter = false ∧ s.addAcked = false ∧ s.sentUp = []
  up_settle : ∀ p, s.up.res? = some (.settle p) → p ∈ s.known
  up_fail : s.up.res? = some .fail → s.down = .absent ∨ s.down = .removed .fail
  known_down : s.known ≠ [] →
    s.down = .locked ∨ (∃ r st, s.down = .removing r st) ∨ ∃ r, s.down = .removed r
  down_fail : s.down.res? = some .fail → s.known = [] ∨ s.envBad = true
  resp_eq : s.resp = s.down.removedRes
  down_settle_valid : ∀ p st, s.down = .removing (.settle p) st →
    p ∈ s.known ∨ (H p ≠ hash ∧ (st = .sent ∨ st = .signed))
  down_removed_settle : ∀ p, s.down = .removed (.settle p) → p ∈ s.known
  resp_acked : s.respAcked = true → s.up.resolvedSigned.isSome = true
  sent_settle : ∀ p, Res.settle p ∈ s.sentUp → p ∈ s.known

theorem Inv.init : Inv H hash ({} : Pair P) := by
  constructor <;> simp [Life.resolvedSigned, Life.res?, Life.removedRes, Life.committed]


set_option linter.unusedSimpArgs false
set_option linter.unusedVariables false
set_option linter.unusedSectionVars false

theorem inv_upAdd {s s' : Pair P} (hI : Inv H hash s) (h : step H hash s (.upAdd) = some s') :
    Inv H hash s' := by
  obtain ⟨a1, a2, a3, a4, a5, a6, a7, a8, a9, a10, a11, a12, a13, a14, a15, a16, a17, a18, a19, a20, a21, a22, a23, a24, a25⟩ := hI
  simp only [LndModel.C08.step] at h; split at h <;> cases h; constructor <;> life_grind

theorem inv_downSettle {s s' : Pair P} (p : P) (hI : Inv H hash s) (h : step H hash s (.downSettle p) = some s') :
    Inv H hash s' := by
  obtain ⟨a1, a2, a3, a4, a5, a6, a7, a8, a9, a10, a11, a12, a13, a14, a15, a16, a17, a18, a19, a20, a21, a22, a23, a24, a25⟩ := hI
  simp only [LndModel.C08.step, stepDownSettle] at h
  split at h
  · split at h
    · split at h <;> cases h <;> constructor <;> life_grind
    · cases h; constructor <;> life_grind
  · cases h

theorem inv_downFail {s s' : Pair P} (hI : Inv H hash s) (h : step H hash s (.downFail) = some s') :
    Inv H hash s' := by
  obtain ⟨a1, a2, a3, a4, a5, a6, a7, a8, a9, a10, a11, a12, a13, a14, a15, a16, a17, a18, a19, a20, a21, a22, a23, a24, a25⟩ := hI
  simp only [LndModel.C08.step] at h; split at h <;> cases h; constructor <;> life_grind

theorem inv_upSigPeer {s s' : Pair P} (hI : Inv H hash s) (h : step H hash s (.upSigPeer) = some s') :
    Inv H hash s' := by
  obtain ⟨a1, a2, a3, a4, a5, a6, a7, a8, a9, a10, a11, a12, a13, a14, a15, a16, a17, a18, a19, a20, a21, a22, a23, a24, a25⟩ := hI
  rcases s with ⟨up, down, circ, fwdFilter, addAcked, resp, respAcked, mbAdd, mbResp, known, sentUp, signedUp, downCommitted, downAdds, envBad⟩
  dsimp only at *
  simp only [LndModel.C08.step] at h; cases h
  rcases up with _ | st | _ | ⟨r, st⟩ | r <;> (try cases st) <;> dsimp only [Life.sigO, Life.revO, Life.revR] at * <;> constructor <;> life_grind

theorem inv_upRevPeer {s s' : Pair P} (hI : Inv H hash s) (h : step H hash s (.upRevPeer) = some s') :
    Inv H hash s' := by
  obtain ⟨a1, a2, a3, a4, a5, a6, a7, a8, a9, a10, a11, a12, a13, a14, a15, a16, a17, a18, a19, a20, a21, a22, a23, a24, a25⟩ := hI
  rcases s with ⟨up, down, circ, fwdFilter, addAcked, resp, respAcked, mbAdd, mbResp, known, sentUp, signedUp, downCommitted, downAdds, envBad⟩
  dsimp only at *
  simp only [LndModel.C08.step] at h; cases h
  rcases up with _ | st | _ | ⟨r, st⟩ | r <;> (try cases st) <;> dsimp only [Life.sigO, Life.revO, Life.revR] at * <;> constructor <;> life_grind

theorem inv_upSigBob {s s' : Pair P} (hI : Inv H hash s) (h : step H hash s (.upSigBob) = some s') :
    Inv H hash s' := by
  obtain ⟨a1, a2, a3, a4, a5, a6, a7, a8, a9, a10, a11, a12, a13, a14, a15, a16, a17, a18, a19, a20, a21, a22, a23, a24, a25⟩ := hI
  rcases s with ⟨up, down, circ, fwdFilter, addAcked, resp, respAcked, mbAdd, mbResp, known, sentUp, signedUp, downCommitted, downAdds, envBad⟩
  dsimp only at *
  rcases up with _ | st | _ | ⟨r, st⟩ | r <;> (try cases st) <;> simp only [LndModel.C08.step, stepUpSigBob, Life.sigR] at h <;> cases h <;> constructor <;> life_grind

theorem inv_upRevBob {s s' : Pair P} (hI : Inv H hash s) (h : step H hash s (.upRevBob) = some s') :
    Inv H hash s' := by
  obtain ⟨a1, a2, a3, a4, a5, a6, a7, a8, a9, a10, a11, a12, a13, a14, a15, a16, a17, a18, a19, a20, a21, a22, a23, a24, a25⟩ := hI
  rcases s with ⟨up, down, circ, fwdFilter, addAcked, resp, respAcked, mbAdd, mbResp, known, sentUp, signedUp, downCommitted, downAdds, envBad⟩
  dsimp only at *
  simp only [LndModel.C08.step] at h; cases h
  rcases up with _ | st | _ | ⟨r, st⟩ | r <;> (try cases st) <;> dsimp only [Life.sigO, Life.revO, Life.revR] at * <;> constructor <;> life_grind

theorem inv_downSigBob {s s' : Pair P} (hI : Inv H hash s) (h : step H hash s (.downSigBob) = some s') :
    Inv H hash s' := by
  obtain ⟨a1, a2, a3, a4, a5, a6, a7, a8, a9, a10, a11, a12, a13, a14, a15, a16, a17, a18, a19, a20, a21, a22, a23, a24, a25⟩ := hI
  rcases s with ⟨up, down, circ, fwdFilter, addAcked, resp, respAcked, mbAdd, mbResp, known, sentUp, signedUp, downCommitted, downAdds, envBad⟩
  dsimp only at *
  rcases down with _ | st | _ | ⟨r, st⟩ | r <;> (try cases st) <;> simp only [LndModel.C08.step, stepDownSigBob, Life.sigO] at h <;> cases h <;> constructor <;> life_grind

theorem inv_downRevBob {s s' : Pair P} (hI : Inv H hash s) (h : step H hash s (.downRevBob) = some s') :
    Inv H hash s' := by
  obtain ⟨a1, a2, a3, a4, a5, a6, a7, a8, a9, a10, a11, a12, a13, a14, a15, a16, a17, a18, a19, a20, a21, a22, a23, a24, a25⟩ := hI
  rcases s with ⟨up, down, circ, fwdFilter, addAcked, resp, respAcked, mbAdd, mbResp, known, sentUp, signedUp, downCommitted, downAdds, envBad⟩
  dsimp only at *
  rcases down with _ | st | _ | ⟨r, st⟩ | r <;> (try cases st) <;> simp only [LndModel.C08.step, Life.revO] at h <;> split at h <;> cases h <;> constructor <;> life_grind

theorem inv_downSigPeer {s s' : Pair P} (hI : Inv H hash s) (h : step H hash s (.downSigPeer) = some s') :
    Inv H hash s' := by
  obtain ⟨a1, a2, a3, a4, a5, a6, a7, a8, a9, a10, a11, a12, a13, a14, a15, a16, a17, a18, a19, a20, a21, a22, a23, a24, a25⟩ := hI
  rcases s with ⟨up, down, circ, fwdFilter, addAcked, resp, respAcked, mbAdd, mbResp, known, sentUp, signedUp, downCommitted, downAdds, envBad⟩
  dsimp only at *
  simp only [LndModel.C08.step] at h; cases h
  rcases down with _ | st | _ | ⟨r, st⟩ | r <;> (try cases st) <;> dsimp only [Life.sigR] at * <;> constructor <;> life_grind

theorem inv_downRevPeer {s s' : Pair P} (hI : Inv H hash s) (h : step H hash s (.downRevPeer) = some s') :
    Inv H hash s' := by
  obtain ⟨a1, a2, a3, a4, a5, a6, a7, a8, a9, a10, a11, a12, a13, a14, a15, a16, a17, a18, a19, a20, a21, a22, a23, a24, a25⟩ := hI
  rcases s with ⟨up, down, circ, fwdFilter, addAcked, resp, respAcked, mbAdd, mbResp, known, sentUp, signedUp, downCommitted, downAdds, envBad⟩
  dsimp only at *
  rcases down with _ | st | _ | ⟨r, st⟩ | r <;> (try cases st) <;> simp only [LndModel.C08.step, stepDownRevPeer, Life.revR] at h <;> (try split at h) <;> cases h <;> constructor <;> life_grind

theorem inv_setFwdFilter {s s' : Pair P} (hI : Inv H hash s) (h : step H hash s (.setFwdFilter) = some s') :
    Inv H hash s' := by
  obtain ⟨a1, a2, a3, a4, a5, a6, a7, a8, a9, a10, a11, a12, a13, a14, a15, a16, a17, a18, a19, a20, a21, a22, a23, a24, a25⟩ := hI
  simp only [LndModel.C08.step] at h; split at h <;> cases h; constructor <;> life_grind

theorem inv_commitCircuit {s s' : Pair P} (hI : Inv H hash s) (h : step H hash s (.commitCircuit) = some s') :
    Inv H hash s' := by
  obtain ⟨a1, a2, a3, a4, a5, a6, a7, a8, a9, a10, a11, a12, a13, a14, a15, a16, a17, a18, a19, a20, a21, a22, a23, a24, a25⟩ := hI
  simp only [LndModel.C08.step] at h; split at h <;> cases h; constructor <;> life_grind

theorem inv_reforward {s s' : Pair P} (hI : Inv H hash s) (h : step H hash s (.reforward) = some s') :
    Inv H hash s' := by
  obtain ⟨a1, a2, a3, a4, a5, a6, a7, a8, a9, a10, a11, a12, a13, a14, a15, a16, a17, a18, a19, a20, a21, a22, a23, a24, a25⟩ := hI
  simp only [LndModel.C08.step] at h; split at h <;> cases h; constructor <;> life_grind

theorem inv_switchFail {s s' : Pair P} (hI : Inv H hash s) (h : step H hash s (.switchFail) = some s') :
    Inv H hash s' := by
  obtain ⟨a1, a2, a3, a4, a5, a6, a7, a8, a9, a10, a11, a12, a13, a14, a15, a16, a17, a18, a19, a20, a21, a22, a23, a24, a25⟩ := hI
  simp only [LndModel.C08.step] at h; split at h <;> cases h; constructor <;> life_grind

theorem inv_refwdResp {s s' : Pair P} (hI : Inv H hash s) (h : step H hash s (.refwdResp) = some s') :
    Inv H hash s' := by
  obtain ⟨a1, a2, a3, a4, a5, a6, a7, a8, a9, a10, a11, a12, a13, a14, a15, a16, a17, a18, a19, a20, a21, a22, a23, a24, a25⟩ := hI
  simp only [LndModel.C08.step] at h
  split at h
  · split at h <;> cases h; constructor <;> life_grind
  · cases h

theorem inv_ackDup {s s' : Pair P} (hI : Inv H hash s) (h : step H hash s (.ackDup) = some s') :
    Inv H hash s' := by
  obtain ⟨a1, a2, a3, a4, a5, a6, a7, a8, a9, a10, a11, a12, a13, a14, a15, a16, a17, a18, a19, a20, a21, a22, a23, a24, a25⟩ := hI
  simp only [LndModel.C08.step] at h; split at h <;> cases h; constructor <;> life_grind

theorem inv_localReject {s s' : Pair P} (hI : Inv H hash s) (h : step H hash s (.localReject) = some s') :
    Inv H hash s' := by
  obtain ⟨a1, a2, a3, a4, a5, a6, a7, a8, a9, a10, a11, a12, a13, a14, a15, a16, a17, a18, a19, a20, a21, a22, a23, a24, a25⟩ := hI
  simp only [LndModel.C08.step] at h; split at h <;> cases h; constructor <;> life_grind

theorem inv_sendDownAdd {s s' : Pair P} (hI : Inv H hash s) (h : step H hash s (.sendDownAdd) = some s') :
    Inv H hash s' := by
  obtain ⟨a1, a2, a3, a4, a5, a6, a7, a8, a9, a10, a11, a12, a13, a14, a15, a16, a17, a18, a19, a20, a21, a22, a23, a24, a25⟩ := hI
  simp only [LndModel.C08.step] at h; split at h <;> cases h; constructor <;> life_grind

theorem inv_relayUp {s s' : Pair P} (r : Res P) (hI : Inv H hash s) (h : step H hash s (.relayUp r) = some s') :
    Inv H hash s' := by
  obtain ⟨a1, a2, a3, a4, a5, a6, a7, a8, a9, a10, a11, a12, a13, a14, a15, a16, a17, a18, a19, a20, a21, a22, a23, a24, a25⟩ := hI
  simp only [LndModel.C08.step] at h; split at h <;> cases h; constructor <;> life_grind

theorem inv_resendUp {s s' : Pair P} (hI : Inv H hash s) (h : step H hash s (.resendUp) = some s') :
    Inv H hash s' := by
  obtain ⟨a1, a2, a3, a4, a5, a6, a7, a8, a9, a10, a11, a12, a13, a14, a15, a16, a17, a18, a19, a20, a21, a22, a23, a24, a25⟩ := hI
  simp only [LndModel.C08.step] at h; split at h <;> cases h; constructor <;> life_grind

theorem inv_resendDown {s s' : Pair P} (hI : Inv H hash s) (h : step H hash s (.resendDown) = some s') :
    Inv H hash s' := by
  obtain ⟨a1, a2, a3, a4, a5, a6, a7, a8, a9, a10, a11, a12, a13, a14, a15, a16, a17, a18, a19, a20, a21, a22, a23, a24, a25⟩ := hI
  simp only [LndModel.C08.step] at h; split at h <;> cases h; constructor <;> life_grind

theorem inv_restart {s s' : Pair P} (hI : Inv H hash s) (h : step H hash s (.restart) = some s') :
    Inv H hash s' := by
  obtain ⟨a1, a2, a3, a4, a5, a6, a7, a8, a9, a10, a11, a12, a13, a14, a15, a16, a17, a18, a19, a20, a21, a22, a23, a24, a25⟩ := hI
  rcases s with ⟨up, down, circ, fwdFilter, addAcked, resp, respAcked, mbAdd, mbResp, known, sentUp, signedUp, downCommitted, downAdds, envBad⟩
  dsimp only at *
  simp only [LndModel.C08.step, stepRestart] at h; cases h
  rcases up with _ | st | _ | ⟨r, st⟩ | r <;> (try cases st) <;> rcases down with _ | st | _ | ⟨r, st⟩ | r <;> (try cases st) <;> dsimp only [Life.restart] at * <;> constructor <;> life_grind

theorem Inv.step {s s' : Pair P} {e : Ev P} (hI : Inv H hash s) (h : step H hash s e = some s') :
    Inv H hash s' := by
  cases e with
  | upAdd  => exact inv_upAdd H hash hI h
  | downSettle p => exact inv_downSettle H hash p hI h
  | downFail  => exact inv_downFail H hash hI h
  | upSigPeer  => exact inv_upSigPeer H hash hI h
  | upRevPeer  => exact inv_upRevPeer H hash hI h
  | upSigBob  => exact inv_upSigBob H hash hI h
  | upRevBob  => exact inv_upRevBob H hash hI h
  | downSigBob  => exact inv_downSigBob H hash hI h
  | downRevBob  => exact inv_downRevBob H hash hI h
  | downSigPeer  => exact inv_downSigPeer H hash hI h
  | downRevPeer  => exact inv_downRevPeer H hash hI h
  | setFwdFilter  => exact inv_setFwdFilter H hash hI h
  | commitCircuit  => exact inv_commitCircuit H hash hI h
  | reforward  => exact inv_reforward H hash hI h
  | switchFail  => exact inv_switchFail H hash hI h
  | refwdResp  => exact inv_refwdResp H hash hI h
  | ackDup  => exact inv_ackDup H hash hI h
  | localReject  => exact inv_localReject H hash hI h
  | sendDownAdd  => exact inv_sendDownAdd H hash hI h
  | relayUp r => exact inv_relayUp H hash r hI h
  | resendUp  => exact inv_resendUp H hash hI h
  | resendDown  => exact inv_resendDown H hash hI h
  | restart  => exact inv_restart H hash hI h

end

end LndModel.C08
