/-
C08 — the inductive invariant of the forwarder model and its preservation by every step.
-/
import LndModel.C08.Model

namespace LndModel.C08

/-! ### life-cycle facts -/
namespace Life
variable {P : Type}

@[simp] theorem resolvedSigned_sigO (l : Life P) : l.sigO.resolvedSigned = l.resolvedSigned := by
  rcases l with _ | st | _ | ⟨r, st⟩ | r <;> try rfl
  all_goals cases st <;> rfl
@[simp] theorem resolvedSigned_revO (l : Life P) : l.revO.resolvedSigned = l.resolvedSigned := by
  rcases l with _ | st | _ | ⟨r, st⟩ | r <;> try rfl
  all_goals cases st <;> rfl
@[simp] theorem resolvedSigned_revR (l : Life P) : l.revR.resolvedSigned = l.resolvedSigned := by
  rcases l with _ | st | _ | ⟨r, st⟩ | r <;> try rfl
  all_goals cases st <;> rfl
@[simp] theorem resolvedSigned_restart (l : Life P) : l.restart.resolvedSigned = l.resolvedSigned := by
  rcases l with _ | st | _ | ⟨r, st⟩ | r <;> try rfl
  all_goals cases st <;> rfl

@[simp] theorem res_sigO (l : Life P) : l.sigO.res? = l.res? := by
  rcases l with _ | st | _ | ⟨r, st⟩ | r <;> try rfl
  all_goals cases st <;> rfl
@[simp] theorem res_sigR (l : Life P) : l.sigR.res? = l.res? := by
  rcases l with _ | st | _ | ⟨r, st⟩ | r <;> try rfl
  all_goals cases st <;> rfl
@[simp] theorem res_revO (l : Life P) : l.revO.res? = l.res? := by
  rcases l with _ | st | _ | ⟨r, st⟩ | r <;> try rfl
  all_goals cases st <;> rfl
@[simp] theorem res_revR (l : Life P) : l.revR.res? = l.res? := by
  rcases l with _ | st | _ | ⟨r, st⟩ | r <;> try rfl
  all_goals cases st <;> rfl
theorem res_restart {l : Life P} {r : Res P} (h : l.restart.res? = some r) : l.res? = some r := by
  rcases l with _ | st | _ | ⟨r', st⟩ | r' <;> try (simp [restart, res?] at h)
  all_goals first | (cases st <;> simp_all [restart, res?]) | simp_all [restart, res?]

@[simp] theorem committed_sigR (l : Life P) : l.sigR.committed = l.committed := by
  rcases l with _ | st | _ | ⟨r, st⟩ | r <;> try rfl
  all_goals cases st <;> rfl
@[simp] theorem committed_revO (l : Life P) : l.revO.committed = l.committed := by
  rcases l with _ | st | _ | ⟨r, st⟩ | r <;> try rfl
  all_goals cases st <;> rfl
@[simp] theorem committed_revR (l : Life P) : l.revR.committed = l.committed := by
  rcases l with _ | st | _ | ⟨r, st⟩ | r <;> try rfl
  all_goals cases st <;> rfl
@[simp] theorem committed_restart (l : Life P) : l.restart.committed = l.committed := by
  rcases l with _ | st | _ | ⟨r, st⟩ | r <;> try rfl
  all_goals cases st <;> rfl

theorem removedRes_eq_some {l : Life P} {r : Res P} : l.removedRes = some r ↔ l = .removed r := by
  rcases l with _ | st | _ | ⟨r', st⟩ | r' <;> simp [removedRes]
theorem removedRes_eq_none {l : Life P} : l.removedRes = none ↔ ∀ r, l ≠ .removed r := by
  rcases l with _ | st | _ | ⟨r', st⟩ | r' <;> simp [removedRes]
@[simp] theorem removedRes_restart (l : Life P) : l.restart.removedRes = l.removedRes := by
  rcases l with _ | st | _ | ⟨r, st⟩ | r <;> try rfl
  all_goals cases st <;> rfl
theorem restart_eq_absent {l : Life P} : l.restart = .absent ↔ l = .absent ∨ l = .adding .sent := by
  rcases l with _ | st | _ | ⟨r, st⟩ | r <;> try (simp [restart])
  all_goals cases st <;> simp [restart]
theorem restart_eq_adding {l : Life P} {st : Stage} : l.restart = .adding st ↔ l = .adding st ∧ st ≠ .sent := by
  rcases l with _ | st' | _ | ⟨r, st'⟩ | r <;> try (simp [restart])
  all_goals cases st' <;> cases st <;> simp [restart]
theorem restart_eq_locked {l : Life P} : l.restart = .locked ↔ l = .locked ∨ ∃ r, l = .removing r .sent := by
  rcases l with _ | st | _ | ⟨r, st⟩ | r <;> try (simp [restart])
  all_goals cases st <;> simp [restart]
theorem restart_eq_removing {l : Life P} {r : Res P} {st : Stage} :
    l.restart = .removing r st ↔ l = .removing r st ∧ st ≠ .sent := by
  rcases l with _ | st' | _ | ⟨r', st'⟩ | r' <;> try (simp [restart])
  all_goals cases st' <;> cases st <;> simp [restart]
theorem restart_eq_removed {l : Life P} {r : Res P} : l.restart = .removed r ↔ l = .removed r := by
  rcases l with _ | st | _ | ⟨r', st⟩ | r' <;> try (simp [restart])
  all_goals cases st <;> simp [restart]

theorem not_committed {l : Life P} (h : l.committed = false) : l = .absent ∨ l = .adding .sent := by
  rcases l with _ | st | _ | ⟨r, st⟩ | r <;> try (simp [committed] at h)
  · exact Or.inl rfl
  · cases st <;> simp_all [committed]

end Life

/-- for goals where the life cycles are constructor terms (after a case split). -/
macro "life_grind" : tactic => `(tactic| grind [Life.resolvedSigned, Life.res?, Life.removedRes, Life.committed, badSigned,
  Life.removedRes_eq_some])

/-- for the restart step: no case split, characterisation lemmas instead. -/
macro "restart_grind" : tactic => `(tactic| grind [Life.resolvedSigned, Life.res?, Life.removedRes, Life.committed,
  Life.resolvedSigned_restart, Life.res_restart, Life.committed_restart, Life.removedRes_restart, Life.not_committed,
  Life.restart_eq_absent, Life.restart_eq_adding, Life.restart_eq_locked, Life.restart_eq_removing,
  Life.restart_eq_removed])

section
variable {P Hsh : Type} [DecidableEq P] [DecidableEq Hsh] (H : P → Hsh) (hash : Hsh)

/-- The inductive invariant tying Bob's hidden state (circuit, forwarding-package flags,
mailboxes, history) to the wire-visible life cycles of the two htlcs. -/
structure Inv (s : Pair P) : Prop where
  k_valid : ∀ p ∈ s.known, H p = hash
  mb_settle : ∀ p, s.mbResp = some (.settle p) → p ∈ s.known
  mb_fail : s.mbResp = some .fail →
    s.down = .removed .fail ∨ (s.down = .absent ∧ s.circ = .closing ∧ s.mbAdd = false)
  mb_add : s.mbAdd = true →
    s.circ = .halfOpen ∧ s.up = .locked ∧ s.fwdFilter = true ∧ s.down = .absent ∧ s.mbResp = none
  circ_absent : s.circ = .absent → s.down = .absent ∧ s.mbAdd = false ∧ s.mbResp = none
  circ_half : s.circ = .halfOpen → s.down = .absent ∨ s.down = .adding .sent
  circ_open : s.circ = .opened → s.down.committed = true
  circ_live : s.circ = .halfOpen ∨ s.circ = .opened ∨ s.circ = .closing →
    s.up = .locked ∨ ∃ r, s.up = .removing r .sent
  circ_deleted : s.circ = .deleted → s.up.resolvedSigned.isSome = true
  down_sent : s.down = .adding .sent → s.circ = .halfOpen
  down_live : s.down ≠ .absent → s.fwdFilter = true
  dcomm : s.downCommitted = s.down.committed
  signed_eq : s.signedUp = s.up.resolvedSigned.toList
  acked_add : s.addAcked = true → s.up.resolvedSigned.isSome = true
  resolved_circ : s.up.resolvedSigned.isSome = true → s.circ = .absent ∨ s.circ = .deleted
  up_early : (s.up = .absent ∨ ∃ st, s.up = .adding st) →
    s.circ = .absent ∧ s.fwdFilter = false ∧ s.addAcked = false ∧ s.sentUp = []
  up_settle : ∀ p, s.up.res? = some (.settle p) → p ∈ s.known
  up_fail : s.up.res? = some .fail → s.down = .absent ∨ s.down = .removed .fail
  known_down : s.known ≠ [] →
    s.down = .locked ∨ (∃ r st, s.down = .removing r st) ∨ ∃ r, s.down = .removed r
  down_fail : s.down.res? = some .fail → s.known = [] ∨ s.envBad = true
  resp_eq : s.resp = s.down.removedRes
  down_settle_valid : ∀ p st, s.down = .removing (.settle p) st →
    p ∈ s.known ∨ (H p ≠ hash ∧ (st = .sent ∨ st = .signed))
  down_removed_settle : ∀ p, s.down = .removed (.settle p) → p ∈ s.known
  resp_acked : s.respAcked = true → s.up.resolvedSigned.isSome = true
  sent_settle : ∀ p, Res.settle p ∈ s.sentUp → p ∈ s.known
  mb_resp_circ : s.mbResp ≠ none → s.circ = .closing
  up_rem_sent : ∀ r, s.up = .removing r .sent → s.circ = .absent ∨ s.circ = .closing

theorem Inv.init : Inv H hash ({} : Pair P) := by
  constructor <;> simp [Life.resolvedSigned, Life.res?, Life.removedRes, Life.committed]

end

end LndModel.C08
