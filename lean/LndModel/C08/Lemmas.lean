/-
C08 — the inductive invariant of the forwarder model and its preservation by every step.
-/
import LndModel.C08.Model

namespace LndModel.C08

/-! ### life-cycle facts -/
namespace Life
variable {P : Type}

@[simp] theorem resolvedSigned_sigO (l : Life P) : l.sigO.resolvedSigned = l.resolvedSigned := by
  rcases l with _ | st | _ | ⟨r, st⟩ | r <;> try rfl
  all_goals cases st <;> rfl
@[simp] theorem resolvedSigned_revO (l : Life P) : l.revO.resolvedSigned = l.resolvedSigned := by
  rcases l with _ | st | _ | ⟨r, st⟩ | r <;> try rfl
  all_goals cases st <;> rfl
@[simp] theorem resolvedSigned_revR (l : Life P) : l.revR.resolvedSigned = l.resolvedSigned := by
  rcases l with _ | st | _ | ⟨r, st⟩ | r <;> try rfl
  all_goals cases st <;> rfl
@[simp] theorem resolvedSigned_restart (l : Life P) : l.restart.resolvedSigned = l.resolvedSigned := by
  rcases l with _ | st | _ | ⟨r, st⟩ | r <;> try rfl
  all_goals cases st <;> rfl

@[simp] theorem res_sigO (l : Life P) : l.sigO.res? = l.res? := by
  rcases l with _ | st | _ | ⟨r, st⟩ | r <;> try rfl
  all_goals cases st <;> rfl
@[simp] theorem res_sigR (l : Life P) : l.sigR.res? = l.res? := by
  rcases l with _ | st | _ | ⟨r, st⟩ | r <;> try rfl
  all_goals cases st <;> rfl
@[simp] theorem res_revO (l : Life P) : l.revO.res? = l.res? := by
  rcases l with _ | st | _ | ⟨r, st⟩ | r <;> try rfl
  all_goals cases st <;> rfl
@[simp] theorem res_revR (l : Life P) : l.revR.res? = l.res? := by
  rcases l with _ | st | _ | ⟨r, st⟩ | r <;> try rfl
  all_goals cases st <;> rfl
theorem res_restart {l : Life P} {r : Res P} (h : l.restart.res? = some r) : l.res? = some r := by
  rcases l with _ | st | _ | ⟨r', st⟩ | r' <;> try (simp [restart, res?] at h)
  all_goals first | (cases st <;> simp_all [restart, res?]) | simp_all [restart, res?]

@[simp] theorem committed_sigR (l : Life P) : l.sigR.committed = l.committed := by
  rcases l with _ | st | _ | ⟨r, st⟩ | r <;> try rfl
  all_goals cases st <;> rfl
@[simp] theorem committed_revO (l : Life P) : l.revO.committed = l.committed := by
  rcases l with _ | st | _ | ⟨r, st⟩ | r <;> try rfl
  all_goals cases st <;> rfl
@[simp] theorem committed_revR (l : Life P) : l.revR.committed = l.committed := by
  rcases l with _ | st | _ | ⟨r, st⟩ | r <;> try rfl
  all_goals cases st <;> rfl
@[simp] theorem committed_restart (l : Life P) : l.restart.committed = l.committed := by
  rcases l with _ | st | _ | ⟨r, st⟩ | r <;> try rfl
  all_goals cases st <;> rfl

theorem removedRes_eq_some {l : Life P} {r : Res P} : l.removedRes = some r ↔ l = .removed r := by
  rcases l with _ | st | _ | ⟨r', st⟩ | r' <;> simp [removedRes]
theorem removedRes_eq_none {l : Life P} : l.removedRes = none ↔ ∀ r, l ≠ .removed r := by
  rcases l with _ | st | _ | ⟨r', st⟩ | r' <;> simp [removedRes]
@[simp] theorem removedRes_restart (l : Life P) : l.restart.removedRes = l.removedRes := by
  rcases l with _ | st | _ | ⟨r, st⟩ | r <;> try rfl
  all_goals cases st <;> rfl
theorem restart_eq_absent {l : Life P} : l.restart = .absent ↔ l = .absent ∨ l = .adding .sent := by
  rcases l with _ | st | _ | ⟨r, st⟩ | r <;> try (simp [restart])
  all_goals cases st <;> simp [restart]
theorem restart_eq_adding {l : Life P} {st : Stage} : l.restart = .adding st ↔ l = .adding st ∧ st ≠ .sent := by
  rcases l with _ | st' | _ | ⟨r, st'⟩ | r <;> try (simp [restart])
  all_goals cases st' <;> cases st <;> simp [restart]
theorem restart_eq_locked {l : Life P} : l.restart = .locked ↔ l = .locked ∨ ∃ r, l = .removing r .sent := by
  rcases l with _ | st | _ | ⟨r, st⟩ | r <;> try (simp [restart])
  all_goals cases st <;> simp [restart]
theorem restart_eq_removing {l : Life P} {r : Res P} {st : Stage} :
    l.restart = .removing r st ↔ l = .removing r st ∧ st ≠ .sent := by
  rcases l with _ | st' | _ | ⟨r', st'⟩ | r' <;> try (simp [restart])
  all_goals cases st' <;> cases st <;> simp [restart]
theorem restart_eq_removed {l : Life P} {r : Res P} : l.restart = .removed r ↔ l = .removed r := by
  rcases l with _ | st | _ | ⟨r', st⟩ | r' <;> try (simp [restart])
  all_goals cases st <;> simp [restart]

theorem not_committed {l : Life P} (h : l.committed = false) : l = .absent ∨ l = .adding .sent := by
  rcases l with _ | st | _ | ⟨r, st⟩ | r <;> try (simp [committed] at h)
  · exact Or.inl rfl
  · cases st <;> simp_all [committed]

end Life

/-- for goals where the life cycles are constructor terms (after a case split). -/
macro "life_grind" : tactic => `(tactic| grind [Life.resolvedSigned, Life.res?, Life.removedRes, Life.committed, badSigned,
  chanAccepts, Life.removedRes_eq_some, Option.isNone_iff_eq_none, Option.isSome_iff_exists])

/-- for the restart step: no case split, characterisation lemmas instead. -/
macro "restart_grind" : tactic => `(tactic| grind [Life.resolvedSigned, Life.res?, Life.removedRes, Life.committed,
  Life.resolvedSigned_restart, Life.res_restart, Life.committed_restart, Life.removedRes_restart, Life.not_committed,
  Life.restart_eq_absent, Life.restart_eq_adding, Life.restart_eq_locked, Life.restart_eq_removing,
  Life.restart_eq_removed, Option.isNone_iff_eq_none, Option.isSome_iff_exists])

section
variable {P Hsh : Type} [DecidableEq P] [DecidableEq Hsh] (H : P → Hsh) (hash : Hsh)

/-- The inductive invariant tying Bob's hidden state (forwarding-package bits, circuit, keystone,
persisted commitments, mailboxes, history) to the wire-visible life cycles of the two htlcs. -/
structure Inv (s : Pair P) : Prop where
  k_valid : ∀ p ∈ s.known, H p = hash
  mb_settle : ∀ p, s.mbResp = some (.settle p) → p ∈ s.known
  mb_fail : s.mbResp = some .fail →
    s.down = .removed .fail ∨ (s.down = .absent ∧ s.downDur = false ∧ s.mbAdd = false ∧ s.keystone = false)
  mb_circ : s.mbResp ≠ none → s.circ = .closing ∧ (s.up = .locked ∨ s.upDur.isSome = true)
  mb_add : s.mbAdd = true →
    s.circ = .pending ∧ s.keystone = false ∧ s.up = .locked ∧ s.upDur = none ∧ s.down = .absent ∧
    s.downDur = false ∧ s.mbResp = none
  circ_absent : s.circ = .absent →
    s.down = .absent ∧ s.downDur = false ∧ s.mbAdd = false ∧ s.mbResp = none ∧ s.keystone = false ∧
    s.delPending = false ∧ s.resp = none ∧ (s.fwdFilter = true → s.upDur = none ∧ s.up.res? = none)
  nofwd : s.fwdFilter = false → s.circ = .absent
  nokey : s.keystone = false → (s.down = .absent ∨ s.down = .adding .sent) ∧ s.downDur = false
  ddur : s.down.committed = true → s.downDur = true
  circ_pending : s.circ = .pending → s.up = .locked ∨ s.upDur.isSome = true
  circ_live : s.circ = .pending ∨ s.circ = .closing →
    (s.up = .locked ∨ ∃ r, s.up = .removing r .sent) ∧ (s.upDur = none ∨ s.delPending = true)
  del_p : s.delPending = true → s.upDur.isSome = true ∧ (s.circ = .pending ∨ s.circ = .closing)
  circ_deleted : s.circ = .deleted → s.upDur.isSome = true ∧ s.addAcked = true
  up_sent : ∀ r, s.up = .removing r .sent → s.upDur = none ∨ s.upDur = some r
  up_signed : ∀ r, s.up.resolvedSigned = some r → s.upDur = some r ∧ s.delPending = false
  udur : ∀ r, s.upDur = some r → s.up = .locked ∨ s.up.res? = some r
  dur_acked : s.upDur.isSome = true → s.addAcked = true
  acked_add : s.addAcked = true → s.upDur.isSome = true
  up_settle : ∀ p, s.up.res? = some (.settle p) ∨ s.upDur = some (.settle p) → p ∈ s.known
  up_fail : s.up.res? = some .fail ∨ s.upDur = some .fail →
    (s.down = .absent ∧ s.downDur = false ∧ s.mbAdd = false) ∨ s.down = .removed .fail
  dec : s.decided = false → s.fwdFilter = false ∧ s.upDur = none ∧ s.up.res? = none ∧ s.sentUp = []
  decided_up : s.decided = true → s.up = .locked ∨ s.up.res? ≠ none
  known_down : s.known ≠ [] →
    s.down = .locked ∨ (∃ r st, s.down = .removing r st) ∨ ∃ r, s.down = .removed r
  down_fail : s.down.res? = some .fail → s.known = [] ∨ s.envBad = true
  resp_eq : s.resp = s.down.removedRes
  down_settle_valid : ∀ p st, s.down = .removing (.settle p) st →
    p ∈ s.known ∨ (H p ≠ hash ∧ (st = .sent ∨ st = .signed))
  down_removed_settle : ∀ p, s.down = .removed (.settle p) → p ∈ s.known
  resp_acked : s.respAcked = true → s.upDur.isSome = true
  sent_settle : ∀ p, Res.settle p ∈ s.sentUp → p ∈ s.known
  closing_key : s.circ = .closing → s.keystone = true ∨ (s.down = .absent ∧ s.downDur = false)
  resend_add : s.downDur = true → s.down = .absent → s.up = .locked ∧ s.upDur = none ∧ s.mbResp = none
  down_early : (∃ st, s.down = .adding st) → s.up = .locked ∧ s.upDur = none ∧ s.mbResp = none
  circ_ref : s.circ ≠ .absent → s.circRef.isSome = true
  mb_ref : s.mbResp ≠ none → s.respRef.isSome = true
  resp_ref : ∀ r, s.up = .removing r .sent → s.upDur = none → s.respRef.isSome = true

theorem Inv.init : Inv H hash ({} : Pair P) := by
  constructor <;> simp [Life.resolvedSigned, Life.res?, Life.removedRes, Life.committed]

end

end LndModel.C08
