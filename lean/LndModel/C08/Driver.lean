/-
C08 driver.  Reads the wire trace recorded by the Go harness at all four channel ends and
runs the MODEL AS AN ACCEPTOR over it: every payment pair is tracked by `Obs` and every
wire event is fed to `Obs.step` (Model.lean; `Props.lean` proves that every step of the
model is accepted by it).  Scheduling is nondeterministic, so nothing is diffed against a
model run; instead

  MONITOR  = an upstream settle/fail or a downstream add of Bob is not justified by the
             preceding trace (clauses of `Obs.step`), or a quiescence equality fails
             (balances, hops settle together, nothing dangling, payment results);
  MISMATCH = the trace itself is inconsistent (a peer message that does not fit, an htlc
             the acceptor still tracks although the snapshot shows none, unparsable line).

A case that did not reach quiescence (timeout, failed link, setup problem) is counted in
STAT as inconclusive and only its wire clauses are checked.
-/
import LndModel.Prelude.Lines
import LndModel.Prelude.Sha256
import LndModel.C08.Model
import LndModel.C08.BeaconDriver

open LndModel LndModel.Lines LndModel.C08

namespace LndModel.C08.Driver

/-- SHA-256 on hex strings (preimage → payment hash). -/
def hashHex (p : String) : String :=
  match hexBytes? p with
  | some bs => bytesHex (Sha256.sha256 bs)
  | none => "bad-hex"

structure PairRec where
  hash : String
  chUp : String
  idUp : Nat
  amtIn : Nat
  idDown : Option Nat := none
  amtOut : Nat := 0
  obs : Obs String := {}
  fwdCount : Nat := 0
  /-- the incoming add was forgotten at a reconnect and its id was taken by another htlc. -/
  dead : Bool := false
  /-- the INCOMING channel of this payment was flapped (link stopped, switch up) while the
  incoming htlc was locked in and nothing had been offered downstream: the precondition of the
  known finding F-C08-halfopen-circuit-lost-packet. -/
  inFlapLocked : Bool := false

structure PayRec where
  n : Nat
  dir : Nat
  kind : String
  hash : String
  pre : String
  amtIn : Nat
  amtOut : Nat
  result : String := ""
  inv : String := ""

structure EndRec where
  name : String
  localBal : Int
  remoteBal : Int
  htlcs : Nat
  active : Nat
  pending : Nat

structure St where
  caseId : String := "-"
  kind : String := ""
  status : String := ""
  pairs : Array PairRec := #[]
  pays : Array PayRec := #[]
  initEnds : List EndRec := []
  qEnds : List EndRec := []
  bobCirc : Option (Nat × Nat × Nat) := none
  fwdUnacked : Nat := 0
  caseWire : Nat := 0
  caseRestarts : Nat := 0
  caseViol : Nat := 0
  /-- set once the harness showed the precondition of the known forwarding-package defect
  (an un-acked add whose htlc is gone, behind an acked add of the same package). -/
  caseCause : String := ""
  /-- still-live forwarded adds whose FwdFilter bit will be misread at the next restart. -/
  misread : List (String × Nat) := []
  qStaleShifted : Nat := 0
  qStalePlain : Nat := 0
  /-- Bob's half-open circuits that were NOT loaded from disk (switch still up). -/
  orphanHalfOpen : List String := []
  /-- a connection cut that has not been followed by a reconnect yet ("" = none). -/
  openCut : String := ""
  harnessOpenCut : Nat := 0
  unclaimedSeen : Nat := 0
  parkedAtStart : Nat := 0
  -- totals
  lines : Nat := 0
  cases : Nat := 0
  wire : Nat := 0
  checks : Nat := 0          -- Bob outputs checked by the acceptor + quiescence equalities
  mismatches : Nat := 0
  monitorFails : Nat := 0
  upSettles : Nat := 0
  upFails : Nat := 0
  downAdds : Nat := 0
  localRejects : Nat := 0
  downSettles : Nat := 0
  downFails : Nat := 0
  badPreimages : Nat := 0
  retrans : Nat := 0
  reforwards : Nat := 0       -- downstream add sent again after the first one was forgotten
  restarts : Nat := 0
  cuts : Nat := 0
  payments : Nat := 0
  resOk : Nat := 0
  resFail : Nat := 0
  resNone : Nat := 0
  resSendErr : Nat := 0
  quiescent : Nat := 0
  inconclTimeout : Nat := 0
  inconclLinkFailed : Nat := 0
  inconclSetup : Nat := 0
  dirty : Nat := 0
  stalled : Nat := 0
  crashes : Nat := 0
  flaps : Nat := 0
  caseCrashes : Nat := 0
  caseFlaps : Nat := 0
  crashKinds : List (String × Nat) := []
  failsUnacked : Nat := 0
  wireErr : Nat := 0
  /-- inconclusive cases other than the tamper cases (which end with a failed link by design). -/
  inconclOther : Nat := 0
  settledPairs : Nat := 0
  failedPairs : Nat := 0
  kinds : List (String × Nat) := []
  payKinds : List (String × Nat) := []
  samples : Nat := 0

def bump (l : List (String × Nat)) (k : String) : List (String × Nat) :=
  if l.any (·.1 == k) then l.map (fun (a, n) => if a == k then (a, n + 1) else (a, n)) else l ++ [(k, 1)]

def mismatch (s : St) (detail : String) : IO St := do
  IO.println s!"MISMATCH case={s.caseId} line={s.lines} {detail}"
  return { s with mismatches := s.mismatches + 1 }

def monitor (s : St) (clause detail : String) : IO St := do
  let cause := if s.caseCause == "" then "" else s!" cause={s.caseCause}"
  IO.println s!"MONITOR case={s.caseId} clause={clause} line={s.lines} {detail}{cause}"
  return { s with monitorFails := s.monitorFails + 1, caseViol := s.caseViol + 1 }

def showLife : Life String → String
  | .absent => "absent"
  | .adding st => s!"adding:{repr st}"
  | .locked => "locked"
  | .removing (.settle _) st => s!"removing-settle:{repr st}"
  | .removing .fail st => s!"removing-fail:{repr st}"
  | .removed (.settle _) => "removed-settle"
  | .removed .fail => "removed-fail"

def other (ch : String) : String := if ch == "AB" then "BC" else "AB"

/-- feed one wire event to pair `i`. -/
def feed (s : St) (i : Nat) (w : WEv String) (what : String) : IO St := do
  let some pr := s.pairs[i]? | mismatch s s!"internal: no pair {i}"
  match Obs.step hashHex pr.hash pr.obs w with
  | .ok o => return { s with pairs := s.pairs.set! i { pr with obs := o } }
  | .error c =>
    let detail := s!"{what} pair(hash={pr.hash.take 16} in={pr.chUp}.{pr.idUp} out={repr pr.idDown}) up={showLife pr.obs.up} down={showLife pr.obs.down} known={pr.obs.known.length}"
    if c.isEnv then mismatch s s!"peer message does not fit the trace: {c.name} {detail}"
    else
      -- report, then follow the implementation so that the rest of the trace (and the
      -- balances at quiescence) are still interpreted correctly
      let shape := match w, pr.obs.up.resolvedSigned with
        | .downAdd, some .fail => " shape=forward_after_signed_fail"
        | _, _ => ""
      let s ← monitor s c.name (detail ++ shape)
      let o := pr.obs
      let o' : Obs String := match w with
        | .downAdd => if o.down == .absent then { o with down := .adding .sent } else o
        | .upSettle p => if o.up == .locked then { o with up := .removing (.settle p) .sent } else o
        | .upFail => if o.up == .locked then { o with up := .removing .fail .sent } else o
        | .downRevBob => { o with down := o.down.revO }
        | _ => o
      return { s with pairs := s.pairs.set! i { pr with obs := o' } }

/-- apply a channel-wide event to every pair. -/
def feedAll (s : St) (ch : String) (onUp onDown : WEv String) (what : String) : IO St := do
  let mut s := s
  for i in [0:s.pairs.size] do
    let some pr := s.pairs[i]? | continue
    s ← feed s i (if pr.chUp == ch then onUp else onDown) what
  return s

def findUp (s : St) (ch : String) (id : Nat) : Option Nat :=
  (List.range s.pairs.size).find? fun i => match s.pairs[i]? with
    | some p => !p.dead && p.chUp == ch && p.idUp == id
    | none => false

def findDown (s : St) (ch : String) (id : Nat) : Option Nat :=
  (List.range s.pairs.size).find? fun i => match s.pairs[i]? with
    | some p => !p.dead && p.chUp != ch && p.idDown == some id
    | none => false

def findByHash (s : St) (chDown : String) (h : String) : Option Nat :=
  (List.range s.pairs.size).find? fun i => match s.pairs[i]? with
    | some p => !p.dead && p.chUp != chDown && p.hash == h
    | none => false

def parseEnd (ws : List String) : Option EndRec := do
  let name ← kv? ws "end"
  let l ← kvInt? ws "local"
  let r ← kvInt? ws "remote"
  let h ← kvNat? ws "htlcs"
  let a ← kvNat? ws "active"
  let p ← kvNat? ws "pending"
  return { name := name, localBal := l, remoteBal := r, htlcs := h, active := a, pending := p }

def wireStep (s : St) (ws : List String) : IO St := do
  let s := { s with wire := s.wire + 1, caseWire := s.caseWire + 1 }
  let some at_ := kv? ws "at" | mismatch s "wire line without at="
  let some ch := kv? ws "ch" | mismatch s "wire line without ch="
  let some t := kv? ws "t" | mismatch s "wire line without t="
  if ch != "AB" && ch != "BC" then return s   -- not one of the two channels
  let fromBob := at_ != "bob"
  let id := (kvNat? ws "id").getD 0
  match t with
  | "add" =>
    let h := (kv? ws "hash").getD ""
    let amt := (kvNat? ws "amt").getD 0
    if !fromBob then
      -- incoming htlc offered by a peer
      match findUp s ch id with
      | some i =>
        let some pr := s.pairs[i]? | return s
        if pr.hash != h || pr.amtIn != amt then
          if pr.obs.up == .absent && pr.obs.down == .absent then
            -- the earlier add with this id was never signed and forgotten at the reconnect;
            -- the id now belongs to another htlc
            let s := { s with pairs := (s.pairs.set! i { pr with dead := true }).push
                                { hash := h, chUp := ch, idUp := id, amtIn := amt } }
            feed s (s.pairs.size - 1) .upAdd "upstream add (id reused)"
          else mismatch s s!"add {ch}.{id} re-sent with different contents"
        else if pr.obs.up == .absent then feed s i .upAdd "upstream add (again)"
        else return { s with retrans := s.retrans + 1 }
      | none =>
        let s := { s with pairs := s.pairs.push { hash := h, chUp := ch, idUp := id, amtIn := amt } }
        feed s (s.pairs.size - 1) .upAdd "upstream add"
    else
      -- Bob offers an htlc: must be the forward of an incoming one with the same hash
      let s := { s with checks := s.checks + 1 }
      match findByHash s ch h with
      | none => monitor s "forward_without_incoming" s!"Bob offered {ch}.{id} hash={h.take 16} amt={amt} with no incoming htlc of that hash"
      | some i =>
        let some pr := s.pairs[i]? | return s
        if pr.idDown == some id && pr.obs.down != .absent then
          if pr.amtOut != amt then mismatch s s!"add {ch}.{id} re-sent with different amount"
          else return { s with retrans := s.retrans + 1 }
        else
          let again := pr.fwdCount > 0
          let s := { s with pairs := s.pairs.set! i { pr with idDown := some id, amtOut := amt, fwdCount := pr.fwdCount + 1 },
                            downAdds := s.downAdds + 1,
                            reforwards := s.reforwards + (if again then 1 else 0) }
          let s ← if amt > pr.amtIn then
              monitor s "out_of_pocket" s!"Bob forwards {amt} msat for an incoming htlc of {pr.amtIn} msat (hash={h.take 16})"
            else pure s
          feed s i .downAdd s!"downstream add {ch}.{id}"
  | "ful" =>
    let pre := (kv? ws "pre").getD ""
    if !fromBob then
      match findDown s ch id with
      | none => mismatch s s!"peer fulfils unknown outgoing htlc {ch}.{id}"
      | some i =>
        let valid : Bool := match s.pairs[i]? with
          | some pr => hashHex pre == pr.hash
          | none => false
        let s := { s with downSettles := s.downSettles + 1, badPreimages := s.badPreimages + (if valid then 0 else 1) }
        feed s i (.downSettle pre) s!"downstream fulfill {ch}.{id}"
    else
      let s := { s with checks := s.checks + 1, upSettles := s.upSettles + 1 }
      match findUp s ch id with
      | none => monitor s "resolve_unknown_htlc" s!"Bob fulfils {ch}.{id} which no peer offered"
      | some i => feed s i (.upSettle pre) s!"upstream fulfill {ch}.{id} pre={pre.take 16}"
  | "fail" | "mal" =>
    if !fromBob then
      match findDown s ch id with
      | none => mismatch s s!"peer fails unknown outgoing htlc {ch}.{id}"
      | some i => feed { s with downFails := s.downFails + 1 } i .downFail s!"downstream fail {ch}.{id}"
    else
      let s := { s with checks := s.checks + 1, upFails := s.upFails + 1 }
      match findUp s ch id with
      | none => monitor s "resolve_unknown_htlc" s!"Bob fails {ch}.{id} which no peer offered"
      | some i =>
        let lr : Bool := match s.pairs[i]? with
          | some pr => pr.obs.down == .absent
          | none => false
        feed { s with localRejects := s.localRejects + (if lr then 1 else 0) } i .upFail s!"upstream fail {ch}.{id}"
  | "sig" =>
    if fromBob then feedAll s ch .upSigBob .downSigBob s!"commit_sig Bob {ch}"
    else feedAll s ch .upSigPeer .downSigPeer s!"commit_sig peer {ch}"
  | "rev" =>
    if fromBob then feedAll s ch .upRevBob .downRevBob s!"revoke_and_ack Bob {ch}"
    else feedAll s ch .upRevPeer .downRevPeer s!"revoke_and_ack peer {ch}"
  | "reest" | "ready" => return s
  | "err" => return { s with wireErr := s.wireErr + 1 }
  | "fee" => return s
  | _ => mismatch s s!"unknown wire message type {t}"

def endOf (l : List EndRec) (name : String) : Option EndRec := l.find? (·.name == name)

/-- Bob's gain on channel `ch`, read off the acceptor's htlc life cycles. -/
def bobDeltaOn (s : St) (ch : String) : Int :=
  s.pairs.foldl (fun acc pr =>
    acc + (if pr.chUp == ch && pr.obs.up.settled then (pr.amtIn : Int) else 0)
        - (if pr.chUp != ch && pr.obs.down.settled then (pr.amtOut : Int) else 0)) 0

def quiescenceChecks (s : St) (dirty : Bool) : IO St := do
  let mut s := s
  -- (a) the acceptor must agree with the snapshot that no htlc is left
  let snapshotClean := s.qEnds.all (fun e => e.htlcs == 0 && e.active == 0 && e.pending == 0)
  let circClean := match s.bobCirc with
    | some (p, o, m) => p == 0 && o == 0 && m == 0
    | none => false
  s := { s with checks := s.checks + 1 }
  if !snapshotClean || !circClean || s.fwdUnacked != 0 then
    let d := s.qEnds.foldl (fun acc e => acc ++ s!" {e.name}:htlcs={e.htlcs},active={e.active},pending={e.pending}") ""
    -- the only thing left over are un-acked adds behind an acked add of their package
    let onlyShifted := snapshotClean && circClean && s.qStalePlain == 0 && s.qStaleShifted == s.fwdUnacked
    -- the only things left over are htlcs whose FwdFilter bit was misread after a restart
    let dangling := s.pairs.toList.filter (fun pr => !pr.dead && !(pr.obs.up.gone && pr.obs.down.gone))
    let onlyMisread := !dangling.isEmpty && dangling.all (fun pr => s.misread.contains (pr.chUp, pr.idUp))
    -- every dangling htlc is a locked-in incoming htlc whose circuit is half-open in the running
    -- switch (not loaded from disk) while no add packet exists any more, and nothing else is left
    let onlyOrphan := dirty && !dangling.isEmpty &&
      dangling.all (fun pr => pr.obs.up == .locked && pr.obs.down == .absent && pr.inFlapLocked &&
        s.orphanHalfOpen.contains s!"{pr.chUp}.{pr.idUp}") &&
      s.bobCirc == some (dangling.length, 0, 0) && s.fwdUnacked == dangling.length
    let tag := (if onlyShifted then " only_unacked_shifted=1" else "") ++ (if onlyMisread then " only_misread_fwdfilter=1" else "")
      ++ (if onlyOrphan then " only_orphan_halfopen=1" else "")
    let dl := dangling.foldl (fun acc pr => acc ++ s!" {pr.chUp}.{pr.idUp}:{showLife pr.obs.up}/{showLife pr.obs.down}") ""
    s ← monitor s "no_dangling" s!"network idle (dirty={dirty}) but{d} bob_circuits={repr s.bobCirc} unacked_adds={s.fwdUnacked} dangling=[{dl} ]{tag}"
  -- a downstream FAIL is handed to the switch exactly once (after the revocation) and carries
  -- its SettleFailRef, so without any restart its forwarding-package entry must be acked
  -- together with Bob's signature of the upstream fail
  if !dirty && s.caseRestarts == 0 && s.caseFlaps == 0 then
    s := { s with checks := s.checks + 1 }
    if s.failsUnacked != 0 then
      s ← monitor s "no_dangling" s!"response_ack: {s.failsUnacked} downstream fail(s) relayed and signed upstream but their SettleFailFilter bit is not set (no restart in this case)"
  if snapshotClean then
    for pr in s.pairs do
      if !(pr.obs.up.gone && pr.obs.down.gone) then
        s ← mismatch s s!"acceptor still tracks an htlc (hash={pr.hash.take 16} up={showLife pr.obs.up} down={showLife pr.obs.down}) but the snapshot shows none"
  -- (b) hops settle together
  for pr in s.pairs do
    s := { s with checks := s.checks + 1 }
    if pr.obs.up.gone && pr.obs.down.gone then
      if pr.obs.up.settled != pr.obs.down.settled then
        s ← monitor s "hops_settle_together" s!"hash={pr.hash.take 16} incoming={showLife pr.obs.up} outgoing={showLife pr.obs.down} amtIn={pr.amtIn} amtOut={pr.amtOut}"
      if pr.obs.up.settled then s := { s with settledPairs := s.settledPairs + 1 }
      else s := { s with failedPairs := s.failedPairs + 1 }
  -- (c) balances of all four ends
  if snapshotClean then
    let dAB := bobDeltaOn s "AB"
    let dBC := bobDeltaOn s "BC"
    let chk (s : St) (name : String) (dLocal : Int) : IO St := do
      match endOf s.initEnds name, endOf s.qEnds name with
      | some i, some q =>
        let s := { s with checks := s.checks + 2 }
        let s ← if q.localBal + q.remoteBal != i.localBal + i.remoteBal then
            monitor s "conservation" s!"{name}: local+remote {i.localBal + i.remoteBal} -> {q.localBal + q.remoteBal}"
          else pure s
        if q.localBal - i.localBal != dLocal || q.remoteBal - i.remoteBal != -dLocal then
          monitor s "forwarder_balance" s!"{name}: local {i.localBal}->{q.localBal} remote {i.remoteBal}->{q.remoteBal}, settled htlcs say local delta {dLocal}"
        else pure s
      | _, _ => mismatch s s!"missing snapshot for {name}"
    s ← chk s "bob.AB" dAB
    s ← chk s "alice.AB" (-dAB)
    s ← chk s "bob.BC" dBC
    s ← chk s "carol.BC" (-dBC)
    -- Bob's total = fees of the succeeded payments, never negative
    let fees : Int := s.pairs.foldl (fun acc pr =>
      acc + (if pr.obs.up.settled then (pr.amtIn : Int) - (pr.amtOut : Int) else 0)) 0
    s := { s with checks := s.checks + 1 }
    if dAB + dBC != fees then
      s ← monitor s "forwarder_balance" s!"Bob total delta {dAB + dBC} != fees of succeeded payments {fees}"
    if dAB + dBC < 0 then
      s ← monitor s "out_of_pocket" s!"Bob total delta {dAB + dBC} < 0"
  -- (d) payment results against the first-hop htlc
  for p in s.pays do
    let chFirst := if p.dir == 0 then "AB" else "BC"
    let pr? := s.pairs.find? (fun pr => pr.chUp == chFirst && pr.hash == p.hash)
    let settled : Bool := match pr? with
      | some pr => pr.obs.up.settled
      | none => false
    if p.result.startsWith "ok" then
      s := { s with checks := s.checks + 1 }
      let pre := (kv? (words p.result) "pre").getD ""
      if hashHex pre != p.hash then
        s ← monitor s "payment_result" s!"pay n={p.n} reported success with a preimage that does not hash to the payment hash"
      if !settled then
        s ← monitor s "payment_result" s!"pay n={p.n} reported success but its first-hop htlc was not settled"
    else if p.result.startsWith "fail" || p.result == "senderr" then
      s := { s with checks := s.checks + 1 }
      if settled then
        s ← monitor s "payment_result" s!"pay n={p.n} reported {p.result} but its first-hop htlc was settled"
    -- receiver side: the invoice is settled iff the last-hop htlc (Bob's outgoing one) was settled
    if p.inv != "" && p.inv != "unknown" then
      let lastSettled : Bool := match pr? with
        | some pr => pr.obs.down.settled
        | none => false
      s := { s with checks := s.checks + 1 }
      if (p.inv == "settled") != lastSettled then
        s ← monitor s "payment_result" s!"pay n={p.n} receiver invoice is {p.inv} but the last-hop htlc settled={lastSettled}"
      if p.result.startsWith "ok" && p.inv != "settled" then
        s ← monitor s "payment_result" s!"pay n={p.n} sender reports success, receiver invoice is {p.inv}"
  return s

def step (s : St) (line : String) : IO St := do
  let s := { s with lines := s.lines + 1 }
  let ws := words line
  match ws with
  | "FACT" :: _ => return s
  | "CASE" :: id :: rest =>
    let kind := (kv? rest "kind").getD "?"
    let status := (kv? rest "status").getD "?"
    let s := { s with caseId := id, kind := kind, status := status, pairs := #[], pays := #[],
                       initEnds := [], qEnds := [], bobCirc := none, fwdUnacked := 0, caseWire := 0,
                       caseRestarts := 0, caseViol := 0, caseCause := "", misread := [],
                       qStaleShifted := 0, qStalePlain := 0, caseCrashes := 0, caseFlaps := 0, failsUnacked := 0, orphanHalfOpen := [], openCut := "",
                       cases := s.cases + 1, kinds := bump s.kinds kind }
    if status != "ran" then return { s with inconclSetup := s.inconclSetup + 1, inconclOther := s.inconclOther + 1 }
    return s
  | "pay" :: rest =>
    let some n := kvNat? rest "n" | mismatch s "bad pay line"
    let p : PayRec := { n := n, dir := (kvNat? rest "dir").getD 0, kind := (kv? rest "kind").getD "?",
                        hash := (kv? rest "hash").getD "", pre := (kv? rest "pre").getD "",
                        amtIn := (kvNat? rest "amtIn").getD 0, amtOut := (kvNat? rest "amtOut").getD 0 }
    let s := { s with pays := s.pays.push p, payments := s.payments + 1, payKinds := bump s.payKinds p.kind }
    if hashHex p.pre != p.hash then mismatch s s!"pay n={n}: declared preimage does not hash to the declared hash"
    else return s
  | "w" :: rest => wireStep s rest
  | "x" :: "restart" :: _ =>
    let s := { s with restarts := s.restarts + 1, caseRestarts := s.caseRestarts + 1, openCut := "" }
    let s ← feedAll s "AB" .restart .restart "restart"
    -- an outgoing add that was forgotten gives its id back
    return { s with pairs := s.pairs.map (fun (pr : PairRec) =>
      if pr.obs.down == .absent then { pr with idDown := none } else pr) }
  | "x" :: "cut" :: rest =>
    return { s with cuts := s.cuts + 1, openCut := (kv? rest "scope").getD "ALL" }
  | "x" :: "crash" :: rest =>
    return { s with openCut := "ALL", crashes := s.crashes + 1, crashKinds := bump s.crashKinds ((kv? rest "after").getD "?"),
                    caseCrashes := s.caseCrashes + 1 }
  | "x" :: "flap" :: rest =>
    let ch := (kv? rest "ch").getD "AB"
    let s := { s with flaps := s.flaps + 1, caseFlaps := s.caseFlaps + 1,
                      openCut := if s.openCut == ch then "" else s.openCut }
    let s := { s with pairs := s.pairs.map (fun (pr : PairRec) =>
      if pr.chUp == ch && pr.obs.up == .locked && pr.obs.down == .absent then { pr with inFlapLocked := true } else pr) }
    let s ← feedAll s ch .flapUp .flapDown s!"reconnect {ch}"
    return { s with pairs := s.pairs.map (fun (pr : PairRec) =>
      if pr.obs.down == .absent then { pr with idDown := none } else pr) }
  | "x" :: "pkgs" :: rest =>
    let sh := (kvNat? rest "stale_shifted").getD 0
    let pl := (kvNat? rest "stale_plain").getD 0
    let ch := if kv? rest "end" == some "bob.AB" then "AB" else "BC"
    let ids := ((kv? rest "misread").getD "-").splitOn "," |>.filterMap nat?
    let s := { s with misread := s.misread ++ ids.map (fun i => (ch, i)) }
    if sh > 0 && pl == 0 then return { s with caseCause := "fwdpkg_index_shift" } else return s
  | "q" :: "bobcirc" :: rest =>
    let ids := ((kv? rest "halfopen_mem").getD "-").splitOn "," |>.filter (· != "-")
    return { s with orphanHalfOpen := ids }
  | "q" :: "pkgs" :: rest =>
    return { s with qStaleShifted := s.qStaleShifted + (kvNat? rest "stale_shifted").getD 0,
                    qStalePlain := s.qStalePlain + (kvNat? rest "stale_plain").getD 0 }
  | "init" :: rest =>
    match parseEnd rest with
    | some e => return { s with initEnds := s.initEnds ++ [e] }
    | none => mismatch s "bad init line"
  | "q" :: "circ" :: rest =>
    if kv? rest "node" == some "bob" then
      return { s with bobCirc := some ((kvNat? rest "pending").getD 0, (kvNat? rest "open").getD 0,
                        (kvNat? rest "mailbox").getD 0 + (kvNat? rest "unclaimed").getD 0),
                      unclaimedSeen := s.unclaimedSeen + (kvNat? rest "unclaimed").getD 0 }
    else return s
  | "q" :: "fwd" :: rest =>
    let adds := (kvNat? rest "adds").getD 0
    let acked := (kvNat? rest "acked").getD 0
    let ff := (kvNat? rest "fails").getD 0
    let ffa := (kvNat? rest "failsacked").getD 0
    return { s with fwdUnacked := s.fwdUnacked + (adds - acked), failsUnacked := s.failsUnacked + (ff - ffa) }
  | "q" :: rest =>
    match parseEnd rest with
    | some e => return { s with qEnds := s.qEnds ++ [e] }
    | none => mismatch s "bad q line"
  | "res" :: rest =>
    let some n := kvNat? rest "n" | mismatch s "bad res line"
    let r := String.intercalate " " (rest.dropWhile (· ≠ "=>") |>.drop 1)
    let s := { s with pays := s.pays.map (fun (p : PayRec) => if p.n == n then { p with result := r } else p) }
    if r.startsWith "ok" then return { s with resOk := s.resOk + 1 }
    else if r.startsWith "fail" then return { s with resFail := s.resFail + 1 }
    else if r == "senderr" then return { s with resSendErr := s.resSendErr + 1 }
    else return { s with resNone := s.resNone + 1 }
  | "inv" :: rest =>
    let some n := kvNat? rest "n" | mismatch s "bad inv line"
    let st := (kv? rest "state").getD "?"
    return { s with pays := s.pays.map (fun (p : PayRec) => if p.n == n then { p with inv := st } else p) }
  | "info" :: _ => return s
  | "note" :: "bob" :: "switch" :: "started" :: rest =>
    return { s with parkedAtStart := s.parkedAtStart + (kvNat? rest "unclaimed").getD 0 }
  | "note" :: _ => return s
  | "quiesced" :: "=>" :: q :: _ =>
    -- messages were dropped on a connection that never reconnected afterwards: the peers had no
    -- chance to retransmit, the acceptor's life cycles are not comparable with the final state.
    -- This is a harness schedule that must not happen; never judge it.
    if s.openCut != "" then
      IO.println s!"SAMPLE case={s.caseId} connection {s.openCut} was cut and never reconnected before quiescence: not judged"
      return { s with harnessOpenCut := s.harnessOpenCut + 1, inconclOther := s.inconclOther + 1 }
    match q with
    | "yes" | "yes_noresult" =>
      quiescenceChecks { s with quiescent := s.quiescent + 1 } false
    | "dirty" =>
      -- The model's `Quiescent` needs stable life cycles (no update in flight). A network
      -- that is idle while some end still owes a commit_sig / revoke_and_ack is a stalled
      -- commitment dance (liveness of the channel state machine, properties C02/C03), not a
      -- quiescent state: inconclusive for C08.
      let inFlight := s.qEnds.any (fun e => e.pending != 0) ||
        s.pairs.any (fun pr => !pr.dead && !(pr.obs.up.stable && pr.obs.down.stable))
      if inFlight then
        IO.println s!"SAMPLE case={s.caseId} idle but a commitment is owed (not quiescent, inconclusive): {s.qEnds.foldl (fun acc e => acc ++ s!" {e.name}:pending={e.pending}") ""}"
        return { s with stalled := s.stalled + 1, inconclOther := s.inconclOther + 1 }
      else quiescenceChecks { s with dirty := s.dirty + 1 } true
    | "linkfailed" =>
      return { s with inconclLinkFailed := s.inconclLinkFailed + 1,
                      inconclOther := s.inconclOther + (if s.kind == "tamper" then 0 else 1) }
    | _ => return { s with inconclTimeout := s.inconclTimeout + 1, inconclOther := s.inconclOther + 1 }
  | ["END"] =>
    if s.samples < 6 && s.status == "ran" then
      let fwd := s.pairs.foldl (fun a p => a + (if p.idDown.isSome then 1 else 0)) 0
      IO.println s!"SAMPLE case={s.caseId} kind={s.kind} payments={s.pays.size} wire_msgs={s.caseWire} restarts={s.caseRestarts} incoming_htlcs={s.pairs.size} forwarded={fwd} violations={s.caseViol}"
      return { s with samples := s.samples + 1 }
    return s
  | [] => return s
  | _ => mismatch s s!"unparsed line: {line.take 60}"

end LndModel.C08.Driver

open LndModel.C08.Driver in
def main (args : List String) : IO Unit := do
  -- stream `beacon`: the preimage-beacon harness of the root package (BeaconDriver.lean)
  if args.contains "beacon" then
    LndModel.C08.BeaconDriver.main
    return
  let s ← LndModel.Lines.foldStdin step {}
  -- inconclusive outcomes are never violations, but they must stay rare: a defect that fails
  -- links or stalls the commitment dance everywhere would otherwise only show in STAT.
  -- Unchanged tree: 0-3 % (see notes); cap at 12 % (and at least 6 cases).
  let s ← if s.inconclOther * 100 > s.cases * 12 && s.inconclOther ≥ 6 then
      mismatch { s with caseId := "-" } s!"too many inconclusive cases: {s.inconclOther} of {s.cases} (timeout={s.inconclTimeout} linkfailed={s.inconclLinkFailed} setup={s.inconclSetup} stalled={s.stalled}, tamper cases excluded)"
    else pure s
  IO.println s!"STAT lines={s.lines}"
  IO.println s!"STAT cases={s.cases}"
  IO.println s!"STAT evaluations={s.wire}"
  IO.println s!"STAT nontrivial={s.checks}"
  IO.println s!"STAT payments={s.payments}"
  IO.println s!"STAT bob_upstream_settles={s.upSettles}"
  IO.println s!"STAT bob_upstream_fails={s.upFails}"
  IO.println s!"STAT bob_local_rejects={s.localRejects}"
  IO.println s!"STAT bob_downstream_adds={s.downAdds}"
  IO.println s!"STAT bob_reforwards_after_restart={s.reforwards}"
  IO.println s!"STAT downstream_settles={s.downSettles}"
  IO.println s!"STAT downstream_fails={s.downFails}"
  IO.println s!"STAT tampered_preimages={s.badPreimages}"
  IO.println s!"STAT retransmitted_adds={s.retrans}"
  IO.println s!"STAT restarts={s.restarts}"
  IO.println s!"STAT ungraceful_crashes={s.crashes}"
  for (k, n) in s.crashKinds do IO.println s!"STAT crash_after_{k}={n}"
  IO.println s!"STAT link_flaps={s.flaps}"
  IO.println s!"STAT wire_error_messages={s.wireErr}"
  IO.println s!"STAT responses_parked_unclaimed_at_switch_start={s.parkedAtStart}"
  IO.println s!"STAT unclaimed_left_at_quiescence={s.unclaimedSeen}"
  IO.println s!"STAT inconclusive_open_cut={s.harnessOpenCut}"
  IO.println s!"STAT inconclusive_excluding_tamper={s.inconclOther}"
  IO.println s!"STAT cuts={s.cuts}"
  IO.println s!"STAT result_ok={s.resOk}"
  IO.println s!"STAT result_fail={s.resFail}"
  IO.println s!"STAT result_none={s.resNone}"
  IO.println s!"STAT result_senderr={s.resSendErr}"
  IO.println s!"STAT quiescent_cases={s.quiescent}"
  IO.println s!"STAT inconclusive_timeout={s.inconclTimeout}"
  IO.println s!"STAT inconclusive_linkfailed={s.inconclLinkFailed}"
  IO.println s!"STAT inconclusive_setup={s.inconclSetup}"
  IO.println s!"STAT idle_but_dirty={s.dirty}"
  IO.println s!"STAT inconclusive_stalled_commitment={s.stalled}"
  IO.println s!"STAT pairs_settled_at_quiescence={s.settledPairs}"
  IO.println s!"STAT pairs_failed_at_quiescence={s.failedPairs}"
  for (k, n) in s.kinds do IO.println s!"STAT case_{k}={n}"
  for (k, n) in s.payKinds do IO.println s!"STAT pay_{k}={n}"
  IO.println s!"STAT mismatches={s.mismatches}"
  IO.println s!"STAT monitor_failures={s.monitorFails}"
