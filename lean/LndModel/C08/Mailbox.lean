/-
C08 — the switch's per-link mailbox (htlcswitch/mailbox.go, `memoryMailBox` packet side) as two
queues with head pointers.

Packets stay in their queue until the link ACKs them; the courier delivers the packet under the
head pointer (settle/fail queue first) and advances the pointer; `ResetPackets` (link restart)
rewinds the pointers so that every un-acked packet is delivered again. The courier has TWO reset
sites: one while it is idle (nothing left to deliver), one inside the delivery select.
-/
namespace LndModel.C08

structure MBox (α : Type) where
  /-- settle/fail packets not yet acked, oldest first. -/
  rep : List α := []
  /-- index of the next settle/fail to deliver (`≥ length`: none pending). -/
  repHead : Nat := 0
  /-- add packets not yet acked. -/
  add : List α := []
  addHead : Nat := 0
  deriving Repr, DecidableEq

namespace MBox
variable {α : Type}

def pushRep (m : MBox α) (a : α) : MBox α := { m with rep := m.rep ++ [a] }
def pushAdd (m : MBox α) (a : α) : MBox α := { m with add := m.add ++ [a] }

/-- one delivery of the courier: settle/fails have priority. -/
def deliver (m : MBox α) : Option (α × MBox α) :=
  if h : m.repHead < m.rep.length then some (m.rep[m.repHead], { m with repHead := m.repHead + 1 })
  else if h2 : m.addHead < m.add.length then some (m.add[m.addHead], { m with addHead := m.addHead + 1 })
  else none

/-- `AckPacket` for the i-th settle/fail: the packet leaves the queue; the head keeps pointing at
the same packet (or at the successor if the acked one was the head). -/
def ackRep (m : MBox α) (i : Nat) : MBox α :=
  { m with rep := m.rep.eraseIdx i, repHead := if i < m.repHead then m.repHead - 1 else m.repHead }
def ackAdd (m : MBox α) (i : Nat) : MBox α :=
  { m with add := m.add.eraseIdx i, addHead := if i < m.addHead then m.addHead - 1 else m.addHead }

/-- the courier waits on its condition variable: nothing left to deliver. -/
def idle (m : MBox α) : Bool := decide (m.rep.length ≤ m.repHead) && decide (m.add.length ≤ m.addHead)

/-- `ResetPackets` as the code does it: both reset sites rewind BOTH pointers. -/
def reset (m : MBox α) : MBox α := { m with repHead := 0, addHead := 0 }

/-- the seeded variant C08_3: the reset site of the IDLE courier rewinds only the add queue. -/
def resetIdleForgetsRep (m : MBox α) : MBox α :=
  if m.idle then { m with addHead := 0 } else { m with repHead := 0, addHead := 0 }

/-- everything the courier delivers in `n` deliveries without further events. -/
def drain : Nat → MBox α → List α
  | 0, _ => []
  | n + 1, m => match m.deliver with
    | some (a, m') => a :: drain n m'
    | none => []

end MBox
end LndModel.C08
