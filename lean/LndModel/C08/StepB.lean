/-
C08 — invariant preservation, part StepB.
-/
import LndModel.C08.Lemmas

set_option linter.unusedSimpArgs false
set_option linter.unusedVariables false
set_option linter.unusedSectionVars false

namespace LndModel.C08
variable {P Hsh : Type} [DecidableEq P] [DecidableEq Hsh] (H : P → Hsh) (hash : Hsh)

theorem inv_refwdResp {s s' : Pair P} (hI : Inv H hash s) (h : step H hash s (.refwdResp) = some s') :
    Inv H hash s' := by
  obtain ⟨a1, a2, a3, a4, a5, a6, a7, a8, a9, a10, a11, a12, a13, a14, a15, a16, a17, a18, a19, a20, a21, a22, a23, a24, a25, a26, a27, a28, a29, a30, a31, a32, a33, a34, a35⟩ := hI
  simp only [LndModel.C08.step] at h
  split at h
  · split at h <;> cases h; constructor <;> life_grind
  · cases h

theorem inv_ackDup {s s' : Pair P} (hI : Inv H hash s) (h : step H hash s (.ackDup) = some s') :
    Inv H hash s' := by
  obtain ⟨a1, a2, a3, a4, a5, a6, a7, a8, a9, a10, a11, a12, a13, a14, a15, a16, a17, a18, a19, a20, a21, a22, a23, a24, a25, a26, a27, a28, a29, a30, a31, a32, a33, a34, a35⟩ := hI
  simp only [LndModel.C08.step] at h; split at h <;> cases h; constructor <;> life_grind

theorem inv_relayUp {s s' : Pair P} (r : Res P) (hI : Inv H hash s) (h : step H hash s (.relayUp r) = some s') :
    Inv H hash s' := by
  obtain ⟨a1, a2, a3, a4, a5, a6, a7, a8, a9, a10, a11, a12, a13, a14, a15, a16, a17, a18, a19, a20, a21, a22, a23, a24, a25, a26, a27, a28, a29, a30, a31, a32, a33, a34, a35⟩ := hI
  cases r <;> simp only [LndModel.C08.step] at h <;> split at h <;> cases h <;> constructor <;> life_grind

theorem inv_dropSpurious {s s' : Pair P} (hI : Inv H hash s) (h : step H hash s (.dropSpurious) = some s') :
    Inv H hash s' := by
  obtain ⟨a1, a2, a3, a4, a5, a6, a7, a8, a9, a10, a11, a12, a13, a14, a15, a16, a17, a18, a19, a20, a21, a22, a23, a24, a25, a26, a27, a28, a29, a30, a31, a32, a33, a34, a35⟩ := hI
  simp only [LndModel.C08.step, stepDropSpurious] at h
  split at h
  · next r hr => cases r <;> (split at h <;> cases h; constructor <;> life_grind)
  · cases h

theorem inv_deleteCircuit {s s' : Pair P} (hI : Inv H hash s) (h : step H hash s (.deleteCircuit) = some s') :
    Inv H hash s' := by
  obtain ⟨a1, a2, a3, a4, a5, a6, a7, a8, a9, a10, a11, a12, a13, a14, a15, a16, a17, a18, a19, a20, a21, a22, a23, a24, a25, a26, a27, a28, a29, a30, a31, a32, a33, a34, a35⟩ := hI
  simp only [LndModel.C08.step] at h; split at h <;> cases h; constructor <;> life_grind

theorem inv_resendDownAdd {s s' : Pair P} (hI : Inv H hash s) (h : step H hash s (.resendDownAdd) = some s') :
    Inv H hash s' := by
  obtain ⟨a1, a2, a3, a4, a5, a6, a7, a8, a9, a10, a11, a12, a13, a14, a15, a16, a17, a18, a19, a20, a21, a22, a23, a24, a25, a26, a27, a28, a29, a30, a31, a32, a33, a34, a35⟩ := hI
  simp only [LndModel.C08.step] at h; split at h <;> cases h; constructor <;> life_grind

end LndModel.C08
