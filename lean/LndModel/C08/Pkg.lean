/-
C08 — all payments of a run together: forwarding packages with (height, index) references.

Every payment `j` has a fixed location `loc j = (height, index)` in a forwarding package of its
incoming channel. The AckFilter / FwdFilter bits of the package are the `addAcked` / `fwdFilter`
fields of the pair AT THAT LOCATION. Packets and circuits carry an `AddRef`; when Bob signs an
upstream resolution the commit diff acknowledges the add **by reference** (`ackRef`), which may
hit another payment. Two variants of `link.processRemoteAdds`:

* `byIndex` — the reference of add `j` is `loc j` (the code after commit da05f8c);
* `byRank`  — the reference is `(height, rank of j among the un-acked adds of its package)`,
  the pre-fix code (`idx := uint16(i)` over the compacted `unackedAdds`).

`Props.lean` proves `forwarder_balance_run` for `byIndex` and exhibits a run of `byRank` that
violates the same statement.
-/
import LndModel.C08.Model

namespace LndModel.C08

inductive Variant where
  | byIndex | byRank
  deriving DecidableEq, Repr

structure GS (P Hsh : Type) where
  n : Nat
  prm : Nat → Params Hsh
  loc : Nat → Ref
  st : Nat → Pair P

/-- a global event: an event of payment `i`, or a channel-wide one (commit_sig / revoke_and_ack
cover all htlcs of a channel, a restart hits everything; `f j = none`: payment `j` is not
concerned). -/
inductive GEv (P : Type) where
  | one (i : Nat) (e : Ev P)
  | all (f : Nat → Option (Ev P))

section
variable {P Hsh : Type} [DecidableEq P] [DecidableEq Hsh] (H : P → Hsh)

/-- number of un-acked adds of `i`'s package that precede it. -/
def rankOf (g : GS P Hsh) (i : Nat) : Nat :=
  ((List.range g.n).filter (fun j =>
    (g.loc j).1 == (g.loc i).1 && decide ((g.loc j).2 < (g.loc i).2) && !(g.st j).addAcked)).length

/-- the AddRef `processRemoteAdds` attaches to add `i`. -/
def refOf (v : Variant) (g : GS P Hsh) (i : Nat) : Ref :=
  match v with
  | .byIndex => g.loc i
  | .byRank => ((g.loc i).1, rankOf g i)

def setSt (g : GS P Hsh) (i : Nat) (s : Pair P) : GS P Hsh :=
  { g with st := fun j => if j = i then s else g.st j }

/-- `AckAddHtlcs(ref)`: set the AckFilter bit at that location. -/
def ackRef (g : GS P Hsh) (r : Option Ref) : GS P Hsh :=
  { g with st := fun j => if j < g.n ∧ some (g.loc j) = r then { g.st j with addAcked := true } else g.st j }

def gstepOne (v : Variant) (g : GS P Hsh) (i : Nat) (e : Ev P) : Option (GS P Hsh) :=
  if i < g.n then
    let s := g.st i
    let h := (g.prm i).hash
    let ref := refOf v g i
    match e with
    | .localReject _ => (step H h s (.localReject ref)).map (setSt g i)
    | .commitCircuit _ => (step H h s (.commitCircuit ref)).map (setSt g i)
    | .refwdFail _ => (step H h s (.refwdFail ref)).map (setSt g i)
    | .upSignPersist => (stepUpSignPersist s false).map (fun s' => ackRef (setSt g i s') s.respRef)
    | .dropSpurious => (stepDropSpurious H h s false).map (fun s' => ackRef (setSt g i s') s.respRef)
    | e => (step H h s e).map (setSt g i)
  else none

def gstepAll (g : GS P Hsh) (f : Nat → Option (Ev P)) : Option (GS P Hsh) :=
  if (List.range g.n).all (fun j => match f j with
      | none => true
      | some e => (step H (g.prm j).hash (g.st j) e).isSome) then
    some { g with st := fun j => match f j with
      | none => g.st j
      | some e => if j < g.n then (step H (g.prm j).hash (g.st j) e).getD (g.st j) else g.st j }
  else none

def gstep (v : Variant) (g : GS P Hsh) : GEv P → Option (GS P Hsh)
  | .one i e => gstepOne H v g i e
  | .all f => gstepAll H g f

def grun (v : Variant) (g : GS P Hsh) : List (GEv P) → Option (GS P Hsh)
  | [] => some g
  | e :: es => match gstep H v g e with
    | some g' => grun v g' es
    | none => none

end

/-- Bob's gain over both channels, fees, debits and credits, read off the life cycles. -/
def GS.bobDelta {P Hsh : Type} (g : GS P Hsh) : Int :=
  sumInt (fun j => pairDelta (g.prm j) (g.st j).up (g.st j).down) (List.range g.n)
def GS.totalFees {P Hsh : Type} (g : GS P Hsh) : Int :=
  sumInt (fun j => pairFee (g.prm j) (g.st j).up) (List.range g.n)
def GS.totalDebit {P Hsh : Type} (g : GS P Hsh) : Int :=
  sumInt (fun j => senderDebit (g.prm j) (g.st j).up) (List.range g.n)
def GS.totalCredit {P Hsh : Type} (g : GS P Hsh) : Int :=
  sumInt (fun j => receiverCredit (g.prm j) (g.st j).down) (List.range g.n)

/-- the initial global state for a list of payments with their package locations. -/
def GS.init {P Hsh : Type} [Inhabited Hsh] (l : List (Params Hsh × Ref)) : GS P Hsh :=
  { n := l.length
    prm := fun j => (l[j]?.map (·.1)).getD ⟨default, 0, 0⟩
    loc := fun j => (l[j]?.map (·.2)).getD (0, 0)
    st := fun _ => {} }

end LndModel.C08
