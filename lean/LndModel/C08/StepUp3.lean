/-
C08 — invariant preservation, part StepUp3.
-/
import LndModel.C08.Lemmas

set_option linter.unusedSimpArgs false
set_option linter.unusedVariables false
set_option linter.unusedSectionVars false

namespace LndModel.C08
variable {P Hsh : Type} [DecidableEq P] [DecidableEq Hsh] (H : P → Hsh) (hash : Hsh)

set_option maxHeartbeats 4000000 in
theorem inv_upSignPersist {s s' : Pair P} (hI : Inv H hash s) (h : step H hash s (.upSignPersist) = some s') :
    Inv H hash s' := by
  obtain ⟨a1, a2, a3, a4, a5, a6, a7, a8, a9, a10, a11, a12, a13, a14, a15, a16, a17, a18, a19, a20, a21, a22, a23, a24, a25, a26, a27, a28, a29, a30, a31, a32, a33, a34, a35⟩ := hI
  rcases s with ⟨up, down, decided, fwdFilter, addAcked, circ, keystone, circRef, upDur, delPending, downDur, resp, respAcked, mbAdd, mbResp, mbRef, respRef, known, sentUp, downAdds, envBad⟩
  dsimp only at *
  rcases up with _ | st | _ | ⟨r, st⟩ | r <;> (try cases st) <;> cases circ <;> simp only [LndModel.C08.step, stepUpSignPersist] at h <;> (try split at h) <;> cases h <;> constructor <;> life_grind

set_option maxHeartbeats 4000000 in
theorem inv_resendUp {s s' : Pair P} (hI : Inv H hash s) (h : step H hash s (.resendUp) = some s') :
    Inv H hash s' := by
  obtain ⟨a1, a2, a3, a4, a5, a6, a7, a8, a9, a10, a11, a12, a13, a14, a15, a16, a17, a18, a19, a20, a21, a22, a23, a24, a25, a26, a27, a28, a29, a30, a31, a32, a33, a34, a35⟩ := hI
  rcases s with ⟨up, down, decided, fwdFilter, addAcked, circ, keystone, circRef, upDur, delPending, downDur, resp, respAcked, mbAdd, mbResp, mbRef, respRef, known, sentUp, downAdds, envBad⟩
  dsimp only at *
  rcases up with _ | st | _ | ⟨r, st⟩ | r <;> (try cases st) <;> simp only [LndModel.C08.step] at h <;> (try split at h) <;> (try cases h) <;> constructor <;> life_grind

end LndModel.C08
