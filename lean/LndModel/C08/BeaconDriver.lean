/-
C08 driver, stream `beacon`: replays the trace of the preimage-beacon harness
(`harness/overlay/zz_c08_beacon_verif_test.go`).

Two independent roles:

(X) the MODEL (`Beacon.lean`, rule `counter`, preimages = hex strings, hash = real SHA-256) is
    run on the same operations; every answer is compared: result, size of the subscriber map,
    what every reading subscriber was sent, lookup answers, cancel-interceptor keys.
    A difference is a `MISMATCH`.

(S) the MONITOR checks the statement on the implementation's answers from the operation history
    alone (harness slots and their subscribe/cancel intervals; no ids, no model state):
      beacon_live_subscriber_receives_preimage   a subscriber that subscribed and has not
                                                 cancelled is sent every preimage of a successful
                                                 AddPreimages / interceptor settle
      beacon_exactly_once_in_order               ... each once, in the order of the batch
      beacon_cancelled_receives_nothing          nothing is sent to a subscriber for a preimage
                                                 added after its cancel / before its subscribe
      beacon_lookup_preimage_matches_hash        LookupPreimage answers only with a preimage of
                                                 the hash asked for
      beacon_lookup_only_added                   ... that was added before
      beacon_lookup_finds_added_preimage         ... and finds every preimage added before
      beacon_settle_preimage_matches_hash        the on-chain interceptor settle accepts only a
                                                 preimage of the htlc's payment hash
-/
import LndModel.Prelude.Lines
import LndModel.Prelude.Sha256
import LndModel.C08.Beacon

open LndModel LndModel.Lines

namespace LndModel.C08.BeaconDriver

open LndModel.C08.Beacon

def hashHex (p : String) : String :=
  match hexBytes? p with
  | some bs => bytesHex (Sha256.sha256 bs)
  | none => "bad-hex"

/-- the monitor's own record of a harness slot. -/
structure Slot where
  id : Nat
  hash : String
  lazy : Bool
  live : Bool
  /-- lazy slots: batches added while live and not yet read (monitor's bookkeeping). -/
  pend : List (List String) := []
  /-- lazy slots: the same according to the model. -/
  mpend : List String := []

structure DSt where
  caseId : String := "-"
  model : St String String := {}
  slots : Array Slot := #[]
  added : List String := []
  maxLive : Nat := 0
  -- totals
  lines : Nat := 0
  cases : Nat := 0
  ops : Nat := 0
  checks : Nat := 0
  mismatches : Nat := 0
  monitorFails : Nat := 0
  subs : Nat := 0
  subErr : Nat := 0
  cancels : Nat := 0
  cancelsOutOfOrder : Nat := 0
  subAfterOutOfOrderCancel : Nat := 0
  caseOoo : Bool := false
  caseBad : Bool := false
  adds : Nat := 0
  addFails : Nat := 0
  addEmpty : Nat := 0
  deliveries : Nat := 0
  isettles : Nat := 0
  isettleMismatch : Nat := 0
  lookFound : Nat := 0
  lookNone : Nat := 0
  drains : Nat := 0
  drainsCancelled : Nat := 0
  restarts : Nat := 0
  realDb : Nat := 0
  timeouts : Nat := 0
  maxLiveAll : Nat := 0
  sampled : Nat := 0

def mismatch (s : DSt) (detail : String) : IO DSt := do
  IO.println s!"MISMATCH case={s.caseId} line={s.lines} {detail}"
  return { s with mismatches := s.mismatches + 1, caseBad := true }

def monitor (s : DSt) (clause detail : String) : IO DSt := do
  IO.println s!"MONITOR case={s.caseId} clause={clause} line={s.lines} {detail}"
  return { s with monitorFails := s.monitorFails + 1, caseBad := true }

def short (p : String) : String := String.ofList (p.toList.take 8)
def shorts (ps : List String) : String := "[" ++ ",".intercalate (ps.map short) ++ "]"

def parseList (x : String) : List String := if x == "-" || x == "" then [] else x.splitOn ","

/-- `0:aa,bb;2:cc` -/
def parseRecv (x : String) : List (Nat × List String) :=
  if x == "-" || x == "" then [] else
  (x.splitOn ";").filterMap fun part =>
    match part.splitOn ":" with
    | [k, ps] => (nat? k).map (fun k => (k, parseList ps))
    | _ => none

def rhs (ws : List String) : List String := (ws.dropWhile (· != "=>")).drop 1

def slotOf (s : DSt) (k : Nat) : Option Slot := s.slots.find? (·.id == k)

def setSlot (s : DSt) (sl : Slot) : DSt :=
  { s with slots := s.slots.map (fun x => if x.id == sl.id then sl else x) }

def liveCount (s : DSt) : Nat := (s.slots.filter (·.live)).size

/-- multiset difference: remove each element of `b` once from `a`; `none` if one is missing. -/
def msub (a : List String) : List String → Option (List String)
  | [] => some a
  | x :: b => if a.contains x then msub (a.erase x) b else none

/-- `sub` is a subsequence of `l`. -/
def isSubseq : List String → List String → Bool
  | [], _ => true
  | _ :: _, [] => false
  | x :: xs, y :: ys => if x == y then isSubseq xs ys else isSubseq (x :: xs) ys

def modelDeliveries (m m' : St String String) : List (Nat × String) := m'.log.drop m.log.length

def checkLive (s : DSt) (ws : List String) : IO DSt := do
  match kvNat? ws "live" with
  | some n =>
    if n == s.model.subs.length then return { s with checks := s.checks + 1 }
    else mismatch s s!"subscriber map size: implementation {n}, model {s.model.subs.length}"
  | none =>
    -- -1: the harness found no subscriber map (struct refactored); nothing to compare
    return s

/-- compares what the eager slots were sent after a batch `ps` was accepted (`ps = []`: nothing
may be sent) — monitor on the slots' own intervals, then model. -/
def checkRecv (s0 : DSt) (ps : List String) (recv : List (Nat × List String)) (m' : St String String) : IO DSt := do
  let mut s := s0
  let dl := modelDeliveries s.model m'
  for sl in s.slots do
    if sl.lazy then
      if sl.live && !ps.isEmpty then
        s := setSlot s { sl with pend := sl.pend ++ [ps] }
      continue
    let got := (recv.find? (·.1 == sl.id)).map (·.2) |>.getD []
    -- (S)
    if sl.live then
      s := { s with checks := s.checks + 1, deliveries := s.deliveries + got.length }
      -- a failed / empty AddPreimages (`ps = []`) promises nothing; deliveries then are a model difference only
      if got != ps && !ps.isEmpty then
        let missing := ps.filter (fun p => !got.contains p)
        if !missing.isEmpty then
          s ← monitor s "beacon_live_subscriber_receives_preimage"
            s!"slot={sl.id} subscribed_and_not_cancelled sent={shorts ps} received={shorts got} missing={shorts missing}"
        else
          s ← monitor s "beacon_exactly_once_in_order" s!"slot={sl.id} sent={shorts ps} received={shorts got}"
    else if !got.isEmpty then
      s ← monitor s "beacon_cancelled_receives_nothing"
        s!"slot={sl.id} not_subscribed received={shorts got} for_batch={shorts ps}"
    -- (X)
    let want := (dl.filter (·.1 == sl.id)).map (·.2)
    if want != got then
      s ← mismatch s s!"slot {sl.id}: model delivers {shorts want}, implementation {shorts got}"
  -- lazy slots according to the model
  for sl in s.slots do
    if sl.lazy then
      let want := (dl.filter (·.1 == sl.id)).map (·.2)
      if !want.isEmpty then s := setSlot s { sl with mpend := sl.mpend ++ want }
  for (k, got) in recv do
    if (slotOf s k).isNone && !got.isEmpty then
      s ← monitor s "beacon_cancelled_receives_nothing" s!"slot={k} unknown received={shorts got}"
  return s

def doSub (s0 : DSt) (k : Nat) (lazy icptOk : Bool) (hash res : String) : IO DSt := do
  let mut s := s0
  let (m', out) := step hashHex .counter s.model (.sub icptOk)
  let okRes := res == "ok"
  match out with
  | .subscribed j =>
    if j != k then s ← mismatch s s!"slot numbering: harness {k}, model {j}"
    if !okRes then s ← mismatch s s!"sub {k}: model subscribes, implementation answers {res}"
  | .subFailed j =>
    if j != k then s ← mismatch s s!"slot numbering: harness {k}, model {j}"
    if res != "err" then s ← mismatch s s!"sub {k}: model returns the interceptor error, implementation answers {res}"
  | _ => s ← mismatch s "model answer"
  let ooo := s.caseOoo && okRes
  s := { s with model := m', slots := s.slots.push { id := k, hash := hash, lazy := lazy, live := okRes },
                subs := s.subs + 1, subErr := s.subErr + (if okRes then 0 else 1),
                subAfterOutOfOrderCancel := s.subAfterOutOfOrderCancel + (if ooo then 1 else 0) }
  let lc := liveCount s
  return { s with maxLive := max s.maxLive lc, maxLiveAll := max s.maxLiveAll lc }

def doCancel (s0 : DSt) (k : Nat) (res : String) : IO DSt := do
  let mut s := s0
  let (m', _) := step hashHex .counter s.model (.cancel k)
  if res != "ok" then s ← mismatch s s!"cancel {k}: implementation answers {res}"
  match slotOf s k with
  | some sl =>
    let later := s.slots.any (fun x => x.live && x.id > k)
    s := setSlot s { sl with live := false }
    s := { s with cancels := s.cancels + 1, cancelsOutOfOrder := s.cancelsOutOfOrder + (if later then 1 else 0),
                  caseOoo := s.caseOoo || later }
  | none => s ← mismatch s s!"cancel of unknown slot {k}"
  return { s with model := m' }

def stepLine (s : DSt) (line : String) : IO DSt := do
  let s := { s with lines := s.lines + 1 }
  let ws := words line
  match ws with
  | "FACT" :: _ => return s
  | "CASE" :: id :: rest =>
    return { s with caseId := id, model := {}, slots := #[], added := [], maxLive := 0, caseOoo := false, caseBad := false,
                    cases := s.cases + 1, realDb := s.realDb + (if kv? rest "realdb" == some "true" then 1 else 0) }
  | "END" :: _ =>
    if s.sampled < 3 && s.caseOoo && !s.caseBad then
      IO.println s!"SAMPLE beacon case {s.caseId}: {s.slots.size} subscribers (max {s.maxLive} live at once), out-of-order cancel then re-subscribe, {s.added.length} preimages added, all deliveries as specified"
      return { s with sampled := s.sampled + 1 }
    return s
  | "sub" :: k :: rest =>
    let some k := nat? k | mismatch s s!"unparsable: {line}"
    let r := rhs ws
    let res := r.headD "?"
    let lazy := kv? rest "mode" == some "l"
    let icptOk := kv? rest "icpt" != some "err"
    let hash := (kv? rest "hash").getD ""
    let mut s ← doSub { s with ops := s.ops + 1 } k lazy icptOk hash res
    s ← checkLive s r
    -- the cancel interceptor is called exactly for a subscription torn down by an interceptor error
    let ck := (kv? r "ckey").getD "-"
    let wantCk := if icptOk then "-" else toString k
    if ck != wantCk then s ← mismatch s s!"sub {k}: cancel-interceptor keys {ck}, expected {wantCk}"
    let pkt := (kv? r "pkt").getD "-"
    if pkt != s!"{k}:{hash}" then s ← mismatch s s!"sub {k}: intercepted packet {pkt}, expected {k}:{hash}"
    if res == "ok" && kvNat? r "cap" != some 10 then
      s ← mismatch s s!"sub {k}: update channel capacity {(kv? r "cap").getD "?"}, model constant 10"
    return s
  | "psub" :: ks :: rest =>
    let r := rhs ws
    let ress := parseList (r.headD "")
    let hs := parseList ((kv? rest "hash").getD "-")
    let mut s := { s with ops := s.ops + 1 }
    for ((k, res), h) in ((parseList ks).zip ress).zip hs do
      let some k := nat? k | s ← mismatch s s!"unparsable: {line}"
      s ← doSub s k false true h res
    s ← checkLive s r
    if (kv? r "ckey").getD "-" != "-" then s ← mismatch s s!"psub: unexpected cancel-interceptor call"
    return s
  | "cancel" :: k :: _ =>
    let some k := nat? k | mismatch s s!"unparsable: {line}"
    let r := rhs ws
    let mut s ← doCancel { s with ops := s.ops + 1 } k (r.headD "?")
    s ← checkLive s r
    if (kv? r "ckey").getD "-" != toString k then
      s ← mismatch s s!"cancel {k}: cancel-interceptor keys {(kv? r "ckey").getD "-"}"
    return s
  | "pcancel" :: ks :: _ =>
    let r := rhs ws
    let ress := parseList (r.headD "")
    let mut s := { s with ops := s.ops + 1 }
    for (k, res) in (parseList ks).zip ress do
      let some k := nat? k | s ← mismatch s s!"unparsable: {line}"
      s ← doCancel s k res
    s ← checkLive s r
    if (kv? r "ckey").getD "-" != ",".intercalate ((parseList ks).map id) then
      -- keys are printed sorted; the harness lists the slots in shuffled order
      let a := (parseList ((kv? r "ckey").getD "-")).toArray.qsort (· < ·)
      let b := (parseList ks).toArray.qsort (· < ·)
      if a != b then s ← mismatch s s!"pcancel: cancel-interceptor keys {(kv? r "ckey").getD "-"}"
    return s
  | "add" :: psArg :: rest =>
    let r := rhs ws
    let res := r.headD "?"
    let ps := parseList psArg
    let cacheOk := kv? rest "fail" != some "1"
    let mut s := { s with ops := s.ops + 1, adds := s.adds + 1, addEmpty := s.addEmpty + (if ps.isEmpty then 1 else 0),
                          addFails := s.addFails + (if cacheOk then 0 else 1) }
    let (m', out) := step hashHex .counter s.model (.add ps cacheOk)
    let wantRes := if out == .added then "ok" else "err"
    if res != wantRes then s ← mismatch s s!"add: model answers {wantRes}, implementation {res}"
    let accepted := if res == "ok" then ps else []
    s ← checkRecv s accepted (parseRecv ((kv? r "recv").getD "-")) m'
    s := { s with model := m', added := s.added ++ accepted,
                  timeouts := s.timeouts + (parseList ((kv? r "timeout").getD "-")).length }
    checkLive s r
  | "isettle" :: k :: p :: _ =>
    let some k := nat? k | mismatch s s!"unparsable: {line}"
    let r := rhs ws
    let res := r.headD "?"
    let mut s := { s with ops := s.ops + 1, isettles := s.isettles + 1 }
    let hash := ((slotOf s k).map (·.hash)).getD ""
    let valid := hashHex p == hash
    -- (S)
    s := { s with checks := s.checks + 1 }
    if res == "ok" && !valid then
      s ← monitor s "beacon_settle_preimage_matches_hash"
        s!"slot={k} htlc_hash={short hash} accepted_preimage={short p} sha256={short (hashHex p)}"
    -- (X)
    let wantRes := if valid then "ok" else "mismatch"
    if res != wantRes then s ← mismatch s s!"isettle {k}: model answers {wantRes}, implementation {res}"
    if !valid then s := { s with isettleMismatch := s.isettleMismatch + 1 }
    let (m', _) := if valid then step hashHex .counter s.model (.add [p] true) else (s.model, .added)
    let accepted := if res == "ok" then [p] else []
    s ← checkRecv s accepted (parseRecv ((kv? r "recv").getD "-")) m'
    s := { s with model := m', added := s.added ++ accepted,
                  timeouts := s.timeouts + (parseList ((kv? r "timeout").getD "-")).length }
    if kv? r "failresume" != some "ok" then s ← mismatch s s!"isettle {k}: Fail/Resume of the on-chain intercept did not return the fixed errors"
    checkLive s r
  | "lookup" :: h :: _ =>
    let r := rhs ws
    let res := r.headD "?"
    let mut s := { s with ops := s.ops + 1, checks := s.checks + 1 }
    -- (S)
    if res == "none" then
      s := { s with lookNone := s.lookNone + 1 }
      match s.added.find? (fun p => hashHex p == h) with
      | some p => s ← monitor s "beacon_lookup_finds_added_preimage" s!"hash={short h} added_preimage={short p} answer=none"
      | none => pure ()
    else
      s := { s with lookFound := s.lookFound + 1 }
      if hashHex res != h then
        s ← monitor s "beacon_lookup_preimage_matches_hash" s!"hash={short h} answer={short res} sha256={short (hashHex res)}"
      else if !s.added.contains res then
        s ← monitor s "beacon_lookup_only_added" s!"hash={short h} answer={short res} never_added"
    -- (X)
    let (_, out) := step hashHex .counter s.model (.lookup h)
    let want := match out with | .found p => p | _ => "none"
    if want != res then s ← mismatch s s!"lookup {short h}: model {short want}, implementation {short res}"
    return s
  | "drain" :: k :: rest =>
    let some k := nat? k | mismatch s s!"unparsable: {line}"
    let r := rhs ws
    let got := parseList (r.headD "-")
    let mut s := { s with ops := s.ops + 1, drains := s.drains + 1, checks := s.checks + 1,
                          timeouts := s.timeouts + (parseList ((kv? r "timeout").getD "-")).length }
    let some sl := slotOf s k | mismatch s s!"drain of unknown slot {k}"
    let pendAll := sl.pend.flatten
    if kv? rest "state" == some "live" then
      -- (S) everything added while subscribed, each once; every batch in its own order
      match msub pendAll got with
      | some [] =>
        for b in sl.pend do
          if !isSubseq b got then
            s ← monitor s "beacon_exactly_once_in_order" s!"slot={k} batch={shorts b} received={shorts got}"
      | some missing =>
        s ← monitor s "beacon_live_subscriber_receives_preimage"
          s!"slot={k} subscribed_and_not_cancelled not_reading received={got.length} missing={shorts missing}"
      | none =>
        s ← monitor s "beacon_exactly_once_in_order" s!"slot={k} pending={shorts pendAll} received={shorts got}"
      -- (X)
      if (msub sl.mpend got) != some [] then
        s ← mismatch s s!"drain {k}: model pending {shorts sl.mpend}, implementation {shorts got}"
      s := setSlot s { sl with pend := [], mpend := [] }
      s := { s with deliveries := s.deliveries + got.length }
    else
      -- cancelled, was not reading: only preimages added before the cancel may still arrive
      s := { s with drainsCancelled := s.drainsCancelled + 1 }
      match msub pendAll got with
      | some restp =>
        s := setSlot s { sl with pend := [restp], mpend := (msub sl.mpend got).getD [] }
      | none =>
        s ← monitor s "beacon_cancelled_receives_nothing"
          s!"slot={k} cancelled received={shorts got} pending_at_cancel={shorts pendAll}"
    return s
  | "restart" :: _ =>
    let r := rhs ws
    let (m', _) := step hashHex .counter s.model .restart
    let s := { s with ops := s.ops + 1, restarts := s.restarts + 1, model := m',
                      slots := s.slots.map (fun x => { x with live := false, pend := [], mpend := [] }) }
    checkLive s r
  | "final" :: rest =>
    let mut s := { s with checks := s.checks + 1 }
    s ← checkLive s rest
    for (k, got) in parseRecv ((kv? rest "stale").getD "-") do
      if !got.isEmpty then
        s ← monitor s "beacon_cancelled_receives_nothing" s!"slot={k} cancelled received_at_end={shorts got}"
    return s
  | [] => return s
  | _ => mismatch s s!"unparsable: {line}"

def main : IO Unit := do
  let s ← LndModel.Lines.foldStdin stepLine {}
  IO.println s!"STAT beacon_lines={s.lines}"
  IO.println s!"STAT cases={s.cases}"
  IO.println s!"STAT evaluations={s.ops}"
  IO.println s!"STAT nontrivial={s.checks}"
  IO.println s!"STAT beacon_cases={s.cases}"
  IO.println s!"STAT beacon_cases_on_real_bbolt_cache={s.realDb}"
  IO.println s!"STAT beacon_subscribes={s.subs}"
  IO.println s!"STAT beacon_subscribe_interceptor_errors={s.subErr}"
  IO.println s!"STAT beacon_cancels={s.cancels}"
  IO.println s!"STAT beacon_cancels_out_of_order={s.cancelsOutOfOrder}"
  IO.println s!"STAT beacon_subscribes_after_out_of_order_cancel={s.subAfterOutOfOrderCancel}"
  IO.println s!"STAT beacon_max_live_subscribers={s.maxLiveAll}"
  IO.println s!"STAT beacon_adds={s.adds}"
  IO.println s!"STAT beacon_adds_empty={s.addEmpty}"
  IO.println s!"STAT beacon_adds_cache_write_failed={s.addFails}"
  IO.println s!"STAT beacon_deliveries_checked={s.deliveries}"
  IO.println s!"STAT beacon_intercept_settles={s.isettles}"
  IO.println s!"STAT beacon_intercept_settles_wrong_preimage={s.isettleMismatch}"
  IO.println s!"STAT beacon_lookups_found={s.lookFound}"
  IO.println s!"STAT beacon_lookups_none={s.lookNone}"
  IO.println s!"STAT beacon_lazy_drains={s.drains}"
  IO.println s!"STAT beacon_lazy_drains_after_cancel={s.drainsCancelled}"
  IO.println s!"STAT beacon_restarts={s.restarts}"
  IO.println s!"STAT beacon_read_timeouts={s.timeouts}"
  IO.println s!"STAT beacon_mismatches={s.mismatches}"
  IO.println s!"STAT beacon_monitor_failures={s.monitorFails}"
  if s.sampled == 0 then
    IO.println s!"SAMPLE beacon: {s.cases} cases, {s.subs} subscribes, {s.cancelsOutOfOrder} out-of-order cancels, {s.deliveries} deliveries checked"

end LndModel.C08.BeaconDriver
