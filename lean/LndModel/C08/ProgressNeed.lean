/-
C08 — the replay step is NECESSARY for progress: a model in which Bob never re-forwards a durable
downstream response after a restart (`refwdResp` = link.processRemoteSettleFails on a package that is
not in state LockedIn / Switch.reforwardResponses; the class of the seeded change C08_2) has a
reachable dead end: the incoming htlc stays locked in for ever although the outgoing one is
irrevocably removed.  (Sensitivity of `progress`: it is not true of a model without that step.)
-/
import LndModel.C08.ProgressProps

set_option linter.unusedSimpArgs false
set_option linter.unusedVariables false
set_option linter.unusedSectionVars false

namespace LndModel.C08
variable {P Hsh : Type} [DecidableEq P] [DecidableEq Hsh] (H : P → Hsh) (hash : Hsh)

/-- after a crash-restart: outgoing htlc irrevocably removed with `r`, response durable and un-acked,
circuit open, nothing in the mailboxes, nothing persisted upstream. -/
def AwaitsReplay (r : Res P) (s : Pair P) : Prop :=
  s.up = .locked ∧ s.down = .removed r ∧ s.upDur = none ∧ s.mbResp = none ∧ s.mbAdd = false ∧
  s.circ = .pending ∧ s.keystone = true ∧ s.downDur = true ∧ s.delPending = false ∧
  s.decided = true ∧ s.fwdFilter = true ∧ s.resp = some r ∧ s.respAcked = false

/-- every event other than the replay leaves such a state as it is (as far as these fields go). -/
theorem awaitsReplay_step {r : Res P} {s s' : Pair P} {e : Ev P} (h : AwaitsReplay r s)
    (hs : step H hash s e = some s') (he : e ≠ .refwdResp) : AwaitsReplay r s' := by
  obtain ⟨h1, h2, h3, h4, h5, h6, h7, h8, h9, h10, h11, h12, h13⟩ := h
  rcases s with ⟨up, down, decided, fwdFilter, addAcked, circ, keystone, circRef, upDur, delPending, downDur,
    resp, respAcked, mbAdd, mbResp, mbRef, respRef, known, sentUp, downAdds, envBad⟩
  dsimp only at *
  subst h1 h2 h3 h4 h5 h6 h7 h8 h9 h10 h11 h12 h13
  cases e <;>
    simp only [LndModel.C08.step, stepDownSettle, stepDownRevPeer, stepUpSigBob, stepDownSigBob,
      stepUpSignPersist, stepDropSpurious, stepRestart, chanAccepts] at hs
  case refwdResp => exact absurd rfl he
  all_goals first
    | (cases r <;> simp [AwaitsReplay, Life.sigO, Life.sigR, Life.revO, Life.revR, Life.restart, badSigned] at hs ⊢ <;>
        (try subst hs) <;> simp [AwaitsReplay, Life.sigO, Life.sigR, Life.revO, Life.revR, Life.restart])
    | skip

/-- **without the replay step there is no progress**: from a state awaiting the replay, NO sequence of
the other 29 event kinds (peer messages, Bob's other steps, retransmissions, any number of further
crash-restarts) ever resolves the incoming htlc. -/
theorem no_progress_without_replay {r : Res P} {s s' : Pair P} {es : List (Ev P)} (h : AwaitsReplay r s)
    (hes : Ev.refwdResp ∉ es) (hrun : run H hash s es = some s') : s'.up = .locked ∧ ¬ Quiescent s' := by
  induction es generalizing s with
  | nil =>
    simp only [run, Option.some.injEq] at hrun
    subst hrun
    exact ⟨h.1, fun hq => by have := hq.1; simp [h.1, Life.gone] at this⟩
  | cons e es ih =>
    simp only [run] at hrun
    simp only [List.mem_cons, not_or] at hes
    split at hrun
    · next s1 hs1 => exact ih (awaitsReplay_step H hash h hs1 (fun he => hes.1 he.symm)) hes.2 hrun
    · cases hrun

/-- such a state is reachable (crash after the downstream fail became irrevocable), and with the replay
step the schedule does resolve it (`progress`). -/
example : ∃ s : Pair Nat, Reachable (fun p => p + 100) 107 s ∧ AwaitsReplay .fail s :=
  ⟨(run (fun p => p + 100) 107 {} [.upAdd, .upSigPeer, .upRevBob, .upSigBob, .upRevPeer, .decide true,
      .commitCircuit (2, 0), .sendDownAdd, .openKeystone, .downSignPersist, .downSigBob, .downRevPeer, .downSigPeer,
      .downRevBob, .downFail, .downSigPeer, .downRevBob, .downSigBob, .downRevPeer, .restart]).getD {},
    run_reachable _ _ Reachable.init (es := [.upAdd, .upSigPeer, .upRevBob, .upSigBob, .upRevPeer, .decide true,
      .commitCircuit (2, 0), .sendDownAdd, .openKeystone, .downSignPersist, .downSigBob, .downRevPeer, .downSigPeer,
      .downRevBob, .downFail, .downSigPeer, .downRevBob, .downSigBob, .downRevPeer, .restart]) (by decide),
    by unfold AwaitsReplay; decide⟩

end LndModel.C08
