/-
C08 — theorems about the preimage beacon model (`Beacon.lean`).

For the code's id rule (`IdRule.counter`) and ANY sequence of SubscribeUpdates (with or without
interceptor error) / CancelSubscription / AddPreimages (cache write ok or failing) /
LookupPreimage / restart:

* `ids_never_reused`, `subscribe_id_fresh`: two different subscribers never hold the same client
  id; the id handed out is not a key of the map.
* `inbox_spec`: what a subscriber is sent is EXACTLY the trace-level specification `specInbox`:
  the batches of the successful AddPreimages calls between its subscribe and its cancel, each
  once, in order.  Corollaries `live_gets_every_batch_once_in_order`, `cancelled_gets_nothing`.
* `lookup_spec`, `lookup_sound`: LookupPreimage answers with the last preimage of that hash
  written by a successful AddPreimages, and whatever it answers hashes to the key.
* `mapLen_loses_live_subscriber`: with id := len(subscribers) the same statements fail on the
  schedule subscribe A, subscribe B, cancel A, subscribe C, add.
-/
import LndModel.C08.Beacon

set_option linter.unusedSectionVars false
set_option linter.unusedVariables false
set_option linter.unusedSimpArgs false

namespace LndModel.C08.Beacon
variable {P Hsh : Type} [DecidableEq Hsh] (H : P → Hsh)

/-- the invariant of the code's id discipline. -/
structure BInv (s : St P Hsh) : Prop where
  sub_lt : ∀ e ∈ s.subs, e.1 < s.next ∧ e.2 < s.nslots
  sub_handle : ∀ e ∈ s.subs, (e.2, e.1) ∈ s.handle
  h_lt : ∀ e ∈ s.handle, e.2 < s.next ∧ e.1 < s.nslots
  /-- a slot's cancel closure captured one id. -/
  h_fun : ∀ sl id id', (sl, id) ∈ s.handle → (sl, id') ∈ s.handle → id = id'
  /-- ids are never reused: an id belongs to one slot. -/
  h_inj : ∀ sl sl' id, (sl, id) ∈ s.handle → (sl', id) ∈ s.handle → sl = sl'
  /-- a subscriber sits in the map at most once. -/
  sub_pw : s.subs.Pairwise (fun a b => a.2 ≠ b.2)

theorem BInv.init : BInv ({} : St P Hsh) :=
  ⟨by simp, by simp, by simp, by simp, by simp, by simp⟩

/-! ### list helpers -/

theorem filter_ne_self {l : List (Nat × Nat)} {k : Nat} (h : ∀ e ∈ l, e.1 < k) :
    l.filter (fun e => e.1 != k) = l := by
  apply List.filter_eq_self.2
  intro e he
  have := h e he
  simp only [bne_iff_ne, ne_eq]
  omega

theorem any_filter_of_imp {α : Type} {l : List α} {p q : α → Bool} (h : ∀ e ∈ l, q e = true → p e = true) :
    (l.filter p).any q = l.any q := by
  induction l with
  | nil => rfl
  | cons a l ih =>
    have ih' := ih (fun e he => h e (List.mem_cons_of_mem _ he))
    by_cases hp : p a = true
    · simp [List.filter_cons, hp, ih']
    · have hq : q a = false := by
        cases hq : q a
        · rfl
        · exact absurd (h a (by simp) hq) hp
      simp [List.filter_cons, hp, ih', hq]

theorem any_filter_none {α : Type} {l : List α} {p q : α → Bool} (h : ∀ e ∈ l, q e = true → p e = false) :
    (l.filter p).any q = false := by
  induction l with
  | nil => rfl
  | cons a l ih =>
    have ih' := ih (fun e he => h e (List.mem_cons_of_mem _ he))
    by_cases hp : p a = true
    · have hq : q a = false := by
        cases hq : q a
        · rfl
        · have := h a (by simp) hq; simp [hp] at this
      simp [List.filter_cons, hp, ih', hq]
    · simp [List.filter_cons, hp, ih']

theorem handleOf_some {s : St P Hsh} (hI : BInv s) {sl id : Nat} (h : (sl, id) ∈ s.handle) :
    handleOf s sl = some id := by
  show (s.handle.find? (fun e => e.1 == sl)).map (·.2) = some id
  generalize hf : s.handle.find? (fun e => e.1 == sl) = x
  cases x with
  | none =>
    have := List.find?_eq_none.1 hf (sl, id) h
    simp at this
  | some e =>
    have h1 := List.find?_some hf
    have h2 := List.mem_of_find?_eq_some hf
    simp only [beq_iff_eq] at h1
    have : (sl, e.2) ∈ s.handle := by rw [← h1]; exact h2
    have hid := hI.h_fun sl id e.2 h this
    simp [hid]

theorem handleOf_mem {s : St P Hsh} {sl id : Nat} (h : handleOf s sl = some id) : (sl, id) ∈ s.handle := by
  have h' : (s.handle.find? (fun e => e.1 == sl)).map (·.2) = some id := h
  generalize hf : s.handle.find? (fun e => e.1 == sl) = x at h'
  cases x with
  | none => simp at h'
  | some e =>
    have h1 := List.find?_some hf
    have h2 := List.mem_of_find?_eq_some hf
    simp only [beq_iff_eq] at h1
    simp only [Option.map_some, Option.some.injEq] at h'
    rw [← h', ← h1]
    exact h2

theorem inbox_one_same (slot : Nat) (ps : List P) :
    ((ps.map (fun p => (slot, p))).filter (fun e => e.1 == slot)).map (·.2) = ps := by
  induction ps <;> simp_all

theorem inbox_one_other {k slot : Nat} (h : k ≠ slot) (ps : List P) :
    ((ps.map (fun p => (k, p))).filter (fun e => e.1 == slot)).map (·.2) = [] := by
  induction ps <;> simp_all

/-- a batch is not sent to a slot that is not in the map. -/
theorem deliver_filter_dead {subs : List (Nat × Nat)} (ps : List P) (slot : Nat)
    (hd : subs.any (fun e => e.2 == slot) = false) :
    ((deliver subs ps).filter (fun e => e.1 == slot)).map (·.2) = [] := by
  induction subs with
  | nil => simp [deliver]
  | cons a rest ih =>
    simp only [List.any_cons, Bool.or_eq_false_iff, beq_eq_false_iff_ne, ne_eq] at hd
    have ih' := ih hd.2
    simp only [deliver, List.flatMap_cons, List.filter_append, List.map_append] at ih' ⊢
    rw [ih', inbox_one_other hd.1]
    rfl

/-- what one batch adds to the inbox of a slot that is in the map: the batch, once, in order. -/
theorem deliver_filter_live {subs : List (Nat × Nat)} (hpw : subs.Pairwise (fun a b => a.2 ≠ b.2)) (ps : List P)
    (slot : Nat) (hl : subs.any (fun e => e.2 == slot) = true) :
    ((deliver subs ps).filter (fun e => e.1 == slot)).map (·.2) = ps := by
  induction subs with
  | nil => simp at hl
  | cons a rest ih =>
    have hpw' := List.pairwise_cons.1 hpw
    by_cases ha : a.2 = slot
    · have hrest : rest.any (fun e => e.2 == slot) = false := by
        apply List.any_eq_false.2
        intro e he
        have := hpw'.1 e he
        simp only [beq_iff_eq]
        omega
      have h0 := deliver_filter_dead ps slot hrest
      simp only [deliver, List.flatMap_cons, List.filter_append, List.map_append] at h0 ⊢
      rw [h0, ha, inbox_one_same, List.append_nil]
    · have hrest : rest.any (fun e => e.2 == slot) = true := by
        simp only [List.any_cons, Bool.or_eq_true, beq_iff_eq] at hl
        rcases hl with hl | hl
        · exact absurd hl ha
        · simpa using hl
      have ih' := ih hpw'.2 hrest
      simp only [deliver, List.flatMap_cons, List.filter_append, List.map_append] at ih' ⊢
      rw [ih', inbox_one_other ha, List.nil_append]

/-! ### one step -/

/-- **one step of the code's beacon**: the invariant is kept, and the inbox of every slot grows
exactly as the trace-level specification says. -/
theorem step_spec {s : St P Hsh} (hI : BInv s) (op : Op P Hsh) (slot : Nat)
    (tr : List (Op P Hsh × Out P)) :
    BInv (step H .counter s op).1 ∧
    inbox s slot ++ specInbox slot (liveB s slot) ((op, (step H .counter s op).2) :: tr) =
      inbox (step H .counter s op).1 slot ++ specInbox slot (liveB (step H .counter s op).1 slot) tr := by
  cases op with
  | sub ok =>
    have hfil := filter_ne_self (k := s.next) (fun e he => (hI.sub_lt e he).1)
    cases ok
    · -- interceptor error: the fresh entry is removed again
      have hsubs : mapDel (mapPut s.subs s.next s.nslots) s.next = s.subs := by
        simp [mapDel, mapPut, List.filter_cons, hfil]
      simp only [step, newId, Bool.false_eq_true, if_false, hsubs]
      refine ⟨⟨?_, ?_, ?_, ?_, ?_, hI.sub_pw⟩, ?_⟩
      · intro e he; have := hI.sub_lt e he; simp only; omega
      · intro e he; exact List.mem_cons_of_mem _ (hI.sub_handle e he)
      · intro e he
        rcases List.mem_cons.1 he with rfl | he
        · simp
        · have := hI.h_lt e he; simp only; omega
      · intro sl id id' h1 h2
        rcases List.mem_cons.1 h1 with h1 | h1 <;> rcases List.mem_cons.1 h2 with h2 | h2
        · cases h1; cases h2; rfl
        · cases h1; have := (hI.h_lt _ h2).2; simp at this
        · cases h2; have := (hI.h_lt _ h1).2; simp at this
        · exact hI.h_fun sl id id' h1 h2
      · intro sl sl' id h1 h2
        rcases List.mem_cons.1 h1 with h1 | h1 <;> rcases List.mem_cons.1 h2 with h2 | h2
        · cases h1; cases h2; rfl
        · cases h1; have := (hI.h_lt _ h2).1; simp at this
        · cases h2; have := (hI.h_lt _ h1).1; simp at this
        · exact hI.h_inj sl sl' id h1 h2
      · simp [specInbox, inbox, liveB]
    · simp only [step, newId, if_true]
      refine ⟨⟨?_, ?_, ?_, ?_, ?_, ?_⟩, ?_⟩
      · intro e he
        simp only [mapPut, hfil] at he
        rcases List.mem_cons.1 he with rfl | he
        · simp
        · have := hI.sub_lt e he; simp only; omega
      · intro e he
        simp only [mapPut, hfil] at he
        rcases List.mem_cons.1 he with rfl | he
        · simp
        · exact List.mem_cons_of_mem _ (hI.sub_handle e he)
      · intro e he
        rcases List.mem_cons.1 he with rfl | he
        · simp
        · have := hI.h_lt e he; simp only; omega
      · intro sl id id' h1 h2
        rcases List.mem_cons.1 h1 with h1 | h1 <;> rcases List.mem_cons.1 h2 with h2 | h2
        · cases h1; cases h2; rfl
        · cases h1; have := (hI.h_lt _ h2).2; simp at this
        · cases h2; have := (hI.h_lt _ h1).2; simp at this
        · exact hI.h_fun sl id id' h1 h2
      · intro sl sl' id h1 h2
        rcases List.mem_cons.1 h1 with h1 | h1 <;> rcases List.mem_cons.1 h2 with h2 | h2
        · cases h1; cases h2; rfl
        · cases h1; have := (hI.h_lt _ h2).1; simp at this
        · cases h2; have := (hI.h_lt _ h1).1; simp at this
        · exact hI.h_inj sl sl' id h1 h2
      · simp only [mapPut, hfil]
        refine List.pairwise_cons.2 ⟨?_, hI.sub_pw⟩
        intro e he
        have := (hI.sub_lt e he).2
        simp only [ne_eq]
        omega
      · simp only [specInbox, inbox, liveB, mapPut, hfil, List.any_cons]
        congr 2
        rw [Bool.or_comm]
  | cancel k =>
    simp only [step]
    rcases hh : handleOf s k with _ | id
    · refine ⟨hI, ?_⟩
      simp only [specInbox]
      congr 2
      by_cases hk : k = slot
      · subst hk
        have : liveB s k = false := by
          unfold liveB
          apply List.any_eq_false.2
          intro e he hek
          simp only [beq_iff_eq] at hek
          have hm := hI.sub_handle e he
          rw [hek] at hm
          rw [handleOf_some hI hm] at hh
          cases hh
        simp [this]
      · simp [hk]
    · have hmem := handleOf_mem hh
      refine ⟨⟨?_, ?_, hI.h_lt, hI.h_fun, hI.h_inj, ?_⟩, ?_⟩
      · intro e he; exact hI.sub_lt e ((List.mem_filter.1 he).1)
      · intro e he; exact hI.sub_handle e ((List.mem_filter.1 he).1)
      · exact hI.sub_pw.sublist List.filter_sublist
      · simp only [specInbox, inbox]
        congr 2
        unfold liveB
        simp only [mapDel]
        by_cases hk : k = slot
        · subst hk
          rw [any_filter_none]
          · simp
          · intro e he hek
            simp only [beq_iff_eq] at hek
            have hm := hI.sub_handle e he
            rw [hek] at hm
            have := hI.h_fun k id e.1 hmem hm
            simp [this]
        · rw [any_filter_of_imp]
          · simp [hk]
          · intro e he hek
            simp only [beq_iff_eq] at hek
            have hm := hI.sub_handle e he
            rw [hek] at hm
            simp only [bne_iff_ne, ne_eq]
            intro heq
            rw [heq] at hm
            exact hk (hI.h_inj k slot id hmem hm)
  | add ps ok =>
    simp only [step]
    by_cases hps : ps.isEmpty = true
    · simp only [hps, if_true]
      refine ⟨hI, ?_⟩
      have : ps = [] := List.isEmpty_iff.1 hps
      subst this
      cases ok <;> simp [specInbox]
    · simp only [hps, Bool.false_eq_true, if_false]
      cases ok
      · simp only [Bool.false_eq_true, if_false]
        exact ⟨hI, by simp [specInbox]⟩
      · simp only [if_true]
        refine ⟨⟨hI.sub_lt, hI.sub_handle, hI.h_lt, hI.h_fun, hI.h_inj, hI.sub_pw⟩, ?_⟩
        cases hl : liveB s slot
        · have := deliver_filter_dead ps slot hl
          simp only [specInbox, inbox, List.filter_append, List.map_append, this, liveB, hl] at *
          simp [hl]
        · have := deliver_filter_live hI.sub_pw ps slot hl
          simp only [specInbox, inbox, List.filter_append, List.map_append, this, liveB, hl] at *
          simp [hl]
  | lookup h =>
    simp only [step]
    split <;> exact ⟨hI, by simp [specInbox]⟩
  | restart =>
    simp only [step]
    refine ⟨⟨by simp, by simp, by simp, by simp, by simp, by simp⟩, ?_⟩
    simp [specInbox, inbox, liveB]

/-! ### runs -/

/-- **inbox_spec**: for ANY operation sequence from any state satisfying the invariant, what
each subscriber is sent is exactly what the trace-level specification says: every batch of a
successful AddPreimages between its subscribe and its cancel, once, in order — nothing else. -/
theorem inbox_spec {s : St P Hsh} (hI : BInv s) (ops : List (Op P Hsh)) (slot : Nat) :
    BInv (run H .counter s ops).1 ∧
    inbox (run H .counter s ops).1 slot =
      inbox s slot ++ specInbox slot (liveB s slot) (run H .counter s ops).2 := by
  induction ops generalizing s with
  | nil => simp [run, specInbox, hI]
  | cons o os ih =>
    have hs := step_spec H hI o slot (run H .counter (step H .counter s o).1 os).2
    have ih' := ih hs.1
    simp only [run]
    refine ⟨ih'.1, ?_⟩
    rw [ih'.2, hs.2]

/-- reachable from the empty beacon. -/
def Reach (s : St P Hsh) : Prop := ∃ ops, (run H .counter ({} : St P Hsh) ops).1 = s

theorem Reach.inv {s : St P Hsh} (h : Reach H s) : BInv s := by
  obtain ⟨ops, rfl⟩ := h
  exact (inbox_spec H BInv.init ops 0).1

/-- from the empty beacon: the inbox IS the specification. -/
theorem inbox_spec_init (ops : List (Op P Hsh)) (slot : Nat) :
    inbox (run H .counter ({} : St P Hsh) ops).1 slot = specInbox slot false (run H .counter ({} : St P Hsh) ops).2 := by
  have := (inbox_spec H BInv.init ops slot).2
  simpa [inbox, liveB] using this

/-- **ids are never reused**: in every reachable state two different subscribers (slots) hold
different client ids, also when the earlier one has been cancelled long ago. -/
theorem ids_never_reused {s : St P Hsh} (h : Reach H s) {sl sl' id id' : Nat}
    (h1 : (sl, id) ∈ s.handle) (h2 : (sl', id') ∈ s.handle) (hne : sl ≠ sl') : id ≠ id' := by
  intro heq
  subst heq
  exact hne ((Reach.inv H h).h_inj sl sl' id h1 h2)

/-- the id the next SubscribeUpdates takes is neither a key of the map nor an id any earlier
subscriber (live or cancelled) ever held. -/
theorem subscribe_id_fresh {s : St P Hsh} (h : Reach H s) :
    (∀ e ∈ s.subs, e.1 ≠ newId .counter s) ∧ (∀ e ∈ s.handle, e.2 ≠ newId .counter s) := by
  have hI := Reach.inv H h
  constructor
  · intro e he; have := (hI.sub_lt e he).1; simp only [newId]; omega
  · intro e he; have := (hI.h_lt e he).1; simp only [newId]; omega

/-- the batches of the successful AddPreimages calls of an operation list, concatenated. -/
def okBatches : List (Op P Hsh) → List P
  | [] => []
  | .add ps true :: os => ps ++ okBatches os
  | _ :: os => okBatches os

theorem run_ops (r : IdRule) (s : St P Hsh) (ops : List (Op P Hsh)) : (run H r s ops).2.map (·.1) = ops := by
  induction ops generalizing s with
  | nil => rfl
  | cons o os ih => simp [run, ih]

theorem specInbox_live {slot : Nat} {tr : List (Op P Hsh × Out P)}
    (h : ∀ x ∈ tr, x.1 ≠ .cancel slot ∧ x.1 ≠ .restart) :
    specInbox slot true tr = okBatches (tr.map (·.1)) := by
  induction tr with
  | nil => rfl
  | cons x tr ih =>
    have ih' := ih (fun y hy => h y (List.mem_cons_of_mem _ hy))
    have hx := h x (by simp)
    rcases x with ⟨op, out⟩
    cases op with
    | sub ok => cases out <;> simp [specInbox, okBatches, ih']
    | cancel k =>
      have : k ≠ slot := fun hk => hx.1 (by simp [hk])
      have hb : (k != slot) = true := by simp [this]
      simp only [specInbox, okBatches, List.map_cons, Bool.true_and, hb]
      exact ih'
    | add ps ok => cases ok <;> simp [specInbox, okBatches, ih']
    | lookup h => simp [specInbox, okBatches, ih']
    | restart => exact absurd rfl hx.2

/-- **every live subscriber receives every preimage added while it is subscribed, exactly once,
in order**: if the slot is in the map and the operations contain neither its cancel nor a
restart, its inbox grows by exactly the concatenation of the successfully added batches. -/
theorem live_gets_every_batch_once_in_order {s : St P Hsh} (hI : BInv s) {slot : Nat}
    (hl : liveB s slot = true) (ops : List (Op P Hsh))
    (hno : ∀ o ∈ ops, o ≠ .cancel slot ∧ o ≠ .restart) :
    inbox (run H .counter s ops).1 slot = inbox s slot ++ okBatches ops := by
  rw [(inbox_spec H hI ops slot).2, hl, specInbox_live, run_ops]
  intro x hx
  have : x.1 ∈ (run H .counter s ops).2.map (·.1) := List.mem_map.2 ⟨x, hx, rfl⟩
  rw [run_ops] at this
  exact hno _ this

theorem run_subscribed_ge (r : IdRule) (s : St P Hsh) (ops : List (Op P Hsh)) :
    ∀ x ∈ (run H r s ops).2, ∀ k, x.2 = .subscribed k → s.nslots ≤ k := by
  induction ops generalizing s with
  | nil => simp [run]
  | cons o os ih =>
    intro x hx k hk
    simp only [run, List.mem_cons] at hx
    rcases hx with rfl | hx
    · cases o <;> simp only [step] at hk <;> (repeat' split at hk) <;> cases hk
      exact Nat.le_refl _
    · have := ih (step H r s o).1 x hx k hk
      have hmono : s.nslots ≤ (step H r s o).1.nslots := by
        cases o <;> simp only [step] <;> (repeat' split) <;> simp
      omega

theorem specInbox_dead {slot : Nat} {tr : List (Op P Hsh × Out P)}
    (h : ∀ x ∈ tr, x.2 ≠ .subscribed slot) : specInbox slot false tr = [] := by
  induction tr with
  | nil => rfl
  | cons x tr ih =>
    have ih' := ih (fun y hy => h y (List.mem_cons_of_mem _ hy))
    have hx := h x (by simp)
    rcases x with ⟨op, out⟩
    cases op with
    | sub ok =>
      cases out <;> simp only [specInbox, ih', Bool.false_or]
      next k =>
        have : (k == slot) = false := by
          simp only [beq_eq_false_iff_ne, ne_eq]
          intro hk; exact hx (by simp [hk])
        rw [this]; exact ih'
    | cancel k => simp [specInbox, ih']
    | add ps ok => cases ok <;> simp [specInbox, ih']
    | lookup h => simp [specInbox, ih']
    | restart => simp [specInbox, ih']

/-- **a cancelled subscriber receives nothing afterwards**: a slot that exists and is not in the
map is never sent anything again, whatever happens later (its name is never handed out again). -/
theorem cancelled_gets_nothing {s : St P Hsh} (hI : BInv s) {slot : Nat}
    (hdead : liveB s slot = false) (hold : slot < s.nslots) (ops : List (Op P Hsh)) :
    inbox (run H .counter s ops).1 slot = inbox s slot := by
  rw [(inbox_spec H hI ops slot).2, hdead, specInbox_dead, List.append_nil]
  intro x hx heq
  have := run_subscribed_ge H .counter s ops x hx slot heq
  omega

/-! ### LookupPreimage -/

theorem cacheGet_put (c : List (Hsh × P)) (ps : List P) (h : Hsh) :
    cacheGet (cachePut H c ps) h =
      match ps.reverse.find? (fun p => H p == h) with
      | some p => some p
      | none => cacheGet c h := by
  induction ps generalizing c with
  | nil => simp [cachePut]
  | cons p ps ih =>
    have : cachePut H c (p :: ps) = cachePut H ((H p, p) :: c) ps := by simp [cachePut]
    rw [this, ih]
    simp only [List.reverse_cons, List.find?_append]
    rcases hf : ps.reverse.find? (fun p => H p == h) with _ | q
    · by_cases hp : H p = h
      · simp [cacheGet, hp]
      · simp [cacheGet, hp]
    · simp

/-- **LookupPreimage returns exactly what was added**: after any run the answer for a hash is
the last preimage of that hash written by a successful, non-empty AddPreimages of the trace;
if there is none, what the cache held before. -/
theorem lookup_spec (r : IdRule) (s : St P Hsh) (ops : List (Op P Hsh)) (h : Hsh) :
    cacheGet (run H r s ops).1.cache h = specLookup H h (cacheGet s.cache h) (run H r s ops).2 := by
  induction ops generalizing s with
  | nil => simp [run, specLookup]
  | cons o os ih =>
    simp only [run]
    rw [ih]
    cases o with
    | add ps ok =>
      cases ok
      · simp only [step]; split <;> simp [specLookup]
      · simp only [step]
        by_cases hps : ps.isEmpty = true
        · have : ps = [] := List.isEmpty_iff.1 hps
          subst this
          simp [specLookup]
        · simp only [hps, Bool.false_eq_true, if_false, if_true, specLookup, cacheGet_put]
          rfl
    | sub ok => cases ok <;> simp [step, specLookup]
    | cancel k => simp only [step]; split <;> simp [specLookup]
    | lookup h' => simp only [step]; split <;> simp [specLookup]
    | restart => simp [step, specLookup]

theorem cachePut_ok (ps : List P) : ∀ (c : List (Hsh × P)), (∀ e ∈ c, H e.2 = e.1) →
    ∀ e ∈ cachePut H c ps, H e.2 = e.1 := by
  induction ps with
  | nil => intro c hc; simpa [cachePut] using hc
  | cons p ps ih =>
    intro c hc
    have : cachePut H c (p :: ps) = cachePut H ((H p, p) :: c) ps := by simp [cachePut]
    rw [this]
    apply ih
    intro e he
    rcases List.mem_cons.1 he with rfl | he
    · rfl
    · exact hc e he

/-- every entry of the cache is keyed by the hash of its value. -/
def CacheOk (s : St P Hsh) : Prop := ∀ e ∈ s.cache, H e.2 = e.1

theorem CacheOk.step {s : St P Hsh} (hC : CacheOk H s) (r : IdRule) (o : Op P Hsh) :
    CacheOk H (step H r s o).1 := by
  cases o with
  | add ps ok =>
    simp only [LndModel.C08.Beacon.step]
    split
    · exact hC
    · split
      · exact cachePut_ok H ps _ hC
      · exact hC
  | sub ok => cases ok <;> exact hC
  | cancel k => simp only [LndModel.C08.Beacon.step]; split <;> exact hC
  | lookup h => simp only [LndModel.C08.Beacon.step]; split <;> exact hC
  | restart => exact hC

theorem CacheOk.run {s : St P Hsh} (hC : CacheOk H s) (r : IdRule) (ops : List (Op P Hsh)) :
    CacheOk H (run H r s ops).1 := by
  induction ops generalizing s with
  | nil => exact hC
  | cons o os ih => simp only [LndModel.C08.Beacon.run]; exact ih (hC.step H r o)

/-- **LookupPreimage is sound**: whatever it answers after any run from the empty beacon hashes
to the key asked for (so a resolver settling with it uses a valid preimage). -/
theorem lookup_sound (r : IdRule) (ops : List (Op P Hsh)) {h : Hsh} {p : P}
    (hf : cacheGet (run H r ({} : St P Hsh) ops).1.cache h = some p) : H p = h := by
  have hC : CacheOk H (run H r ({} : St P Hsh) ops).1 := CacheOk.run H (by simp [CacheOk]) r ops
  unfold cacheGet at hf
  rcases hx : (run H r ({} : St P Hsh) ops).1.cache.find? (fun e => e.1 == h) with _ | e
  · simp [hx] at hf
  · simp only [hx, Option.map_some, Option.some.injEq] at hf
    have h1 := List.find?_some hx
    have h2 := hC e (List.mem_of_find?_eq_some hx)
    simp only [beq_iff_eq] at h1
    rw [← hf, h2, h1]

/-! ### the id rule matters: `len(subscribers)` as id loses a live subscriber -/

/-- subscribe A, subscribe B, cancel A, subscribe C, then the preimage 7 arrives. -/
def churn : List (Op Nat Nat) := [.sub true, .sub true, .cancel 0, .sub true, .add [7] true, .cancel 1, .cancel 2]

/-- with the code's rule B (slot 1) and C (slot 2) receive the preimage and the map ends empty;
with `id := len(subscribers)` C takes B's id and replaces B in the map: B, still subscribed, is
sent nothing although the trace-level specification demands `[7]`, and cancelling B then removes
C's entry. -/
theorem mapLen_loses_live_subscriber :
    inbox (run (fun p => p + 100) .counter ({} : St Nat Nat) churn).1 1 = [7] ∧
    inbox (run (fun p => p + 100) .counter ({} : St Nat Nat) churn).1 2 = [7] ∧
    (run (fun p => p + 100) .counter ({} : St Nat Nat) churn).1.subs = [] ∧
    inbox (run (fun p => p + 100) .mapLen ({} : St Nat Nat) churn).1 1 = [] ∧
    specInbox 1 false (run (fun p => p + 100) .mapLen ({} : St Nat Nat) churn).2 = [7] := by
  decide

/-! ### non-vacuity -/

example : ∃ s : St Nat Nat, Reach (fun p => p + 100) s ∧ liveB s 1 = true ∧ liveB s 0 = false ∧ 0 < s.nslots ∧
    s.handle = [(2, 2), (1, 1), (0, 0)] :=
  ⟨(run (fun p => p + 100) .counter ({} : St Nat Nat) (churn.take 4)).1, ⟨churn.take 4, rfl⟩,
    by decide, by decide, by decide, by decide⟩

example : cacheGet (run (fun p => p + 100) .counter ({} : St Nat Nat) churn).1.cache 107 = some 7 := by decide

example : okBatches (P := Nat) (Hsh := Nat) [.add [1, 2] true, .add [9] false, .lookup 3, .add [3] true] = [1, 2, 3] := by
  decide

end LndModel.C08.Beacon
