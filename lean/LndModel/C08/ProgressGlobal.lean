/-
C08 — GENERAL PROGRESS for the global model (all payments, forwarding-package references,
variant `byIndex` = the code after da05f8c): from every state reached by ANY global run, if no
downstream peer has a fulfill with a wrong preimage on the wire, a state in which EVERY payment is
quiescent is reachable without a crash-restart, and there the balance equation holds.
-/
import LndModel.C08.ProgressProps

set_option linter.unusedSimpArgs false
set_option linter.unusedVariables false
set_option linter.unusedSectionVars false

namespace LndModel.C08
variable {P Hsh : Type} [DecidableEq P] [DecidableEq Hsh] (H : P → Hsh)

/-- the reference carried by an event (if any) is `loc`. -/
def EvRefIs (loc : Ref) : Ev P → Prop
  | .localReject r | .commitCircuit r | .refwdFail r => r = loc
  | _ => True

/-- converse of `gstepOne_pair`: a step of the pair model of payment `i` whose reference is the
payment's own location IS a step of the global `byIndex` model that leaves the others alone. -/
theorem gstepOne_of_step {g : GS P Hsh} (hG : GInv H g) {i : Nat} (hi : i < g.n) {e : Ev P} {s' : Pair P}
    (hs : step H (g.prm i).hash (g.st i) e = some s') (he : EvRefIs (g.loc i) e) :
    gstepOne H .byIndex g i e = some (setSt g i s') := by
  have hr := hG.reach i hi
  have hR := hG.refs i hi
  unfold gstepOne
  simp only [hi, if_true, refOf]
  cases e
  case localReject ref => simp only [EvRefIs] at he; subst he; simp [hs]
  case commitCircuit ref => simp only [EvRefIs] at he; subst he; simp [hs]
  case refwdFail ref => simp only [EvRefIs] at he; subst he; simp [hs]
  case upSignPersist =>
    simp only [LndModel.C08.step] at hs
    have hsome : (g.st i).respRef = some (g.loc i) := by
      have hI := hr.inv
      unfold stepUpSignPersist at hs
      split at hs
      · next r hu =>
        split at hs
        · next hd =>
          have := hI.resp_ref r hu hd
          rcases hx : (g.st i).respRef with _ | x
          · simp [hx] at this
          · rw [hR.2 x hx]
        · cases hs
      · cases hs
    unfold stepUpSignPersist at hs ⊢
    split at hs <;> (try cases hs)
    split at hs <;> (try cases hs)
    simp_all [ackRef_self hi hG.inj]
  case dropSpurious =>
    simp only [LndModel.C08.step] at hs
    have hsome : (g.st i).respRef = some (g.loc i) := by
      unfold stepDropSpurious at hs
      split at hs
      · split at hs
        · next hg =>
          rcases hx : (g.st i).respRef with _ | x
          · simp [hx] at hg
          · rw [hR.2 x hx]
        · cases hs
      · cases hs
    unfold stepDropSpurious at hs ⊢
    split at hs <;> (try cases hs)
    split at hs <;> (try cases hs)
    simp_all [ackRef_self hi hG.inj]
  all_goals simp [hs]

theorem schedDown_ref {pol : Policy P} {s : Pair P} {e : Ev P} (h : schedDown pol s = some e) :
    EvRefIs pol.ref e := by
  simp only [schedDown] at h
  split at h
  all_goals (try split at h)
  all_goals (try split at h)
  all_goals (try split at h)
  all_goals first
    | (cases h; done)
    | (cases h; first | exact True.intro | rfl | (split <;> exact True.intro))
    | skip

theorem schedUp_ref {pol : Policy P} {s : Pair P} {e : Ev P} (h : schedUp pol s = some e) :
    EvRefIs pol.ref e := by
  simp only [schedUp] at h
  split at h
  all_goals (try split at h)
  all_goals (try split at h)
  all_goals (try split at h)
  all_goals (try split at h)
  all_goals (try split at h)
  all_goals first
    | (cases h; done)
    | (cases h; first | exact True.intro | rfl)
    | skip

/-- the events chosen by the schedule carry the policy's reference. -/
theorem sched_ref {hash : Hsh} {pol : Policy P} {s : Pair P} {e : Ev P} (h : sched H hash pol s = some e) :
    EvRefIs pol.ref e := by
  simp only [sched] at h
  split at h
  · cases h; exact True.intro
  · split at h
    · split at h <;> cases h <;> exact True.intro
    · split at h
      · cases h; exact True.intro
      · split at h
        · next e' hd => cases h; exact schedDown_ref hd
        · split at h
          · next e' hu => cases h; exact schedUp_ref hu
          · split at h
            · cases h; exact True.intro
            · cases h

theorem drive_refs {hash : Hsh} {pol : Policy P} : ∀ (n : Nat) (s : Pair P),
    ∀ e ∈ (drive H hash pol n s).2, EvRefIs pol.ref e := by
  intro n
  induction n with
  | zero => intro s e he; simp [drive] at he
  | succ n ih =>
    intro s e he
    cases hs : sched H hash pol s with
    | none => simp [drive, hs] at he
    | some e0 =>
      cases hst : step H hash s e0 with
      | none => simp [drive, hs, hst] at he
      | some s1 =>
        have hd : drive H hash pol (n + 1) s = ((drive H hash pol n s1).1, e0 :: (drive H hash pol n s1).2) := by
          simp [drive, hs, hst]
        rw [hd] at he
        simp only [List.mem_cons] at he
        rcases he with rfl | he
        · exact sched_ref H hs
        · exact ih s1 e he

theorem setSt_self (g : GS P Hsh) (i : Nat) : setSt g i (g.st i) = g := by
  rcases g with ⟨n, prm, loc, st⟩
  simp only [setSt]
  congr 1
  funext j
  split
  · next h => rw [h]
  · rfl

theorem setSt_setSt (g : GS P Hsh) (i : Nat) (a b : Pair P) : setSt (setSt g i a) i b = setSt g i b := by
  simp only [setSt]
  congr 1
  funext j
  split <;> rfl

/-- a run of the pair model of payment `i` (references = its own location) is a run of the global model
that changes nothing else. -/
theorem grun_one {i : Nat} {es : List (Ev P)} : ∀ {g : GS P Hsh}, GInv H g → i < g.n → ∀ {s' : Pair P},
    run H (g.prm i).hash (g.st i) es = some s' → (∀ e ∈ es, EvRefIs (g.loc i) e) →
    grun H .byIndex g (es.map (GEv.one i)) = some (setSt g i s') ∧ GInv H (setSt g i s') := by
  induction es with
  | nil =>
    intro g hG hi s' hrun _
    simp only [run, Option.some.injEq] at hrun
    subst hrun
    rw [setSt_self]
    exact ⟨by simp [grun], hG⟩
  | cons e es ih =>
    intro g hG hi s' hrun href
    simp only [run] at hrun
    split at hrun
    · next s1 hs1 =>
      have h1 := gstepOne_of_step H hG hi hs1 (href e (by simp))
      have hG1 := hG.stepOne H h1
      have := ih (g := setSt g i s1) hG1 (by simpa [setSt] using hi) (s' := s')
        (by simpa [setSt] using hrun) (by intro e' he'; simpa [setSt] using href e' (by simp [he']))
      rw [setSt_setSt] at this
      exact ⟨by simp only [List.map_cons, grun, gstep, h1]; exact this.1, this.2⟩
    · cases hrun

theorem grun_append_of {v : Variant} {g0 g g' : GS P Hsh} {a b : List (GEv P)} (ha : grun H v g0 a = some g)
    (hb : grun H v g b = some g') : grun H v g0 (a ++ b) = some g' := by
  induction a generalizing g0 with
  | nil => simp [grun] at ha; subst ha; simpa using hb
  | cons e a ih =>
    simp only [grun, List.cons_append] at ha ⊢
    split at ha
    · next g1 hg1 => exact ih ha
    · cases ha

/-- a global continuation made of single-payment events only, none of them a crash-restart. -/
def NoRestartG : GEv P → Prop
  | .one _ e => e ≠ .restart
  | .all _ => False

theorem NoRestartG.ok {e : GEv P} (h : NoRestartG e) : GEvOk e := by
  cases e with
  | one i e => exact True.intro
  | all f => exact h.elim

theorem global_progress_aux (pol : Nat → Policy P) : ∀ (k : Nat) {g : GS P Hsh}, GInv H g → k ≤ g.n →
    (∀ j, j < g.n → Honest H (g.prm j).hash (g.st j)) →
    (∀ j, j < g.n → (pol j).Valid H (g.prm j).hash ∧ (pol j).ref = g.loc j) →
    ∃ es g', grun H .byIndex g es = some g' ∧ GInv H g' ∧ g'.n = g.n ∧ g'.prm = g.prm ∧ g'.loc = g.loc ∧
      (∀ j, j < k → Quiescent (g'.st j)) ∧ (∀ j, k ≤ j → g'.st j = g.st j) ∧ (∀ e ∈ es, NoRestartG e) := by
  intro k
  induction k with
  | zero =>
    intro g hG _ _ _
    exact ⟨[], g, by simp [grun], hG, rfl, rfl, rfl, by intro j hj; omega, by intro j _; rfl, by simp⟩
  | succ k ih =>
    intro g hG hk hH hpol
    obtain ⟨es, g1, h1, hG1, hn, hprm, hloc, hq, hsame, hnr⟩ := ih hG (by omega) hH hpol
    have hk1 : k < g1.n := by omega
    have hst : g1.st k = g.st k := hsame k (Nat.le_refl _)
    have hHk : Honest H (g1.prm k).hash (g1.st k) := by rw [hprm, hst]; exact hH k (by omega)
    have hVk : (pol k).Valid H (g1.prm k).hash := by rw [hprm]; exact (hpol k (by omega)).1
    obtain ⟨es2, s', hr2, hq2, _, hnr2, hes2⟩ := progress H (g1.prm k).hash (hG1.reach k hk1) hHk (pol k) hVk
    have href : ∀ e ∈ es2, EvRefIs (g1.loc k) e := by
      intro e he
      rw [hes2] at he
      have := drive_refs H _ _ e he
      rwa [(hpol k (by omega)).2, ← hloc] at this
    obtain ⟨h2, hG2⟩ := grun_one H hG1 hk1 hr2 href
    refine ⟨es ++ es2.map (GEv.one k), setSt g1 k s', grun_append_of H h1 h2, hG2, by simpa [setSt] using hn,
      by simpa [setSt] using hprm, by simpa [setSt] using hloc, ?_, ?_, ?_⟩
    · intro j hj
      by_cases hjk : j = k
      · subst hjk; simpa [setSt] using hq2
      · simpa [setSt, hjk] using hq j (by omega)
    · intro j hj
      have hjk : j ≠ k := by omega
      simpa [setSt, hjk] using hsame j (by omega)
    · intro e he
      simp only [List.mem_append, List.mem_map] at he
      rcases he with he | ⟨e', he', rfl⟩
      · exact hnr e he
      · intro h; subst h; exact hnr2 he'

/-- **GENERAL PROGRESS, all payments.** From every state of the global `byIndex` model satisfying its
invariant (in particular every state reached by any global run from `GS.init`: `GInv.run`) in which no
downstream peer has a wrong preimage on the wire, for every forwarding decision and every valid answer
of the downstream peers, a continuation consisting of single-payment steps only, without any
crash-restart, reaches a state in which EVERY payment is quiescent. -/
theorem global_progress {g : GS P Hsh} (hG : GInv H g)
    (hH : ∀ j, j < g.n → Honest H (g.prm j).hash (g.st j)) (pol : Nat → Policy P)
    (hpol : ∀ j, j < g.n → (pol j).Valid H (g.prm j).hash ∧ (pol j).ref = g.loc j) :
    ∃ es g', grun H .byIndex g es = some g' ∧ g'.n = g.n ∧ g'.prm = g.prm ∧
      (∀ j, j < g'.n → Quiescent (g'.st j)) ∧ (∀ e ∈ es, NoRestartG e) := by
  obtain ⟨es, g', h1, _, hn, hprm, _, hq, _, hnr⟩ := global_progress_aux H pol g.n hG (Nat.le_refl _) hH hpol
  exact ⟨es, g', h1, hn, hprm, fun j hj => hq j (by omega), hnr⟩

/-- **the forwarder always gets even**: after ANY global run `es0` (any payments at distinct package
locations, any interleaving, channel-wide messages, retransmissions, crash-restarts) that leaves the peers
honest, there is a restart-free continuation after which every payment is quiescent; and whenever the
peers were consistent there, Bob's total over both channels changed by exactly the fees of the payments
that succeeded and sender debits equal receiver credits plus those fees. The balance statement of
`forwarder_balance_run` is no longer conditional on "the run happens to end quiescent". -/
theorem eventually_balanced [Inhabited Hsh] {l : List (Params Hsh × Ref)} {es0 : List (GEv P)} {g : GS P Hsh}
    (hinj : ∀ i j, i < l.length → j < l.length → (l[i]?.map (·.2)) = (l[j]?.map (·.2)) → i = j)
    (hok : ∀ e ∈ es0, GEvOk e) (h : grun H .byIndex (GS.init l) es0 = some g)
    (hH : ∀ j, j < g.n → Honest H (g.prm j).hash (g.st j)) (pol : Nat → Policy P)
    (hpol : ∀ j, j < g.n → (pol j).Valid H (g.prm j).hash ∧ (pol j).ref = g.loc j) :
    ∃ es g', grun H .byIndex (GS.init l) (es0 ++ es) = some g' ∧ (∀ e ∈ es, NoRestartG e) ∧
      (∀ j, j < g'.n → Quiescent (g'.st j)) ∧
      ((∀ j, j < g'.n → (g'.st j).envBad = false) →
        g'.bobDelta = g'.totalFees ∧ g'.totalDebit = g'.totalCredit + g'.totalFees) := by
  have hG := (GInv.init H hinj).run H hok h
  obtain ⟨es, g', h1, _, _, hq, hnr⟩ := global_progress H hG hH pol hpol
  have hrun := grun_append_of H h h1
  refine ⟨es, g', hrun, hnr, hq, fun henv => ?_⟩
  refine forwarder_balance_run H hinj ?_ hrun (fun j hj => ⟨⟨(hq j hj).1, (hq j hj).2.1⟩, henv j hj⟩)
  intro e he
  simp only [List.mem_append] at he
  rcases he with he | he
  · exact hok e he
  · exact (hnr e he).ok

/-! ### non-vacuity: the hypotheses of `eventually_balanced` are satisfiable -/

section Examples

private def es0x : List (GEv Nat) :=
  [.one 0 .upAdd, .one 1 .upAdd, .one 0 .upSigPeer, .one 0 .upRevBob, .all (fun _ => some .restart), .one 1 .upAdd]
private def g0x : GS Nat Nat := (grun Hx .byIndex (GS.init shiftPays) es0x).getD (GS.init [])
private def polx : Nat → Policy Nat := fun j => ⟨true, if j = 0 then (2, 0) else (2, 1), if j = 0 then .fail else .settle 7⟩

private theorem shiftPays_inj : ∀ i j, i < shiftPays.length → j < shiftPays.length →
    (shiftPays[i]?.map (·.2)) = (shiftPays[j]?.map (·.2)) → i = j := by
  intro i j hi hj h
  simp only [shiftPays, List.length_cons, List.length_nil] at hi hj
  have hi' : i = 0 ∨ i = 1 := by omega
  have hj' : j = 0 ∨ j = 1 := by omega
  rcases hi' with rfl | rfl <;> rcases hj' with rfl | rfl <;> simp [shiftPays] at h ⊢

example : ∃ es g', grun Hx .byIndex (GS.init shiftPays) (es0x ++ es) = some g' ∧ (∀ e ∈ es, NoRestartG e) ∧
    (∀ j, j < g'.n → Quiescent (g'.st j)) ∧
    ((∀ j, j < g'.n → (g'.st j).envBad = false) →
      g'.bobDelta = g'.totalFees ∧ g'.totalDebit = g'.totalCredit + g'.totalFees) := by
  have hsome : (grun Hx .byIndex (GS.init shiftPays) es0x).isSome = true := by decide
  have h : grun Hx .byIndex (GS.init shiftPays) es0x = some g0x := by
    unfold g0x
    rcases hx : grun Hx .byIndex (GS.init shiftPays) es0x with _ | x
    · simp [hx] at hsome
    · rfl
  have hn : g0x.n = 2 := by decide
  refine eventually_balanced Hx shiftPays_inj ?_ h ?_ polx ?_
  · intro e he
    simp only [es0x, List.mem_cons, List.mem_nil_iff, or_false] at he
    rcases he with rfl | rfl | rfl | rfl | rfl | rfl <;> simp [GEvOk, NoRefEv]
  · intro j hj
    have hj' : j = 0 ∨ j = 1 := by omega
    have h0 : (g0x.st 0).down = .absent := by decide
    have h1 : (g0x.st 1).down = .absent := by decide
    rcases hj' with rfl | rfl <;> intro p st hd
    · rw [h0] at hd; cases hd
    · rw [h1] at hd; cases hd
  · intro j hj
    have hj' : j = 0 ∨ j = 1 := by omega
    rcases hj' with rfl | rfl
    · exact ⟨by intro p hp; simp [polx] at hp, by decide⟩
    · refine ⟨?_, by decide⟩
      intro p hp
      simp only [polx] at hp
      have hp7 : p = 7 := by simpa using hp.symm
      subst hp7
      decide

end Examples

end LndModel.C08
