/-
C08 — property theorems.  "A forwarding node never ends up out of pocket: hops settle or
fail together."

All theorems are about `Reachable` states of the forwarder model (Model.lean), i.e. they
hold after ANY interleaving of peer messages, commitment-protocol messages on both
channels, Bob's internal steps, crashes/restarts and retransmissions.
-/
import LndModel.C08.Invariant

set_option linter.unusedSectionVars false
set_option linter.unusedVariables false
set_option linter.unusedSimpArgs false

namespace LndModel.C08
variable {P Hsh : Type} [DecidableEq P] [DecidableEq Hsh] (H : P → Hsh) (hash : Hsh)

/-! ### helper facts (step-local) -/

/-- `known` only grows by a downstream fulfill carrying that preimage. -/
theorem step_known {s s' : Pair P} {e : Ev P} (h : step H hash s e = some s') {p : P}
    (hp : p ∈ s'.known) : p ∈ s.known ∨ e = .downSettle p := by
  cases e <;>
    simp only [LndModel.C08.step, stepDownSettle, stepUpSigBob, stepDownSigBob, stepDownRevPeer,
      stepRestart] at h <;> (repeat' split at h) <;> (try cases h) <;> grind

/-- `sentUp` only grows by Bob sending that resolution upstream. -/
theorem step_sentUp {s s' : Pair P} {e : Ev P} (h : step H hash s e = some s') {r : Res P}
    (hr : r ∈ s'.sentUp) : r ∈ s.sentUp ∨ (e = .relayUp r ∧ s.mbResp = some r ∧ s.up = .locked) ∨
      (e = .localReject ∧ r = .fail) := by
  cases e <;>
    simp only [LndModel.C08.step, stepDownSettle, stepUpSigBob, stepDownSigBob, stepDownRevPeer,
      stepRestart] at h <;> (repeat' split at h) <;> (try cases h) <;> grind

/-! ### settle_only_with_downstream_preimage -/

/-- An `update_fulfill(id_in, p)` has been sent upstream only if a fulfill with the same `p`
was received (and accepted) on the paired outgoing htlc, and `H p` is the payment hash. -/
theorem settle_only_with_downstream_preimage {s : Pair P} (hr : Reachable H hash s) {p : P}
    (h : Res.settle p ∈ s.sentUp) : p ∈ s.known ∧ H p = hash :=
  let hI := hr.inv
  ⟨hI.sent_settle p h, hI.k_valid p (hI.sent_settle p h)⟩

/-- Run-level form: in every run from the initial state, an upstream fulfill with `p` is
preceded by the downstream peer's `update_fulfill` carrying exactly that `p`. -/
theorem known_from_downstream {s s' : Pair P} {es : List (Ev P)} (h : run H hash s es = some s')
    {p : P} (hp : p ∈ s'.known) : p ∈ s.known ∨ Ev.downSettle p ∈ es := by
  induction es generalizing s with
  | nil => simp [run] at h; subst h; exact Or.inl hp
  | cons e es ih =>
    simp only [run] at h
    split at h
    · next s1 h1 =>
      rcases ih h with h2 | h2
      · rcases step_known H hash h1 h2 with h3 | h3
        · exact Or.inl h3
        · exact Or.inr (by simp [h3])
      · exact Or.inr (List.mem_cons_of_mem _ h2)
    · cases h

theorem settle_only_with_downstream_preimage_run {s : Pair P} {es : List (Ev P)}
    (h : run H hash {} es = some s) {p : P} (hs : Res.settle p ∈ s.sentUp) :
    Ev.downSettle p ∈ es ∧ H p = hash := by
  have hr : Reachable H hash s := run_reachable H hash Reachable.init h
  have ⟨hk, hv⟩ := settle_only_with_downstream_preimage H hash hr hs
  rcases known_from_downstream H hash h hk with h1 | h1
  · simp at h1
  · exact ⟨h1, hv⟩

/-- At the moment of sending: whenever a model step shows an upstream fulfill on the wire,
the preimage is known from downstream and hashes to the payment hash. -/
theorem settle_step {s s' : Pair P} {e : Ev P} (hr : Reachable H hash s)
    (h : step H hash s e = some s') {p : P} (hw : e.wireIn s = some (.upSettle p)) :
    p ∈ s.known ∧ H p = hash := by
  have hI := hr.inv
  have hk : p ∈ s.known := by
    cases e <;> simp only [Ev.wireIn, Ev.wire] at hw <;> (try cases hw)
    · next r =>
      cases r <;> simp only [Ev.wire] at hw <;> cases hw
      simp only [LndModel.C08.step] at h
      split at h
      · next hg => exact hI.mb_settle p hg.1
      · cases h
    · simp only [LndModel.C08.step] at h
      split at hw
      · next r st hu =>
        cases hw
        exact hI.up_settle p (by simp [hu, Life.res?])
      · cases hw
      · cases hw
    · split at hw <;> cases hw
  exact ⟨hk, hI.k_valid p hk⟩

/-! ### fail_only_after_downstream_gone -/

/-- While an upstream fail is offered or done, the paired outgoing htlc is irrevocably removed
by a fail, or was never committed (absent and never covered by a signature of Bob). -/
theorem fail_only_after_downstream_gone {s : Pair P} (hr : Reachable H hash s)
    (h : s.up.res? = some .fail) :
    s.down = .removed .fail ∨ (s.down = .absent ∧ s.downCommitted = false) := by
  have hI := hr.inv
  rcases hI.up_fail h with h1 | h1
  · exact Or.inr ⟨h1, by rw [hI.dcomm, h1]; rfl⟩
  · exact Or.inl h1

/-- At the moment of sending (also for the local reject and for a retransmission). -/
theorem fail_step {s s' : Pair P} {e : Ev P} (hr : Reachable H hash s)
    (h : step H hash s e = some s') (hw : e.wireIn s = some .upFail) :
    s.down = .removed .fail ∨ (s.down = .absent ∧ s.downCommitted = false) := by
  have hI := hr.inv
  have hd : s.down = .absent ∨ s.down = .removed .fail := by
    cases e <;> simp only [Ev.wireIn, Ev.wire] at hw <;> (try cases hw)
    · simp only [LndModel.C08.step] at h
      split at h
      · next hg => exact Or.inl (hI.circ_absent hg.2.2).1
      · cases h
    · next r =>
      cases r <;> simp only [Ev.wire] at hw <;> cases hw
      simp only [LndModel.C08.step] at h
      split at h
      · next hg =>
        rcases hI.mb_fail hg.1 with h1 | h1
        · exact Or.inr h1
        · exact Or.inl h1.1
      · cases h
    · split at hw
      · cases hw
      · next st hu => exact hI.up_fail (by simp [hu, Life.res?])
      · cases hw
    · split at hw <;> cases hw
  rcases hd with h1 | h1
  · exact Or.inr ⟨h1, by rw [hI.dcomm, h1]; rfl⟩
  · exact Or.inl h1

/-- An outgoing htlc that was ever covered by a signature of Bob can not be `absent` again:
"never committed" is exactly "absent". -/
theorem committed_iff {s : Pair P} (hr : Reachable H hash s) :
    s.downCommitted = true ↔ (s.down ≠ .absent ∧ s.down ≠ .adding .sent) := by
  have hI := hr.inv
  rw [hI.dcomm]
  rcases hd : s.down with _ | st | _ | ⟨r, st⟩ | r <;> simp [Life.committed]
  cases st <;> simp [Life.committed]

/-! ### at_most_one_resolution -/

/-- Bob irrevocably decides (signs) at most one resolution per incoming htlc, and it is the
one the htlc's life cycle shows. -/
theorem at_most_one_resolution {s : Pair P} (hr : Reachable H hash s) :
    s.signedUp.length ≤ 1 ∧ ∀ r ∈ s.signedUp, s.up.resolvedSigned = some r := by
  have hI := hr.inv
  rw [hI.signed_eq]
  cases s.up.resolvedSigned <;> simp

/-- A NEW upstream resolution message is sent only while the incoming htlc is locked in and
unresolved; anything else on the wire is the retransmission of the one signed resolution. -/
theorem resolution_only_when_locked {s s' : Pair P} {e : Ev P}
    (h : step H hash s e = some s') {w : WEv P} (hw : e.wireIn s = some w)
    (hres : (∃ p, w = .upSettle p) ∨ w = .upFail) :
    s.up = .locked ∨ (∃ r, s.up = .removing r .signed ∧ s' = s) := by
  cases e with
  | localReject =>
    simp only [LndModel.C08.step] at h
    split at h
    · next hg => exact Or.inl hg.1
    · cases h
  | relayUp r =>
    simp only [LndModel.C08.step] at h
    split at h
    · next hg => exact Or.inl hg.2
    · cases h
  | resendUp =>
    simp only [LndModel.C08.step] at h
    split at h
    · next r hu => cases h; exact Or.inr ⟨r, hu, rfl⟩
    · cases h
  | resendDown =>
    simp only [Ev.wireIn] at hw
    split at hw <;> cases hw <;> rcases hres with ⟨p, hp⟩ | hp <;> cases hp
  | _ =>
    simp only [Ev.wireIn, Ev.wire] at hw <;> cases hw <;> rcases hres with ⟨p, hp⟩ | hp <;> cases hp

/-! ### forwarding discipline -/

/-- Bob offers the outgoing htlc only for an incoming htlc that is locked in on both
commitments, after the forwarding decision was made durable (FwdFilter) and the circuit
committed, and never while an outgoing htlc for the same circuit exists. -/
theorem forward_only_locked_in_once {s s' : Pair P} (hr : Reachable H hash s)
    (h : step H hash s .sendDownAdd = some s') :
    s.up = .locked ∧ s.down = .absent ∧ s.fwdFilter = true ∧ s.circ = .halfOpen := by
  simp only [LndModel.C08.step] at h
  split at h
  · next hg => exact ⟨hg.2.2.2, hg.2.2.1, (hr.inv.mb_add hg.1).2.2.1, hg.2.1⟩
  · cases h

/-- the FwdFilter bit is durable whenever an outgoing htlc exists. -/
theorem fwdfilter_before_forward {s : Pair P} (hr : Reachable H hash s) (h : s.down ≠ .absent) :
    s.fwdFilter = true := hr.inv.down_live h

/-- Bob never acknowledges (revoke_and_ack) a commitment that removes the outgoing htlc with
a wrong preimage: such a fulfill never gets beyond `signed`, in particular the htlc is
never removed by it. -/
theorem invalid_preimage_never_accepted {s : Pair P} (hr : Reachable H hash s) {p : P} :
    (∀ st, s.down = .removing (.settle p) st → H p ≠ hash → st = .sent ∨ st = .signed) ∧
    (s.down = .removed (.settle p) → H p = hash) := by
  have hI := hr.inv
  constructor
  · intro st hd hne
    rcases hI.down_settle_valid p st hd with h1 | h1
    · exact absurd (hI.k_valid p h1) hne
    · exact h1.2
  · intro hd
    exact hI.k_valid p (hI.down_removed_settle p hd)

/-! ### no_dangling -/

/-- When queues, mailboxes and forwarding packages are drained, the incoming htlc is
gone from the commitments and the circuit is deleted (or never existed). -/
theorem no_dangling {s : Pair P} (hr : Reachable H hash s) (hq : Quiescent s) :
    s.up.gone = true ∧ (s.circ = .absent ∨ s.circ = .deleted) ∧ s.mbAdd = false ∧ s.mbResp = none := by
  have hI := hr.inv
  obtain ⟨hsu, hsd, hma, hmr, hack, hresp⟩ := hq
  refine ⟨?_, ?_, hma, hmr⟩
  · rcases hu : s.up with _ | st | _ | ⟨r, st⟩ | r <;> simp [hu, Life.stable, Life.gone] at hsu ⊢
    have h1 := hI.acked_add (hack (by simp [hu]))
    simp [hu, Life.resolvedSigned] at h1
  · by_cases hu : s.up = .absent
    · exact Or.inl (hI.up_early (Or.inl hu)).1
    · exact hI.resolved_circ (hI.acked_add (hack hu))

/-! ### hops settle or fail together; balances -/

/-- At quiescence with no htlc left on either channel (and a downstream peer that does not
fail an htlc it already fulfilled), the incoming htlc was settled iff the outgoing was. -/
theorem hops_settle_together {s : Pair P} (hr : Reachable H hash s) (hq : Quiescent s)
    (hd : s.down.gone = true) (henv : s.envBad = false) :
    s.up.settled = s.down.settled := by
  have hI := hr.inv
  have hnd := no_dangling H hash hr hq
  obtain ⟨hsu, hsd, hma, hmr, hack, hresp⟩ := hq
  rcases hu : s.up with _ | st | _ | ⟨r, st⟩ | r <;> simp [hu, Life.gone] at hnd
  · -- incoming htlc never existed: neither does the outgoing one
    have := (hI.circ_absent (hI.up_early (Or.inl hu)).1).1
    simp [this, Life.settled]
  · rcases hdn : s.down with _ | st | _ | ⟨r', st⟩ | r' <;> simp [hdn, Life.gone] at hd
    · -- outgoing absent: a settle upstream would need a known preimage, hence an outgoing htlc
      cases r with
      | fail => simp [Life.settled]
      | settle p =>
        have hk := hI.up_settle p (by simp [hu, Life.res?])
        have := hI.known_down (by intro h; simp [h] at hk)
        simp [hdn] at this
    · cases r with
      | fail =>
        -- upstream failed: outgoing is absent or failed
        have := hI.up_fail (by simp [hu, Life.res?])
        cases r' with
        | fail => simp [Life.settled]
        | settle p' => simp [hdn] at this
      | settle p =>
        have hk := hI.up_settle p (by simp [hu, Life.res?])
        cases r' with
        | settle p' => simp [Life.settled]
        | fail =>
          have := hI.down_fail (by simp [hdn, Life.res?])
          rcases this with h1 | h1
          · simp [h1] at hk
          · simp [henv] at h1

/-- the other direction needs the forwarding package of the outgoing channel to be drained:
a settled outgoing htlc forces the incoming one to be settled. (Stated separately because it
is the part that rests on the response acknowledgements.) -/
theorem downstream_settled_forces_upstream {s : Pair P} (hr : Reachable H hash s)
    (hq : Quiescent s) {p : P} (hd : s.down = .removed (.settle p)) :
    ∃ p', s.up = .removed (.settle p') := by
  have hI := hr.inv
  obtain ⟨hsu, hsd, hma, hmr, hack, hresp⟩ := hq
  have hr1 : s.resp ≠ none := by rw [hI.resp_eq, hd]; simp [Life.removedRes]
  have h2 := hI.resp_acked (hresp hr1)
  rcases hu : s.up with _ | st | _ | ⟨r, st⟩ | r <;> simp [hu, Life.resolvedSigned, Life.stable] at h2 hsu
  cases r with
  | settle p' => exact ⟨p', rfl⟩
  | fail =>
    have := hI.up_fail (by simp [hu, Life.res?])
    simp [hd] at this

section Global

/-- a quiescent run state: every pair is reachable, drained, without htlcs, honest peer. -/
def GQuiescent (g : GState P Hsh) : Prop :=
  ∀ x ∈ g, Reachable H x.1.hash x.2 ∧ Quiescent x.2 ∧ x.2.down.gone = true ∧ x.2.envBad = false

theorem pair_delta_eq_fee {prm : Params Hsh} {s : Pair P} (h : s.up.settled = s.down.settled) :
    pairDelta prm s.up s.down = pairFee prm s.up := by
  unfold pairDelta pairFee
  rw [← h]
  cases s.up.settled <;> simp

/-- **forwarder_balance**: at quiescence Bob's total over both channels changed by exactly
the fees `amt_in − amt_out` of the payments that succeeded. -/
theorem forwarder_balance {g : GState P Hsh} (hq : GQuiescent H g) : bobDelta g = totalFees g := by
  unfold bobDelta totalFees
  induction g with
  | nil => rfl
  | cons x g ih =>
    have hx := hq x (by simp)
    simp only [sumInt]
    rw [ih (fun y hy => hq y (List.mem_cons_of_mem _ hy)),
      pair_delta_eq_fee (hops_settle_together H x.1.hash hx.1 hx.2.1 hx.2.2.1 hx.2.2.2)]

/-- sender debits = receiver credits + Bob's fees. -/
theorem sender_debit_eq_receiver_credit_plus_fees {g : GState P Hsh} (hq : GQuiescent H g) :
    totalDebit g = totalCredit g + totalFees g := by
  unfold totalDebit totalCredit totalFees
  induction g with
  | nil => rfl
  | cons x g ih =>
    have hx := hq x (by simp)
    have h := hops_settle_together H x.1.hash hx.1 hx.2.1 hx.2.2.1 hx.2.2.2
    simp only [sumInt]
    rw [ih (fun y hy => hq y (List.mem_cons_of_mem _ hy))]
    unfold senderDebit receiverCredit pairFee
    rw [← h]
    cases x.2.up.settled <;> simp <;> omega

/-- never out of pocket: if no payment is forwarded with `amt_out > amt_in`, Bob's total
never decreased. -/
theorem never_out_of_pocket {g : GState P Hsh} (hq : GQuiescent H g)
    (hfee : ∀ x ∈ g, x.1.amtOut ≤ x.1.amtIn) : 0 ≤ bobDelta g := by
  rw [forwarder_balance H hq]
  unfold totalFees
  induction g with
  | nil => simp [sumInt]
  | cons x g ih =>
    simp only [sumInt]
    have h1 := ih (fun y hy => hq y (List.mem_cons_of_mem _ hy)) (fun y hy => hfee y (List.mem_cons_of_mem _ hy))
    have h2 : 0 ≤ pairFee x.1 x.2.up := by
      unfold pairFee
      have := hfee x (by simp)
      split <;> omega
    omega

/-- every payment of a global run is a reachable pair (channel-wide events included). -/
theorem gstepAll_reachable {f : Nat → Option (Ev P)} :
    ∀ {i : Nat} {g g' : GState P Hsh}, (∀ x ∈ g, Reachable H x.1.hash x.2) →
      gstepAll H f i g = some g' → ∀ x ∈ g', Reachable H x.1.hash x.2 := by
  intro i g
  induction g generalizing i with
  | nil => intro g' _ h; simp [gstepAll] at h; subst h; simp
  | cons y g ih =>
    intro g' hg h
    obtain ⟨prm, s⟩ := y
    simp only [gstepAll] at h
    split at h
    · simp only [Option.map_eq_some_iff] at h
      obtain ⟨r, hr, rfl⟩ := h
      intro x hx
      rcases List.mem_cons.1 hx with rfl | hx
      · exact hg _ (by simp)
      · exact ih (fun z hz => hg z (List.mem_cons_of_mem _ hz)) hr x hx
    · next e he =>
      split at h
      · next s' r hs hr =>
        cases h
        intro x hx
        rcases List.mem_cons.1 hx with rfl | hx
        · exact Reachable.step e (hg (prm, s) (by simp)) hs
        · exact ih (fun z hz => hg z (List.mem_cons_of_mem _ hz)) hr x hx
      · cases h

theorem gstepOne_reachable {e : Ev P} :
    ∀ {i : Nat} {g g' : GState P Hsh}, (∀ x ∈ g, Reachable H x.1.hash x.2) →
      gstepOne H e i g = some g' → ∀ x ∈ g', Reachable H x.1.hash x.2 := by
  intro i g
  induction g generalizing i with
  | nil => intro g' _ h; simp [gstepOne] at h
  | cons y g ih =>
    intro g' hg h
    obtain ⟨prm, s⟩ := y
    cases i with
    | zero =>
      simp only [gstepOne, Option.map_eq_some_iff] at h
      obtain ⟨s', hs, rfl⟩ := h
      intro x hx
      rcases List.mem_cons.1 hx with rfl | hx
      · exact Reachable.step e (hg (prm, s) (by simp)) hs
      · exact hg x (List.mem_cons_of_mem _ hx)
    | succ i =>
      simp only [gstepOne, Option.map_eq_some_iff] at h
      obtain ⟨r, hr, rfl⟩ := h
      intro x hx
      rcases List.mem_cons.1 hx with rfl | hx
      · exact hg _ (by simp)
      · exact ih (fun z hz => hg z (List.mem_cons_of_mem _ hz)) hr x hx

theorem grun_reachable {g g' : GState P Hsh} {es : List (GEv P)}
    (hg : ∀ x ∈ g, Reachable H x.1.hash x.2) (h : grun H g es = some g') :
    ∀ x ∈ g', Reachable H x.1.hash x.2 := by
  induction es generalizing g with
  | nil => simp [grun] at h; subst h; exact hg
  | cons e es ih =>
    simp only [grun] at h
    split at h
    · next g1 h1 =>
      refine ih ?_ h
      cases e with
      | one i e => exact gstepOne_reachable H hg h1
      | all f => exact gstepAll_reachable H hg h1
    · cases h

/-- **forwarder_balance over all interleavings**: start with any list of payments, run ANY
sequence of global events (payment-local ones and channel-wide commitment messages /
restarts); if the state reached is drained, without htlcs, and the peers were consistent,
Bob's total changed by exactly the fees of the succeeded payments, and sender debits equal
receiver credits plus those fees. -/
theorem forwarder_balance_run {prms : List (Params Hsh)} {es : List (GEv P)} {g : GState P Hsh}
    (h : grun H (prms.map (fun prm => (prm, ({} : Pair P)))) es = some g)
    (hq : ∀ x ∈ g, Quiescent x.2 ∧ x.2.down.gone = true ∧ x.2.envBad = false) :
    bobDelta g = totalFees g ∧ totalDebit g = totalCredit g + totalFees g := by
  have hr := grun_reachable H (g := prms.map (fun prm => (prm, ({} : Pair P)))) (by
    intro x hx
    simp only [List.mem_map] at hx
    obtain ⟨prm, _, rfl⟩ := hx
    exact Reachable.init) h
  have hgq : GQuiescent H g := fun x hx => ⟨hr x hx, hq x hx⟩
  exact ⟨forwarder_balance H hgq, sender_debit_eq_receiver_credit_plus_fees H hgq⟩

end Global

/-! ### the monitor accepts every behaviour of the model -/

/-- **monitor soundness** (one step): an internal step does not change what the wire shows;
a visible step is accepted by the monitor `Obs.step`, which moves to the projection of the
model's next state. Hence a MONITOR line of the driver means: the implementation's trace is
not a trace of the model. -/
theorem monitor_accepts_step {s s' : Pair P} {e : Ev P} (hI : Inv H hash s)
    (h : step H hash s e = some s') :
    match e.wireIn s with
    | none => s'.obs = s.obs
    | some w => Obs.step H hash s.obs w = .ok s'.obs := by
  obtain ⟨a1, a2, a3, a4, a5, a6, a7, a8, a9, a10, a11, a12, a13, a14, a15, a16, a17, a18, a19, a20,
    a21, a22, a23, a24, a25, a26, a27⟩ := hI
  rcases s with ⟨up, down, circ, fwdFilter, addAcked, resp, respAcked, mbAdd, mbResp, known, sentUp,
    signedUp, downCommitted, downAdds, envBad⟩
  dsimp only at *
  cases e with
  | relayUp r =>
    cases r <;> simp only [LndModel.C08.step, Ev.wireIn, Ev.wire, Obs.step, Pair.obs] at h ⊢ <;>
      split at h <;> cases h <;> grind
  | resendUp =>
    rcases up with _ | st | _ | ⟨r, st⟩ | r <;> (try cases st) <;> (try cases r) <;>
      simp only [LndModel.C08.step, Ev.wireIn, Ev.wire, Obs.step, Pair.obs] at h ⊢ <;> (try cases h) <;> grind
  | resendDown =>
    rcases down with _ | st | _ | ⟨r, st⟩ | r <;> (try cases st) <;> (try cases r) <;>
      simp only [LndModel.C08.step, Ev.wireIn, Ev.wire, Obs.step, Pair.obs] at h ⊢ <;> (try cases h) <;> grind
  | upSigBob =>
    rcases up with _ | st | _ | ⟨r, st⟩ | r <;> (try cases st) <;>
      simp only [LndModel.C08.step, stepUpSigBob, Ev.wireIn, Ev.wire, Obs.step, Pair.obs, Life.sigR] at h ⊢ <;>
      cases h <;> rfl
  | downSigBob =>
    rcases down with _ | st | _ | ⟨r, st⟩ | r <;> (try cases st) <;>
      simp only [LndModel.C08.step, stepDownSigBob, Ev.wireIn, Ev.wire, Obs.step, Pair.obs, Life.sigO] at h ⊢ <;>
      cases h <;> rfl
  | downRevPeer =>
    rcases down with _ | st | _ | ⟨r, st⟩ | r <;> (try cases st) <;>
      simp only [LndModel.C08.step, stepDownRevPeer, Ev.wireIn, Ev.wire, Obs.step, Pair.obs, Life.revR] at h ⊢ <;>
      (try split at h) <;> cases h <;> rfl
  | downSettle p =>
    simp only [LndModel.C08.step, stepDownSettle, Ev.wireIn, Ev.wire, Obs.step, Pair.obs] at h ⊢
    (repeat' split at h) <;> cases h <;> grind
  | restart =>
    simp only [LndModel.C08.step, stepRestart, Ev.wireIn, Ev.wire, Obs.step, Pair.obs] at h ⊢
    cases h; rfl
  | _ =>
    simp only [LndModel.C08.step, Ev.wireIn, Ev.wire, Obs.step, Pair.obs] at h ⊢ <;>
      (try split at h) <;> (try cases h) <;> grind

/-- the monitor run over a list of wire events. -/
def obsRun (o : Obs P) : List (WEv P) → Except Clause (Obs P)
  | [] => .ok o
  | w :: ws => match Obs.step H hash o w with
    | .ok o' => obsRun o' ws
    | .error c => .error c

/-- the wire trace a model run shows. -/
def wireTrace (s : Pair P) : List (Ev P) → List (WEv P)
  | [] => []
  | e :: es => match step H hash s e with
    | some s' => (match e.wireIn s with
        | some w => w :: wireTrace s' es
        | none => wireTrace s' es)
    | none => []

/-- **monitor soundness** (runs): the wire trace of ANY run of the model from the initial
state is accepted by the monitor, which ends in the projection of the model's final state. -/
theorem monitor_accepts_model {s s' : Pair P} {es : List (Ev P)} (hr : Reachable H hash s)
    (h : run H hash s es = some s') : obsRun H hash s.obs (wireTrace H hash s es) = .ok s'.obs := by
  induction es generalizing s with
  | nil => simp [run] at h; subst h; rfl
  | cons e es ih =>
    simp only [run] at h
    split at h
    · next s1 h1 =>
      have hm := monitor_accepts_step H hash hr.inv h1
      have ih' := ih (Reachable.step e hr h1) h
      simp only [wireTrace, h1]
      split at hm
      · next hw => simp only [hw]; rw [← hm]; exact ih'
      · next w hw => simp only [hw, obsRun, hm]; exact ih'
    · cases h

/-! ### non-vacuity: the hypotheses are satisfiable, the interesting states are reachable -/

section Examples

/-- symbolic instance: preimages and hashes are numbers, `H p = p + 100`. -/
private def Hx (p : Nat) : Nat := p + 100

/-- a complete successful forward of payment hash 107 with preimage 7. -/
private def okRun : List (Ev Nat) :=
  [.upAdd, .upSigPeer, .upRevBob, .upSigBob, .upRevPeer,            -- incoming htlc locked in
   .setFwdFilter, .commitCircuit, .sendDownAdd,                     -- forward
   .downSigBob, .downRevPeer, .downSigPeer, .downRevBob,            -- outgoing htlc locked in
   .downSettle 7, .relayUp (.settle 7),                             -- pipelined settle
   .upSigBob, .upRevPeer, .upSigPeer, .upRevBob,                    -- incoming htlc removed
   .downSigPeer, .downRevBob, .downSigBob, .downRevPeer,            -- outgoing htlc removed
   .ackDup]

private def okState : Pair Nat := (run Hx 107 {} okRun).getD {}

example : run Hx 107 {} okRun = some okState := by decide
example : Quiescent okState ∧ okState.up.settled = true ∧ okState.down.settled = true ∧
    okState.circ = .deleted ∧ okState.envBad = false ∧ okState.sentUp = [.settle 7] ∧
    okState.down.gone = true := by decide

/-- a wrong preimage: the fulfill is recorded but never relayed, and Bob can not revoke. -/
private def badState : Pair Nat :=
  (run Hx 107 {} (okRun.take 12 ++ [.downSettle 8, .downSigPeer])).getD {}

example : run Hx 107 {} (okRun.take 12 ++ [.downSettle 8, .downSigPeer]) = some badState := by decide
example : badState.known = [] ∧ (step Hx 107 badState .downRevBob).isNone = true ∧
    (step Hx 107 badState (.relayUp (.settle 8))).isNone = true := by decide

/-- crash with the outgoing add unsigned, half-open circuit failed back after the restart,
second crash: the add is acked, nothing is forwarded again. -/
private def crashRun : List (Ev Nat) :=
  [.upAdd, .upSigPeer, .upRevBob, .upSigBob, .upRevPeer, .setFwdFilter, .commitCircuit, .sendDownAdd,
   .restart, .switchFail, .relayUp .fail, .upSigBob, .upRevPeer, .upSigPeer, .restart]

private def crashState : Pair Nat := (run Hx 107 {} crashRun).getD {}

example : run Hx 107 {} crashRun = some crashState := by decide
example : crashState.addAcked = true ∧ crashState.circ = .deleted ∧ crashState.down = .absent ∧
    (step Hx 107 crashState .reforward).isNone = true ∧
    (step Hx 107 crashState .commitCircuit).isNone = true ∧
    (step Hx 107 crashState .sendDownAdd).isNone = true := by decide

/-- a locally rejected payment. -/
private def rejRun : List (Ev Nat) :=
  [.upAdd, .upSigPeer, .upRevBob, .upSigBob, .upRevPeer, .localReject,
   .upSigBob, .upRevPeer, .upSigPeer, .upRevBob]

private def rejState : Pair Nat := (run Hx 300 {} rejRun).getD {}

example : run Hx 300 {} rejRun = some rejState := by decide

/-- a quiescent global state with one succeeded and one failed payment: Bob gains the fee. -/
example : GQuiescent Hx [((⟨107, 5000, 4000⟩ : Params Nat), okState), (⟨300, 900, 800⟩, rejState)] ∧
    bobDelta [((⟨107, 5000, 4000⟩ : Params Nat), okState), (⟨300, 900, 800⟩, rejState)] = 1000 := by
  refine ⟨?_, by decide⟩
  intro x hx
  simp only [List.mem_cons, List.not_mem_nil, or_false] at hx
  rcases hx with rfl | rfl
  · exact ⟨run_reachable Hx 107 Reachable.init (es := okRun) (by decide), by decide, by decide, by decide⟩
  · exact ⟨run_reachable Hx 300 Reachable.init (es := rejRun) (by decide), by decide, by decide, by decide⟩

end Examples

end LndModel.C08
