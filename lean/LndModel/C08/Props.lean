/-
C08 — property theorems.  "A forwarding node never ends up out of pocket: hops settle or
fail together."

Pair level: `Reachable` = after ANY interleaving of peer messages, commitment-protocol messages
on both channels, Bob's internal and durable steps (forwarding decision, circuit commit,
keystone, signature persist, circuit delete — each its own step, a crash may fall between any
two), crash-restarts and retransmissions.  The guards of Bob's steps are what the code checks
(forwarding-package bits, circuit map, the channel's "htlc unmodified + preimage matches"
check); everything stated below about the htlc life cycles is DERIVED from the invariant.

Global level (`Pkg.lean`): all payments with forwarding-package references; the statement
`forwarder_balance_run` is proved for the `byIndex` variant and refuted for `byRank`.
-/
import LndModel.C08.Invariant
import LndModel.C08.Pkg
import LndModel.C08.Mailbox

set_option linter.unusedSectionVars false
set_option linter.unusedVariables false
set_option linter.unusedSimpArgs false

namespace LndModel.C08
variable {P Hsh : Type} [DecidableEq P] [DecidableEq Hsh] (H : P → Hsh) (hash : Hsh)

/-! ### what an external observer sees: the wire trace -/

/-- the wire trace a model run shows. -/
def wireTrace (s : Pair P) : List (Ev P) → List (WEv P)
  | [] => []
  | e :: es => match step H hash s e with
    | some s' => (match e.wireIn s with
        | some w => w :: wireTrace s' es
        | none => wireTrace s' es)
    | none => []

/-- Trace property, no model state involved: every upstream `update_fulfill(p)` is preceded by a
downstream `update_fulfill` carrying the same `p` (`seen` = preimages seen so far), and `p`
hashes to the payment hash. -/
def FulfillJustified (seen : List P) : List (WEv P) → Prop
  | [] => True
  | .downSettle p :: ws => FulfillJustified (p :: seen) ws
  | .upSettle p :: ws => (p ∈ seen ∧ H p = hash) ∧ FulfillJustified seen ws
  | _ :: ws => FulfillJustified seen ws

/-- what `FulfillJustified` means in terms of positions in the trace. -/
theorem FulfillJustified.split {seen : List P} {ws pre post : List (WEv P)} {p : P}
    (h : FulfillJustified H hash seen ws) (hs : ws = pre ++ .upSettle p :: post) :
    (p ∈ seen ∨ WEv.downSettle p ∈ pre) ∧ H p = hash := by
  induction pre generalizing seen ws with
  | nil => subst hs; exact ⟨Or.inl h.1.1, h.1.2⟩
  | cons w pre ih =>
    subst hs
    cases w <;> simp only [List.cons_append, FulfillJustified] at h
    case downSettle q =>
      rcases ih h rfl with ⟨h1 | h1, h2⟩
      · rcases List.mem_cons.1 h1 with rfl | h1
        · exact ⟨Or.inr (by simp), h2⟩
        · exact ⟨Or.inl h1, h2⟩
      · exact ⟨Or.inr (List.mem_cons_of_mem _ h1), h2⟩
    case upSettle q =>
      rcases ih h.2 rfl with ⟨h1 | h1, h2⟩
      · exact ⟨Or.inl h1, h2⟩
      · exact ⟨Or.inr (List.mem_cons_of_mem _ h1), h2⟩
    all_goals
      rcases ih h rfl with ⟨h1 | h1, h2⟩
      · exact ⟨Or.inl h1, h2⟩
      · exact ⟨Or.inr (List.mem_cons_of_mem _ h1), h2⟩

/-! ### helper facts (step-local) -/

/-- `known` only grows by a downstream fulfill carrying that preimage. -/
theorem step_known {s s' : Pair P} {e : Ev P} (h : step H hash s e = some s') {p : P}
    (hp : p ∈ s'.known) : p ∈ s.known ∨ e = .downSettle p := by
  cases e <;>
    simp only [LndModel.C08.step, stepDownSettle, stepUpSigBob, stepDownSigBob, stepDownRevPeer,
      stepUpSignPersist, stepDropSpurious, stepRestart] at h <;> (repeat' split at h) <;> (try cases h) <;> grind

/-- at the moment an upstream fulfill shows on the wire (first transmission or retransmission)
its preimage was received from downstream and hashes to the payment hash. Derived from the
invariant (`mb_settle`, `up_settle`), the step's own guard only checks the hash. -/
theorem settle_step {s s' : Pair P} {e : Ev P} (hr : Reachable H hash s)
    (h : step H hash s e = some s') {p : P} (hw : e.wireIn s = some (.upSettle p)) :
    p ∈ s.known ∧ H p = hash := by
  have hI := hr.inv
  have hk : p ∈ s.known := by
    cases e <;> simp only [Ev.wireIn] at hw <;> (try cases hw)
    · next r =>
      cases r <;> simp only [Ev.wireIn] at hw <;> cases hw
      simp only [LndModel.C08.step] at h
      split at h
      · next hg => exact hI.mb_settle p hg.1
      · cases h
    · split at hw
      · next hd => cases hw; exact hI.up_settle p (Or.inr hd)
      · cases hw
      · cases hw
  exact ⟨hk, hI.k_valid p hk⟩

/-- **settle_only_with_downstream_preimage**, as a statement about wire traces: in every run of the
model, from any reachable state whose known preimages have been seen, every upstream fulfill
is preceded by a downstream fulfill with the same preimage, which hashes to the payment hash. -/
theorem fulfill_justified_from {s s' : Pair P} {es : List (Ev P)} {seen : List P}
    (hr : Reachable H hash s) (hseen : ∀ p ∈ s.known, p ∈ seen) (h : run H hash s es = some s') :
    FulfillJustified H hash seen (wireTrace H hash s es) := by
  induction es generalizing s seen with
  | nil => simp [wireTrace, FulfillJustified]
  | cons e es ih =>
    simp only [run] at h
    split at h
    · next s1 h1 =>
      have hr1 := Reachable.step e hr h1
      simp only [wireTrace, h1]
      split
      · next w hw =>
        cases w
        case downSettle q =>
          simp only [FulfillJustified]
          refine ih hr1 ?_ h
          intro p hp
          rcases step_known H hash h1 hp with h2 | h2
          · exact List.mem_cons_of_mem _ (hseen p h2)
          · subst h2
            simp only [Ev.wireIn] at hw
            cases hw
            simp
        case upSettle q =>
          simp only [FulfillJustified]
          have hq := settle_step H hash hr h1 hw
          refine ⟨⟨hseen q hq.1, hq.2⟩, ih hr1 ?_ h⟩
          intro p hp
          rcases step_known H hash h1 hp with h2 | h2
          · exact hseen p h2
          · subst h2; simp only [Ev.wireIn] at hw; cases hw
        all_goals
          simp only [FulfillJustified]
          refine ih hr1 ?_ h
          intro p hp
          rcases step_known H hash h1 hp with h2 | h2
          · exact hseen p h2
          · subst h2; simp only [Ev.wireIn] at hw; cases hw
      · next hw =>
        refine ih hr1 ?_ h
        intro p hp
        rcases step_known H hash h1 hp with h2 | h2
        · exact hseen p h2
        · subst h2; simp only [Ev.wireIn] at hw; cases hw
    · cases h

theorem settle_only_with_downstream_preimage {s : Pair P} {es : List (Ev P)}
    (h : run H hash {} es = some s) : FulfillJustified H hash [] (wireTrace H hash {} es) :=
  fulfill_justified_from H hash Reachable.init (by simp) h

/-- positional reading: an upstream fulfill at any position of the trace of any run is preceded
by the downstream fulfill with the same preimage. -/
theorem settle_only_with_downstream_preimage_pos {s : Pair P} {es : List (Ev P)}
    (h : run H hash {} es = some s) {pre post : List (WEv P)} {p : P}
    (hs : wireTrace H hash {} es = pre ++ .upSettle p :: post) :
    WEv.downSettle p ∈ pre ∧ H p = hash := by
  have := (settle_only_with_downstream_preimage H hash h).split H hash hs
  rcases this with ⟨h1 | h1, h2⟩
  · simp at h1
  · exact ⟨h1, h2⟩

/-! ### fail_only_after_downstream_gone -/

/-- While an upstream fail is offered, signed (on the wire or only persisted) or done, the paired
outgoing htlc is irrevocably removed by a fail, or was never committed: absent on the wire AND
not contained in any commitment Bob persisted. -/
theorem fail_only_after_downstream_gone {s : Pair P} (hr : Reachable H hash s)
    (h : s.up.res? = some .fail ∨ s.upDur = some .fail) :
    s.down = .removed .fail ∨ (s.down = .absent ∧ s.downDur = false) := by
  rcases hr.inv.up_fail h with h1 | h1
  · exact Or.inr ⟨h1.1, h1.2.1⟩
  · exact Or.inl h1

/-- at the moment an upstream fail shows on the wire (local reject, relayed fail,
retransmission). Derived: the guards only look at the forwarding-package bits, the mailbox
and the channel's "unmodified" check. -/
theorem fail_step {s s' : Pair P} {e : Ev P} (hr : Reachable H hash s)
    (h : step H hash s e = some s') (hw : e.wireIn s = some .upFail) :
    s.down = .removed .fail ∨ (s.down = .absent ∧ s.downDur = false) := by
  have hI := hr.inv
  cases e <;> simp only [Ev.wireIn] at hw <;> (try cases hw)
  · next ref =>
    simp only [LndModel.C08.step] at h
    split at h
    · next hg =>
      have := hI.circ_absent (hI.nofwd hg.2.1)
      exact Or.inr ⟨this.1, this.2.1⟩
    · cases h
  · next r =>
    cases r <;> simp only [Ev.wireIn] at hw <;> cases hw
    simp only [LndModel.C08.step] at h
    split at h
    · next hg =>
      rcases hI.mb_fail hg.1 with h1 | h1
      · exact Or.inl h1
      · exact Or.inr ⟨h1.1, h1.2.1⟩
    · cases h
  · split at hw
    · cases hw
    · next hd => exact fail_only_after_downstream_gone H hash hr (Or.inr hd)
    · cases hw

/-- "never committed" is exactly: the add is in no persisted commitment, hence (wire view) the
htlc is absent or its add is still unsigned. -/
theorem never_committed_iff {s : Pair P} (hr : Reachable H hash s) (h : s.downDur = false) :
    s.down = .absent ∨ s.down = .adding .sent := by
  have hI := hr.inv
  rcases hd : s.down with _ | st | _ | ⟨r, st⟩ | r
  · exact Or.inl rfl
  · cases st
    · exact Or.inr rfl
    all_goals (have := hI.ddur (by simp [hd, Life.committed]); simp [h] at this)
  all_goals (have := hI.ddur (by simp [hd, Life.committed]); simp [h] at this)

/-! ### at most one resolution; replayed responses are harmless (C07 item 1) -/

/-- Bob persists at most one upstream resolution per incoming htlc: `upDur` never changes once
set, and whatever resolution the wire shows as signed is that one. The mechanism is the
channel-level check of `lnwallet.SettleHTLC/FailHTLC` ("htlc already has a modification"),
modelled by `chanAccepts`. -/
theorem at_most_one_resolution {s s' : Pair P} {e : Ev P} (hr : Reachable H hash s)
    (h : step H hash s e = some s') {r : Res P} (hd : s.upDur = some r) :
    s'.upDur = some r ∧ (∀ r', s'.up.resolvedSigned = some r' → r' = r) := by
  have hI' := (Reachable.step e hr h).inv
  have hkeep : s'.upDur = some r := by
    cases e <;>
      simp only [LndModel.C08.step, stepDownSettle, stepUpSigBob, stepDownSigBob, stepDownRevPeer,
        stepUpSignPersist, stepDropSpurious, stepRestart] at h <;> (repeat' split at h) <;> (try cases h) <;>
      grind
  refine ⟨hkeep, fun r' h' => ?_⟩
  have := (hI'.up_signed r' h').1
  rw [hkeep] at this
  exact (Option.some.inj this).symm

/-- a resolution that is signed on the wire is the persisted one. -/
theorem signed_is_persisted {s : Pair P} (hr : Reachable H hash s) {r : Res P}
    (h : s.up.resolvedSigned = some r) : s.upDur = some r := (hr.inv.up_signed r h).1

/-- **A replayed response is harmless** (de-duplication across restarts): if a response packet
reaches the incoming link while the htlc already carries a resolution (persisted, or pending in
memory), the channel refuses it; the only step that consumes the packet is `dropSpurious`
(`cleanupSpuriousResponse`), which sends nothing and changes neither the htlc nor the persisted
resolution. -/
theorem replayed_response_harmless {s : Pair P} {r : Res P} (hm : s.mbResp = some r)
    (hres : s.upDur ≠ none ∨ s.up ≠ .locked) :
    step H hash s (.relayUp r) = none ∧
    ∀ s', step H hash s .dropSpurious = some s' →
      s'.up = s.up ∧ s'.upDur = s.upDur ∧ s'.sentUp = s.sentUp ∧ s'.down = s.down ∧ s'.mbResp = none := by
  have hacc : chanAccepts H hash s r = false := by
    cases r <;> simp only [chanAccepts] <;> rcases hres with h1 | h1
    all_goals first
      | (have : s.upDur.isNone = false := by (cases hx : s.upDur <;> simp_all)
         simp [this])
      | simp [h1]
  refine ⟨by simp [LndModel.C08.step, hm, hacc], ?_⟩
  intro s' h
  simp only [LndModel.C08.step, stepDropSpurious, hm] at h
  split at h <;> cases h
  simp

/-! ### forwarding discipline (derived, the guards do not mention the htlcs) -/

/-- Whenever an `update_add` for the outgoing htlc shows on the wire (first time or
retransmission), the incoming htlc is locked in and unresolved, no outgoing htlc exists on the
wire, and the forwarding decision is durable. The step guards are `mbAdd` resp. `downDur`. -/
theorem forward_only_locked_in_once {s s' : Pair P} {e : Ev P} (hr : Reachable H hash s)
    (h : step H hash s e = some s') (hw : e.wireIn s = some .downAdd) :
    s.up = .locked ∧ s.upDur = none ∧ s.down = .absent ∧ s.fwdFilter = true := by
  have hI := hr.inv
  cases e <;> simp only [Ev.wireIn] at hw <;> (try cases hw)
  · simp only [LndModel.C08.step] at h
    split at h
    · next hg =>
      have := hI.mb_add hg
      refine ⟨this.2.2.1, this.2.2.2.1, this.2.2.2.2.1, ?_⟩
      cases hf : s.fwdFilter
      · have h2 := hI.nofwd hf; rw [this.1] at h2; cases h2
      · rfl
    · cases h
  · next r => cases r <;> simp only [Ev.wireIn] at hw <;> cases hw
  · split at hw <;> cases hw
  · simp only [LndModel.C08.step] at h
    split at h
    · next hg =>
      -- persisted but unsent add after a restart
      have hk : s.keystone = true := by
        cases hk : s.keystone
        · have := (hI.nokey hk).2; simp [hg.1] at this
        · rfl
      have hc : s.circ ≠ .absent := fun hc => by have := (hI.circ_absent hc).2.1; simp [hg.1] at this
      have hf : s.fwdFilter = true := by
        cases hf : s.fwdFilter
        · exact absurd (hI.nofwd hf) hc
        · rfl
      have hu := hI.resend_add hg.1 hg.2
      exact ⟨hu.1, hu.2.1, hg.2, hf⟩
    · cases h

/-- the circuit is (re-)committed only for an incoming htlc that is still locked in and has no
persisted resolution — although `commitCircuit` only looks at the package bits and the circuit
map. This is what fails in the `byRank` variant. -/
theorem commit_only_unresolved {s s' : Pair P} {ref : Ref} (hr : Reachable H hash s)
    (h : step H hash s (.commitCircuit ref) = some s') : s.up = .locked ∧ s.upDur = none := by
  have hI := hr.inv
  simp only [LndModel.C08.step] at h
  split at h
  · next hg =>
    rcases hg.2.2.2 with hc | hc
    · have h1 := (hI.circ_absent hc).2.2.2.2.2.2.2 hg.2.1
      refine ⟨?_, h1.1⟩
      rcases hI.decided_up hg.1 with h2 | h2
      · exact h2
      · exact absurd h1.2 h2
    · have := (hI.circ_deleted hc).2
      simp [hg.2.2.1] at this
  · cases h

/-- Bob never acknowledges (revoke_and_ack) a commitment that removes the outgoing htlc with
a wrong preimage. -/
theorem invalid_preimage_never_accepted {s : Pair P} (hr : Reachable H hash s) {p : P} :
    (∀ st, s.down = .removing (.settle p) st → H p ≠ hash → st = .sent ∨ st = .signed) ∧
    (s.down = .removed (.settle p) → H p = hash) := by
  have hI := hr.inv
  constructor
  · intro st hd hne
    rcases hI.down_settle_valid p st hd with h1 | h1
    · exact absurd (hI.k_valid p h1) hne
    · exact h1.2
  · intro hd
    exact hI.k_valid p (hI.down_removed_settle p hd)

/-! ### no_dangling -/

/-- Once the incoming htlc is gone from both commitments, nothing of the payment is left in
Bob: the circuit is deleted (or never existed), no ClosedCircuitKey is pending, both mailboxes
are empty and the add is acked in its forwarding package. The hypothesis is only what the
harness observes (`ActiveHtlcs` empty, no pending update), NOT the hidden state. -/
theorem no_dangling {s : Pair P} (hr : Reachable H hash s) (hu : s.up.gone = true) :
    (s.circ = .absent ∨ s.circ = .deleted) ∧ s.delPending = false ∧ s.mbAdd = false ∧
    s.mbResp = none ∧ (s.up ≠ .absent → s.addAcked = true) := by
  have hI := hr.inv
  rcases hup : s.up with _ | st | _ | ⟨r, st⟩ | r <;> simp [hup, Life.gone] at hu
  · -- never offered
    have hd : s.decided = false := by
      cases hd : s.decided
      · rfl
      · rcases hI.decided_up hd with h | h <;> simp [hup, Life.res?] at h
    have hc := hI.nofwd (hI.dec hd).1
    have := hI.circ_absent hc
    exact ⟨Or.inl hc, this.2.2.2.2.2.1, this.2.2.1, this.2.2.2.1, by simp⟩
  · have hs := hI.up_signed r (by simp [hup, Life.resolvedSigned])
    have hcirc : s.circ = .absent ∨ s.circ = .deleted := by
      rcases hc : s.circ with _ | _ | _ | _
      · exact Or.inl rfl
      · have := (hI.circ_live (Or.inl hc)).2; simp [hs.1, hs.2] at this
      · have := (hI.circ_live (Or.inr hc)).2; simp [hs.1, hs.2] at this
      · exact Or.inr rfl
    refine ⟨hcirc, hs.2, ?_, ?_, fun _ => hI.dur_acked (by simp [hs.1])⟩
    · cases hm : s.mbAdd
      · rfl
      · have := (hI.mb_add hm).2.2.1; simp [hup] at this
    · rcases hm : s.mbResp with _ | x
      · rfl
      · have := (hI.mb_circ (by simp [hm])).1
        rcases hcirc with h | h <;> simp [h] at this

/-! ### targeted progress: durable obligations are never lost across a crash -/

/-- **a durable downstream response is never lost** (targeted progress): in EVERY reachable state
in which the outgoing htlc is irrevocably removed with `r` and Bob has not yet persisted an
upstream resolution, a crash-restart followed by Bob's own steps — replay of the forwarding
package, hand-over, relay, signature, circuit deletion — is enabled step by step and ends with
`r` persisted upstream, the add acked and the circuit deleted. -/
theorem response_recoverable {s : Pair P} {r : Res P} (hr : Reachable H hash s)
    (hd : s.down = .removed r) (hu : s.upDur = none) :
    ∃ s', run H hash s [.restart, .refwdResp, .relayUp r, .upSignPersist, .deleteCircuit] = some s' ∧
      s'.upDur = some r ∧ s'.circ = .deleted ∧ s'.addAcked = true ∧ s'.up = .removing r .sent ∧
      s'.respAcked = true := by
  have hI := hr.inv
  obtain ⟨a1, a2, a3, a4, a5, a6, a7, a8, a9, a10, a11, a12, a13, a14, a15, a16, a17, a18, a19, a20,
    a21, a22, a23, a24, a25, a26, a27, a28, a29, a30, a31, a32, a33, a34, a35⟩ := hI
  rcases s with ⟨up, down, decided, fwdFilter, addAcked, circ, keystone, circRef, upDur, delPending, downDur,
    resp, respAcked, mbAdd, mbResp, mbRef, respRef, known, sentUp, downAdds, envBad⟩
  dsimp only at *
  subst hd hu
  have hk : keystone = true := by
    cases keystone
    · have := a8 rfl; simp at this
    · rfl
  have hresp : resp = some r := by simpa [Life.removedRes] using a25
  have hra : respAcked = false := by
    cases respAcked
    · rfl
    · have := a28 rfl; simp at this
  have hcirc : circ = .pending ∨ circ = .closing := by
    cases circ
    · have := (a6 rfl).1; simp at this
    · exact Or.inl rfl
    · exact Or.inr rfl
    · have := (a13 rfl).1; simp at this
  have hup : up = .locked ∨ ∃ r', up = .removing r' .sent := (a11 hcirc).1
  have hvalid : ∀ p, r = .settle p → H p = hash := fun p hp => a1 p (a27 p (by rw [hp]))
  have hdd : downDur = true := a9 (by cases r <;> simp [Life.committed])
  subst hk hresp hra hdd
  clear a1 a2 a3 a4 a5 a6 a7 a8 a9 a10 a11 a12 a13 a14 a15 a16 a17 a18 a19 a20 a21 a22 a23 a24 a25 a26 a27 a28 a29 a30 a31 a32 a33 a34 a35
  cases r with
  | fail =>
    rcases hcirc with rfl | rfl <;> rcases hup with rfl | ⟨r', rfl⟩ <;>
      simp [run, LndModel.C08.step, stepRestart, stepUpSignPersist, Life.restart, Life.removedRes, chanAccepts]
  | settle p =>
    have hv := hvalid p rfl
    rcases hcirc with rfl | rfl <;> rcases hup with rfl | ⟨r', rfl⟩ <;>
      simp [run, LndModel.C08.step, stepRestart, stepUpSignPersist, Life.restart, Life.removedRes, chanAccepts, hv]

/-- **a locked-in add that Bob decided to forward is never lost** (targeted progress): in EVERY
reachable state in which the forwarding decision is durable, the add is un-acked, no upstream
resolution is persisted and the outgoing add is in no persisted commitment, a crash-restart
followed by Bob's own steps either offers the outgoing htlc (again) or fails the incoming one
back and persists that — depending only on whether a half-open circuit is found on disk. -/
theorem add_recoverable {s : Pair P} {ref : Ref} (hr : Reachable H hash s)
    (hdec : s.decided = true) (hf : s.fwdFilter = true) (ha : s.addAcked = false)
    (hu : s.upDur = none) (hdd : s.downDur = false) :
    (∃ s', run H hash s [.restart, .commitCircuit ref, .sendDownAdd] = some s' ∧
        s'.down = .adding .sent ∧ s'.up = .locked) ∨
    (∃ s', run H hash s [.restart, .refwdFail ref, .relayUp .fail, .upSignPersist, .deleteCircuit] = some s' ∧
        s'.upDur = some .fail ∧ s'.addAcked = true ∧ s'.circ = .deleted ∧ s'.down = .absent) := by
  have hI := hr.inv
  obtain ⟨a1, a2, a3, a4, a5, a6, a7, a8, a9, a10, a11, a12, a13, a14, a15, a16, a17, a18, a19, a20,
    a21, a22, a23, a24, a25, a26, a27, a28, a29, a30, a31, a32, a33, a34, a35⟩ := hI
  rcases s with ⟨up, down, decided, fwdFilter, addAcked, circ, keystone, circRef, upDur, delPending, downDur,
    resp, respAcked, mbAdd, mbResp, mbRef, respRef, known, sentUp, downAdds, envBad⟩
  dsimp only at *
  subst hdec hf ha hu hdd
  have hdown : down = .absent ∨ down = .adding .sent := by
    rcases down with _ | st | _ | ⟨r, st⟩ | r
    · exact Or.inl rfl
    · cases st
      · exact Or.inr rfl
      all_goals (have := a9 (by simp [Life.committed]); simp at this)
    all_goals (have := a9 (by simp [Life.committed]); simp at this)
  have hup : up = .locked ∨ ∃ r', up = .removing r' .sent := by
    rcases a22 rfl with h | h
    · exact Or.inl h
    · rcases up with _ | st | _ | ⟨r, st⟩ | r <;> simp [Life.res?] at h
      · cases st
        · exact Or.inr ⟨r, rfl⟩
        all_goals (have := (a15 r (by simp [Life.resolvedSigned])).1; simp at this)
      · have := (a15 r (by simp [Life.resolvedSigned])).1; simp at this
  have hcirc : circ ≠ .deleted := fun h => by have := (a13 h).1; simp at this
  clear a1 a2 a3 a4 a5 a6 a7 a8 a9 a10 a11 a12 a13 a14 a15 a16 a17 a18 a19 a20 a21 a22 a23 a24 a25 a26 a27 a28 a29 a30 a31 a32 a33 a34 a35
  rcases hdown with rfl | rfl <;> rcases hup with rfl | ⟨r', rfl⟩ <;> cases circ <;>
    simp [run, LndModel.C08.step, stepRestart, stepUpSignPersist, Life.restart, chanAccepts] at hcirc ⊢

/-- a locally rejected add is failed back again after a crash (the decision is durable, the
failure is reproduced). -/
theorem reject_recoverable {s : Pair P} {ref : Ref} (hr : Reachable H hash s)
    (hdec : s.decided = true) (hf : s.fwdFilter = false) (hu : s.upDur = none) :
    ∃ s', run H hash s [.restart, .localReject ref, .upSignPersist] = some s' ∧
      s'.upDur = some .fail ∧ s'.addAcked = true ∧ s'.circ = .absent := by
  have hI := hr.inv
  obtain ⟨a1, a2, a3, a4, a5, a6, a7, a8, a9, a10, a11, a12, a13, a14, a15, a16, a17, a18, a19, a20,
    a21, a22, a23, a24, a25, a26, a27, a28, a29, a30, a31, a32, a33, a34, a35⟩ := hI
  rcases s with ⟨up, down, decided, fwdFilter, addAcked, circ, keystone, circRef, upDur, delPending, downDur,
    resp, respAcked, mbAdd, mbResp, mbRef, respRef, known, sentUp, downAdds, envBad⟩
  dsimp only at *
  subst hdec hf hu
  have hc : circ = .absent := a7 rfl
  subst hc
  have hack : addAcked = false := by
    cases addAcked
    · rfl
    · have := a18 rfl; simp at this
  subst hack
  have hup : up = .locked ∨ ∃ r', up = .removing r' .sent := by
    rcases a22 rfl with h | h
    · exact Or.inl h
    · rcases up with _ | st | _ | ⟨r, st⟩ | r <;> simp [Life.res?] at h
      · cases st
        · exact Or.inr ⟨r, rfl⟩
        all_goals (have := (a15 r (by simp [Life.resolvedSigned])).1; simp at this)
      · have := (a15 r (by simp [Life.resolvedSigned])).1; simp at this
  clear a1 a2 a3 a4 a5 a6 a7 a8 a9 a10 a11 a12 a13 a14 a15 a16 a17 a18 a19 a20 a21 a22 a23 a24 a25 a26 a27 a28 a29 a30 a31 a32 a33 a34 a35
  rcases hup with rfl | ⟨r', rfl⟩ <;>
    simp [run, LndModel.C08.step, stepRestart, stepUpSignPersist, Life.restart, chanAccepts]

/-! ### hops settle or fail together; balances -/

/-- When no htlc of the payment is left on either channel (what the harness observes) and the
downstream peer did not fail an htlc it had already fulfilled, the incoming htlc was settled iff
the outgoing one was. No hypothesis about Bob's hidden state. -/
theorem hops_settle_together {s : Pair P} (hr : Reachable H hash s) (hq : NoHtlcs s)
    (henv : s.envBad = false) : s.up.settled = s.down.settled := by
  have hI := hr.inv
  obtain ⟨hu, hd⟩ := hq
  rcases hup : s.up with _ | st | _ | ⟨r, st⟩ | r <;> simp [hup, Life.gone] at hu
  · have hdec : s.decided = false := by
      cases hd' : s.decided
      · rfl
      · rcases hI.decided_up hd' with h | h <;> simp [hup, Life.res?] at h
    have := (hI.circ_absent (hI.nofwd (hI.dec hdec).1)).1
    simp [this, Life.settled]
  · rcases hdn : s.down with _ | st | _ | ⟨r', st⟩ | r' <;> simp [hdn, Life.gone] at hd
    · cases r with
      | fail => simp [Life.settled]
      | settle p =>
        have hk := hI.up_settle p (Or.inl (by simp [hup, Life.res?]))
        have := hI.known_down (by intro h; simp [h] at hk)
        simp [hdn] at this
    · cases r with
      | fail =>
        have := hI.up_fail (Or.inl (by simp [hup, Life.res?]))
        cases r' with
        | fail => simp [Life.settled]
        | settle p' => simp [hdn] at this
      | settle p =>
        have hk := hI.up_settle p (Or.inl (by simp [hup, Life.res?]))
        cases r' with
        | settle p' => simp [Life.settled]
        | fail =>
          rcases hI.down_fail (by simp [hdn, Life.res?]) with h1 | h1
          · simp [h1] at hk
          · simp [henv] at h1

theorem pair_delta_eq_fee {prm : Params Hsh} {s : Pair P} (h : s.up.settled = s.down.settled) :
    pairDelta prm s.up s.down = pairFee prm s.up := by
  unfold pairDelta pairFee
  rw [← h]
  cases s.up.settled <;> simp

/-! ### all payments together: forwarding packages with references -/

section Global

/-- the references carried by a pair's circuit / pending response point at the pair's own add. -/
def RefsAre (loc : Ref) (s : Pair P) : Prop :=
  (∀ x, s.circRef = some x → x = loc) ∧ (∀ x, s.respRef = some x → x = loc)

/-- a pair step whose reference argument (if any) is the pair's own location keeps `RefsAre`. -/
theorem RefsAre.step {loc : Ref} {s s' : Pair P} {e : Ev P} (hR : RefsAre loc s)
    (h : step H hash s e = some s')
    (he : ∀ r, e = .localReject r ∨ e = .commitCircuit r ∨ e = .refwdFail r → r = loc) :
    RefsAre loc s' := by
  obtain ⟨h1, h2⟩ := hR
  cases e <;>
    simp only [LndModel.C08.step, stepDownSettle, stepUpSigBob, stepDownSigBob, stepDownRevPeer,
      stepUpSignPersist, stepDropSpurious, stepRestart] at h <;> (repeat' split at h) <;> (try cases h) <;>
    (constructor <;> grind)

/-- the global invariant of the `byIndex` variant: every payment is a reachable pair whose
references point at its own location, and locations are distinct. -/
structure GInv (g : GS P Hsh) : Prop where
  reach : ∀ j, j < g.n → Reachable H (g.prm j).hash (g.st j)
  refs : ∀ j, j < g.n → RefsAre (g.loc j) (g.st j)
  inj : ∀ i j, i < g.n → j < g.n → g.loc i = g.loc j → i = j

theorem ackRef_self {g : GS P Hsh} {i : Nat} {s' : Pair P} (hi : i < g.n)
    (hinj : ∀ a b, a < g.n → b < g.n → g.loc a = g.loc b → a = b) :
    ackRef (setSt g i s') (some (g.loc i)) = setSt g i { s' with addAcked := true } := by
  unfold ackRef setSt
  congr 1
  funext j
  by_cases hj : j = i
  · subst hj; simp [hi]
  · simp only [hj, if_false]
    split
    · next h => exact absurd (hinj j i h.1 hi (Option.some.inj h.2)) hj
    · rfl

theorem GInv.setSt {g : GS P Hsh} (hG : GInv H g) {i : Nat} (hi : i < g.n) {s' : Pair P}
    (hr : Reachable H (g.prm i).hash s') (hrefs : RefsAre (g.loc i) s') : GInv H (setSt g i s') := by
  refine ⟨?_, ?_, hG.inj⟩
  · intro j hj
    simp only [LndModel.C08.setSt]
    by_cases h : j = i
    · subst h; simpa using hr
    · simpa [h] using hG.reach j hj
  · intro j hj
    simp only [LndModel.C08.setSt]
    by_cases h : j = i
    · subst h; simpa using hrefs
    · simpa [h] using hG.refs j hj

/-- every step of the `byIndex` variant is, for the payment concerned, a step of the pair model
(the ack by reference lands on the payment's own bit) and leaves the others alone. -/
theorem GInv.stepOne {g g' : GS P Hsh} (hG : GInv H g) {i : Nat} {e : Ev P}
    (h : gstepOne H .byIndex g i e = some g') : GInv H g' := by
  unfold gstepOne at h
  split at h
  · next hi =>
    have hr := hG.reach i hi
    have hR := hG.refs i hi
    simp only [refOf] at h
    have generic : ∀ (e' : Ev P) (s' : Pair P), step H (g.prm i).hash (g.st i) e' = some s' →
        (∀ r, e' = .localReject r ∨ e' = .commitCircuit r ∨ e' = .refwdFail r → r = g.loc i) →
        GInv H (LndModel.C08.setSt g i s') := fun e' s' hs he =>
      hG.setSt H hi (Reachable.step e' hr hs) (hR.step H _ hs he)
    cases e
    case localReject ref =>
      simp only [Option.map_eq_some_iff] at h
      obtain ⟨s', hs, rfl⟩ := h
      exact generic _ s' hs (by intro r hr'; rcases hr' with h1 | h1 | h1 <;> cases h1; rfl)
    case commitCircuit ref =>
      simp only [Option.map_eq_some_iff] at h
      obtain ⟨s', hs, rfl⟩ := h
      exact generic _ s' hs (by intro r hr'; rcases hr' with h1 | h1 | h1 <;> cases h1; rfl)
    case refwdFail ref =>
      simp only [Option.map_eq_some_iff] at h
      obtain ⟨s', hs, rfl⟩ := h
      exact generic _ s' hs (by intro r hr'; rcases hr' with h1 | h1 | h1 <;> cases h1; rfl)
    case upSignPersist =>
      simp only [Option.map_eq_some_iff] at h
      obtain ⟨s', hs, rfl⟩ := h
      -- the pending resolution carries a reference, and it is the pair's own location
      have hsome : (g.st i).respRef = some (g.loc i) := by
        have hI := hr.inv
        unfold stepUpSignPersist at hs
        split at hs
        · next r hu =>
          split at hs
          · next hd =>
            have := hI.resp_ref r hu hd
            rcases hx : (g.st i).respRef with _ | x
            · simp [hx] at this
            · rw [hR.2 x hx]
          · cases hs
        · cases hs
      rw [hsome, ackRef_self hi hG.inj]
      have hs' : step H (g.prm i).hash (g.st i) .upSignPersist = some { s' with addAcked := true } := by
        simp only [LndModel.C08.step]
        unfold stepUpSignPersist at hs ⊢
        split at hs <;> (try cases hs)
        split at hs <;> cases hs
        simp_all
      exact generic _ _ hs' (by intro r hr'; rcases hr' with h1 | h1 | h1 <;> cases h1)
    case dropSpurious =>
      simp only [Option.map_eq_some_iff] at h
      obtain ⟨s', hs, rfl⟩ := h
      have hsome : (g.st i).respRef = some (g.loc i) := by
        unfold stepDropSpurious at hs
        split at hs
        · split at hs
          · next hg =>
            rcases hx : (g.st i).respRef with _ | x
            · simp [hx] at hg
            · rw [hR.2 x hx]
          · cases hs
        · cases hs
      rw [hsome, ackRef_self hi hG.inj]
      have hs' : step H (g.prm i).hash (g.st i) .dropSpurious = some { s' with addAcked := true } := by
        simp only [LndModel.C08.step]
        unfold stepDropSpurious at hs ⊢
        split at hs <;> (try cases hs)
        split at hs <;> cases hs
        simp_all
      exact generic _ _ hs' (by intro r hr'; rcases hr' with h1 | h1 | h1 <;> cases h1)
    all_goals
      simp only [Option.map_eq_some_iff] at h
      obtain ⟨s', hs, rfl⟩ := h
      exact generic _ s' hs (by intro r hr'; rcases hr' with h1 | h1 | h1 <;> cases h1)
  · cases h

/-- channel-wide events carry no references. -/
def NoRefEv : Ev P → Prop
  | .localReject _ | .commitCircuit _ | .refwdFail _ | .upSignPersist | .dropSpurious => False
  | _ => True

theorem GInv.stepAll {g g' : GS P Hsh} (hG : GInv H g) {f : Nat → Option (Ev P)}
    (hf : ∀ j e, f j = some e → NoRefEv e) (h : gstepAll H g f = some g') : GInv H g' := by
  unfold gstepAll at h
  split at h
  · next hall =>
    cases h
    refine ⟨?_, ?_, hG.inj⟩
    · intro j hj
      simp only
      rcases hfj : f j with _ | e
      · simpa using hG.reach j hj
      · simp only [hj, if_true]
        have := List.all_eq_true.1 hall j (List.mem_range.2 hj)
        simp only [hfj] at this
        rcases hs : step H (g.prm j).hash (g.st j) e with _ | s'
        · simp [hs] at this
        · simpa [hs] using Reachable.step e (hG.reach j hj) hs
    · intro j hj
      simp only
      rcases hfj : f j with _ | e
      · simpa using hG.refs j hj
      · simp only [hj, if_true]
        have := List.all_eq_true.1 hall j (List.mem_range.2 hj)
        simp only [hfj] at this
        rcases hs : step H (g.prm j).hash (g.st j) e with _ | s'
        · simp [hs] at this
        · have hn := hf j e hfj
          simpa [hs] using (hG.refs j hj).step H _ hs
            (by intro r hr'; rcases hr' with h1 | h1 | h1 <;> (subst h1; exact absurd hn (by simp [NoRefEv])))
  · cases h

/-- the events of a global run are well formed: channel-wide ones carry no references. -/
def GEvOk : GEv P → Prop
  | .one _ _ => True
  | .all f => ∀ j e, f j = some e → NoRefEv e

theorem GInv.run {g g' : GS P Hsh} (hG : GInv H g) {es : List (GEv P)} (hok : ∀ e ∈ es, GEvOk e)
    (h : grun H .byIndex g es = some g') : GInv H g' := by
  induction es generalizing g with
  | nil => simp [grun] at h; exact h ▸ hG
  | cons e es ih =>
    simp only [grun] at h
    split at h
    · next g1 h1 =>
      refine ih ?_ (fun x hx => hok x (List.mem_cons_of_mem _ hx)) h
      cases e with
      | one i e => exact hG.stepOne H h1
      | all f =>
        have hf : GEvOk (.all f) := hok (.all f) (by simp)
        exact hG.stepAll H hf h1
    · cases h

theorem GInv.init [Inhabited Hsh] {l : List (Params Hsh × Ref)}
    (hinj : ∀ i j, i < l.length → j < l.length → (l[i]?.map (·.2)) = (l[j]?.map (·.2)) → i = j) :
    GInv H (GS.init (P := P) l) := by
  refine ⟨fun j _ => Reachable.init, fun j _ => ⟨by simp [GS.init], by simp [GS.init]⟩, ?_⟩
  intro i j hi hj h
  simp only [GS.init] at hi hj h
  apply hinj i j hi hj
  rcases hi' : l[i]? with _ | a
  · simp [List.getElem?_eq_none_iff] at hi'; omega
  · rcases hj' : l[j]? with _ | b
    · simp [List.getElem?_eq_none_iff] at hj'; omega
    · simp only [hi', hj', Option.map_some, Option.getD_some] at h ⊢
      rw [h]

theorem sum_congr {f g : Nat → Int} {l : List Nat} (h : ∀ j ∈ l, f j = g j) : sumInt f l = sumInt g l := by
  induction l with
  | nil => rfl
  | cons a l ih =>
    simp only [sumInt]
    rw [h a (by simp), ih (fun j hj => h j (List.mem_cons_of_mem _ hj))]

/-- **forwarder_balance** for ANY global run of the fixed (`byIndex`) forwarder: start with any
list of payments at distinct package locations, run ANY sequence of payment-local events,
channel-wide commitment messages and restarts; if the state reached has no htlc left on any
channel (what the harness observes) and the downstream peers were consistent, Bob's total
changed by exactly the fees `amt_in − amt_out` of the payments that succeeded, and sender
debits equal receiver credits plus those fees. -/
theorem forwarder_balance_run [Inhabited Hsh] {l : List (Params Hsh × Ref)} {es : List (GEv P)}
    {g : GS P Hsh}
    (hinj : ∀ i j, i < l.length → j < l.length → (l[i]?.map (·.2)) = (l[j]?.map (·.2)) → i = j)
    (hok : ∀ e ∈ es, GEvOk e)
    (h : grun H .byIndex (GS.init l) es = some g)
    (hq : ∀ j, j < g.n → NoHtlcs (g.st j) ∧ (g.st j).envBad = false) :
    g.bobDelta = g.totalFees ∧ g.totalDebit = g.totalCredit + g.totalFees := by
  have hG := (GInv.init H hinj).run H hok h
  have hst : ∀ j ∈ List.range g.n, (g.st j).up.settled = (g.st j).down.settled := fun j hj =>
    hops_settle_together H _ (hG.reach j (List.mem_range.1 hj)) (hq j (List.mem_range.1 hj)).1
      (hq j (List.mem_range.1 hj)).2
  constructor
  · unfold GS.bobDelta GS.totalFees
    exact sum_congr (fun j hj => pair_delta_eq_fee (hst j hj))
  · unfold GS.totalDebit GS.totalCredit GS.totalFees
    generalize List.range g.n = rng at hst
    induction rng with
    | nil => rfl
    | cons a rng ih =>
      simp only [sumInt]
      rw [ih (fun j hj => hst j (List.mem_cons_of_mem _ hj))]
      have := hst a (by simp)
      unfold senderDebit receiverCredit pairFee
      rw [← this]
      cases (g.st a).up.settled <;> simp <;> omega

/-- never out of pocket: if no payment asks Bob to forward more than he receives, his total
never decreased. -/
theorem never_out_of_pocket [Inhabited Hsh] {l : List (Params Hsh × Ref)} {es : List (GEv P)}
    {g : GS P Hsh}
    (hinj : ∀ i j, i < l.length → j < l.length → (l[i]?.map (·.2)) = (l[j]?.map (·.2)) → i = j)
    (hok : ∀ e ∈ es, GEvOk e)
    (h : grun H .byIndex (GS.init l) es = some g)
    (hq : ∀ j, j < g.n → NoHtlcs (g.st j) ∧ (g.st j).envBad = false)
    (hfee : ∀ j, j < g.n → (g.prm j).amtOut ≤ (g.prm j).amtIn) : 0 ≤ g.bobDelta := by
  rw [(forwarder_balance_run H hinj hok h hq).1]
  unfold GS.totalFees
  have : ∀ rng : List Nat, (∀ j ∈ rng, j < g.n) → 0 ≤ sumInt (fun j => pairFee (g.prm j) (g.st j).up) rng := by
    intro rng
    induction rng with
    | nil => intro _; simp [sumInt]
    | cons a rng ih =>
      intro hr
      simp only [sumInt]
      have h1 := ih (fun j hj => hr j (List.mem_cons_of_mem _ hj))
      have h2 : 0 ≤ pairFee (g.prm a) (g.st a).up := by
        unfold pairFee
        have := hfee a (hr a (by simp))
        split <;> omega
      omega
  exact this _ (fun j hj => List.mem_range.1 hj)

/-! #### the pre-fix variant violates the same statement -/

/-- symbolic instance: preimages and hashes are numbers, `H p = p + 100`. -/
def Hx (p : Nat) : Nat := p + 100

/-- X and Y sit in ONE forwarding package (height 2, indices 0 and 1). X is forwarded, failed
back by the switch, the fail is signed (AckFilter bit 0 set). Y is forwarded, its add is
unsigned (half-open circuit) when the node crashes. After the restart the half-open circuit
makes CommitCircuits answer Fail; the fail is relayed, signed, the circuit deleted. Second
crash. Y's add is un-acked in `byRank` (the ack went to (2,0) again), it is re-forwarded as a
new circuit, Carol settles it. -/
def shiftRun : List (GEv Nat) :=
  let lock (i : Nat) : List (GEv Nat) :=
    [.one i .upAdd, .one i .upSigPeer, .one i .upRevBob, .one i .upSigBob, .one i .upRevPeer]
  let failUp (i : Nat) : List (GEv Nat) :=
    [.one i (.relayUp .fail), .one i .upSignPersist, .one i .deleteCircuit, .one i .upSigBob,
     .one i .upRevPeer, .one i .upSigPeer, .one i .upRevBob]
  lock 0 ++ lock 1 ++
  [.one 0 (.decide true), .one 1 (.decide true),
   .one 0 (.commitCircuit (0, 0)), .one 0 .switchFail] ++ failUp 0 ++
  [.one 1 (.commitCircuit (0, 0)), .one 1 .sendDownAdd,
   .all (fun _ => some .restart),
   .one 1 (.refwdFail (0, 0))] ++ failUp 1 ++
  [.all (fun _ => some .restart),
   -- Y's AckFilter bit is still clear in `byRank`: processRemoteAdds forwards it again
   .one 1 (.commitCircuit (0, 0)), .one 1 .sendDownAdd, .one 1 .openKeystone, .one 1 .downSignPersist,
   .one 1 .downSigBob, .one 1 .downRevPeer, .one 1 .downSigPeer, .one 1 .downRevBob,
   .one 1 (.downSettle 7), .one 1 .downSigPeer, .one 1 .downRevBob, .one 1 .downSigBob, .one 1 .downRevPeer]

def shiftPays : List (Params Nat × Ref) := [(⟨300, 400001, 400000⟩, (2, 0)), (⟨107, 30001, 30000⟩, (2, 1))]

/-- **The pre-fix code is a different model, and its run violates `forwarder_balance_run`**:
the `byRank` variant executes `shiftRun` completely; in the final state no htlc is left on any
channel, no peer misbehaved, yet Bob's total is −30000 while the fees of the succeeded payments
are 0. -/
theorem byRank_violates_forwarder_balance :
    ∃ g : GS Nat Nat, grun Hx .byRank (GS.init shiftPays) shiftRun = some g ∧
      (∀ j, j < g.n → NoHtlcs (g.st j) ∧ (g.st j).envBad = false) ∧
      g.bobDelta = -30000 ∧ g.totalFees = 0 := by
  refine ⟨(grun Hx .byRank (GS.init shiftPays) shiftRun).getD (GS.init []), ?_, ?_, ?_, ?_⟩
  · have : (grun Hx .byRank (GS.init shiftPays) shiftRun).isSome = true := by decide
    rcases hx : grun Hx .byRank (GS.init shiftPays) shiftRun with _ | g
    · simp [hx] at this
    · rfl
  · intro j hj
    have hn : ((grun Hx .byRank (GS.init shiftPays) shiftRun).getD (GS.init [])).n = 2 := by decide
    rw [hn] at hj
    have : j = 0 ∨ j = 1 := by omega
    rcases this with rfl | rfl <;> decide
  · decide
  · decide

/-- the fixed variant refuses the same schedule: after the second restart Y's add is acked, the
re-forward is not enabled. -/
theorem byIndex_refuses_shiftRun : grun Hx .byIndex (GS.init shiftPays) shiftRun = none := by decide

end Global

/-! ### the monitor: completeness for the model, soundness of the settle clause -/

/-- **monitor completeness** (one step; no false alarms on the model): an internal step does not
change what the wire shows; a visible step is accepted by the monitor `Obs.step`, which moves
to the projection of the model's next state. -/
theorem monitor_complete_step {s s' : Pair P} {e : Ev P} (hI : Inv H hash s)
    (h : step H hash s e = some s') :
    match e.wireIn s with
    | none => s'.obs = s.obs
    | some w => Obs.step H hash s.obs w = .ok s'.obs := by
  have hres := hI.resend_add
  obtain ⟨a1, a2, a3, a4, a5, a6, a7, a8, a9, a10, a11, a12, a13, a14, a15, a16, a17, a18, a19, a20,
    a21, a22, a23, a24, a25, a26, a27, a28, a29, a30, a31, a32, a33, a34, a35⟩ := hI
  rcases s with ⟨up, down, decided, fwdFilter, addAcked, circ, keystone, circRef, upDur, delPending, downDur,
    resp, respAcked, mbAdd, mbResp, mbRef, respRef, known, sentUp, downAdds, envBad⟩
  dsimp only at *
  cases e with
  | relayUp r =>
    cases r <;> simp only [LndModel.C08.step, Ev.wireIn, Obs.step, Pair.obs] at h ⊢ <;>
      split at h <;> cases h <;> grind [Life.res?, chanAccepts]
  | localReject ref =>
    simp only [LndModel.C08.step, Ev.wireIn, Obs.step, Pair.obs] at h ⊢
    split at h <;> cases h; grind [Life.res?, chanAccepts]
  | resendUp =>
    rcases up with _ | st | _ | ⟨r, st⟩ | r <;> (try cases st) <;> rcases upDur with _ | r' <;> (try cases r') <;>
      (try cases r) <;>
      simp only [LndModel.C08.step, Ev.wireIn, Obs.step, Pair.obs] at h ⊢ <;> (try cases h) <;>
      grind [Life.res?, Life.resolvedSigned]
  | resendDown =>
    rcases down with _ | st | _ | ⟨r, st⟩ | r <;> (try cases st) <;> (try cases r) <;>
      simp only [LndModel.C08.step, Ev.wireIn, Obs.step, Pair.obs] at h ⊢ <;> (try cases h) <;> grind
  | upSigBob =>
    rcases up with _ | st | _ | ⟨r, st⟩ | r <;> (try cases st) <;>
      simp only [LndModel.C08.step, stepUpSigBob, Ev.wireIn, Obs.step, Pair.obs, Life.sigR] at h ⊢ <;>
      (try split at h) <;> cases h <;> rfl
  | downSigBob =>
    rcases down with _ | st | _ | ⟨r, st⟩ | r <;> (try cases st) <;>
      simp only [LndModel.C08.step, stepDownSigBob, Ev.wireIn, Obs.step, Pair.obs, Life.sigO] at h ⊢ <;>
      (try split at h) <;> cases h <;> rfl
  | downRevPeer =>
    rcases down with _ | st | _ | ⟨r, st⟩ | r <;> (try cases st) <;>
      simp only [LndModel.C08.step, stepDownRevPeer, Ev.wireIn, Obs.step, Pair.obs, Life.revR] at h ⊢ <;>
      cases h <;> rfl
  | downSettle p =>
    simp only [LndModel.C08.step, stepDownSettle, Ev.wireIn, Obs.step, Pair.obs] at h ⊢
    (repeat' split at h) <;> cases h <;> grind
  | restart =>
    simp only [LndModel.C08.step, stepRestart, Ev.wireIn, Obs.step, Pair.obs] at h ⊢
    cases h; rfl
  | upSignPersist =>
    simp only [LndModel.C08.step, stepUpSignPersist, Ev.wireIn, Pair.obs] at h ⊢
    (repeat' split at h) <;> cases h <;> rfl
  | dropSpurious =>
    simp only [LndModel.C08.step, stepDropSpurious, Ev.wireIn, Pair.obs] at h ⊢
    (repeat' split at h) <;> cases h <;> rfl
  | refwdResp =>
    simp only [LndModel.C08.step, Ev.wireIn, Pair.obs] at h ⊢
    (repeat' split at h) <;> cases h <;> rfl
  | _ =>
    simp only [LndModel.C08.step, Ev.wireIn, Obs.step, Pair.obs] at h ⊢ <;>
      (try split at h) <;> (try cases h) <;> grind

/-- the monitor run over a list of wire events. -/
def obsRun (o : Obs P) : List (WEv P) → Except Clause (Obs P)
  | [] => .ok o
  | w :: ws => match Obs.step H hash o w with
    | .ok o' => obsRun o' ws
    | .error c => .error c

/-- **monitor completeness** (runs): the wire trace of ANY run of the model is accepted by the
monitor, which ends in the projection of the model's final state. A MONITOR line of the driver
therefore means: the implementation's trace is not a trace of the model. -/
theorem monitor_complete_for_model {s s' : Pair P} {es : List (Ev P)} (hr : Reachable H hash s)
    (h : run H hash s es = some s') : obsRun H hash s.obs (wireTrace H hash s es) = .ok s'.obs := by
  induction es generalizing s with
  | nil => simp [run] at h; subst h; rfl
  | cons e es ih =>
    simp only [run] at h
    split at h
    · next s1 h1 =>
      have hm := monitor_complete_step H hash hr.inv h1
      have ih' := ih (Reachable.step e hr h1) h
      simp only [wireTrace, h1]
      split at hm
      · next hw => simp only [hw]; rw [← hm]; exact ih'
      · next w hw => simp only [hw, obsRun, hm]; exact ih'
    · cases h

/-- what the monitor's state knows about the preimages seen so far. -/
def ObsInv (seen : List P) (o : Obs P) : Prop :=
  (∀ p ∈ o.known, p ∈ seen) ∧ (∀ p, o.up.res? = some (.settle p) → p ∈ seen ∧ H p = hash)

theorem ObsInv.step {seen : List P} {o o' : Obs P} {w : WEv P} (hO : ObsInv H hash seen o)
    (h : Obs.step H hash o w = .ok o') :
    ObsInv H hash (match w with | .downSettle p => p :: seen | _ => seen) o' := by
  obtain ⟨h1, h2⟩ := hO
  rcases o with ⟨up, down, known⟩
  cases w <;> simp only [Obs.step] at h <;> (repeat' split at h) <;> (try cases h) <;>
    (constructor <;> simp only [] <;> intro p hp) <;>
    first
      | grind [Life.res?, Life.res_sigO, Life.res_sigR, Life.res_revO, Life.res_revR, Life.res_restart]
      | (rcases up with _ | st | _ | ⟨r, st⟩ | r <;> (try cases st) <;>
          grind [Life.res?, Life.sigO, Life.sigR, Life.revO, Life.revR, Life.restart])

/-- **monitor soundness, settle clause**: any wire trace the monitor accepts — whether it comes
from the model or from the implementation — satisfies the trace property `FulfillJustified`:
every upstream fulfill (first transmission or retransmission) is preceded by a downstream
fulfill with the same preimage that hashes to the payment hash. (The other clauses of
`Obs.step` are stated on the `Life` projections themselves; for them the monitor's verdict IS
the definition, see the notes.) -/
theorem monitor_sound_settle {o o' : Obs P} {ws : List (WEv P)} {seen : List P}
    (hO : ObsInv H hash seen o) (h : obsRun H hash o ws = .ok o') :
    FulfillJustified H hash seen ws := by
  induction ws generalizing o seen with
  | nil => trivial
  | cons w ws ih =>
    simp only [obsRun] at h
    split at h
    · next o1 h1 =>
      have hO1 := hO.step H hash h1
      cases w <;> simp only [FulfillJustified] <;> simp only [] at hO1
      case upSettle q =>
        refine ⟨?_, ih hO1 h⟩
        obtain ⟨ha, hb⟩ := hO
        simp only [Obs.step] at h1
        split at h1
        · next hu => exact hb q (by simp [hu, Life.res?])
        · split at h1
          · cases h1
          · split at h1
            · next hk => exact ⟨ha q hk.1, hk.2⟩
            · cases h1
      all_goals exact ih hO1 h
    · cases h

/-- from the initial monitor state. -/
theorem monitor_sound_settle_init {o' : Obs P} {ws : List (WEv P)}
    (h : obsRun H hash ({} : Obs P) ws = .ok o') : FulfillJustified H hash [] ws :=
  monitor_sound_settle H hash ⟨by simp, by simp [Life.res?]⟩ h



/-! ### the mailbox: a reset re-delivers every un-acked packet -/

section Mailbox
variable {α : Type}

/-- with enough deliveries the courier hands out exactly the packets from the head pointers on:
the settle/fail queue first, then the adds. -/
theorem MBox.drain_eq (m : MBox α) (n : Nat)
    (hn : (m.rep.length - m.repHead) + (m.add.length - m.addHead) ≤ n) :
    m.drain n = m.rep.drop m.repHead ++ m.add.drop m.addHead := by
  induction n generalizing m with
  | zero =>
    have h1 : m.rep.length ≤ m.repHead := by omega
    have h2 : m.add.length ≤ m.addHead := by omega
    simp [MBox.drain, List.drop_eq_nil_of_le h1, List.drop_eq_nil_of_le h2]
  | succ n ih =>
    simp only [MBox.drain, MBox.deliver]
    split
    · next a m' hd =>
      split at hd
      · next h =>
        cases hd
        rw [ih _ (by simp only; omega)]
        simp only
        rw [List.drop_eq_getElem_cons h]
        rfl
      · next h =>
        split at hd
        · next h2 =>
          cases hd
          rw [ih _ (by simp only; omega)]
          simp only
          rw [List.drop_eq_nil_of_le (Nat.le_of_not_lt h), List.drop_eq_getElem_cons h2]
          rfl
        · cases hd
    · next hd =>
      split at hd
      · cases hd
      · next h =>
        split at hd
        · cases hd
        · next h2 =>
          simp [List.drop_eq_nil_of_le (Nat.le_of_not_lt h), List.drop_eq_nil_of_le (Nat.le_of_not_lt h2)]

/-- **after `ResetPackets` every un-acked packet is re-delivered**: whatever had been delivered
before (wherever the head pointers stood), after the reset the courier hands out the complete
content of both queues, i.e. every packet that was not acked — settle/fails first. -/
theorem MBox.reset_redelivers_all (m : MBox α) :
    m.reset.drain (m.rep.length + m.add.length) = m.rep ++ m.add := by
  rw [MBox.drain_eq _ _ (by simp [MBox.reset])]
  simp [MBox.reset]

/-- acks only remove the acked packet: a packet that is delivered but not acked is still in the
queue, hence re-delivered after a reset. -/
theorem MBox.unacked_survives (m : MBox α) (i j : Nat) (hj : j < m.rep.length) (hij : i ≠ j) :
    m.rep[j] ∈ (m.ackRep i).reset.drain ((m.ackRep i).rep.length + (m.ackRep i).add.length) := by
  rw [MBox.reset_redelivers_all]
  apply List.mem_append_left
  simp only [MBox.ackRep]
  by_cases h : j < i
  · have : (m.rep.eraseIdx i)[j]? = m.rep[j]? := by rw [List.getElem?_eraseIdx]; simp [h]
    exact List.mem_of_getElem? (by rw [this]; simp [hj])
  · have hlt : i < j := by omega
    have : (m.rep.eraseIdx i)[j - 1]? = m.rep[j]? := by
      rw [List.getElem?_eraseIdx]
      have : ¬ (j - 1 < i) := by omega
      simp only [this, if_false]
      congr 1
      omega
    exact List.mem_of_getElem? (by rw [this]; simp [hj])

/-- the seeded variant (idle reset site forgets the settle/fail queue) loses a delivered,
un-acked response when no add is pending … -/
theorem MBox.resetIdleForgetsRep_loses :
    ({ rep := [7], repHead := 1 } : MBox Nat).resetIdleForgetsRep.drain 1 = [] := by decide

/-- … while an un-acked add that is still to be delivered makes the courier busy, so the other
reset site (which rewinds both queues) runs and hides the defect. -/
theorem MBox.resetIdleForgetsRep_hidden_by_add :
    ({ rep := [7], repHead := 1, add := [9], addHead := 0 } : MBox Nat).resetIdleForgetsRep.drain 2 = [7, 9] := by
  decide

end Mailbox

/-! ### non-vacuity: the interesting states are reachable, the hypotheses satisfiable -/

section Examples

private def lockIn : List (Ev Nat) := [.upAdd, .upSigPeer, .upRevBob, .upSigBob, .upRevPeer]
private def forward : List (Ev Nat) :=
  [.decide true, .commitCircuit (2, 0), .sendDownAdd, .openKeystone, .downSignPersist,
   .downSigBob, .downRevPeer, .downSigPeer, .downRevBob]
private def finishUp : List (Ev Nat) := [.upSigBob, .upRevPeer, .upSigPeer, .upRevBob]
private def finishDown : List (Ev Nat) := [.downSigPeer, .downRevBob, .downSigBob, .downRevPeer]

/-- a complete successful forward of payment hash 107 with preimage 7. -/
private def okRun : List (Ev Nat) :=
  lockIn ++ forward ++ [.downSettle 7, .relayUp (.settle 7), .upSignPersist, .deleteCircuit] ++
  finishUp ++ finishDown ++ [.ackDup]

private def okState : Pair Nat := (run Hx 107 {} okRun).getD {}

example : run Hx 107 {} okRun = some okState := by decide
example : Quiescent okState ∧ NoHtlcs okState ∧ okState.up.settled = true ∧ okState.down.settled = true ∧
    okState.circ = .deleted ∧ okState.envBad = false ∧ okState.sentUp = [.settle 7] := by decide
example : FulfillJustified Hx 107 [] (wireTrace Hx 107 {} okRun) :=
  settle_only_with_downstream_preimage Hx 107 (s := okState) (by decide)

/-- crash between the persisted signature of the upstream settle and the circuit deletion: after
the restart the downstream peer re-sends its fulfill, the response reaches the incoming link a
second time, the channel refuses it (`replayed_response_harmless`), `dropSpurious` cleans up,
the persisted settle is retransmitted exactly once more, everything completes. -/
private def crashRun : List (Ev Nat) :=
  lockIn ++ forward ++ [.downSettle 7, .relayUp (.settle 7), .upSignPersist, .restart,
    .downSettle 7, .dropSpurious, .resendUp] ++ finishUp ++ finishDown ++ [.ackDup]

private def crashState : Pair Nat := (run Hx 107 {} crashRun).getD {}

example : run Hx 107 {} crashRun = some crashState := by decide
example : Quiescent crashState ∧ crashState.up.settled = true ∧ crashState.down.settled = true ∧
    crashState.sentUp = [.settle 7] ∧ crashState.upDur = some (.settle 7) := by decide
/-- in the middle of that run the duplicate really is in the mailbox while the resolution is
already persisted: the hypotheses of `replayed_response_harmless` are reachable. -/
example : ∃ s, run Hx 107 {} (crashRun.take 19) = some s ∧ s.mbResp = some (.settle 7) ∧
    s.upDur = some (.settle 7) ∧ (step Hx 107 s (.relayUp (.settle 7))).isNone = true :=
  ⟨(run Hx 107 {} (crashRun.take 19)).getD {}, by decide, by decide, by decide, by decide⟩

/-- crash between OpenCircuits and the signature of the outgoing add: the keystone is trimmed,
the half-open circuit is failed back, acked, and nothing is forwarded again. -/
private def keystoneCrash : List (Ev Nat) :=
  lockIn ++ [.decide true, .commitCircuit (2, 0), .sendDownAdd, .openKeystone, .restart,
    .refwdFail (2, 0), .relayUp .fail, .upSignPersist, .deleteCircuit] ++ finishUp ++ [.restart]

private def keystoneState : Pair Nat := (run Hx 107 {} keystoneCrash).getD {}

example : run Hx 107 {} keystoneCrash = some keystoneState := by decide
example : keystoneState.addAcked = true ∧ keystoneState.circ = .deleted ∧ keystoneState.down = .absent ∧
    keystoneState.keystone = false ∧ (step Hx 107 keystoneState (.commitCircuit (2, 0))).isNone = true ∧
    (step Hx 107 keystoneState (.refwdFail (2, 0))).isNone = true ∧ NoHtlcs keystoneState := by decide

/-- a wrong preimage: recorded on the wire, never relayed, and Bob can not revoke. -/
private def badState : Pair Nat := (run Hx 107 {} (lockIn ++ forward ++ [.downSettle 8, .downSigPeer])).getD {}
example : run Hx 107 {} (lockIn ++ forward ++ [.downSettle 8, .downSigPeer]) = some badState := by decide
example : badState.known = [] ∧ badState.mbResp = none ∧ (step Hx 107 badState .downRevBob).isNone = true := by
  decide

/-- the hypotheses of `forwarder_balance_run` are satisfiable with a non-zero fee: the fixed
variant runs both payments of `shiftPays` to the end (X failed back, Y settled). -/
private def goodRun : List (GEv Nat) :=
  (lockIn.map (GEv.one 0)) ++ (lockIn.map (GEv.one 1)) ++
  [.one 0 (.decide true), .one 1 (.decide true), .one 0 (.commitCircuit (0, 0)), .one 0 .switchFail,
   .one 0 (.relayUp .fail), .one 0 .upSignPersist, .one 0 .deleteCircuit] ++ (finishUp.map (GEv.one 0)) ++
  [.all (fun _ => some .restart)] ++
  ((([.commitCircuit (0, 0), .sendDownAdd, .openKeystone, .downSignPersist,
     .downSigBob, .downRevPeer, .downSigPeer, .downRevBob, .downSettle 7, .relayUp (.settle 7),
     .upSignPersist, .deleteCircuit] : List (Ev Nat)) ++ finishUp ++ finishDown).map (GEv.one 1))

private def goodState : GS Nat Nat := (grun Hx .byIndex (GS.init shiftPays) goodRun).getD (GS.init [])

example : (grun Hx .byIndex (GS.init shiftPays) goodRun).isSome = true := by decide
example : goodState.n = 2 ∧ NoHtlcs (goodState.st 0) ∧ NoHtlcs (goodState.st 1) ∧
    goodState.bobDelta = 1 ∧ goodState.totalFees = 1 ∧ (goodState.st 1).addAcked = true := by decide

end Examples

end LndModel.C08
