/-
C08 — GENERAL PROGRESS: from every reachable state of the pair model in which the downstream
peer has not put an invalid preimage on the wire, a quiescent state is reached by the
deterministic cooperative schedule `sched` (Bob's own enabled steps first, then the next
message of the commitment dance of either channel, the downstream peer answering a locked-in
htlc with `pol.ans`), WITHOUT any crash-restart, in at most `rank s` steps.

Definitions only in this file (scheduler, ranking function, the two extra invariant clauses);
the proofs are in `ProgressLemmas.lean` / `ProgressProps.lean`.
-/
import LndModel.C08.Model

namespace LndModel.C08

/-- steps still to go in the life cycle of one htlc. -/
def Life.rank {P : Type} : Life P → Nat
  | .absent => 10
  | .adding .sent => 9
  | .adding .signed => 8
  | .adding .acked => 7
  | .adding .csigned => 6
  | .locked => 5
  | .removing _ .sent => 4
  | .removing _ .signed => 3
  | .removing _ .acked => 2
  | .removing _ .csigned => 1
  | .removed _ => 0

def Circ.rank : Circ → Nat
  | .absent => 3
  | .pending => 2
  | .closing => 1
  | .deleted => 0

/-- the ranking function: strictly decreased by every scheduled step. -/
def Pair.rank {P : Type} (s : Pair P) : Nat :=
  s.up.rank + s.down.rank + (if s.decided then 0 else 1) + 2 * s.circ.rank +
  (if s.keystone then 0 else 1) + (if s.downDur then 0 else 1) + (if s.mbAdd then 1 else 0) +
  (if s.mbResp.isSome then 1 else 0) + 2 * (if s.upDur.isSome then 0 else 1) +
  (if s.delPending then 1 else 0) + (if s.respAcked then 0 else 1)

/-- the choices that are not Bob's: forward or reject (policy, C09), the forwarding-package
reference of the add, and the downstream peer's answer to a locked-in htlc. -/
structure Policy (P : Type) where
  fwd : Bool
  ref : Ref
  ans : Res P

section
variable {P Hsh : Type} [DecidableEq P] [DecidableEq Hsh] (H : P → Hsh) (hash : Hsh)

/-- next step of the outgoing htlc's life cycle. -/
def schedDown (pol : Policy P) (s : Pair P) : Option (Ev P) :=
  match s.down with
  | .absent => if s.downDur then some .resendDownAdd else none
  | .adding .sent =>
    if s.keystone = false then some .openKeystone
    else if s.downDur = false then some .downSignPersist
    else some .downSigBob
  | .adding .signed => some .downRevPeer
  | .adding .acked => some .downSigPeer
  | .adding .csigned => some .downRevBob
  | .locked => some (match pol.ans with | .settle p => .downSettle p | .fail => .downFail)
  | .removing _ .sent => some .downSigPeer
  | .removing _ .signed => some .downRevBob
  | .removing _ .acked => some .downSigBob
  | .removing _ .csigned => some .downRevPeer
  | .removed _ => none

/-- next step of the incoming htlc's life cycle (incl. processRemoteAdds and the switch). -/
def schedUp (pol : Policy P) (s : Pair P) : Option (Ev P) :=
  match s.up with
  | .absent => none
  | .adding .sent => some .upSigPeer
  | .adding .signed => some .upRevBob
  | .adding .acked => some .upSigBob
  | .adding .csigned => some .upRevPeer
  | .locked =>
    if s.upDur.isSome then some .resendUp
    else if s.decided = false then some (.decide pol.fwd)
    else if s.fwdFilter = false then some (.localReject pol.ref)
    else match s.circ with
      | .absent => some (.commitCircuit pol.ref)
      | .pending => if s.keystone then some .refwdResp else some (.refwdFail pol.ref)
      | _ => none
  | .removing _ .sent => if s.upDur.isSome then some .upSigBob else some .upSignPersist
  | .removing _ .signed => some .upRevPeer
  | .removing _ .acked => some .upSigPeer
  | .removing _ .csigned => some .upRevBob
  | .removed _ => none

/-- THE COOPERATIVE SCHEDULE. Bob's pending internal work first (circuit deletion, mailbox
deliveries), then the outgoing htlc's dance, then the incoming htlc's, then the last ack. -/
def sched (pol : Policy P) (s : Pair P) : Option (Ev P) :=
  if s.delPending then some .deleteCircuit
  else match s.mbResp with
    | some r => if chanAccepts H hash s r then some (.relayUp r) else some .dropSpurious
    | none =>
      if s.mbAdd then some .sendDownAdd
      else match schedDown pol s with
        | some e => some e
        | none => match schedUp pol s with
          | some e => some e
          | none => if s.resp.isSome ∧ s.respAcked = false then some .ackDup else none

/-- run the schedule for at most `n` steps. -/
def drive (pol : Policy P) : Nat → Pair P → Pair P × List (Ev P)
  | 0, s => (s, [])
  | n + 1, s =>
    match sched H hash pol s with
    | none => (s, [])
    | some e =>
      match step H hash s e with
      | none => (s, [])
      | some s' => let (t, es) := drive pol n s'; (t, e :: es)

/-- the downstream peer has not offered a fulfill with a wrong preimage that is still on the
wire (after that Bob's link fails the channel: force close, outside this property). -/
def Honest (s : Pair P) : Prop := ∀ p st, s.down = .removing (.settle p) st → H p = hash

def Policy.Valid (pol : Policy P) : Prop := ∀ p, pol.ans = .settle p → H p = hash

/-- two clauses the progress proof needs on top of `Inv`. -/
structure Inv2 (s : Pair P) : Prop where
  /-- a keystone without an outgoing htlc on the wire belongs to a persisted add. -/
  key_down : s.keystone = true → s.down = .absent → s.downDur = true
  /-- a closing circuit whose response packet has left the mailbox: the response is in the
  incoming channel's update log, not yet signed. -/
  closing_mb : s.circ = .closing → s.mbResp = none → ∃ r, s.up = .removing r .sent

end

end LndModel.C08
