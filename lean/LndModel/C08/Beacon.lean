/-
C08 — the preimage beacon (`witness_beacon.go`, root package `lnd`).

The beacon is the conduit through which the preimage the forwarder learns from its OUTGOING
htlc (the link calls `PreimageCache.AddPreimages` before it revokes) reaches the resolver that
must settle the matching INCOMING htlc on chain (`htlcIncomingContestResolver`:
`SubscribeUpdates`, `LookupPreimage`, then wait on `WitnessUpdates`).  If a live subscriber is
not told, the outgoing htlc is settled downstream while the incoming one is never claimed.

Executable model (core Lean only):

* `subs`   : the subscriber map `map[uint64]*preimageSubscriber`, keyed by client id.  The
             VALUE is the subscriber itself; the model names subscribers by the ordinal of the
             `SubscribeUpdates` call that created them (`slot`, a ghost name — this is what the
             harness calls a slot).
* `next`   : `clientCounter`.
* `handle` : ghost — the client id captured by the `CancelSubscription` closure of each slot.
* `cache`  : the witness cache (`Put` semantics: the last write of a key wins).
* `log`    : ghost — every delivery `(slot, preimage)` in global order.

`IdRule.counter` is the code (id := clientCounter; clientCounter++).  `IdRule.mapLen`
(id := len(subscribers)) is a DIFFERENT model, kept to show that the theorems of
`BeaconProps.lean` are about the id discipline and fail without it.
-/
namespace LndModel.C08.Beacon

inductive IdRule where
  | counter | mapLen
  deriving DecidableEq, Repr

structure St (P Hsh : Type) where
  next : Nat := 0
  nslots : Nat := 0
  /-- the map: (client id, subscriber). -/
  subs : List (Nat × Nat) := []
  /-- ghost: (slot, client id captured by its cancel closure). -/
  handle : List (Nat × Nat) := []
  cache : List (Hsh × P) := []
  log : List (Nat × P) := []
  deriving Repr

inductive Op (P Hsh : Type) where
  /-- `SubscribeUpdates`; `icptOk = false`: the interceptor returns an error, the beacon
  cancels the fresh subscription and returns the error. -/
  | sub (icptOk : Bool)
  /-- the `CancelSubscription` closure of a slot. -/
  | cancel (slot : Nat)
  /-- `AddPreimages`; `cacheOk = false`: the cache write fails. -/
  | add (ps : List P) (cacheOk : Bool)
  | lookup (h : Hsh)
  /-- a new process: a fresh beacon over the same cache. -/
  | restart
  deriving Repr

inductive Out (P : Type) where
  | subscribed (slot : Nat)
  | subFailed (slot : Nat)
  | cancelled
  | added
  | addFailed
  | found (p : P)
  | notFound
  | restarted
  deriving Repr, DecidableEq

section
variable {P Hsh : Type} [DecidableEq Hsh] (H : P → Hsh)

/-- Go map assignment `m[k] = v`. -/
def mapPut (m : List (Nat × Nat)) (k v : Nat) : List (Nat × Nat) := (k, v) :: m.filter (fun e => e.1 != k)

/-- Go `delete(m, k)`. -/
def mapDel (m : List (Nat × Nat)) (k : Nat) : List (Nat × Nat) := m.filter (fun e => e.1 != k)

def handleOf (s : St P Hsh) (slot : Nat) : Option Nat := (s.handle.find? (fun e => e.1 == slot)).map (·.2)

def cacheGet (c : List (Hsh × P)) (h : Hsh) : Option P := (c.find? (fun e => e.1 == h)).map (·.2)

/-- `AddSha256Witnesses`: one `Put(hash(p), p)` per preimage, in order. -/
def cachePut (c : List (Hsh × P)) (ps : List P) : List (Hsh × P) := ps.foldl (fun c p => (H p, p) :: c) c

/-- the notification loop of `AddPreimages`: every subscriber in the map is sent the whole batch. -/
def deliver (subs : List (Nat × Nat)) (ps : List P) : List (Nat × P) :=
  subs.flatMap (fun e => ps.map (fun p => (e.2, p)))

def newId (r : IdRule) (s : St P Hsh) : Nat :=
  match r with
  | .counter => s.next
  | .mapLen => s.subs.length

def step (r : IdRule) (s : St P Hsh) : Op P Hsh → St P Hsh × Out P
  | .sub ok =>
    let id := newId r s
    let slot := s.nslots
    let s1 := { s with next := s.next + 1, nslots := s.nslots + 1, handle := (slot, id) :: s.handle }
    if ok then ({ s1 with subs := mapPut s.subs id slot }, .subscribed slot)
    else ({ s1 with subs := mapDel (mapPut s.subs id slot) id }, .subFailed slot)
  | .cancel slot =>
    match handleOf s slot with
    | some id => ({ s with subs := mapDel s.subs id }, .cancelled)
    | none => (s, .cancelled)
  | .add ps ok =>
    if ps.isEmpty then (s, .added)
    else if ok then ({ s with cache := cachePut H s.cache ps, log := s.log ++ deliver s.subs ps }, .added)
    else (s, .addFailed)
  | .lookup h =>
    match cacheGet s.cache h with
    | some p => (s, .found p)
    | none => (s, .notFound)
  | .restart => ({ s with next := 0, subs := [], handle := [] }, .restarted)

/-- run a list of operations; returns the final state and the trace (operation, answer). -/
def run (r : IdRule) (s : St P Hsh) : List (Op P Hsh) → St P Hsh × List (Op P Hsh × Out P)
  | [] => (s, [])
  | o :: os =>
    let (s1, out) := step H r s o
    let (s2, tr) := run r s1 os
    (s2, (o, out) :: tr)

/-- everything delivered to a slot, in delivery order. -/
def inbox (s : St P Hsh) (slot : Nat) : List P := (s.log.filter (fun e => e.1 == slot)).map (·.2)

/-- the slot is in the subscriber map. -/
def liveB (s : St P Hsh) (slot : Nat) : Bool := s.subs.any (fun e => e.2 == slot)

/-! ### specification, stated on the trace (operations and answers) only

`specInbox slot live tr`: what subscriber `slot` must have been sent during `tr`: the batches of
the successful `AddPreimages` calls between the `SubscribeUpdates` call that answered with this
slot and the first later cancel of this slot (or a restart), each once, in order. -/
def specInbox (slot : Nat) : Bool → List (Op P Hsh × Out P) → List P
  | _, [] => []
  | live, (.sub _, .subscribed k) :: tr => specInbox slot (live || k == slot) tr
  | live, (.cancel k, _) :: tr => specInbox slot (live && k != slot) tr
  | live, (.add ps true, _) :: tr => (if live then ps else []) ++ specInbox slot live tr
  | _, (.restart, _) :: tr => specInbox slot false tr
  | live, _ :: tr => specInbox slot live tr

/-- the last preimage with hash `h` written by a successful, non-empty `AddPreimages` of the trace. -/
def specLookup (h : Hsh) : Option P → List (Op P Hsh × Out P) → Option P
  | acc, [] => acc
  | acc, (.add ps true, _) :: tr =>
    specLookup h (match (ps.reverse.find? (fun p => H p == h)) with | some p => some p | none => acc) tr
  | acc, _ :: tr => specLookup h acc tr

end

end LndModel.C08.Beacon
