/-
C13 driver.

(X) replays every durable write / channel-db write / upstream message of the
    harness trace on the model (`LndModel.C13.Model`): each observed write must be
    the next micro-step of the model's main goroutine or of one of its launched
    resolvers and must produce exactly the observed durable log; restarts must agree
    with `restart`; at the end the model must be as stuck / as finished as the
    implementation.  Disagreement → `MISMATCH`.

(S) the property monitor works on the implementation's lines only: it compares each
    run with stops with the uninterrupted run of the same scenario (same_outcome),
    checks that the channel is marked resolved / StateFullyResolved is committed only
    when the log holds no unresolved contract (resolved_last) and that no write
    replaces a stored resolver by one with less progress or re-inserts a resolved one
    (no_progress_lost).  Violation → `MONITOR` with the stop window (`cause=`) and the
    observable consequence (`symptom=`).
-/
import LndModel.Prelude.Lines
import LndModel.C13.Model

open LndModel LndModel.Lines LndModel.C13

namespace LndModel.C13.Driver

/-! ### parsing -/

def dropN (s : String) (n : Nat) : String := String.ofList (s.toList.drop n)
def dropEndN (s : String) (n : Nat) : String := String.ofList (s.toList.dropLast |> fun l => if n ≤ 1 then l else (l.reverse.drop (n - 1)).reverse)

def labelKey (l : String) : Option Nat :=
  if l == "commit" then some 1000
  else if l == "anchor" then some 1001
  else if l == "breach" then some 1002
  else if l.startsWith "h" then (dropN l 1).toNat?
  else none

def kindOf (s : String) : Option RKind :=
  match s with
  | "oc" => some .oc | "to" => some .to | "ic" => some .ic | "su" => some .su
  | "cs" => some .cs | "br" => some .br | "an" => some .an
  | _ => none

/-- `C=[h10:oc:0:0,commit:cs:0:1]` → association list with labels. -/
def parseContracts (w : String) : List (String × Rec) :=
  let inner := dropEndN (dropN w 3) 1
  if inner.isEmpty then [] else
  (inner.splitOn ",").filterMap fun it =>
    match it.splitOn ":" with
    | [l, k, i, r] =>
      match kindOf k with
      | some kd => some (l, { kind := kd, incub := i == "1", resolved := r == "1" })
      | none => none
    | _ => none

def findPrefixed (ws : List String) (pre : String) : Option String :=
  ws.find? (·.startsWith pre)

structure Snap where
  st : Nat
  res : Bool
  cs : Bool
  contracts : List (String × Rec)
  deriving Inhabited

def parseSnap (ws : List String) : Snap :=
  { st := (kvNat? ws "st").getD 99
    res := kv? ws "res" == some "1"
    cs := kv? ws "cs" == some "1"
    contracts := (findPrefixed ws "C=[").map parseContracts |>.getD [] }

def snapLog (sn : Snap) : Option Log := do
  let st ← AState.ofCode sn.st
  let cs ← sn.contracts.mapM fun (l, r) => do
    let k ← labelKey l
    pure (k, r)
  pure { state := st, hasRes := sn.res, hasCS := sn.cs, contracts := cs }

def sortContracts (cs : List (Nat × Rec)) : List (Nat × Rec) :=
  (cs.toArray.qsort (fun a b => a.1 < b.1)).toList

def logEq (a b : Log) : Bool :=
  a.state == b.state && a.hasRes == b.hasRes && a.hasCS == b.hasCS &&
    sortContracts a.contracts == sortContracts b.contracts

/-- set brackets `msgs=[10:fail,11:settle]`. -/
def parseList (ws : List String) (key : String) : List String :=
  match findPrefixed ws (key ++ "=[") with
  | some w =>
    let inner := dropEndN (dropN w (key.length + 2)) 1
    if inner.isEmpty then [] else inner.splitOn ","
  | none => []

/-! ### final outcome of one run (implementation side) -/

structure Final where
  closed : Bool
  last : Nat
  contracts : List (String × Rec)
  msgs : List String
  reports : List String
  finals : List String
  panic : Bool := false
  deriving Inhabited

/-! ### driver state -/

structure St where
  -- bookkeeping
  lines : Nat := 0
  cases : Nat := 0
  evaluations : Nat := 0
  nontrivial : Nat := 0
  mismatches : Nat := 0
  monitorFails : Nat := 0
  samples : Nat := 0
  stats : List (String × Nat) := []
  -- per case
  caseId : String := ""
  scn : String := ""
  crashed : Bool := false
  spec : Spec := { close := .coop, closeHeight := 0, delta := 0, contracts := [],
                   dustFails := [], danglingFails := [], breachFails := [], finalFails := [] }
  h0 : Nat := 0
  sys : Sys := {}
  started : Bool := false
  modelOk : Bool := true
  pendMsgs : List (Nat × Bool) := []
  pendFinals : List Nat := []
  strayMsgs : List (Nat × Bool) := []
  -- monitor, per case
  prev : Snap := { st := 0, res := false, cs := false, contracts := [] }
  deleted : List String := []
  causes : List String := []          -- statistics only (which windows a case visited)
  /-- state of the log at the START of the current incarnation, its number -/
  epochNo : Nat := 0
  epochStartSt : Nat := 0
  /-- last START that found the log in StateContractClosed: incarnation number, labels already
      deleted before it -/
  ccEpoch : Option Nat := none
  ccDeleted : List String := []
  ccPresent : List String := []
  /-- labels whose stored record changed (or appeared / disappeared) since that START -/
  touchedSinceCC : List String := []
  /-- labels overwritten with less progress / re-inserted by the re-executed insert -/
  overwritten : List String := []
  /-- labels found `resolved` in the log at some START -/
  resolvedAtStart : List String := []
  /-- a START found StateDefault, not pending close, commit set already logged -/
  f2Window : Bool := false
  /-- chain height and nursery store as last printed by the implementation (monitor side) -/
  envHeight : Nat := 0
  prevNursery : List (Nat × NStage) := []
  nurseryAtStart : List (Nat × NStage) := []
  /-- labels whose crib entry was moved to kindergarten by THIS incarnation under a class height
      that was not in the future any more (`CribToKinder` has no late-registration rule), and that
      had no kindergarten entry when the incarnation started -/
  lateCrib : List String := []
  /-- state the log was in when THIS incarnation wiped it (`WipeHistory`) -/
  wipedFrom : Option Nat := none
  caseFails : Nat := 0
  sawWrite : Bool := false
  -- crash-free outcomes per scenario
  base : List (String × Final) := []
  deriving Inhabited

def bump (s : St) (k : String) (n : Nat := 1) : St :=
  match s.stats.find? (·.1 == k) with
  | some _ => { s with stats := s.stats.map fun p => if p.1 == k then (k, p.2 + n) else p }
  | none => { s with stats := s.stats ++ [(k, n)] }

def mismatch (s : St) (detail : String) : IO St := do
  if s.modelOk then
    IO.println s!"MISMATCH case={s.caseId} line={s.lines} {detail}"
    return { s with mismatches := s.mismatches + 1, modelOk := false }
  else return s

def causeStr (s : St) : String :=
  if s.causes.isEmpty then "none" else "+".intercalate s.causes

/-- `cause` names the recorded defect that explains THIS line (or `none`); it is decided per
    line from the trace, never inherited from other stops of the case. -/
def monitor (s : St) (clause symptom detail : String) (cause : String := "none") : IO St := do
  IO.println s!"MONITOR case={s.caseId} clause={clause} cause={cause} symptom={symptom} line={s.lines} {detail}"
  let s := bump s s!"fail_{clause}"
  return { s with monitorFails := s.monitorFails + 1, caseFails := s.caseFails + 1 }

def addCause (s : St) (c : String) : St :=
  if s.causes.contains c then s else { s with causes := s.causes ++ [c] }

/-! ### model side -/

/-- internal (unobservable) steps: `stateStep` returning the prior state, the resolution signal
    waking the main goroutine, a resolver goroutine dying, the anchor resolver's report. -/
def tauMain (sp : Spec) (s : Sys) : Option Sys :=
  match s.pc with
  | .adv => match advRes sp s with
    | .stay => mainStep sp s
    | _ => none
  | .idle =>
    if !eventReady s && s.mem == .waitingFull && s.log.contracts.isEmpty then mainStep sp s
    else if !eventReady s && s.mem == .default && !s.chan.pendingClose && nearAt sp s.facts.height then
      mainStep sp s
    else none
  | _ => none

def tauRes (sp : Spec) (s : Sys) : Option Sys :=
  s.active.findSome? fun r =>
    match resRes sp s.facts r with
    | .put _ rec _ => if !rec.kind.persisted then resStep sp s r.key else none
    | _ => none

def tauClosure (sp : Spec) : Nat → Sys → Sys
  | 0, s => s
  | n + 1, s =>
    match tauMain sp s with
    | some s' => tauClosure sp n s'
    | none =>
      match tauRes sp s with
      | some s' => tauClosure sp n s'
      | none => s

/-- let every resolver whose `Resolve` fails die (applied when the implementation went quiet). -/
def dieAll (sp : Spec) : Nat → Sys → Sys
  | 0, s => s
  | n + 1, s =>
    match s.active.findSome? (fun r => match resRes sp s.facts r with
        | .die => resStep sp s r.key
        | _ => none) with
    | some s' => dieAll sp n s'
    | none => s

def norm (s : St) : St := { s with sys := tauClosure s.spec 64 s.sys }

/-- is the next main step a channel-db write (`E` line)? -/
def mainIsE (sp : Spec) (s : Sys) : Option String :=
  match s.pc with
  | .evMark => some "markclosed"
  | .idle => if eventReady s && sp.close == .coop then some "markclosed" else none
  | .adv => match advRes sp s with
    | .markBroadcast => some "markbroadcast"
    | .notify => some "markfullyclosed"
    | _ => none
  | _ => none

/-- remove the first occurrence. -/
def removeOne [BEq α] (l : List α) (x : α) : Option (List α) :=
  if l.contains x then some (l.erase x) else none

def consumeMsgs (pend : List (Nat × Bool)) (need : List (Nat × Bool)) : Option (List (Nat × Bool)) :=
  need.foldlM (fun acc m => removeOne acc m) pend

def newMsgs (old new : Sys) : List (Nat × Bool) := new.msgs.drop old.msgs.length
def newFinals (old new : Sys) : List Nat := new.finals.drop old.finals.length

/-- apply a model step that was matched to an observed write, checking the effects that the
    implementation performed before it. -/
def applyStep (s : St) (s' : Sys) (what : String) : IO St := do
  let need := newMsgs s.sys s'
  let needF := newFinals s.sys s'
  let s ← match consumeMsgs s.pendMsgs need with
    | some rest => pure { s with pendMsgs := rest }
    | none => mismatch s s!"{what}: model delivers upstream {repr need} before this write, implementation delivered {repr s.pendMsgs}"
  let s ← if needF.all (s.pendFinals.contains ·) then
      pure { s with pendFinals := s.pendFinals.filter (fun x => !needF.contains x) }
    else mismatch s s!"{what}: model records final outcomes {needF}, implementation {s.pendFinals}"
  return norm { s with sys := s' }

def onWrite (s : St) (sn : Snap) : IO St := do
  if !s.modelOk then return s
  let some lg := snapLog sn | mismatch s "unparsable snapshot"
  let s := norm s
  let sp := s.spec
  -- main goroutine first
  let mainCand : Option Sys :=
    match mainIsE sp s.sys with
    | some _ => none
    | none => match mainStep sp s.sys with
      | some s' => if logEq s'.log lg then some s' else none
      | none => none
  match mainCand with
  | some s' => applyStep s s' "main write"
  | none =>
    let cand := s.sys.active.findSome? fun r =>
      match resRes sp s.sys.facts r with
      | .put _ rec _ =>
        if rec.kind.persisted then
          match resStep sp s.sys r.key with
          | some s' => if logEq s'.log lg then some (s', s!"resolver {r.key} checkpoint") else none
          | none => none
        else none
      | .del | .noop =>
        match resStep sp s.sys r.key with
        | some s' => if logEq s'.log lg then some (s', s!"resolver {r.key} resolve") else none
        | none => none
      | _ => none
    let cand : Option (Sys × String) := match cand with
      | some c => some c
      | none => s.sys.active.findSome? fun (r : RunRes) =>
        match resAltStep sp s.sys r.key with
        | some s' => if logEq s'.log lg then some (s', s!"resolver {r.key} swap (epoch case)") else none
        | none => none
    match cand with
    | some (s', what) => applyStep s s' what
    | none =>
      mismatch s s!"write not explained by the model: impl log st={sn.st} res={sn.res} cs={sn.cs} C={sn.contracts.map (·.1)}; model pc={repr s.sys.pc} mem={repr s.sys.mem} trig={repr s.sys.trig} log={repr s.sys.log} active={repr s.sys.active}"

/-- `N=[h15/2:pscl,h16/2:kndr@106]` → nursery entries. -/
def parseNursery (ws : List String) : Option (List (Nat × NStage)) :=
  match findPrefixed ws "N=[" with
  | none => none
  | some w =>
    let inner := dropEndN (dropN w 3) 1
    if inner.isEmpty then some [] else
    (inner.splitOn ",").mapM fun it =>
      match it.splitOn ":" with
      | [l, st] =>
        let base := if l.endsWith "/2" then dropEndN l 2 else l
        match labelKey base with
        | none => none
        | some k =>
          if st == "pscl" then some (k, NStage.preschool)
          else if st == "grad" then some (k, NStage.graduated)
          else if st == "crib" then some (k, NStage.crib)
          else if st.startsWith "kndr@" then (dropN st 5).toNat?.map fun c => (k, NStage.kinder c)
          else none
      | _ => none

def nurseryEq (a b : List (Nat × NStage)) : Bool :=
  a.length == b.length && a.all (b.contains ·) && b.all (a.contains ·)

/-- `U n ep=.. N=[..]`: a write of the utxo nursery store: either a resolver's `IncubateOutputs`
    or a step of the nursery itself. -/
def onNurseryWrite (s : St) (ws : List String) : IO St := do
  if !s.modelOk then return s
  let some want := parseNursery ws | mismatch s "unparsable nursery snapshot"
  let s := norm s
  let viaRes := s.sys.active.findSome? fun (r : RunRes) =>
    match resRes s.spec s.sys.facts r with
    | .incubate =>
      match resStep s.spec s.sys r.key with
      | some s' => if nurseryEq s'.nursery want then some (s', s!"resolver {r.key} IncubateOutputs") else none
      | none => none
    | _ => none
  let keys := (s.sys.nursery.map (·.1)).eraseDups
  let viaNur := (keys ++ [0]).findSome? fun k =>
    match nurseryStep s.spec s.sys k with
    | some s' => if nurseryEq s'.nursery want then some (s', s!"nursery step {k}") else none
    | none => none
  match viaRes <|> viaNur with
  | some (s', what) => applyStep s s' what
  | none =>
    -- a committed nursery-store transaction that changes nothing (duplicate confirmation
    -- registration, `RemoveChannel` / `closeAndRemoveIfMature` repeated at start)
    if nurseryEq s.sys.nursery want then return bump s "nursery_noop_writes" else
    mismatch s s!"nursery store write not explained by the model: impl {repr want}; model nursery={repr s.sys.nursery} height={s.sys.facts.height} confs={repr s.sys.facts.confs}"

/-- `E n ep=.. incubate <label>`: a resolver hands its output to the utxo nursery. -/
def onIncubate (s : St) (label : String) : IO St := do
  if !s.modelOk then return s
  let s := norm s
  match labelKey label with
  | none => mismatch s s!"unknown label {label}"
  | some k =>
    match s.sys.active.find? (·.key == k) with
    | some r =>
      match resRes s.spec s.sys.facts r with
      | .incubate =>
        match resStep s.spec s.sys k with
        | some s' => applyStep s s' s!"resolver {k} IncubateOutputs"
        | none => mismatch s "model resolver blocked"
      | _ => mismatch s s!"IncubateOutputs for {label} not expected by the model: {repr r}"
    | none => mismatch s s!"IncubateOutputs for {label}: no such active resolver in the model"

def onEnvWrite (s : St) (kind : String) : IO St := do
  if !s.modelOk then return s
  let s := norm s
  match mainIsE s.spec s.sys with
  | some k =>
    if k == kind then
      match mainStep s.spec s.sys with
      | some s' => applyStep s s' s!"channel-db write {kind}"
      | none => mismatch s "model main blocked"
    else mismatch s s!"channel-db write: impl={kind} model={k}"
  | none => mismatch s s!"channel-db write {kind} not expected by the model: pc={repr s.sys.pc} mem={repr s.sys.mem} trig={repr s.sys.trig}"

/-! ### monitor helpers -/

def progressOf (r : Rec) : Nat := r.progress

def isSubset (a b : List String) : Bool := a.all (b.contains ·)

def diff (a b : List String) : List String := a.filter (fun x => !b.contains x)

def idxOf (m : String) : String := (m.splitOn ":").headD ""

def contradictory (msgs : List String) : Bool :=
  msgs.any fun m => msgs.any fun n => m != n && idxOf m == idxOf n

def finalOf (ws : List String) (panic : Bool) (prev : Snap) : Final :=
  { closed := kv? ws "closed" == some "1"
    last := (kvNat? ws "last").getD 99
    contracts := (findPrefixed ws "C=[").map parseContracts |>.getD prev.contracts
    msgs := parseList ws "msgs"
    reports := parseList ws "reports"
    finals := parseList ws "final"
    panic := panic }

/-- label of the contract a report / message belongs to: `h10/2:2:3` → `h10`. -/
def reportLabel (r : String) : String :=
  let l := (r.splitOn ":").headD ""
  if l.endsWith "/2" then dropEndN l 2 else l

def htlcLabelOfIdx (sp : Spec) (m : String) : Option String :=
  match (idxOf m).toNat? with
  | some i => (sp.contracts.find? fun c => c.kind.isHtlc && c.idx == i).map fun c => s!"h{c.key}"
  | none => none

def isHtlcLabel (sp : Spec) (l : String) : Bool :=
  match labelKey l with
  | some k => sp.contracts.any fun c => c.key == k && c.kind.isHtlc
  | none => false

/-- F3c explains label `l`: the last restart found `StateContractClosed`, no htlc was inside the
    broadcast window at the closing height, `l` is an htlc contract that was not resolved before
    that restart and whose stored record nobody touched (or created) since; there was no later
    restart that would have relaunched it. -/
def skippedByChainTrigger (s : St) (l : String) : Bool :=
  match s.ccEpoch with
  | some e => !(nearAt s.spec s.spec.closeHeight) && isHtlcLabel s.spec l &&
              !s.touchedSinceCC.contains l && !s.ccDeleted.contains l &&
              -- never inserted at all, or stored but not launched and no later restart relaunched it
              (!s.ccPresent.contains l || e == s.epochNo)
  | none => false

def anySkipped (s : St) : Bool :=
  s.spec.contracts.any fun c => c.kind.isHtlc && skippedByChainTrigger s s!"h{c.key}"

/-- same_outcome: compare a run with stops against the uninterrupted run.  One MONITOR line per
    diverging item, each with the recorded defect that explains THAT item (or `none`). -/
def compareFinal (s : St) (b f : Final) : IO St := do
  let mut s := s
  if f.panic then
    let cause := if !s.overwritten.isEmpty then "reexec_overwrite" else "none"
    s ← monitor s "same_outcome" "panic" "the arbitrator process panics after the restart (and will again on every start)" cause
    return s
  if contradictory f.msgs then
    s ← monitor s "same_outcome" "contradictory_upstream" s!"upstream resolutions {f.msgs}"
  if b.closed && !f.closed then
    if f.contracts.isEmpty then
      s ← monitor s "same_outcome" "stuck:-" s!"uninterrupted run ends fully resolved; this run stays in state {f.last} with an empty log"
    for (l, r) in f.contracts do
      if r.resolved then
        let cause := if s.resolvedAtStart.contains l then "resolved_not_deleted" else "none"
        s ← monitor s "same_outcome" s!"stuck_resolved_record:{l}" s!"uninterrupted run ends fully resolved; this run stays in state {f.last}, resolver {l} is resolved but never deleted" cause
      else
        let cause :=
          if skippedByChainTrigger s l then "chaintrigger_restart"
          else if s.overwritten.contains l && r.kind == .oc then "reexec_overwrite"
          else if s.lateCrib.contains l && r.kind == .to && r.incub then "crib_late_kinder"
          else "none"
        s ← monitor s "same_outcome" s!"stuck:{l}" s!"uninterrupted run ends fully resolved; this run stays in state {f.last}, resolver {l} never resolves" cause
  else if b.closed != f.closed || b.last != f.last then
    s ← monitor s "same_outcome" "terminal_state" s!"terminal closed={f.closed} state={f.last}, uninterrupted closed={b.closed} state={b.last}"
  for m in diff b.msgs f.msgs do
    let cause :=
      match htlcLabelOfIdx s.spec m with
      | some l =>
        if skippedByChainTrigger s l then "chaintrigger_restart"
        else if s.overwritten.contains l then "reexec_overwrite"
        else "none"
      | none =>
        if s.f2Window && m.endsWith ":fail" &&
           (match (idxOf m).toNat? with | some i => s.spec.dustFails.contains i | none => false)
        then "default_with_commitset" else "none"
    s ← monitor s "same_outcome" s!"upstream_missing:{m}" s!"upstream resolution never delivered; delivered={f.msgs}" cause
  for m in diff f.msgs b.msgs do
    s ← monitor s "same_outcome" s!"upstream_extra:{m}" "upstream resolution not delivered by the uninterrupted run"
  if f.closed then
    for r in diff b.reports f.reports do
      let l := reportLabel r
      let cause :=
        if skippedByChainTrigger s l then "chaintrigger_restart"
        else if l == "anchor" && anySkipped s then "chaintrigger_restart"
        else "none"
      s ← monitor s "same_outcome" s!"unresolved:{r}" "channel marked fully resolved but this contract outcome of the uninterrupted run was never reached" cause
  for r in diff f.reports b.reports do
    s ← monitor s "same_outcome" s!"outcome_differs:{r}" "contract outcome not present in the uninterrupted run"
  for x in diff b.finals f.finals do
    let cause :=
      match (idxOf x).toNat? with
      | some i =>
        if s.spec.finalFails.contains i then
          (if s.ccEpoch.isSome && !(nearAt s.spec s.spec.closeHeight) then "chaintrigger_restart" else "none")
        else if skippedByChainTrigger s s!"h{i}" then "chaintrigger_restart" else "none"
      | none => "none"
    s ← monitor s "same_outcome" s!"final_missing:{x}" s!"final htlc outcome never recorded; recorded={f.finals}" cause
  for x in diff f.finals b.finals do
    s ← monitor s "same_outcome" s!"final_extra:{x}" "final htlc outcome not recorded by the uninterrupted run"
  return s

/-- resolved_last / no_progress_lost on one observed write. -/
def monitorWrite (s : St) (sn : Snap) (isFullyClosedMark : Bool) : IO St := do
  let mut s := s
  let prev := s.prev
  if isFullyClosedMark then
    if !prev.contracts.isEmpty then
      s ← monitor s "resolved_last_log" "marked_with_unresolved" s!"channel marked fully resolved while the log holds {prev.contracts.map (·.1)}"
    -- the state reached: a log this incarnation has already wiped counts with the state it had
    let reached := if prev.st == 0 && !prev.res then s.wipedFrom.getD prev.st else prev.st
    if reached != 4 then
      s ← monitor s "resolved_last_log" "marked_before_state" s!"channel marked fully resolved in state {reached}"
    -- the property's clause: every stateful contract of the channel was resolved (and deleted)
    for c in s.spec.contracts do
      if c.kind.persisted then
        let l := if c.kind.isHtlc then s!"h{c.key}" else
                 (if c.kind == .cs then "commit" else if c.kind == .br then "breach" else s!"k{c.key}")
        if !s.deleted.contains l then
          let cause := if skippedByChainTrigger s l then "chaintrigger_restart" else "none"
          s ← monitor s "resolved_last" s!"marked_without:{l}" s!"channel marked fully resolved, contract {l} was never resolved" cause
    return s
  if sn.st == 4 && prev.st != 4 then
    if !prev.contracts.isEmpty || !sn.contracts.isEmpty then
      s ← monitor s "resolved_last_log" "state_with_unresolved" s!"StateFullyResolved committed while the log holds {prev.contracts.map (·.1)}"
  if sn.st == 0 && !sn.res && prev.st != 0 then
    -- WipeHistory
    return { s with prev := sn, wipedFrom := some prev.st }
  -- the write is the re-executed InsertUnresolvedContracts of an incarnation that found the log in
  -- StateContractClosed: state still ContractClosed before and after, first insert of the incarnation
  let reexec := s.epochNo > 1 && s.epochStartSt == 2 && prev.st == 2 && sn.st == 2 &&
                s.ccEpoch == some s.epochNo
  let mut touched : List String := []
  for (l, r) in sn.contracts do
    match prev.contracts.find? (·.1 == l) with
    | some (_, o) =>
      if r != o then touched := l :: touched
      if progressOf r < progressOf o then
        let cause := if reexec then "reexec_overwrite" else "none"
        if reexec then s := { s with overwritten := l :: s.overwritten }
        s ← monitor s "no_progress_lost" s!"regress:{l}" s!"stored resolver {l} replaced: progress {progressOf o} -> {progressOf r}" cause
    | none =>
      touched := l :: touched
      if s.deleted.contains l then
        let cause := if reexec then "reexec_overwrite" else "none"
        if reexec then s := { s with overwritten := l :: s.overwritten }
        s ← monitor s "no_progress_lost" s!"reinserted:{l}" s!"resolver {l} was resolved and deleted before, and is inserted again" cause
  let gone := (prev.contracts.map (·.1)).filter fun l => !(sn.contracts.any (·.1 == l))
  -- a resolver may only disappear once it is resolved
  for l in gone do
    match prev.contracts.find? (·.1 == l) with
    | some (_, o) =>
      if !o.resolved then
        s ← monitor s "no_progress_lost" s!"dropped:{l}" s!"unresolved resolver {l} removed from the log"
    | none => pure ()
  return { s with prev := sn, deleted := s.deleted ++ gone,
                  touchedSinceCC := s.touchedSinceCC ++ touched ++ gone }

/-! ### line dispatch -/

def specContract (ws : List String) : Option Contract := do
  let l ← kv? ws "label"
  let k ← labelKey l
  let kd ← (kv? ws "kind").bind kindOf
  pure { key := k, kind := kd, twoStage := kv? ws "two" == some "1",
         idx := (kvNat? ws "idx").getD 0, expiry := (kvNat? ws "expiry").getD 0,
         legacy := kv? ws "legacy" == some "1" }

def closeKindOf (s : String) : CloseKind :=
  match s with
  | "local" => .localForce | "remote" => .remoteForce | "breach" => .breach | _ => .coop

def endCase (s : St) : St :=
  let s := if s.caseFails == 0 && s.started then bump s "cases_ok" else s
  s

def step (s : St) (line : String) : IO St := do
  let s := { s with lines := s.lines + 1 }
  let ws := words line
  match ws with
  | "FACT" :: rest =>
    let chk (s : St) (key : String) (v : Nat) : IO St :=
      if kvNat? rest key == some v || (kv? rest key).isNone then pure s
      else do
        IO.println s!"MISMATCH case=facts fact {key}: model={v} impl={(kv? rest key).getD "?"}"
        pure { s with mismatches := s.mismatches + 1 }
    let s ← chk s "stDefault" AState.default.code
    let s ← chk s "stBroadcast" AState.broadcastCommit.code
    let s ← chk s "stContractClosed" AState.contractClosed.code
    let s ← chk s "stWaiting" AState.waitingFull.code
    let s ← chk s "stFully" AState.fullyResolved.code
    chk s "stCommitBroadcasted" AState.commitBroadcasted.code
  | "CASE" :: id :: rest =>
    let crashed := (kv? rest "crash").getD "none" != "none"
    let s := { s with caseId := id, scn := (kv? rest "scn").getD "?", crashed := crashed,
                      cases := s.cases + 1, started := false, modelOk := true,
                      spec := { close := .coop, closeHeight := 0, delta := 0, contracts := [],
                                dustFails := [], danglingFails := [], breachFails := [], finalFails := [] },
                      h0 := (kvNat? rest "h0").getD 0,
                      sys := {}, pendMsgs := [], pendFinals := [], strayMsgs := [],
                      prev := { st := 0, res := false, cs := false, contracts := [] },
                      deleted := [], causes := [], caseFails := 0, sawWrite := false,
                      epochNo := 0, epochStartSt := 0, ccEpoch := none, ccDeleted := [], ccPresent := [],
                      touchedSinceCC := [], overwritten := [], resolvedAtStart := [],
                      f2Window := false, envHeight := (kvNat? rest "h0").getD 0, prevNursery := [],
                      nurseryAtStart := [], lateCrib := [], wipedFrom := none }
    if s.samples < 4 && crashed then
      IO.println s!"SAMPLE {line}"
      return { s with samples := s.samples + 1 }
    return s
  | "SPEC" :: "c" :: rest =>
    match specContract rest with
    | some c => return { s with spec := { s.spec with contracts := s.spec.contracts ++ [c] } }
    | none => mismatch s "bad SPEC line"
  | "SPEC" :: "dust" :: rest =>
    return { s with spec := { s.spec with dustFails := s.spec.dustFails ++ [(kvNat? rest "idx").getD 0] } }
  | "SPEC" :: "dangling" :: rest =>
    return { s with spec := { s.spec with danglingFails := s.spec.danglingFails ++ [(kvNat? rest "idx").getD 0] } }
  | "SPEC" :: "breachfail" :: rest =>
    return { s with spec := { s.spec with breachFails := s.spec.breachFails ++ [(kvNat? rest "idx").getD 0] } }
  | "SPEC" :: "final" :: rest =>
    return { s with spec := { s.spec with finalFails := s.spec.finalFails ++ [(kvNat? rest "idx").getD 0] } }
  | "SPEC" :: "close" :: rest =>
    let s := { s with spec := { s.spec with close := closeKindOf ((kv? rest "kind").getD "coop"),
                                            closeHeight := (kvNat? rest "height").getD 0,
                                            delta := (kvNat? rest "delta").getD 0 } }
    -- the resolver kind of an outgoing htlc follows from its expiry and the closing height
    let bad := s.spec.contracts.filter fun c =>
      c.kind.isOut && (c.kind == .to) != decide (s.spec.closeHeight + s.spec.delta ≥ c.expiry)
    if bad.isEmpty then return s
    else mismatch s s!"resolver kind of {bad.map (·.key)} does not follow from expiry/closing height"
  | "START" :: rest =>
    let ep := (kvNat? rest "ep").getD 0
    let none_ := rest.contains "none"
    let stc := (kvNat? rest "st").getD 0
    let pending := kv? rest "pending" == some "true"
    -- monitor: stop windows, from the implementation's own durable state
    let mut s := s
    s := { s with epochNo := ep, epochStartSt := stc, nurseryAtStart := s.prevNursery, lateCrib := [], wipedFrom := none }
    if ep > 1 then
      if stc == 2 && !none_ then
        s := { s with ccEpoch := some ep, ccDeleted := s.deleted, touchedSinceCC := [],
                      ccPresent := s.prev.contracts.map (·.1) }
      let res := (s.prev.contracts.filter (·.2.resolved)).map (·.1)
      s := { s with resolvedAtStart := s.resolvedAtStart ++ res }
      if stc == 0 && !pending && s.prev.cs && !none_ then s := { s with f2Window := true }
      if stc == 2 then
        s := addCause s "restart_in_contract_closed"
        let progressed := s.prev.contracts.any (fun (l, r) =>
            r.incub || r.resolved ||
            (match labelKey l >>= s.spec.find? with
             | some c => c.kind != r.kind
             | none => false)) || !s.deleted.isEmpty
        if progressed then s := addCause s "resolvers_progressed"
      if s.prev.contracts.any (·.2.resolved) then s := addCause s "resolved_not_deleted"
      if stc == 0 && !pending && s.prev.cs && !none_ then s := addCause s "default_with_commitset"
    -- model
    let sys' := if ep ≤ 1 then ({ facts := { height := s.h0 }, trigH := s.h0 } : Sys) else restart s.sys
    s := { s with sys := sys', started := true, pendMsgs := [], pendFinals := [],
                  strayMsgs := s.strayMsgs ++ s.pendMsgs }
    s := bump s "starts"
    if !s.modelOk then return s
    if none_ then
      if !s.sys.chan.fullyClosed then
        s ← mismatch s "impl starts no arbitrator, model channel not fully closed"
      return s
    else
      if s.sys.log.state.code != stc then
        s ← mismatch s s!"start state: model={s.sys.log.state.code} impl={stc}"
      if s.sys.chan.pendingClose != pending then
        s ← mismatch s s!"pending close: model={s.sys.chan.pendingClose} impl={pending}"
      return norm s
  | "ENV" :: "height" :: h :: _ =>
    let s := { s with envHeight := max s.envHeight (h.toNat?.getD 0) }
    return norm { s with sys := { s.sys with facts := s.sys.facts.add (.height (h.toNat?.getD 0)) } }
  | "ENV" :: "closeconfirmed" :: _ =>
    return norm { s with sys := { s.sys with facts := s.sys.facts.add .close } }
  | "ENV" :: "breachdone" :: _ =>
    return norm { s with sys := { s.sys with facts := s.sys.facts.add .breachDone } }
  | "ENV" :: "forceclose" :: _ =>
    let s := norm s
    match C13.step s.spec s.sys .forceClose with
    | some s' => return norm { s with sys := s' }
    | none => return s
  | "ENV" :: _ => return s
  | "X" :: "spend" :: l :: _ =>
    let (base, second) := if l.endsWith "/2" then (dropEndN l 2, true) else (l, false)
    let by_ : SpendKind := if ws.contains "ours=true" then .ours else .remote
    match labelKey base with
    | some k =>
      let f := if second then Fact.spend2 k else Fact.spend1 k by_
      return norm { s with sys := { s.sys with facts := s.sys.facts.add f } }
    | none => mismatch s s!"unknown label {l}"
  | "X" :: "preimage" :: l :: _ =>
    match labelKey l with
    | some k => return norm { s with sys := { s.sys with facts := s.sys.facts.add (.preimage k) } }
    | none => mismatch s s!"unknown label {l}"
  | "K" :: _ => return bump s "effect_stop_points"
  | "U" :: rest =>
    let s := bump { s with evaluations := s.evaluations + 1 } "nursery_store_writes"
    -- monitor side: a crib -> kindergarten move filed under a height that is already past
    let s := match parseNursery rest with
      | some now =>
        let late := now.filterMap fun (k, st) =>
          match st with
          | .kinder c =>
            if c ≤ s.envHeight && s.prevNursery.contains (k, .crib) && !now.contains (k, .crib) &&
               !(s.nurseryAtStart.any fun p => p.1 == k && (match p.2 with | .kinder _ => true | _ => false))
            then some s!"h{k}" else none
          | _ => none
        let s := if late.isEmpty then s else bump s "crib_late_kinder_moves" late.length
        { s with prevNursery := now, lateCrib := s.lateCrib ++ late.filter (!s.lateCrib.contains ·) }
      | none => s
    onNurseryWrite s rest
  | "X" :: "conf" :: l :: rest =>
    match labelKey l with
    | some k => return norm { s with sys := { s.sys with facts := s.sys.facts.add (.conf k ((kvNat? rest "height").getD 0)) } }
    | none => mismatch s s!"unknown label {l}"
  | "DOWN" :: _ => return bump s "downtimes"
  | "M" :: rest =>
    let idx := (kvNat? rest "idx").getD 0
    let settle := rest.contains "settle"
    let s := { s with evaluations := s.evaluations + 1 }
    -- every upstream resolution must be one the chain dictates (model side)
    let okMsg := (!settle && (listFails s.spec).contains idx) ||
                 s.spec.contracts.any (fun c => c.kind.isOut && c.idx == idx)
    let s ← if okMsg then pure s
            else mismatch s s!"upstream resolution idx={idx} settle={settle} for no htlc of the model's spec"
    return { s with pendMsgs := s.pendMsgs ++ [(idx, settle)] }
  | "F" :: rest =>
    return { s with pendFinals := s.pendFinals ++ [(kvNat? rest "idx").getD 0] }
  | "W" :: rest =>
    let sn := parseSnap rest
    let s := { s with evaluations := s.evaluations + 1, sawWrite := true }
    let s ← monitorWrite s sn false
    onWrite s sn
  | "E" :: _ :: _ :: "incubate" :: l :: _ =>
    onIncubate { s with evaluations := s.evaluations + 1 } l
  | "E" :: _ :: _ :: kind :: _ =>
    let s := { s with evaluations := s.evaluations + 1 }
    let s ← if kind == "markfullyclosed" then monitorWrite s s.prev true else pure s
    onEnvWrite s kind
  | "CRASH" :: _ => return bump s "stops"
  | "PANIC" :: _ =>
    -- model: some resolver's goroutine must have died
    let s := norm s
    let s := { s with sys := dieAll s.spec 16 s.sys }
    let s ← if s.modelOk && !(s.sys.active.any (·.pc == .dead)) then
        mismatch s "implementation panics, model has no dying resolver" else pure s
    let s := bump s "panics"
    let f : Final := { closed := false, last := s.prev.st, contracts := s.prev.contracts,
                       msgs := [], reports := [], finals := [], panic := true }
    match s.base.find? (·.1 == s.scn) with
    | some (_, b) =>
      let s := { s with nontrivial := s.nontrivial + 1 }
      compareFinal s b f
    | none => return s
  | "FINAL" :: rest =>
    let f := finalOf rest false s.prev
    let s := { s with evaluations := s.evaluations + 1 }
    -- (X) the model must be exactly as far
    let s := norm s
    let s := { s with sys := dieAll s.spec 16 s.sys }
    let mut s := s
    if s.modelOk then
      let sn := parseSnap rest
      match snapLog sn with
      | some lg =>
        if !logEq lg s.sys.log then
          s ← mismatch s s!"final log: impl st={sn.st} C={sn.contracts.map (·.1)} model={repr s.sys.log}"
      | none => s ← mismatch s "unparsable final snapshot"
      if f.closed != s.sys.chan.fullyClosed then
        s ← mismatch s s!"fully closed: impl={f.closed} model={s.sys.chan.fullyClosed}"
      -- nothing may be enabled in the model (the implementation went quiet)
      let mainEn := (mainStep s.spec s.sys).isSome
      let resEn := s.sys.active.any fun r => (resStep s.spec s.sys r.key).isSome
      if mainEn || resEn then
        s ← mismatch s s!"implementation is quiet but the model can still step: pc={repr s.sys.pc} mem={repr s.sys.mem} active={repr s.sys.active}"
      -- delivered upstream resolutions: model ghost + effects whose write was lost ⊆ impl ⊆ expected
      let ms := f.msgs
      let enc (m : Nat × Bool) : String := s!"{m.1}:{if m.2 then "settle" else "fail"}"
      if !(s.sys.msgs.all fun m => ms.contains (enc m)) then
        s ← mismatch s s!"model delivered {repr s.sys.msgs}, impl set {ms}"
    -- (S)
    if !s.crashed then
      s := { s with base := s.base ++ [(s.scn, f)] }
      s := bump s "uninterrupted_runs"
      if !f.closed then
        s ← monitor s "same_outcome" "uninterrupted_not_resolved" "the uninterrupted run does not reach the fully resolved state"
      if contradictory f.msgs then
        s ← monitor s "same_outcome" "contradictory_upstream" s!"{f.msgs}"
    else
      match s.base.find? (·.1 == s.scn) with
      | some (_, b) =>
        s := { s with nontrivial := s.nontrivial + 1 }
        s := bump s s!"windows_{causeStr s}"
        s ← compareFinal s b f
      | none => s ← mismatch s "no uninterrupted run for this scenario"
    return s
  | ["END"] => return endCase s
  | _ => return s

def main (_args : List String) : IO UInt32 := do
  let s ← foldStdin step ({} : St)
  IO.println s!"STAT evaluations={s.evaluations}"
  IO.println s!"STAT nontrivial={s.nontrivial}"
  IO.println s!"STAT cases={s.cases}"
  IO.println s!"STAT mismatches={s.mismatches}"
  IO.println s!"STAT monitor_failures={s.monitorFails}"
  for (k, v) in s.stats do
    IO.println s!"STAT {k}={v}"
  if s.samples == 0 then IO.println "SAMPLE (no case with a stop)"
  return 0

end LndModel.C13.Driver

def main (args : List String) : IO UInt32 := LndModel.C13.Driver.main args
