/-
C13 — helper lemmas: reachability under a schedule restriction, the inductive
invariants used by Props.lean.
-/
import LndModel.C13.Model

namespace LndModel.C13

/-- states reachable from `init` by enabled actions that the schedule predicate `H` allows. -/
inductive Reach (sp : Spec) (H : Sys → Action → Prop) : Sys → Prop
  | init : Reach sp H init
  | step {s s' : Sys} {a : Action} : Reach sp H s → H s a → step sp s a = some s' → Reach sp H s'

/-- no restriction: every interleaving, stops at every instant, any number of them. -/
def anySchedule : Sys → Action → Prop := fun _ _ => True

theorem Reach.mono {sp : Spec} {H H' : Sys → Action → Prop} (h : ∀ s a, H s a → H' s a)
    {s : Sys} (r : Reach sp H s) : Reach sp H' s := by
  induction r with
  | init => exact .init
  | step _ ha hs ih => exact .step ih (h _ _ ha) hs

/-- a step of the utxo nursery only changes the nursery store. -/
theorem nurseryStep_only {sp : Spec} {s s' : Sys} {k : Nat} (h : nurseryStep sp s k = some s') :
    ∃ n, s' = { s with nursery := n } := by
  unfold nurseryStep at h
  split at h
  · split at h
    · cases h; exact ⟨_, rfl⟩
    · cases h
  · split at h
    · split at h
      · cases h; exact ⟨_, rfl⟩
      · cases h
    · split at h
      · split at h
        · cases h; exact ⟨_, rfl⟩
        · cases h
      · split at h
        · cases h; exact ⟨_, rfl⟩
        · cases h

/-! ### every upstream resolution is justified by an observed chain fact -/

/-- a delivered resolution `(idx, settle)` is justified when it is one of the arbitrator's own
    fails (dust / dangling / breach), or when the htlc output of a contract with that index was
    OBSERVED spent: by the remote party (preimage revealed → settle) or by us (timeout → fail). -/
def Justified (sp : Spec) (f : Facts) (m : Nat × Bool) : Prop :=
  (m.2 = false ∧ m.1 ∈ listFails sp) ∨
  ∃ c ∈ sp.contracts, c.kind.isOut = true ∧ c.idx = m.1 ∧
    f.spendOf c.key = some (if m.2 then SpendKind.remote else SpendKind.ours)

def MsgsOk (sp : Spec) (s : Sys) : Prop := ∀ m ∈ s.msgs, Justified sp s.facts m

theorem failMsgs_dust_sub (sp : Spec) (f : Facts) : ∀ m ∈ failMsgs sp.dustFails, Justified sp f m := by
  intro m hm
  simp only [failMsgs, List.mem_map] at hm
  obtain ⟨i, hi, rfl⟩ := hm
  left; exact ⟨rfl, by simp [listFails, hi]⟩

theorem failMsgs_dangling_sub (sp : Spec) (f : Facts) :
    ∀ m ∈ failMsgs sp.danglingFails, Justified sp f m := by
  intro m hm
  simp only [failMsgs, List.mem_map] at hm
  obtain ⟨i, hi, rfl⟩ := hm
  left; exact ⟨rfl, by simp [listFails, hi]⟩

theorem failMsgs_breach_sub (sp : Spec) (f : Facts) :
    ∀ m ∈ failMsgs sp.breachFails, Justified sp f m := by
  intro m hm
  simp only [failMsgs, List.mem_map] at hm
  obtain ⟨i, hi, rfl⟩ := hm
  left; exact ⟨rfl, by simp [listFails, hi]⟩

theorem find?_mem {sp : Spec} {k : Nat} {c : Contract} (h : sp.find? k = some c) :
    c ∈ sp.contracts := by
  unfold Spec.find? at h
  exact List.mem_of_find?_eq_some h

theorem find?_spec_key {sp : Spec} {k : Nat} {c : Contract} (h : sp.find? k = some c) :
    c.key = k := by
  unfold Spec.find? at h
  have := List.find?_some h
  simpa using this

/-- an output is spent once: later facts never change an observed spend. -/
theorem spendOf_add {f : Facts} {k : Nat} {x : SpendKind} (a : Fact) (h : f.spendOf k = some x) :
    (f.add a).spendOf k = some x := by
  cases a with
  | spend1 k' b =>
    simp only [Facts.add]
    split
    · exact h
    · simp only [Facts.spendOf] at h ⊢
      rw [List.find?_append]
      cases hf : f.spent1.find? (·.1 == k) with
      | none => simp [hf] at h
      | some p => simpa [hf] using h
  | _ => simpa [Facts.add, Facts.spendOf] using h

theorem justified_add {sp : Spec} {f : Facts} {m : Nat × Bool} (a : Fact) (h : Justified sp f m) :
    Justified sp (f.add a) m := by
  rcases h with h | ⟨c, hc, ho, hi, hs⟩
  · left; exact h
  · right; exact ⟨c, hc, ho, hi, spendOf_add a hs⟩

theorem dustIf_sub (sp : Spec) (f : Facts) (b : Bool) : ∀ m ∈ dustIf sp b, Justified sp f m := by
  intro m hm
  unfold dustIf at hm
  split at hm
  · exact failMsgs_dust_sub sp f m hm
  · simp at hm

theorem leaveDefault_commit {hr : Bool} {t : Trigger} {d ms : List (Nat × Bool)} {n : AState}
    (h : leaveDefault hr t d = .commit ms n) : ms = d := by
  cases t <;> simp [leaveDefault] at h <;> exact h.1.symm

theorem leaveDefault_not_insert {hr : Bool} {t : Trigger} {d ms : List (Nat × Bool)} {fs : List Nat} :
    leaveDefault hr t d ≠ .insert ms fs := by
  cases t <;> simp [leaveDefault]

theorem leaveOnClose_commit {hr : Bool} {t : Trigger} {o : AdvRes} {ms : List (Nat × Bool)} {n : AState}
    (ho : ∀ ms n, o ≠ .commit ms n) (h : leaveOnClose hr t o = .commit ms n) : ms = [] := by
  cases t <;> simp [leaveOnClose] at h
  · exact absurd h (ho _ _)
  · exact absurd h (ho _ _)
  all_goals exact h.1

theorem leaveOnClose_not_insert {hr : Bool} {t : Trigger} {o : AdvRes} {ms : List (Nat × Bool)} {fs : List Nat}
    (ho : o ≠ .insert ms fs) : leaveOnClose hr t o ≠ .insert ms fs := by
  cases t <;> simp [leaveOnClose] <;> exact ho

/-- messages of one `stateStep`: only the arbitrator's own dust fails. -/
theorem advRes_commit_msgs {sp : Spec} {s : Sys} {ms : List (Nat × Bool)} {n : AState}
    (h : advRes sp s = .commit ms n) : ms = [] ∨ ms = failMsgs sp.dustFails := by
  unfold advRes at h
  split at h
  · unfold defaultRes at h
    split at h
    · split at h
      · cases h
      · rw [leaveDefault_commit h]; unfold dustIf; split <;> simp
    · split at h
      · cases h
      · rw [leaveDefault_commit h]; unfold dustIf; split <;> simp
  · left; exact leaveOnClose_commit (by intro _ _ hh; cases hh) h
  · left; exact leaveOnClose_commit (by intro _ _ hh; cases hh) h
  · unfold closedRes at h
    split at h
    · cases h
    · split at h
      · cases h; left; rfl
      · split at h <;> cases h
  · split at h
    · cases h; left; rfl
    · cases h
  · cases h

theorem advRes_insert_msgs {sp : Spec} {s : Sys} {ms : List (Nat × Bool)} {fs : List Nat}
    (h : advRes sp s = .insert ms fs) :
    ms = failMsgs sp.breachFails ∨ ms = failMsgs sp.danglingFails := by
  unfold advRes at h
  split at h
  · unfold defaultRes at h
    split at h
    · split at h
      · cases h
      · exact absurd h leaveDefault_not_insert
    · split at h
      · cases h
      · exact absurd h leaveDefault_not_insert
  · exact absurd h (leaveOnClose_not_insert (by intro hh; cases hh))
  · exact absurd h (leaveOnClose_not_insert (by intro hh; cases hh))
  · unfold closedRes at h
    split at h
    · cases h
    · split at h
      · cases h
      · split at h
        · cases h; left; rfl
        · cases h; right; rfl
  · split at h <;> cases h
  · cases h

/-- what a resolver delivers upstream is what it observed on chain. -/
theorem resRes_put_msgs {sp : Spec} {f : Facts} {r : RunRes} {ms : List (Nat × Bool)} {rec : Rec} {pc : RPc}
    (h : resRes sp f r = .put ms rec pc) :
    ms = [] ∨ ∃ c b, sp.find? r.key = some c ∧ ms = c.msg b ∧
      f.spendOf r.key = some (if b then SpendKind.remote else SpendKind.ours) := by
  obtain ⟨key, ⟨kind, incub, resolved⟩, rpc, handed⟩ := r
  unfold resRes at h
  simp only at h
  repeat' split at h
  all_goals first
    | (cases h; done)
    | (cases h; left; rfl)
    | (cases h; right; exact ⟨_, true, ‹_›, rfl, by simp_all⟩)
    | (cases h; right; exact ⟨_, false, ‹_›, rfl, by simp_all⟩)

theorem resAlt_put_msgs {sp : Spec} {f : Facts} {r : RunRes} {ms : List (Nat × Bool)} {rec : Rec} {pc : RPc}
    (h : resAlt sp f r = .put ms rec pc) : ms = [] := by
  unfold resAlt at h
  split at h
  · split at h
    · cases h; rfl
    · cases h
  · cases h

theorem msg_justified {sp : Spec} {f : Facts} {c : Contract} {b : Bool} (hc : c ∈ sp.contracts)
    (hs : f.spendOf c.key = some (if b then SpendKind.remote else SpendKind.ours)) :
    ∀ m ∈ c.msg b, Justified sp f m := by
  intro m hm
  unfold Contract.msg at hm
  split at hm
  · rename_i ho
    simp at hm; subst hm
    right; exact ⟨c, hc, ho, rfl, hs⟩
  · simp at hm

theorem msgsOk_append {sp : Spec} {s : Sys} {ms : List (Nat × Bool)} (h : MsgsOk sp s)
    (hm : ∀ m ∈ ms, Justified sp s.facts m) : ∀ m ∈ s.msgs ++ ms, Justified sp s.facts m := by
  intro m hmem
  rcases List.mem_append.mp hmem with h1 | h1
  · exact h m h1
  · exact hm m h1

theorem mainStep_msgsOk {sp : Spec} {s s' : Sys} (h : MsgsOk sp s) (hs : mainStep sp s = some s') :
    MsgsOk sp s' := by
  unfold mainStep at hs
  split at hs
  · -- idle
    split at hs
    · split at hs <;> (cases hs; exact h)
    · split at hs
      · cases hs; exact h
      · split at hs
        · cases hs; exact h
        · cases hs
  · cases hs; exact h
  · cases hs; exact h
  · -- adv
    split at hs
    · split at hs <;> (cases hs; exact h)
    · rename_i ms next hadv
      cases hs
      refine msgsOk_append h ?_
      rcases advRes_commit_msgs hadv with rfl | rfl
      · intro m hm; simp at hm
      · exact failMsgs_dust_sub sp _
    · cases hs; exact h
    · rename_i ms fs hadv
      cases hs
      refine msgsOk_append h ?_
      rcases advRes_insert_msgs hadv with rfl | rfl
      · exact failMsgs_breach_sub sp _
      · exact failMsgs_dangling_sub sp _
    · cases hs; exact h
  · cases hs; exact h
  · cases hs; exact h
  · cases hs; exact h
  · cases hs

theorem resApply_msgsOk {sp : Spec} {s s' : Sys} {k : Nat} {r : RunRes} {rr : ResRes}
    (h : MsgsOk sp s) (hrr : ∀ ms rec pc, rr = .put ms rec pc → ∀ m ∈ ms, Justified sp s.facts m)
    (hs : resApply s k r rr = some s') : MsgsOk sp s' := by
  unfold resApply at hs
  split at hs
  · cases hs
  · cases hs; exact h
  · cases hs; exact h
  · rename_i ms rec pc
    cases hs
    exact msgsOk_append h (hrr ms rec pc rfl)
  · cases hs; exact h
  · cases hs; exact h

theorem step_msgsOk {sp : Spec} {s s' : Sys} {a : Action} (h : MsgsOk sp s)
    (hs : step sp s a = some s') : MsgsOk sp s' := by
  cases a with
  | main => exact mainStep_msgsOk h hs
  | res k =>
    simp only [step, resStep] at hs
    split at hs
    · cases hs
    · rename_i r hf
      refine resApply_msgsOk h (fun ms rec pc he => ?_) hs
      rcases resRes_put_msgs he with rfl | ⟨c, b, hc, rfl, hsp⟩
      · intro m hm; simp at hm
      · have hk := find?_spec_key hc
        exact msg_justified (find?_mem hc) (by rw [hk]; exact hsp)
  | resAlt k =>
    simp only [step, resAltStep] at hs
    split at hs
    · cases hs
    · refine resApply_msgsOk h (fun ms rec pc he => ?_) hs
      rw [resAlt_put_msgs he]; intro m hm; simp at hm
  | crash => simp only [step, restart] at hs; cases hs; exact h
  | nursery k =>
    simp only [step] at hs
    obtain ⟨n, rfl⟩ := nurseryStep_only hs
    exact h
  | fact f =>
    simp only [step] at hs; cases hs
    intro m hm; exact justified_add f (h m hm)
  | forceClose =>
    simp only [step] at hs
    split at hs
    · cases hs; exact h
    · cases hs

theorem reach_msgsOk {sp : Spec} {H : Sys → Action → Prop} {s : Sys} (r : Reach sp H s) :
    MsgsOk sp s := by
  induction r with
  | init => intro m hm; simp [init] at hm
  | step _ _ hs ih => exact step_msgsOk ih hs

end LndModel.C13

namespace LndModel.C13

/-! ### the durable-state invariant behind `resolved_last` -/

def AState.preClosed : AState → Bool
  | .default | .broadcastCommit | .commitBroadcasted => true
  | _ => false

structure Inv (s : Sys) : Prop where
  memEq : s.pc ≠ .finished → s.mem = s.log.state
  pre : s.log.state.preClosed = true → s.log.contracts = [] ∧ s.active = []
  act : ∀ r ∈ s.active, r.rc.kind.persisted = true → (r.pc = .running ∨ r.pc = .needDelete) →
          r.key ∈ s.log.keys
  done : (s.log.state = .fullyResolved ∨ s.chan.fullyClosed = true) → s.log.contracts = []
  closedPc : s.chan.fullyClosed = true → (s.pc = .wipe ∨ s.pc = .finished)
  bc : s.pc = .bcPublish → s.log.state = .broadcastCommit

theorem inv_init : Inv init := by
  refine ⟨?_, ?_, ?_, ?_, ?_, ?_⟩ <;> simp [init]

/-! list facts -/

theorem putRec_keys_sub (cs : List (Nat × Rec)) (k : Nat) (r : Rec) :
    ∀ x ∈ cs.map (·.1), x ∈ (putRec cs k r).map (·.1) := by
  intro x hx
  unfold putRec
  split
  · simp only [List.map_map, List.mem_map] at hx ⊢
    obtain ⟨p, hp, rfl⟩ := hx
    refine ⟨p, hp, ?_⟩
    simp only [Function.comp]
    split
    · rename_i h; simp at h; exact h.symm
    · rfl
  · simp only [List.map_append, List.mem_append]; left; exact hx

theorem putRec_key_mem (cs : List (Nat × Rec)) (k : Nat) (r : Rec) :
    k ∈ (putRec cs k r).map (·.1) := by
  unfold putRec
  split
  · rename_i h
    simp only [List.any_eq_true] at h
    obtain ⟨p, hp, hk⟩ := h
    simp only [List.map_map, List.mem_map]
    refine ⟨p, hp, ?_⟩
    simp only [Function.comp]
    rw [if_pos hk]
  · simp

theorem putRec_ne_nil (cs : List (Nat × Rec)) (k : Nat) (r : Rec) : putRec cs k r ≠ [] := by
  intro h
  have := putRec_key_mem cs k r
  rw [h] at this
  simp at this

theorem putAll_keys_sub (new : List (Nat × Rec)) : ∀ (cs : List (Nat × Rec)),
    ∀ x ∈ cs.map (·.1), x ∈ (putAll cs new).map (·.1) := by
  induction new with
  | nil => intro cs x hx; simpa [putAll] using hx
  | cons p rest ih =>
    intro cs x hx
    obtain ⟨k, r⟩ := p
    simp only [putAll]
    exact ih _ x (putRec_keys_sub cs k r x hx)

theorem putAll_new_keys (new : List (Nat × Rec)) : ∀ (cs : List (Nat × Rec)),
    ∀ x ∈ new.map (·.1), x ∈ (putAll cs new).map (·.1) := by
  induction new with
  | nil => intro cs x hx; simp at hx
  | cons p rest ih =>
    intro cs x hx
    obtain ⟨k, r⟩ := p
    simp only [putAll]
    simp only [List.map_cons, List.mem_cons] at hx
    rcases hx with rfl | hx
    · exact putAll_keys_sub rest _ _ (putRec_key_mem cs _ r)
    · exact ih _ x hx

theorem delRec_keys (cs : List (Nat × Rec)) (k x : Nat) (hx : x ∈ cs.map (·.1)) (hne : x ≠ k) :
    x ∈ (delRec cs k).map (·.1) := by
  simp only [List.mem_map] at hx ⊢
  obtain ⟨p, hp, rfl⟩ := hx
  refine ⟨p, ?_, rfl⟩
  simp only [delRec, List.mem_filter]
  exact ⟨hp, by simpa using hne⟩

theorem mem_setActive {as : List RunRes} {k : Nat} {r' a : RunRes} (h : a ∈ setActive as k r') :
    (a = r' ∧ ∃ b ∈ as, b.key = k) ∨ (a ∈ as ∧ a.key ≠ k) := by
  simp only [setActive, List.mem_map] at h
  obtain ⟨b, hb, rfl⟩ := h
  split
  · rename_i hk; left; exact ⟨rfl, b, hb, by simpa using hk⟩
  · rename_i hk; right; exact ⟨hb, by simpa using hk⟩

theorem find?_key {as : List RunRes} {k : Nat} {r : RunRes} (h : as.find? (·.key == k) = some r) :
    r ∈ as ∧ r.key = k := by
  refine ⟨List.mem_of_find?_eq_some h, ?_⟩
  have := List.find?_some h
  simpa using this

/-! `advRes` shape facts -/

theorem leaveDefault_next {hr : Bool} {t : Trigger} {d ms : List (Nat × Bool)} {n : AState}
    (h : leaveDefault hr t d = .commit ms n) :
    n = .broadcastCommit ∨ n = .fullyResolved ∨ n = .contractClosed := by
  cases t <;> simp [leaveDefault, closeTarget] at h
  · left; exact h.2.symm
  · left; exact h.2.symm
  · right; right; exact h.2.symm
  · right; right; exact h.2.symm
  · right; left; exact h.2.symm
  · cases hr <;> simp at h
    · right; left; exact h.2.symm
    · right; right; exact h.2.symm

theorem leaveDefault_ne {hr : Bool} {t : Trigger} {d : List (Nat × Bool)} :
    leaveDefault hr t d ≠ .markBroadcast ∧ leaveDefault hr t d ≠ .notify ∧ leaveDefault hr t d ≠ .stay := by
  cases t <;> simp [leaveDefault]

theorem leaveOnClose_next {hr : Bool} {t : Trigger} {o : AdvRes} {ms : List (Nat × Bool)} {n : AState}
    (ho : ∀ ms n, o ≠ .commit ms n) (h : leaveOnClose hr t o = .commit ms n) :
    n = .fullyResolved ∨ n = .contractClosed := by
  cases t <;> simp [leaveOnClose, closeTarget] at h
  · exact absurd h (ho _ _)
  · exact absurd h (ho _ _)
  · right; exact h.2.symm
  · right; exact h.2.symm
  · left; exact h.2.symm
  · cases hr <;> simp at h
    · left; exact h.2.symm
    · right; exact h.2.symm

/-- where a `CommitState` can lead, and what is known when it leads to `StateFullyResolved`. -/
theorem advRes_commit_shape {sp : Spec} {s : Sys} {ms : List (Nat × Bool)} {n : AState}
    (h : advRes sp s = .commit ms n) :
    (s.mem.preClosed = true ∧ (n = .broadcastCommit ∨ n = .fullyResolved ∨ n = .contractClosed)) ∨
    (s.mem.preClosed = false ∧ n = .fullyResolved ∧ s.log.contracts = []) := by
  unfold advRes at h
  split at h
  · rename_i hm
    left; refine ⟨by simp [hm, AState.preClosed], ?_⟩
    unfold defaultRes at h
    split at h
    · split at h
      · cases h
      · exact leaveDefault_next h
    · split at h
      · cases h
      · exact leaveDefault_next h
  · rename_i hm
    left; refine ⟨by simp [hm, AState.preClosed], ?_⟩
    right; exact leaveOnClose_next (by intro _ _ hh; cases hh) h
  · rename_i hm
    left; refine ⟨by simp [hm, AState.preClosed], ?_⟩
    right; exact leaveOnClose_next (by intro _ _ hh; cases hh) h
  · rename_i hm
    right; refine ⟨by simp [hm, AState.preClosed], ?_⟩
    unfold closedRes at h
    split at h
    · cases h
    · split at h
      · rename_i hc
        cases h
        refine ⟨rfl, ?_⟩
        simp only [Bool.and_eq_true, List.isEmpty_iff] at hc
        exact hc.2
      · split at h <;> cases h
  · rename_i hm
    right; refine ⟨by simp [hm, AState.preClosed], ?_⟩
    split at h
    · rename_i hc
      cases h
      exact ⟨rfl, by simpa [List.isEmpty_iff] using hc⟩
    · cases h
  · cases h

theorem advRes_markBroadcast_mem {sp : Spec} {s : Sys} (h : advRes sp s = .markBroadcast) :
    s.mem = .broadcastCommit := by
  unfold advRes at h
  split at h
  · unfold defaultRes at h
    split at h <;> split at h <;> first | cases h | exact absurd h leaveDefault_ne.1
  · assumption
  · rename_i hm
    cases ht : s.trig <;> simp [leaveOnClose, ht] at h
  · unfold closedRes at h
    split at h
    · cases h
    · split at h
      · cases h
      · split at h <;> cases h
  · split at h <;> cases h
  · cases h

theorem advRes_insert_mem {sp : Spec} {s : Sys} {ms : List (Nat × Bool)} {fs : List Nat}
    (h : advRes sp s = .insert ms fs) : s.mem = .contractClosed := by
  unfold advRes at h
  split at h
  · unfold defaultRes at h
    split at h <;> split at h <;> first | cases h | exact absurd h leaveDefault_not_insert
  · exact absurd h (leaveOnClose_not_insert (by intro hh; cases hh))
  · exact absurd h (leaveOnClose_not_insert (by intro hh; cases hh))
  · assumption
  · split at h <;> cases h
  · cases h

theorem advRes_notify_mem {sp : Spec} {s : Sys} (h : advRes sp s = .notify) :
    s.mem = .fullyResolved := by
  unfold advRes at h
  split at h
  · unfold defaultRes at h
    split at h <;> split at h <;> first | cases h | exact absurd h leaveDefault_ne.2.1
  · cases ht : s.trig <;> simp [leaveOnClose, ht] at h
  · cases ht : s.trig <;> simp [leaveOnClose, ht] at h
  · unfold closedRes at h
    split at h
    · cases h
    · split at h
      · cases h
      · split at h <;> cases h
  · split at h <;> cases h
  · assumption

theorem freshActive_keys {sp : Spec} {t : Trigger} {r : RunRes} (h : r ∈ freshActive sp t)
    (hp : r.rc.kind.persisted = true) : r.key ∈ (freshRecs sp t).map (·.1) := by
  simp only [freshActive, List.mem_map] at h
  obtain ⟨c, hc, rfl⟩ := h
  simp only [freshRecs, List.map_map, List.mem_map, List.mem_filter]
  refine ⟨c, ⟨hc, ?_⟩, rfl⟩
  simpa [Contract.fresh] using hp

theorem relaunched_act {sp : Spec} {s : Sys} {r : RunRes} (h : r ∈ relaunched sp s)
    (hp : r.rc.kind.persisted = true) : r.key ∈ s.log.keys := by
  simp only [relaunched, List.mem_append, List.mem_map] at h
  rcases h with ⟨p, hp', rfl⟩ | ⟨c, hc, rfl⟩
  · simp only [Log.keys, List.mem_map]
    exact ⟨p, hp', rfl⟩
  · simp only [List.mem_filter] at hc
    have : c.kind = .an := by simpa using hc.2
    simp [Contract.fresh, this, RKind.persisted] at hp

end LndModel.C13

namespace LndModel.C13

theorem not_closed_of_pc {s : Sys} (h : Inv s) (h1 : s.pc ≠ .wipe) (h2 : s.pc ≠ .finished) :
    s.chan.fullyClosed = false := by
  cases hc : s.chan.fullyClosed with
  | false => rfl
  | true => rcases h.closedPc hc with h' | h' <;> contradiction

theorem mainStep_inv {sp : Spec} {s s' : Sys} (h : Inv s) (hs : mainStep sp s = some s') : Inv s' := by
  unfold mainStep at hs
  split at hs
  · -- idle
    rename_i hpc
    have hnc := not_closed_of_pc h (by simp [hpc]) (by simp [hpc])
    have hme := h.memEq (by simp [hpc])
    split at hs
    · split at hs
      · cases hs
        exact ⟨fun _ => hme, h.pre, h.act, fun hd => h.done (by simpa [hnc] using hd),
               by simp [hnc], by simp⟩
      · cases hs
        exact ⟨fun _ => hme, h.pre, h.act, fun hd => h.done (by simpa [hnc] using hd),
               by simp [hnc], by simp⟩
    · split at hs
      · cases hs
        exact ⟨fun _ => hme, h.pre, h.act, h.done, by simp [hnc], by simp⟩
      · split at hs
        · cases hs
          exact ⟨fun _ => hme, h.pre, h.act, h.done, by simp [hnc], by simp⟩
        · cases hs
  · -- evLogCS
    rename_i hpc
    have hnc := not_closed_of_pc h (by simp [hpc]) (by simp [hpc])
    have hme := h.memEq (by simp [hpc])
    cases hs
    exact ⟨fun _ => hme, h.pre, h.act, h.done, by simp [hnc], by simp⟩
  · -- evMark
    rename_i hpc
    have hnc := not_closed_of_pc h (by simp [hpc]) (by simp [hpc])
    have hme := h.memEq (by simp [hpc])
    cases hs
    exact ⟨fun _ => hme, h.pre, h.act, fun hd => h.done (by simpa [hnc] using hd),
           by simp [hnc], by simp⟩
  · -- adv
    rename_i hpc
    have hnc := not_closed_of_pc h (by simp [hpc]) (by simp [hpc])
    have hme := h.memEq (by simp [hpc])
    split at hs
    · -- stay
      split at hs
      · rename_i hrl
        cases hs
        have hwf : s.log.state = .waitingFull := by
          have : s.mem = .waitingFull := by
            simp only [Bool.and_eq_true, beq_iff_eq] at hrl; exact hrl.2
          rw [← hme]; exact this
        refine ⟨fun _ => hme, ?_, ?_, h.done, by simp [hnc], by simp⟩
        · intro hp; simp [hwf, AState.preClosed] at hp
        · intro r hr hp _; exact relaunched_act hr hp
      · cases hs
        exact ⟨fun _ => hme, h.pre, h.act, h.done, by simp [hnc], by simp⟩
    · -- commit
      rename_i ms next hadv
      cases hs
      rcases advRes_commit_shape hadv with ⟨hpre, _⟩ | ⟨_, hn, hempty⟩
      · have hp := h.pre (by rw [← hme]; exact hpre)
        refine ⟨fun _ => rfl, fun _ => hp, ?_, fun _ => hp.1, by simp [hnc], by simp [hpc]⟩
        intro r hr; rw [hp.2] at hr; simp at hr
      · subst hn
        refine ⟨fun _ => rfl, ?_, ?_, fun _ => hempty, by simp [hnc], by simp [hpc]⟩
        · intro hp; simp [AState.preClosed] at hp
        · intro r hr hp hpc'; simpa [Log.keys] using h.act r hr hp hpc'
    · -- markBroadcast
      rename_i hadv
      cases hs
      have hm := advRes_markBroadcast_mem hadv
      refine ⟨fun _ => hme, h.pre, h.act, fun hd => h.done (by simpa [hnc] using hd),
              by simp [hnc], fun _ => by rw [← hme]; exact hm⟩
    · -- insert
      rename_i ms fs hadv
      cases hs
      have hm := advRes_insert_mem hadv
      have hst : s.log.state = .contractClosed := by rw [← hme]; exact hm
      refine ⟨fun _ => hme, ?_, ?_, ?_, by simp [hnc], by simp⟩
      · intro hp; simp [hst, AState.preClosed] at hp
      · intro r hr hp _
        simp only [Log.keys]
        exact putAll_new_keys _ _ _ (freshActive_keys hr hp)
      · intro hd; simp [hst, hnc] at hd
    · -- notify
      rename_i hadv
      cases hs
      have hm := advRes_notify_mem hadv
      have hst : s.log.state = .fullyResolved := by rw [← hme]; exact hm
      refine ⟨fun _ => hme, h.pre, h.act, fun _ => h.done (Or.inl hst), by simp, by simp⟩
  · -- bcPublish
    rename_i hpc
    have hnc := not_closed_of_pc h (by simp [hpc]) (by simp [hpc])
    cases hs
    have hp := h.pre (by rw [h.bc hpc]; rfl)
    refine ⟨fun _ => rfl, fun _ => hp, ?_, fun _ => hp.1, by simp [hnc], by simp⟩
    intro r hr; rw [hp.2] at hr; simp at hr
  · -- ccCommit
    rename_i hpc
    have hnc := not_closed_of_pc h (by simp [hpc]) (by simp [hpc])
    cases hs
    refine ⟨fun _ => rfl, ?_, ?_, ?_, by simp [hnc], by simp⟩
    · intro hp; simp [AState.preClosed] at hp
    · intro r hr hp hpc'; simpa [Log.keys] using h.act r hr hp hpc'
    · intro hd; simp [hnc] at hd
  · -- wipe
    cases hs
    refine ⟨by simp, fun _ => ⟨rfl, rfl⟩, ?_, fun _ => rfl, fun _ => Or.inr rfl, by simp⟩
    intro r hr; simp at hr
  · cases hs

/-- results of a resolver step keep the "persisted" class of the record and only come from a
    resolver that is running. -/
theorem resRes_put_facts {sp : Spec} {f : Facts} {r : RunRes} {ms : List (Nat × Bool)} {rec : Rec} {pc : RPc}
    (h : resRes sp f r = .put ms rec pc) :
    rec.kind.persisted = r.rc.kind.persisted ∧ r.pc = .running := by
  obtain ⟨key, ⟨kind, incub, resolved⟩, rpc, handed⟩ := r
  unfold resRes at h
  simp only at h
  repeat' split at h
  all_goals first
    | (cases h; done)
    | (cases h; simp_all [RKind.persisted])

theorem resAlt_put_facts {sp : Spec} {f : Facts} {r : RunRes} {ms : List (Nat × Bool)} {rec : Rec} {pc : RPc}
    (h : resAlt sp f r = .put ms rec pc) :
    rec.kind.persisted = r.rc.kind.persisted ∧ r.pc = .running := by
  unfold resAlt at h
  split at h
  · rename_i hpc hk _
    split at h
    · cases h; exact ⟨by simp [hk, RKind.persisted], hpc⟩
    · cases h
  · cases h

theorem resApply_inv {s s' : Sys} {k : Nat} {r : RunRes} {rr : ResRes} (h : Inv s)
    (hr : r ∈ s.active) (hk : r.key = k)
    (hrr : ∀ ms rec pc, rr = .put ms rec pc → rec.kind.persisted = r.rc.kind.persisted ∧ r.pc = .running)
    (hs : resApply s k r rr = some s') : Inv s' := by
  have hne : s.active ≠ [] := by intro he; rw [he] at hr; simp at hr
  have hnpre : s.log.state.preClosed ≠ true := fun hp => hne (h.pre hp).2
  unfold resApply at hs
  split at hs
  · cases hs
  · -- die
    cases hs
    refine ⟨h.memEq, fun hp => absurd hp hnpre, ?_, h.done, h.closedPc, h.bc⟩
    intro a ha hp hpc
    rcases mem_setActive ha with ⟨rfl, _⟩ | ⟨ha', _⟩
    · rcases hpc with hpc | hpc <;> simp at hpc
    · exact h.act a ha' hp hpc
  · -- incubate
    cases hs
    refine ⟨h.memEq, fun hp => absurd hp hnpre, ?_, h.done, h.closedPc, h.bc⟩
    intro a ha hp hpc
    rcases mem_setActive ha with ⟨rfl, _⟩ | ⟨ha', _⟩
    · exact h.act r hr hp hpc
    · exact h.act a ha' hp hpc
  · -- put
    rename_i ms rec pc
    obtain ⟨hper, hrun⟩ := hrr ms rec pc rfl
    by_cases hp : rec.kind.persisted = true
    · simp only [hp, if_true] at hs
      cases hs
      have hkin : r.key ∈ s.log.keys := h.act r hr (hper ▸ hp) (Or.inl hrun)
      have hcne : s.log.contracts ≠ [] := by
        intro he; simp [Log.keys, he] at hkin
      refine ⟨h.memEq, fun hp' => absurd hp' hnpre, ?_, ?_, h.closedPc, h.bc⟩
      · intro a ha hpa hpc'
        simp only [Log.keys]
        rcases mem_setActive ha with ⟨rfl, _⟩ | ⟨ha', _⟩
        · simp only; rw [hk]; exact putRec_key_mem _ _ _
        · exact putRec_keys_sub _ _ _ _ (h.act a ha' hpa hpc')
      · intro hd
        exact absurd (h.done hd) hcne
    · have hp' : rec.kind.persisted = false := by simpa using hp
      simp only [hp', Bool.false_eq_true, if_false] at hs
      cases hs
      refine ⟨h.memEq, fun hp'' => absurd hp'' hnpre, ?_, h.done, h.closedPc, h.bc⟩
      intro a ha hpa hpc'
      rcases mem_setActive ha with ⟨rfl, _⟩ | ⟨ha', _⟩
      · simp [hp'] at hpa
      · exact h.act a ha' hpa hpc'
  · -- del
    cases hs
    refine ⟨h.memEq, fun hp => absurd hp hnpre, ?_, ?_, h.closedPc, h.bc⟩
    · intro a ha hpa hpc'
      rcases mem_setActive ha with ⟨rfl, _⟩ | ⟨ha', hne'⟩
      · rcases hpc' with hpc' | hpc' <;> simp at hpc'
      · simp only [Log.keys]
        exact delRec_keys _ _ _ (h.act a ha' hpa hpc') hne'
    · intro hd
      have := h.done hd
      simp [this, delRec]
  · -- noop
    cases hs
    refine ⟨h.memEq, fun hp => absurd hp hnpre, ?_, h.done, h.closedPc, h.bc⟩
    intro a ha hpa hpc'
    rcases mem_setActive ha with ⟨rfl, _⟩ | ⟨ha', _⟩
    · rcases hpc' with hpc' | hpc' <;> simp at hpc'
    · exact h.act a ha' hpa hpc'

theorem restart_inv {s : Sys} (h : Inv s) : Inv (restart s) := by
  refine ⟨fun _ => rfl, ?_, ?_, h.done, ?_, ?_⟩
  · intro hp; exact ⟨(h.pre hp).1, rfl⟩
  · intro r hr; simp [restart] at hr
  · intro hc; simp only [restart] at hc ⊢; simp [hc]
  · intro hpc; simp only [restart] at hpc; split at hpc <;> simp at hpc

theorem step_inv {sp : Spec} {s s' : Sys} {a : Action} (h : Inv s) (hs : step sp s a = some s') :
    Inv s' := by
  cases a with
  | main => exact mainStep_inv h hs
  | res k =>
    simp only [step, resStep] at hs
    split at hs
    · cases hs
    · rename_i r hf
      obtain ⟨hr, hk⟩ := find?_key hf
      exact resApply_inv h hr hk (fun ms rec pc he => resRes_put_facts he) hs
  | resAlt k =>
    simp only [step, resAltStep] at hs
    split at hs
    · cases hs
    · rename_i r hf
      obtain ⟨hr, hk⟩ := find?_key hf
      exact resApply_inv h hr hk (fun ms rec pc he => resAlt_put_facts he) hs
  | crash => simp only [step] at hs; cases hs; exact restart_inv h
  | nursery k =>
    simp only [step] at hs
    obtain ⟨n, rfl⟩ := nurseryStep_only hs
    exact ⟨h.memEq, h.pre, h.act, h.done, h.closedPc, h.bc⟩
  | fact f =>
    simp only [step] at hs; cases hs
    exact ⟨h.memEq, h.pre, h.act, h.done, h.closedPc, h.bc⟩
  | forceClose =>
    simp only [step] at hs
    split at hs
    · rename_i hc
      cases hs
      have hpc : s.pc = .idle := by
        simp only [Bool.and_eq_true, beq_iff_eq] at hc; exact hc.1.1
      have hnc := not_closed_of_pc h (by simp [hpc]) (by simp [hpc])
      exact ⟨fun _ => h.memEq (by simp [hpc]), h.pre, h.act, h.done, by simp [hnc], by simp⟩
    · cases hs

theorem reach_inv {sp : Spec} {H : Sys → Action → Prop} {s : Sys} (r : Reach sp H s) : Inv s := by
  induction r with
  | init => exact inv_init
  | step _ _ hs ih => exact step_inv ih hs

end LndModel.C13

namespace LndModel.C13

/-! ### re-execution of `StateContractClosed` when no resolver wrote in that state -/

/-- schedule restriction: resolver goroutines do not get to write between
    `InsertUnresolvedContracts` and `CommitState(StateWaitingFullResolution)`
    (i.e. while the durable state is `StateContractClosed`). Stops are unrestricted. -/
def noResInClosed : Sys → Action → Prop := fun s a =>
  match a with
  | .res _ => s.log.state ≠ .contractClosed
  | .resAlt _ => s.log.state ≠ .contractClosed
  | _ => True

structure InvCC (sp : Spec) (s : Sys) : Prop where
  freshStored : s.log.state = .contractClosed →
    ∀ p ∈ s.log.contracts, ∃ c ∈ sp.contracts, c.key = p.1 ∧ p.2 = c.fresh
  noneResolved : (s.log.state.preClosed = true ∨ s.log.state = .contractClosed) →
    s.chan.fullyClosed = false → s.resolvedKeys = []
  wipePc : s.pc = .wipe → s.chan.fullyClosed = true

theorem putRec_mem {cs : List (Nat × Rec)} {k : Nat} {r : Rec} {p : Nat × Rec}
    (h : p ∈ putRec cs k r) : p ∈ cs ∨ p = (k, r) := by
  unfold putRec at h
  split at h
  · simp only [List.mem_map] at h
    obtain ⟨q, hq, rfl⟩ := h
    split
    · right; rfl
    · left; exact hq
  · simp only [List.mem_append, List.mem_singleton] at h
    exact h

theorem putAll_mem (new : List (Nat × Rec)) : ∀ (cs : List (Nat × Rec)) (p : Nat × Rec),
    p ∈ putAll cs new → p ∈ cs ∨ p ∈ new := by
  induction new with
  | nil => intro cs p h; left; simpa [putAll] using h
  | cons q rest ih =>
    intro cs p h
    obtain ⟨k, r⟩ := q
    simp only [putAll] at h
    rcases ih _ p h with h1 | h1
    · rcases putRec_mem h1 with h2 | h2
      · left; exact h2
      · right; rw [h2]; simp
    · right; simp [h1]

theorem freshRecs_mem {sp : Spec} {t : Trigger} {p : Nat × Rec} (h : p ∈ freshRecs sp t) :
    ∃ c ∈ sp.contracts, c.key = p.1 ∧ p.2 = c.fresh := by
  simp only [freshRecs, List.mem_map, List.mem_filter] at h
  obtain ⟨c, ⟨hc, _⟩, rfl⟩ := h
  refine ⟨c, ?_, rfl, rfl⟩
  unfold freshContracts at hc
  split at hc
  · exact hc
  · exact (List.mem_filter.mp hc).1

theorem invCC_init (sp : Spec) : InvCC sp init := by
  refine ⟨?_, ?_, ?_⟩ <;> simp [init]

theorem mainStep_invCC {sp : Spec} {s s' : Sys} (hi : Inv s) (h : InvCC sp s)
    (hs : mainStep sp s = some s') : InvCC sp s' := by
  unfold mainStep at hs
  split at hs
  · split at hs
    · split at hs <;> (cases hs; exact ⟨h.freshStored, h.noneResolved, by simp⟩)
    · split at hs
      · cases hs; exact ⟨h.freshStored, h.noneResolved, by simp⟩
      · split at hs
        · cases hs; exact ⟨h.freshStored, h.noneResolved, by simp⟩
        · cases hs
  · cases hs; exact ⟨h.freshStored, h.noneResolved, by simp⟩
  · cases hs; exact ⟨h.freshStored, h.noneResolved, by simp⟩
  · rename_i hpc
    have hme := hi.memEq (by simp [hpc])
    split at hs
    · split at hs <;> (cases hs; exact ⟨h.freshStored, h.noneResolved, by simp⟩)
    · rename_i ms next hadv
      cases hs
      rcases advRes_commit_shape hadv with ⟨hpre, _⟩ | ⟨_, hn, _⟩
      · have hpre' : s.log.state.preClosed = true := by rw [← hme]; exact hpre
        have hp := hi.pre hpre'
        refine ⟨?_, ?_, by simp [hpc]⟩
        · intro _ p hp'; simp only at hp'; rw [hp.1] at hp'; simp at hp'
        · intro _ hnc; exact h.noneResolved (Or.inl hpre') hnc
      · subst hn
        refine ⟨?_, ?_, by simp [hpc]⟩
        · intro hc; simp at hc
        · intro hc; simp [AState.preClosed] at hc
    · cases hs; exact ⟨h.freshStored, h.noneResolved, by simp⟩
    · rename_i ms fs hadv
      cases hs
      refine ⟨?_, h.noneResolved, by simp⟩
      intro hc p hp
      have hst : s.log.state = .contractClosed := hc
      rcases putAll_mem _ _ _ hp with h1 | h1
      · exact h.freshStored hst p h1
      · exact freshRecs_mem h1
    · rename_i hadv
      cases hs
      have hm := advRes_notify_mem hadv
      have hst : s.log.state = .fullyResolved := by rw [← hme]; exact hm
      refine ⟨?_, ?_, by simp⟩
      · intro hc; simp only at hc; rw [hst] at hc; cases hc
      · intro _ hnc; simp at hnc
  · rename_i hpc
    cases hs
    have hbc := hi.bc hpc
    refine ⟨?_, ?_, by simp⟩
    · intro hc; simp at hc
    · intro _ hnc; exact h.noneResolved (Or.inl (by rw [hbc]; rfl)) hnc
  · cases hs
    refine ⟨?_, ?_, by simp⟩
    · intro hc; simp at hc
    · intro hc; simp [AState.preClosed] at hc
  · rename_i hpc
    cases hs
    refine ⟨?_, ?_, by simp⟩
    · intro _ p hp; simp at hp
    · intro _ hnc; simp only at hnc; rw [h.wipePc hpc] at hnc; cases hnc
  · cases hs

theorem resApply_invCC {sp : Spec} {s s' : Sys} {k : Nat} {r : RunRes} {rr : ResRes}
    (hi : Inv s) (h : InvCC sp s) (hr : r ∈ s.active) (hncc : s.log.state ≠ .contractClosed)
    (hs : resApply s k r rr = some s') : InvCC sp s' := by
  have hne : s.active ≠ [] := by intro he; rw [he] at hr; simp at hr
  have hnpre : s.log.state.preClosed ≠ true := fun hp => hne (hi.pre hp).2
  unfold resApply at hs
  split at hs
  · cases hs
  · cases hs; exact ⟨h.freshStored, h.noneResolved, h.wipePc⟩
  · cases hs; exact ⟨h.freshStored, h.noneResolved, h.wipePc⟩
  · rename_i ms rec pc
    by_cases hp : rec.kind.persisted = true
    · simp only [hp, if_true] at hs
      cases hs
      exact ⟨fun hc => absurd hc hncc, h.noneResolved, h.wipePc⟩
    · have hp' : rec.kind.persisted = false := by simpa using hp
      simp only [hp', Bool.false_eq_true, if_false] at hs
      cases hs
      exact ⟨h.freshStored, h.noneResolved, h.wipePc⟩
  · cases hs
    refine ⟨fun hc => absurd hc hncc, ?_, h.wipePc⟩
    intro hc
    rcases hc with hc | hc
    · exact absurd hc hnpre
    · exact absurd hc hncc
  · cases hs; exact ⟨h.freshStored, h.noneResolved, h.wipePc⟩

theorem step_invCC {sp : Spec} {s s' : Sys} {a : Action} (hi : Inv s) (h : InvCC sp s)
    (hH : noResInClosed s a) (hs : step sp s a = some s') : InvCC sp s' := by
  cases a with
  | main => exact mainStep_invCC hi h hs
  | res k =>
    simp only [step, resStep] at hs
    split at hs
    · cases hs
    · rename_i r hf
      exact resApply_invCC hi h (find?_key hf).1 hH hs
  | resAlt k =>
    simp only [step, resAltStep] at hs
    split at hs
    · cases hs
    · rename_i r hf
      exact resApply_invCC hi h (find?_key hf).1 hH hs
  | crash =>
    simp only [step] at hs; cases hs
    refine ⟨h.freshStored, h.noneResolved, ?_⟩
    intro hpc; simp only [restart] at hpc; split at hpc <;> simp at hpc
  | nursery k =>
    simp only [step] at hs
    obtain ⟨n, rfl⟩ := nurseryStep_only hs
    exact ⟨h.freshStored, h.noneResolved, h.wipePc⟩
  | fact f => simp only [step] at hs; cases hs; exact ⟨h.freshStored, h.noneResolved, h.wipePc⟩
  | forceClose =>
    simp only [step] at hs
    split at hs
    · cases hs; exact ⟨h.freshStored, h.noneResolved, by simp⟩
    · cases hs

theorem reach_invCC {sp : Spec} {s : Sys} (r : Reach sp noResInClosed s) : InvCC sp s := by
  induction r with
  | init => exact invCC_init sp
  | step hr hH hs ih => exact step_invCC (reach_inv hr) ih hH hs

/-- distinct contracts have distinct keys. -/
def Spec.KeysNodup (sp : Spec) : Prop := (sp.contracts.map (·.key)).Nodup

theorem key_inj {l : List Contract} (h : (l.map (·.key)).Nodup) {c c' : Contract}
    (hc : c ∈ l) (hc' : c' ∈ l) (hk : c.key = c'.key) : c = c' := by
  induction l with
  | nil => simp at hc
  | cons x rest ih =>
    simp only [List.map_cons, List.nodup_cons, List.mem_map, not_exists, not_and] at h
    simp only [List.mem_cons] at hc hc'
    rcases hc with rfl | hc <;> rcases hc' with rfl | hc'
    · rfl
    · exact absurd hk.symm (h.1 c' hc')
    · exact absurd hk (h.1 c hc)
    · exact ih h.2 hc hc'

/-- a resolver's own checkpoints never decrease its progress. -/
theorem resRes_put_progress {sp : Spec} {f : Facts} {r : RunRes} {ms : List (Nat × Bool)} {rec : Rec} {pc : RPc}
    (h : resRes sp f r = .put ms rec pc) : r.rc.progress ≤ rec.progress := by
  obtain ⟨key, ⟨kind, incub, resolved⟩, rpc, handed⟩ := r
  unfold resRes at h
  simp only at h
  repeat' split at h
  all_goals first
    | (cases h; done)
    | (cases h; cases incub <;> cases resolved <;> simp_all [Rec.progress])

end LndModel.C13

namespace LndModel.C13

/-! ### nothing is skipped: the invariant behind `same_outcome_partial` -/

/-- schedule restriction: no stop while the durable state is `StateContractClosed`
    (between `CommitState(StateContractClosed)` and `CommitState(StateWaitingFullResolution)`).
    Interleavings and all other stops are unrestricted. -/
def noStopInClosed : Sys → Action → Prop := fun s a =>
  match a with
  | .crash => s.log.state ≠ .contractClosed
  | _ => True

/-- a cooperative close leaves nothing to resolve. -/
def Spec.CoopClean (sp : Spec) : Prop :=
  sp.close = .coop → ∀ c ∈ sp.contracts, c.kind.persisted = false

structure InvK (sp : Spec) (s : Sys) : Prop where
  k1 : (s.log.state = .waitingFull ∨ s.log.state = .fullyResolved ∨ s.pc = .ccCommit ∨
          s.chan.fullyClosed = true) →
        ∀ c ∈ sp.contracts, c.kind.persisted = true → c.key ∈ s.log.keys ∨ c.key ∈ s.resolvedKeys
  k2 : s.mem = .contractClosed → s.pc = .adv → fullActions sp s.trig sp.closeHeight = true
  k3 : s.trig.isClose = true → s.trig = sp.close.trigger
  k4 : s.chan.pendingClose = true → s.chan.closeKind = sp.close
  k5 : s.pc ≠ .finished → s.trig.isClose = true → s.trig ≠ .coopClose → s.log.hasRes = true
  k6 : s.pc ≠ .finished → s.chan.pendingClose = true → sp.close ≠ .coop → s.log.hasRes = true
  k7 : (s.pc = .evLogCS ∨ s.pc = .evMark) → s.log.hasRes = true
  k8 : s.pc = .ccCommit → s.log.state = .contractClosed
  k9 : s.pc = .finished → s.chan.fullyClosed = true
  k10 : s.pc = .wipe → s.chan.fullyClosed = true

theorem invK_init (sp : Spec) : InvK sp init := by
  refine ⟨?_, ?_, ?_, ?_, ?_, ?_, ?_, ?_, ?_, ?_⟩ <;> simp [init, Trigger.isClose]

theorem fullActions_of_close (sp : Spec) {t : Trigger} (hh : Nat) (h : t.isClose = true) :
    fullActions sp t hh = true := by
  cases t <;> simp [Trigger.isClose] at h <;> simp [fullActions]

theorem trigger_isClose (k : CloseKind) : k.trigger.isClose = true := by
  cases k <;> rfl

theorem trigger_coop {k : CloseKind} (h : k.trigger = .coopClose) : k = .coop := by
  cases k <;> simp [CloseKind.trigger] at h <;> rfl

theorem trigger_ne_coop {k : CloseKind} (h : k ≠ .coop) : k.trigger ≠ .coopClose := by
  intro h'; exact h (trigger_coop h')

theorem leaveDefault_target {hr : Bool} {t : Trigger} {d ms : List (Nat × Bool)} {n : AState}
    (h : leaveDefault hr t d = .commit ms n) :
    (n = .contractClosed → t.isClose = true) ∧
    (n = .fullyResolved → t = .coopClose ∨ (t = .breachClose ∧ hr = false)) := by
  cases t <;> simp [leaveDefault, closeTarget] at h
  · obtain ⟨_, rfl⟩ := h; simp
  · obtain ⟨_, rfl⟩ := h; simp
  · obtain ⟨_, rfl⟩ := h; simp [Trigger.isClose]
  · obtain ⟨_, rfl⟩ := h; simp [Trigger.isClose]
  · obtain ⟨_, rfl⟩ := h; simp
  · cases hr <;> simp at h <;> (obtain ⟨_, rfl⟩ := h; simp [Trigger.isClose])

theorem leaveOnClose_target {hr : Bool} {t : Trigger} {o : AdvRes} {ms : List (Nat × Bool)} {n : AState}
    (ho : ∀ ms n, o ≠ .commit ms n) (h : leaveOnClose hr t o = .commit ms n) :
    (n = .contractClosed → t.isClose = true) ∧
    (n = .fullyResolved → t = .coopClose ∨ (t = .breachClose ∧ hr = false)) := by
  cases t <;> simp [leaveOnClose, closeTarget] at h
  · exact absurd h (ho _ _)
  · exact absurd h (ho _ _)
  · obtain ⟨_, rfl⟩ := h; simp [Trigger.isClose]
  · obtain ⟨_, rfl⟩ := h; simp [Trigger.isClose]
  · obtain ⟨_, rfl⟩ := h; simp
  · cases hr <;> simp at h <;> (obtain ⟨_, rfl⟩ := h; simp [Trigger.isClose])

/-- how a `CommitState` out of a pre-close state can reach ContractClosed / FullyResolved. -/
theorem advRes_commit_target {sp : Spec} {s : Sys} {ms : List (Nat × Bool)} {n : AState}
    (hpre : s.mem.preClosed = true) (h : advRes sp s = .commit ms n) :
    (n = .contractClosed → s.trig.isClose = true) ∧
    (n = .fullyResolved → s.trig = .coopClose ∨ (s.trig = .breachClose ∧ s.log.hasRes = false)) := by
  unfold advRes at h
  split at h
  · unfold defaultRes at h
    split at h
    · split at h
      · cases h
      · exact leaveDefault_target h
    · split at h
      · cases h
      · exact leaveDefault_target h
  · exact leaveOnClose_target (by intro _ _ hh; cases hh) h
  · exact leaveOnClose_target (by intro _ _ hh; cases hh) h
  · rename_i hm; simp [hm, AState.preClosed] at hpre
  · rename_i hm; simp [hm, AState.preClosed] at hpre
  · cases h

theorem freshRecs_full_key {sp : Spec} {t : Trigger} (hf : fullActions sp t sp.closeHeight = true) {c : Contract}
    (hc : c ∈ sp.contracts) (hp : c.kind.persisted = true) : c.key ∈ (freshRecs sp t).map (·.1) := by
  simp only [freshRecs, freshContracts, hf, if_true, List.map_map, List.mem_map, List.mem_filter]
  exact ⟨c, ⟨hc, hp⟩, rfl⟩

theorem mainStep_invK {sp : Spec} (hcoop : sp.CoopClean) {s s' : Sys} (hi : Inv s) (h : InvK sp s)
    (hs : mainStep sp s = some s') : InvK sp s' := by
  unfold mainStep at hs
  split at hs
  · -- idle
    rename_i hpc
    have hnc := not_closed_of_pc hi (by simp [hpc]) (by simp [hpc])
    split at hs
    · split at hs
      · rename_i hcl
        cases hs
        refine ⟨?_, ?_, ?_, ?_, ?_, ?_, ?_, ?_, ?_, ?_⟩
        · intro hc; exact h.k1 (by simpa [hpc, hnc] using hc)
        · intro _ _; exact fullActions_of_close sp _ rfl
        · intro _; simp [hcl, CloseKind.trigger]
        · intro _; simp [hcl]
        · intro _ _ hne; simp at hne
        · intro _ _ hne; exact absurd hcl hne
        · simp
        · simp
        · simp
        · simp
      · cases hs
        refine ⟨?_, ?_, h.k3, h.k4, ?_, ?_, ?_, ?_, ?_, ?_⟩
        · intro hc; exact h.k1 (by simpa [hpc, hnc] using hc)
        · simp
        · intro _ _ _; rfl
        · intro _ _ _; rfl
        · intro _; rfl
        · simp
        · simp
        · simp
    · split at hs
      · rename_i hw
        cases hs
        have hmw : s.mem = .waitingFull := by
          simp only [Bool.and_eq_true, beq_iff_eq] at hw; exact hw.1
        refine ⟨?_, ?_, ?_, h.k4, ?_, ?_, ?_, ?_, ?_, ?_⟩
        · intro hc; exact h.k1 (by simpa [hpc, hnc] using hc)
        · intro hm; simp [hmw] at hm
        · intro hc; simp [Trigger.isClose] at hc
        · intro _ hc; simp [Trigger.isClose] at hc
        · intro _; exact h.k6 (by simp [hpc])
        · simp
        · simp
        · simp
        · simp
      · split at hs
        · rename_i hw
          cases hs
          have hmd : s.mem = .default := by
            simp only [Bool.and_eq_true, beq_iff_eq] at hw; exact hw.1.1
          refine ⟨?_, ?_, ?_, h.k4, ?_, ?_, ?_, ?_, ?_, ?_⟩
          · intro hc; exact h.k1 (by simpa [hpc, hnc] using hc)
          · intro hm; simp [hmd] at hm
          · intro hc; simp [Trigger.isClose] at hc
          · intro _ hc; simp [Trigger.isClose] at hc
          · intro _; exact h.k6 (by simp [hpc])
          · simp
          · simp
          · simp
          · simp
        · cases hs
  · -- evLogCS
    rename_i hpc
    have hnc := not_closed_of_pc hi (by simp [hpc]) (by simp [hpc])
    cases hs
    have hr := h.k7 (Or.inl hpc)
    refine ⟨?_, ?_, h.k3, h.k4, ?_, ?_, ?_, ?_, ?_, ?_⟩
    · intro hc; exact h.k1 (by simpa [hpc, hnc] using hc)
    · simp
    · intro _ _ _; exact hr
    · intro _ _ _; exact hr
    · intro _; exact hr
    · simp
    · simp
    · simp
  · -- evMark
    rename_i hpc
    have hnc := not_closed_of_pc hi (by simp [hpc]) (by simp [hpc])
    cases hs
    have hr := h.k7 (Or.inr hpc)
    refine ⟨?_, ?_, ?_, ?_, ?_, ?_, ?_, ?_, ?_, ?_⟩
    · intro hc; exact h.k1 (by simpa [hpc, hnc] using hc)
    · intro _ _; exact fullActions_of_close sp _ (trigger_isClose _)
    · intro _; rfl
    · intro _; rfl
    · intro _ _ _; exact hr
    · intro _ _ _; exact hr
    · simp
    · simp
    · simp
    · simp
  · -- adv
    rename_i hpc
    have hnc := not_closed_of_pc hi (by simp [hpc]) (by simp [hpc])
    have hme := hi.memEq (by simp [hpc])
    split at hs
    · -- stay
      split at hs <;>
      · cases hs
        refine ⟨?_, ?_, h.k3, h.k4, ?_, ?_, ?_, ?_, ?_, ?_⟩
        · intro hc; exact h.k1 (by simpa [hpc, hnc] using hc)
        · simp
        · intro _; exact h.k5 (by simp [hpc])
        · intro _; exact h.k6 (by simp [hpc])
        · simp
        · simp
        · simp
        · simp
    · -- commit
      rename_i ms next hadv
      cases hs
      refine ⟨?_, ?_, h.k3, h.k4, ?_, ?_, ?_, ?_, ?_, ?_⟩
      · intro hc c hcm hp
        simp only [hpc, hnc] at hc
        simp only [Log.keys]
        rcases advRes_commit_shape hadv with ⟨hpre, hn⟩ | ⟨hnpre, hn, _⟩
        · -- from a pre-close state: only FullyResolved matters
          have hfr : next = .fullyResolved := by
            rcases hc with hc | hc | hc | hc
            · rcases hn with hn | hn | hn <;> simp [hn] at hc
            · exact hc
            · simp at hc
            · simp at hc
          rcases (advRes_commit_target hpre hadv).2 hfr with ht | ⟨ht, hr⟩
          · have : sp.close = .coop := trigger_coop (by rw [← h.k3 (by simp [ht, Trigger.isClose]), ht])
            have := hcoop this c hcm
            simp [this] at hp
          · have := h.k5 (by simp [hpc]) (by simp [ht, Trigger.isClose]) (by simp [ht])
            rw [hr] at this; cases this
        · -- from ContractClosed (nothing to resolve at all) or WaitingFullResolution
          subst hn
          by_cases hcc : s.mem = .contractClosed
          · have hce : sp.contracts.isEmpty = true := by
              unfold advRes at hadv
              rw [hcc] at hadv
              simp only [closedRes] at hadv
              split at hadv
              · cases hadv
              · split at hadv
                · rename_i hh
                  simp only [Spec.isEmpty, Bool.and_eq_true] at hh; exact hh.1.1.1.1.1
                · split at hadv <;> cases hadv
            simp only [List.isEmpty_iff] at hce
            rw [hce] at hcm; simp at hcm
          · have hwf : s.log.state = .waitingFull := by
              rw [← hme]
              unfold advRes at hadv
              split at hadv
              · rename_i hm; simp [hm, AState.preClosed] at hnpre
              · rename_i hm; simp [hm, AState.preClosed] at hnpre
              · rename_i hm; simp [hm, AState.preClosed] at hnpre
              · rename_i hm; exact absurd hm hcc
              · assumption
              · cases hadv
            exact h.k1 (Or.inl hwf) c hcm hp
      · intro hm _
        have hm' : next = .contractClosed := hm
        rcases advRes_commit_shape hadv with ⟨hpre, _⟩ | ⟨_, hn, _⟩
        · exact fullActions_of_close sp _ ((advRes_commit_target hpre hadv).1 hm')
        · rw [hn] at hm'; cases hm'
      · intro _; exact h.k5 (by simp [hpc])
      · intro _; exact h.k6 (by simp [hpc])
      · simp [hpc]
      · simp [hpc]
      · simp [hpc]
      · simp [hpc]
    · -- markBroadcast
      cases hs
      refine ⟨?_, ?_, h.k3, h.k4, ?_, ?_, ?_, ?_, ?_, ?_⟩
      · intro hc; exact h.k1 (by simpa [hpc, hnc] using hc)
      · simp
      · intro _; exact h.k5 (by simp [hpc])
      · intro _; exact h.k6 (by simp [hpc])
      · simp
      · simp
      · simp
      · simp
    · -- insert
      rename_i ms fs hadv
      cases hs
      have hm := advRes_insert_mem hadv
      have hst : s.log.state = .contractClosed := by rw [← hme]; exact hm
      have hfull := h.k2 hm hpc
      refine ⟨?_, ?_, h.k3, h.k4, ?_, ?_, ?_, ?_, ?_, ?_⟩
      · intro _ c hcm hp
        left
        simp only [Log.keys]
        exact putAll_new_keys _ _ _ (freshRecs_full_key hfull hcm hp)
      · simp
      · intro _; exact h.k5 (by simp [hpc])
      · intro _; exact h.k6 (by simp [hpc])
      · simp
      · intro _; exact hst
      · simp
      · simp
    · -- notify
      rename_i hadv
      cases hs
      have hm := advRes_notify_mem hadv
      have hst : s.log.state = .fullyResolved := by rw [← hme]; exact hm
      refine ⟨?_, ?_, h.k3, h.k4, ?_, ?_, ?_, ?_, ?_, ?_⟩
      · intro _; exact h.k1 (Or.inr (Or.inl hst))
      · simp
      · intro _; exact h.k5 (by simp [hpc])
      · intro _; exact h.k6 (by simp [hpc])
      · simp
      · simp
      · simp
      · simp
  · -- bcPublish
    rename_i hpc
    have hnc := not_closed_of_pc hi (by simp [hpc]) (by simp [hpc])
    cases hs
    refine ⟨?_, ?_, h.k3, h.k4, ?_, ?_, ?_, ?_, ?_, ?_⟩
    · intro hc; simp [hnc] at hc
    · simp
    · intro _; exact h.k5 (by simp [hpc])
    · intro _; exact h.k6 (by simp [hpc])
    · simp
    · simp
    · simp
    · simp
  · -- ccCommit
    rename_i hpc
    have hnc := not_closed_of_pc hi (by simp [hpc]) (by simp [hpc])
    cases hs
    refine ⟨?_, ?_, h.k3, h.k4, ?_, ?_, ?_, ?_, ?_, ?_⟩
    · intro _; exact h.k1 (Or.inr (Or.inr (Or.inl hpc)))
    · simp
    · intro _; exact h.k5 (by simp [hpc])
    · intro _; exact h.k6 (by simp [hpc])
    · simp
    · simp
    · simp
    · simp
  · -- wipe
    rename_i hpc
    cases hs
    have hfc := h.k10 hpc
    have hempty := hi.done (Or.inr hfc)
    refine ⟨?_, ?_, h.k3, h.k4, ?_, ?_, ?_, ?_, ?_, ?_⟩
    · intro _ c hcm hp
      right
      rcases h.k1 (Or.inr (Or.inr (Or.inr hfc))) c hcm hp with hk | hk
      · simp [Log.keys, hempty] at hk
      · exact hk
    · simp
    · simp
    · simp
    · simp
    · simp
    · intro _; exact hfc
    · simp
  · cases hs

theorem resApply_invK {sp : Spec} {s s' : Sys} {k : Nat} {r : RunRes} {rr : ResRes}
    (h : InvK sp s) (hs : resApply s k r rr = some s') : InvK sp s' := by
  unfold resApply at hs
  split at hs
  · cases hs
  · cases hs; exact ⟨h.k1, h.k2, h.k3, h.k4, h.k5, h.k6, h.k7, h.k8, h.k9, h.k10⟩
  · cases hs; exact ⟨h.k1, h.k2, h.k3, h.k4, h.k5, h.k6, h.k7, h.k8, h.k9, h.k10⟩
  · rename_i ms rec pc
    by_cases hp : rec.kind.persisted = true
    · simp only [hp, if_true] at hs
      cases hs
      refine ⟨?_, h.k2, h.k3, h.k4, h.k5, h.k6, h.k7, h.k8, h.k9, h.k10⟩
      intro hc c hcm hpc
      rcases h.k1 hc c hcm hpc with hk | hk
      · left; simp only [Log.keys]; exact putRec_keys_sub _ _ _ _ hk
      · right; exact hk
    · have hp' : rec.kind.persisted = false := by simpa using hp
      simp only [hp', Bool.false_eq_true, if_false] at hs
      cases hs
      exact ⟨h.k1, h.k2, h.k3, h.k4, h.k5, h.k6, h.k7, h.k8, h.k9, h.k10⟩
  · cases hs
    refine ⟨?_, h.k2, h.k3, h.k4, h.k5, h.k6, h.k7, h.k8, h.k9, h.k10⟩
    intro hc c hcm hpc
    rcases h.k1 hc c hcm hpc with hk | hk
    · by_cases hkk : c.key = k
      · right; simp [hkk]
      · left; simp only [Log.keys]; exact delRec_keys _ _ _ hk hkk
    · right; simp [hk]
  · cases hs; exact ⟨h.k1, h.k2, h.k3, h.k4, h.k5, h.k6, h.k7, h.k8, h.k9, h.k10⟩

theorem restart_invK {sp : Spec} {s : Sys} (h : InvK sp s) (hncc : s.log.state ≠ .contractClosed) :
    InvK sp (restart s) := by
  have hpcc : s.pc ≠ .ccCommit := fun hp => hncc (h.k8 hp)
  refine ⟨?_, ?_, ?_, h.k4, ?_, ?_, ?_, ?_, ?_, ?_⟩
  · intro hc
    apply h.k1
    simp only [restart] at hc
    rcases hc with hc | hc | hc | hc
    · exact Or.inl hc
    · exact Or.inr (Or.inl hc)
    · split at hc <;> simp at hc
    · exact Or.inr (Or.inr (Or.inr hc))
  · intro hm; exact absurd hm hncc
  · intro hc
    simp only [restart, restartTrigger] at hc ⊢
    split
    · rename_i hcond
      simp only [Bool.and_eq_true] at hcond
      rw [h.k4 hcond.1]
    · rename_i hcond; rw [if_neg hcond] at hc; simp [Trigger.isClose] at hc
  · intro hnf hc hne
    have hfc : s.chan.fullyClosed = false := by
      cases hfc : s.chan.fullyClosed with
      | false => rfl
      | true => simp [restart, hfc] at hnf
    have hsnf : s.pc ≠ .finished := by
      intro hp; rw [h.k9 hp] at hfc; cases hfc
    simp only [restart, restartTrigger] at hc hne ⊢
    split at hc
    · rename_i hcond
      simp only [Bool.and_eq_true] at hcond
      rw [if_pos (by simpa [Bool.and_eq_true] using hcond)] at hne
      have hk := h.k4 hcond.1
      refine h.k6 hsnf hcond.1 ?_
      intro hcp; apply hne; rw [hk, hcp]; rfl
    · simp [Trigger.isClose] at hc
  · intro hnf hpd hne
    have hfc : s.chan.fullyClosed = false := by
      cases hfc : s.chan.fullyClosed with
      | false => rfl
      | true => simp [restart, hfc] at hnf
    have hsnf : s.pc ≠ .finished := by
      intro hp; rw [h.k9 hp] at hfc; cases hfc
    exact h.k6 hsnf hpd hne
  · intro hc; simp only [restart] at hc; rcases hc with hc | hc <;> (split at hc <;> simp at hc)
  · intro hc; simp only [restart] at hc; split at hc <;> simp at hc
  · intro hc
    simp only [restart] at hc ⊢
    split at hc
    · assumption
    · simp at hc
  · intro hc; simp only [restart] at hc; split at hc <;> simp at hc

theorem step_invK {sp : Spec} (hcoop : sp.CoopClean) {s s' : Sys} {a : Action} (hi : Inv s)
    (h : InvK sp s) (hH : noStopInClosed s a) (hs : step sp s a = some s') : InvK sp s' := by
  cases a with
  | main => exact mainStep_invK hcoop hi h hs
  | res k =>
    simp only [step, resStep] at hs
    split at hs
    · cases hs
    · exact resApply_invK h hs
  | resAlt k =>
    simp only [step, resAltStep] at hs
    split at hs
    · cases hs
    · exact resApply_invK h hs
  | crash => simp only [step] at hs; cases hs; exact restart_invK h hH
  | nursery k =>
    simp only [step] at hs
    obtain ⟨n, rfl⟩ := nurseryStep_only hs
    exact ⟨h.k1, h.k2, h.k3, h.k4, h.k5, h.k6, h.k7, h.k8, h.k9, h.k10⟩
  | fact f =>
    simp only [step] at hs; cases hs
    exact ⟨h.k1, h.k2, h.k3, h.k4, h.k5, h.k6, h.k7, h.k8, h.k9, h.k10⟩
  | forceClose =>
    simp only [step] at hs
    split at hs
    · rename_i hc
      cases hs
      have hpc : s.pc = .idle := by
        simp only [Bool.and_eq_true, beq_iff_eq] at hc; exact hc.1.1
      have hmd : s.mem = .default := by
        simp only [Bool.and_eq_true, beq_iff_eq] at hc; exact hc.1.2
      have hnc := not_closed_of_pc hi (by simp [hpc]) (by simp [hpc])
      refine ⟨?_, ?_, ?_, h.k4, ?_, ?_, ?_, ?_, ?_, ?_⟩
      · intro hcnd; exact h.k1 (by simpa [hpc, hnc] using hcnd)
      · intro hm; simp [hmd] at hm
      · intro hcl; simp [Trigger.isClose] at hcl
      · intro _ hcl; simp [Trigger.isClose] at hcl
      · intro _; exact h.k6 (by simp [hpc])
      · simp
      · simp
      · simp
      · simp
    · cases hs

theorem reach_invK {sp : Spec} (hcoop : sp.CoopClean) {s : Sys} (r : Reach sp noStopInClosed s) :
    InvK sp s := by
  induction r with
  | init => exact invK_init sp
  | step hr hH hs ih => exact step_invK hcoop (reach_inv hr) ih hH hs

end LndModel.C13
