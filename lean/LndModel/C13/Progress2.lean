/-
C13 — progress, part 2: under complete chain facts every stored resolver can make a step that
reduces the remaining work; the main goroutine can always make a step that reduces the rank.
-/
import LndModel.C13.Progress

namespace LndModel.C13

/-- under complete chain facts a running resolver with an unresolved record is never blocked: it
    checkpoints with strictly more progress, hands over to the nursery, or (contest resolver that
    sees our own spend) can take the other ready `select` case, which swaps. -/
theorem resRes_complete {sp : Spec} {f : Facts} {r : RunRes} {c : Contract} (hcomp : Complete sp f)
    (hc : sp.find? r.key = some c) (hrun : r.pc = .running) (hun : r.rc.resolved = false) :
    (∃ ms rec pc, resRes sp f r = .put ms rec pc ∧ r.rc.progress < rec.progress) ∨
    (resRes sp f r = .incubate ∧ r.handed = false) ∨
    (resRes sp f r = .die ∧ ∃ rec, resAlt sp f r = .put [] rec .running ∧ r.rc.progress < rec.progress) := by
  obtain ⟨_, hbd, hall⟩ := hcomp
  have hk := find?_spec_key hc
  obtain ⟨hexp, hsp, hs2⟩ := hall c (find?_mem hc)
  rw [hk] at hsp hs2
  obtain ⟨key, ⟨kind, incub, resolved⟩, rpc, handed⟩ := r
  simp only at hc hrun hun hsp hs2
  subst hrun hun
  have hh : f.height + 1 ≥ c.expiry := by omega
  have hs2' : key ∈ f.spent2 := by simpa using hs2
  cases hso : f.spendOf key with
  | none => simp [hso] at hsp
  | some who =>
    generalize hres : resRes sp f _ = res
    generalize halt : resAlt sp f _ = alt
    cases kind
    · -- oc
      cases who
      · simp [resRes, hc, hso] at hres; subst hres
        left; exact ⟨_, _, _, rfl, by cases incub <;> simp [Rec.progress]⟩
      · simp [resRes, hc, hso] at hres; subst hres
        simp [resAlt, hc, hso, hh] at halt; subst halt
        right; right
        exact ⟨rfl, _, rfl, by cases incub <;> simp [Rec.progress]⟩
    · -- to
      by_cases hlh : (c.legacy && !handed) = true
      · -- pre-anchor channel: this incarnation has not handed the htlc to the nursery yet
        have hh' : handed = false := by cases handed <;> simp_all
        simp [resRes, hc, hlh] at hres; subst hres
        right; left; exact ⟨rfl, hh'⟩
      · cases who
        · simp [resRes, hc, hso, hlh] at hres; subst hres
          left; exact ⟨_, _, _, rfl, by cases incub <;> simp [Rec.progress]⟩
        · by_cases h2 : c.twoStage = true
          · cases incub
            · simp [resRes, hc, hso, h2, hlh] at hres; subst hres
              left; exact ⟨_, _, _, rfl, by simp [Rec.progress]⟩
            · simp [resRes, hc, hso, h2, hs2', hlh] at hres; subst hres
              left; exact ⟨_, _, _, rfl, by simp [Rec.progress]⟩
          · simp [resRes, hc, hso, h2, hlh] at hres; subst hres
            left; exact ⟨_, _, _, rfl, by cases incub <;> simp [Rec.progress]⟩
    · -- ic
      simp [resRes, hc, hexp] at hres; subst hres
      left; exact ⟨_, _, _, rfl, by cases incub <;> simp [Rec.progress]⟩
    · -- su
      by_cases hleg : c.legacy = true
      · cases incub
        · cases handed
          · simp [resRes, hc, hleg] at hres; subst hres
            right; left; exact ⟨rfl, rfl⟩
          · simp [resRes, hc, hleg] at hres; subst hres
            left; exact ⟨_, _, _, rfl, by simp [Rec.progress]⟩
        · simp [resRes, hc, hleg, hs2'] at hres; subst hres
          left; exact ⟨_, _, _, rfl, by simp [Rec.progress]⟩
      · cases who
        · simp [resRes, hc, hso, hleg] at hres; subst hres
          left; exact ⟨_, _, _, rfl, by cases incub <;> simp [Rec.progress]⟩
        · by_cases h2 : c.twoStage = true
          · cases incub
            · simp [resRes, hc, hso, h2, hleg] at hres; subst hres
              left; exact ⟨_, _, _, rfl, by simp [Rec.progress]⟩
            · simp [resRes, hc, hso, h2, hs2', hleg] at hres; subst hres
              left; exact ⟨_, _, _, rfl, by simp [Rec.progress]⟩
          · simp [resRes, hc, hso, h2, hleg] at hres; subst hres
            left; exact ⟨_, _, _, rfl, by cases incub <;> simp [Rec.progress]⟩
    · -- cs
      simp [resRes, hc, hso] at hres; subst hres
      left; exact ⟨_, _, _, rfl, by cases incub <;> simp [Rec.progress]⟩
    · -- br
      simp [resRes, hc, hbd] at hres; subst hres
      left; exact ⟨_, _, _, rfl, by cases incub <;> simp [Rec.progress]⟩
    · -- an
      simp [resRes, hc, hso] at hres; subst hres
      left; exact ⟨_, _, _, rfl, by cases incub <;> simp [Rec.progress]⟩


/-! ### a resolver step reduces the remaining work -/

theorem handedBit_of_find {as : List RunRes} {k : Nat} {r : RunRes}
    (hf : as.find? (·.key == k) = some r) : handedBit as k = if r.handed then 0 else 1 := by
  unfold handedBit; rw [hf]

theorem term_setActive_ne {as : List RunRes} {k : Nat} {r r' : RunRes} (hr : r'.key = k)
    (hf : as.find? (·.key == k) = some r) {p : Nat × Rec} (hne : p.1 ≠ k) :
    term (setActive as k r') p = term as p := by
  simp only [term, handedBit_setActive hr hf, if_neg hne]

theorem term_setActive_same {as : List RunRes} {k : Nat} {r r' : RunRes} (hr : r'.key = k)
    (hf : as.find? (·.key == k) = some r) (hh : r'.handed = r.handed) (p : Nat × Rec) :
    term (setActive as k r') p = term as p := by
  by_cases hne : p.1 = k
  · simp [term, handedBit_setActive hr hf, hne, handedBit_of_find hf, hh]
  · exact term_setActive_ne hr hf hne

/-- the stored records with key `k` carry the record of the first launched resolver with key `k`. -/
theorem corr_rec {s : Sys} (hc : Corr s) {k : Nat} {r : RunRes}
    (hf : s.active.find? (·.key == k) = some r) {p : Nat × Rec} (hp : p ∈ s.log.contracts)
    (hpk : p.1 = k) : r.rc = p.2 ∧
      ((r.pc = .running ∧ p.2.resolved = false) ∨ (r.pc = .needDelete ∧ p.2.resolved = true)) := by
  obtain ⟨r0, h0, h1, h2⟩ := hc p hp
  rw [hpk, hf] at h0; cases h0
  exact ⟨h1, h2⟩

theorem resApply_put_work {sp : Spec} {s : Sys} {k : Nat} {r : RunRes} {ms : List (Nat × Bool)}
    {rec : Rec} {pc : RPc} (hl : InvL sp s) (hc : Corr s)
    (hf : s.active.find? (·.key == k) = some r) {p0 : Nat × Rec} (hp0 : p0 ∈ s.log.contracts)
    (hp0k : p0.1 = k) (hper : rec.kind.persisted = r.rc.kind.persisted)
    (hprog : r.rc.progress < rec.progress) :
    ∃ s', resApply s k r (.put ms rec pc) = some s' ∧ work s' < work s ∧ s'.pc = s.pc ∧
      s'.mem = s.mem ∧ s'.facts = s.facts := by
  have hk := (find?_key hf).2
  have hp : rec.kind.persisted = true := by
    rw [hper, (corr_rec hc hf hp0 hp0k).1]; exact hl.pers p0 hp0
  have hany : s.log.contracts.any (·.1 == k) = true := by
    simp only [List.any_eq_true]; exact ⟨p0, hp0, by simpa using hp0k⟩
  have hres : resApply s k r (.put ms rec pc) =
      some { s with msgs := s.msgs ++ ms,
                    log := { s.log with contracts := putRec s.log.contracts k rec },
                    active := setActive s.active k { r with rc := rec, pc := pc } } := by
    simp only [resApply, hp, if_true]
  refine ⟨_, hres, ?_, rfl, rfl, rfl⟩
  have hput : putRec s.log.contracts k rec =
      s.log.contracts.map (fun p => if p.1 == k then (k, rec) else p) := by
    unfold putRec; rw [if_pos hany]
  simp only [work, hput, List.map_map]
  have h4 := progress_le4 rec
  have hbit := handedBit_of_find hf
  refine sum_map_lt _ _ ?_ ⟨p0, hp0, ?_⟩
  · intro x hx
    by_cases hxk : x.1 = k
    · have hx2 := (corr_rec hc hf hx hxk).1
      simp only [Function.comp, hxk, beq_self_eq_true, if_true, term,
        handedBit_setActive (r' := { r with rc := rec, pc := pc }) hk hf, hbit, ← hx2]
      omega
    · have : (x.1 == k) = false := by simpa using hxk
      simp only [Function.comp, this, Bool.false_eq_true, if_false]
      rw [term_setActive_ne (by exact hk) hf hxk]
      exact Nat.le_refl _
  · have hx2 := (corr_rec hc hf hp0 hp0k).1
    simp only [Function.comp, hp0k, beq_self_eq_true, if_true, term,
      handedBit_setActive (r' := { r with rc := rec, pc := pc }) hk hf, hbit, ← hx2]
    omega

/-- in StateWaitingFullResolution (or between insert and its commit) with a non-empty log and
    complete chain facts, some resolver step is enabled, allowed, and reduces the work. -/
theorem res_progress {sp : Spec} {s : Sys} (hl : InvL sp s) (hc : Corr s)
    (hcomp : Complete sp s.facts) (hne : s.log.contracts ≠ []) :
    ∃ a s', (∃ k, a = .res k ∨ a = .resAlt k) ∧ outsideWindows sp s a ∧ step sp s a = some s' ∧
      work s' < work s ∧ s'.pc = s.pc ∧ s'.mem = s.mem ∧ s'.facts = s.facts := by
  obtain ⟨p0, hp0⟩ := List.exists_mem_of_ne_nil _ hne
  obtain ⟨r, hf, hrc, hpc⟩ := hc p0 hp0
  have hk := (find?_key hf).2
  obtain ⟨c, hcs⟩ := hl.spec p0 hp0
  rw [← hk] at hcs
  have hpers : r.rc.kind.persisted = true := by rw [hrc]; exact hl.pers p0 hp0
  rcases hpc with ⟨hrun, hun⟩ | ⟨hnd, _⟩
  · rw [← hrc] at hun
    rcases resRes_complete hcomp hcs hrun hun with ⟨ms, rec, pc, hres, hprog⟩ | ⟨hres, hh⟩ |
        ⟨hres, rec, halt, hprog⟩
    · obtain ⟨s', h1, h2, h3, h4, h5⟩ :=
        resApply_put_work (ms := ms) (pc := pc) hl hc hf hp0 rfl (resRes_put_facts hres).1 hprog
      refine ⟨.res p0.1, s', ⟨_, Or.inl rfl⟩, ?_, ?_, h2, h3, h4, h5⟩
      · intro r' hf'; rw [hf] at hf'; cases hf'; rw [hres]; intro h; cases h
      · simp only [step, resStep, hf, hres]; exact h1
    · have hstep : step sp s (.res p0.1) =
          some { s with nursery := if s.nursery.any (fun p => p.1 == p0.1 && p.2 == incubStage r.rc.kind) then s.nursery
                                   else s.nursery ++ [(p0.1, incubStage r.rc.kind)],
                        active := setActive s.active p0.1 { r with handed := true } } := by
        simp only [step, resStep, hf, hres, resApply]
      refine ⟨.res p0.1, _, ⟨_, Or.inl rfl⟩, ?_, hstep, ?_, rfl, rfl, rfl⟩
      · intro r' hf'; rw [hf] at hf'; cases hf'; rw [hres]; intro h; cases h
      · simp only [work]
        refine sum_map_lt _ _ ?_ ⟨p0, hp0, ?_⟩
        · intro x _
          simp only [term, handedBit_setActive (r' := { r with handed := true }) hk hf]
          split
          · rename_i hxk; rw [hxk, handedBit_of_find hf, hh]; simp
          · exact Nat.le_refl _
        · simp only [term, handedBit_setActive (r' := { r with handed := true }) hk hf, if_true,
            handedBit_of_find hf, hh]
          simp
    · obtain ⟨s', h1, h2, h3, h4, h5⟩ :=
        resApply_put_work (ms := []) (pc := .running) hl hc hf hp0 rfl (resAlt_put_facts halt).1 hprog
      refine ⟨.resAlt p0.1, s', ⟨_, Or.inr rfl⟩, trivial, ?_, h2, h3, h4, h5⟩
      simp only [step, resAltStep, hf, halt]; exact h1
  · have hres : resRes sp s.facts r = .del := by simp [resRes, hnd, hpers]
    have hstep : step sp s (.res p0.1) =
        some { s with log := { s.log with contracts := delRec s.log.contracts p0.1 },
                      resolvedKeys := p0.1 :: s.resolvedKeys,
                      active := setActive s.active p0.1 { r with pc := .finished } } := by
      simp only [step, resStep, hf, hres, resApply]
    refine ⟨.res p0.1, _, ⟨_, Or.inl rfl⟩, ?_, hstep, ?_, rfl, rfl, rfl⟩
    · intro r' hf'; rw [hf] at hf'; cases hf'; rw [hres]; intro h; cases h
    · simp only [work, delRec]
      refine sum_filter_lt _ _ _ ?_ ⟨p0, hp0, by simp, term_pos _ _⟩
      intro x _
      rw [term_setActive_same (r' := { r with pc := .finished }) hk hf rfl]
      exact Nat.le_refl _


/-! ### a step of the main goroutine reduces the rank -/

theorem work_congr {s s' : Sys} (h1 : s'.log.contracts = s.log.contracts) (h2 : s'.active = s.active) :
    work s' = work s := by
  simp only [work, h1, h2]

theorem work_nil {s : Sys} (h : s.log.contracts = []) : work s = 0 := by simp [work, h]

theorem leaveDefault_bc {hr : Bool} {t : Trigger} {d ms : List (Nat × Bool)}
    (h : leaveDefault hr t d = .commit ms .broadcastCommit) : t.isClose = false := by
  cases t <;> cases hr <;> simp [leaveDefault, closeTarget] at h <;> rfl

theorem advRes_commit_bc {sp : Spec} {s : Sys} {ms : List (Nat × Bool)}
    (h : advRes sp s = .commit ms .broadcastCommit) : s.mem = .default ∧ s.trig.isClose = false := by
  unfold advRes at h
  split at h
  · rename_i hm
    refine ⟨hm, ?_⟩
    unfold defaultRes at h
    split at h
    · split at h
      · cases h
      · exact leaveDefault_bc h
    · split at h
      · cases h
      · exact leaveDefault_bc h
  · have := leaveOnClose_next (by intro _ _ hh; cases hh) h
    rcases this with h' | h' <;> cases h'
  · have := leaveOnClose_next (by intro _ _ hh; cases hh) h
    rcases this with h' | h' <;> cases h'
  · unfold closedRes at h
    split at h
    · cases h
    · split at h
      · cases h
      · split at h <;> cases h
  · split at h <;> cases h
  · cases h

theorem rank_adv_pre {sp : Spec} {s : Sys} (hpc : s.pc = .adv) (hpre : s.mem.preClosed = true) :
    8 + 10 * sp.contracts.length ≤ rank sp s := by
  unfold rank
  rw [hpc]
  cases hm : s.mem <;> simp [hm, AState.preClosed] at hpre ⊢ <;> split <;> omega

theorem main_progress {sp : Spec} {s : Sys} (hi : Inv s) (hp : InvP s)
    (hclose : s.facts.closeSeen = true) (hnf : s.pc ≠ .finished)
    (hnB : ¬(s.pc = .idle ∧ s.mem = .waitingFull ∧ s.log.contracts ≠ [])) :
    ∃ s', mainStep sp s = some s' ∧ mu sp s' < mu sp s ∧ s'.facts = s.facts := by
  cases hpc : s.pc with
  | finished => exact absurd hpc hnf
  | idle =>
    rcases hp.idle hpc with ⟨hpre, hpd⟩ | hw
    · -- a pre-close state: the close event is ready
      have hes : s.evSeen = false := by
        cases he : s.evSeen with
        | false => rfl
        | true => rcases hp.ev he hpd with h' | h' <;> simp [hpc] at h'
      have her : eventReady s = true := by
        simp only [eventReady, hclose, hpd, hes]
        cases hm : s.mem <;> simp [hm, AState.preClosed] at hpre ⊢
      have hnw : s.mem ≠ .waitingFull := by intro hm; simp [hm, AState.preClosed] at hpre
      simp only [mainStep, hpc, her, if_true]
      cases hcl : sp.close
      all_goals refine ⟨_, rfl, ?_, rfl⟩
      all_goals simp only [mu, rank, work, hpc, hnw, if_false]
      all_goals try omega
      -- cooperative close: straight to `advanceState(coopCloseTrigger)`
      cases hm : s.mem <;> simp [hm, AState.preClosed, Trigger.isClose] at hpre ⊢ <;> omega
    · have hemp : s.log.contracts = [] := by
        cases hcs : s.log.contracts with
        | nil => rfl
        | cons x xs => exact absurd ⟨hpc, hw, by simp [hcs]⟩ hnB
      have her : eventReady s = false := by simp [eventReady, hw]
      simp only [mainStep, hpc, her, Bool.false_eq_true, if_false, hw, hemp, beq_self_eq_true,
        List.isEmpty_nil, Bool.and_self, if_true]
      refine ⟨_, rfl, ?_, rfl⟩
      simp only [mu, rank, work, hpc, hw, hemp, if_true]
      omega
  | evLogCS =>
    simp only [mainStep, hpc]
    refine ⟨_, rfl, ?_, rfl⟩
    simp only [mu, rank, work, hpc]
    omega
  | evMark =>
    have hpre := hp.evpc (Or.inr (Or.inl hpc))
    simp only [mainStep, hpc]
    refine ⟨_, rfl, ?_, rfl⟩
    simp only [mu, rank, work, hpc]
    cases hm : s.mem <;> simp [hm, AState.preClosed, trigger_isClose] at hpre ⊢ <;> omega
  | bcPublish =>
    simp only [mainStep, hpc]
    refine ⟨_, rfl, ?_, rfl⟩
    simp only [mu, rank, work, hpc]
    split <;> omega
  | ccCommit =>
    simp only [mainStep, hpc]
    refine ⟨_, rfl, ?_, rfl⟩
    simp only [mu, rank, work, hpc]
    split <;> omega
  | wipe =>
    simp only [mainStep, hpc]
    refine ⟨_, rfl, ?_, rfl⟩
    simp only [mu, rank, work, hpc]
    simp only [List.map_nil, List.sum_nil]; omega
  | adv =>
    have hme := hi.memEq (by simp [hpc])
    cases hadv : advRes sp s with
    | stay =>
      simp only [mainStep, hpc, hadv]
      rcases advRes_stay_shape hadv with ⟨hm, ht⟩ | ⟨hm, ht⟩ | ⟨hm, hr⟩ | hm
      · have hrl : (s.relaunch && s.mem == .waitingFull) = false := by simp [hm]
        simp only [hrl, Bool.false_eq_true, if_false]
        refine ⟨_, rfl, ?_, rfl⟩
        simp only [mu, rank, work, hpc, hm, ht, Trigger.isClose, Bool.false_eq_true, if_false, reduceCtorEq]
        omega
      · have hrl : (s.relaunch && s.mem == .waitingFull) = false := by simp [hm]
        simp only [hrl, Bool.false_eq_true, if_false]
        refine ⟨_, rfl, ?_, rfl⟩
        simp only [mu, rank, work, hpc, hm, ht, Bool.false_eq_true, if_false, reduceCtorEq]
        omega
      · have := (hp.cc (by rw [← hme]; exact hm) hpc).2.2
        rw [this] at hr; cases hr
      · have hne : s.log.contracts ≠ [] := by
          intro he
          simp [advRes, hm, he] at hadv
        by_cases hrl : (s.relaunch && s.mem == .waitingFull) = true
        · simp only [hrl, if_true]
          have hact : s.active = [] := by
            simp only [Bool.and_eq_true] at hrl; exact (hp.rl hrl.1).2.2.1
          refine ⟨_, rfl, ?_, rfl⟩
          simp only [mu, rank, work, hpc, hm, hne, if_false, if_true]
          have : (List.map (term (relaunched sp s)) s.log.contracts).sum ≤
              (List.map (term s.active) s.log.contracts).sum := by
            rw [hact]
            exact sum_map_le _ _ (fun x _ => term_le_nil _ x)
          omega
        · simp only [hrl, if_false]
          refine ⟨_, rfl, ?_, rfl⟩
          simp only [mu, rank, work, hpc, hm, hne, if_false, if_true]
          omega
    | commit ms next =>
      simp only [mainStep, hpc, hadv]
      refine ⟨_, rfl, ?_, rfl⟩
      simp only [mu, work]
      rcases advRes_commit_shape hadv with ⟨hpre, hn⟩ | ⟨hnpre, hn, hemp⟩
      · have h8 := rank_adv_pre (sp := sp) hpc hpre
        rcases hn with hn | hn | hn
        · subst hn
          obtain ⟨hm, ht⟩ := advRes_commit_bc hadv
          have h15 : rank sp s = 15 + 10 * sp.contracts.length := by simp [rank, hpc, hm, ht]
          rw [h15]
          simp only [rank, hpc, ht, Bool.false_eq_true, if_false]
          omega
        · subst hn
          generalize rank sp s = R at h8 ⊢
          simp only [rank, hpc]; omega
        · subst hn
          generalize rank sp s = R at h8 ⊢
          simp only [rank, hpc]; omega
      · subst hn
        cases hm : s.mem
        · simp [hm, AState.preClosed] at hnpre
        · simp [hm, AState.preClosed] at hnpre
        · have hR : rank sp s = 7 + 10 * sp.contracts.length := by simp [rank, hpc, hm]
          rw [hR]; simp only [rank, hpc]; omega
        · have hR : rank sp s = 3 := by simp [rank, hpc, hm, hemp]
          rw [hR]; simp only [rank, hpc]; omega
        · simp [advRes, hm] at hadv
        · simp [hm, AState.preClosed] at hnpre
    | markBroadcast =>
      have hm := advRes_markBroadcast_mem hadv
      have ht : s.trig.isClose = false := by
        cases htr : s.trig <;> simp [advRes, hm, leaveOnClose, htr] at hadv <;> rfl
      simp only [mainStep, hpc, hadv]
      refine ⟨_, rfl, ?_, rfl⟩
      simp only [mu, rank, work, hpc, hm, ht, Bool.false_eq_true, if_false]
      omega
    | insert ms fs =>
      have hm := advRes_insert_mem hadv
      obtain ⟨hemp, _, _⟩ := hp.cc (by rw [← hme]; exact hm) hpc
      simp only [mainStep, hpc, hadv]
      refine ⟨_, rfl, ?_, rfl⟩
      simp only [mu, rank, hpc, hm]
      rw [work_nil hemp]
      refine Nat.lt_of_le_of_lt (Nat.add_le_add_left (work_le _) _) ?_
      simp only [hemp]
      have h2 := putAll_length (freshRecs sp s.trig) []
      have h3 := freshRecs_length sp s.trig
      simp only [List.length_nil] at h2
      omega
    | notify =>
      have hm := advRes_notify_mem hadv
      simp only [mainStep, hpc, hadv]
      refine ⟨_, rfl, ?_, rfl⟩
      simp only [mu, rank, work, hpc, hm]
      omega


/-! ### the progress theorem -/

/-- actions of the node itself: no stop, no chain fact, no user request, no nursery step. -/
def Action.isNode : Action → Bool
  | .main | .res _ | .resAlt _ => true
  | _ => false

/-- MEASURE STEP: in every reachable state of the fragment that is not finished, once the chain has
    delivered its facts, some action of the node is enabled, allowed by the schedule predicate, and
    strictly decreases `mu`. -/
theorem progress_step {sp : Spec} (hcoop : sp.CoopClean) (hkn : sp.KeysNodup) {s : Sys}
    (h : Reach sp (outsideWindows sp) s) (hcomp : Complete sp s.facts) (hnf : s.pc ≠ .finished) :
    ∃ a s', a.isNode = true ∧ outsideWindows sp s a ∧ step sp s a = some s' ∧ mu sp s' < mu sp s ∧
      s'.facts = s.facts := by
  have hi := reach_inv h
  have hl := reach_invL h
  obtain ⟨hp, _⟩ := reach_invP hcoop hkn h
  by_cases hB : s.pc = .idle ∧ s.mem = .waitingFull ∧ s.log.contracts ≠ []
  · obtain ⟨hpc, hm, hne⟩ := hB
    have hnr := not_relaunch_of_pc hp (by simp [hpc]) (by simp [hpc])
    obtain ⟨a, s', ⟨k, hak⟩, hH, hs, hw, h3, h4, h5⟩ :=
      res_progress hl (hp.corr (Or.inr ⟨hm, hnr⟩)) hcomp hne
    refine ⟨a, s', ?_, hH, hs, ?_, h5⟩
    · rcases hak with rfl | rfl <;> rfl
    · simp only [mu, rank, h3, h4, hpc, hm]
      omega
  · obtain ⟨s', hs, hmu, hf⟩ := main_progress hi hp hcomp.1 hnf hB
    exact ⟨.main, s', rfl, trivial, hs, hmu, hf⟩

theorem progress_bounded {sp : Spec} (hcoop : sp.CoopClean) (hkn : sp.KeysNodup) :
    ∀ (n : Nat) (s : Sys), Reach sp (outsideWindows sp) s → Complete sp s.facts → mu sp s ≤ n →
    ∃ acts : List Action, acts.length ≤ n ∧ (∀ a ∈ acts, a.isNode = true) ∧
      Reach sp (outsideWindows sp) (run sp s acts) ∧ (run sp s acts).pc = .finished ∧
      (run sp s acts).facts = s.facts := by
  intro n
  induction n with
  | zero =>
    intro s h hcomp hmu
    by_cases hnf : s.pc = .finished
    · exact ⟨[], by simp, by simp, h, hnf, rfl⟩
    · obtain ⟨a, s', _, _, _, hlt, _⟩ := progress_step hcoop hkn h hcomp hnf
      omega
  | succ n ih =>
    intro s h hcomp hmu
    by_cases hnf : s.pc = .finished
    · exact ⟨[], by simp, by simp, h, hnf, rfl⟩
    · obtain ⟨a, s', hnode, hH, hs, hlt, hf⟩ := progress_step hcoop hkn h hcomp hnf
      obtain ⟨acts, hlen, hall, hr, hfin, hfacts⟩ :=
        ih s' (Reach.step h hH hs) (by rw [hf]; exact hcomp) (by omega)
      refine ⟨a :: acts, by simp; omega, ?_, ?_, ?_, ?_⟩
      · intro b hb
        simp only [List.mem_cons] at hb
        rcases hb with rfl | hb
        · exact hnode
        · exact hall b hb
      · simpa [run, hs] using hr
      · simpa [run, hs] using hfin
      · simp only [run, hs, Option.getD_some]; rw [hfacts, hf]

/-- delivering chain facts keeps a state inside the fragment and just adds the facts. -/
theorem run_facts {sp : Spec} : ∀ (fs : List Fact) (s : Sys), Reach sp (outsideWindows sp) s →
    Reach sp (outsideWindows sp) (run sp s (fs.map .fact)) ∧
    (run sp s (fs.map .fact)).facts = fs.foldl Facts.add s.facts ∧
    (run sp s (fs.map .fact)).log = s.log := by
  intro fs
  induction fs with
  | nil => intro s h; exact ⟨h, rfl, rfl⟩
  | cons f rest ih =>
    intro s h
    simp only [List.map_cons, run, step, Option.getD_some, List.foldl_cons]
    exact ih _ (Reach.step (a := .fact f) h trivial rfl)

theorem run_append (sp : Spec) : ∀ (a b : List Action) (s : Sys),
    run sp s (a ++ b) = run sp (run sp s a) b := by
  intro a
  induction a with
  | nil => intro b s; rfl
  | cons x xs ih => intro b s; simp only [List.cons_append, run]; exact ih b _

end LndModel.C13
