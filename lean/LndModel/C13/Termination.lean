/-
C13 (round 7) — EVERY enabled node action makes progress, hence every run of node actions
terminates (not only: a terminating continuation exists).

Measure: the lexicographic pair `(mu sp s, awork s)`; `awork` counts the remaining steps of the
key-less (anchor) resolvers, whose steps leave `mu` alone.
-/
import LndModel.C13.Props

namespace LndModel.C13

/-! ### strict progress of every checkpoint -/

theorem resRes_put_strict {sp : Spec} {f : Facts} {r : RunRes} {ms : List (Nat × Bool)} {rec : Rec}
    {pc : RPc} (h : resRes sp f r = .put ms rec pc) (hun : r.rc.resolved = false) :
    r.rc.progress < rec.progress := by
  obtain ⟨key, ⟨kind, incub, resolved⟩, rpc, handed⟩ := r
  simp only at hun
  subst hun
  unfold resRes at h
  simp only at h
  repeat' split at h
  all_goals first
    | (cases h; done)
    | (cases h; cases incub <;> simp_all [Rec.progress])

theorem resAlt_put_strict {sp : Spec} {f : Facts} {r : RunRes} {ms : List (Nat × Bool)} {rec : Rec}
    {pc : RPc} (h : resAlt sp f r = .put ms rec pc) : r.rc.progress < rec.progress := by
  obtain ⟨key, ⟨kind, incub, resolved⟩, rpc, handed⟩ := r
  unfold resAlt at h
  simp only at h
  repeat' split at h
  all_goals first
    | (cases h; done)
    | (cases h; cases incub <;> cases resolved <;> simp_all [Rec.progress])

/-! ### remaining work of the key-less resolvers -/

def aw : Option RunRes → Nat
  | none => 0
  | some r =>
    if r.rc.kind.persisted then 0 else
      match r.pc with
      | .running => 2
      | .needDelete => 1
      | _ => 0

/-- per launched resolver: the remaining steps of the FIRST resolver with its key, if that one is
    key-less (anchor): report (`running → needDelete`), empty `ResolveContract` (`→ finished`). -/
def awork (s : Sys) : Nat := (s.active.map fun a => aw (s.active.find? (·.key == a.key))).sum

theorem setActive_keys (as : List RunRes) (k : Nat) (r' : RunRes) (hr : r'.key = k) :
    (setActive as k r').map (·.key) = as.map (·.key) := by
  induction as with
  | nil => rfl
  | cons a rest ih =>
    simp only [setActive, List.map_cons] at ih ⊢
    rw [ih]
    by_cases h : a.key = k
    · simp [h, hr]
    · simp [h]

theorem awork_eq (as : List RunRes) :
    (as.map fun a => aw (as.find? (·.key == a.key))).sum =
      ((as.map (·.key)).map fun k => aw (as.find? (·.key == k))).sum := by
  rw [List.map_map]; rfl

/-- a resolver step that replaces the first resolver with key `k` by `r'`: the anchor work changes
    only in the terms of key `k`. -/
theorem awork_setActive {s : Sys} {k : Nat} {r r' : RunRes} (hr : r'.key = k)
    (hf : s.active.find? (·.key == k) = some r) :
    (aw (some r') ≤ aw (some r) → ((setActive s.active k r').map fun a =>
        aw ((setActive s.active k r').find? (·.key == a.key))).sum ≤ awork s) ∧
    (aw (some r') < aw (some r) → ((setActive s.active k r').map fun a =>
        aw ((setActive s.active k r').find? (·.key == a.key))).sum < awork s) := by
  have hterm : ∀ k', aw ((setActive s.active k r').find? (·.key == k')) =
      if k' = k then aw (some r') else aw (s.active.find? (·.key == k')) := by
    intro k'
    by_cases hk : k' = k
    · subst hk; rw [find?_setActive_eq hr hf, if_pos rfl]
    · rw [find?_setActive_ne hr hk, if_neg hk]
  rw [awork, awork_eq, awork_eq s.active, setActive_keys _ _ _ hr]
  have hkm : k ∈ s.active.map (·.key) := by
    have := find?_key hf
    exact List.mem_map.mpr ⟨r, this.1, this.2⟩
  constructor
  · intro hle
    refine sum_map_le _ _ ?_
    intro k' _
    rw [hterm]
    split
    · rename_i h; rw [h, hf]; exact hle
    · exact Nat.le_refl _
  · intro hlt
    refine sum_map_lt _ _ ?_ ⟨k, hkm, ?_⟩
    · intro k' _
      rw [hterm]
      split
      · rename_i h; rw [h, hf]; exact Nat.le_of_lt hlt
      · exact Nat.le_refl _
    · rw [hterm, if_pos rfl, hf]; exact hlt

/-! ### launched resolvers always correspond to the log (on the fragment) -/

theorem corr_of_active {sp : Spec} {s : Sys} (hi : Inv s) (hp : InvP s) (hk : InvK sp s)
    (hne : s.active ≠ []) : Corr s := by
  have hempty : s.log.contracts = [] → Corr s := by
    intro he p hpm; rw [he] at hpm; simp at hpm
  by_cases hfin : s.pc = .finished
  · exact hempty (hi.done (Or.inr (hk.k9 hfin)))
  have hmem := hi.memEq hfin
  cases hm : s.mem with
  | default => exact absurd (hi.pre (by rw [← hmem, hm]; rfl)).2 hne
  | broadcastCommit => exact absurd (hi.pre (by rw [← hmem, hm]; rfl)).2 hne
  | commitBroadcasted => exact absurd (hi.pre (by rw [← hmem, hm]; rfl)).2 hne
  | fullyResolved => exact hempty (hi.done (Or.inl (by rw [← hmem, hm])))
  | waitingFull =>
    cases hr : s.relaunch with
    | true => exact absurd (hp.rl hr).2.2.1 hne
    | false => exact hp.corr (Or.inr ⟨hm, hr⟩)
  | contractClosed =>
    cases hpc : s.pc with
    | finished => exact absurd hpc hfin
    | ccCommit => exact hp.corr (Or.inl hpc)
    | adv => exact absurd (hp.cc (by rw [← hmem, hm]) hpc).2.1 hne
    | wipe => exact hempty (hi.done (Or.inr (hk.k10 hpc)))
    | idle =>
      rcases hp.idle hpc with ⟨h, _⟩ | h
      · rw [hm] at h; cases h
      · rw [hm] at h; cases h
    | evLogCS => have := hp.evpc (Or.inl hpc); rw [hm] at this; cases this
    | evMark => have := hp.evpc (Or.inr (Or.inl hpc)); rw [hm] at this; cases this
    | bcPublish => have := hp.evpc (Or.inr (Or.inr hpc)); rw [hm] at this; cases this

/-! ### every resolver step -/

/-- lexicographic descent of `(mu, awork)`. -/
def Descends (sp : Spec) (s s' : Sys) : Prop :=
  mu sp s' < mu sp s ∨ (mu sp s' = mu sp s ∧ awork s' < awork s)

theorem rank_le_of {sp : Spec} {s s' : Sys} (h1 : s'.pc = s.pc) (h2 : s'.mem = s.mem)
    (h3 : s'.trig = s.trig) (h4 : s.log.contracts = [] → s'.log.contracts = []) :
    rank sp s' ≤ rank sp s := by
  simp only [rank, h1, h2, h3]
  by_cases he : s.log.contracts = []
  · rw [h4 he, he]; exact Nat.le_refl _
  · cases hpc : s.pc <;> simp only [] <;> try exact Nat.le_refl _
    cases hm : s.mem <;> simp only [] <;> try exact Nat.le_refl _
    simp only [he, if_false]; split <;> omega

theorem rank_eq_of {sp : Spec} {s s' : Sys} (h1 : s'.pc = s.pc) (h2 : s'.mem = s.mem)
    (h3 : s'.trig = s.trig) (h4 : s'.log.contracts = s.log.contracts) :
    rank sp s' = rank sp s := by
  simp only [rank, h1, h2, h3, h4]

/-- a `resApply` result that is not `die`: `mu` drops, or `mu` stays and the anchor work drops. -/
theorem resApply_descends {sp : Spec} {s s' : Sys} {k : Nat} {r : RunRes} {rr : ResRes}
    (hi : Inv s) (hl : InvL sp s) (hc : Corr s) (hf : s.active.find? (·.key == k) = some r)
    (hnd : rr ≠ .die)
    (hput : ∀ ms rec pc, rr = .put ms rec pc →
      rec.kind.persisted = r.rc.kind.persisted ∧ r.pc = .running ∧
      (rec.kind.persisted = true → r.rc.resolved = false → r.rc.progress < rec.progress) ∧
      (rec.kind.persisted = false → pc = .needDelete))
    (hinc : rr = .incubate → r.pc = .running ∧ r.rc.kind.persisted = true ∧ r.handed = false)
    (hdel : rr = .del → r.pc = .needDelete ∧ r.rc.kind.persisted = true)
    (hnoop : rr = .noop → r.pc = .needDelete ∧ r.rc.kind.persisted = false)
    (hs : resApply s k r rr = some s') : Descends sp s s' ∧ s'.facts = s.facts := by
  obtain ⟨hrm, hk⟩ := find?_key hf
  obtain ⟨e1, e2, _, _, _, e6, _, _, e9⟩ := resApply_same hs
  refine ⟨?_, e9⟩
  -- a stored record exists for every persisted resolver that still runs
  have hstored : r.rc.kind.persisted = true → (r.pc = .running ∨ r.pc = .needDelete) →
      ∃ p0 ∈ s.log.contracts, p0.1 = k := by
    intro h1 h2
    have := hi.act r hrm h1 h2
    simp only [Log.keys, List.mem_map] at this
    obtain ⟨p0, hp0, hp0k⟩ := this
    exact ⟨p0, hp0, by rw [hp0k, hk]⟩
  have hvac : ∀ {l : List (Nat × Rec)}, ∀ p0 ∈ s.log.contracts, s.log.contracts = [] → l = [] := by
    intro l p0 hp0 he; rw [he] at hp0; simp at hp0
  unfold resApply at hs
  split at hs
  · cases hs
  · exact absurd rfl hnd
  · -- incubate: the hand-over bit of the stored record drops
    obtain ⟨hrun, hper, hh⟩ := hinc rfl
    obtain ⟨p0, hp0, hp0k⟩ := hstored hper (Or.inl hrun)
    cases hs
    left
    simp only [mu]
    rw [rank_eq_of (sp := sp) (s := s) rfl rfl rfl rfl]
    simp only [work]
    apply Nat.add_lt_add_left
    refine sum_map_lt _ _ ?_ ⟨p0, hp0, ?_⟩
    · intro x _
      simp only [term, handedBit_setActive (r' := { r with handed := true }) hk hf]
      split
      · rename_i hxk; rw [hxk, handedBit_of_find hf, hh]; simp
      · exact Nat.le_refl _
    · simp only [term, handedBit_setActive (r' := { r with handed := true }) hk hf, hp0k, if_true,
        handedBit_of_find hf, hh]
      simp
  · -- put
    rename_i ms rec pc
    obtain ⟨hper, hrun, hprog', hanpc⟩ := hput ms rec pc rfl
    by_cases hp : rec.kind.persisted = true
    · obtain ⟨p0, hp0, hp0k⟩ := hstored (hper ▸ hp) (Or.inl hrun)
      have hprog : r.rc.progress < rec.progress := by
        apply hprog' hp
        obtain ⟨h1, h2⟩ := corr_rec hc hf hp0 hp0k
        rcases h2 with ⟨_, h⟩ | ⟨h, _⟩
        · rw [h1]; exact h
        · rw [hrun] at h; cases h
      obtain ⟨s'', h1, h2, h3, h4, _⟩ :=
        resApply_put_work (ms := ms) (pc := pc) hl hc hf hp0 hp0k hper hprog
      have : resApply s k r (.put ms rec pc) = some s' := by simpa [resApply] using hs
      rw [this] at h1; cases h1
      left
      have hrk := rank_le_of (sp := sp) e1 e2 e6 (hvac p0 hp0)
      simp only [mu]; omega
    · -- key-less resolver: the log is untouched, the anchor work drops
      have hp' : rec.kind.persisted = false := by simpa using hp
      simp only [hp', Bool.false_eq_true, if_false] at hs
      cases hs
      right
      have hrp : r.rc.kind.persisted = false := by rw [← hper]; exact hp'
      constructor
      · simp only [mu]
        rw [rank_eq_of (sp := sp) (s := s) rfl rfl rfl rfl]
        simp only [work]
        congr 1
        apply congrArg List.sum
        apply List.map_congr_left
        intro p _
        exact term_setActive_same (r' := { r with rc := rec, pc := pc }) hk hf rfl p
      · refine (awork_setActive (r' := { r with rc := rec, pc := pc }) hk hf).2 ?_
        simp only [aw, hp', hrp, Bool.false_eq_true, if_false, hrun, hanpc hp']
        omega
  · -- del
    obtain ⟨hnd', hper⟩ := hdel rfl
    obtain ⟨p0, hp0, hp0k⟩ := hstored hper (Or.inr hnd')
    cases hs
    left
    have hrk := rank_le_of (sp := sp) (s := s)
      (s' := { s with log := { s.log with contracts := delRec s.log.contracts k },
                      resolvedKeys := k :: s.resolvedKeys,
                      active := setActive s.active k { r with pc := .finished } })
      rfl rfl rfl (hvac p0 hp0)
    simp only [mu]
    refine Nat.lt_of_le_of_lt (Nat.add_le_add_right hrk _) ?_
    simp only [work, delRec]
    apply Nat.add_lt_add_left
    refine sum_filter_lt _ _ _ ?_ ⟨p0, hp0, by simp [hp0k], term_pos _ _⟩
    intro x _
    rw [term_setActive_same (r' := { r with pc := .finished }) hk hf rfl]
    exact Nat.le_refl _
  · -- noop: the empty `ResolveContract` of a key-less resolver
    obtain ⟨hnd', hper⟩ := hnoop rfl
    cases hs
    right
    constructor
    · simp only [mu]
      rw [rank_eq_of (sp := sp) (s := s) rfl rfl rfl rfl]
      simp only [work]
      congr 1
      apply congrArg List.sum
      apply List.map_congr_left
      intro p _
      exact term_setActive_same (r' := { r with pc := .finished }) hk hf rfl p
    · refine (awork_setActive (r' := { r with pc := .finished }) hk hf).2 ?_
      simp only [aw, hper, Bool.false_eq_true, if_false, hnd']
      omega

/-! ### shape of the resolver results -/

theorem resRes_put_anchor {sp : Spec} {f : Facts} {r : RunRes} {ms : List (Nat × Bool)} {rec : Rec}
    {pc : RPc} (h : resRes sp f r = .put ms rec pc) (hp : rec.kind.persisted = false) :
    pc = .needDelete := by
  obtain ⟨key, ⟨kind, incub, resolved⟩, rpc, handed⟩ := r
  unfold resRes at h
  simp only at h
  repeat' split at h
  all_goals first
    | (cases h; done)
    | (cases h; simp_all [RKind.persisted])

theorem resRes_incubate {sp : Spec} {f : Facts} {r : RunRes} (h : resRes sp f r = .incubate) :
    r.pc = .running ∧ r.rc.kind.persisted = true ∧ r.handed = false := by
  obtain ⟨key, ⟨kind, incub, resolved⟩, rpc, handed⟩ := r
  unfold resRes at h
  simp only at h
  repeat' split at h
  all_goals first
    | (cases h; done)
    | (simp_all [RKind.persisted])

theorem resRes_noop_pc {sp : Spec} {f : Facts} {r : RunRes} (h : resRes sp f r = .noop) :
    r.pc = .needDelete := by
  unfold resRes at h
  repeat' split at h
  all_goals first | (cases h; done) | assumption

theorem resAlt_cases {sp : Spec} {f : Facts} {r : RunRes} :
    resAlt sp f r = .blocked ∨ ∃ rec, resAlt sp f r = .put [] rec .running := by
  unfold resAlt
  repeat' split
  all_goals first | (left; rfl) | (right; exact ⟨_, rfl⟩)

/-! ### every enabled node action -/

theorem mainStep_not_blocked {sp : Spec} {s s' : Sys} (h : mainStep sp s = some s') :
    s.pc ≠ .finished ∧ ¬(s.pc = .idle ∧ s.mem = .waitingFull ∧ s.log.contracts ≠ []) := by
  constructor
  · intro hpc; simp [mainStep, hpc] at h
  · rintro ⟨hpc, hm, hne⟩
    have he : eventReady s = false := by simp [eventReady, hm]
    have hemp : s.log.contracts.isEmpty = false := by simp [List.isEmpty_eq_false_iff, hne]
    simp [mainStep, hpc, he, hm, hemp] at h

/-- MEASURE STEP, universal form: in every state reachable outside the defect windows in which
    the close has been seen, EVERY enabled and allowed node action (`main`, `res k`, `resAlt k`)
    strictly decreases `mu`, except the two steps of a key-less anchor resolver (report, empty
    `ResolveContract`), which keep `mu` and strictly decrease `awork`. -/
theorem node_action_descends {sp : Spec} (hcoop : sp.CoopClean) (hkn : sp.KeysNodup) {s s' : Sys}
    (h : Reach sp (outsideWindows sp) s) (hclose : s.facts.closeSeen = true) {a : Action}
    (hnode : a.isNode = true) (hH : outsideWindows sp s a) (hs : step sp s a = some s') :
    Descends sp s s' ∧ s'.facts = s.facts := by
  have hi := reach_inv h
  have hl := reach_invL h
  obtain ⟨hp, hk⟩ := reach_invP hcoop hkn h
  cases a with
  | main =>
    simp only [step] at hs
    obtain ⟨hnf, hnB⟩ := mainStep_not_blocked hs
    obtain ⟨s'', hs'', hmu, hf⟩ := main_progress hi hp hclose hnf hnB
    rw [hs] at hs''; cases hs''
    exact ⟨Or.inl hmu, hf⟩
  | res k =>
    simp only [step, resStep] at hs
    cases hf : s.active.find? (·.key == k) with
    | none => simp [hf] at hs
    | some r =>
      simp only [hf] at hs
      have hne : s.active ≠ [] := by intro he; rw [he] at hf; simp at hf
      have hc := corr_of_active hi hp hk hne
      refine resApply_descends hi hl hc hf (hH r hf) ?_ ?_ ?_ ?_ hs
      · intro ms rec pc hrr
        exact ⟨(resRes_put_facts hrr).1, (resRes_put_facts hrr).2,
          fun _ hun => resRes_put_strict hrr hun, resRes_put_anchor hrr⟩
      · intro hrr; exact resRes_incubate hrr
      · intro hrr; exact ⟨resRes_del_pc hrr, resRes_del hrr⟩
      · intro hrr; exact ⟨resRes_noop_pc hrr, resRes_noop hrr⟩
  | resAlt k =>
    simp only [step, resAltStep] at hs
    cases hf : s.active.find? (·.key == k) with
    | none => simp [hf] at hs
    | some r =>
      simp only [hf] at hs
      have hne : s.active ≠ [] := by intro he; rw [he] at hf; simp at hf
      have hc := corr_of_active hi hp hk hne
      rcases resAlt_cases (sp := sp) (f := s.facts) (r := r) with hb | ⟨rec, hput⟩
      · rw [hb] at hs; simp [resApply] at hs
      · rw [hput] at hs
        refine resApply_descends hi hl hc hf (by intro hh; cases hh) ?_ ?_ ?_ ?_ hs
        · intro ms rec' pc hrr
          cases hrr
          refine ⟨(resAlt_put_facts hput).1, (resAlt_put_facts hput).2,
            fun _ _ => resAlt_put_strict hput, ?_⟩
          intro hp'
          have h2 := (resAlt_put_out hput).1
          cases hkd : rec.kind <;> simp [hkd, RKind.persisted, RKind.isOut] at hp' h2
        · intro hh; cases hh
        · intro hh; cases hh
        · intro hh; cases hh
  | crash => cases hnode
  | fact f => cases hnode
  | forceClose => cases hnode
  | nursery k => cases hnode

/-! ### every run of node actions terminates -/

/-- `NodeStep sp s' s`: `s'` is reached from `s` (a state of the fragment that has seen the close)
    by one enabled, allowed node action. -/
def NodeStep (sp : Spec) (s' s : Sys) : Prop :=
  Reach sp (outsideWindows sp) s ∧ s.facts.closeSeen = true ∧
    ∃ a, a.isNode = true ∧ outsideWindows sp s a ∧ step sp s a = some s'

/-- TERMINATION, universal form: the node-step relation is well-founded - there is NO infinite
    sequence of node actions from any state of the fragment, whatever the interleaving of the main
    goroutine and the resolvers (Go's `select` included). Together with `progress_step` (a state with
    complete chain facts that is not finished always has an enabled node action) this is "every fair
    run terminates", not only "a terminating continuation exists". -/
theorem node_runs_terminate (sp : Spec) (hcoop : sp.CoopClean) (hkn : sp.KeysNodup) :
    WellFounded (NodeStep sp) := by
  have hwf : WellFounded (Prod.Lex (fun a b : Nat => a < b) (fun a b : Nat => a < b)) :=
    (Prod.lex Nat.lt_wfRel Nat.lt_wfRel).wf
  refine Subrelation.wf ?_ (InvImage.wf (fun s => (mu sp s, awork s)) hwf)
  intro s' s hstep
  obtain ⟨hr, hclose, a, hnode, hH, hs⟩ := hstep
  have hd := (node_action_descends hcoop hkn hr hclose hnode hH hs).1
  simp only [InvImage]
  rcases hd with hlt | ⟨heq, hlt⟩
  · exact Prod.Lex.left _ _ hlt
  · rw [heq]; exact Prod.Lex.right _ hlt

/-- a state of the fragment with complete chain facts in which no node action is enabled (a
    MAXIMAL run of node actions has ended there) is terminated: the channel is marked fully
    resolved, the log is empty, every stateful contract of the scenario has been resolved. -/
theorem maximal_node_run_terminated (sp : Spec) (hce : sp.CoopEmpty) (hkn : sp.KeysNodup) (s : Sys)
    (h : Reach sp (outsideWindows sp) s) (hcomp : Complete sp s.facts)
    (hmax : ∀ a, a.isNode = true → outsideWindows sp s a → step sp s a = none) :
    s.chan.fullyClosed = true ∧ s.log.contracts = [] ∧
      ∀ c ∈ sp.contracts, c.kind.persisted = true → c.key ∈ s.resolvedKeys := by
  have hcoop := coopClean_of_empty hce
  have hfin : s.pc = .finished := by
    apply Classical.byContradiction
    intro hnf
    obtain ⟨a, s', hnode, hH, hs, _⟩ := progress_step hcoop hkn h hcomp hnf
    rw [hmax a hnode hH] at hs; cases hs
  have hw : Reach sp noStopInWindows s := Reach.mono (outsideWindows_windows sp) h
  have hfc := (reach_invU hce hw).2.k9 hfin
  exact ⟨hfc, (reach_inv h).done (Or.inr hfc),
    Props.resolved_last_partial sp hcoop _ (Reach.mono noStopInWindows_closed hw) hfc⟩

/-! ### the final step: `MarkChanFullyClosed` BEFORE `WipeHistory` (`ChainArbitrator.ResolveContract`) -/

/-- the order of the code: once the channel is marked fully closed, a stop at any later instant
    (before or after the log is wiped) restarts into the terminated state: no arbitrator is created. -/
theorem mark_before_wipe_safe (s : Sys) (h : s.chan.fullyClosed = true) :
    (restart s).pc = .finished ∧ (restart s).chan.fullyClosed = true ∧ (restart s).active = [] := by
  simp [restart, h]

/-- the reversed order (seeded change C13_11): the log is wiped, the channel not yet marked. -/
def wipedNotMarked : Sys :=
  { Props.plain with chan := { Props.plain.chan with fullyClosed := false } }

/-- ... a stop there is never recovered from: the arbitrator is re-created from StateDefault with
    the reconstructed close trigger, fast-forwards to StateContractClosed, finds no contract
    resolutions in the wiped log and stays there - no node action is enabled, the channel is never
    marked fully closed. -/
theorem wipe_before_mark_stuck :
    Props.plain.chan.fullyClosed = true ∧ Props.plain.log = {} ∧
    (let t := run Props.specFar (restart wipedNotMarked) [.main, .main, .main]
     t.chan.fullyClosed = false ∧ t.log.state = .contractClosed ∧ t.log.contracts = [] ∧
       t.active = [] ∧ (mainStep Props.specFar t).isNone = true) := by
  decide

/-! non-vacuity: `midFar` (two stops, complete facts, not finished) has a node step -/
example : ∃ s', NodeStep Props.specFar s' Props.midFar := by
  have hr : Reach Props.specFar (outsideWindows Props.specFar) Props.midFar :=
    Props.run_reach_of _ _ _ (Props.okB_sound Props.specFar) _ _ .init (by decide)
  have hcomp : Complete Props.specFar Props.midFar.facts := by
    refine ⟨by decide, by decide, ?_⟩
    intro c hc
    simp only [Props.specFar, Props.specNear, List.mem_cons, List.not_mem_nil, or_false] at hc
    rcases hc with rfl | rfl <;> decide
  have hce : Spec.CoopEmpty Props.specFar := by intro h; cases h
  have hkn : Spec.KeysNodup Props.specFar := by unfold Spec.KeysNodup; decide
  obtain ⟨a, s', hnode, hH, hs, _⟩ :=
    progress_step (coopClean_of_empty hce) hkn hr hcomp (by decide)
  exact ⟨s', hr, by decide, a, hnode, hH, hs⟩

end LndModel.C13
