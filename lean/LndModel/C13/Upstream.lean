/-
C13 — upstream completeness: every outgoing htlc contract that is resolved (and every stored
resolver that is past its first stage) has delivered its upstream resolution; the arbitrator's own
fails (dust, dangling / breach) have been delivered once the corresponding state is left.
-/
import LndModel.C13.Lemmas

namespace LndModel.C13

def HasMsg (s : Sys) (c : Contract) : Prop := ∃ b, (c.idx, b) ∈ s.msgs

/-- resolver side (holds for every schedule). -/
structure InvR (sp : Spec) (s : Sys) : Prop where
  a1 : ∀ r ∈ s.active, ∀ c, sp.find? r.key = some c → c.kind.isOut = true →
        r.rc.kind.isOut = true ∧ ((r.rc.incub = true ∨ r.rc.resolved = true) → HasMsg s c)
  l1 : ∀ p ∈ s.log.contracts, ∀ c, sp.find? p.1 = some c → c.kind.isOut = true →
        p.2.kind.isOut = true ∧ ((p.2.incub = true ∨ p.2.resolved = true) → HasMsg s c)
  a3 : ∀ r ∈ s.active, r.pc = .needDelete → r.rc.resolved = true
  d1 : ∀ k ∈ s.resolvedKeys, ∀ c, sp.find? k = some c → c.kind.isOut = true → HasMsg s c

theorem invR_init (sp : Spec) : InvR sp init := by
  refine ⟨?_, ?_, ?_, ?_⟩ <;> simp [init]

theorem hasMsg_mono {s s' : Sys} {c : Contract} (hm : ∀ m ∈ s.msgs, m ∈ s'.msgs) (h : HasMsg s c) :
    HasMsg s' c := by
  obtain ⟨b, hb⟩ := h; exact ⟨b, hm _ hb⟩

/-- a step that leaves active resolvers, stored contracts and resolved keys alone and only adds
    messages preserves the resolver invariant. -/
theorem invR_of_same {sp : Spec} {s s' : Sys} (h : InvR sp s) (ha : s'.active = s.active)
    (hl : s'.log.contracts = s.log.contracts) (hd : s'.resolvedKeys = s.resolvedKeys)
    (hm : ∀ m ∈ s.msgs, m ∈ s'.msgs) : InvR sp s' := by
  refine ⟨?_, ?_, ?_, ?_⟩
  · intro r hr c hc ho; rw [ha] at hr
    exact ⟨(h.a1 r hr c hc ho).1, fun hf => hasMsg_mono hm ((h.a1 r hr c hc ho).2 hf)⟩
  · intro p hp c hc ho; rw [hl] at hp
    exact ⟨(h.l1 p hp c hc ho).1, fun hf => hasMsg_mono hm ((h.l1 p hp c hc ho).2 hf)⟩
  · intro r hr; rw [ha] at hr; exact h.a3 r hr
  · intro k hk c hc ho; rw [hd] at hk; exact hasMsg_mono hm (h.d1 k hk c hc ho)

theorem find?_of_mem {sp : Spec} (hk : sp.KeysNodup) {c : Contract} (hc : c ∈ sp.contracts) :
    sp.find? c.key = some c := by
  cases hf : sp.find? c.key with
  | none =>
    unfold Spec.find? at hf
    have := List.find?_eq_none.mp hf c hc
    simp at this
  | some c' =>
    have h1 := find?_mem hf
    have h2 := find?_spec_key hf
    rw [key_inj hk h1 hc h2]

theorem freshContracts_sub {sp : Spec} {t : Trigger} {c : Contract} (h : c ∈ freshContracts sp t) :
    c ∈ sp.contracts := by
  unfold freshContracts at h
  split at h
  · exact h
  · exact (List.mem_filter.mp h).1

theorem hasMsg_append {s : Sys} {c : Contract} (ms : List (Nat × Bool)) (h : HasMsg s c) :
    ∃ b, (c.idx, b) ∈ s.msgs ++ ms := by
  obtain ⟨b, hb⟩ := h; exact ⟨b, List.mem_append.mpr (Or.inl hb)⟩

theorem mem_append_right' {α} {l : List α} {ms : List α} : ∀ m ∈ l, m ∈ l ++ ms :=
  fun m hm => List.mem_append.mpr (Or.inl hm)

theorem mainStep_invR {sp : Spec} (hk : sp.KeysNodup) {s s' : Sys} (h : InvR sp s)
    (hs : mainStep sp s = some s') : InvR sp s' := by
  unfold mainStep at hs
  split at hs
  · split at hs
    · split at hs <;> (cases hs; exact invR_of_same h rfl rfl rfl (fun _ hm => hm))
    · split at hs
      · cases hs; exact invR_of_same h rfl rfl rfl (fun _ hm => hm)
      · split at hs
        · cases hs; exact invR_of_same h rfl rfl rfl (fun _ hm => hm)
        · cases hs
  · cases hs; exact invR_of_same h rfl rfl rfl (fun _ hm => hm)
  · cases hs; exact invR_of_same h rfl rfl rfl (fun _ hm => hm)
  · split at hs
    · -- stay (possibly relaunch)
      split at hs
      · cases hs
        refine ⟨?_, ?_, ?_, h.d1⟩
        · intro r hr c hc ho
          simp only [relaunched, List.mem_append, List.mem_map] at hr
          rcases hr with ⟨p, hp, rfl⟩ | ⟨c0, hc0, rfl⟩
          · exact h.l1 p hp c hc ho
          · simp only [List.mem_filter] at hc0
            have hf := find?_of_mem hk hc0.1
            have hkind : c0.kind = RKind.an := by simpa using hc0.2
            simp only at hc
            rw [hf] at hc; cases hc
            simp [hkind, RKind.isOut] at ho
        · exact h.l1
        · intro r hr hpc
          simp only [relaunched, List.mem_append, List.mem_map] at hr
          rcases hr with ⟨p, hp, rfl⟩ | ⟨c0, hc0, rfl⟩
          · simp only at hpc; split at hpc <;> cases hpc
          · cases hpc
      · cases hs; exact invR_of_same h rfl rfl rfl (fun _ hm => hm)
    · cases hs; exact invR_of_same h rfl rfl rfl mem_append_right'
    · cases hs; exact invR_of_same h rfl rfl rfl (fun _ hm => hm)
    · -- insert
      cases hs
      refine ⟨?_, ?_, ?_, ?_⟩
      · intro r hr c hc ho
        simp only [freshActive, List.mem_map] at hr
        obtain ⟨c0, hc0, rfl⟩ := hr
        have hf := find?_of_mem hk (freshContracts_sub hc0)
        simp only at hc
        rw [hf] at hc; cases hc
        exact ⟨by simpa [Contract.fresh] using ho, by simp [Contract.fresh]⟩
      · intro p hp c hc ho
        rcases putAll_mem _ _ _ hp with h1 | h1
        · exact ⟨(h.l1 p h1 c hc ho).1,
                 fun hf => hasMsg_mono mem_append_right' ((h.l1 p h1 c hc ho).2 hf)⟩
        · simp only [freshRecs, List.mem_map, List.mem_filter] at h1
          obtain ⟨c0, ⟨hc0, _⟩, rfl⟩ := h1
          have hf := find?_of_mem hk (freshContracts_sub hc0)
          simp only at hc
          rw [hf] at hc; cases hc
          exact ⟨by simpa [Contract.fresh] using ho, by simp [Contract.fresh]⟩
      · intro r hr hpc
        simp only [freshActive, List.mem_map] at hr
        obtain ⟨c0, _, rfl⟩ := hr
        cases hpc
      · intro k hkk c hc ho; exact hasMsg_mono mem_append_right' (h.d1 k hkk c hc ho)
    · cases hs; exact invR_of_same h rfl rfl rfl (fun _ hm => hm)
  · cases hs; exact invR_of_same h rfl rfl rfl (fun _ hm => hm)
  · cases hs; exact invR_of_same h rfl rfl rfl (fun _ hm => hm)
  · cases hs
    refine ⟨?_, ?_, ?_, h.d1⟩
    · intro r hr; simp at hr
    · intro p hp; simp at hp
    · intro r hr; simp at hr
  · cases hs

/-- shape of a resolver checkpoint, for an outgoing-htlc contract. -/
theorem resRes_put_out {sp : Spec} {f : Facts} {r : RunRes} {ms : List (Nat × Bool)} {rec : Rec} {pc : RPc}
    {c : Contract} (hc : sp.find? r.key = some c) (ho : c.kind.isOut = true)
    (hr : r.rc.kind.isOut = true) (h : resRes sp f r = .put ms rec pc) :
    rec.kind.isOut = true ∧ (pc = .needDelete → rec.resolved = true) ∧
    ((rec.incub = true ∨ rec.resolved = true) →
      (r.rc.incub = true ∨ r.rc.resolved = true) ∨ ∃ b, (c.idx, b) ∈ ms) := by
  obtain ⟨key, ⟨kind, incub, resolved⟩, rpc, handed⟩ := r
  unfold resRes at h
  simp only at h hc
  simp only [hc] at h
  repeat' split at h
  all_goals first
    | (cases h; done)
    | (cases h; simp_all [RKind.isOut, Contract.msg]; done)
    | (cases h; cases incub <;> cases resolved <;> simp_all [RKind.isOut, Contract.msg])

theorem resRes_put_del {sp : Spec} {f : Facts} {r : RunRes} {ms : List (Nat × Bool)} {rec : Rec} {pc : RPc}
    (h : resRes sp f r = .put ms rec pc) : pc = .needDelete → rec.resolved = true := by
  obtain ⟨key, ⟨kind, incub, resolved⟩, rpc, handed⟩ := r
  unfold resRes at h
  simp only at h
  repeat' split at h
  all_goals first
    | (cases h; done)
    | (cases h; simp_all)

theorem resRes_del_pc {sp : Spec} {f : Facts} {r : RunRes} (h : resRes sp f r = .del) :
    r.pc = .needDelete := by
  unfold resRes at h
  repeat' split at h
  all_goals first | (cases h; done) | assumption

theorem resAlt_put_out {sp : Spec} {f : Facts} {r : RunRes} {ms : List (Nat × Bool)} {rec : Rec} {pc : RPc}
    (h : resAlt sp f r = .put ms rec pc) :
    rec.kind.isOut = true ∧ pc = .running ∧ rec.incub = r.rc.incub ∧ rec.resolved = r.rc.resolved := by
  unfold resAlt at h
  split at h
  · split at h
    · cases h; simp [RKind.isOut]
    · cases h
  · cases h

theorem resApply_invR {sp : Spec} {s s' : Sys} {k : Nat} {r : RunRes} {rr : ResRes}
    (h : InvR sp s) (hr : r ∈ s.active) (hkey : r.key = k)
    (hput : ∀ ms rec pc, rr = .put ms rec pc → ∀ c, sp.find? r.key = some c → c.kind.isOut = true →
      rec.kind.isOut = true ∧
      ((rec.incub = true ∨ rec.resolved = true) →
        (r.rc.incub = true ∨ r.rc.resolved = true) ∨ ∃ b, (c.idx, b) ∈ ms))
    (hnd : ∀ ms rec pc, rr = .put ms rec pc → pc = .needDelete → rec.resolved = true)
    (hdel : rr = .del → r.pc = .needDelete)
    (hs : resApply s k r rr = some s') : InvR sp s' := by
  unfold resApply at hs
  split at hs
  · cases hs
  · -- die
    cases hs
    refine ⟨?_, h.l1, ?_, h.d1⟩
    · intro a ha c hc ho
      rcases mem_setActive ha with ⟨rfl, _⟩ | ⟨ha', _⟩
      · exact h.a1 r hr c hc ho
      · exact h.a1 a ha' c hc ho
    · intro a ha hpc
      rcases mem_setActive ha with ⟨rfl, _⟩ | ⟨ha', _⟩
      · cases hpc
      · exact h.a3 a ha' hpc
  · -- incubate
    cases hs
    refine ⟨?_, h.l1, ?_, h.d1⟩
    · intro a ha c hc ho
      rcases mem_setActive ha with ⟨rfl, _⟩ | ⟨ha', _⟩
      · exact h.a1 r hr c hc ho
      · exact h.a1 a ha' c hc ho
    · intro a ha hpc
      rcases mem_setActive ha with ⟨rfl, _⟩ | ⟨ha', _⟩
      · exact h.a3 r hr hpc
      · exact h.a3 a ha' hpc
  · -- put
    rename_i ms rec pc
    have hnew : ∀ c, sp.find? k = some c → c.kind.isOut = true →
        rec.kind.isOut = true ∧ ((rec.incub = true ∨ rec.resolved = true) →
          ∃ b, (c.idx, b) ∈ s.msgs ++ ms) := by
      intro c hc ho
      rw [← hkey] at hc
      obtain ⟨hk1, hk2⟩ := hput ms rec pc rfl c hc ho
      refine ⟨hk1, fun hf => ?_⟩
      rcases hk2 hf with hold | ⟨b, hb⟩
      · obtain ⟨b, hb⟩ := (h.a1 r hr c hc ho).2 hold
        exact ⟨b, List.mem_append.mpr (Or.inl hb)⟩
      · exact ⟨b, List.mem_append.mpr (Or.inr hb)⟩
    have hact : ∀ a ∈ setActive s.active k { r with rc := rec, pc := pc }, ∀ c,
        sp.find? a.key = some c → c.kind.isOut = true →
        a.rc.kind.isOut = true ∧ ((a.rc.incub = true ∨ a.rc.resolved = true) →
          ∃ b, (c.idx, b) ∈ s.msgs ++ ms) := by
      intro a ha c hc ho
      rcases mem_setActive ha with ⟨rfl, _⟩ | ⟨ha', _⟩
      · simp only at hc ⊢; rw [hkey] at hc; exact hnew c hc ho
      · exact ⟨(h.a1 a ha' c hc ho).1,
               fun hf => hasMsg_append ms ((h.a1 a ha' c hc ho).2 hf)⟩
    have ha3 : ∀ a ∈ setActive s.active k { r with rc := rec, pc := pc },
        a.pc = .needDelete → a.rc.resolved = true := by
      intro a ha hpc
      rcases mem_setActive ha with ⟨rfl, _⟩ | ⟨ha', _⟩
      · exact hnd ms rec pc rfl hpc
      · exact h.a3 a ha' hpc
    have hd1 : ∀ k' ∈ s.resolvedKeys, ∀ c, sp.find? k' = some c → c.kind.isOut = true →
        ∃ b, (c.idx, b) ∈ s.msgs ++ ms :=
      fun k' hk' c hc ho => hasMsg_append ms (h.d1 k' hk' c hc ho)
    by_cases hp : rec.kind.persisted = true
    · simp only [hp, if_true] at hs
      cases hs
      refine ⟨hact, ?_, ha3, hd1⟩
      intro p hp' c hc ho
      rcases putRec_mem hp' with h1 | rfl
      · exact ⟨(h.l1 p h1 c hc ho).1,
               fun hf => hasMsg_append ms ((h.l1 p h1 c hc ho).2 hf)⟩
      · exact hnew c hc ho
    · have hp' : rec.kind.persisted = false := by simpa using hp
      simp only [hp', Bool.false_eq_true, if_false] at hs
      cases hs
      refine ⟨hact, ?_, ha3, hd1⟩
      intro p hpp c hc ho
      exact ⟨(h.l1 p hpp c hc ho).1,
             fun hf => hasMsg_append ms ((h.l1 p hpp c hc ho).2 hf)⟩
  · -- del
    cases hs
    have hpc := hdel rfl
    refine ⟨?_, ?_, ?_, ?_⟩
    · intro a ha c hc ho
      rcases mem_setActive ha with ⟨rfl, _⟩ | ⟨ha', _⟩
      · exact h.a1 r hr c hc ho
      · exact h.a1 a ha' c hc ho
    · intro p hp c hc ho
      simp only [delRec, List.mem_filter] at hp
      exact h.l1 p hp.1 c hc ho
    · intro a ha hpc'
      rcases mem_setActive ha with ⟨rfl, _⟩ | ⟨ha', _⟩
      · cases hpc'
      · exact h.a3 a ha' hpc'
    · intro k' hk' c hc ho
      simp only [List.mem_cons] at hk'
      rcases hk' with rfl | hk'
      · rw [← hkey] at hc
        exact (h.a1 r hr c hc ho).2 (Or.inr (h.a3 r hr hpc))
      · exact h.d1 k' hk' c hc ho
  · -- noop
    cases hs
    refine ⟨?_, h.l1, ?_, h.d1⟩
    · intro a ha c hc ho
      rcases mem_setActive ha with ⟨rfl, _⟩ | ⟨ha', _⟩
      · exact h.a1 r hr c hc ho
      · exact h.a1 a ha' c hc ho
    · intro a ha hpc
      rcases mem_setActive ha with ⟨rfl, _⟩ | ⟨ha', _⟩
      · cases hpc
      · exact h.a3 a ha' hpc

theorem step_invR {sp : Spec} (hk : sp.KeysNodup) {s s' : Sys} {a : Action} (h : InvR sp s)
    (hs : step sp s a = some s') : InvR sp s' := by
  cases a with
  | main => exact mainStep_invR hk h hs
  | res k =>
    simp only [step, resStep] at hs
    split at hs
    · cases hs
    · rename_i r hf
      obtain ⟨hr, hkey⟩ := find?_key hf
      refine resApply_invR h hr hkey ?_ ?_ ?_ hs
      · intro ms rec pc he c hc ho
        have := resRes_put_out hc ho (h.a1 r hr c hc ho).1 he
        exact ⟨this.1, this.2.2⟩
      · intro ms rec pc he; exact resRes_put_del he
      · intro he; exact resRes_del_pc he
  | resAlt k =>
    simp only [step, resAltStep] at hs
    split at hs
    · cases hs
    · rename_i r hf
      obtain ⟨hr, hkey⟩ := find?_key hf
      refine resApply_invR h hr hkey ?_ ?_ ?_ hs
      · intro ms rec pc he c hc ho
        obtain ⟨h1, _, h3, h4⟩ := resAlt_put_out he
        exact ⟨h1, fun hf => Or.inl (by rw [← h3, ← h4]; exact hf)⟩
      · intro ms rec pc he hpc
        obtain ⟨_, h2, _, _⟩ := resAlt_put_out he
        rw [h2] at hpc; cases hpc
      · intro he
        unfold resAlt at he
        split at he
        · split at he <;> cases he
        · cases he
  | crash =>
    simp only [step] at hs; cases hs
    refine ⟨?_, h.l1, ?_, h.d1⟩
    · intro r hr; simp [restart] at hr
    · intro r hr; simp [restart] at hr
  | nursery k =>
    simp only [step] at hs
    obtain ⟨n, rfl⟩ := nurseryStep_only hs
    exact ⟨h.a1, h.l1, h.a3, h.d1⟩
  | fact f => simp only [step] at hs; cases hs; exact ⟨h.a1, h.l1, h.a3, h.d1⟩
  | forceClose =>
    simp only [step] at hs
    split at hs
    · cases hs; exact invR_of_same h rfl rfl rfl (fun _ hm => hm)
    · cases hs

theorem reach_invR {sp : Spec} (hk : sp.KeysNodup) {H : Sys → Action → Prop} {s : Sys}
    (r : Reach sp H s) : InvR sp s := by
  induction r with
  | init => exact invR_init sp
  | step _ _ hs ih => exact step_invR hk ih hs

end LndModel.C13

namespace LndModel.C13

/-! ### the arbitrator's own fails -/

/-- schedule restriction of the completeness theorems: no stop while the durable state is
    `StateContractClosed`, and none while it is `StateDefault` with the confirmed commit set already
    logged but the channel not yet marked closed. Interleavings and all other stops unrestricted. -/
def noStopInWindows : Sys → Action → Prop := fun s a =>
  match a with
  | .crash => s.log.state ≠ .contractClosed ∧
      ¬(s.log.state = .default ∧ s.log.hasCS = true ∧ s.chan.pendingClose = false)
  | _ => True

theorem noStopInWindows_closed (s : Sys) (a : Action) (h : noStopInWindows s a) : noStopInClosed s a := by
  cases a <;> simp_all [noStopInWindows, noStopInClosed]

/-- upstream fails issued in `StateContractClosed`. -/
def closedFails (sp : Spec) : List Nat :=
  if sp.close == .breach then sp.breachFails else sp.danglingFails

/-- a cooperative close happens with no htlc and nothing to sweep. -/
def Spec.CoopEmpty (sp : Spec) : Prop :=
  sp.close = .coop → sp.contracts = [] ∧ sp.dustFails = [] ∧ sp.danglingFails = [] ∧ sp.breachFails = []

theorem coopClean_of_empty {sp : Spec} (h : sp.CoopEmpty) : sp.CoopClean := by
  intro hc c hcm
  rw [(h hc).1] at hcm; simp at hcm

def FailsIn (l : List Nat) (s : Sys) : Prop := ∀ i ∈ l, (i, false) ∈ s.msgs

structure InvU (sp : Spec) (s : Sys) : Prop where
  u1 : (s.log.state ≠ .default ∨ s.chan.fullyClosed = true) → FailsIn sp.dustFails s
  u2 : (s.log.state = .waitingFull ∨ s.log.state = .fullyResolved ∨ s.pc = .ccCommit ∨
          s.chan.fullyClosed = true) → FailsIn (closedFails sp) s
  u3 : s.mem = .default → s.pc = .adv →
        (s.csArg = true → s.trig.isClose = true) ∧
        (s.trig = .user → s.chan.pendingClose = false) ∧
        (s.csArg = false → s.trig.isClose = true → sp.close = .coop)
  u4 : s.chan.pendingClose = true → sp.close ≠ .coop → s.pc ≠ .finished → s.log.hasCS = true
  u5 : s.pc = .evMark → s.log.hasCS = true

theorem invU_init (sp : Spec) : InvU sp init := by
  refine ⟨?_, ?_, ?_, ?_, ?_⟩ <;> simp [init, FailsIn, Trigger.isClose]

theorem failsIn_mono {l : List Nat} {s s' : Sys} (hm : ∀ m ∈ s.msgs, m ∈ s'.msgs)
    (h : FailsIn l s) : FailsIn l s' := fun i hi => hm _ (h i hi)

theorem failsIn_new (l : List Nat) (s : Sys) : ∀ i ∈ l, (i, false) ∈ s.msgs ++ failMsgs l := by
  intro i hi
  exact List.mem_append.mpr (Or.inr (by simp [failMsgs]; exact hi))

theorem advRes_insert_closed {sp : Spec} {s : Sys} {ms : List (Nat × Bool)} {fs : List Nat}
    (h : advRes sp s = .insert ms fs) : ms = failMsgs (closedFails sp) := by
  unfold advRes at h
  split at h
  · unfold defaultRes at h
    split at h <;> split at h <;> first | cases h | exact absurd h leaveDefault_not_insert
  · exact absurd h (leaveOnClose_not_insert (by intro hh; cases hh))
  · exact absurd h (leaveOnClose_not_insert (by intro hh; cases hh))
  · unfold closedRes at h
    split at h
    · cases h
    · split at h
      · cases h
      · split at h
        · rename_i hb; cases h; simp [closedFails, hb]
        · rename_i hb; cases h; simp [closedFails, hb]
  · split at h <;> cases h
  · cases h

/-- leaving `StateDefault`: which dust fails go out. -/
theorem advRes_default_dust {sp : Spec} {s : Sys} {ms : List (Nat × Bool)} {n : AState}
    (hm : s.mem = .default) (h : advRes sp s = .commit ms n) :
    (s.csArg = true → s.trig.isClose = true → ms = failMsgs sp.dustFails) ∧
    (s.csArg = false → s.trig = .chain → ms = failMsgs sp.dustFails) ∧
    (s.csArg = false → s.trig = .user → s.chan.pendingClose = false → ms = failMsgs sp.dustFails) := by
  unfold advRes at h
  rw [hm] at h
  simp only [defaultRes] at h
  split at h
  · rename_i hcs
    split at h
    · cases h
    · have := leaveDefault_commit h
      refine ⟨fun _ hcl => ?_, fun hc => by simp [hcs] at hc, fun hc => by simp [hcs] at hc⟩
      rw [this, dustIf, fullActions_of_close sp _ hcl]; simp
  · rename_i hcs
    have hcs' : s.csArg = false := by simpa using hcs
    split at h
    · cases h
    · rename_i hst
      have := leaveDefault_commit h
      refine ⟨fun hc => by simp [hcs'] at hc, fun _ ht => ?_, fun _ ht hp => ?_⟩
      · simp only [ht, beq_self_eq_true, Bool.true_and, Bool.not_eq_true', Bool.not_eq_false] at hst
        rw [this, dustIf, ht]; simp [hst]
      · rw [this, dustIf, ht, hp]; simp [fullActions]

theorem advRes_commit_ne_default {sp : Spec} {s : Sys} {ms : List (Nat × Bool)} {n : AState}
    (h : advRes sp s = .commit ms n) : n ≠ .default := by
  rcases advRes_commit_shape h with ⟨_, hn | hn | hn⟩ | ⟨_, hn, _⟩ <;> (rw [hn]; simp)

theorem mainStep_invU {sp : Spec} (hce : sp.CoopEmpty) {s s' : Sys} (hi : Inv s)
    (hk : InvK sp s) (h : InvU sp s) (hs : mainStep sp s = some s') : InvU sp s' := by
  unfold mainStep at hs
  split at hs
  · -- idle
    rename_i hpc
    have hnc := not_closed_of_pc hi (by simp [hpc]) (by simp [hpc])
    split at hs
    · split at hs
      · rename_i hcl
        cases hs
        refine ⟨?_, ?_, ?_, ?_, ?_⟩
        · intro hc; exact h.u1 (by simpa [hnc] using hc)
        · intro hc; exact h.u2 (by simpa [hpc, hnc] using hc)
        · intro _ _; exact ⟨by simp, by simp, fun _ _ => hcl⟩
        · intro _ hne; exact absurd hcl hne
        · simp
      · cases hs
        refine ⟨h.u1, ?_, ?_, ?_, ?_⟩
        · intro hc; exact h.u2 (by simpa [hpc, hnc] using hc)
        · simp
        · intro hp hne _; exact h.u4 hp hne (by simp [hpc])
        · simp
    · split at hs
      · rename_i hw
        cases hs
        have hmw : s.mem = .waitingFull := by
          simp only [Bool.and_eq_true, beq_iff_eq] at hw; exact hw.1
        refine ⟨h.u1, ?_, ?_, ?_, ?_⟩
        · intro hc; exact h.u2 (by simpa [hpc, hnc] using hc)
        · intro hm; simp [hmw] at hm
        · intro hp hne _; exact h.u4 hp hne (by simp [hpc])
        · simp
      · split at hs
        · cases hs
          refine ⟨h.u1, ?_, ?_, ?_, ?_⟩
          · intro hc; exact h.u2 (by simpa [hpc, hnc] using hc)
          · intro _ _; simp [Trigger.isClose]
          · intro hp hne _; exact h.u4 hp hne (by simp [hpc])
          · simp
        · cases hs
  · -- evLogCS
    rename_i hpc
    have hnc := not_closed_of_pc hi (by simp [hpc]) (by simp [hpc])
    cases hs
    refine ⟨h.u1, ?_, ?_, ?_, ?_⟩
    · intro hc; exact h.u2 (by simpa [hpc, hnc] using hc)
    · simp
    · intro _ _ _; rfl
    · intro _; rfl
  · -- evMark
    rename_i hpc
    have hnc := not_closed_of_pc hi (by simp [hpc]) (by simp [hpc])
    cases hs
    refine ⟨?_, ?_, ?_, ?_, ?_⟩
    · intro hc; exact h.u1 (by simpa [hnc] using hc)
    · intro hc; exact h.u2 (by simpa [hpc, hnc] using hc)
    · intro _ _
      refine ⟨fun _ => trigger_isClose _, fun ht => ?_, fun hc => by simp at hc⟩
      cases hcl : sp.close <;> simp [hcl, CloseKind.trigger] at ht
    · intro _ _ _; exact h.u5 hpc
    · simp
  · -- adv
    rename_i hpc
    have hnc := not_closed_of_pc hi (by simp [hpc]) (by simp [hpc])
    have hme := hi.memEq (by simp [hpc])
    split at hs
    · split at hs <;>
      · cases hs
        refine ⟨h.u1, ?_, ?_, ?_, ?_⟩
        · intro hc; exact h.u2 (by simpa [hpc, hnc] using hc)
        · simp
        · intro hp hne _; exact h.u4 hp hne (by simp [hpc])
        · simp
    · -- commit
      rename_i ms next hadv
      cases hs
      have hmono : ∀ m ∈ s.msgs, m ∈ s.msgs ++ ms := mem_append_right'
      refine ⟨?_, ?_, ?_, ?_, ?_⟩
      · intro _
        by_cases hd : s.mem = .default
        · -- leaving StateDefault: the dust fails go out now
          obtain ⟨hu1, hu2, hu3⟩ := h.u3 hd hpc
          obtain ⟨hd1, hd2, hd3⟩ := advRes_default_dust hd hadv
          cases hcs : s.csArg with
          | true => rw [hd1 hcs (hu1 hcs)]; exact failsIn_new _ _
          | false =>
            cases ht : s.trig with
            | chain => rw [hd2 hcs ht]; exact failsIn_new _ _
            | user => rw [hd3 hcs ht (hu2 ht)]; exact failsIn_new _ _
            | _ =>
              have := hu3 hcs (by simp [ht, Trigger.isClose])
              intro i hi'; rw [(hce this).2.1] at hi'; simp at hi'
        · exact failsIn_mono hmono (h.u1 (Or.inl (by rw [← hme]; exact hd)))
      · intro hc
        simp only [hpc, hnc] at hc
        rcases advRes_commit_shape hadv with ⟨hpre, hn⟩ | ⟨hnpre, hn, _⟩
        · have hfr : next = .fullyResolved := by
            rcases hc with hc | hc | hc | hc
            · rcases hn with hn | hn | hn <;> simp [hn] at hc
            · exact hc
            · simp at hc
            · simp at hc
          rcases (advRes_commit_target hpre hadv).2 hfr with ht | ⟨ht, hr⟩
          · have : sp.close = .coop :=
              trigger_coop (by rw [← hk.k3 (by simp [ht, Trigger.isClose]), ht])
            intro i hi'
            have he := hce this
            simp [closedFails, this, he.2.2.1] at hi'
          · have := hk.k5 (by simp [hpc]) (by simp [ht, Trigger.isClose]) (by simp [ht])
            rw [hr] at this; cases this
        · subst hn
          by_cases hcc : s.mem = .contractClosed
          · have hemp : sp.isEmpty = true := by
              unfold advRes at hadv
              rw [hcc] at hadv
              simp only [closedRes] at hadv
              split at hadv
              · cases hadv
              · split at hadv
                · rename_i hh; simp only [Bool.and_eq_true] at hh; exact hh.1
                · split at hadv <;> cases hadv
            simp only [Spec.isEmpty, Bool.and_eq_true, List.isEmpty_iff] at hemp
            intro i hi'
            simp only [closedFails] at hi'
            split at hi'
            · rw [hemp.1.2] at hi'; simp at hi'
            · rw [hemp.1.1.2] at hi'; simp at hi'
          · have hwf : s.log.state = .waitingFull := by
              rw [← hme]
              unfold advRes at hadv
              split at hadv
              · rename_i hm; simp [hm, AState.preClosed] at hnpre
              · rename_i hm; simp [hm, AState.preClosed] at hnpre
              · rename_i hm; simp [hm, AState.preClosed] at hnpre
              · rename_i hm; exact absurd hm hcc
              · assumption
              · cases hadv
            exact failsIn_mono hmono (h.u2 (Or.inl hwf))
      · intro hm; exact absurd hm (advRes_commit_ne_default hadv)
      · intro hp hne _; exact h.u4 hp hne (by simp [hpc])
      · simp [hpc]
    · -- markBroadcast
      cases hs
      refine ⟨h.u1, ?_, ?_, ?_, ?_⟩
      · intro hc; exact h.u2 (by simpa [hpc, hnc] using hc)
      · simp
      · intro hp hne _; exact h.u4 hp hne (by simp [hpc])
      · simp
    · -- insert
      rename_i ms fs hadv
      cases hs
      have hm := advRes_insert_mem hadv
      refine ⟨?_, ?_, ?_, ?_, ?_⟩
      · intro hc
        exact failsIn_mono mem_append_right' (h.u1 (Or.inl (by rw [← hme, hm]; simp)))
      · intro _; rw [advRes_insert_closed hadv]; exact failsIn_new _ _
      · simp
      · intro hp hne _; exact h.u4 hp hne (by simp [hpc])
      · simp
    · -- notify
      rename_i hadv
      cases hs
      have hm := advRes_notify_mem hadv
      have hst : s.log.state = .fullyResolved := by rw [← hme]; exact hm
      refine ⟨?_, ?_, ?_, ?_, ?_⟩
      · intro _; exact h.u1 (Or.inl (by rw [hst]; simp))
      · intro _; exact h.u2 (Or.inr (Or.inl hst))
      · simp
      · intro hp hne _; exact h.u4 hp hne (by simp [hpc])
      · simp
  · -- bcPublish
    rename_i hpc
    have hnc := not_closed_of_pc hi (by simp [hpc]) (by simp [hpc])
    cases hs
    refine ⟨?_, ?_, ?_, ?_, ?_⟩
    · intro _; exact h.u1 (Or.inl (by rw [hi.bc hpc]; simp))
    · intro hc; simp [hnc] at hc
    · intro hm; simp at hm
    · intro hp hne _; exact h.u4 hp hne (by simp [hpc])
    · simp
  · -- ccCommit
    rename_i hpc
    have hnc := not_closed_of_pc hi (by simp [hpc]) (by simp [hpc])
    cases hs
    refine ⟨?_, ?_, ?_, ?_, ?_⟩
    · intro _; exact h.u1 (Or.inl (by rw [hk.k8 hpc]; simp))
    · intro _; exact h.u2 (Or.inr (Or.inr (Or.inl hpc)))
    · intro hm; simp at hm
    · intro hp hne _; exact h.u4 hp hne (by simp [hpc])
    · simp
  · -- wipe
    rename_i hpc
    cases hs
    have hfc := hk.k10 hpc
    refine ⟨?_, ?_, ?_, ?_, ?_⟩
    · intro _; exact h.u1 (Or.inr hfc)
    · intro _; exact h.u2 (Or.inr (Or.inr (Or.inr hfc)))
    · simp
    · simp
    · simp
  · cases hs

theorem invU_of_msgs {sp : Spec} {s s' : Sys} (h : InvU sp s)
    (hl : s'.log.state = s.log.state ∧ s'.log.hasCS = s.log.hasCS) (hc : s'.chan = s.chan)
    (hm : s'.mem = s.mem) (hp : s'.pc = s.pc) (ht : s'.trig = s.trig) (hcs : s'.csArg = s.csArg)
    (hmsg : ∀ m ∈ s.msgs, m ∈ s'.msgs) : InvU sp s' := by
  refine ⟨?_, ?_, ?_, ?_, ?_⟩
  · intro hcnd; rw [hl.1, hc] at hcnd; exact failsIn_mono hmsg (h.u1 hcnd)
  · intro hcnd; rw [hl.1, hc, hp] at hcnd; exact failsIn_mono hmsg (h.u2 hcnd)
  · rw [hm, hp, ht, hcs, hc]; exact h.u3
  · rw [hc, hp, hl.2]; exact h.u4
  · rw [hp, hl.2]; exact h.u5

theorem resApply_invU {sp : Spec} {s s' : Sys} {k : Nat} {r : RunRes} {rr : ResRes}
    (h : InvU sp s) (hs : resApply s k r rr = some s') : InvU sp s' := by
  unfold resApply at hs
  split at hs
  · cases hs
  · cases hs; exact invU_of_msgs h ⟨rfl, rfl⟩ rfl rfl rfl rfl rfl (fun _ hm => hm)
  · cases hs; exact invU_of_msgs h ⟨rfl, rfl⟩ rfl rfl rfl rfl rfl (fun _ hm => hm)
  · rename_i ms rec pc
    by_cases hp : rec.kind.persisted = true
    · simp only [hp, if_true] at hs
      cases hs; exact invU_of_msgs h ⟨rfl, rfl⟩ rfl rfl rfl rfl rfl mem_append_right'
    · have hp' : rec.kind.persisted = false := by simpa using hp
      simp only [hp', Bool.false_eq_true, if_false] at hs
      cases hs; exact invU_of_msgs h ⟨rfl, rfl⟩ rfl rfl rfl rfl rfl mem_append_right'
  · cases hs; exact invU_of_msgs h ⟨rfl, rfl⟩ rfl rfl rfl rfl rfl (fun _ hm => hm)
  · cases hs; exact invU_of_msgs h ⟨rfl, rfl⟩ rfl rfl rfl rfl rfl (fun _ hm => hm)

theorem restart_invU {sp : Spec} {s : Sys} (hk : InvK sp s) (h : InvU sp s)
    (hwin : ¬(s.log.state = .default ∧ s.log.hasCS = true ∧ s.chan.pendingClose = false)) :
    InvU sp (restart s) := by
  refine ⟨h.u1, ?_, ?_, ?_, ?_⟩
  · intro hc
    apply h.u2
    simp only [restart] at hc
    rcases hc with hc | hc | hc | hc
    · exact Or.inl hc
    · exact Or.inr (Or.inl hc)
    · split at hc <;> simp at hc
    · exact Or.inr (Or.inr (Or.inr hc))
  · intro hm hpc
    have hst : s.log.state = .default := hm
    have hfc : s.chan.fullyClosed = false := by
      cases hfc : s.chan.fullyClosed with
      | false => rfl
      | true => simp [restart, hfc] at hpc
    have hsnf : s.pc ≠ .finished := by
      intro hp; rw [hk.k9 hp] at hfc; cases hfc
    simp only [restart, restartTrigger, hst]
    cases hpd : s.chan.pendingClose with
    | true =>
      simp only [AState.preClosed, beq_self_eq_true, Bool.or_true, Bool.true_or, Bool.and_self,
        if_true]
      refine ⟨fun _ => trigger_isClose _, fun ht => ?_, fun hcs _ => ?_⟩
      · cases hcl : s.chan.closeKind <;> simp [hcl, CloseKind.trigger] at ht
      · by_cases hco : sp.close = .coop
        · exact hco
        · have := h.u4 hpd hco hsnf
          rw [this] at hcs; cases hcs
    | false =>
      simp only [Bool.false_and, Bool.false_eq_true, if_false]
      refine ⟨fun hcs => ?_, by simp, fun _ hcl => by simp [Trigger.isClose] at hcl⟩
      exact absurd ⟨hst, hcs, hpd⟩ hwin
  · intro hp hne hnf
    have hfc : s.chan.fullyClosed = false := by
      cases hfc : s.chan.fullyClosed with
      | false => rfl
      | true => simp [restart, hfc] at hnf
    have hsnf : s.pc ≠ .finished := by
      intro hp'; rw [hk.k9 hp'] at hfc; cases hfc
    exact h.u4 hp hne hsnf
  · intro hc; simp only [restart] at hc; split at hc <;> simp at hc

theorem step_invU {sp : Spec} (hce : sp.CoopEmpty) {s s' : Sys} {a : Action} (hi : Inv s)
    (hk : InvK sp s) (h : InvU sp s) (hH : noStopInWindows s a) (hs : step sp s a = some s') :
    InvU sp s' := by
  cases a with
  | main => exact mainStep_invU hce hi hk h hs
  | res k =>
    simp only [step, resStep] at hs
    split at hs
    · cases hs
    · exact resApply_invU h hs
  | resAlt k =>
    simp only [step, resAltStep] at hs
    split at hs
    · cases hs
    · exact resApply_invU h hs
  | crash => simp only [step] at hs; cases hs; exact restart_invU hk h hH.2
  | nursery k =>
    simp only [step] at hs
    obtain ⟨n, rfl⟩ := nurseryStep_only hs
    exact ⟨h.u1, h.u2, h.u3, h.u4, h.u5⟩
  | fact f =>
    simp only [step] at hs; cases hs
    exact invU_of_msgs h ⟨rfl, rfl⟩ rfl rfl rfl rfl rfl (fun _ hm => hm)
  | forceClose =>
    simp only [step] at hs
    split at hs
    · rename_i hc
      cases hs
      have hpc : s.pc = .idle := by
        simp only [Bool.and_eq_true, beq_iff_eq] at hc; exact hc.1.1
      have hpd : s.chan.pendingClose = false := by
        simp only [Bool.and_eq_true, beq_iff_eq, Bool.not_eq_true'] at hc; exact hc.2
      have hnc := not_closed_of_pc hi (by simp [hpc]) (by simp [hpc])
      refine ⟨h.u1, ?_, ?_, ?_, ?_⟩
      · intro hcnd; exact h.u2 (by simpa [hpc, hnc] using hcnd)
      · intro _ _; exact ⟨by simp, fun _ => hpd, fun _ hcl => by simp [Trigger.isClose] at hcl⟩
      · intro hp hne _; exact h.u4 hp hne (by simp [hpc])
      · simp
    · cases hs

theorem reach_invU {sp : Spec} (hce : sp.CoopEmpty) {s : Sys} (r : Reach sp noStopInWindows s) :
    InvU sp s ∧ InvK sp s := by
  induction r with
  | init => exact ⟨invU_init sp, invK_init sp⟩
  | step hr hH hs ih =>
    have hi := reach_inv hr
    exact ⟨step_invU hce hi ih.2 ih.1 hH hs,
           step_invK (coopClean_of_empty hce) hi ih.2 (noStopInWindows_closed _ _ hH) hs⟩

/-- outgoing htlc contracts have pairwise distinct indices, none of which is also failed by the
    arbitrator itself as dust / dangling / breach. -/
structure Spec.IdxDisjoint (sp : Spec) : Prop where
  notListed : ∀ c ∈ sp.contracts, c.kind.isOut = true → c.idx ∉ listFails sp
  inj : ∀ c ∈ sp.contracts, ∀ c' ∈ sp.contracts, c.kind.isOut = true → c'.kind.isOut = true →
        c.idx = c'.idx → c.key = c'.key


end LndModel.C13
