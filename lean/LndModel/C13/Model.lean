/-
C13 — executable model of the restart behaviour of lnd's `ChannelArbitrator`
(contractcourt/channel_arbitrator.go: `Start`, `progressStateMachineAfterRestart`,
`advanceState`, `stateStep`, `relaunchResolvers`, `resolveContract`; briefcase.go:
bolt `ArbitratorLog`; the resolvers as small state machines).

The model describes what the code DOES, including the places where a stop
changes the outcome.  Granularity: every durable write is its own micro-step;
volatile effects (upstream `ResolutionMsg`s, final-htlc outcomes) that precede a
write belong to the step of that write (a stop happens directly after a write
has committed).  `crash` drops everything volatile and runs `Start`.

Core Lean only.
-/
namespace LndModel.C13

/-- `ArbitratorState` (briefcase.go). `StateError` is never committed. -/
inductive AState
  | default | broadcastCommit | contractClosed | waitingFull | fullyResolved | commitBroadcasted
  deriving DecidableEq, Repr, Inhabited

/-- numeric value of the state byte in the log. -/
def AState.code : AState → Nat
  | .default => 0 | .broadcastCommit => 1 | .contractClosed => 2
  | .waitingFull => 3 | .fullyResolved => 4 | .commitBroadcasted => 6

def AState.ofCode : Nat → Option AState
  | 0 => some .default | 1 => some .broadcastCommit | 2 => some .contractClosed
  | 3 => some .waitingFull | 4 => some .fullyResolved | 6 => some .commitBroadcasted
  | _ => none

/-- `transitionTrigger`. -/
inductive Trigger
  | chain | user | remoteClose | localClose | coopClose | breachClose
  deriving DecidableEq, Repr, Inhabited

def Trigger.isClose : Trigger → Bool
  | .chain | .user => false
  | _ => true

/-- how the channel got closed (`channeldb.ClosureType` restricted to the four used). -/
inductive CloseKind
  | localForce | remoteForce | breach | coop
  deriving DecidableEq, Repr, Inhabited

def CloseKind.trigger : CloseKind → Trigger
  | .localForce => .localClose | .remoteForce => .remoteClose
  | .breach => .breachClose | .coop => .coopClose

/-- resolver types as stored in the log (`resolverType` byte) plus the stateless anchor resolver. -/
inductive RKind
  | oc   -- htlcOutgoingContestResolver
  | to   -- htlcTimeoutResolver
  | ic   -- htlcIncomingContestResolver
  | su   -- htlcSuccessResolver
  | cs   -- commitSweepResolver
  | br   -- breachResolver
  | an   -- anchorResolver (never persisted: `ResolverKey() == nil`)
  deriving DecidableEq, Repr, Inhabited

def RKind.isHtlc : RKind → Bool
  | .oc | .to | .ic | .su => true
  | _ => false

/-- outgoing htlc resolvers: the ones that owe an upstream resolution. -/
def RKind.isOut : RKind → Bool
  | .oc | .to => true
  | _ => false

def RKind.persisted : RKind → Bool
  | .an => false
  | _ => true

/-- a stored resolver: type byte, `outputIncubating`, `resolved`. -/
structure Rec where
  kind : RKind
  incub : Bool
  resolved : Bool
  deriving DecidableEq, Repr, Inhabited

/-- progress measure of a stored resolver (contest < timeout < incubating < resolved). -/
def Rec.progress (r : Rec) : Nat :=
  (if r.kind == .oc || r.kind == .ic then 0 else 1) + (if r.incub then 1 else 0) +
    (if r.resolved then 2 else 0)

/-- One contract of the closed channel. What happens to it on chain is NOT part of the
    contract: it is observed through `Facts`. -/
structure Contract where
  key : Nat
  /-- resolver created by `prepContractResolutions` at the closing height -/
  kind : RKind
  /-- our commitment: the htlc goes through a second-level transaction -/
  twoStage : Bool
  idx : Nat
  expiry : Nat
  /-- pre-anchor channel, htlc on our commitment: the second-level output is handed to the utxo
      nursery (`IncubateOutputs`) instead of the sweeper -/
  legacy : Bool := false
  deriving DecidableEq, Repr, Inhabited

def Contract.fresh (c : Contract) : Rec := { kind := c.kind, incub := false, resolved := false }

/-- the upstream resolution an outgoing-htlc resolver delivers when it has seen how the htlc
    output was spent: `settle = true` iff the spend revealed the preimage. -/
def Contract.msg (c : Contract) (settle : Bool) : List (Nat × Bool) :=
  if c.kind.isOut then [(c.idx, settle)] else []

structure Spec where
  close : CloseKind
  /-- height at which the closing transaction confirmed (`ClosingHeight` / `SpendingHeight`) -/
  closeHeight : Nat
  /-- `OutgoingBroadcastDelta` -/
  delta : Nat
  /-- CSV delay of second-level / commitment outputs handled by the utxo nursery -/
  csv : Nat := 4
  contracts : List Contract
  /-- outgoing dust htlcs: failed upstream in `StateDefault` (HtlcFailDustAction). -/
  dustFails : List Nat
  /-- dangling htlcs: failed upstream in `StateContractClosed` (HtlcFailDanglingAction). -/
  danglingFails : List Nat
  /-- breach: upstream fails for every outgoing htlc on the remote commitments. -/
  breachFails : List Nat
  /-- incoming dust: final outcome "failed" (HtlcIncomingDustFinalAction). -/
  finalFails : List Nat
  deriving Repr, Inhabited

def Spec.find? (sp : Spec) (k : Nat) : Option Contract := sp.contracts.find? (·.key == k)

/-- no contract and no htlc whatsoever. -/
def Spec.isEmpty (sp : Spec) : Bool :=
  sp.contracts.isEmpty && sp.dustFails.isEmpty && sp.danglingFails.isEmpty &&
    sp.breachFails.isEmpty && sp.finalFails.isEmpty

/-- `shouldGoOnChain` for some outgoing htlc at height `h`: `h ≥ RefundTimeout - delta`.
    (An incoming htlc whose preimage is already known is not modelled as a reason to go on chain.) -/
def nearAt (sp : Spec) (h : Nat) : Bool :=
  sp.contracts.any (fun c => c.kind.isOut && h + sp.delta ≥ c.expiry)

/-- who spent an output. For an outgoing htlc `remote` means "claimed with the preimage";
    for an incoming one it means "timed out by the remote party". -/
inductive SpendKind
  | remote | ours
  deriving DecidableEq, Repr, Inhabited

/-- chain / sweeper / preimage-beacon / breach-arbitrator facts; only ever grow, and an output is
    spent once. -/
structure Facts where
  height : Nat := 0
  closeSeen : Bool := false
  /-- htlc (or commit/anchor) outpoint spent, and by whom -/
  spent1 : List (Nat × SpendKind) := []
  /-- output of our second-level tx spent -/
  spent2 : List Nat := []
  /-- preimage known for the incoming htlc with this key -/
  preimages : List Nat := []
  /-- second-level transaction of the htlc with this key confirmed at this height -/
  confs : List (Nat × Nat) := []
  breachDone : Bool := false
  deriving DecidableEq, Repr, Inhabited

def Facts.spendOf (f : Facts) (k : Nat) : Option SpendKind :=
  (f.spent1.find? (·.1 == k)).map (·.2)

inductive Fact
  | height (h : Nat) | close | spend1 (k : Nat) (by_ : SpendKind) | spend2 (k : Nat)
  | preimage (k : Nat) | breachDone | conf (k : Nat) (h : Nat)
  deriving DecidableEq, Repr, Inhabited

def Facts.add (f : Facts) : Fact → Facts
  | .height h => { f with height := max f.height h }
  | .close => { f with closeSeen := true }
  | .spend1 k b => { f with spent1 := if (f.spendOf k).isSome then f.spent1 else f.spent1 ++ [(k, b)] }
  | .spend2 k => { f with spent2 := if f.spent2.contains k then f.spent2 else k :: f.spent2 }
  | .preimage k => { f with preimages := if f.preimages.contains k then f.preimages else k :: f.preimages }
  | .breachDone => { f with breachDone := true }
  | .conf k h => { f with confs := if f.confs.any (·.1 == k) then f.confs else f.confs ++ [(k, h)] }

def Facts.confOf (f : Facts) (k : Nat) : Option Nat := (f.confs.find? (·.1 == k)).map (·.2)

/-- stage of an output in the utxo nursery store (nursery_store.go): preschool (waiting for the
    confirmation of the transaction that creates it), kindergarten (filed in the height index under
    the class height at which it is swept), graduated. -/
inductive NStage
  | preschool | kinder (cls : Nat) | graduated
  /-- crib: an outgoing htlc on our (pre-anchor) commitment, filed under its CLTV expiry; the
      nursery publishes the pre-signed timeout tx at that height -/
  | crib
  deriving DecidableEq, Repr, Inhabited

/-- the durable arbitrator log. -/
structure Log where
  state : AState := .default
  hasRes : Bool := false
  hasCS : Bool := false
  contracts : List (Nat × Rec) := []
  deriving DecidableEq, Repr, Inhabited

def Log.keys (l : Log) : List Nat := l.contracts.map (·.1)

def Log.get? (l : Log) (k : Nat) : Option Rec := (l.contracts.find? (·.1 == k)).map (·.2)

def putRec (cs : List (Nat × Rec)) (k : Nat) (r : Rec) : List (Nat × Rec) :=
  if cs.any (·.1 == k) then cs.map (fun p => if p.1 == k then (k, r) else p) else cs ++ [(k, r)]

def delRec (cs : List (Nat × Rec)) (k : Nat) : List (Nat × Rec) := cs.filter (·.1 != k)

def putAll (cs : List (Nat × Rec)) : List (Nat × Rec) → List (Nat × Rec)
  | [] => cs
  | (k, r) :: rest => putAll (putRec cs k r) rest

/-- channel-db side: close summary (pending close), fully closed. -/
structure Chan where
  pendingClose : Bool := false
  closeKind : CloseKind := .coop
  /-- `CloseHeight` of the close summary -/
  closingHeight : Nat := 0
  broadcasted : Bool := false
  fullyClosed : Bool := false
  deriving DecidableEq, Repr, Inhabited

/-- program counter of the arbitrator's main goroutine between two durable writes. -/
inductive Pc
  | idle
  | evLogCS      -- close event: resolutions logged, next `InsertConfirmedCommitSet`
  | evMark       -- next `MarkChannelClosed`
  | adv          -- inside `advanceState`: next `stateStep`
  | bcPublish    -- StateBroadcastCommit: commitment marked broadcast, next publish + commit
  | ccCommit     -- StateContractClosed: resolvers inserted and launched, next CommitState(WFR)
  | wipe         -- `WipeHistory`
  | finished
  deriving DecidableEq, Repr, Inhabited

inductive RPc
  | running | needDelete | dead | finished
  deriving DecidableEq, Repr, Inhabited

/-- a launched resolver (volatile). -/
structure RunRes where
  key : Nat
  rc : Rec
  pc : RPc
  /-- this incarnation has already handed the output to the nursery (volatile) -/
  handed : Bool := false
  deriving DecidableEq, Repr, Inhabited

structure Sys where
  log : Log := {}
  chan : Chan := {}
  mem : AState := .default
  trig : Trigger := .chain
  /-- `confCommitSet` argument of the running `advanceState` is non-nil -/
  csArg : Bool := false
  /-- `triggerHeight` of the running `advanceState` -/
  trigH : Nat := 0
  pc : Pc := .adv
  /-- `startingState == StateWaitingFullResolution` and `relaunchResolvers` still to run -/
  relaunch : Bool := false
  /-- the close event was consumed by this incarnation -/
  evSeen : Bool := false
  active : List RunRes := []
  /-- ghost: upstream resolutions delivered so far `(htlcIndex, settle?)` -/
  msgs : List (Nat × Bool) := []
  /-- ghost: final htlc outcomes recorded -/
  finals : List Nat := []
  /-- ghost: contracts deleted from the log by `ResolveContract` -/
  resolvedKeys : List Nat := []
  /-- ghost: number of stops so far -/
  crashes : Nat := 0
  /-- durable: htlc outputs persisted in the utxo nursery store by `IncubateOutputs`, with stage -/
  nursery : List (Nat × NStage) := []
  facts : Facts := {}
  deriving Repr, Inhabited

inductive Action
  | main | res (k : Nat) | resAlt (k : Nat) | crash | fact (f : Fact) | forceClose
  | nursery (k : Nat)
  deriving DecidableEq, Repr, Inhabited

/-! ### `stateStep` pieces -/

/-- `len(chainActions) != 0 || trigger != chainTrigger` in `StateDefault`, and whether the full
    per-htlc action map (dust fails, incoming dust finals, htlc resolvers) is computed.
    `full` = the early return of `checkCommitChainActions` is not taken. -/
def fullActions (sp : Spec) (t : Trigger) (h : Nat) : Bool := t != .chain || nearAt sp h

/-- resolvers built by `prepContractResolutions` under trigger `t`. In `StateContractClosed` the
    trigger height is always the closing height (`SpendingHeight` of the event, `ClosingHeight`
    after a restart). -/
def freshContracts (sp : Spec) (t : Trigger) : List Contract :=
  if fullActions sp t sp.closeHeight then sp.contracts
  else sp.contracts.filter (fun c => !c.kind.isHtlc)

def freshRecs (sp : Spec) (t : Trigger) : List (Nat × Rec) :=
  ((freshContracts sp t).filter (·.kind.persisted)).map (fun c => (c.key, c.fresh))

def freshActive (sp : Spec) (t : Trigger) : List RunRes :=
  (freshContracts sp t).map (fun c => { key := c.key, rc := c.fresh, pc := .running })

/-- next state when leaving Default / BroadcastCommit / CommitmentBroadcasted on a close trigger. -/
def closeTarget (hasRes : Bool) : Trigger → AState
  | .coopClose => .fullyResolved
  | .breachClose => if hasRes then .contractClosed else .fullyResolved  -- checkLegacyBreach
  | _ => .contractClosed

def failMsgs (l : List Nat) : List (Nat × Bool) := l.map (fun i => (i, false))

/-- result of one `stateStep` call of the main goroutine up to (and including) its next write. -/
inductive AdvRes
  | stay                                                    -- nextState == priorState
  | commit (msgs : List (Nat × Bool)) (next : AState)       -- effects, then CommitState(next)
  | markBroadcast                                            -- MarkCommitmentBroadcasted
  | insert (msgs : List (Nat × Bool)) (finals : List Nat)   -- effects, InsertUnresolvedContracts
  | notify
  deriving Repr, DecidableEq

def dustIf (sp : Spec) (b : Bool) : List (Nat × Bool) := if b then failMsgs sp.dustFails else []

/-- leaving `StateDefault`: chain/user triggers go on to broadcast, close triggers tunnel through. -/
def leaveDefault (hasRes : Bool) (t : Trigger) (dust : List (Nat × Bool)) : AdvRes :=
  match t with
  | .chain => .commit dust .broadcastCommit
  | .user => .commit dust .broadcastCommit
  | .remoteClose => .commit dust (closeTarget hasRes .remoteClose)
  | .localClose => .commit dust (closeTarget hasRes .localClose)
  | .coopClose => .commit dust (closeTarget hasRes .coopClose)
  | .breachClose => .commit dust (closeTarget hasRes .breachClose)

/-- `stateStep` in `StateDefault`. -/
def defaultRes (sp : Spec) (s : Sys) : AdvRes :=
  if s.csArg then
    -- constructChainActions(confCommitSet, …): `len(chainActions) == 0 && trigger == chainTrigger`
    if s.trig == .chain && !(fullActions sp s.trig s.trigH || !sp.danglingFails.isEmpty) then .stay
    else leaveDefault s.log.hasRes s.trig (dustIf sp (fullActions sp s.trig s.trigH))
  else
    -- checkLocalChainActions on the in-memory htlc sets (empty for a pending-close channel)
    if s.trig == .chain && !(fullActions sp s.trig s.trigH && !s.chan.pendingClose) then .stay
    else leaveDefault s.log.hasRes s.trig
           (dustIf sp (fullActions sp s.trig s.trigH && !s.chan.pendingClose))

/-- leaving BroadcastCommit / CommitmentBroadcasted on a close trigger. -/
def leaveOnClose (hasRes : Bool) (t : Trigger) (other : AdvRes) : AdvRes :=
  match t with
  | .chain => other
  | .user => other
  | .remoteClose => .commit [] (closeTarget hasRes .remoteClose)
  | .localClose => .commit [] (closeTarget hasRes .localClose)
  | .coopClose => .commit [] (closeTarget hasRes .coopClose)
  | .breachClose => .commit [] (closeTarget hasRes .breachClose)

/-- `stateStep` in `StateContractClosed`. -/
def closedRes (sp : Spec) (s : Sys) : AdvRes :=
  if !s.log.hasRes then .stay   -- FetchContractResolutions fails: StateError, nothing committed
  else if sp.isEmpty && s.log.contracts.isEmpty then
    -- contractResolutions.IsEmpty() && confCommitSet.IsEmpty(): no output of ours, no htlc at
    -- all; nothing was or will ever be inserted
    .commit [] .fullyResolved
  else if sp.close == .breach then .insert (failMsgs sp.breachFails) []
  else .insert (failMsgs sp.danglingFails)
         (if fullActions sp s.trig sp.closeHeight then sp.finalFails else [])

def advRes (sp : Spec) (s : Sys) : AdvRes :=
  match s.mem with
  | .default => defaultRes sp s
  | .broadcastCommit => leaveOnClose s.log.hasRes s.trig .markBroadcast
  | .commitBroadcasted => leaveOnClose s.log.hasRes s.trig .stay
  | .contractClosed => closedRes sp s
  | .waitingFull =>
    if s.log.contracts.isEmpty then .commit [] .fullyResolved else .stay
  | .fullyResolved => .notify

/-- restored resolvers of `relaunchResolvers`: everything in the log, plus a fresh anchor resolver. -/
def relaunched (sp : Spec) (s : Sys) : List RunRes :=
  s.log.contracts.map (fun p =>
    { key := p.1, rc := p.2,
      -- `resolveContract` does not enter its loop for a resolver that is already resolved:
      -- nothing deletes it any more.
      pc := if p.2.resolved then RPc.finished else RPc.running })
  ++ ((sp.contracts.filter (fun c => c.kind == .an)).map
        (fun c => { key := c.key, rc := c.fresh, pc := .running }))

/-- can the close event be taken from the chain watcher's channel now? -/
def eventReady (s : Sys) : Bool :=
  s.facts.closeSeen && !s.chan.pendingClose && !s.evSeen &&
    (s.mem == .default || s.mem == .broadcastCommit || s.mem == .commitBroadcasted)

/-- one micro-step of the main goroutine. `none` = blocked. -/
def mainStep (sp : Spec) (s : Sys) : Option Sys :=
  match s.pc with
  | .idle =>
    if eventReady s then
      match sp.close with
      | .coop =>
        -- handleCoopCloseEvent: MarkChannelClosed, then advanceState(coopCloseTrigger, nil)
        some { s with evSeen := true,
                      chan := { s.chan with pendingClose := true, closeKind := CloseKind.coop, closingHeight := sp.closeHeight },
                      trig := .coopClose, csArg := false, trigH := sp.closeHeight, pc := .adv }
      | _ =>
        -- LogContractResolutions
        some { s with evSeen := true, log := { s.log with hasRes := true }, pc := .evLogCS }
    else if s.mem == .waitingFull && s.log.contracts.isEmpty then
      -- resolutionSignal → advanceState(chainTrigger, nil)
      some { s with trig := .chain, csArg := false, trigH := s.facts.height, pc := .adv }
    else if s.mem == .default && !s.chan.pendingClose && nearAt sp s.facts.height then
      -- handleBlockbeat in StateDefault: advanceState(height, chainTrigger, nil)
      some { s with trig := .chain, csArg := false, trigH := s.facts.height, pc := .adv }
    else none
  | .evLogCS => some { s with log := { s.log with hasCS := true }, pc := .evMark }
  | .evMark =>
    some { s with chan := { s.chan with pendingClose := true, closeKind := sp.close, closingHeight := sp.closeHeight },
                  trig := sp.close.trigger, csArg := true, trigH := sp.closeHeight, pc := .adv }
  | .adv =>
    match advRes sp s with
    | .stay =>
      if s.relaunch && s.mem == .waitingFull then
        some { s with pc := .idle, relaunch := false, active := relaunched sp s }
      else some { s with pc := .idle, relaunch := false }
    | .commit ms next =>
      some { s with msgs := s.msgs ++ ms, log := { s.log with state := next }, mem := next,
                    relaunch := false }
    | .markBroadcast => some { s with chan := { s.chan with broadcasted := true }, pc := .bcPublish }
    | .insert ms fs =>
      some { s with msgs := s.msgs ++ ms, finals := s.finals ++ fs,
                    log := { s.log with contracts := putAll s.log.contracts (freshRecs sp s.trig) },
                    active := freshActive sp s.trig, pc := .ccCommit }
    | .notify => some { s with chan := { s.chan with fullyClosed := true }, pc := .wipe }
  | .bcPublish =>
    some { s with log := { s.log with state := .commitBroadcasted }, mem := .commitBroadcasted,
                  pc := .adv }
  | .ccCommit =>
    some { s with log := { s.log with state := .waitingFull }, mem := .waitingFull, pc := .adv }
  | .wipe => some { s with log := {}, active := [], pc := .finished }
  | .finished => none

/-! ### resolvers -/

inductive ResRes
  | blocked
  /-- the resolver's goroutine ends without resolving (error from `Resolve`, or a panic) -/
  | die
  /-- `IncubateOutputs`: a durable (idempotent) write into the nursery store -/
  | incubate
  | put (msgs : List (Nat × Bool)) (r : Rec) (pc : RPc)
  | del
  /-- `ResolveContract` of the key-less anchor resolver: an empty write -/
  | noop
  deriving Repr, DecidableEq

def resRes (sp : Spec) (f : Facts) (r : RunRes) : ResRes :=
  match r.pc with
  | .dead | .finished => .blocked
  | .needDelete => if r.rc.kind.persisted then .del else .noop
  | .running =>
    match sp.find? r.key with
    | none => .blocked
    | some c =>
      match r.rc.kind with
      | .oc =>
        match f.spendOf r.key with
        -- "the output has already been spent": claimCleanUp without looking at the witness
        | some .remote => .put (c.msg true) { kind := .to, incub := r.rc.incub, resolved := true } .needDelete
        | some .ours => .die
        | none =>
          if f.height + 1 ≥ c.expiry then
            .put [] { kind := .to, incub := r.rc.incub, resolved := r.rc.resolved } .running   -- SwapContract
          else .blocked
      | .to =>
        if r.rc.resolved then .blocked
        -- resolveSecondLevelTxLegacy (pre-anchor channel, our commitment): EVERY (re)launched
        -- incarnation first hands the htlc to the nursery (`IncubateOutputs`: crib), whatever
        -- `outputIncubating` says; only then it watches the htlc output
        else if c.legacy && !r.handed then .incubate
        else match f.spendOf r.key with
        | none => .blocked
        | some .remote => .put (c.msg true) { r.rc with resolved := true } .needDelete
        | some .ours =>
          if !c.twoStage then .put (c.msg false) { r.rc with resolved := true } .needDelete
          else if !r.rc.incub then
            .put (c.msg false) { r.rc with incub := true } .running       -- checkpointStageOne
          else if f.spent2.contains r.key then
            .put [] { r.rc with resolved := true } .needDelete            -- checkpointClaim
          else .blocked
      | .ic =>
        -- `Resolve` looks at the expiry before it looks for the preimage
        if f.height ≥ c.expiry then .put [] { r.rc with resolved := true } .needDelete
        else if f.preimages.contains r.key then
          .put [] { kind := .su, incub := r.rc.incub, resolved := r.rc.resolved } .running  -- SwapContract
        else .blocked
      | .su =>
        if r.rc.resolved then .blocked
        else if c.legacy then
          -- resolveLegacySuccessTx: publish the success tx, IncubateOutputs, THEN checkpoint
          -- `outputIncubating`, then wait for the nursery's sweep of the second-level output
          if !r.rc.incub then
            (if !r.handed then .incubate else .put [] { r.rc with incub := true } .running)
          else if f.spent2.contains r.key then .put [] { r.rc with resolved := true } .needDelete
          else .blocked
        else match f.spendOf r.key with
        | none => .blocked
        | some .remote => .put [] { r.rc with resolved := true } .needDelete   -- checkpointForeignSpend
        | some .ours =>
          if !c.twoStage then .put [] { r.rc with resolved := true } .needDelete
          else if !r.rc.incub then .put [] { r.rc with incub := true } .running
          else if f.spent2.contains r.key then .put [] { r.rc with resolved := true } .needDelete
          else .blocked
      | .cs =>
        if (f.spendOf r.key).isSome then .put [] { r.rc with resolved := true } .needDelete else .blocked
      | .br =>
        if f.breachDone then .put [] { r.rc with resolved := true } .needDelete else .blocked
      | .an =>
        if (f.spendOf r.key).isSome then .put [] { r.rc with resolved := true } .needDelete else .blocked

/-- second possibility of the contest resolver's `select`: when the htlc is already spent by our
    own timeout sweep AND the expiry height is reached, Go picks either ready case. The epoch case
    swaps to the timeout resolver (which copes with the spend); the spend case is `resRes`. -/
def resAlt (sp : Spec) (f : Facts) (r : RunRes) : ResRes :=
  match r.pc, r.rc.kind, sp.find? r.key with
  | .running, .oc, some c =>
    if f.spendOf r.key == some .ours && f.height + 1 ≥ c.expiry then
      .put [] { kind := .to, incub := r.rc.incub, resolved := r.rc.resolved } .running
    else .blocked
  | _, _, _ => .blocked

def setActive (as : List RunRes) (k : Nat) (r : RunRes) : List RunRes :=
  as.map (fun a => if a.key == k then r else a)

/-- nursery bucket an output enters through `IncubateOutputs`. -/
def incubStage (k : RKind) : NStage := if k == .to then .crib else .preschool

/-- apply a resolver result. -/
def resApply (s : Sys) (k : Nat) (r : RunRes) : ResRes → Option Sys
  | .blocked => none
  | .die => some { s with active := setActive s.active k { r with pc := .dead } }
  | .incubate =>
    -- `Incubate` → `enterPreschool` (incoming htlc: success resolver) / `enterCrib` (outgoing htlc:
    -- timeout resolver): ignored when the output already sits in that bucket
    some { s with nursery := if s.nursery.any (fun p => p.1 == k && p.2 == incubStage r.rc.kind) then s.nursery
                             else s.nursery ++ [(k, incubStage r.rc.kind)],
                  active := setActive s.active k { r with handed := true } }
  | .put ms rec pc =>
    some { s with msgs := s.msgs ++ ms,
                  log := if rec.kind.persisted
                         then { s.log with contracts := putRec s.log.contracts k rec } else s.log,
                  active := setActive s.active k { r with rc := rec, pc := pc } }
  | .del =>
    some { s with log := { s.log with contracts := delRec s.log.contracts k },
                  resolvedKeys := k :: s.resolvedKeys,
                  active := setActive s.active k { r with pc := .finished } }
  | .noop => some { s with active := setActive s.active k { r with pc := .finished } }

/-- one micro-step of the resolver with key `k`. -/
def resStep (sp : Spec) (s : Sys) (k : Nat) : Option Sys :=
  match s.active.find? (·.key == k) with
  | none => none
  | some r => resApply s k r (resRes sp s.facts r)

def resAltStep (sp : Spec) (s : Sys) (k : Nat) : Option Sys :=
  match s.active.find? (·.key == k) with
  | none => none
  | some r => resApply s k r (resAlt sp s.facts r)

/-! ### stop + `Start` -/

/-- trigger reconstruction of `progressStateMachineAfterRestart`. -/
def restartTrigger (c : Chan) (st : AState) : Trigger :=
  if c.pendingClose &&
     (st == .default || st == .broadcastCommit || st == .commitBroadcasted)
  then c.closeKind.trigger else .chain

/-- everything volatile is dropped; a new arbitrator is started from what is durable
    (no arbitrator at all for a channel that is already fully closed). -/
def restart (s : Sys) : Sys :=
  { s with mem := s.log.state,
           trig := restartTrigger s.chan s.log.state,
           csArg := s.log.hasCS,
           trigH := if s.chan.pendingClose then s.chan.closingHeight else s.facts.height,
           pc := if s.chan.fullyClosed then .finished else .adv,
           relaunch := s.log.state == .waitingFull,
           evSeen := false, active := [], crashes := s.crashes + 1 }

/-- one durable write of the utxo nursery for the output of htlc `k` (utxonursery.go):
    * preschool, confirmation (historical or live) at `hc` → `PreschoolToKinder(kid, lastGradHeight)`:
      class `hc + csv`, but a late registration (`hc + csv ≤` the best height the nursery knows,
      which `Start` / every new block set to the chain tip) is filed under `best + 1`;
    * crib (outgoing htlc, pre-signed timeout tx), confirmation of the timeout tx at `hc` →
      `CribToKinder`: class `hc + csv`, no late-registration rule;
    * kindergarten, class height reached (live block or replay at start), sweep confirmed →
      `GraduateKinder`;
    * everything graduated → `RemoveChannel`. -/
def nurseryStep (sp : Spec) (s : Sys) (k : Nat) : Option Sys :=
  if s.nursery.any (fun p => p.1 == k && p.2 == .preschool) then
    match s.facts.confOf k with
    | some hc =>
      let cls := if hc + sp.csv ≤ s.facts.height then s.facts.height + 1 else hc + sp.csv
      -- the preschool entry is deleted, the kindergarten entry (over)written
      some { s with nursery :=
               s.nursery.filter (fun p => !(p.1 == k && p.2 != .graduated)) ++ [(k, .kinder cls)] }
    | none => none
  else if s.nursery.any (fun p => p.1 == k && p.2 == .crib) then
    -- `waitForTimeoutConf` → `CribToKinder`: class `hc + csv` WITHOUT the late-registration rule
    -- of `PreschoolToKinder`; the crib entry is deleted, the kindergarten entry (over)written
    match s.facts.confOf k with
    | some hc =>
      some { s with nursery :=
               s.nursery.filter (fun p => !(p.1 == k && p.2 != .graduated)) ++ [(k, .kinder (hc + sp.csv))] }
    | none => none
  else
    match s.nursery.find? (fun p => p.1 == k && p.2 != .graduated) with
    | some (_, .kinder cls) =>
      if cls ≤ s.facts.height && s.facts.spent2.contains k then
        some { s with nursery := s.nursery.map fun p =>
                 if p.1 == k && p.2 == .kinder cls then (k, .graduated) else p }
      else none
    | _ =>
      if !s.nursery.isEmpty && s.nursery.all (fun p => p.2 == .graduated) then
        some { s with nursery := [] }
      else none

def step (sp : Spec) (s : Sys) : Action → Option Sys
  | .main => mainStep sp s
  | .res k => resStep sp s k
  | .resAlt k => resAltStep sp s k
  | .nursery k => nurseryStep sp s k
  | .crash => some (restart s)
  | .fact f => some { s with facts := s.facts.add f }
  | .forceClose =>
    -- user force close request: only acted upon in StateDefault between two events
    if s.pc == .idle && s.mem == .default && !s.chan.pendingClose then
      some { s with trig := .user, csArg := false, trigH := s.facts.height, pc := .adv }
    else none

def init : Sys := {}

/-- run a schedule; actions that are not enabled are skipped. -/
def run (sp : Spec) (s : Sys) : List Action → Sys
  | [] => s
  | a :: rest => run sp ((step sp s a).getD s) rest

/-! ### upstream resolutions that do not depend on the chain -/

/-- fails issued by the arbitrator itself (dust, dangling, breach). -/
def listFails (sp : Spec) : List Nat := sp.dustFails ++ sp.danglingFails ++ sp.breachFails

def persistedKeys (sp : Spec) : List Nat :=
  (sp.contracts.filter (·.kind.persisted)).map (·.key)

end LndModel.C13
