/-
C13 — property theorems.  "Contract resolution survives restarts: same outcome,
nothing skipped or repeated."

The model (`Model.lean`) describes what the code does; stops (`Action.crash`) may
happen after every durable write, any number of times; `Reach sp H s` = `s` is
reachable from the initial state by enabled actions allowed by the schedule
predicate `H` (`anySchedule` = no restriction at all).

FULL STATEMENTS (the property as written):

  same_outcome      for every scenario and every schedule with stops, the run reaches the
                    same terminal state, resolves the same contracts with the same outcomes
                    and delivers the same set of upstream resolutions as the uninterrupted run.
  resolved_last     StateFullyResolved / MarkChannelResolved only when the log holds no
                    unresolved contract.
  no_progress_lost  re-executing a stage never replaces a stored resolver by one with less
                    progress and never re-inserts a resolved one.

`resolved_last` is proved in full.  The other two do NOT hold for the code (and hence for
the model): see the `*_fails*` witnesses below, each reproduced on the real code by the
harness.  What is proved instead:

  * `upstream_consistent` / `no_contradictory_upstream` / `runs_never_contradict` — for every
    schedule, every upstream resolution ever delivered is the one the chain dictates
    (the "no contradictory upstream resolutions" half of same_outcome, unconditional);
  * `same_outcome_partial` — if no stop happens while the durable state is
    StateContractClosed, the channel is marked fully resolved only after EVERY contract of the
    closed channel has been resolved (nothing skipped), so any two such runs that terminate
    resolved the same contracts;  missing for the full statement: termination of the run with
    stops (fails: `stuck_after_stop_between_checkpoint_and_delete`) and completeness of the
    set of upstream dust failures (fails through finding F2 of C12 when the stop hits
    StateDefault with the commit set already logged);
  * `no_progress_lost_partial` — if resolver goroutines do not write while the durable state is
    StateContractClosed, every (re-)execution of that state overwrites each stored resolver
    with an identical one and nothing has been resolved yet; `checkpoint_monotone`: a
    resolver's own checkpoints never lose progress.
-/
import LndModel.C13.Lemmas

namespace LndModel.C13.Props
open LndModel.C13

/-! ## resolved_last (full) -/

/-- In every reachable state — any interleaving of the main goroutine and the resolvers, stops
    after any write, repeated — `StateFullyResolved` is committed / the channel is marked fully
    closed only while the log holds no unresolved contract. -/
theorem resolved_last (sp : Spec) (s : Sys) (h : Reach sp anySchedule s) :
    (s.log.state = .fullyResolved ∨ s.chan.fullyClosed = true) → s.log.contracts = [] :=
  (reach_inv h).done

/-- transition form: the write that commits `StateFullyResolved` starts from an empty log. -/
theorem resolved_last_commit (sp : Spec) (s s' : Sys) (h : Reach sp anySchedule s)
    (hs : step sp s .main = some s') (hnew : s'.log.state = .fullyResolved) :
    s'.log.contracts = [] :=
  (reach_inv (Reach.step h trivial hs)).done (Or.inl hnew)

/-! ## no contradictory upstream resolutions (unconditional part of same_outcome) -/

theorem upstream_consistent (sp : Spec) (s : Sys) (h : Reach sp anySchedule s) :
    ∀ m ∈ s.msgs, m ∈ expectedMsgs sp :=
  reach_msgsOk h

/-- the chain dictates one resolution per htlc index. -/
def Spec.Unambiguous (sp : Spec) : Prop :=
  ∀ i b b', (i, b) ∈ expectedMsgs sp → (i, b') ∈ expectedMsgs sp → b = b'

theorem no_contradictory_upstream (sp : Spec) (hu : Spec.Unambiguous sp) (s : Sys)
    (h : Reach sp anySchedule s) :
    ∀ i b b', (i, b) ∈ s.msgs → (i, b') ∈ s.msgs → b = b' :=
  fun i b b' h1 h2 => hu i b b' (reach_msgsOk h _ h1) (reach_msgsOk h _ h2)

/-- a run with stops and any other run (e.g. the uninterrupted one) of the same scenario never
    deliver contradictory resolutions for the same htlc. -/
theorem runs_never_contradict (sp : Spec) (hu : Spec.Unambiguous sp) (s₁ s₂ : Sys)
    (h₁ : Reach sp anySchedule s₁) (h₂ : Reach sp anySchedule s₂) :
    ∀ i b b', (i, b) ∈ s₁.msgs → (i, b') ∈ s₂.msgs → b = b' :=
  fun i b b' h1 h2 => hu i b b' (reach_msgsOk h₁ _ h1) (reach_msgsOk h₂ _ h2)

/-! ## no_progress_lost (partial) -/

/-- FULL: for every schedule, every write keeps the progress of every stored resolver and never
    re-inserts a resolved one.  PROVED: under `noResInClosed` (no resolver write while the
    durable state is StateContractClosed; stops unrestricted) the (re-)execution of
    StateContractClosed overwrites every stored resolver with an identical record and no
    contract has been resolved before.  MISSING: the window itself, see `no_progress_lost_fails`. -/
theorem no_progress_lost_partial (sp : Spec) (hk : sp.KeysNodup) (s : Sys)
    (h : Reach sp noResInClosed s) (hpc : s.pc = .adv) {ms : List (Nat × Bool)} {fs : List Nat}
    (hadv : advRes sp s = .insert ms fs) :
    (∀ p ∈ s.log.contracts, ∀ q ∈ freshRecs sp s.trig, q.1 = p.1 → q.2 = p.2) ∧
      s.resolvedKeys = [] := by
  have hi := reach_inv h
  have hc := reach_invCC h
  have hst : s.log.state = .contractClosed := by
    rw [← hi.memEq (by simp [hpc])]; exact advRes_insert_mem hadv
  have hnc := not_closed_of_pc hi (by simp [hpc]) (by simp [hpc])
  refine ⟨?_, hc.noneResolved (Or.inr hst) hnc⟩
  intro p hp q hq hkey
  obtain ⟨c, hcm, hck, hcf⟩ := hc.freshStored hst p hp
  obtain ⟨c', hcm', hck', hcf'⟩ := freshRecs_mem hq
  have : c = c' := key_inj hk hcm hcm' (by rw [hck, hck', hkey])
  rw [hcf, hcf', this]

/-- a resolver's own checkpoints (incl. `SwapContract`) never decrease its progress. -/
theorem checkpoint_monotone (sp : Spec) (f : Facts) (r : RunRes) (ms : List (Nat × Bool))
    (rec : Rec) (pc : RPc) (h : resRes sp f r = .put ms rec pc) : r.rc.progress ≤ rec.progress :=
  resRes_put_progress h

/-! ## same_outcome (partial): nothing is skipped -/

/-- FULL: for every schedule with stops the run reaches the same terminal state, the same set of
    resolved contracts and the same set of upstream resolutions as the uninterrupted run.
    PROVED: for every interleaving and every stop schedule that does not stop while the durable
    state is StateContractClosed (`noStopInClosed`; the uninterrupted run is one such schedule),
    the channel is marked fully resolved only after EVERY stateful contract of the closed channel
    has been resolved and deleted by its resolver.  MISSING: that the run with stops terminates
    at all (`stuck_after_stop_between_checkpoint_and_delete`), the excluded window itself
    (`same_outcome_fails_contract_skipped`), and completeness of the upstream dust failures. -/
theorem same_outcome_partial (sp : Spec) (hcoop : sp.CoopClean) (s : Sys)
    (h : Reach sp noStopInClosed s) (hc : s.chan.fullyClosed = true) :
    ∀ c ∈ sp.contracts, c.kind.persisted = true → c.key ∈ s.resolvedKeys := by
  intro c hcm hp
  have hk := (reach_invK hcoop h).k1 (Or.inr (Or.inr (Or.inr hc))) c hcm hp
  have hempty := (reach_inv h).done (Or.inr hc)
  rcases hk with hk | hk
  · simp [Log.keys, hempty] at hk
  · exact hk

/-- two terminated runs of the same scenario (e.g. one with stops outside the window and the
    uninterrupted one) resolved the same contracts and never contradict each other upstream. -/
theorem same_outcome_of_terminated_runs (sp : Spec) (hcoop : sp.CoopClean)
    (hu : Spec.Unambiguous sp) (s₁ s₂ : Sys)
    (h₁ : Reach sp noStopInClosed s₁) (h₂ : Reach sp noStopInClosed s₂)
    (hc₁ : s₁.chan.fullyClosed = true) (hc₂ : s₂.chan.fullyClosed = true) :
    (∀ c ∈ sp.contracts, c.kind.persisted = true →
        (c.key ∈ s₁.resolvedKeys ↔ c.key ∈ s₂.resolvedKeys)) ∧
    (s₁.log.contracts = [] ∧ s₂.log.contracts = []) ∧
    (∀ i b b', (i, b) ∈ s₁.msgs → (i, b') ∈ s₂.msgs → b = b') := by
  refine ⟨?_, ⟨(reach_inv h₁).done (Or.inr hc₁), (reach_inv h₂).done (Or.inr hc₂)⟩, ?_⟩
  · intro c hcm hp
    exact ⟨fun _ => same_outcome_partial sp hcoop s₂ h₂ hc₂ c hcm hp,
           fun _ => same_outcome_partial sp hcoop s₁ h₁ hc₁ c hcm hp⟩
  · intro i b b' m1 m2
    exact hu i b b' (reach_msgsOk h₁ _ m1) (reach_msgsOk h₂ _ m2)

/-! ## witnesses: where the full statements fail (all reproduced on the real code) -/

/-- our own force close (chain trigger, one htlc inside the broadcast window so that a
    re-execution rebuilds every resolver), one contested outgoing htlc, our commit output. -/
def specNear : Spec :=
  { close := .localForce, near := true, hasRes := true,
    contracts := [ { key := 10, kind := .oc, twoStage := true, remoteClaims := false, idx := 10, expiry := 140 },
                   { key := 1000, kind := .cs, twoStage := false, remoteClaims := false, idx := 0, expiry := 0 } ],
    dustFails := [20], danglingFails := [], breachFails := [], finalFails := [] }

/-- up to "resolvers inserted and launched, StateWaitingFullResolution not yet committed". -/
def toWindow : List Action :=
  [.main, .main, .main, .main,            -- dust fail + BroadcastCommit, mark, publish + CommitmentBroadcasted, stay
   .fact .close, .main, .main, .main,     -- LogContractResolutions, InsertConfirmedCommitSet, MarkChannelClosed
   .main, .main]                          -- CommitState(ContractClosed), InsertUnresolvedContracts + launch

/-- in the window: the commit sweep resolves and is deleted, the contest resolver swaps to the
    timeout resolver; then the process stops. -/
def f3Schedule : List Action :=
  toWindow ++ [.fact (.spend1 1000), .res 1000, .res 1000, .fact (.height 141), .res 10, .crash]

/-- F3: after that stop `StateContractClosed` is executed again; it replaces the stored
    timeout resolver (progress 1) by a fresh contest resolver (progress 0) and inserts the
    already resolved commit sweep resolver again. -/
def sF3 : Sys := run specNear init f3Schedule

theorem no_progress_lost_fails :
    sF3.pc = .adv ∧ advRes specNear sF3 = .insert [] [] ∧
      sF3.log.get? 10 = some { kind := .to, incub := false, resolved := false } ∧
      (freshRecs specNear sF3.trig).contains (10, { kind := .oc, incub := false, resolved := false }) = true ∧
      sF3.resolvedKeys = [1000] ∧
      ((freshRecs specNear sF3.trig).map (·.1)).contains 1000 = true := by
  decide

/-- the same scenario without an htlc inside the broadcast window (user-requested force close). -/
def specFar : Spec := { specNear with near := false }

def toClosedFar : List Action :=
  [.main, .forceClose, .main, .main, .main, .main,
   .fact .close, .main, .main, .main, .main]     -- … CommitState(ContractClosed)

def finish : List Action :=
  [.main, .main,                                  -- insert + launch, CommitState(WFR)
   .fact (.spend1 1000), .res 1000, .res 1000,
   .fact (.height 141), .res 10, .fact (.spend1 10), .res 10, .fact (.spend2 10), .res 10, .res 10,
   .main, .main, .main, .main, .main]            -- signal, CommitState(FullyResolved), mark, wipe

/-- F3c (same_outcome fails, a contract is skipped): a stop directly after
    `CommitState(StateContractClosed)`.  The restart runs that state with `chainTrigger`; with no
    htlc inside the broadcast window `checkCommitChainActions` returns early, no htlc resolver is
    created, and the channel is marked fully resolved with the htlc never resolved and its
    upstream htlc never failed back — while the uninterrupted run does both. -/
def crashed : Sys := run specFar init (toClosedFar ++ [.crash] ++ finish)
def plain : Sys := run specFar init (toClosedFar ++ finish)

theorem same_outcome_fails_contract_skipped :
    plain.chan.fullyClosed = true ∧ plain.resolvedKeys.contains 10 = true ∧
      plain.msgs.contains (10, false) = true ∧
    crashed.chan.fullyClosed = true ∧ crashed.resolvedKeys = [1000] ∧
      crashed.msgs.contains (10, false) = false := by
  decide

/-- F3b (same_outcome fails, the run never terminates): a stop between the final checkpoint
    (`resolved = true` persisted) and `ResolveContract` (delete).  After the restart
    `resolveContract` does not enter its loop for the resolved resolver, nobody deletes the
    record, and `StateWaitingFullResolution` never sees an empty log: no action of the
    arbitrator is enabled any more, whatever else happens on chain. -/
def f3bSchedule : List Action :=
  toClosedFar ++ [.main, .main, .fact (.spend1 1000), .res 1000, .crash, .main]

def sF3b : Sys := run specFar init f3bSchedule

theorem stuck_after_stop_between_checkpoint_and_delete :
    sF3b.chan.fullyClosed = false ∧ sF3b.log.state = .waitingFull ∧
      sF3b.log.get? 1000 = some { kind := .cs, incub := false, resolved := true } ∧
      sF3b.pc = .idle ∧ (sF3b.active.find? (·.key == 1000)).map (·.pc) = some RPc.finished ∧
      mainStep specFar sF3b = none := by
  decide

/-- … and in that state the commit-sweep contract can never make a step again, for any facts. -/
theorem resolved_record_is_never_deleted (f : Facts) (r : RunRes) (h : r.pc = .finished) :
    resRes specFar f r = .blocked ∧ resAlt specFar f r = .blocked := by
  constructor
  · simp [resRes, h]
  · unfold resAlt; simp [h]

/-! ## non-vacuity -/

example : Spec.KeysNodup specNear := by unfold Spec.KeysNodup; decide
example : Spec.Unambiguous specNear := by
  intro i b b' h1 h2
  simp [expectedMsgs, specNear, failMsgs, Contract.upstream, RKind.isHtlc] at h1 h2
  rcases h1 with ⟨rfl, rfl⟩ | ⟨rfl, rfl⟩ <;> rcases h2 with ⟨h, rfl⟩ | ⟨h, rfl⟩ <;> first | rfl | omega

example : Spec.CoopClean specFar := by intro h; cases h

/-- a run with a stop in StateWaitingFullResolution (outside the window) that terminates:
    hypotheses of `same_outcome_partial` are satisfiable with a real stop. -/
def stoppedOk : Sys :=
  run specFar init (toClosedFar ++
    [.main, .main, .fact (.spend1 1000), .res 1000, .res 1000, .crash, .main,
     .fact (.height 141), .res 10, .fact (.spend1 10), .res 10, .crash, .main,
     .fact (.spend2 10), .res 10, .res 10, .main, .main, .main, .main])

example : stoppedOk.chan.fullyClosed = true ∧ stoppedOk.crashes = 2 ∧
    stoppedOk.resolvedKeys = [10, 1000] ∧ stoppedOk.msgs = [(20, false), (10, false)] := by decide

/-- the schedules used above are reachable states. -/
theorem run_reach (sp : Spec) : ∀ (acts : List Action) (s : Sys),
    Reach sp anySchedule s → Reach sp anySchedule (run sp s acts) := by
  intro acts
  induction acts with
  | nil => intro s h; exact h
  | cons a rest ih =>
    intro s h
    simp only [run]
    cases hs : step sp s a with
    | none => simpa [hs] using ih s h
    | some s' => simpa [hs] using ih s' (Reach.step h trivial hs)

/-- the hypotheses of `no_progress_lost_partial` are satisfiable at a real re-execution:
    a stop directly after `InsertUnresolvedContracts`, then `Start`. -/
def allowedB (s : Sys) : Action → Bool
  | .res _ => s.log.state != .contractClosed
  | .resAlt _ => s.log.state != .contractClosed
  | _ => true

theorem allowedB_sound (s : Sys) (a : Action) (h : allowedB s a = true) : noResInClosed s a := by
  cases a <;> simp_all [allowedB, noResInClosed]

def stopOkB (s : Sys) : Action → Bool
  | .crash => s.log.state != .contractClosed
  | _ => true

theorem stopOkB_sound (s : Sys) (a : Action) (h : stopOkB s a = true) : noStopInClosed s a := by
  cases a <;> simp_all [stopOkB, noStopInClosed]

def runAllowed (sp : Spec) (ok : Sys → Action → Bool) : Sys → List Action → Bool
  | _, [] => true
  | s, a :: rest => ok s a && runAllowed sp ok ((step sp s a).getD s) rest

theorem run_reach_of (sp : Spec) (H : Sys → Action → Prop) (ok : Sys → Action → Bool)
    (hsound : ∀ s a, ok s a = true → H s a) : ∀ (acts : List Action) (s : Sys),
    Reach sp H s → runAllowed sp ok s acts = true → Reach sp H (run sp s acts) := by
  intro acts
  induction acts with
  | nil => intro s h _; exact h
  | cons a rest ih =>
    intro s h hal
    simp only [runAllowed, Bool.and_eq_true] at hal
    simp only [run]
    cases hs : step sp s a with
    | none => rw [hs] at hal; simpa [hs] using ih s h hal.2
    | some s' =>
      rw [hs] at hal
      simpa [hs] using ih s' (Reach.step h (hsound _ _ hal.1) hs) hal.2

def sReexec : Sys := run specNear init (toWindow ++ [.crash])

example : Reach specNear noResInClosed sReexec :=
  run_reach_of _ _ _ allowedB_sound _ _ .init (by decide)

example :
    sReexec.pc = .adv ∧ advRes specNear sReexec = .insert [] [] ∧ sReexec.log.contracts.length = 2 := by
  decide

example : Reach specFar noStopInClosed stoppedOk :=
  run_reach_of _ _ _ stopOkB_sound _ _ .init (by decide)

end LndModel.C13.Props
