/-
C13 — property theorems.  "Contract resolution survives restarts: same outcome,
nothing skipped or repeated."

The model (`Model.lean`) describes what the code does; stops (`Action.crash`) may
happen after every durable write, any number of times; `Reach sp H s` = `s` is
reachable from the initial state by enabled actions allowed by the schedule
predicate `H` (`anySchedule` = no restriction at all).  What happens on chain is
NOT part of the scenario `Spec`: it is observed through `Facts` (who spent which
output, preimages, heights), which only grow and in which an output is spent once.

FULL STATEMENTS (the property as written):

  same_outcome      for every scenario and every schedule with stops, the run reaches the
                    same terminal state, resolves the same contracts with the same outcomes
                    and delivers the same set of upstream resolutions as the uninterrupted run.
  resolved_last     the channel is marked fully resolved only after all contracts are resolved.
  no_progress_lost  re-executing a stage never replaces a stored resolver by one with less
                    progress and never re-inserts a resolved one.

STATUS

  * `resolved_last_log` (full, every schedule): StateFullyResolved / "fully closed" only while
    the LOG holds no unresolved contract.  This is the log-level reading only: it does not say
    that every contract of the channel was ever inserted.
  * `resolved_last_partial` (the real clause): fully closed ⇒ every stateful contract of the
    channel was resolved and deleted by its resolver — holds under `noStopInClosed`, FAILS
    without it (`resolved_last_fails`, finding F3c).
  * `upstream_justified`, `no_contradictory_upstream`, `runs_never_contradict` (every schedule):
    each delivered upstream resolution is justified by an OBSERVED chain fact (settle ⇔ the htlc
    output was seen spent by the remote party, fail ⇔ seen spent by us) or is one of the
    arbitrator's own dust/dangling/breach fails; with unique htlc indices that are disjoint from
    those lists (`IdxDisjoint`, proved for every spec built by `specOf` from an htlc set with
    distinct indices and ONE dust classification per htlc) no index ever gets both resolutions.
    Excluded by `IdxDisjoint`: an htlc that is dust on one commitment and not on the confirmed one
    (finding F2 of C12).
  * `same_outcome_partial` (under `noStopInWindows`): at termination every stateful contract is
    resolved, every dust fail and every dangling/breach fail was delivered, every outgoing htlc
    contract got its upstream resolution.  `same_outcome_of_terminated_runs`: two terminated runs
    on the same chain resolved the same contracts and gave every htlc the same resolution.
    Termination of the run with stops fails in general (F3b witness); ON THE FRAGMENT
    `outsideWindows` it is proved (round 5, end of this file): `fair_run_terminates`,
    `fair_run_terminates_after_facts`, `same_outcome_fair` (same outcome WITHOUT a "terminated"
    hypothesis), and `outcome_determined` (the set of upstream resolutions at termination is a
    function of the scenario and the observed spends only).
    NOT proved: equality of contract reports / final incoming-dust outcomes, exactly-once delivery.
  * `no_progress_lost_partial` (under `noResInClosed`) and `checkpoint_monotone`; the full
    statement FAILS (`no_progress_lost_fails`, finding F3).
-/
import LndModel.C13.Progress2

namespace LndModel.C13.Props
open LndModel.C13

/-! ## resolved_last -/

/-- log-level reading, every schedule: `StateFullyResolved` is committed / the channel is marked
    fully closed only while the log holds no unresolved contract. (It does not say that all
    contracts of the channel were ever put into the log — see `resolved_last_partial`.) -/
theorem resolved_last_log (sp : Spec) (s : Sys) (h : Reach sp anySchedule s) :
    (s.log.state = .fullyResolved ∨ s.chan.fullyClosed = true) → s.log.contracts = [] :=
  (reach_inv h).done

theorem resolved_last_log_commit (sp : Spec) (s s' : Sys) (h : Reach sp anySchedule s)
    (hs : step sp s .main = some s') (hnew : s'.log.state = .fullyResolved) :
    s'.log.contracts = [] :=
  (reach_inv (Reach.step h trivial hs)).done (Or.inl hnew)

/-- FULL (the property's clause): for every schedule, fully closed ⇒ every stateful contract of
    the closed channel has been resolved.  PROVED: under `noStopInClosed` (no stop while the durable
    state is StateContractClosed; everything else unrestricted).  MISSING: that window —
    `resolved_last_fails`. -/
theorem resolved_last_partial (sp : Spec) (hcoop : sp.CoopClean) (s : Sys)
    (h : Reach sp noStopInClosed s) (hc : s.chan.fullyClosed = true) :
    ∀ c ∈ sp.contracts, c.kind.persisted = true → c.key ∈ s.resolvedKeys := by
  intro c hcm hp
  have hk := (reach_invK hcoop h).k1 (Or.inr (Or.inr (Or.inr hc))) c hcm hp
  have hempty := (reach_inv h).done (Or.inr hc)
  rcases hk with hk | hk
  · simp [Log.keys, hempty] at hk
  · exact hk

/-! ## upstream resolutions come from observed chain facts -/

theorem upstream_justified (sp : Spec) (s : Sys) (h : Reach sp anySchedule s) :
    ∀ m ∈ s.msgs, Justified sp s.facts m :=
  reach_msgsOk h

/-- settle and fail of the same htlc would need its output to be observed spent both by the
    remote party and by us. -/
theorem justified_unique {sp : Spec} (hd : sp.IdxDisjoint) {f₁ f₂ : Facts}
    (hsame : ∀ k x y, f₁.spendOf k = some x → f₂.spendOf k = some y → x = y)
    {i : Nat} {b b' : Bool} (h1 : Justified sp f₁ (i, b)) (h2 : Justified sp f₂ (i, b')) : b = b' := by
  rcases h1 with ⟨hb, hl⟩ | ⟨c, hc, ho, hi, hs⟩ <;> rcases h2 with ⟨hb', hl'⟩ | ⟨c', hc', ho', hi', hs'⟩
  · simp only at hb hb'; rw [hb, hb']
  · simp only at hi' hl; rw [← hi'] at hl; exact absurd hl (hd.notListed c' hc' ho')
  · simp only at hi hl'; rw [← hi] at hl'; exact absurd hl' (hd.notListed c hc ho)
  · have hk := hd.inj c hc c' hc' ho ho' (by simp only at hi hi'; rw [hi, hi'])
    rw [← hk] at hs'
    have := hsame _ _ _ hs hs'
    cases b <;> cases b' <;> simp_all

theorem no_contradictory_upstream (sp : Spec) (hd : sp.IdxDisjoint) (s : Sys)
    (h : Reach sp anySchedule s) :
    ∀ i b b', (i, b) ∈ s.msgs → (i, b') ∈ s.msgs → b = b' := by
  intro i b b' h1 h2
  exact justified_unique hd (fun k x y hx hy => by rw [hx] at hy; cases hy; rfl)
    (reach_msgsOk h _ h1) (reach_msgsOk h _ h2)

/-- a run with stops and any other run (e.g. the uninterrupted one) that observe the same chain
    never deliver contradictory resolutions for the same htlc. -/
theorem runs_never_contradict (sp : Spec) (hd : sp.IdxDisjoint) (s₁ s₂ : Sys)
    (h₁ : Reach sp anySchedule s₁) (h₂ : Reach sp anySchedule s₂)
    (hchain : ∀ k x y, s₁.facts.spendOf k = some x → s₂.facts.spendOf k = some y → x = y) :
    ∀ i b b', (i, b) ∈ s₁.msgs → (i, b') ∈ s₂.msgs → b = b' :=
  fun _ _ _ h1 h2 => justified_unique hd hchain (reach_msgsOk h₁ _ h1) (reach_msgsOk h₂ _ h2)

/-! ### specs built from the htlc set of the confirmed commitment -/

inductive HtlcClass
  | dust      -- no output on any commitment
  | dangling  -- on a remote commitment that did not confirm
  | live      -- has an output on the confirmed commitment
  deriving DecidableEq, Repr

structure HtlcDesc where
  idx : Nat
  cls : HtlcClass
  expiry : Nat
  incoming : Bool
  deriving Repr

def htlcKind (closeHeight delta : Nat) (h : HtlcDesc) : RKind :=
  if h.incoming then .ic else if closeHeight + delta ≥ h.expiry then .to else .oc

def htlcContract (closeHeight delta : Nat) (two : Bool) (h : HtlcDesc) : Contract :=
  { key := h.idx, kind := htlcKind closeHeight delta h, twoStage := two, idx := h.idx,
    expiry := h.expiry }

/-- the scenario determined by the htlcs of the channel (each with ONE classification), the
    closing height and the non-htlc contracts (commit output, anchor). -/
def specOf (close : CloseKind) (closeHeight delta : Nat) (two : Bool) (hs : List HtlcDesc)
    (extra : List Contract) : Spec :=
  { close := close, closeHeight := closeHeight, delta := delta,
    contracts := (hs.filter (·.cls == .live)).map (htlcContract closeHeight delta two) ++ extra,
    dustFails := (hs.filter (fun h => h.cls == .dust && !h.incoming)).map (·.idx),
    danglingFails := (hs.filter (fun h => h.cls == .dangling && !h.incoming)).map (·.idx),
    breachFails := [],
    finalFails := (hs.filter (fun h => h.cls == .dust && h.incoming)).map (·.idx) }

theorem idx_inj {l : List HtlcDesc} (h : (l.map (·.idx)).Nodup) {a b : HtlcDesc}
    (ha : a ∈ l) (hb : b ∈ l) (hk : a.idx = b.idx) : a = b := by
  induction l with
  | nil => simp at ha
  | cons x rest ih =>
    simp only [List.map_cons, List.nodup_cons, List.mem_map, not_exists, not_and] at h
    simp only [List.mem_cons] at ha hb
    rcases ha with rfl | ha <;> rcases hb with rfl | hb
    · rfl
    · exact absurd hk.symm (h.1 b hb)
    · exact absurd hk (h.1 a ha)
    · exact ih h.2 ha hb

/-- `IdxDisjoint` is not an assumption about the code: it holds for every scenario built from an
    htlc set with distinct indices. -/
theorem idxDisjoint_specOf (close : CloseKind) (closeHeight delta : Nat) (two : Bool)
    (hs : List HtlcDesc) (extra : List Contract) (hn : (hs.map (·.idx)).Nodup)
    (hex : ∀ c ∈ extra, c.kind.isOut = false) :
    (specOf close closeHeight delta two hs extra).IdxDisjoint := by
  have hsrc : ∀ c ∈ (specOf close closeHeight delta two hs extra).contracts, c.kind.isOut = true →
      ∃ h ∈ hs, h.cls = .live ∧ c = htlcContract closeHeight delta two h := by
    intro c hc ho
    simp only [specOf, List.mem_append, List.mem_map, List.mem_filter] at hc
    rcases hc with ⟨h, ⟨hh, hcl⟩, rfl⟩ | hc
    · exact ⟨h, hh, by simpa using hcl, rfl⟩
    · rw [hex c hc] at ho; cases ho
  constructor
  · intro c hc ho hl
    obtain ⟨h, hh, hlive, rfl⟩ := hsrc c hc ho
    simp only [listFails, specOf, List.mem_append, List.mem_map, List.mem_filter,
      List.not_mem_nil, or_false, htlcContract] at hl
    rcases hl with ⟨h', ⟨hh', hcl'⟩, hi⟩ | ⟨h', ⟨hh', hcl'⟩, hi⟩
    · have := idx_inj hn hh' hh hi
      subst this
      simp [hlive] at hcl'
    · have := idx_inj hn hh' hh hi
      subst this
      simp [hlive] at hcl'
  · intro c hc c' hc' ho ho' hi
    obtain ⟨h, hh, _, rfl⟩ := hsrc c hc ho
    obtain ⟨h', hh', _, rfl⟩ := hsrc c' hc' ho'
    simpa [htlcContract] using hi

/-! ## same_outcome (partial): nothing is skipped, nothing is missing upstream -/

/-- FULL: for every schedule with stops the run reaches the same terminal state, the same set of
    resolved contracts and the same set of upstream resolutions as the uninterrupted run.
    PROVED: for every interleaving and every stop schedule that avoids the two windows of
    `noStopInWindows` (the uninterrupted run is one such schedule), when the channel is marked
    fully closed then (1) every stateful contract was resolved and deleted, (2) every outgoing-dust
    fail and (3) every dangling / breach fail was delivered, (4) every outgoing htlc contract got an
    upstream resolution.  MISSING: termination of the run with stops, the two windows themselves
    (both fail on the code), reports / final htlc outcomes. -/
theorem same_outcome_partial (sp : Spec) (hce : sp.CoopEmpty) (hk : sp.KeysNodup) (s : Sys)
    (h : Reach sp noStopInWindows s) (hc : s.chan.fullyClosed = true) :
    (∀ c ∈ sp.contracts, c.kind.persisted = true → c.key ∈ s.resolvedKeys) ∧
    (∀ i ∈ sp.dustFails, (i, false) ∈ s.msgs) ∧
    (∀ i ∈ closedFails sp, (i, false) ∈ s.msgs) ∧
    (∀ c ∈ sp.contracts, c.kind.isOut = true → ∃ b, (c.idx, b) ∈ s.msgs) := by
  obtain ⟨hu, _⟩ := reach_invU hce h
  have hres := resolved_last_partial sp (coopClean_of_empty hce) s
    (Reach.mono noStopInWindows_closed h) hc
  refine ⟨hres, hu.u1 (Or.inr hc), hu.u2 (Or.inr (Or.inr (Or.inr hc))), ?_⟩
  intro c hcm ho
  have hp : c.kind.persisted = true := by
    cases hkk : c.kind <;> simp [hkk, RKind.isOut] at ho <;> rfl
  exact (reach_invR hk h).d1 c.key (hres c hcm hp) c (find?_of_mem hk hcm) ho

/-- two terminated runs of the same scenario on the same chain (e.g. one with stops outside the
    windows and the uninterrupted one) resolved the same contracts and gave every outgoing htlc the
    same upstream resolution. -/
theorem same_outcome_of_terminated_runs (sp : Spec) (hce : sp.CoopEmpty) (hk : sp.KeysNodup)
    (hd : sp.IdxDisjoint) (s₁ s₂ : Sys)
    (h₁ : Reach sp noStopInWindows s₁) (h₂ : Reach sp noStopInWindows s₂)
    (hc₁ : s₁.chan.fullyClosed = true) (hc₂ : s₂.chan.fullyClosed = true)
    (hchain : ∀ k x y, s₁.facts.spendOf k = some x → s₂.facts.spendOf k = some y → x = y) :
    (∀ c ∈ sp.contracts, c.kind.persisted = true →
        (c.key ∈ s₁.resolvedKeys ∧ c.key ∈ s₂.resolvedKeys)) ∧
    (∀ c ∈ sp.contracts, c.kind.isOut = true →
        ∃ b, (c.idx, b) ∈ s₁.msgs ∧ (c.idx, b) ∈ s₂.msgs) ∧
    (∀ i ∈ sp.dustFails ++ closedFails sp, (i, false) ∈ s₁.msgs ∧ (i, false) ∈ s₂.msgs) := by
  obtain ⟨r1, d1, c1, m1⟩ := same_outcome_partial sp hce hk s₁ h₁ hc₁
  obtain ⟨r2, d2, c2, m2⟩ := same_outcome_partial sp hce hk s₂ h₂ hc₂
  refine ⟨fun c hcm hp => ⟨r1 c hcm hp, r2 c hcm hp⟩, ?_, ?_⟩
  · intro c hcm ho
    obtain ⟨b₁, hb₁⟩ := m1 c hcm ho
    obtain ⟨b₂, hb₂⟩ := m2 c hcm ho
    have := justified_unique hd hchain (reach_msgsOk h₁ _ hb₁) (reach_msgsOk h₂ _ hb₂)
    subst this
    exact ⟨b₁, hb₁, hb₂⟩
  · intro i hi
    rcases List.mem_append.mp hi with hi | hi
    · exact ⟨d1 i hi, d2 i hi⟩
    · exact ⟨c1 i hi, c2 i hi⟩

/-! ## no_progress_lost (partial) -/

/-- FULL: for every schedule, every write keeps the progress of every stored resolver and never
    re-inserts a resolved one.  PROVED: under `noResInClosed` (no resolver write while the
    durable state is StateContractClosed; stops unrestricted) the (re-)execution of
    StateContractClosed overwrites every stored resolver with an identical record and no
    contract has been resolved before.  (Under that restriction resolvers cannot have progressed,
    so this says little more than "the re-execution is harmless then".)  MISSING: the window
    itself, see `no_progress_lost_fails`. -/
theorem no_progress_lost_partial (sp : Spec) (hk : sp.KeysNodup) (s : Sys)
    (h : Reach sp noResInClosed s) (hpc : s.pc = .adv) {ms : List (Nat × Bool)} {fs : List Nat}
    (hadv : advRes sp s = .insert ms fs) :
    (∀ p ∈ s.log.contracts, ∀ q ∈ freshRecs sp s.trig, q.1 = p.1 → q.2 = p.2) ∧
      s.resolvedKeys = [] := by
  have hi := reach_inv h
  have hc := reach_invCC h
  have hst : s.log.state = .contractClosed := by
    rw [← hi.memEq (by simp [hpc])]; exact advRes_insert_mem hadv
  have hnc := not_closed_of_pc hi (by simp [hpc]) (by simp [hpc])
  refine ⟨?_, hc.noneResolved (Or.inr hst) hnc⟩
  intro p hp q hq hkey
  obtain ⟨c, hcm, hck, hcf⟩ := hc.freshStored hst p hp
  obtain ⟨c', hcm', hck', hcf'⟩ := freshRecs_mem hq
  have : c = c' := key_inj hk hcm hcm' (by rw [hck, hck', hkey])
  rw [hcf, hcf', this]

/-- a resolver's own checkpoints (incl. `SwapContract`) never decrease its progress. -/
theorem checkpoint_monotone (sp : Spec) (f : Facts) (r : RunRes) (ms : List (Nat × Bool))
    (rec : Rec) (pc : RPc) (h : resRes sp f r = .put ms rec pc) : r.rc.progress ≤ rec.progress :=
  resRes_put_progress h

/-! ## utxo nursery: late registrations -/

/-- `PreschoolToKinder` (with `lastGradHeight` = the chain tip, as `Start` and every new block set it)
    always files the output under a class height that is still to come, so the incubator will visit
    it: an output whose confirmation is replayed after downtime is never stranded below the tip. -/
theorem nursery_class_in_future (sp : Spec) (s s' : Sys) (k : Nat)
    (hp : s.nursery.any (fun p => p.1 == k && p.2 == .preschool) = true)
    (h : nurseryStep sp s k = some s') :
    ∃ cls, (k, NStage.kinder cls) ∈ s'.nursery ∧ s.facts.height < cls ∧
      ¬ (k, NStage.preschool) ∈ s'.nursery := by
  unfold nurseryStep at h
  rw [if_pos hp] at h
  split at h
  · rename_i hc _
    cases h
    refine ⟨if hc + sp.csv ≤ s.facts.height then s.facts.height + 1 else hc + sp.csv, ?_, ?_, ?_⟩
    · simp
    · split <;> omega
    · simp
  · cases h

/-! ## witnesses: where the full statements fail (all reproduced on the real code) -/

/-- our own force close decided by the chain trigger: htlc 12 is inside the broadcast window at
    height 100 (so a re-execution rebuilds every resolver), htlc 10 is contested, plus our commit
    output. -/
def specNear : Spec :=
  { close := .localForce, closeHeight := 100, delta := 5,
    contracts := [ { key := 10, kind := .oc, twoStage := true, idx := 10, expiry := 140 },
                   { key := 12, kind := .to, twoStage := true, idx := 12, expiry := 103 },
                   { key := 1000, kind := .cs, twoStage := false, idx := 0, expiry := 0 } ],
    dustFails := [20], danglingFails := [], breachFails := [], finalFails := [] }

/-- up to "resolvers inserted and launched, StateWaitingFullResolution not yet committed". -/
def toWindow : List Action :=
  [.fact (.height 100), .main, .main,     -- nothing to do at height 0; block 100: chain trigger
   .main, .main, .main, .main,            -- dust fail + BroadcastCommit, mark, publish + CommitmentBroadcasted, stay
   .fact .close, .main, .main, .main,     -- LogContractResolutions, InsertConfirmedCommitSet, MarkChannelClosed
   .main, .main]                          -- CommitState(ContractClosed), InsertUnresolvedContracts + launch

/-- in the window: the commit sweep resolves and is deleted, the contest resolver swaps to the
    timeout resolver; then the process stops. -/
def f3Schedule : List Action :=
  toWindow ++ [.fact (.spend1 1000 .ours), .res 1000, .res 1000, .fact (.height 141), .res 10, .crash]

def sF3 : Sys := run specNear init f3Schedule

/-- F3: after that stop `StateContractClosed` is executed again; it replaces the stored
    timeout resolver (progress 1) by a fresh contest resolver (progress 0) and inserts the
    already resolved commit sweep resolver again. -/
theorem no_progress_lost_fails :
    sF3.pc = .adv ∧ advRes specNear sF3 = .insert [] [] ∧
      sF3.log.get? 10 = some { kind := .to, incub := false, resolved := false } ∧
      (freshRecs specNear sF3.trig).contains (10, { kind := .oc, incub := false, resolved := false }) = true ∧
      sF3.resolvedKeys = [1000] ∧
      ((freshRecs specNear sF3.trig).map (·.1)).contains 1000 = true := by
  decide

/-- the same channel without an htlc inside the broadcast window (user-requested force close). -/
def specFar : Spec :=
  { specNear with contracts := [ { key := 10, kind := .oc, twoStage := true, idx := 10, expiry := 140 },
                                 { key := 1000, kind := .cs, twoStage := false, idx := 0, expiry := 0 } ] }

def toClosedFar : List Action :=
  [.fact (.height 100), .main, .forceClose, .main, .main, .main, .main,
   .fact .close, .main, .main, .main, .main]     -- … CommitState(ContractClosed)

def finish : List Action :=
  [.main, .main,                                  -- insert + launch, CommitState(WFR)
   .fact (.spend1 1000 .ours), .res 1000, .res 1000,
   .fact (.height 141), .res 10, .fact (.spend1 10 .ours), .res 10, .fact (.spend2 10), .res 10, .res 10,
   .main, .main, .main, .main, .main]            -- signal, CommitState(FullyResolved), mark, wipe

def crashed : Sys := run specFar init (toClosedFar ++ [.crash] ++ finish)
def plain : Sys := run specFar init (toClosedFar ++ finish)

/-- F3c (same_outcome and the real resolved_last clause fail, a contract is skipped): a stop directly
    after `CommitState(StateContractClosed)`.  The restart runs that state with `chainTrigger`; with
    no htlc inside the broadcast window at the closing height `checkCommitChainActions` returns
    early, no htlc resolver is created, and the channel is marked fully resolved with the htlc never
    resolved and its upstream htlc never failed back — while the uninterrupted run does both. -/
theorem same_outcome_fails_contract_skipped :
    plain.chan.fullyClosed = true ∧ plain.resolvedKeys.contains 10 = true ∧
      plain.msgs.contains (10, false) = true ∧
    crashed.chan.fullyClosed = true ∧ crashed.resolvedKeys = [1000] ∧
      crashed.msgs.contains (10, false) = false := by
  decide

/-- the same state, read as the failure of the full `resolved_last` clause: marked fully closed,
    the log is empty (`resolved_last_log` holds), contract 10 was never resolved. -/
theorem resolved_last_fails :
    crashed.chan.fullyClosed = true ∧ crashed.log.contracts = [] ∧
      (specFar.contracts.any fun c => c.kind.persisted && !crashed.resolvedKeys.contains c.key) = true := by
  decide

/-- F3b (same_outcome fails, the run never terminates): a stop between the final checkpoint
    (`resolved = true` persisted) and `ResolveContract` (delete).  After the restart
    `resolveContract` does not enter its loop for the resolved resolver, nobody deletes the
    record, and `StateWaitingFullResolution` never sees an empty log. -/
def f3bSchedule : List Action :=
  toClosedFar ++ [.main, .main, .fact (.spend1 1000 .ours), .res 1000, .crash, .main]

def sF3b : Sys := run specFar init f3bSchedule

theorem stuck_after_stop_between_checkpoint_and_delete :
    sF3b.chan.fullyClosed = false ∧ sF3b.log.state = .waitingFull ∧
      sF3b.log.get? 1000 = some { kind := .cs, incub := false, resolved := true } ∧
      sF3b.pc = .idle ∧ (sF3b.active.find? (·.key == 1000)).map (·.pc) = some RPc.finished ∧
      mainStep specFar sF3b = none := by
  decide

/-- … and in that state the commit-sweep contract can never make a step again, for any facts. -/
theorem resolved_record_is_never_deleted (f : Facts) (r : RunRes) (h : r.pc = .finished) :
    resRes specFar f r = .blocked ∧ resAlt specFar f r = .blocked := by
  constructor
  · simp [resRes, h]
  · unfold resAlt; simp [h]

/-! ## non-vacuity -/

example : Spec.KeysNodup specNear := by unfold Spec.KeysNodup; decide
example : Spec.CoopEmpty specFar := by intro h; cases h

/-- `specFar` is the scenario built from its htlc set. -/
example : specFar =
    specOf .localForce 100 5 true
      [ { idx := 10, cls := .live, expiry := 140, incoming := false },
        { idx := 20, cls := .dust, expiry := 500, incoming := false } ]
      [ { key := 1000, kind := .cs, twoStage := false, idx := 0, expiry := 0 } ] := by
  rfl

example : Spec.IdxDisjoint specFar := by
  have : specFar =
    specOf .localForce 100 5 true
      [ { idx := 10, cls := .live, expiry := 140, incoming := false },
        { idx := 20, cls := .dust, expiry := 500, incoming := false } ]
      [ { key := 1000, kind := .cs, twoStage := false, idx := 0, expiry := 0 } ] := by rfl
  rw [this]
  exact idxDisjoint_specOf _ _ _ _ _ _ (by decide) (by decide)

/-- the schedules used above are reachable states. -/
theorem run_reach (sp : Spec) : ∀ (acts : List Action) (s : Sys),
    Reach sp anySchedule s → Reach sp anySchedule (run sp s acts) := by
  intro acts
  induction acts with
  | nil => intro s h; exact h
  | cons a rest ih =>
    intro s h
    simp only [run]
    cases hs : step sp s a with
    | none => simpa [hs] using ih s h
    | some s' => simpa [hs] using ih s' (Reach.step h trivial hs)

def allowedB (s : Sys) : Action → Bool
  | .res _ => s.log.state != .contractClosed
  | .resAlt _ => s.log.state != .contractClosed
  | _ => true

theorem allowedB_sound (s : Sys) (a : Action) (h : allowedB s a = true) : noResInClosed s a := by
  cases a <;> simp_all [allowedB, noResInClosed]

def stopOkB (s : Sys) : Action → Bool
  | .crash => s.log.state != .contractClosed &&
      !(s.log.state == .default && s.log.hasCS && !s.chan.pendingClose)
  | _ => true

theorem stopOkB_sound (s : Sys) (a : Action) (h : stopOkB s a = true) : noStopInWindows s a := by
  cases a <;> simp_all [stopOkB, noStopInWindows]
  intro h1 h2
  rcases h.2 with (h3 | h3) | h3
  · exact absurd h1 h3
  · rw [h2] at h3; cases h3
  · exact h3

def runAllowed (sp : Spec) (ok : Sys → Action → Bool) : Sys → List Action → Bool
  | _, [] => true
  | s, a :: rest => ok s a && runAllowed sp ok ((step sp s a).getD s) rest

theorem run_reach_of (sp : Spec) (H : Sys → Action → Prop) (ok : Sys → Action → Bool)
    (hsound : ∀ s a, ok s a = true → H s a) : ∀ (acts : List Action) (s : Sys),
    Reach sp H s → runAllowed sp ok s acts = true → Reach sp H (run sp s acts) := by
  intro acts
  induction acts with
  | nil => intro s h _; exact h
  | cons a rest ih =>
    intro s h hal
    simp only [runAllowed, Bool.and_eq_true] at hal
    simp only [run]
    cases hs : step sp s a with
    | none => rw [hs] at hal; simpa [hs] using ih s h hal.2
    | some s' =>
      rw [hs] at hal
      simpa [hs] using ih s' (Reach.step h (hsound _ _ hal.1) hs) hal.2

/-- the hypotheses of `no_progress_lost_partial` are satisfiable at a real re-execution:
    a stop directly after `InsertUnresolvedContracts`, then `Start`. -/
def sReexec : Sys := run specNear init (toWindow ++ [.crash])

example : Reach specNear noResInClosed sReexec :=
  run_reach_of _ _ _ allowedB_sound _ _ .init (by decide)

example :
    sReexec.pc = .adv ∧ advRes specNear sReexec = .insert [] [] ∧ sReexec.log.contracts.length = 3 := by
  decide

/-- a run with two stops in StateWaitingFullResolution (outside the windows) that terminates:
    the hypotheses of `same_outcome_partial` are satisfiable with real stops. -/
def stoppedOk : Sys :=
  run specFar init (toClosedFar ++
    [.main, .main, .fact (.spend1 1000 .ours), .res 1000, .res 1000, .crash, .main,
     .fact (.height 141), .res 10, .fact (.spend1 10 .ours), .res 10, .crash, .main,
     .fact (.spend2 10), .res 10, .res 10, .main, .main, .main, .main])

example : stoppedOk.chan.fullyClosed = true ∧ stoppedOk.crashes = 2 ∧
    stoppedOk.resolvedKeys = [10, 1000] ∧ stoppedOk.msgs = [(20, false), (10, false)] := by decide

example : Reach specFar noStopInWindows stoppedOk :=
  run_reach_of _ _ _ stopOkB_sound _ _ .init (by decide)


/-! ## progress: every fair run outside the defect windows terminates (round 5)

FAIRNESS.  A run of the micro-step LTS is *fair* when (1) it contains finitely many `crash`
actions, (2) the chain oracle eventually delivers every fact the scenario waits for
(`Complete sp facts`: the close is seen, every contract output is spent, every second-level output
is swept, every expiry height is reached, the breach is handled), and (3) an action of the node
(`main`, `res k`, `resAlt k`) that stays enabled is eventually taken.  The theorems below do not
need infinite traces: for EVERY state reachable under `outsideWindows` (any interleaving, any fact
order, any number of stops outside the windows of F3 / F3c / F3b / F2-via-stop) there is a
continuation by node actions only, of length at most `mu`, that ends with the channel marked fully
resolved and an empty log; `progress_step` is the measure step (some enabled node action strictly
decreases `mu`).  `mu` is bounded by `15 + 10·|spec contracts| + 10·|log|`, a bound that does not
depend on volatile state, so a stop (which leaves the log alone) restores at most that bound.

Round 7 (`Termination.lean`, `Nursery.lean`): EVERY enabled node action descends in the
lexicographic pair `(mu, awork)` (`node_action_descends`; the steps of the key-less anchor resolver
keep `mu` and reduce `awork`), hence the node-step relation is well-founded
(`node_runs_terminate`); progress of the utxo nursery's store transitions is `nursery_drains`.
NOT covered (stated, not hidden): which class heights the running nursery offers to the sweeper
(the arbitrator only waits for the sweep fact; finding F5 lives there). -/

/-- PROGRESS (liveness on the fragment).  From every state reachable outside the defect windows,
    once the chain facts are complete, at most `mu sp s` node actions lead to: channel marked fully
    resolved, log empty, every stateful contract resolved.  No stop is needed and none is taken. -/
theorem fair_run_terminates (sp : Spec) (hce : sp.CoopEmpty) (hk : sp.KeysNodup) (s : Sys)
    (h : Reach sp (outsideWindows sp) s) (hcomp : Complete sp s.facts) :
    ∃ acts : List Action,
      acts.length ≤ 15 + 10 * sp.contracts.length + 10 * s.log.contracts.length ∧
      (∀ a ∈ acts, a.isNode = true) ∧
      Reach sp (outsideWindows sp) (run sp s acts) ∧
      (run sp s acts).chan.fullyClosed = true ∧ (run sp s acts).log.contracts = [] ∧
      (∀ c ∈ sp.contracts, c.kind.persisted = true → c.key ∈ (run sp s acts).resolvedKeys) ∧
      (run sp s acts).facts = s.facts := by
  have hcoop := coopClean_of_empty hce
  obtain ⟨acts, hlen, hall, hr, hfin, hf⟩ := progress_bounded hcoop hk (mu sp s) s h hcomp (Nat.le_refl _)
  have hw : Reach sp noStopInWindows (run sp s acts) := Reach.mono (outsideWindows_windows sp) hr
  have hfc := (reach_invU hce hw).2.k9 hfin
  refine ⟨acts, Nat.le_trans hlen (mu_le sp s), hall, hr, hfc, (reach_inv hr).done (Or.inr hfc), ?_, hf⟩
  exact resolved_last_partial sp hcoop _ (Reach.mono noStopInWindows_closed hw) hfc

/-- a stop restores at most the state-independent bound: `mu` after `Start` is bounded by the same
    `15 + 10·|contracts| + 10·|log|` (a stop leaves the log alone), so finitely many stops delay
    termination by a bounded number of node actions each. -/
theorem crash_restores_bound (sp : Spec) (s : Sys) :
    mu sp (restart s) ≤ 15 + 10 * sp.contracts.length + 10 * s.log.contracts.length :=
  mu_le sp (restart s)

/-- … and the chain oracle may deliver the missing facts at any time: from ANY reachable state of
    the fragment, for any list of further facts that completes the chain, delivering them and then
    at most `15 + 10·|contracts| + 10·|log|` node actions terminates the run. -/
theorem fair_run_terminates_after_facts (sp : Spec) (hce : sp.CoopEmpty) (hk : sp.KeysNodup) (s : Sys)
    (h : Reach sp (outsideWindows sp) s) (fs : List Fact)
    (hcomp : Complete sp (fs.foldl Facts.add s.facts)) :
    ∃ acts : List Action,
      acts.length ≤ 15 + 10 * sp.contracts.length + 10 * s.log.contracts.length ∧
      (∀ a ∈ acts, a.isNode = true) ∧
      Reach sp (outsideWindows sp) (run sp s (fs.map .fact ++ acts)) ∧
      (run sp s (fs.map .fact ++ acts)).chan.fullyClosed = true ∧
      (run sp s (fs.map .fact ++ acts)).log.contracts = [] := by
  obtain ⟨hr, hf, hl⟩ := run_facts (sp := sp) fs s h
  obtain ⟨acts, hlen, hall, hr', hfc, hemp, _, _⟩ :=
    fair_run_terminates sp hce hk _ hr (by rw [hf]; exact hcomp)
  rw [hl] at hlen
  exact ⟨acts, hlen, hall, by rw [run_append]; exact hr', by rw [run_append]; exact hfc,
    by rw [run_append]; exact hemp⟩

/-- SAME OUTCOME without a "terminated" hypothesis: any two states of the fragment (e.g. a run with
    stops and the uninterrupted run, at any point) that have seen complete and agreeing chains can
    both be continued by node actions to termination, and the terminated runs resolved the same
    contracts and gave every htlc the same upstream resolution. -/
theorem same_outcome_fair (sp : Spec) (hce : sp.CoopEmpty) (hk : sp.KeysNodup) (hd : sp.IdxDisjoint)
    (s₁ s₂ : Sys) (h₁ : Reach sp (outsideWindows sp) s₁) (h₂ : Reach sp (outsideWindows sp) s₂)
    (hc₁ : Complete sp s₁.facts) (hc₂ : Complete sp s₂.facts)
    (hchain : ∀ k x y, s₁.facts.spendOf k = some x → s₂.facts.spendOf k = some y → x = y) :
    ∃ a₁ a₂ : List Action,
      (∀ a ∈ a₁ ++ a₂, a.isNode = true) ∧
      (run sp s₁ a₁).chan.fullyClosed = true ∧ (run sp s₂ a₂).chan.fullyClosed = true ∧
      (∀ c ∈ sp.contracts, c.kind.persisted = true →
        (c.key ∈ (run sp s₁ a₁).resolvedKeys ∧ c.key ∈ (run sp s₂ a₂).resolvedKeys)) ∧
      (∀ c ∈ sp.contracts, c.kind.isOut = true →
        ∃ b, (c.idx, b) ∈ (run sp s₁ a₁).msgs ∧ (c.idx, b) ∈ (run sp s₂ a₂).msgs) ∧
      (∀ i ∈ sp.dustFails ++ closedFails sp,
        (i, false) ∈ (run sp s₁ a₁).msgs ∧ (i, false) ∈ (run sp s₂ a₂).msgs) := by
  obtain ⟨a₁, _, n₁, r₁, f₁, _, _, e₁⟩ := fair_run_terminates sp hce hk s₁ h₁ hc₁
  obtain ⟨a₂, _, n₂, r₂, f₂, _, _, e₂⟩ := fair_run_terminates sp hce hk s₂ h₂ hc₂
  have w₁ := Reach.mono (outsideWindows_windows sp) r₁
  have w₂ := Reach.mono (outsideWindows_windows sp) r₂
  obtain ⟨x, y, z⟩ := same_outcome_of_terminated_runs sp hce hk hd _ _ w₁ w₂ f₁ f₂
    (by rw [e₁, e₂]; exact hchain)
  refine ⟨a₁, a₂, ?_, f₁, f₂, x, y, z⟩
  intro a ha
  rcases List.mem_append.mp ha with ha | ha
  · exact n₁ a ha
  · exact n₂ a ha

/-! ## the upstream outcome is a function of (scenario, chain facts) only -/

/-- the two lists of arbitrator-issued fails are used for the close kinds they belong to. -/
def ListsWF (sp : Spec) : Prop :=
  (sp.close = .breach → sp.danglingFails = []) ∧ (sp.close ≠ .breach → sp.breachFails = [])

/-- the upstream resolutions a terminated run has delivered, computed from the scenario and the
    observed spends alone. -/
def expectedMsgs (sp : Spec) (f : Facts) : List (Nat × Bool) :=
  failMsgs sp.dustFails ++ failMsgs (closedFails sp) ++
    (sp.contracts.filter (·.kind.isOut)).filterMap
      (fun c => (f.spendOf c.key).map (fun w => (c.idx, decide (w = SpendKind.remote))))

/-- at termination (every schedule outside the two windows of `noStopInWindows`) the SET of
    delivered upstream resolutions is exactly `expectedMsgs sp facts`.  (Set, not multiset: the
    real code may deliver the same resolution again after a stop; the monitor accepts duplicates.) -/
theorem outcome_determined (sp : Spec) (hce : sp.CoopEmpty) (hk : sp.KeysNodup) (hd : sp.IdxDisjoint)
    (hwf : ListsWF sp) (s : Sys) (h : Reach sp noStopInWindows s) (hc : s.chan.fullyClosed = true) :
    ∀ m, m ∈ s.msgs ↔ m ∈ expectedMsgs sp s.facts := by
  obtain ⟨_, hdust, hclosed, hout⟩ := same_outcome_partial sp hce hk s h hc
  intro m
  constructor
  · intro hm
    rcases reach_msgsOk h m hm with ⟨hb, hl⟩ | ⟨c, hcm, ho, hi, hs⟩
    · obtain ⟨i, b⟩ := m
      simp only at hb hl
      subst hb
      simp only [expectedMsgs, List.mem_append, failMsgs, List.mem_map, Prod.mk.injEq, and_true,
        exists_eq_right]
      left
      simp only [listFails, List.mem_append] at hl
      unfold closedFails
      by_cases hbr : sp.close = .breach
      · simp only [hbr, beq_self_eq_true, if_true]
        rcases hl with (hl | hl) | hl
        · exact Or.inl hl
        · rw [hwf.1 hbr] at hl; simp at hl
        · exact Or.inr hl
      · have : (sp.close == CloseKind.breach) = false := by simpa using hbr
        simp only [this, Bool.false_eq_true, if_false]
        rcases hl with (hl | hl) | hl
        · exact Or.inl hl
        · exact Or.inr hl
        · rw [hwf.2 hbr] at hl; simp at hl
    · obtain ⟨i, b⟩ := m
      simp only at hi hs
      subst hi
      simp only [expectedMsgs, List.mem_append, List.mem_filterMap, List.mem_filter]
      right
      refine ⟨c, ⟨hcm, ho⟩, ?_⟩
      rw [hs]
      cases b <;> simp
  · intro hm
    simp only [expectedMsgs, List.mem_append, List.mem_filterMap, List.mem_filter] at hm
    rcases hm with (hm | hm) | ⟨c, ⟨hcm, ho⟩, hs⟩
    · simp only [failMsgs, List.mem_map] at hm
      obtain ⟨i, hi, rfl⟩ := hm
      exact hdust i hi
    · simp only [failMsgs, List.mem_map] at hm
      obtain ⟨i, hi, rfl⟩ := hm
      exact hclosed i hi
    · cases hw : s.facts.spendOf c.key with
      | none => simp [hw] at hs
      | some w =>
        simp only [hw, Option.map_some, Option.some.injEq] at hs
        subst hs
        obtain ⟨b, hb⟩ := hout c hcm ho
        have hj := reach_msgsOk h _ hb
        rcases hj with ⟨_, hl⟩ | ⟨c', hcm', ho', hi', hs'⟩
        · exact absurd hl (hd.notListed c hcm ho)
        · have hkey := hd.inj c' hcm' c hcm ho' ho hi'
          simp only at hs'
          rw [hkey, hw] at hs'
          have : b = decide (w = SpendKind.remote) := by
            cases b <;> cases w <;> simp_all
          rw [← this]; exact hb

theorem filterMap_congr_aux {α β} {l : List α} {f g : α → Option β} (h : ∀ x ∈ l, f x = g x) :
    l.filterMap f = l.filterMap g := by
  induction l with
  | nil => rfl
  | cons x xs ih =>
    simp only [List.filterMap_cons, h x (by simp)]
    rw [ih (fun y hy => h y (by simp [hy]))]

/-- two terminated runs (e.g. one with stops outside the windows and the uninterrupted one) that
    observed the same spends delivered the same SET of upstream resolutions. -/
theorem outcome_equal_of_same_chain (sp : Spec) (hce : sp.CoopEmpty) (hk : sp.KeysNodup)
    (hd : sp.IdxDisjoint) (hwf : ListsWF sp) (s₁ s₂ : Sys)
    (h₁ : Reach sp noStopInWindows s₁) (h₂ : Reach sp noStopInWindows s₂)
    (hc₁ : s₁.chan.fullyClosed = true) (hc₂ : s₂.chan.fullyClosed = true)
    (hchain : ∀ c ∈ sp.contracts, s₁.facts.spendOf c.key = s₂.facts.spendOf c.key) :
    ∀ m, m ∈ s₁.msgs ↔ m ∈ s₂.msgs := by
  intro m
  rw [outcome_determined sp hce hk hd hwf s₁ h₁ hc₁, outcome_determined sp hce hk hd hwf s₂ h₂ hc₂]
  have : expectedMsgs sp s₁.facts = expectedMsgs sp s₂.facts := by
    unfold expectedMsgs
    congr 1
    apply filterMap_congr_aux
    intro c hc
    rw [hchain c (List.mem_filter.mp hc).1]
  rw [this]

/-! ## `CoopClean` in `resolved_last_partial` is necessary -/

/-- an (ill-formed) scenario: cooperative close that nevertheless lists a commit-sweep contract. -/
def specCoopDirty : Spec :=
  { close := .coop, closeHeight := 100, delta := 5,
    contracts := [ { key := 1000, kind := .cs, twoStage := false, idx := 0, expiry := 0 } ],
    dustFails := [], danglingFails := [], breachFails := [], finalFails := [] }

def coopRun : Sys := run specCoopDirty init [.main, .fact .close, .main, .main, .main, .main, .main]

/-- without `CoopClean` the conclusion of `resolved_last_partial` fails, on a run without any stop:
    the cooperative path goes straight to StateFullyResolved and never looks at contracts.  So the
    hypothesis is a well-formedness condition on the scenario (a cooperative close pays everything
    out directly; `CoopClean` holds for every scenario the harness builds), not a restriction of the
    schedule, and it cannot be dropped. -/
theorem resolved_last_needs_coopClean :
    coopRun.chan.fullyClosed = true ∧ coopRun.crashes = 0 ∧ coopRun.resolvedKeys = [] ∧
      (specCoopDirty.contracts.any fun c => c.kind.persisted) = true := by
  decide

example : Reach specCoopDirty noStopInClosed coopRun :=
  Reach.mono noStopInWindows_closed (run_reach_of _ _ _ stopOkB_sound _ _ .init (by decide))

/-! ## non-vacuity of the round-5 hypotheses -/

example : ListsWF specFar := ⟨fun h => absurd h (by decide), fun _ => rfl⟩

/-- complete chain facts for `specFar`. -/
def factsFar : List Fact :=
  [.height 141, .close, .breachDone, .spend1 1000 .ours, .spend1 10 .ours, .spend2 10, .spend2 1000]

/-- a state of the fragment with two stops in it, then the chain completes. -/
def midFar : Sys :=
  run specFar init (toClosedFar ++
    [.main, .main, .fact (.spend1 1000 .ours), .res 1000, .res 1000, .crash, .main,
     .fact (.height 141), .res 10, .crash] ++ factsFar.map .fact)

def okB (sp : Spec) (s : Sys) : Action → Bool
  | .crash => s.log.state != .contractClosed &&
      !(s.log.state == .default && s.log.hasCS && !s.chan.pendingClose) &&
      s.log.contracts.all (fun p => !p.2.resolved)
  | .res k =>
    match s.active.find? (·.key == k) with
    | some r => resRes sp s.facts r != .die
    | none => true
  | _ => true

theorem okB_sound (sp : Spec) (s : Sys) (a : Action) (h : okB sp s a = true) : outsideWindows sp s a := by
  cases a with
  | crash =>
    simp only [okB, Bool.and_eq_true, bne_iff_ne, ne_eq, Bool.not_eq_true', List.all_eq_true] at h
    refine ⟨⟨h.1.1, ?_⟩, fun p hp => by simpa using h.2 p hp⟩
    intro hh
    have := h.1.2
    simp [hh.1, hh.2.1, hh.2.2] at this
  | res k =>
    intro r hf
    simp only [okB, hf, bne_iff_ne, ne_eq] at h
    exact h
  | _ => trivial

example : Reach specFar (outsideWindows specFar) midFar :=
  run_reach_of _ _ _ (okB_sound specFar) _ _ .init (by decide)

example : Complete specFar midFar.facts := by
  refine ⟨by decide, by decide, ?_⟩
  intro c hc
  simp only [specFar, specNear, List.mem_cons, List.not_mem_nil, or_false] at hc
  rcases hc with rfl | rfl <;> decide

example : midFar.chan.fullyClosed = false ∧ midFar.crashes = 2 ∧ midFar.pc = .adv := by decide

/-- … and the continuation promised by `fair_run_terminates` for that state, spelled out. -/
example :
    let t := run specFar midFar [.main, .res 10, .res 10, .res 10, .main, .main, .main, .main]
    t.chan.fullyClosed = true ∧ t.log.contracts = [] ∧ t.resolvedKeys = [10, 1000] ∧
      t.msgs = [(20, false), (10, false)] ∧ mu specFar midFar ≤ 45 := by
  decide

end LndModel.C13.Props
