/-
C13 (round 7) — the utxo nursery part of the model (`nurseryStep`, `Sys.nursery`):
crib → kindergarten without the late-registration rule, and progress of the nursery itself.
-/
import LndModel.C13.Progress2

namespace LndModel.C13

/-! ### remaining work of the nursery store -/

def NStage.weight : NStage → Nat
  | .preschool => 3
  | .crib => 3
  | .kinder _ => 2
  | .graduated => 1

/-- remaining work of the nursery store: crib / preschool → kindergarten → graduated → removed. -/
def nwork (n : List (Nat × NStage)) : Nat := (n.map (fun p => p.2.weight)).sum

theorem weight_pos (st : NStage) : 0 < st.weight := by cases st <;> simp [NStage.weight]

theorem nwork_filter_add {n : List (Nat × NStage)} (P : Nat × NStage → Bool) {p : Nat × NStage}
    (hp : p ∈ n) (hP : P p = false) : nwork (n.filter P) + p.2.weight ≤ nwork n := by
  induction n with
  | nil => simp at hp
  | cons x xs ih =>
    simp only [List.mem_cons] at hp
    have hle : nwork (xs.filter P) ≤ nwork xs := by
      clear ih hp
      induction xs with
      | nil => exact Nat.le_refl _
      | cons z zs ihz =>
        simp only [List.filter_cons, nwork] at ihz ⊢
        split <;> simp only [List.map_cons, List.sum_cons] <;> omega
    rcases hp with rfl | hp
    · simp only [List.filter_cons, hP, Bool.false_eq_true, if_false]
      simp only [nwork, List.map_cons, List.sum_cons] at hle ⊢
      omega
    · have := ih hp
      simp only [List.filter_cons]
      split
      · simp only [nwork, List.map_cons, List.sum_cons] at this ⊢; omega
      · simp only [nwork, List.map_cons, List.sum_cons] at this hle ⊢; omega

theorem nwork_append (a b : List (Nat × NStage)) : nwork (a ++ b) = nwork a + nwork b := by
  simp [nwork]

/-- moving an output to kindergarten (all its non-graduated entries are replaced by one
    kindergarten entry) reduces the work when a crib / preschool entry was among them. -/
theorem nwork_toKinder {n : List (Nat × NStage)} {k c : Nat} {p : Nat × NStage} (hp : p ∈ n)
    (hk : p.1 = k) (hst : p.2 = .preschool ∨ p.2 = .crib) :
    nwork (n.filter (fun p => !(p.1 == k && p.2 != .graduated)) ++ [(k, .kinder c)]) < nwork n := by
  have hP : (fun p : Nat × NStage => !(p.1 == k && p.2 != .graduated)) p = false := by
    rcases hst with h | h <;> simp [hk, h]
  have h1 := nwork_filter_add (fun p : Nat × NStage => !(p.1 == k && p.2 != .graduated)) hp hP
  have hw : p.2.weight = 3 := by rcases hst with h | h <;> simp [h, NStage.weight]
  rw [nwork_append]
  have h2 : nwork [(k, NStage.kinder c)] = 2 := rfl
  rw [h2]; omega

theorem nwork_graduate {n : List (Nat × NStage)} {k cls : Nat} (hp : (k, NStage.kinder cls) ∈ n) :
    nwork (n.map fun p => if p.1 == k && p.2 == .kinder cls then (k, .graduated) else p) < nwork n := by
  simp only [nwork, List.map_map]
  refine sum_map_lt _ _ ?_ ⟨_, hp, ?_⟩
  · intro x _
    simp only [Function.comp]
    split
    · rename_i h
      simp only [Bool.and_eq_true, beq_iff_eq] at h
      simp [h.2, NStage.weight]
    · exact Nat.le_refl _
  · simp [Function.comp, NStage.weight]

/-- NURSERY MEASURE: every step of the utxo nursery (any output, any state, any chain facts)
    strictly reduces the remaining work of the nursery store; so between two `IncubateOutputs` the
    nursery can take only finitely many steps. -/
theorem nursery_step_decreases (sp : Spec) (s s' : Sys) (k : Nat) (h : nurseryStep sp s k = some s') :
    nwork s'.nursery < nwork s.nursery := by
  unfold nurseryStep at h
  split at h
  · rename_i hps
    split at h
    · cases h
      obtain ⟨p, hp, hpp⟩ := List.any_eq_true.mp hps
      simp only [Bool.and_eq_true, beq_iff_eq] at hpp
      exact nwork_toKinder hp hpp.1 (Or.inl hpp.2)
    · cases h
  · split at h
    · rename_i hcr
      split at h
      · cases h
        obtain ⟨p, hp, hpp⟩ := List.any_eq_true.mp hcr
        simp only [Bool.and_eq_true, beq_iff_eq] at hpp
        exact nwork_toKinder hp hpp.1 (Or.inr hpp.2)
      · cases h
    · split at h
      · rename_i k' cls hf
        split at h
        · cases h
          have hm := List.mem_of_find?_eq_some hf
          have hq := List.find?_some hf
          simp only [Bool.and_eq_true, beq_iff_eq] at hq
          rw [hq.1] at hm
          exact nwork_graduate hm
        · cases h
      · split at h
        · rename_i hall
          cases h
          simp only [Bool.and_eq_true, Bool.not_eq_true', List.isEmpty_eq_false_iff] at hall
          obtain ⟨x, hx⟩ := List.exists_mem_of_ne_nil _ hall.1
          have h0 : nwork ([] : List (Nat × NStage)) = 0 := rfl
          have := nwork_filter_add (fun _ => false) hx rfl
          have := weight_pos x.2
          rw [h0]; omega
        · cases h

/-! ### crib → kindergarten has no late-registration rule -/

/-- `CribToKinder`: the kindergarten class is exactly `conf + csv`, whatever the current height. -/
theorem crib_class_exact (sp : Spec) (s s' : Sys) (k hc : Nat)
    (hnp : s.nursery.any (fun p => p.1 == k && p.2 == .preschool) = false)
    (hcr : s.nursery.any (fun p => p.1 == k && p.2 == .crib) = true)
    (hconf : s.facts.confOf k = some hc) (h : nurseryStep sp s k = some s') :
    (k, NStage.kinder (hc + sp.csv)) ∈ s'.nursery ∧ ¬ (k, NStage.crib) ∈ s'.nursery := by
  unfold nurseryStep at h
  simp only [hnp, Bool.false_eq_true, if_false, hcr, if_true, hconf] at h
  cases h
  constructor
  · simp
  · simp

/-- ... hence it lies in the PAST when the timeout tx confirmed at least `csv` blocks ago (the
    node was down, or slow): contrast with `nursery_class_in_future` for preschool outputs.  The
    nursery graduates a class only at start-up (heights collected before) and when the block with
    exactly that height arrives, so such an output is not swept by the running incarnation
    (finding F5, replay `localO-c24d2`). -/
theorem crib_class_may_be_past (sp : Spec) (s s' : Sys) (k hc : Nat)
    (hnp : s.nursery.any (fun p => p.1 == k && p.2 == .preschool) = false)
    (hcr : s.nursery.any (fun p => p.1 == k && p.2 == .crib) = true)
    (hconf : s.facts.confOf k = some hc) (hlate : hc + sp.csv ≤ s.facts.height)
    (h : nurseryStep sp s k = some s') :
    ∃ cls, (k, NStage.kinder cls) ∈ s'.nursery ∧ cls ≤ s.facts.height :=
  ⟨_, (crib_class_exact sp s s' k hc hnp hcr hconf h).1, hlate⟩

/-! ### the nursery drains once the chain has delivered its facts -/

/-- the chain has confirmed the transaction that creates each pending output and the sweep of
    each pending output. -/
def NurseryFed (s : Sys) : Prop :=
  ∀ p ∈ s.nursery, p.2 ≠ .graduated →
    (s.facts.confOf p.1).isSome = true ∧ s.facts.spent2.contains p.1 = true

def Action.isNurseryOrBlock : Action → Bool
  | .nursery _ => true
  | .fact (.height _) => true
  | _ => false

theorem nurseryFed_of_sub {s s' : Sys} (hf : s'.facts = s.facts) (h : NurseryFed s)
    (hsub : ∀ p ∈ s'.nursery, p.2 ≠ .graduated → ∃ q ∈ s.nursery, q.1 = p.1 ∧ q.2 ≠ .graduated) :
    NurseryFed s' := by
  intro p hp hg
  obtain ⟨q, hq, hk, hqg⟩ := hsub p hp hg
  rw [hf, ← hk]
  exact h q hq hqg

/-- NURSERY PROGRESS: from every state in which the chain facts the pending outputs wait for are
    there (creating transaction confirmed, sweep confirmed), at most `2 * nwork` nursery steps and
    new blocks empty the nursery store (all outputs graduated, channel removed). New blocks are
    needed because a late preschool registration is filed under `tip + 1`. -/
theorem nursery_drains (sp : Spec) : ∀ (n : Nat) (s : Sys), nwork s.nursery ≤ n → NurseryFed s →
    ∃ acts : List Action, acts.length ≤ 2 * n ∧ (∀ a ∈ acts, a.isNurseryOrBlock = true) ∧
      (run sp s acts).nursery = [] := by
  intro n
  induction n with
  | zero =>
    intro s hw _
    refine ⟨[], by simp, by simp, ?_⟩
    cases hn : s.nursery with
    | nil => simp [run, hn]
    | cons x xs =>
      have := weight_pos x.2
      simp [hn, nwork] at hw
      omega
  | succ n ih =>
    intro s hw hfed
    by_cases hemp : s.nursery = []
    · exact ⟨[], by simp, by simp, by simpa [run] using hemp⟩
    -- one nursery step (possibly after a block), then the induction hypothesis
    have key : ∃ pre : List Action, pre.length ≤ 2 ∧ (∀ a ∈ pre, a.isNurseryOrBlock = true) ∧
        nwork (run sp s pre).nursery < nwork s.nursery ∧ NurseryFed (run sp s pre) := by
      by_cases hA : ∃ p ∈ s.nursery, p.2 = .preschool ∨ p.2 = .crib
      · -- a preschool / crib output: its creating transaction is confirmed
        obtain ⟨p, hp, hst⟩ := hA
        have hpg : p.2 ≠ .graduated := by rcases hst with h | h <;> simp [h]
        obtain ⟨hconf, hsp⟩ := hfed p hp hpg
        obtain ⟨hc, hhc⟩ := Option.isSome_iff_exists.mp hconf
        have hstep : ∃ s', nurseryStep sp s p.1 = some s' ∧ s'.facts = s.facts ∧
            ∃ c, s'.nursery = s.nursery.filter (fun q => !(q.1 == p.1 && q.2 != .graduated)) ++ [(p.1, .kinder c)] := by
          unfold nurseryStep
          by_cases hps : s.nursery.any (fun q => q.1 == p.1 && q.2 == .preschool) = true
          · simp only [hps, if_true, hhc]; exact ⟨_, rfl, rfl, _, rfl⟩
          · have hcr : s.nursery.any (fun q => q.1 == p.1 && q.2 == .crib) = true := by
              rcases hst with h | h
              · exact absurd (List.any_eq_true.mpr ⟨p, hp, by simp [h]⟩) hps
              · exact List.any_eq_true.mpr ⟨p, hp, by simp [h]⟩
            simp only [hps, Bool.false_eq_true, if_false, hcr, if_true, hhc]
            exact ⟨_, rfl, rfl, _, rfl⟩
        obtain ⟨s', hs', hf', c, hn'⟩ := hstep
        refine ⟨[.nursery p.1], by simp, by simp [Action.isNurseryOrBlock], ?_, ?_⟩
        · simp only [run, step, hs', Option.getD_some]
          exact nursery_step_decreases sp s s' p.1 hs'
        · simp only [run, step, hs', Option.getD_some]
          refine nurseryFed_of_sub hf' hfed ?_
          intro q hq hqg
          rw [hn'] at hq
          simp only [List.mem_append, List.mem_filter, List.mem_singleton] at hq
          rcases hq with ⟨hq, _⟩ | rfl
          · exact ⟨q, hq, rfl, hqg⟩
          · exact ⟨p, hp, rfl, hpg⟩
      · -- no crib / preschool entry at all
        have hnone : ∀ (k : Nat) (st : NStage), st = .preschool ∨ st = .crib →
            s.nursery.any (fun q => q.1 == k && q.2 == st) = false := by
          intro k st hst
          apply Bool.eq_false_iff.mpr
          intro hany
          obtain ⟨q, hq, hqq⟩ := List.any_eq_true.mp hany
          simp only [Bool.and_eq_true, beq_iff_eq] at hqq
          exact hA ⟨q, hq, by rcases hst with h | h <;> simp [hqq.2, h]⟩
        by_cases hB : ∃ p ∈ s.nursery, p.2 ≠ .graduated
        · obtain ⟨p, hp, hpg⟩ := hB
          -- the first pending entry of that output is a kindergarten entry
          cases hq : s.nursery.find? (fun q => q.1 == p.1 && q.2 != .graduated) with
          | none =>
            have := List.find?_eq_none.mp hq p hp
            simp [hpg] at this
          | some q =>
            have hqm := List.mem_of_find?_eq_some hq
            have hqq := List.find?_some hq
            simp only [Bool.and_eq_true, beq_iff_eq, bne_iff_ne, ne_eq] at hqq
            obtain ⟨qk, qst⟩ := q
            simp only at hqq
            obtain ⟨_, hsp⟩ := hfed _ hqm hqq.2
            simp only [hqq.1] at hsp
            cases qst with
            | preschool => exact absurd ⟨_, hqm, Or.inl rfl⟩ hA
            | crib => exact absurd ⟨_, hqm, Or.inr rfl⟩ hA
            | graduated => exact absurd rfl hqq.2
            | kinder cls =>
              -- deliver block `cls` first (a no-op when the height is already there)
              let s1 : Sys := { s with facts := s.facts.add (.height cls) }
              have hs1n : s1.nursery = s.nursery := rfl
              have hs1h : cls ≤ s1.facts.height := by
                simp only [s1, Facts.add]; omega
              have hs1sp : s1.facts.spent2 = s.facts.spent2 := rfl
              have hs1cf : ∀ k, s1.facts.confOf k = s.facts.confOf k := fun _ => rfl
              have hstep : nurseryStep sp s1 p.1 = some { s1 with nursery := s1.nursery.map fun q =>
                    if q.1 == p.1 && q.2 == (NStage.kinder cls) then (p.1, NStage.graduated) else q } := by
                unfold nurseryStep
                simp only [hs1n, hnone p.1 .preschool (Or.inl rfl), hnone p.1 .crib (Or.inr rfl),
                  Bool.false_eq_true, if_false, hq, hs1sp, hsp, Bool.and_true, decide_eq_true_eq, hs1h,
                  if_true]
              refine ⟨[.fact (.height cls), .nursery p.1], by simp, ?_, ?_, ?_⟩
              · intro a ha
                simp only [List.mem_cons, List.not_mem_nil, or_false] at ha
                rcases ha with rfl | rfl <;> rfl
              · have : run sp s [.fact (.height cls), .nursery p.1] =
                    { s1 with nursery := s1.nursery.map fun q =>
                      if q.1 == p.1 && q.2 == (NStage.kinder cls) then (p.1, NStage.graduated) else q } := by
                  simp only [run, step, Option.getD_some]
                  show ((nurseryStep sp s1 p.1).getD s1) = _
                  rw [hstep]; rfl
                rw [this]
                have := nursery_step_decreases sp s1 _ p.1 hstep
                simpa [hs1n] using this
              · have hrun : run sp s [.fact (.height cls), .nursery p.1] =
                    { s1 with nursery := s1.nursery.map fun q =>
                      if q.1 == p.1 && q.2 == (NStage.kinder cls) then (p.1, NStage.graduated) else q } := by
                  simp only [run, step, Option.getD_some]
                  show ((nurseryStep sp s1 p.1).getD s1) = _
                  rw [hstep]; rfl
                rw [hrun]
                intro x hx hxg
                simp only [hs1n, List.mem_map] at hx
                obtain ⟨y, hy, hyx⟩ := hx
                by_cases hcond : (y.1 == p.1 && y.2 == .kinder cls) = true
                · rw [if_pos hcond] at hyx; subst hyx; exact absurd rfl hxg
                · rw [if_neg hcond] at hyx; subst hyx
                  have := hfed y hy hxg
                  exact ⟨by rw [hs1cf]; exact this.1, by rw [hs1sp]; exact this.2⟩
        · -- everything graduated: the channel is removed from the nursery
          have hall : s.nursery.all (fun q => q.2 == .graduated) = true := by
            apply List.all_eq_true.mpr
            intro q hq
            by_cases hg : q.2 = .graduated
            · simp [hg]
            · exact absurd ⟨q, hq, hg⟩ hB
          have hfind : s.nursery.find? (fun q => q.1 == 0 && q.2 != .graduated) = none := by
            apply List.find?_eq_none.mpr
            intro q hq
            have := List.all_eq_true.mp hall q hq
            simp only [beq_iff_eq] at this
            simp [this]
          have hne : s.nursery.isEmpty = false := by simp [List.isEmpty_eq_false_iff, hemp]
          have hstep : nurseryStep sp s 0 = some { s with nursery := [] } := by
            unfold nurseryStep
            simp only [hnone 0 .preschool (Or.inl rfl), hnone 0 .crib (Or.inr rfl), Bool.false_eq_true,
              if_false, hfind, hne, Bool.not_false, hall, Bool.and_self, if_true]
          refine ⟨[.nursery 0], by simp, by simp [Action.isNurseryOrBlock], ?_, ?_⟩
          · simp only [run, step, hstep, Option.getD_some]
            exact nursery_step_decreases sp s _ 0 hstep
          · simp only [run, step, hstep, Option.getD_some]
            intro x hx; simp at hx
    obtain ⟨pre, hlen, hall, hlt, hfed'⟩ := key
    obtain ⟨acts, hl2, hall2, hfin⟩ := ih (run sp s pre) (by omega) hfed'
    refine ⟨pre ++ acts, by simp; omega, ?_, ?_⟩
    · intro a ha
      rcases List.mem_append.mp ha with h | h
      · exact hall a h
      · exact hall2 a h
    · rw [run_append]; exact hfin

/-! ### non-vacuity: the legacy outgoing scenario of the harness (`localO`) -/

/-- pre-anchor channel force closed on our commitment with one outgoing htlc (key 10, expiry 140)
    that goes contest → timeout resolver → crib. -/
def specLegacyOut : Spec :=
  { close := .localForce, closeHeight := 100, delta := 5,
    contracts := [{ key := 10, kind := .oc, twoStage := true, idx := 10, expiry := 140, legacy := true }],
    dustFails := [], danglingFails := [], breachFails := [], finalFails := [] }

/-- force close, close confirmed, resolvers inserted, height 139: swap to the timeout resolver,
    hand-over to the crib; STOP; while the node is down the timeout tx confirms at 140 and the
    chain reaches 145; restart; the nursery moves the crib entry to kindergarten. -/
def lateCribSchedule : List Action :=
  [.main, .forceClose, .main, .main, .main, .fact .close, .main, .main, .main, .main, .main, .main,
   .fact (.height 139), .res 10, .res 10, .crash, .fact (.conf 10 140), .fact (.spend1 10 .ours),
   .fact (.height 145), .main, .nursery 10]

def sLateCrib : Sys := run specLegacyOut init lateCribSchedule

/-- the witness behind finding F5 at model level: after one stop the crib entry is filed under
    class 144 although the chain is at 145. -/
theorem crib_late_witness :
    sLateCrib.nursery = [(10, .kinder 144)] ∧ sLateCrib.facts.height = 145 ∧ sLateCrib.crashes = 1 ∧
      sLateCrib.log.contracts = [(10, { kind := .to, incub := false, resolved := false })] := by
  decide

example : NurseryFed { sLateCrib with facts := sLateCrib.facts.add (.spend2 10) } := by
  intro p hp hg
  have : p = (10, .kinder 144) := by
    have h : ({ sLateCrib with facts := sLateCrib.facts.add (.spend2 10) } : Sys).nursery = [(10, .kinder 144)] :=
      crib_late_witness.1
    rw [h] at hp; simpa using hp
  subst this
  decide

end LndModel.C13
