/-
C13 — progress (liveness on the fragment outside the recorded defect windows).

`outsideWindows sp` is the schedule predicate of this file: every interleaving, every fact order,
stops at every instant and any number of them EXCEPT
  * while the durable state is StateContractClosed                         (findings F3 / F3c),
  * in StateDefault with the commit set logged, channel not marked closed  (finding F2 via stop),
  * while the log holds a record with `resolved = true`                    (finding F3b),
and the contest resolver never runs `claimCleanUp` on our OWN timeout spend (environment order:
our timeout transaction is only published by the timeout resolver, i.e. after the swap).

Invariants `InvL` (log records: functional in the key, persisted kinds, keys of the spec) and `InvP`
(active ↔ stored correspondence, program-counter facts), the measure `mu`, and the step lemma
`progress_step`: from every reachable state that is not finished, under complete chain facts, some
non-stop action is enabled, allowed, and strictly decreases `mu`.
-/
import LndModel.C13.Upstream

namespace LndModel.C13

/-! ### list facts -/

theorem putRec_key_eq {cs : List (Nat × Rec)} {k : Nat} {r : Rec} {p : Nat × Rec}
    (h : p ∈ putRec cs k r) (hk : p.1 = k) : p = (k, r) := by
  unfold putRec at h
  split at h
  · simp only [List.mem_map] at h
    obtain ⟨q, _, rfl⟩ := h
    split
    · rfl
    · rename_i hne
      split at hk
      · contradiction
      · exact absurd (by simpa using hk) hne
  · rename_i hany
    simp only [List.mem_append, List.mem_singleton] at h
    rcases h with h | h
    · exfalso; apply hany
      simp only [List.any_eq_true]
      exact ⟨p, h, by simpa using hk⟩
    · exact h

theorem putRec_key_ne {cs : List (Nat × Rec)} {k : Nat} {r : Rec} {p : Nat × Rec}
    (h : p ∈ putRec cs k r) (hk : p.1 ≠ k) : p ∈ cs := by
  rcases putRec_mem h with h | h
  · exact h
  · rw [h] at hk; exact absurd rfl hk

theorem putRec_length (cs : List (Nat × Rec)) (k : Nat) (r : Rec) :
    (putRec cs k r).length ≤ cs.length + 1 := by
  unfold putRec; split <;> simp

theorem putAll_length (new : List (Nat × Rec)) : ∀ cs : List (Nat × Rec),
    (putAll cs new).length ≤ cs.length + new.length := by
  induction new with
  | nil => intro cs; simp [putAll]
  | cons p rest ih =>
    intro cs
    obtain ⟨k, r⟩ := p
    simp only [putAll, List.length_cons]
    have := ih (putRec cs k r)
    have := putRec_length cs k r
    omega

theorem freshRecs_length (sp : Spec) (t : Trigger) : (freshRecs sp t).length ≤ sp.contracts.length := by
  simp only [freshRecs, List.length_map]
  refine Nat.le_trans (List.length_filter_le _ _) ?_
  unfold freshContracts
  split
  · exact Nat.le_refl _
  · exact List.length_filter_le _ _

theorem find?_setActive_ne {as : List RunRes} {k k' : Nat} {r' : RunRes} (hr : r'.key = k)
    (hne : k' ≠ k) : (setActive as k r').find? (·.key == k') = as.find? (·.key == k') := by
  induction as with
  | nil => rfl
  | cons a rest ih =>
    simp only [setActive, List.map_cons] at ih ⊢
    by_cases ha : a.key = k
    · have hak : a.key ≠ k' := by rw [ha]; exact fun h => hne h.symm
      simp only [ha, beq_self_eq_true, if_true]
      rw [List.find?_cons_of_neg (by simpa [hr] using fun h : k = k' => hne h.symm),
        List.find?_cons_of_neg (by simpa using hak)]
      exact ih
    · have : (a.key == k) = false := by simpa using ha
      simp only [this, Bool.false_eq_true, if_false]
      by_cases hak : a.key = k'
      · rw [List.find?_cons_of_pos (by simpa using hak), List.find?_cons_of_pos (by simpa using hak)]
      · rw [List.find?_cons_of_neg (by simpa using hak), List.find?_cons_of_neg (by simpa using hak)]
        exact ih

theorem find?_setActive_eq {as : List RunRes} {k : Nat} {r r' : RunRes} (hr : r'.key = k)
    (hf : as.find? (·.key == k) = some r) : (setActive as k r').find? (·.key == k) = some r' := by
  induction as with
  | nil => simp at hf
  | cons a rest ih =>
    simp only [setActive, List.map_cons] at ih ⊢
    by_cases ha : a.key = k
    · simp only [ha, beq_self_eq_true, if_true]
      rw [List.find?_cons_of_pos (by simpa using hr)]
    · have hb : (a.key == k) = false := by simpa using ha
      simp only [hb, Bool.false_eq_true, if_false]
      rw [List.find?_cons_of_neg (by simpa using ha)] at hf ⊢
      exact ih hf

theorem find?_map_key {l : List Contract} (hn : (l.map (·.key)).Nodup) {c : Contract} (hc : c ∈ l)
    (f : Contract → RunRes) (hf : ∀ c, (f c).key = c.key) :
    (l.map f).find? (·.key == c.key) = some (f c) := by
  induction l with
  | nil => simp at hc
  | cons x rest ih =>
    simp only [List.map_cons, List.nodup_cons, List.mem_map, not_exists, not_and] at hn
    simp only [List.mem_cons] at hc
    simp only [List.map_cons]
    rcases hc with rfl | hc
    · rw [List.find?_cons_of_pos (by simp [hf])]
    · have hne : x.key ≠ c.key := fun h => hn.1 c hc h.symm
      rw [List.find?_cons_of_neg (by simpa [hf] using hne)]
      exact ih hn.2 hc

theorem find?_map_first {l : List (Nat × Rec)} {p : Nat × Rec} (hp : p ∈ l) (g : Nat × Rec → RunRes)
    (hg : ∀ q, (g q).key = q.1) (rest : List RunRes) :
    ∃ q ∈ l, q.1 = p.1 ∧ (l.map g ++ rest).find? (·.key == p.1) = some (g q) := by
  induction l with
  | nil => simp at hp
  | cons x xs ih =>
    simp only [List.map_cons, List.cons_append]
    by_cases hx : x.1 = p.1
    · exact ⟨x, by simp, hx, by rw [List.find?_cons_of_pos (by simpa [hg] using hx)]⟩
    · simp only [List.mem_cons] at hp
      rcases hp with rfl | hp
      · exact absurd rfl hx
      · obtain ⟨q, hq, hq1, hq2⟩ := ih hp
        refine ⟨q, by simp [hq], hq1, ?_⟩
        rw [List.find?_cons_of_neg (by simpa [hg] using hx)]
        exact hq2

/-! ### `InvL`: shape of the stored records (every schedule) -/

structure InvL (sp : Spec) (s : Sys) : Prop where
  fn : ∀ p ∈ s.log.contracts, ∀ q ∈ s.log.contracts, p.1 = q.1 → p.2 = q.2
  pers : ∀ p ∈ s.log.contracts, p.2.kind.persisted = true
  spec : ∀ p ∈ s.log.contracts, ∃ c, sp.find? p.1 = some c

theorem find?_some_of_mem {sp : Spec} {c : Contract} (hc : c ∈ sp.contracts) :
    ∃ c', sp.find? c.key = some c' := by
  cases hf : sp.find? c.key with
  | some c' => exact ⟨c', rfl⟩
  | none =>
    unfold Spec.find? at hf
    have := List.find?_eq_none.mp hf c hc
    simp at this

/-- the three record properties are kept by writing a record that has them. -/
theorem invL_putRec {sp : Spec} {cs : List (Nat × Rec)} {k : Nat} {r : Rec}
    (hfn : ∀ p ∈ cs, ∀ q ∈ cs, p.1 = q.1 → p.2 = q.2)
    (hpers : ∀ p ∈ cs, p.2.kind.persisted = true)
    (hspec : ∀ p ∈ cs, ∃ c, sp.find? p.1 = some c)
    (hr : r.kind.persisted = true) (hk : ∃ c, sp.find? k = some c) :
    (∀ p ∈ putRec cs k r, ∀ q ∈ putRec cs k r, p.1 = q.1 → p.2 = q.2) ∧
    (∀ p ∈ putRec cs k r, p.2.kind.persisted = true) ∧
    (∀ p ∈ putRec cs k r, ∃ c, sp.find? p.1 = some c) := by
  refine ⟨?_, ?_, ?_⟩
  · intro p hp q hq hpq
    by_cases hpk : p.1 = k
    · rw [putRec_key_eq hp hpk, putRec_key_eq hq (hpq ▸ hpk)]
    · exact hfn p (putRec_key_ne hp hpk) q (putRec_key_ne hq (hpq ▸ hpk)) hpq
  · intro p hp
    rcases putRec_mem hp with h | h
    · exact hpers p h
    · rw [h]; exact hr
  · intro p hp
    rcases putRec_mem hp with h | h
    · exact hspec p h
    · rw [h]; exact hk

theorem invL_putAll {sp : Spec} (new : List (Nat × Rec))
    (hnew : ∀ p ∈ new, p.2.kind.persisted = true ∧ ∃ c, sp.find? p.1 = some c) :
    ∀ cs : List (Nat × Rec),
    (∀ p ∈ cs, ∀ q ∈ cs, p.1 = q.1 → p.2 = q.2) →
    (∀ p ∈ cs, p.2.kind.persisted = true) →
    (∀ p ∈ cs, ∃ c, sp.find? p.1 = some c) →
    (∀ p ∈ putAll cs new, ∀ q ∈ putAll cs new, p.1 = q.1 → p.2 = q.2) ∧
    (∀ p ∈ putAll cs new, p.2.kind.persisted = true) ∧
    (∀ p ∈ putAll cs new, ∃ c, sp.find? p.1 = some c) := by
  induction new with
  | nil => intro cs h1 h2 h3; exact ⟨h1, h2, h3⟩
  | cons x rest ih =>
    intro cs h1 h2 h3
    obtain ⟨k, r⟩ := x
    simp only [putAll]
    have hx := hnew (k, r) (by simp)
    obtain ⟨a, b, c⟩ := invL_putRec h1 h2 h3 hx.1 hx.2
    exact ih (fun p hp => hnew p (by simp [hp])) _ a b c

theorem freshRecs_ok {sp : Spec} {t : Trigger} :
    ∀ p ∈ freshRecs sp t, p.2.kind.persisted = true ∧ ∃ c, sp.find? p.1 = some c := by
  intro p hp
  simp only [freshRecs, List.mem_map, List.mem_filter] at hp
  obtain ⟨c, ⟨hc, hper⟩, rfl⟩ := hp
  exact ⟨by simpa [Contract.fresh] using hper, find?_some_of_mem (freshContracts_sub hc)⟩

theorem invL_init (sp : Spec) : InvL sp init := by
  refine ⟨?_, ?_, ?_⟩ <;> simp [init]

theorem invL_of_log {sp : Spec} {s s' : Sys} (h : InvL sp s) (hl : s'.log.contracts = s.log.contracts) :
    InvL sp s' :=
  ⟨by rw [hl]; exact h.fn, by rw [hl]; exact h.pers, by rw [hl]; exact h.spec⟩

theorem mainStep_invL {sp : Spec} {s s' : Sys} (h : InvL sp s) (hs : mainStep sp s = some s') :
    InvL sp s' := by
  unfold mainStep at hs
  split at hs
  · split at hs
    · split at hs <;> (cases hs; exact invL_of_log h rfl)
    · split at hs
      · cases hs; exact invL_of_log h rfl
      · split at hs
        · cases hs; exact invL_of_log h rfl
        · cases hs
  · cases hs; exact invL_of_log h rfl
  · cases hs; exact invL_of_log h rfl
  · split at hs
    · split at hs <;> (cases hs; exact invL_of_log h rfl)
    · cases hs; exact invL_of_log h rfl
    · cases hs; exact invL_of_log h rfl
    · cases hs
      obtain ⟨a, b, c⟩ := invL_putAll (freshRecs sp s.trig) freshRecs_ok _ h.fn h.pers h.spec
      exact ⟨a, b, c⟩
    · cases hs; exact invL_of_log h rfl
  · cases hs; exact invL_of_log h rfl
  · cases hs; exact invL_of_log h rfl
  · cases hs; refine ⟨?_, ?_, ?_⟩ <;> simp
  · cases hs

theorem resRes_put_find {sp : Spec} {f : Facts} {r : RunRes} {ms : List (Nat × Bool)} {rec : Rec} {pc : RPc}
    (h : resRes sp f r = .put ms rec pc) : ∃ c, sp.find? r.key = some c := by
  unfold resRes at h
  split at h
  · cases h
  · cases h
  · split at h <;> cases h
  · split at h
    · cases h
    · rename_i c hc; exact ⟨c, hc⟩

theorem resAlt_put_find {sp : Spec} {f : Facts} {r : RunRes} {ms : List (Nat × Bool)} {rec : Rec} {pc : RPc}
    (h : resAlt sp f r = .put ms rec pc) : ∃ c, sp.find? r.key = some c := by
  unfold resAlt at h
  split at h
  · rename_i c _ _ hc; exact ⟨_, hc⟩
  · cases h

theorem resApply_invL {sp : Spec} {s s' : Sys} {k : Nat} {r : RunRes} {rr : ResRes} (h : InvL sp s)
    (hrr : ∀ ms rec pc, rr = .put ms rec pc → ∃ c, sp.find? k = some c)
    (hs : resApply s k r rr = some s') : InvL sp s' := by
  unfold resApply at hs
  split at hs
  · cases hs
  · cases hs; exact invL_of_log h rfl
  · cases hs; exact invL_of_log h rfl
  · rename_i ms rec pc
    by_cases hp : rec.kind.persisted = true
    · simp only [hp, if_true] at hs
      cases hs
      obtain ⟨a, b, c⟩ := invL_putRec h.fn h.pers h.spec hp (hrr ms rec pc rfl)
      exact ⟨a, b, c⟩
    · have hp' : rec.kind.persisted = false := by simpa using hp
      simp only [hp', Bool.false_eq_true, if_false] at hs
      cases hs; exact invL_of_log h rfl
  · cases hs
    refine ⟨?_, ?_, ?_⟩
    · intro p hp q hq; exact h.fn p (List.mem_filter.mp hp).1 q (List.mem_filter.mp hq).1
    · intro p hp; exact h.pers p (List.mem_filter.mp hp).1
    · intro p hp; exact h.spec p (List.mem_filter.mp hp).1
  · cases hs; exact invL_of_log h rfl

theorem step_invL {sp : Spec} {s s' : Sys} {a : Action} (h : InvL sp s) (hs : step sp s a = some s') :
    InvL sp s' := by
  cases a with
  | main => exact mainStep_invL h hs
  | res k =>
    simp only [step, resStep] at hs
    split at hs
    · cases hs
    · rename_i r hf
      have hk := (find?_key hf).2
      exact resApply_invL h (fun ms rec pc he => hk ▸ resRes_put_find he) hs
  | resAlt k =>
    simp only [step, resAltStep] at hs
    split at hs
    · cases hs
    · rename_i r hf
      have hk := (find?_key hf).2
      exact resApply_invL h (fun ms rec pc he => hk ▸ resAlt_put_find he) hs
  | crash => simp only [step] at hs; cases hs; exact invL_of_log h rfl
  | nursery k =>
    simp only [step] at hs
    obtain ⟨n, rfl⟩ := nurseryStep_only hs
    exact invL_of_log h rfl
  | fact f => simp only [step] at hs; cases hs; exact invL_of_log h rfl
  | forceClose =>
    simp only [step] at hs
    split at hs
    · cases hs; exact invL_of_log h rfl
    · cases hs

theorem reach_invL {sp : Spec} {H : Sys → Action → Prop} {s : Sys} (r : Reach sp H s) : InvL sp s := by
  induction r with
  | init => exact invL_init sp
  | step _ _ hs ih => exact step_invL ih hs


/-! ### the schedule fragment outside the recorded defect windows -/

/-- every interleaving and fact order; a stop at any instant, any number of times, EXCEPT in the
    windows of the recorded defects: durable state StateContractClosed (F3 / F3c), StateDefault with
    the commit set logged but the channel not marked closed (F2 via stop), a record with
    `resolved = true` still in the log (F3b); and the contest resolver never meets our own timeout
    spend (`claimCleanUp` on it ends the goroutine even in a run without any stop). -/
def outsideWindows (sp : Spec) : Sys → Action → Prop := fun s a =>
  match a with
  | .crash => (s.log.state ≠ .contractClosed ∧
      ¬(s.log.state = .default ∧ s.log.hasCS = true ∧ s.chan.pendingClose = false)) ∧
      (∀ p ∈ s.log.contracts, p.2.resolved = false)
  | .res k => ∀ r, s.active.find? (·.key == k) = some r → resRes sp s.facts r ≠ .die
  | _ => True

theorem outsideWindows_windows (sp : Spec) (s : Sys) (a : Action) (h : outsideWindows sp s a) :
    noStopInWindows s a := by
  cases a <;> simp_all [outsideWindows, noStopInWindows]

/-- active ↔ stored correspondence: every stored record is the record of the FIRST launched
    resolver with that key, which is running (record unresolved) or about to delete (resolved). -/
def Corr (s : Sys) : Prop :=
  ∀ p ∈ s.log.contracts, ∃ r, s.active.find? (·.key == p.1) = some r ∧ r.rc = p.2 ∧
    ((r.pc = .running ∧ p.2.resolved = false) ∨ (r.pc = .needDelete ∧ p.2.resolved = true))

structure InvP (s : Sys) : Prop where
  rl : s.relaunch = true → s.mem = .waitingFull ∧ (s.pc = .adv ∨ s.pc = .finished) ∧ s.active = [] ∧
         ∀ p ∈ s.log.contracts, p.2.resolved = false
  cc : s.log.state = .contractClosed → s.pc = .adv →
         s.log.contracts = [] ∧ s.active = [] ∧ s.log.hasRes = true
  corr : (s.pc = .ccCommit ∨ (s.mem = .waitingFull ∧ s.relaunch = false)) → Corr s
  ev : s.evSeen = true → s.chan.pendingClose = false → (s.pc = .evLogCS ∨ s.pc = .evMark)
  idle : s.pc = .idle → (s.mem.preClosed = true ∧ s.chan.pendingClose = false) ∨ s.mem = .waitingFull
  advT : (s.pc = .adv ∨ s.pc = .bcPublish) → s.mem.preClosed = true → s.trig.isClose = false →
           s.chan.pendingClose = false
  evpc : (s.pc = .evLogCS ∨ s.pc = .evMark ∨ s.pc = .bcPublish) → s.mem.preClosed = true

theorem invP_init : InvP init := by
  refine ⟨?_, ?_, ?_, ?_, ?_, ?_, ?_⟩ <;> simp [init, Corr, AState.preClosed]

/-! shapes of `advRes` -/

theorem advRes_stay_shape {sp : Spec} {s : Sys} (h : advRes sp s = .stay) :
    (s.mem = .default ∧ s.trig = .chain) ∨ (s.mem = .commitBroadcasted ∧ s.trig.isClose = false) ∨
    (s.mem = .contractClosed ∧ s.log.hasRes = false) ∨ s.mem = .waitingFull := by
  unfold advRes at h
  split at h
  · rename_i hm
    left; refine ⟨hm, ?_⟩
    unfold defaultRes at h
    split at h
    · split at h
      · rename_i hc; simp only [Bool.and_eq_true, beq_iff_eq] at hc; exact hc.1
      · exact absurd h leaveDefault_ne.2.2
    · split at h
      · rename_i hc; simp only [Bool.and_eq_true, beq_iff_eq] at hc; exact hc.1
      · exact absurd h leaveDefault_ne.2.2
  · cases ht : s.trig <;> simp [leaveOnClose, ht] at h
  · rename_i hm
    right; left; refine ⟨hm, ?_⟩
    cases ht : s.trig <;> simp [leaveOnClose, ht] at h <;> rfl
  · rename_i hm
    right; right; left; refine ⟨hm, ?_⟩
    unfold closedRes at h
    split at h
    · rename_i hc; simpa using hc
    · split at h
      · cases h
      · split at h <;> cases h
  · rename_i hm; right; right; right; exact hm
  · cases h

theorem leaveDefault_cc {hr : Bool} {t : Trigger} {d ms : List (Nat × Bool)}
    (h : leaveDefault hr t d = .commit ms .contractClosed) : t.isClose = true ∧ t ≠ .coopClose := by
  cases t <;> simp [leaveDefault, closeTarget] at h <;> simp [Trigger.isClose]

theorem leaveOnClose_cc {hr : Bool} {t : Trigger} {o : AdvRes} {ms : List (Nat × Bool)}
    (ho : ∀ ms n, o ≠ .commit ms n) (h : leaveOnClose hr t o = .commit ms .contractClosed) :
    t.isClose = true ∧ t ≠ .coopClose := by
  cases t <;> simp [leaveOnClose, closeTarget] at h
  · exact absurd h (ho _ _)
  · exact absurd h (ho _ _)
  all_goals simp [Trigger.isClose]

theorem advRes_commit_cc {sp : Spec} {s : Sys} {ms : List (Nat × Bool)}
    (hpre : s.mem.preClosed = true) (h : advRes sp s = .commit ms .contractClosed) :
    s.trig.isClose = true ∧ s.trig ≠ .coopClose := by
  unfold advRes at h
  split at h
  · unfold defaultRes at h
    split at h
    · split at h
      · cases h
      · exact leaveDefault_cc h
    · split at h
      · cases h
      · exact leaveDefault_cc h
  · exact leaveOnClose_cc (by intro _ _ hh; cases hh) h
  · exact leaveOnClose_cc (by intro _ _ hh; cases hh) h
  · rename_i hm; simp [hm, AState.preClosed] at hpre
  · rename_i hm; simp [hm, AState.preClosed] at hpre
  · cases h

theorem eventReady_facts {s : Sys} (h : eventReady s = true) :
    s.facts.closeSeen = true ∧ s.chan.pendingClose = false ∧ s.evSeen = false ∧ s.mem.preClosed = true := by
  simp only [eventReady, Bool.and_eq_true, Bool.not_eq_true', Bool.or_eq_true, beq_iff_eq] at h
  refine ⟨h.1.1.1, h.1.1.2, h.1.2, ?_⟩
  rcases h.2 with (h' | h') | h' <;> simp [h', AState.preClosed]

theorem not_relaunch_of_pc {s : Sys} (h : InvP s) (h1 : s.pc ≠ .adv) (h2 : s.pc ≠ .finished) :
    s.relaunch = false := by
  cases hr : s.relaunch with
  | false => rfl
  | true => rcases (h.rl hr).2.1 with h' | h' <;> contradiction

theorem mainStep_invP {sp : Spec} (hkn : sp.KeysNodup) {s s' : Sys} (hi : Inv s) (hk : InvK sp s)
    (hl : InvL sp s) (h : InvP s) (hs : mainStep sp s = some s') : InvP s' := by
  unfold mainStep at hs
  split at hs
  · -- idle
    rename_i hpc
    have hnr := not_relaunch_of_pc h (by simp [hpc]) (by simp [hpc])
    have hme := hi.memEq (by simp [hpc])
    have hev : s.evSeen = true → s.chan.pendingClose = true := by
      intro h1
      cases hp : s.chan.pendingClose with
      | true => rfl
      | false => rcases h.ev h1 hp with h' | h' <;> simp [hpc] at h'
    split at hs
    · rename_i her
      obtain ⟨_, hpd, hes, hpre⟩ := eventReady_facts her
      have hnw : s.mem ≠ .waitingFull := by intro hm; simp [hm, AState.preClosed] at hpre
      have hncc : s.log.state ≠ .contractClosed := by
        rw [← hme]; intro hm; simp [hm, AState.preClosed] at hpre
      split at hs
      · cases hs
        refine ⟨by simp [hnr], fun hc => absurd hc hncc, ?_, by simp, by simp, ?_, by simp⟩
        · intro hc; simp at hc; exact absurd hc.1 hnw
        · intro _ _ ht; simp [Trigger.isClose] at ht
      · cases hs
        refine ⟨by simp [hnr], by simp, ?_, by simp, by simp, by simp, fun _ => hpre⟩
        intro hc; simp at hc; exact absurd hc.1 hnw
    · split at hs
      · rename_i hc
        simp only [Bool.and_eq_true, beq_iff_eq] at hc
        cases hs
        refine ⟨by simp [hnr], ?_, ?_, ?_, by simp, ?_, by simp⟩
        · intro hcc; simp only at hcc; rw [← hme, hc.1] at hcc; cases hcc
        · intro _; exact h.corr (Or.inr ⟨hc.1, hnr⟩)
        · intro h1 h2; simp only at h1 h2; rw [hev h1] at h2; cases h2
        · intro _ hp; simp [hc.1, AState.preClosed] at hp
      · split at hs
        · rename_i hc
          simp only [Bool.and_eq_true, beq_iff_eq, Bool.not_eq_true'] at hc
          cases hs
          refine ⟨by simp [hnr], ?_, ?_, ?_, by simp, ?_, by simp⟩
          · intro hcc; simp only at hcc; rw [← hme, hc.1.1] at hcc; cases hcc
          · intro hcnd; simp [hc.1.1] at hcnd
          · intro h1 h2; simp only at h1 h2; rw [hev h1] at h2; cases h2
          · intro _ _ _; exact hc.1.2
        · cases hs
  · -- evLogCS
    rename_i hpc
    have hnr := not_relaunch_of_pc h (by simp [hpc]) (by simp [hpc])
    have hpre := h.evpc (Or.inl hpc)
    cases hs
    refine ⟨by simp [hnr], by simp, ?_, by simp, by simp, by simp, fun _ => hpre⟩
    intro hc; simp at hc; rw [hc.1] at hpre; simp [AState.preClosed] at hpre
  · -- evMark
    rename_i hpc
    have hnr := not_relaunch_of_pc h (by simp [hpc]) (by simp [hpc])
    have hme := hi.memEq (by simp [hpc])
    have hpre := h.evpc (Or.inr (Or.inl hpc))
    cases hs
    refine ⟨by simp [hnr], ?_, ?_, by simp, by simp, ?_, by simp⟩
    · intro hcc; simp only at hcc; rw [← hme] at hcc; rw [hcc] at hpre; simp [AState.preClosed] at hpre
    · intro hc; simp at hc; rw [hc.1] at hpre; simp [AState.preClosed] at hpre
    · intro _ _ ht; simp [trigger_isClose] at ht
  · -- adv
    rename_i hpc
    have hme := hi.memEq (by simp [hpc])
    have hev : s.evSeen = true → s.chan.pendingClose = true := by
      intro h1
      cases hp : s.chan.pendingClose with
      | true => rfl
      | false => rcases h.ev h1 hp with h' | h' <;> simp [hpc] at h'
    split at hs
    · -- stay
      rename_i hadv
      split at hs
      · rename_i hrl
        simp only [Bool.and_eq_true, beq_iff_eq] at hrl
        cases hs
        obtain ⟨_, _, _, hunres⟩ := h.rl hrl.1
        refine ⟨by simp, by simp, ?_, ?_, fun _ => Or.inr hrl.2, by simp, by simp⟩
        · intro _ p hp
          simp only at hp
          obtain ⟨q, hq, hq1, hq2⟩ := find?_map_first hp
            (fun p : Nat × Rec =>
              (⟨p.1, p.2, if p.2.resolved then RPc.finished else RPc.running, false⟩ : RunRes))
            (fun _ => rfl)
            ((sp.contracts.filter (fun c => c.kind == .an)).map
              (fun c => (⟨c.key, c.fresh, RPc.running, false⟩ : RunRes)))
          have h2 := hl.fn q hq p hp hq1
          refine ⟨_, hq2, h2, Or.inl ⟨?_, hunres p hp⟩⟩
          simp [hunres q hq]
        · intro h1 h2; simp only at h1 h2; rw [hev h1] at h2; cases h2
      · rename_i hrl
        cases hs
        refine ⟨by simp, by simp, ?_, ?_, ?_, by simp, by simp⟩
        · intro hc
          simp only [reduceCtorEq, false_or, and_true] at hc
          cases hr : s.relaunch with
          | false => exact h.corr (Or.inr ⟨hc, hr⟩)
          | true => exact absurd (by simp [hr, hc]) hrl
        · intro h1 h2; simp only at h1 h2; rw [hev h1] at h2; cases h2
        · intro _
          rcases advRes_stay_shape hadv with ⟨hm, ht⟩ | ⟨hm, ht⟩ | ⟨hm, hr⟩ | hm
          · left; exact ⟨by simp [hm, AState.preClosed],
              h.advT (Or.inl hpc) (by simp [hm, AState.preClosed]) (by simp [ht, Trigger.isClose])⟩
          · left; exact ⟨by simp [hm, AState.preClosed],
              h.advT (Or.inl hpc) (by simp [hm, AState.preClosed]) ht⟩
          · have := (h.cc (by rw [← hme]; exact hm) hpc).2.2
            rw [this] at hr; cases hr
          · right; exact hm
    · -- commit
      rename_i ms next hadv
      cases hs
      refine ⟨by simp, ?_, ?_, ?_, by simp [hpc], ?_, by simp [hpc]⟩
      · intro hcc _
        simp only at hcc
        subst hcc
        rcases advRes_commit_shape hadv with ⟨hpre, _⟩ | ⟨_, hn, _⟩
        · have hp := hi.pre (by rw [← hme]; exact hpre)
          obtain ⟨h1, h2⟩ := advRes_commit_cc hpre hadv
          exact ⟨hp.1, hp.2, hk.k5 (by simp [hpc]) h1 h2⟩
        · cases hn
      · intro hc
        simp only [hpc, reduceCtorEq, false_or, and_true] at hc
        subst hc
        rcases advRes_commit_shape hadv with ⟨_, hn⟩ | ⟨_, hn, _⟩
        · rcases hn with hn | hn | hn <;> cases hn
        · cases hn
      · intro h1 h2; simp only at h1 h2; rw [hev h1] at h2; cases h2
      · intro _ hpre' ht
        simp only at hpre' ht ⊢
        rcases advRes_commit_shape hadv with ⟨hpre, _⟩ | ⟨_, hn, _⟩
        · exact h.advT (Or.inl hpc) hpre ht
        · subst hn; simp [AState.preClosed] at hpre'
    · -- markBroadcast
      rename_i hadv
      have hm := advRes_markBroadcast_mem hadv
      have hnr : s.relaunch = false := by
        cases hr : s.relaunch with
        | false => rfl
        | true => have := (h.rl hr).1; rw [hm] at this; cases this
      cases hs
      refine ⟨by simp [hnr], by simp, ?_, ?_, by simp, ?_, fun _ => by simp [hm, AState.preClosed]⟩
      · intro hc; simp [hm] at hc
      · intro h1 h2; simp only at h1 h2; rw [hev h1] at h2; cases h2
      · intro _ hpre ht; exact h.advT (Or.inl hpc) hpre ht
    · -- insert
      rename_i ms fs hadv
      have hm := advRes_insert_mem hadv
      have hst : s.log.state = .contractClosed := by rw [← hme]; exact hm
      have hnr : s.relaunch = false := by
        cases hr : s.relaunch with
        | false => rfl
        | true => have := (h.rl hr).1; rw [hm] at this; cases this
      obtain ⟨hemp, _, _⟩ := h.cc hst hpc
      have hfull := hk.k2 hm hpc
      cases hs
      refine ⟨by simp [hnr], by simp, ?_, ?_, by simp, by simp, by simp⟩
      · intro _ p hp
        simp only [hemp] at hp
        rcases putAll_mem _ _ _ hp with hp | hp
        · simp at hp
        · simp only [freshRecs, freshContracts, hfull, if_true, List.mem_map, List.mem_filter] at hp
          obtain ⟨c, ⟨hc, _⟩, rfl⟩ := hp
          refine ⟨{ key := c.key, rc := c.fresh, pc := .running }, ?_, rfl, Or.inl ⟨rfl, rfl⟩⟩
          simp only [freshActive, freshContracts, hfull, if_true]
          exact find?_map_key hkn hc _ (fun _ => rfl)
      · intro h1 h2; simp only at h1 h2; rw [hev h1] at h2; cases h2
    · -- notify
      rename_i hadv
      have hm := advRes_notify_mem hadv
      have hnr : s.relaunch = false := by
        cases hr : s.relaunch with
        | false => rfl
        | true => have := (h.rl hr).1; rw [hm] at this; cases this
      cases hs
      refine ⟨by simp [hnr], by simp, ?_, ?_, by simp, by simp, by simp⟩
      · intro hc; simp [hm] at hc
      · intro h1 h2; simp only at h1 h2; rw [hev h1] at h2; cases h2
  · -- bcPublish
    rename_i hpc
    have hnr := not_relaunch_of_pc h (by simp [hpc]) (by simp [hpc])
    have hpre := h.evpc (Or.inr (Or.inr hpc))
    have hev : s.evSeen = true → s.chan.pendingClose = true := by
      intro h1
      cases hp : s.chan.pendingClose with
      | true => rfl
      | false => rcases h.ev h1 hp with h' | h' <;> simp [hpc] at h'
    cases hs
    refine ⟨by simp [hnr], by simp, by simp, ?_, by simp, ?_, by simp⟩
    · intro h1 h2; simp only at h1 h2; rw [hev h1] at h2; cases h2
    · intro _ _ ht; exact h.advT (Or.inr hpc) hpre ht
  · -- ccCommit
    rename_i hpc
    have hnr := not_relaunch_of_pc h (by simp [hpc]) (by simp [hpc])
    have hev : s.evSeen = true → s.chan.pendingClose = true := by
      intro h1
      cases hp : s.chan.pendingClose with
      | true => rfl
      | false => rcases h.ev h1 hp with h' | h' <;> simp [hpc] at h'
    cases hs
    refine ⟨by simp [hnr], by simp, fun _ => h.corr (Or.inl hpc), ?_, by simp,
      by simp [AState.preClosed], by simp⟩
    intro h1 h2; simp only at h1 h2; rw [hev h1] at h2; cases h2
  · -- wipe
    rename_i hpc
    have hnr := not_relaunch_of_pc h (by simp [hpc]) (by simp [hpc])
    have hev : s.evSeen = true → s.chan.pendingClose = true := by
      intro h1
      cases hp : s.chan.pendingClose with
      | true => rfl
      | false => rcases h.ev h1 hp with h' | h' <;> simp [hpc] at h'
    cases hs
    refine ⟨by simp [hnr], by simp, fun _ => by simp [Corr], ?_, by simp, by simp, by simp⟩
    intro h1 h2; simp only at h1 h2; rw [hev h1] at h2; cases h2
  · cases hs


/-! resolver results -/

theorem resRes_put_pc {sp : Spec} {f : Facts} {r : RunRes} {ms : List (Nat × Bool)} {rec : Rec} {pc : RPc}
    (h : resRes sp f r = .put ms rec pc) :
    (pc = .needDelete ∧ rec.resolved = true) ∨ (pc = .running ∧ rec.resolved = r.rc.resolved) := by
  obtain ⟨key, ⟨kind, incub, resolved⟩, rpc, handed⟩ := r
  unfold resRes at h
  simp only at h
  repeat' split at h
  all_goals first
    | (cases h; done)
    | (cases h; simp_all)

theorem resAlt_put_pc {sp : Spec} {f : Facts} {r : RunRes} {ms : List (Nat × Bool)} {rec : Rec} {pc : RPc}
    (h : resAlt sp f r = .put ms rec pc) : pc = .running ∧ rec.resolved = r.rc.resolved :=
  ⟨(resAlt_put_out h).2.1, (resAlt_put_out h).2.2.2⟩

theorem resRes_noop {sp : Spec} {f : Facts} {r : RunRes} (h : resRes sp f r = .noop) :
    r.rc.kind.persisted = false := by
  unfold resRes at h
  repeat' split at h
  all_goals first | (cases h; done) | (rename_i hp; simpa using hp)

theorem resRes_del {sp : Spec} {f : Facts} {r : RunRes} (h : resRes sp f r = .del) :
    r.rc.kind.persisted = true := by
  unfold resRes at h
  repeat' split at h
  all_goals first | (cases h; done) | assumption

/-- the fields of a `resApply` result that the pc-invariants talk about are unchanged. -/
theorem resApply_same {s s' : Sys} {k : Nat} {r : RunRes} {rr : ResRes} (hs : resApply s k r rr = some s') :
    s'.pc = s.pc ∧ s'.mem = s.mem ∧ s'.relaunch = s.relaunch ∧ s'.evSeen = s.evSeen ∧ s'.chan = s.chan ∧
    s'.trig = s.trig ∧ s'.log.state = s.log.state ∧ s'.log.hasRes = s.log.hasRes ∧ s'.facts = s.facts := by
  unfold resApply at hs
  split at hs
  · cases hs
  · cases hs; simp
  · cases hs; simp
  · cases hs; split <;> simp
  · cases hs; simp
  · cases hs; simp

theorem resApply_corr {sp : Spec} {s s' : Sys} {k : Nat} {r : RunRes} {rr : ResRes} (hi : Inv s)
    (hl : InvL sp s) (hc : Corr s) (hf : s.active.find? (·.key == k) = some r)
    (hnd : rr ≠ .die)
    (hput : ∀ ms rec pc, rr = .put ms rec pc →
      rec.kind.persisted = r.rc.kind.persisted ∧ r.pc = .running ∧
      ((pc = .needDelete ∧ rec.resolved = true) ∨ (pc = .running ∧ rec.resolved = r.rc.resolved)))
    (hnoop : rr = .noop → r.rc.kind.persisted = false)
    (hs : resApply s k r rr = some s') : Corr s' := by
  obtain ⟨hr, hk⟩ := find?_key hf
  -- the stored records with key `k` are the record of `r`
  have hrec : ∀ p ∈ s.log.contracts, p.1 = k → r.rc = p.2 ∧
      ((r.pc = .running ∧ p.2.resolved = false) ∨ (r.pc = .needDelete ∧ p.2.resolved = true)) := by
    intro p hp hpk
    obtain ⟨r0, h0, h1, h2⟩ := hc p hp
    rw [hpk, hf] at h0; cases h0
    exact ⟨h1, h2⟩
  unfold resApply at hs
  split at hs
  · cases hs
  · exact absurd rfl hnd
  · -- incubate
    cases hs
    intro p hp
    simp only at hp ⊢
    by_cases hpk : p.1 = k
    · obtain ⟨h1, h2⟩ := hrec p hp hpk
      refine ⟨{ r with handed := true }, ?_, h1, h2⟩
      rw [hpk]; exact find?_setActive_eq hk hf
    · obtain ⟨r0, h0, h1, h2⟩ := hc p hp
      exact ⟨r0, by rw [find?_setActive_ne (by exact hk) hpk]; exact h0, h1, h2⟩
  · -- put
    rename_i ms rec pc
    obtain ⟨hper, hrun, hpc⟩ := hput ms rec pc rfl
    by_cases hp : rec.kind.persisted = true
    · simp only [hp, if_true] at hs
      cases hs
      have hkin : r.key ∈ s.log.keys := hi.act r hr (hper ▸ hp) (Or.inl hrun)
      simp only [Log.keys, List.mem_map] at hkin
      obtain ⟨p0, hp0, hp0k⟩ := hkin
      obtain ⟨h01, h02⟩ := hrec p0 hp0 (by rw [hp0k, hk])
      have hunres : r.rc.resolved = false := by
        rcases h02 with ⟨_, h⟩ | ⟨h, _⟩
        · rw [h01]; exact h
        · rw [hrun] at h; cases h
      intro p hpm
      simp only at hpm ⊢
      by_cases hpk : p.1 = k
      · have := putRec_key_eq hpm hpk
        subst this
        refine ⟨{ r with rc := rec, pc := pc }, find?_setActive_eq (by exact hk) hf, rfl, ?_⟩
        rcases hpc with ⟨h1, h2⟩ | ⟨h1, h2⟩
        · right; exact ⟨h1, h2⟩
        · left; exact ⟨h1, by rw [h2]; exact hunres⟩
      · obtain ⟨r0, h0, h1, h2⟩ := hc p (putRec_key_ne hpm hpk)
        exact ⟨r0, by rw [find?_setActive_ne (by exact hk) hpk]; exact h0, h1, h2⟩
    · have hp' : rec.kind.persisted = false := by simpa using hp
      simp only [hp', Bool.false_eq_true, if_false] at hs
      cases hs
      intro p hpm
      simp only at hpm ⊢
      by_cases hpk : p.1 = k
      · obtain ⟨h1, _⟩ := hrec p hpm hpk
        have := hl.pers p hpm
        rw [← h1, ← hper, hp'] at this; cases this
      · obtain ⟨r0, h0, h1, h2⟩ := hc p hpm
        exact ⟨r0, by rw [find?_setActive_ne (by exact hk) hpk]; exact h0, h1, h2⟩
  · -- del
    cases hs
    intro p hpm
    simp only [delRec, List.mem_filter] at hpm ⊢
    have hpk : p.1 ≠ k := by simpa using hpm.2
    obtain ⟨r0, h0, h1, h2⟩ := hc p hpm.1
    exact ⟨r0, by rw [find?_setActive_ne (by exact hk) hpk]; exact h0, h1, h2⟩
  · -- noop
    cases hs
    intro p hpm
    simp only at hpm ⊢
    by_cases hpk : p.1 = k
    · obtain ⟨h1, _⟩ := hrec p hpm hpk
      have := hl.pers p hpm
      rw [← h1, hnoop rfl] at this; cases this
    · obtain ⟨r0, h0, h1, h2⟩ := hc p hpm
      exact ⟨r0, by rw [find?_setActive_ne (by exact hk) hpk]; exact h0, h1, h2⟩

theorem resApply_invP {sp : Spec} {s s' : Sys} {k : Nat} {r : RunRes} {rr : ResRes} (hi : Inv s)
    (hl : InvL sp s) (h : InvP s) (hf : s.active.find? (·.key == k) = some r)
    (hnd : rr ≠ .die)
    (hput : ∀ ms rec pc, rr = .put ms rec pc →
      rec.kind.persisted = r.rc.kind.persisted ∧ r.pc = .running ∧
      ((pc = .needDelete ∧ rec.resolved = true) ∨ (pc = .running ∧ rec.resolved = r.rc.resolved)))
    (hnoop : rr = .noop → r.rc.kind.persisted = false)
    (hs : resApply s k r rr = some s') : InvP s' := by
  obtain ⟨e1, e2, e3, e4, e5, e6, e7, e8, _⟩ := resApply_same hs
  have hne : s.active ≠ [] := by
    intro he; rw [he] at hf; simp at hf
  have hnr : s.relaunch = false := by
    cases hr : s.relaunch with
    | false => rfl
    | true => exact absurd (h.rl hr).2.2.1 hne
  refine ⟨?_, ?_, ?_, ?_, ?_, ?_, ?_⟩
  · intro hr; rw [e3, hnr] at hr; cases hr
  · intro hcc hpc; rw [e7] at hcc; rw [e1] at hpc; exact absurd (h.cc hcc hpc).2.1 hne
  · intro hc; rw [e1, e2, e3] at hc
    exact resApply_corr hi hl (h.corr hc) hf hnd hput hnoop hs
  · rw [e4, e5, e1]; exact h.ev
  · rw [e1, e2, e5]; exact h.idle
  · rw [e1, e2, e5, e6]; exact h.advT
  · rw [e1, e2]; exact h.evpc

theorem restart_invP {sp : Spec} {s : Sys} (hH : outsideWindows sp s .crash) :
    InvP (restart s) := by
  obtain ⟨⟨hncc, _⟩, hunres⟩ := hH
  refine ⟨?_, ?_, ?_, by simp [restart], ?_, ?_, ?_⟩
  · intro hr
    simp only [restart, beq_iff_eq] at hr ⊢
    refine ⟨hr, ?_, trivial, hunres⟩
    split <;> simp
  · intro hcc; simp only [restart] at hcc; exact absurd hcc hncc
  · intro hc
    simp only [restart] at hc
    rcases hc with hc | ⟨hc1, hc2⟩
    · split at hc <;> cases hc
    · simp [hc1] at hc2
  · intro hpc; simp only [restart] at hpc; split at hpc <;> cases hpc
  · intro _ hpre ht
    simp only [restart, restartTrigger] at hpre ht ⊢
    cases hp : s.chan.pendingClose with
    | false => rfl
    | true =>
      have hcond : (s.log.state == .default || s.log.state == .broadcastCommit ||
          s.log.state == .commitBroadcasted) = true := by
        cases hst : s.log.state <;> simp [hst, AState.preClosed] at hpre ⊢
      simp [hp, hcond, trigger_isClose] at ht
  · intro hpc; simp only [restart] at hpc
    rcases hpc with hpc | hpc | hpc <;> (split at hpc <;> cases hpc)

theorem step_invP {sp : Spec} (hkn : sp.KeysNodup) {s s' : Sys} {a : Action} (hi : Inv s)
    (hk : InvK sp s) (hl : InvL sp s) (h : InvP s) (hH : outsideWindows sp s a)
    (hs : step sp s a = some s') : InvP s' := by
  cases a with
  | main => exact mainStep_invP hkn hi hk hl h hs
  | res k =>
    simp only [step, resStep] at hs
    split at hs
    · cases hs
    · rename_i r hf
      refine resApply_invP hi hl h hf (hH r hf) ?_ (fun he => resRes_noop he) hs
      intro ms rec pc he
      exact ⟨(resRes_put_facts he).1, (resRes_put_facts he).2, resRes_put_pc he⟩
  | resAlt k =>
    simp only [step, resAltStep] at hs
    split at hs
    · cases hs
    · rename_i r hf
      refine resApply_invP hi hl h hf ?_ ?_ ?_ hs
      · intro he
        unfold resAlt at he
        split at he
        · split at he <;> cases he
        · cases he
      · intro ms rec pc he
        exact ⟨(resAlt_put_facts he).1, (resAlt_put_facts he).2, Or.inr (resAlt_put_pc he)⟩
      · intro he
        unfold resAlt at he
        split at he
        · split at he <;> cases he
        · cases he
  | crash => simp only [step] at hs; cases hs; exact restart_invP hH
  | nursery k =>
    simp only [step] at hs
    obtain ⟨n, rfl⟩ := nurseryStep_only hs
    exact ⟨h.rl, h.cc, h.corr, h.ev, h.idle, h.advT, h.evpc⟩
  | fact f =>
    simp only [step] at hs; cases hs
    exact ⟨h.rl, h.cc, h.corr, h.ev, h.idle, h.advT, h.evpc⟩
  | forceClose =>
    simp only [step] at hs
    split at hs
    · rename_i hc
      simp only [Bool.and_eq_true, beq_iff_eq, Bool.not_eq_true'] at hc
      obtain ⟨⟨hpc, hmd⟩, hpd⟩ := hc
      have hnr := not_relaunch_of_pc h (by simp [hpc]) (by simp [hpc])
      have hme := hi.memEq (by simp [hpc])
      cases hs
      refine ⟨by simp [hnr], ?_, ?_, ?_, by simp, fun _ _ _ => hpd, by simp⟩
      · intro hcc; simp only at hcc; rw [← hme, hmd] at hcc; cases hcc
      · intro hcnd; simp [hmd] at hcnd
      · intro h1 h2
        rcases h.ev h1 h2 with h' | h' <;> simp [hpc] at h'
    · cases hs

theorem reach_invP {sp : Spec} (hcoop : sp.CoopClean) (hkn : sp.KeysNodup) {s : Sys}
    (r : Reach sp (outsideWindows sp) s) : InvP s ∧ InvK sp s := by
  induction r with
  | init => exact ⟨invP_init, invK_init sp⟩
  | step hr hH hs ih =>
    have hi := reach_inv hr
    have hw := noStopInWindows_closed _ _ (outsideWindows_windows sp _ _ hH)
    exact ⟨step_invP hkn hi ih.2 (reach_invL hr) ih.1 hH hs, step_invK hcoop hi ih.2 hw hs⟩


/-! ### the measure -/

theorem progress_le4 (r : Rec) : r.progress ≤ 4 := by
  unfold Rec.progress
  split <;> split <;> split <;> omega

/-- 1 while the (first) launched resolver with key `k` has not handed its output to the nursery. -/
def handedBit (as : List RunRes) (k : Nat) : Nat :=
  match as.find? (·.key == k) with
  | some r => if r.handed then 0 else 1
  | none => 1

/-- remaining work of one stored record: two units per missing progress step, one for the nursery
    hand-over, one for the final delete. -/
def term (as : List RunRes) (p : Nat × Rec) : Nat := 2 * (4 - p.2.progress) + handedBit as p.1 + 1

def work (s : Sys) : Nat := (s.log.contracts.map (term s.active)).sum

theorem handedBit_le (as : List RunRes) (k : Nat) : handedBit as k ≤ 1 := by
  unfold handedBit; split
  · split <;> omega
  · omega

theorem term_le (as : List RunRes) (p : Nat × Rec) : term as p ≤ 10 := by
  have := handedBit_le as p.1
  unfold term; omega

theorem term_pos (as : List RunRes) (p : Nat × Rec) : 0 < term as p := by unfold term; omega

theorem term_le_nil (as : List RunRes) (p : Nat × Rec) : term as p ≤ term [] p := by
  have := handedBit_le as p.1
  have h0 : handedBit [] p.1 = 1 := rfl
  simp only [term, h0]; omega

theorem sum_map_le {α} {l : List α} (a b : α → Nat) (hle : ∀ x ∈ l, a x ≤ b x) :
    (l.map a).sum ≤ (l.map b).sum := by
  induction l with
  | nil => simp
  | cons x xs ih =>
    simp only [List.map_cons, List.sum_cons]
    have := hle x (by simp)
    have := ih (fun y hy => hle y (by simp [hy]))
    omega

theorem sum_map_lt {α} {l : List α} (a b : α → Nat) (hle : ∀ x ∈ l, a x ≤ b x)
    (hlt : ∃ x ∈ l, a x < b x) : (l.map a).sum < (l.map b).sum := by
  induction l with
  | nil => obtain ⟨x, hx, _⟩ := hlt; simp at hx
  | cons x xs ih =>
    simp only [List.map_cons, List.sum_cons]
    have h1 := hle x (by simp)
    have h2 := sum_map_le a b (fun y hy => hle y (List.mem_cons_of_mem x hy))
    obtain ⟨y, hy, hyl⟩ := hlt
    simp only [List.mem_cons] at hy
    rcases hy with rfl | hy
    · omega
    · have := ih (fun z hz => hle z (by simp [hz])) ⟨y, hy, hyl⟩
      omega

theorem sum_filter_lt {α} {l : List α} (P : α → Bool) (a b : α → Nat) (hle : ∀ x ∈ l, a x ≤ b x)
    (hex : ∃ x ∈ l, P x = false ∧ 0 < b x) : ((l.filter P).map a).sum < (l.map b).sum := by
  induction l with
  | nil => obtain ⟨x, hx, _⟩ := hex; simp at hx
  | cons x xs ih =>
    have h1 := hle x (by simp)
    have hle' : ∀ y ∈ xs, a y ≤ b y := fun y hy => hle y (List.mem_cons_of_mem x hy)
    have hweak : ((xs.filter P).map a).sum ≤ (xs.map b).sum := by
      refine Nat.le_trans ?_ (sum_map_le a b hle')
      clear ih hex hle hle' h1
      induction xs with
      | nil => exact Nat.le_refl _
      | cons z zs ihz =>
        simp only [List.filter_cons]
        split <;> simp only [List.map_cons, List.sum_cons] <;> omega
    obtain ⟨y, hy, hyP, hyb⟩ := hex
    simp only [List.mem_cons] at hy
    simp only [List.filter_cons, List.map_cons, List.sum_cons]
    rcases hy with rfl | hy
    · simp only [hyP, Bool.false_eq_true, if_false]; omega
    · have := ih hle' ⟨y, hy, hyP, hyb⟩
      split <;> (try simp only [List.map_cons, List.sum_cons]) <;> omega

theorem work_le (s : Sys) : work s ≤ 10 * s.log.contracts.length := by
  unfold work
  generalize s.log.contracts = l
  induction l with
  | nil => simp
  | cons x xs ih =>
    simp only [List.map_cons, List.sum_cons, List.length_cons]
    have := term_le s.active x
    omega

theorem handedBit_setActive {as : List RunRes} {k : Nat} {r r' : RunRes} (hr : r'.key = k)
    (hf : as.find? (·.key == k) = some r) (k' : Nat) :
    handedBit (setActive as k r') k' =
      if k' = k then (if r'.handed then 0 else 1) else handedBit as k' := by
  unfold handedBit
  by_cases hk : k' = k
  · subst hk
    rw [find?_setActive_eq hr hf, if_pos rfl]
  · rw [find?_setActive_ne hr hk, if_neg hk]

/-- the chain has delivered everything the contracts of the scenario wait for. -/
def Complete (sp : Spec) (f : Facts) : Prop :=
  f.closeSeen = true ∧ f.breachDone = true ∧
  ∀ c ∈ sp.contracts, c.expiry ≤ f.height ∧ (f.spendOf c.key).isSome = true ∧ f.spent2.contains c.key = true

/-- rank of the arbitrator's own position (pc, in-memory state, trigger class); before the
    resolvers are inserted it includes room for their work. -/
def rank (sp : Spec) (s : Sys) : Nat :=
  match s.pc with
  | .finished => 0
  | .wipe => 1
  | .ccCommit => 6
  | .evMark => 9 + 10 * sp.contracts.length
  | .evLogCS => 10 + 10 * sp.contracts.length
  | .bcPublish => 13 + 10 * sp.contracts.length
  | .idle => if s.mem = .waitingFull then 4 else 11 + 10 * sp.contracts.length
  | .adv =>
    match s.mem with
    | .fullyResolved => 2
    | .waitingFull => if s.log.contracts = [] then 3 else 5
    | .contractClosed => 7 + 10 * sp.contracts.length
    | .commitBroadcasted => (if s.trig.isClose then 8 else 12) + 10 * sp.contracts.length
    | .broadcastCommit => (if s.trig.isClose then 8 else 14) + 10 * sp.contracts.length
    | .default => (if s.trig.isClose then 8 else 15) + 10 * sp.contracts.length

/-- the measure: position of the arbitrator + remaining work of the stored resolvers. -/
def mu (sp : Spec) (s : Sys) : Nat := rank sp s + work s

theorem mu_le (sp : Spec) (s : Sys) :
    mu sp s ≤ 15 + 10 * sp.contracts.length + 10 * s.log.contracts.length := by
  have := work_le s
  unfold mu rank
  repeat' split
  all_goals omega

end LndModel.C13
