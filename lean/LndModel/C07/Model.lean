/-
C07 — model of lnd's `htlcswitch.circuitMap` (htlcswitch/circuit_map.go,
circuit.go) plus the thin switch glue `Switch.closeCircuit` /
`Switch.teardownCircuit` (switch.go) and `OpenChannel.NextLocalHtlcIndex`
(chanstate/open_channel.go).

Hand-written; tied to the code by the behavioural correspondence check
(harness/overlay/htlcswitch/zz_c07_verif_test.go → drv_c07), which replays every
harness operation on these definitions and compares every answer and a full
snapshot of memory (pending / opened / closed, including the pointer-shared
fields `Outgoing` and `LoadedFromDisk`) and of both disk buckets after every
operation.

Go pointer aliasing is modelled with an explicit object heap: `pending` and
`opened` map keys to object ids, and `OpenCircuits` / `TrimOpenCircuits` /
`restoreMemState` mutate the shared object.  Every exported method is one
atomic step (the code holds `mtx` for the memory phase and uses one bbolt
transaction for the disk phase; the windows between the two phases are only
exercised by the harness' concurrency stream, not modelled).
-/
namespace LndModel.C07

/-- `models.CircuitKey` (ChanID as a number, HtlcID). -/
structure Key where
  chan : Nat
  id : Nat
deriving DecidableEq, Repr, Inhabited

/-- order of `CircuitKey.Bytes()` (8-byte big-endian chan ‖ 8-byte big-endian id) in bbolt. -/
def Key.lt (a b : Key) : Bool :=
  decide (a.chan < b.chan) || (decide (a.chan = b.chan) && decide (a.id < b.id))

/-- `hop.Source`: the all-zero short channel id. -/
def sourceChan : Nat := 0

/-- identity of a `*PaymentCircuit`: allocated by a caller of `CommitCircuits`
    (`fresh n`) or by `restoreMemState` (`disk k`, one per persisted circuit). -/
inductive ObjId where
  | fresh (n : Nat)
  | disk (k : Key)
deriving DecidableEq, Repr

/-- the fields of `PaymentCircuit` the circuit map reads or writes. -/
structure Circuit where
  inKey : Key
  outgoing : Option Key
  loaded : Bool
deriving DecidableEq, Repr

def upd {α β : Type} [DecidableEq α] (f : α → β) (a : α) (b : β) : α → β :=
  fun x => if x = a then b else f x

structure State where
  /-- heap -/
  objs : ObjId → Circuit
  /-- next unused `fresh` id -/
  next : Nat
  /-- `cm.pending` -/
  pending : Key → Option ObjId
  /-- `cm.opened` -/
  opened : Key → Option ObjId
  /-- `cm.closed` -/
  closed : Key → Bool
  /-- bucket `circuit-adds` (its key set; the value re-encodes the in key) -/
  adds : List Key
  /-- bucket `circuit-keystones`: (outKey, inKey) -/
  ks : List (Key × Key)

def State.init : State :=
  { objs := fun _ => ⟨default, none, false⟩, next := 0, pending := fun _ => none,
    opened := fun _ => none, closed := fun _ => false, adds := [], ks := [] }

/-! ### disk buckets -/

def addsPut (l : List Key) (k : Key) : List Key := if k ∈ l then l else l ++ [k]
def addsDel (l : List Key) (k : Key) : List Key := l.filter (fun x => decide (x ≠ k))
def ksDel (l : List (Key × Key)) (o : Key) : List (Key × Key) := l.filter (fun p => decide (p.1 ≠ o))
def ksPut (l : List (Key × Key)) (o i : Key) : List (Key × Key) := ksDel l o ++ [(o, i)]
def ksGet (l : List (Key × Key)) (o : Key) : Option Key :=
  (l.find? (fun p => decide (p.1 = o))).map (·.2)

/-! ### CommitCircuits -/

inductive Decision where
  | add | drop | fail
deriving DecidableEq, Repr

/-- the decision table of `CommitCircuits` for one circuit with in key `k`. -/
def decide1 (s : State) (k : Key) : Decision :=
  match s.pending k with
  | none => .add
  | some id =>
    if (s.objs id).outgoing.isSome then .drop          -- HasKeystone
    else if !(s.objs id).loaded then .drop             -- still in a mailbox
    else .fail                                         -- lost by a restart

/-- `cm.pending[inKey] = circuit` for a caller-allocated circuit object. -/
def alloc (s : State) (k : Key) : State :=
  { s with objs := upd s.objs (.fresh s.next) ⟨k, none, false⟩,
           next := s.next + 1,
           pending := upd s.pending k (some (.fresh s.next)) }

/-- the first (memory) loop of `CommitCircuits`: decisions in input order. -/
def commitLoop (s : State) : List Key → State × List (Key × Decision)
  | [] => (s, [])
  | k :: rest =>
    let d := decide1 s k
    let s1 := if d = .add then alloc s k else s
    let r := commitLoop s1 rest
    (r.1, (k, d) :: r.2)

def pick (ds : List (Key × Decision)) (p : Decision → Bool) : List Key :=
  (ds.filter (fun x => p x.2)).map (·.1)

structure Actions where
  adds : List Key
  drops : List Key
  fails : List Key
  err : Bool
deriving DecidableEq, Repr

def unpend (p : Key → Option ObjId) : List Key → Key → Option ObjId
  | [] => p
  | k :: rest => unpend (upd p k none) rest

/-- `CommitCircuits(circuits...)`; `wf` = the batch write fails. -/
def commit (s : State) (batch : List Key) (wf : Bool) : State × Actions :=
  let r := commitLoop s batch
  let adds := pick r.2 (· == .add)
  let drops := pick r.2 (· == .drop)
  let fails := pick r.2 (· == .fail)
  let addFails := pick r.2 (· != .drop)
  if adds.isEmpty then (r.1, ⟨[], drops, fails, false⟩)
  else if !wf then ({ r.1 with adds := adds.foldl addsPut r.1.adds }, ⟨adds, drops, fails, false⟩)
  else ({ r.1 with pending := unpend r.1.pending adds }, ⟨[], drops, addFails, true⟩)

/-! ### OpenCircuits -/

inductive OpenRes where
  | ok | dupKeystone | unknownCircuit | writeErr
deriving DecidableEq, Repr

/-- the checking loop (under `RLock`); keystones are (inKey, outKey). -/
def openCheck (s : State) : List (Key × Key) → Option OpenRes
  | [] => none
  | (i, o) :: rest =>
    if (s.opened o).isSome then some .dupKeystone
    else if (s.pending i).isNone then some .unknownCircuit
    else openCheck s rest

/-- the final memory loop: `circuit.Outgoing = &ks.OutKey; cm.opened[ks.OutKey] = circuit`. -/
def openMem (s : State) : List (Key × Key) → State
  | [] => s
  | (i, o) :: rest =>
    match s.pending i with
    | none => openMem s rest
    | some id =>
      openMem { s with objs := upd s.objs id { s.objs id with outgoing := some o },
                       opened := upd s.opened o (some id) } rest

def ksPutAll (l : List (Key × Key)) : List (Key × Key) → List (Key × Key)
  | [] => l
  | (i, o) :: rest => ksPutAll (ksPut l o i) rest

def openCircuits (s : State) (kst : List (Key × Key)) (wf : Bool) : State × OpenRes :=
  if kst.isEmpty then (s, .ok) else
  match openCheck s kst with
  | some e => (s, e)
  | none =>
    if wf then (s, .writeErr)
    else (openMem { s with ks := ksPutAll s.ks kst } kst, .ok)

/-! ### TrimOpenCircuits -/

/-- one iteration: `circuit.Outgoing = nil; delete(cm.opened, outKey)`. -/
def trimStep (s : State) (o : Key) (id : ObjId) : State :=
  { s with objs := upd s.objs id { s.objs id with outgoing := none },
           opened := upd s.opened o none }

/-- the scan `for i := start; ; i++` (memory phase); returns the trimmed out keys. -/
def trimRun (c : Nat) : Nat → Nat → State → State × List Key
  | 0, _, s => (s, [])
  | fuel + 1, i, s =>
    match s.opened ⟨c, i⟩ with
    | none => (s, [])
    | some id =>
      let r := trimRun c fuel (i + 1) (trimStep s ⟨c, i⟩ id)
      (r.1, ⟨c, i⟩ :: r.2)

/-- htlc ids are `uint64`; the scan cannot run past `2^64 - start` steps without wrapping. -/
def trimFuel (start : Nat) : Nat := 2 ^ 64 - start

/-- `TrimOpenCircuits(chanID, start)`; on a write failure memory stays trimmed (no rollback in the code). -/
def trim (s : State) (c start : Nat) (wf : Bool) : State × Bool :=
  let r := trimRun c (trimFuel start) start s
  if r.2.isEmpty then (r.1, false)
  else if wf then (r.1, true)
  else ({ r.1 with ks := r.1.ks.filter (fun p => !(r.2.contains p.1)) }, false)

/-! ### CloseCircuit / FailCircuit -/

inductive CloseRes where
  | ok (inKey : Key) | unknown | closing
deriving DecidableEq, Repr

def failCircuit (s : State) (k : Key) : State × CloseRes :=
  match s.pending k with
  | none => (s, .unknown)
  | some _ =>
    if s.closed k then (s, .closing)
    else ({ s with closed := upd s.closed k true }, .ok k)

def closeCircuit (s : State) (o : Key) : State × CloseRes :=
  match s.opened o with
  | none => (s, .unknown)
  | some id =>
    let k := (s.objs id).inKey
    if s.closed k then (s, .closing)
    else ({ s with closed := upd s.closed k true }, .ok k)

/-! ### DeleteCircuits -/

def openedDel (op : Key → Option ObjId) : Option Key → Key → Option ObjId
  | some o => upd op o none
  | none => op

def openedSet (op : Key → Option ObjId) (id : ObjId) : Option Key → Key → Option ObjId
  | some o => upd op o (some id)
  | none => op

def ksDelOpt (l : List (Key × Key)) : Option Key → List (Key × Key)
  | some o => ksDel l o
  | none => l

structure Removed where
  key : Key
  obj : ObjId
  wasClosing : Bool
deriving DecidableEq, Repr

/-- memory phase for one found circuit. -/
def delStep (s : State) (k : Key) (id : ObjId) : State :=
  { s with pending := upd s.pending k none,
           closed := upd s.closed k false,
           opened := openedDel s.opened (s.objs id).outgoing }

def deleteMem (s : State) : List Key → State × List Removed
  | [] => (s, [])
  | k :: rest =>
    match s.pending k with
    | none => deleteMem s rest
    | some id =>
      let r := deleteMem (delStep s k id) rest
      (r.1, ⟨k, id, s.closed k⟩ :: r.2)

def deleteDisk (s : State) : List Removed → State
  | [] => s
  | r :: rest =>
    deleteDisk { s with ks := ksDelOpt s.ks (s.objs r.obj).outgoing,
                        adds := addsDel s.adds r.key } rest

def deleteRollback (s : State) : List Removed → State
  | [] => s
  | r :: rest =>
    deleteRollback { s with pending := upd s.pending r.key (some r.obj),
                            closed := if r.wasClosing then upd s.closed r.key true else s.closed,
                            opened := openedSet s.opened r.obj (s.objs r.obj).outgoing } rest

def deleteCircuits (s : State) (keys : List Key) (wf : Bool) : State × Bool :=
  let r := deleteMem s keys
  if !wf then (deleteDisk r.1 r.2, false)
  else (deleteRollback r.1 r.2, true)

/-! ### NewCircuitMap on an existing DB: cleanClosedChannels ; restoreMemState ; trimAllOpenCircuits -/

structure ClosedChan where
  chan : Nat
  isPending : Bool
deriving DecidableEq, Repr

structure ActiveChan where
  chan : Nat
  isPending : Bool
  /-- `RemoteCommitment.LocalHtlcIndex` -/
  remoteIdx : Nat
  /-- `LocalHtlcIndex` of the pending remote commit, if there is one -/
  pendingIdx : Option Nat
deriving DecidableEq, Repr

structure Env where
  /-- `FetchClosedChannels(false)` -/
  closed : List ClosedChan
  /-- `FetchAllOpenChannels()` -/
  active : List ActiveChan
  /-- out keys for which `CheckResolutionMsg` returns nil -/
  resMsg : List Key
deriving Repr

/-- `OpenChannel.NextLocalHtlcIndex`. -/
def nextLocalHtlcIndex (a : ActiveChan) : Nat :=
  match a.pendingIdx with
  | some n => n
  | none => a.remoteIdx

def closedSet (e : Env) : List Nat := (e.closed.filter (fun c => !c.isPending)).map (·.chan)

/-- `isClosedChannel`: the zero channel id never matches. -/
def isClosedChan (cs : List Nat) (c : Nat) : Bool := decide (c ≠ 0) && cs.contains c

/-- the keystones `cleanClosedChannels` deletes. -/
def purgedKs (cs : List Nat) (res : List Key) (ks : List (Key × Key)) : List (Key × Key) :=
  ks.filter (fun p => isClosedChan cs p.2.chan || (isClosedChan cs p.1.chan && !(res.contains p.1)))

def cleanClosed (e : Env) (s : State) : State :=
  let cs := closedSet e
  if cs.isEmpty then s else
  let del := purgedKs cs e.resMsg s.ks
  let circuitKeys := s.adds.filter (fun k => isClosedChan cs k.chan) ++ del.map (·.2)
  let ksKeys := del.map (·.1)
  { s with adds := s.adds.filter (fun k => !(circuitKeys.contains k)),
           ks := s.ks.filter (fun p => !(ksKeys.contains p.1)) }

def maxKey? : List Key → Option Key
  | [] => none
  | k :: rest =>
    match maxKey? rest with
    | none => some k
    | some m => if k.lt m then some m else some k

/-- `Outgoing` of a restored circuit: keystones are visited in bbolt key order, the last one wins. -/
def restoredOut (ks : List (Key × Key)) (k : Key) : Option Key :=
  maxKey? ((ks.filter (fun p => decide (p.2 = k))).map (·.1))

def restore (s : State) : State :=
  { objs := fun id => match id with
      | .disk k => ⟨k, restoredOut s.ks k, true⟩
      | .fresh _ => ⟨default, none, false⟩,
    next := 0,
    pending := fun k => if s.adds.contains k then some (.disk k) else none,
    opened := fun o => match ksGet s.ks o with
      | some k => if s.adds.contains k then some (.disk k) else none
      | none => none,
    closed := fun _ => false,
    adds := s.adds,
    -- stray keystones are only pruned when their OutKey.ChanID is hop.Source
    ks := s.ks.filter (fun p => !(decide (p.1.chan = sourceChan) && !(s.adds.contains p.2))) }

def trimAll (s : State) : List ActiveChan → State
  | [] => s
  | a :: rest =>
    if a.isPending || decide (a.chan = sourceChan) then trimAll s rest
    else trimAll (trim s a.chan (nextLocalHtlcIndex a) false).1 rest

def restart (e : Env) (s : State) : State :=
  trimAll (restore (cleanClosed e s)) e.active

/-! ### operations -/

inductive Op where
  | commit (batch : List Key) (wf : Bool)
  | open (kst : List (Key × Key)) (wf : Bool)
  | trim (chan start : Nat) (wf : Bool)
  | close (o : Key)
  | fail (k : Key)
  | delete (keys : List Key) (wf : Bool)
  | restart (e : Env)

inductive Res where
  | actions (a : Actions)
  | opened (r : OpenRes)
  | done (err : Bool)
  | circuit (r : CloseRes)
  | restarted
deriving DecidableEq, Repr

def step (s : State) : Op → State × Res
  | .commit b wf => let r := commit s b wf; (r.1, .actions r.2)
  | .open k wf => let r := openCircuits s k wf; (r.1, .opened r.2)
  | .trim c st wf => let r := trim s c st wf; (r.1, .done r.2)
  | .close o => let r := closeCircuit s o; (r.1, .circuit r.2)
  | .fail k => let r := failCircuit s k; (r.1, .circuit r.2)
  | .delete ks wf => let r := deleteCircuits s ks wf; (r.1, .done r.2)
  | .restart e => (restart e s, .restarted)

def run (s : State) : List Op → State
  | [] => s
  | op :: rest => run (step s op).1 rest

/-! ### observers (pure) -/

def lookupCircuit (s : State) (k : Key) : Option Circuit := (s.pending k).map s.objs
def lookupOpenCircuit (s : State) (o : Key) : Option Circuit := (s.opened o).map s.objs
/-- `len(cm.pending)` / `len(cm.opened)` relative to a key universe that contains every key in use. -/
def numPending (u : List Key) (s : State) : Nat := (u.filter (fun k => (s.pending k).isSome)).length
def numOpen (u : List Key) (s : State) : Nat := (u.filter (fun k => (s.opened k).isSome)).length

/-! ### switch glue (switch.go) -/

inductive SwCloseRes where
  | ok (inKey : Key)
  | closing
  | unknown        -- ErrUnknownCircuit passed through (hasSource path)
  | nilNil         -- settle for an unknown circuit: (nil, nil)
  | otherErr       -- fail for an unknown circuit: "unable to find target channel"
deriving DecidableEq, Repr

/-- `Switch.closeCircuit(pkt)`: `hasSource` packets go through `FailCircuit(inKey)`, others through
    `CloseCircuit(outKey)`. -/
def swCloseCircuit (s : State) (hasSource : Bool) (k o : Key) (isSettle : Bool) : State × SwCloseRes :=
  if hasSource then
    match failCircuit s k with
    | (s', .ok i) => (s', .ok i)
    | (s', .closing) => (s', .closing)
    | (s', .unknown) => (s', .unknown)
  else
    match closeCircuit s o with
    | (s', .ok i) => (s', .ok i)
    | (s', .closing) => (s', .closing)
    | (s', .unknown) => (s', if isSettle then .nilNil else .otherErr)

inductive TearRes where
  | ok | badType | err
  | panic   -- nil `pkt.circuit` dereferenced while logging the DeleteCircuits error
deriving DecidableEq, Repr

/-- `Switch.teardownCircuit(pkt)`. -/
def swTeardown (s : State) (okType : Bool) (k : Key) (hasCircuit : Bool) (wf : Bool) : State × TearRes :=
  if !okType then (s, .badType) else
  let r := deleteCircuits s [k] wf
  if !r.2 then (r.1, .ok)
  else if hasCircuit then (r.1, .err) else (r.1, .panic)

end LndModel.C07
