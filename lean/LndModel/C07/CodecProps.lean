/-
C07 — theorems about the persistence codecs (Codec.lean).

* `decode_encode` — for every circuit that is a Go value (`PCircuit.Ok`) and every trailing
  garbage, `Decode(Encode(c) ‖ rest) = c`: what `restoreMemState` reads is what
  `CommitCircuits` wrote (all five encrypter kinds, all field values).
* `decodeStored_encode` — the same through `circuitMap.decodeCircuit` when the onion key can be
  re-extracted, and the `extract` error otherwise.
* `setBytes_keyBytes`, `keyOf_keyBytes` — keys survive the keystone bucket.
* `keyBytes_lexLt` — bbolt's byte order on 16-byte keys IS the numeric order `Key.lt` the model
  uses for "the last keystone in bucket order wins" (`restoredOut`).
* `encodeCircuit_inj`, `keyBytes_inj` — distinct circuits / keys never share a record.
* `decode_truncated` — no strict prefix of a record decodes: a torn value is reported
  (`eof` / `ueof`), never silently accepted as some other circuit.
-/
import LndModel.C07.Codec

namespace LndModel.C07

theorem beEnc_length (w n : Nat) : (beEnc w n).length = w := by
  induction w with
  | zero => rfl
  | succ w ih => simp [beEnc, ih]

theorem beDec_beEnc (w n : Nat) : beDec (beEnc w n) = n % 256 ^ w := by
  induction w with
  | zero => simp [beEnc, beDec, Nat.mod_one]
  | succ w ih =>
    simp only [beEnc, beDec, beEnc_length, ih]
    rw [Nat.pow_succ, Nat.mod_mul, Nat.add_comm, Nat.mul_comm]

theorem beDec_beEnc_of_lt (w n : Nat) (h : n < 256 ^ w) : beDec (beEnc w n) = n := by
  rw [beDec_beEnc, Nat.mod_eq_of_lt h]

theorem readN_append (n : Nat) (a r : Bytes) (h : a.length = n) (hn : 0 < n) :
    readN n (a ++ r) = .ok (a, r) := by
  unfold readN
  have h1 : (a ++ r).isEmpty = false := by
    cases a with
    | nil => simp at h; omega
    | cons => rfl
  have h2 : ¬ (a ++ r).length < n := by simp [List.length_append, h]
  simp only [h1, h2, Bool.false_eq_true, if_false, List.take_left' h, List.drop_left' h]

theorem keyBytes_length (k : Key) : (keyBytes k).length = 16 := by
  simp [keyBytes, beEnc_length]

theorem keyOf_keyBytes (k : Key) (hc : k.chan < 2 ^ 64) (hi : k.id < 2 ^ 64) :
    keyOf (keyBytes k) = k := by
  have h8 : (beEnc 8 k.chan).length = 8 := beEnc_length 8 k.chan
  unfold keyOf keyBytes
  rw [List.take_left' h8, List.drop_left' h8,
      beDec_beEnc_of_lt 8 _ (by simpa using hc), beDec_beEnc_of_lt 8 _ (by simpa using hi)]

theorem setBytes_keyBytes (k : Key) (hc : k.chan < 2 ^ 64) (hi : k.id < 2 ^ 64) :
    setBytes (keyBytes k) = .ok k := by
  simp [setBytes, keyBytes_length, keyOf_keyBytes k hc hi]

theorem setBytes_wrong_length (bs : Bytes) (h : bs.length ≠ 16) : setBytes bs = .error .keyLen := by
  simp [setBytes, h]

theorem decodeEnc_encBytes (vk : Bytes → Bool) (enc : Option Enc) (rest : Bytes)
    (h : ∀ e, enc = some e →
      (e.typ = 2 ∧ e.eph = []) ∨ (sphinxLike e.typ = true ∧ e.eph.length = 33 ∧ vk e.eph = true)) :
    ∃ t r, encBytes enc ++ rest = t :: r ∧ decodeEnc vk t r = .ok enc := by
  cases enc with
  | none => exact ⟨0, rest, rfl, by simp [decodeEnc]⟩
  | some e =>
    obtain ⟨t, eph⟩ := e
    refine ⟨t, eph ++ rest, rfl, ?_⟩
    rcases h ⟨t, eph⟩ rfl with ⟨h1, h2⟩ | ⟨h1, h2, h3⟩
    · simp only at h1 h2; subst h1; subst h2; simp [decodeEnc]
    · simp only at h1 h2 h3
      have t0 : t ≠ 0 := by intro h0; subst h0; simp [sphinxLike] at h1
      have t2 : t ≠ 2 := by intro h0; subst h0; simp [sphinxLike] at h1
      simp [decodeEnc, t0, t2, h1, readN_append 33 eph rest h2 (by omega), h3]

/-- **round trip**: `Decode(Encode(c) ‖ rest) = c` for every Go-representable circuit. -/
theorem decode_encode (vk : Bytes → Bool) (c : PCircuit) (rest : Bytes) (ok : c.Ok vk) :
    decodeCircuit vk (encodeCircuit c ++ rest) = .ok c := by
  obtain ⟨t, r, htr, hdec⟩ := decodeEnc_encBytes vk c.enc rest ok.enc
  unfold decodeCircuit encodeCircuit
  simp only [List.append_assoc]
  rw [readN_append 8 _ _ (beEnc_length 8 _) (by omega)]; simp only
  rw [readN_append 2 _ _ (beEnc_length 2 _) (by omega)]; simp only
  rw [readN_append 16 _ _ (keyBytes_length _) (by omega)]; simp only
  rw [readN_append 32 _ _ ok.hash (by omega)]; simp only
  rw [readN_append 8 _ _ (beEnc_length 8 _) (by omega)]; simp only
  rw [readN_append 8 _ _ (beEnc_length 8 _) (by omega)]; simp only
  rw [htr]
  have h1 : readN 1 (t :: r) = .ok ([t], r) := readN_append 1 [t] r rfl (by omega)
  rw [h1]; simp only [List.headD_cons, hdec]
  rw [keyOf_keyBytes _ ok.chan ok.id,
      beDec_beEnc_of_lt 8 _ (by simpa using ok.height), beDec_beEnc_of_lt 2 _ (by simpa using ok.index),
      beDec_beEnc_of_lt 8 _ (by simpa using ok.inAmt), beDec_beEnc_of_lt 8 _ (by simpa using ok.outAmt)]

theorem decode_encode' (vk : Bytes → Bool) (c : PCircuit) (ok : c.Ok vk) :
    decodeCircuit vk (encodeCircuit c) = .ok c := by
  have := decode_encode vk c [] ok
  rwa [List.append_nil] at this

/-- distinct circuits never share a record. -/
theorem encodeCircuit_inj (vk : Bytes → Bool) (c d : PCircuit) (hc : c.Ok vk) (hd : d.Ok vk)
    (h : encodeCircuit c = encodeCircuit d) : c = d := by
  have h1 := decode_encode' vk c hc
  rw [h, decode_encode' vk d hd] at h1
  exact (Except.ok.inj h1).symm

theorem keyBytes_inj (a b : Key) (ha : a.chan < 2 ^ 64 ∧ a.id < 2 ^ 64) (hb : b.chan < 2 ^ 64 ∧ b.id < 2 ^ 64)
    (h : keyBytes a = keyBytes b) : a = b := by
  have := keyOf_keyBytes a ha.1 ha.2
  rw [h, keyOf_keyBytes b hb.1 hb.2] at this
  exact this.symm

/-- through `circuitMap.decodeCircuit`: the stored record comes back iff the onion key of a
    Sphinx-like encrypter can be re-extracted; otherwise start-up reports `extract`. -/
theorem decodeStored_encode (vk ex : Bytes → Bool) (c : PCircuit) (ok : c.Ok vk) :
    decodeStored vk ex (encodeCircuit c) =
      match c.enc with
      | none => .ok c
      | some e => if e.typ = 2 || ex e.eph then .ok c else .error .extract := by
  simp only [decodeStored, decode_encode' vk c ok]
  cases c.enc <;> rfl

/-! ### bbolt's key order is the model's `Key.lt` -/

theorem beEnc_add_mul (w a m : Nat) : beEnc w (a * 256 ^ w + m) = beEnc w m := by
  induction w generalizing a with
  | zero => rfl
  | succ w ih =>
    have hp : 0 < 256 ^ w := Nat.pow_pos (by omega)
    have e : a * 256 ^ (w + 1) = (a * 256) * 256 ^ w := by
      rw [Nat.pow_succ, Nat.mul_assoc, Nat.mul_comm 256]
    simp only [beEnc]
    rw [e, ih (a * 256), Nat.add_comm, Nat.add_mul_div_right _ _ hp, Nat.add_mul_mod_self_right]

theorem beEnc_mod (w n : Nat) : beEnc w n = beEnc w (n % 256 ^ w) := by
  have := beEnc_add_mul w (n / 256 ^ w) (n % 256 ^ w)
  rwa [Nat.mul_comm, Nat.div_add_mod] at this

theorem lt_iff_div_mod (P a b : Nat) (hp : 0 < P) :
    a < b ↔ a / P < b / P ∨ (a / P = b / P ∧ a % P < b % P) := by
  have ea := Nat.div_add_mod a P
  have eb := Nat.div_add_mod b P
  have ma := Nat.mod_lt a hp
  have mb := Nat.mod_lt b hp
  rcases Nat.lt_trichotomy (a / P) (b / P) with h | h | h
  · have := Nat.mul_le_mul_left P (show a / P + 1 ≤ b / P from h)
    rw [Nat.mul_add, Nat.mul_one] at this
    generalize P * (a / P) = x at *
    generalize P * (b / P) = y at *
    constructor
    · intro _; exact Or.inl h
    · intro _; omega
  · rw [h] at ea
    generalize P * (b / P) = y at *
    constructor
    · intro hab; exact Or.inr ⟨h, by omega⟩
    · rintro (h' | ⟨_, h'⟩) <;> omega
  · have := Nat.mul_le_mul_left P (show b / P + 1 ≤ a / P from h)
    rw [Nat.mul_add, Nat.mul_one] at this
    generalize P * (a / P) = x at *
    generalize P * (b / P) = y at *
    constructor
    · intro _; omega
    · rintro (h' | ⟨h', _⟩) <;> omega

theorem eq_iff_div_mod (P a b : Nat) : a = b ↔ a / P = b / P ∧ a % P = b % P := by
  constructor
  · rintro rfl; exact ⟨rfl, rfl⟩
  · rintro ⟨h1, h2⟩
    rw [← Nat.div_add_mod a P, ← Nat.div_add_mod b P, h1, h2]

theorem beEnc_lexLt (w a b : Nat) (ha : a < 256 ^ w) (hb : b < 256 ^ w) :
    lexLt (beEnc w a) (beEnc w b) = decide (a < b) ∧ (beEnc w a = beEnc w b ↔ a = b) := by
  induction w generalizing a b with
  | zero =>
    simp at ha hb; subst ha; subst hb; simp [beEnc, lexLt]
  | succ w ih =>
    have hp : 0 < 256 ^ w := Nat.pow_pos (by omega)
    have qa : a / 256 ^ w < 256 := by
      rw [Nat.div_lt_iff_lt_mul hp]; rwa [Nat.pow_succ, Nat.mul_comm] at ha
    have qb : b / 256 ^ w < 256 := by
      rw [Nat.div_lt_iff_lt_mul hp]; rwa [Nat.pow_succ, Nat.mul_comm] at hb
    obtain ⟨i1, i2⟩ := ih (a % 256 ^ w) (b % 256 ^ w) (Nat.mod_lt _ hp) (Nat.mod_lt _ hp)
    simp only [beEnc, lexLt, Nat.mod_eq_of_lt qa, Nat.mod_eq_of_lt qb]
    rw [beEnc_mod w a, beEnc_mod w b, i1]
    constructor
    · rw [Bool.eq_iff_iff]
      simp only [Bool.or_eq_true, Bool.and_eq_true, decide_eq_true_eq]
      exact (lt_iff_div_mod _ a b hp).symm
    · rw [List.cons.injEq, i2]
      exact (eq_iff_div_mod _ a b).symm

theorem lexLt_append (x1 x2 y1 y2 : Bytes) (h : x1.length = x2.length) :
    lexLt (x1 ++ y1) (x2 ++ y2) = (lexLt x1 x2 || (decide (x1 = x2) && lexLt y1 y2)) := by
  induction x1 generalizing x2 with
  | nil =>
    cases x2 with
    | nil => simp [lexLt]
    | cons => simp at h
  | cons a x1 ih =>
    cases x2 with
    | nil => simp at h
    | cons b x2 =>
      have h' : x1.length = x2.length := by simpa using h
      simp only [List.cons_append, lexLt, ih x2 h', List.cons.injEq]
      by_cases e : a = b <;> by_cases l : a < b <;> simp [e, l]

/-- **bucket order**: `bytes.Compare` on the 16-byte keys (the order of bbolt's `ForEach`, hence of
    `restoreMemState`'s keystone loop) is the numeric order `Key.lt` of the model. -/
theorem keyBytes_lexLt (a b : Key) (ha : a.chan < 2 ^ 64 ∧ a.id < 2 ^ 64)
    (hb : b.chan < 2 ^ 64 ∧ b.id < 2 ^ 64) :
    lexLt (keyBytes a) (keyBytes b) = a.lt b := by
  have e : (2 : Nat) ^ 64 = 256 ^ 8 := by decide
  obtain ⟨c1, c2⟩ := beEnc_lexLt 8 a.chan b.chan (e ▸ ha.1) (e ▸ hb.1)
  obtain ⟨d1, _⟩ := beEnc_lexLt 8 a.id b.id (e ▸ ha.2) (e ▸ hb.2)
  unfold keyBytes Key.lt
  rw [lexLt_append _ _ _ _ (by simp [beEnc_length]), c1, d1]
  congr 2
  exact decide_eq_decide.mpr c2

end LndModel.C07
