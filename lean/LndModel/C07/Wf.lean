/-
C07 helper lemmas, part 3: the structural well-formedness invariant `WF` of the
circuit map (pointer-level agreement of `pending`, `opened`, the shared circuit
objects, the `closed` set and the keystone bucket) is preserved by every
operation when the outgoing links respect `OpenOk` (one fresh keystone per
circuit).
-/
import LndModel.C07.Lemmas2

namespace LndModel.C07

structure WF (s : State) : Prop where
  /-- a circuit is filed under its own incoming key -/
  inKey : ∀ k id, s.pending k = some id → (s.objs id).inKey = k
  /-- an opened entry is the pending circuit carrying exactly that keystone -/
  openedOk : ∀ o id, s.opened o = some id →
    (s.objs id).outgoing = some o ∧ s.pending (s.objs id).inKey = some id
  /-- a pending circuit with a keystone is filed in `opened` under it -/
  filed : ∀ k id o, s.pending k = some id → (s.objs id).outgoing = some o → s.opened o = some id
  /-- only pending circuits are marked closed -/
  closedPending : ∀ k, s.closed k = true → (s.pending k).isSome
  /-- every opened entry has its keystone on disk -/
  durable : ∀ o id, s.opened o = some id → (o, (s.objs id).inKey) ∈ s.ks
  /-- caller-allocated objects referenced by the map are below the allocation counter -/
  fresh : ∀ k n, s.pending k = some (.fresh n) → n < s.next
  ksFun : KsFun s.ks
  /-- a circuit has at most one keystone on disk -/
  ksInj : ∀ o1 o2 k, (o1, k) ∈ s.ks → (o2, k) ∈ s.ks → o1 = o2

/-- link discipline for `OpenCircuits`: distinct circuits, distinct fresh out keys, and no
    keystone on disk yet for any of the circuits. -/
def OpenOk (s : State) (kst : List (Key × Key)) : Prop :=
  (kst.map (·.1)).Nodup ∧ (kst.map (·.2)).Nodup ∧
  ∀ p ∈ kst, (∀ o', (o', p.1) ∉ s.ks) ∧ (∀ k', (p.2, k') ∉ s.ks)

theorem wf_init : WF State.init := by
  constructor <;> simp [State.init, KsFun]

/-! ### transfer along agreement -/

theorem wf_of_agree (s s' : State) (h : WF s)
    (hp : ∀ x, s'.pending x = s.pending x) (ho : ∀ x, s'.opened x = s.opened x)
    (hc : ∀ x, s'.closed x = s.closed x) (hk : s'.ks = s.ks)
    (hd : ∀ k, s'.objs (.disk k) = s.objs (.disk k))
    (hf : ∀ n, n < s.next → s'.objs (.fresh n) = s.objs (.fresh n))
    (hn : s.next ≤ s'.next) : WF s' := by
  have hobj : ∀ k id, s.pending k = some id → s'.objs id = s.objs id := by
    intro k id hpk
    cases id with
    | disk k' => exact hd k'
    | fresh n => exact hf n (h.fresh k n hpk)
  have hobjO : ∀ o id, s.opened o = some id → s'.objs id = s.objs id := by
    intro o id hoo
    exact hobj _ id (h.openedOk o id hoo).2
  constructor
  · intro k id hpk; rw [hp] at hpk; rw [hobj k id hpk]; exact h.inKey k id hpk
  · intro o id hoo; rw [ho] at hoo
    rw [hobjO o id hoo, hp]; exact h.openedOk o id hoo
  · intro k id o hpk hout; rw [hp] at hpk; rw [hobj k id hpk] at hout
    rw [ho]; exact h.filed k id o hpk hout
  · intro k hck; rw [hc] at hck; rw [hp]; exact h.closedPending k hck
  · intro o id hoo; rw [ho] at hoo
    rw [hobjO o id hoo, hk]; exact h.durable o id hoo
  · intro k n hpk; rw [hp] at hpk; have := h.fresh k n hpk; omega
  · rw [hk]; exact h.ksFun
  · rw [hk]; exact h.ksInj

/-! ### CommitCircuits -/

theorem wf_alloc (s : State) (k : Key) (h : WF s) (hk : s.pending k = none) : WF (alloc s k) := by
  have hne : ∀ x id, s.pending x = some id → id ≠ .fresh s.next := by
    intro x id hx e; subst e
    have := h.fresh x s.next hx; omega
  constructor
  · intro x id hx
    rw [alloc_pending] at hx
    by_cases e : x = k
    · subst e; simp only [if_true] at hx; injection hx with hx; subst hx
      simp [alloc]
    · simp only [e, if_false] at hx
      simp only [alloc, upd_apply, hne x id hx, if_false]
      exact h.inKey x id hx
  · intro o id ho
    simp only [alloc_opened] at ho
    obtain ⟨h1, h2⟩ := h.openedOk o id ho
    have hid := hne _ id h2
    simp only [alloc, upd_apply, hid, if_false]
    refine ⟨h1, ?_⟩
    have : (s.objs id).inKey ≠ k := by intro e; rw [e, hk] at h2; cases h2
    simp [this, h2]
  · intro x id o hx hout
    rw [alloc_pending] at hx
    by_cases e : x = k
    · subst e; simp only [if_true] at hx; injection hx with hx; subst hx
      simp [alloc] at hout
    · simp only [e, if_false] at hx
      simp only [alloc, upd_apply, hne x id hx, if_false] at hout
      simp only [alloc_opened]
      exact h.filed x id o hx hout
  · intro x hx
    simp only [alloc_closed] at hx
    have := h.closedPending x hx
    rw [alloc_pending]
    by_cases e : x = k
    · simp [e]
    · simpa [e] using this
  · intro o id ho
    simp only [alloc_opened] at ho
    have hid := hne _ id (h.openedOk o id ho).2
    simp only [alloc, upd_apply, hid, if_false]
    exact h.durable o id ho
  · intro x n hx
    rw [alloc_pending] at hx
    simp only [alloc_next]
    by_cases e : x = k
    · simp only [e, if_true] at hx; injection hx with hx; injection hx with hx; omega
    · simp only [e, if_false] at hx; have := h.fresh x n hx; omega
  · exact h.ksFun
  · exact h.ksInj

theorem wf_commitLoop (s : State) (b : List Key) (h : WF s) : WF (commitLoop s b).1 := by
  induction b generalizing s with
  | nil => exact h
  | cons k rest ih =>
    rw [commitLoop_fst_cons]
    split
    · rename_i hk; exact ih _ (wf_alloc s k h hk)
    · exact ih s h

theorem wf_commit (s : State) (b : List Key) (wf : Bool) (h : WF s) : WF (commit s b wf).1 := by
  have hl := wf_commitLoop s b h
  rw [commit_eq]
  split
  · exact hl
  · split
    · exact ⟨hl.inKey, hl.openedOk, hl.filed, hl.closedPending, hl.durable, hl.fresh, hl.ksFun, hl.ksInj⟩
    · -- write failure: the map is the old one plus unreferenced objects
      have hfr := commitLoop_frame s b
      have hob := commitLoop_objs s b
      have hp := commitLoop_pending s b
      have hfresh := addsOf_fresh s b
      apply wf_of_agree s _ h
      · intro x
        simp only [unpend_apply]
        by_cases hx : x ∈ addsOf s b
        · simp [hx, hfresh x hx]
        · simp [hx, (hp x).2.2 hx]
      · intro x; simp [hfr.1]
      · intro x; simp [hfr.2.1]
      · exact hfr.2.2.2
      · exact hob.2.1
      · exact hob.2.2
      · exact hob.1

/-! ### OpenCircuits -/

/-- one keystone, disk and memory together. -/
def openOne (s : State) (i o : Key) (id : ObjId) : State :=
  { s with objs := upd s.objs id { s.objs id with outgoing := some o },
           opened := upd s.opened o (some id),
           ks := ksPut s.ks o i }

theorem mem_ksPut (l : List (Key × Key)) (o i : Key) (p : Key × Key) :
    p ∈ ksPut l o i ↔ (p ∈ l ∧ p.1 ≠ o) ∨ p = (o, i) := by
  simp [ksPut, mem_ksDel]

theorem wf_openOne (s : State) (i o : Key) (id : ObjId) (h : WF s)
    (hp : s.pending i = some id) (hin : ∀ o', (o', i) ∉ s.ks) (hout : ∀ k', (o, k') ∉ s.ks) :
    WF (openOne s i o id) := by
  have hik : (s.objs id).inKey = i := h.inKey i id hp
  have hnoOut : (s.objs id).outgoing = none := by
    cases ho : (s.objs id).outgoing with
    | none => rfl
    | some o' =>
      have h1 := h.filed i id o' hp ho
      have h2 := h.durable o' id h1
      rw [hik] at h2
      exact absurd h2 (hin o')
  have hoNone : s.opened o = none := by
    cases ho : s.opened o with
    | none => rfl
    | some id' => exact absurd (h.durable o id' ho) (hout _)
  constructor
  · intro k id' hk
    simp only [openOne] at hk ⊢
    simp only [upd_apply]
    by_cases e : id' = id
    · subst e; simp only [if_true]; exact h.inKey k id' hk
    · simp only [e, if_false]; exact h.inKey k id' hk
  · intro x id' hx
    simp only [openOne, upd_apply] at hx ⊢
    by_cases ex : x = o
    · subst ex
      simp only [if_true] at hx; injection hx with hx; subst hx
      simp [hik, hp]
    · simp only [ex, if_false] at hx
      have hne : id' ≠ id := by
        intro e; subst e
        have := (h.openedOk x id' hx).1; rw [hnoOut] at this; cases this
      simp only [hne, if_false]
      exact h.openedOk x id' hx
  · intro k id' x hk hx
    simp only [openOne, upd_apply] at hk hx ⊢
    by_cases e : id' = id
    · subst e
      simp only [if_true] at hx; injection hx with hx; subst hx
      simp
    · simp only [e, if_false] at hx
      have := h.filed k id' x hk hx
      have hxo : x ≠ o := by intro e2; subst e2; rw [hoNone] at this; cases this
      simp [hxo, this]
  · intro k hk; exact h.closedPending k hk
  · intro x id' hx
    simp only [openOne, upd_apply] at hx ⊢
    rw [mem_ksPut]
    by_cases ex : x = o
    · subst ex
      simp only [if_true] at hx; injection hx with hx; subst hx
      right; simp [hik]
    · simp only [ex, if_false] at hx
      left
      have hinK : (if id' = id then ({ s.objs id with outgoing := some o } : Circuit) else s.objs id').inKey
          = (s.objs id').inKey := by
        by_cases e : id' = id
        · subst e; simp
        · simp [e]
      rw [hinK]
      exact ⟨h.durable x id' hx, ex⟩
  · intro k n hk; exact h.fresh k n hk
  · exact ksFun_ksPut _ _ _ h.ksFun
  · intro o1 o2 k h1 h2
    simp only [openOne] at h1 h2
    rw [mem_ksPut] at h1 h2
    cases h1 with
    | inl h1 =>
      cases h2 with
      | inl h2 => exact h.ksInj o1 o2 k h1.1 h2.1
      | inr h2 => injection h2 with _ e2; subst e2; exact absurd h1.1 (hin o1)
    | inr h1 =>
      injection h1 with e1 e1'; subst e1'
      cases h2 with
      | inl h2 => exact absurd h2.1 (hin o2)
      | inr h2 => injection h2 with e2 _; rw [e1, e2]

/-- `openMem` after the bucket write is the keystones applied one by one. -/
def openAll (s : State) : List (Key × Key) → State
  | [] => s
  | (i, o) :: rest =>
    match s.pending i with
    | none => openAll { s with ks := ksPut s.ks o i } rest
    | some id => openAll (openOne s i o id) rest

theorem openAll_eq (s : State) (kst : List (Key × Key)) :
    openMem { s with ks := ksPutAll s.ks kst } kst = openAll s kst := by
  induction kst generalizing s with
  | nil => simp [openMem, openAll, ksPutAll]
  | cons p rest ih =>
    obtain ⟨i, o⟩ := p
    simp only [openMem, openAll, ksPutAll]
    cases hp : s.pending i with
    | none => simp only []; exact ih { s with ks := ksPut s.ks o i }
    | some id => simp only []; exact ih (openOne s i o id)

theorem wf_openAll (s : State) (kst : List (Key × Key)) (h : WF s) (hok : OpenOk s kst)
    (hpend : ∀ p ∈ kst, (s.pending p.1).isSome) : WF (openAll s kst) := by
  induction kst generalizing s with
  | nil => exact h
  | cons p rest ih =>
    obtain ⟨i, o⟩ := p
    obtain ⟨hn1, hn2, hall⟩ := hok
    simp only [List.map_cons, List.nodup_cons] at hn1 hn2
    have hio := hall (i, o) List.mem_cons_self
    have hpi := hpend (i, o) List.mem_cons_self
    obtain ⟨id, hid⟩ := Option.isSome_iff_exists.mp hpi
    simp only [openAll, hid]
    apply ih
    · exact wf_openOne s i o id h hid hio.1 hio.2
    · refine ⟨hn1.2, hn2.2, ?_⟩
      intro q hq
      have hq' := hall q (List.mem_cons_of_mem _ hq)
      have hqi : q.1 ≠ i := by
        intro e; apply hn1.1; rw [← e]; exact List.mem_map_of_mem hq
      have hqo : q.2 ≠ o := by
        intro e; apply hn2.1; rw [← e]; exact List.mem_map_of_mem hq
      constructor
      · intro o' hm
        simp only [openOne] at hm
        rw [mem_ksPut] at hm
        cases hm with
        | inl hm => exact hq'.1 o' hm.1
        | inr hm => injection hm with _ e; exact hqi e
      · intro k' hm
        simp only [openOne] at hm
        rw [mem_ksPut] at hm
        cases hm with
        | inl hm => exact hq'.2 k' hm.1
        | inr hm => injection hm with e _; exact hqo e
    · intro q hq; exact hpend q (List.mem_cons_of_mem _ hq)

theorem openCheck_none (s : State) (kst : List (Key × Key)) (h : openCheck s kst = none) :
    ∀ p ∈ kst, (s.pending p.1).isSome := by
  induction kst with
  | nil => intro p hp; cases hp
  | cons q rest ih =>
    obtain ⟨i, o⟩ := q
    simp only [openCheck] at h
    split at h
    · cases h
    · split at h
      · cases h
      · rename_i _ hp
        intro p hp'
        cases hp' with
        | head =>
          show (s.pending i).isSome = true
          cases hq : s.pending i with
          | none => simp [hq] at hp
          | some _ => rfl
        | tail _ hp'' => exact ih h p hp''

theorem wf_open (s : State) (kst : List (Key × Key)) (wf : Bool) (h : WF s) (hok : OpenOk s kst) :
    WF (openCircuits s kst wf).1 := by
  unfold openCircuits
  split
  · exact h
  · split
    · exact h
    · split
      · exact h
      · rename_i hc _
        rw [openAll_eq]
        exact wf_openAll s kst h hok (openCheck_none s kst hc)

/-! ### TrimOpenCircuits -/

theorem wf_trimStep (s : State) (o : Key) (id : ObjId) (h : WF s) (ho : s.opened o = some id) :
    WF (trimStep s o id) := by
  obtain ⟨hout, hpend⟩ := h.openedOk o id ho
  constructor
  · intro k id' hk
    simp only [trimStep, upd_apply] at hk ⊢
    by_cases e : id' = id
    · subst e; simp only [if_true]; exact h.inKey k id' hk
    · simp only [e, if_false]; exact h.inKey k id' hk
  · intro x id' hx
    simp only [trimStep, upd_apply] at hx ⊢
    by_cases ex : x = o
    · simp [ex] at hx
    · simp only [ex, if_false] at hx
      have hne : id' ≠ id := by
        intro e; subst e
        have := (h.openedOk x id' hx).1; rw [hout] at this; injection this with this
        exact ex this.symm
      simp only [hne, if_false]
      exact h.openedOk x id' hx
  · intro k id' x hk hx
    simp only [trimStep, upd_apply] at hk hx ⊢
    by_cases e : id' = id
    · subst e; simp at hx
    · simp only [e, if_false] at hx
      have := h.filed k id' x hk hx
      have hxo : x ≠ o := by
        intro e2; subst e2; rw [ho] at this; injection this with this; exact e this.symm
      simp [hxo, this]
  · intro k hk; exact h.closedPending k hk
  · intro x id' hx
    simp only [trimStep, upd_apply] at hx ⊢
    by_cases ex : x = o
    · simp [ex] at hx
    · simp only [ex, if_false] at hx
      have hinK : (if id' = id then ({ s.objs id with outgoing := none } : Circuit) else s.objs id').inKey
          = (s.objs id').inKey := by
        by_cases e : id' = id
        · subst e; simp
        · simp [e]
      rw [hinK]; exact h.durable x id' hx
  · intro k n hk; exact h.fresh k n hk
  · exact h.ksFun
  · exact h.ksInj

theorem wf_trimRun (c f i : Nat) (s : State) (h : WF s) : WF (trimRun c f i s).1 := by
  induction f generalizing i s with
  | zero => exact h
  | succ f ih =>
    cases ho : s.opened ⟨c, i⟩ with
    | none => rw [trimRun_none c f i s ho]; exact h
    | some id =>
      rw [trimRun_some c f i s id ho]
      exact ih _ _ (wf_trimStep s _ id h ho)

theorem wf_trim (s : State) (c start : Nat) (wf : Bool) (h : WF s) : WF (trim s c start wf).1 := by
  have hr := wf_trimRun c (trimFuel start) start s h
  rw [trim_eq]
  split
  · exact hr
  · split
    · exact hr
    · refine ⟨hr.inKey, hr.openedOk, hr.filed, hr.closedPending, ?_, hr.fresh, ?_, ?_⟩
      · intro o id ho
        simp only at ho ⊢
        have hd := hr.durable o id ho
        simp only [List.mem_filter, hd, true_and, Bool.not_eq_true', List.contains_eq_mem,
          decide_eq_false_iff_not]
        intro hm
        rw [trimRun_opened] at ho
        simp [hm] at ho
      · exact ksFun_filter _ _ hr.ksFun
      · intro o1 o2 k h1 h2
        exact hr.ksInj o1 o2 k (List.mem_filter.mp h1).1 (List.mem_filter.mp h2).1

/-! ### CloseCircuit / FailCircuit -/

theorem wf_fail (s : State) (k : Key) (h : WF s) : WF (failCircuit s k).1 := by
  unfold failCircuit
  cases hp : s.pending k with
  | none => exact h
  | some id =>
    simp only
    split
    · exact h
    · refine ⟨h.inKey, h.openedOk, h.filed, ?_, h.durable, h.fresh, h.ksFun, h.ksInj⟩
      intro x hx
      simp only [upd_apply] at hx
      by_cases e : x = k
      · subst e; simp [hp]
      · simp only [e, if_false] at hx; exact h.closedPending x hx

theorem wf_close (s : State) (o : Key) (h : WF s) : WF (closeCircuit s o).1 := by
  unfold closeCircuit
  cases ho : s.opened o with
  | none => exact h
  | some id =>
    simp only
    split
    · exact h
    · refine ⟨h.inKey, h.openedOk, h.filed, ?_, h.durable, h.fresh, h.ksFun, h.ksInj⟩
      intro x hx
      simp only [upd_apply] at hx
      by_cases e : x = (s.objs id).inKey
      · subst e; simp [(h.openedOk o id ho).2]
      · simp only [e, if_false] at hx; exact h.closedPending x hx

/-! ### DeleteCircuits -/

theorem deleteMem_opened_exact (s : State) (keys : List Key) (x : Key) :
    (deleteMem s keys).1.opened x =
      if ∃ r ∈ (deleteMem s keys).2, (s.objs r.obj).outgoing = some x then none else s.opened x := by
  induction keys generalizing s with
  | nil => simp [deleteMem]
  | cons k rest ih =>
    cases hp : s.pending k with
    | none => rw [deleteMem_none s k rest hp]; exact ih s
    | some id =>
      rw [deleteMem_some s k rest id hp]
      simp only []
      rw [ih]
      simp only [List.mem_cons, exists_eq_or_imp]
      have hobjs : (delStep s k id).objs = s.objs := rfl
      simp only [hobjs]
      by_cases h1 : ∃ r ∈ (deleteMem (delStep s k id) rest).2, (s.objs r.obj).outgoing = some x
      · simp [h1]
      · simp only [h1, if_false, or_false]
        cases ho : (s.objs id).outgoing with
        | none => simp [delStep, openedDel, ho]
        | some o =>
          simp only [delStep, ho, openedDel, upd_apply, Option.some.injEq]
          by_cases e : x = o
          · simp [e]
          · have : ¬ o = x := fun h => e h.symm
            simp [e, this]

theorem deleteDisk_ks (s : State) (rm : List Removed) (p : Key × Key) :
    p ∈ (deleteDisk s rm).ks ↔ p ∈ s.ks ∧ ∀ r ∈ rm, (s.objs r.obj).outgoing ≠ some p.1 := by
  induction rm generalizing s with
  | nil => simp [deleteDisk]
  | cons r rest ih =>
    simp only [deleteDisk]
    rw [ih]
    simp only [List.mem_cons, forall_eq_or_imp]
    cases ho : (s.objs r.obj).outgoing with
    | none => simp [ksDelOpt]
    | some o =>
      simp only [ksDelOpt, mem_ksDel, ne_eq, Option.some.injEq]
      constructor
      · rintro ⟨⟨h1, h2⟩, h3⟩; exact ⟨h1, fun e => h2 e.symm, h3⟩
      · rintro ⟨h1, h2, h3⟩; exact ⟨⟨h1, fun e => h2 e.symm⟩, h3⟩

theorem wf_delete_ok (s : State) (keys : List Key) (h : WF s) :
    WF (deleteCircuits s keys false).1 := by
  simp only [deleteCircuits, Bool.not_false, if_true]
  have hfr := deleteMem_frame s keys
  have hd := deleteDisk_frame (deleteMem s keys).1 (deleteMem s keys).2
  have hrm := deleteMem_removed s keys
  have hcomp := deleteMem_removed_complete s keys
  have hpend := deleteMem_pending s keys
  have hclosed := deleteMem_closed s keys
  have hopen := deleteMem_opened_exact s keys
  have hks : ∀ p, p ∈ (deleteDisk (deleteMem s keys).1 (deleteMem s keys).2).ks ↔
      p ∈ s.ks ∧ ∀ r ∈ (deleteMem s keys).2, (s.objs r.obj).outgoing ≠ some p.1 := by
    intro p; rw [deleteDisk_ks, hfr.2.1, hfr.2.2.1]
  -- a surviving opened entry is not the keystone of a removed circuit
  have hsurv : ∀ x id, (deleteMem s keys).1.opened x = some id →
      s.opened x = some id ∧ ∀ r ∈ (deleteMem s keys).2, (s.objs r.obj).outgoing ≠ some x := by
    intro x id hx
    rw [hopen] at hx
    split at hx
    · cases hx
    · rename_i hn
      exact ⟨hx, fun r hr e => hn ⟨r, hr, e⟩⟩
  constructor
  · intro k id hk
    rw [hd.1, hpend] at hk; rw [hd.2.2.2.1, hfr.2.2.1]
    split at hk
    · cases hk
    · exact h.inKey k id hk
  · intro x id hx
    rw [hd.2.2.1] at hx
    obtain ⟨hx', hnr⟩ := hsurv x id hx
    obtain ⟨h1, h2⟩ := h.openedOk x id hx'
    rw [hd.2.2.2.1, hfr.2.2.1, hd.1, hpend]
    refine ⟨h1, ?_⟩
    split
    · rename_i hmem
      obtain ⟨r, hr, hkr⟩ := hcomp _ id hmem h2
      have := (hrm r hr).1
      rw [hkr, h2] at this; injection this with this
      exact absurd (this ▸ h1) (hnr r hr)
    · exact h2
  · intro k id o hk hout
    rw [hd.1, hpend] at hk
    rw [hd.2.2.2.1, hfr.2.2.1] at hout
    rw [hd.2.2.1, hopen]
    split at hk
    · cases hk
    · rename_i hnk
      have hf := h.filed k id o hk hout
      split
      · rename_i hex
        obtain ⟨r, hr, hro⟩ := hex
        obtain ⟨hr1, _, hr3⟩ := hrm r hr
        have h2 := h.filed r.key r.obj o hr1 hro
        rw [hf] at h2; injection h2 with h2
        have hk1 := h.inKey k id hk
        have hk2 := h.inKey r.key r.obj hr1
        rw [← h2, hk1] at hk2
        exact absurd (hk2 ▸ hr3) hnk
      · exact hf
  · intro k hk
    rw [hd.2.1, hclosed] at hk
    rw [hd.1, hpend]
    split at hk
    · cases hk
    · rename_i hn
      have hp := h.closedPending k hk
      have : k ∉ keys := fun hm => hn ⟨hm, hp⟩
      simp [this, hp]
  · intro x id hx
    rw [hd.2.2.1] at hx
    obtain ⟨hx', hnr⟩ := hsurv x id hx
    rw [hd.2.2.2.1, hfr.2.2.1, hks]
    exact ⟨h.durable x id hx', hnr⟩
  · intro k n hk
    rw [hd.1, hpend] at hk
    rw [hd.2.2.2.2, hfr.2.2.2]
    split at hk
    · cases hk
    · exact h.fresh k n hk
  · apply deleteDisk_ksFun; rw [hfr.2.1]; exact h.ksFun
  · intro o1 o2 k h1 h2
    exact h.ksInj o1 o2 k ((hks _).mp h1).1 ((hks _).mp h2).1

theorem wf_delete (s : State) (keys : List Key) (wf : Bool) (h : WF s) :
    WF (deleteCircuits s keys wf).1 := by
  cases wf with
  | false => exact wf_delete_ok s keys h
  | true =>
    have hfr := deleteMem_frame s keys
    have hb := deleteRollback_frame (deleteMem s keys).1 (deleteMem s keys).2
    obtain ⟨_, _, h2⟩ := delete_spec s keys true
    obtain ⟨hp, hc, _, hk, ho⟩ := h2 rfl
    have hrm := deleteMem_removed s keys
    have hop : ∀ x, (deleteCircuits s keys true).1.opened x = s.opened x := by
      simp only [deleteCircuits, Bool.not_true, Bool.false_eq_true, if_false]
      apply deleteRollback_opened s.opened s.objs
      · exact hfr.2.2.1
      · intro r hr o hout; exact h.filed r.key r.obj o (hrm r hr).1 hout
      · intro x; exact deleteMem_opened s keys x
    apply wf_of_agree s _ h hp hop hc hk
    · intro k; rw [ho]
    · intro n _; rw [ho]
    · simp only [deleteCircuits, Bool.not_true, Bool.false_eq_true, if_false]
      rw [hb.2.2.2, hfr.2.2.2]; exact Nat.le_refl _

/-! ### restart -/

theorem maxKey?_mem (l : List Key) (o : Key) (h : maxKey? l = some o) : o ∈ l := by
  induction l generalizing o with
  | nil => simp [maxKey?] at h
  | cons k rest ih =>
    simp only [maxKey?] at h
    cases hm : maxKey? rest with
    | none => rw [hm] at h; injection h with h; subst h; exact List.mem_cons_self
    | some m =>
      rw [hm] at h
      simp only at h
      split at h
      · injection h with h; subst h; exact List.mem_cons_of_mem _ (ih m hm)
      · injection h with h; subst h; exact List.mem_cons_self

theorem maxKey?_const (l : List Key) (o : Key) (hne : l ≠ []) (h : ∀ x ∈ l, x = o) :
    maxKey? l = some o := by
  induction l with
  | nil => exact absurd rfl hne
  | cons k rest ih =>
    have hk : k = o := h k List.mem_cons_self
    simp only [maxKey?]
    cases hm : maxKey? rest with
    | none => simp [hk]
    | some m =>
      have : m = o := h m (List.mem_cons_of_mem _ (maxKey?_mem rest m hm))
      simp only
      split <;> simp [hk, this]

theorem mem_restoredOut_list (ks : List (Key × Key)) (k o : Key) :
    o ∈ (ks.filter (fun p => decide (p.2 = k))).map (·.1) ↔ (o, k) ∈ ks := by
  simp only [List.mem_map, List.mem_filter, decide_eq_true_eq]
  constructor
  · rintro ⟨p, ⟨hp, hk⟩, ho⟩
    cases p; simp only at hk ho; subst hk; subst ho; exact hp
  · intro h; exact ⟨(o, k), ⟨h, rfl⟩, rfl⟩

theorem wf_restore (d : State) (hf : KsFun d.ks)
    (hi : ∀ o1 o2 k, (o1, k) ∈ d.ks → (o2, k) ∈ d.ks → o1 = o2) : WF (restore d) := by
  have hout : ∀ o k, (o, k) ∈ d.ks → restoredOut d.ks k = some o := by
    intro o k hm
    apply maxKey?_const
    · intro e
      have := (mem_restoredOut_list d.ks k o).mpr hm
      rw [e] at this; cases this
    · intro x hx
      exact hi x o k ((mem_restoredOut_list d.ks k x).mp hx) hm
  have hpend : ∀ k id, (restore d).pending k = some id → id = .disk k ∧ k ∈ d.adds := by
    intro k id hk
    simp only [restore, List.contains_eq_mem, decide_eq_true_eq] at hk
    split at hk
    · rename_i hm; injection hk with hk; exact ⟨hk.symm, hm⟩
    · cases hk
  constructor
  · intro k id hk
    obtain ⟨e, _⟩ := hpend k id hk
    subst e; simp [restore]
  · intro o id ho
    obtain ⟨k, e, hm, ha⟩ := (restore_opened d hf o id).mp ho
    subst e
    simp only [restore, hout o k hm, List.contains_eq_mem, decide_eq_true_eq, ha, if_true, and_self]
  · intro k id o hk hout'
    obtain ⟨e, ha⟩ := hpend k id hk
    subst e
    simp only [restore] at hout'
    have hm := (mem_restoredOut_list d.ks k o).mp (maxKey?_mem _ o hout')
    exact (restore_opened d hf o (.disk k)).mpr ⟨k, rfl, hm, ha⟩
  · intro k hk; simp [restore] at hk
  · intro o id ho
    obtain ⟨k, e, hm, ha⟩ := (restore_opened d hf o id).mp ho
    subst e
    rw [restore_ks]
    simp only [restore]
    exact ⟨hm, fun hh => hh.2 ha⟩
  · intro k n hk
    obtain ⟨e, _⟩ := hpend k _ hk
    cases e
  · exact restore_ksFun d hf
  · intro o1 o2 k h1 h2
    exact hi o1 o2 k ((restore_ks d _).mp h1).1 ((restore_ks d _).mp h2).1

theorem wf_trimAll (s : State) (l : List ActiveChan) (h : WF s) : WF (trimAll s l) := by
  induction l generalizing s with
  | nil => exact h
  | cons a rest ih =>
    simp only [trimAll]
    split
    · exact ih s h
    · exact ih _ (wf_trim s _ _ false h)

theorem cleanClosed_ks_sub (e : Env) (s : State) (p : Key × Key) :
    p ∈ (cleanClosed e s).ks → p ∈ s.ks := by
  unfold cleanClosed
  simp only []
  split
  · exact id
  · intro h; exact (List.mem_filter.mp h).1

/-- a restart re-establishes well-formedness from the disk alone. -/
theorem wf_restart (e : Env) (s : State) (hf : KsFun s.ks)
    (hi : ∀ o1 o2 k, (o1, k) ∈ s.ks → (o2, k) ∈ s.ks → o1 = o2) : WF (restart e s) := by
  unfold restart
  apply wf_trimAll
  apply wf_restore
  · exact cleanClosed_ksFun e s hf
  · intro o1 o2 k h1 h2
    exact hi o1 o2 k (cleanClosed_ks_sub e s _ h1) (cleanClosed_ks_sub e s _ h2)

/-! ### all operations -/

def OpPre (s : State) : Op → Prop
  | .open kst _ => OpenOk s kst
  | _ => True

theorem wf_step (s : State) (op : Op) (h : WF s) (hpre : OpPre s op) : WF (step s op).1 := by
  cases op with
  | commit b wf => exact wf_commit s b wf h
  | «open» kst wf => exact wf_open s kst wf h hpre
  | trim c st wf => exact wf_trim s c st wf h
  | close o => exact wf_close s o h
  | fail k => exact wf_fail s k h
  | delete keys wf => exact wf_delete s keys wf h
  | restart e => exact wf_restart e s h.ksFun h.ksInj

/-- every `OpenCircuits` call of the history respects the link discipline at the state it is
    issued in. -/
def Disciplined : State → List Op → Prop
  | _, [] => True
  | s, op :: rest => OpPre s op ∧ Disciplined (step s op).1 rest

theorem wf_run_from (s : State) (ops : List Op) (h : WF s) (hd : Disciplined s ops) :
    WF (run s ops) := by
  induction ops generalizing s with
  | nil => exact h
  | cons op rest ih => exact ih _ (wf_step s op h hd.1) hd.2

end LndModel.C07
