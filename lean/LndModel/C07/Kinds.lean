/-
C07 — channel kinds at the startup trim.

`trimAllOpenCircuits` reads three things from every `OpenChannel` returned by
`FetchAllOpenChannels`: `IsPending`, `ShortChanID()` and `NextLocalHtlcIndex()`.  The channel may be
a regular one, an option-scid-alias one, or a zero-conf one whose `ShortChanID()` stays the ALIAS
for the whole life of the channel (the confirmed id is only added as `ZeroConfRealScid()`).  Links —
and therefore all keystones — address a channel by `ShortChanID()`.  This file makes the id the trim
uses an explicit function of the channel, `trimKey`, so that "the trim and the links use the same
id" is a statement, and a trim by another id (e.g. the real scid of a confirmed zero-conf channel)
can be compared with it.

Tied to the code by the restart lines of all three harness streams: every active channel carries
its kind (and real scid), the `OpenChannel` fixtures are built accordingly, and the driver runs
`restartK trimKey`.
-/
import LndModel.C07.Fault

namespace LndModel.C07

inductive ChanKind where
  | regular
  | scidAlias
  | zeroConfUnconfirmed
  | zeroConfConfirmed (realScid : Nat)
deriving DecidableEq, Repr

/-- what the channel DB reports for an open channel. -/
structure KChan where
  /-- `OpenChannel.ShortChannelID` = `ShortChanID()`: the id links and keystones use -/
  scid : Nat
  kind : ChanKind
  isPending : Bool
  remoteIdx : Nat
  pendingIdx : Option Nat
deriving DecidableEq, Repr

/-- the id `trimAllOpenCircuits` passes to `TrimOpenCircuits`: `activeChannel.ShortChanID()`,
    whatever the kind. -/
def trimKey (c : KChan) : Nat := c.scid

/-- the id a "use the confirmed scid once there is one" variant would pass. -/
def realScidKey (c : KChan) : Nat :=
  match c.kind with
  | .zeroConfConfirmed r => r
  | _ => c.scid

def KChan.toActive (key : KChan → Nat) (c : KChan) : ActiveChan :=
  ⟨key c, c.isPending, c.remoteIdx, c.pendingIdx⟩

structure KEnv where
  closed : List ClosedChan
  chans : List KChan
  resMsg : List Key

def KEnv.toEnv (key : KChan → Nat) (e : KEnv) : Env :=
  ⟨e.closed, e.chans.map (KChan.toActive key), e.resMsg⟩

/-- `NewCircuitMap` on an existing DB when the trim addresses channels by `key`. -/
def restartK (key : KChan → Nat) (e : KEnv) (f : Option Nat) (s : State) : State × Bool :=
  restartF (e.toEnv key) f s

end LndModel.C07
