/-
C07 — persistence codecs of the circuit map (round 7).

Byte-level model of what `CommitCircuits` / `OpenCircuits` write into the two
bbolt buckets and of what `restoreMemState` reads back:

* `CircuitKey.Bytes` / `SetBytes` / `Encode` / `Decode` (graph/db/models/channel.go):
  8-byte big-endian ChanID ‖ 8-byte big-endian HtlcID; `SetBytes` insists on 16 bytes;
* `AddRef.Encode/Decode` (chanstate/forwarding.go): uint64 height ‖ uint16 index;
* `PaymentCircuit.Encode/Decode` (htlcswitch/circuit.go): AddRef ‖ Incoming ‖ PaymentHash(32)
  ‖ IncomingAmount(8) ‖ OutgoingAmount(8) ‖ EncrypterType(1) ‖ encrypter payload
  (nothing for `None` and for the test mock, the 33-byte compressed ephemeral key for the
  Sphinx / Introduction / Relaying encrypters);
* `circuitMap.decodeCircuit` = `Decode` + `ErrorEncrypter.Reextract`.

Bytes are `Nat`s (< 256 on everything the encoder produces).  `io.ReadFull` / `binary.Read`
are modelled with their two failure modes (`io.EOF` when nothing could be read,
`io.ErrUnexpectedEOF` on a short read); trailing bytes are ignored exactly as
`bytes.NewReader` + `Decode` ignore them.  Elliptic-curve point validation
(`btcec.ParsePubKey`) and the onion-key re-extraction are parameters (`vk`, `ex`).

Tied to the code by the `codec` stream of the harness
(harness/overlay/htlcswitch/zz_c07_codec_verif_test.go): every `Encode` output is compared
byte for byte, every `Decode` answer (fields or error kind) on well-formed, truncated,
extended and corrupted inputs, and the raw content of both buckets after every operation of
the persistence cases.
-/
import LndModel.C07.Model

namespace LndModel.C07

abbrev Bytes := List Nat

/-- `binary.BigEndian.PutUintN`: the `w` low-order bytes of `n`, most significant first. -/
def beEnc : Nat → Nat → Bytes
  | 0, _ => []
  | w + 1, n => (n / 256 ^ w) % 256 :: beEnc w n

/-- `binary.BigEndian.UintN`. -/
def beDec : Bytes → Nat
  | [] => 0
  | b :: r => b * 256 ^ r.length + beDec r

/-- `CircuitKey.Bytes()` (also what `CircuitKey.Encode` writes). -/
def keyBytes (k : Key) : Bytes := beEnc 8 k.chan ++ beEnc 8 k.id

inductive DecErr where
  | eof                       -- io.EOF
  | ueof                      -- io.ErrUnexpectedEOF
  | keyLen                    -- ErrInvalidCircuitKeyLen
  | unknownEncrypter (t : Nat)
  | badPoint                  -- btcec.ParsePubKey refused the ephemeral key
  | extract                   -- Reextract: the onion key could not be re-derived
deriving DecidableEq, Repr

/-- `io.ReadFull(r, buf[:n])` for `n > 0` on the remaining input. -/
def readN (n : Nat) (bs : Bytes) : Except DecErr (Bytes × Bytes) :=
  if bs.isEmpty then .error .eof
  else if bs.length < n then .error .ueof
  else .ok (bs.take n, bs.drop n)

/-- the 16 bytes of a key as a `CircuitKey`. -/
def keyOf (bs : Bytes) : Key := ⟨beDec (bs.take 8), beDec (bs.drop 8)⟩

/-- `CircuitKey.SetBytes`. -/
def setBytes (bs : Bytes) : Except DecErr Key :=
  if bs.length = 16 then .ok (keyOf bs) else .error .keyLen

/-- persisted part of an `hop.ErrorEncrypter`: type byte 1 Sphinx, 2 Mock, 3 Introduction,
    4 Relaying; `eph` = compressed ephemeral key (empty for the mock). -/
structure Enc where
  typ : Nat
  eph : Bytes
deriving DecidableEq, Repr

/-- the persisted fields of a `PaymentCircuit` (`Outgoing` and `LoadedFromDisk` are not
    persisted in the circuit record). -/
structure PCircuit where
  refHeight : Nat
  refIndex : Nat
  inKey : Key
  hash : Bytes
  inAmt : Nat
  outAmt : Nat
  enc : Option Enc
deriving DecidableEq, Repr

instance : Inhabited PCircuit := ⟨⟨0, 0, default, [], 0, 0, none⟩⟩

def sphinxLike (t : Nat) : Bool := t == 1 || t == 3 || t == 4

def encBytes : Option Enc → Bytes
  | none => [0]
  | some e => e.typ :: e.eph

/-- `PaymentCircuit.Encode`. -/
def encodeCircuit (c : PCircuit) : Bytes :=
  beEnc 8 c.refHeight ++ (beEnc 2 c.refIndex ++ (keyBytes c.inKey ++ (c.hash ++
    (beEnc 8 c.inAmt ++ (beEnc 8 c.outAmt ++ encBytes c.enc)))))

/-- the encrypter switch at the end of `PaymentCircuit.Decode`. -/
def decodeEnc (vk : Bytes → Bool) (t : Nat) (r : Bytes) : Except DecErr (Option Enc) :=
  if t = 0 then .ok none
  else if t = 2 then .ok (some ⟨2, []⟩)
  else if sphinxLike t then
    match readN 33 r with
    | .error e => .error e
    | .ok (e, _) => if vk e then .ok (some ⟨t, e⟩) else .error .badPoint
  else .error (.unknownEncrypter t)

/-- `PaymentCircuit.Decode` on `bytes.NewReader(bs)`. -/
def decodeCircuit (vk : Bytes → Bool) (bs : Bytes) : Except DecErr PCircuit :=
  match readN 8 bs with
  | .error e => .error e
  | .ok (h, r) =>
  match readN 2 r with
  | .error e => .error e
  | .ok (i, r) =>
  match readN 16 r with
  | .error e => .error e
  | .ok (k, r) =>
  match readN 32 r with
  | .error e => .error e
  | .ok (hash, r) =>
  match readN 8 r with
  | .error e => .error e
  | .ok (ia, r) =>
  match readN 8 r with
  | .error e => .error e
  | .ok (oa, r) =>
  match readN 1 r with
  | .error e => .error e
  | .ok (t, r) =>
  match decodeEnc vk (t.headD 0) r with
  | .error e => .error e
  | .ok enc => .ok ⟨beDec h, beDec i, keyOf k, hash, beDec ia, beDec oa, enc⟩

/-- `circuitMap.decodeCircuit`: `Decode`, then `Reextract` for circuits with an encrypter
    (the mock's `Reextract` always succeeds). -/
def decodeStored (vk ex : Bytes → Bool) (bs : Bytes) : Except DecErr PCircuit :=
  match decodeCircuit vk bs with
  | .error e => .error e
  | .ok c =>
    match c.enc with
    | none => .ok c
    | some e => if e.typ = 2 || ex e.eph then .ok c else .error .extract

/-- `bytes.Compare` on two keys: the order in which bbolt's `ForEach` visits a bucket. -/
def lexLt : Bytes → Bytes → Bool
  | [], [] => false
  | [], _ :: _ => true
  | _ :: _, [] => false
  | a :: x, b :: y => decide (a < b) || (decide (a = b) && lexLt x y)

/-- what a circuit must satisfy to be a Go value: fixed-width integers, a 32-byte hash, an
    encrypter of a known type whose ephemeral key is a valid compressed point. -/
structure PCircuit.Ok (vk : Bytes → Bool) (c : PCircuit) : Prop where
  height : c.refHeight < 2 ^ 64
  index : c.refIndex < 2 ^ 16
  chan : c.inKey.chan < 2 ^ 64
  id : c.inKey.id < 2 ^ 64
  hash : c.hash.length = 32
  inAmt : c.inAmt < 2 ^ 64
  outAmt : c.outAmt < 2 ^ 64
  enc : ∀ e, c.enc = some e →
    (e.typ = 2 ∧ e.eph = []) ∨ (sphinxLike e.typ = true ∧ e.eph.length = 33 ∧ vk e.eph = true)

end LndModel.C07
