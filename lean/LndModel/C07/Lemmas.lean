/-
C07 helper lemmas: frame/effect lemmas for every operation of the circuit-map
model (what each operation does to `pending`, `closed`, the two disk buckets).
-/
import LndModel.C07.Model

namespace LndModel.C07

/-! ### function update -/

@[simp] theorem upd_same {α β : Type} [DecidableEq α] (f : α → β) (a : α) (b : β) :
    upd f a b a = b := by simp [upd]

theorem upd_other {α β : Type} [DecidableEq α] (f : α → β) (a : α) (b : β) (x : α) (h : x ≠ a) :
    upd f a b x = f x := by simp [upd, h]

theorem upd_apply {α β : Type} [DecidableEq α] (f : α → β) (a : α) (b : β) (x : α) :
    upd f a b x = if x = a then b else f x := rfl

/-! ### disk buckets -/

theorem mem_addsPut (l : List Key) (k x : Key) : x ∈ addsPut l k ↔ x ∈ l ∨ x = k := by
  unfold addsPut
  split
  · constructor
    · intro h; exact Or.inl h
    · intro h; cases h with
      | inl h => exact h
      | inr h => subst h; assumption
  · simp

theorem mem_foldl_addsPut (l acc : List Key) (x : Key) :
    x ∈ l.foldl addsPut acc ↔ x ∈ acc ∨ x ∈ l := by
  induction l generalizing acc with
  | nil => simp
  | cons k rest ih =>
    simp only [List.foldl_cons, ih, mem_addsPut, List.mem_cons]
    constructor
    · rintro ((h | h) | h)
      · exact Or.inl h
      · exact Or.inr (Or.inl h)
      · exact Or.inr (Or.inr h)
    · rintro (h | h | h)
      · exact Or.inl (Or.inl h)
      · exact Or.inl (Or.inr h)
      · exact Or.inr h

theorem mem_addsDel (l : List Key) (k x : Key) : x ∈ addsDel l k ↔ x ∈ l ∧ x ≠ k := by
  simp [addsDel]

theorem mem_ksDel (l : List (Key × Key)) (o : Key) (p : Key × Key) :
    p ∈ ksDel l o ↔ p ∈ l ∧ p.1 ≠ o := by
  simp [ksDel]

/-! ### CommitCircuits -/

theorem decide1_add_iff (s : State) (k : Key) : decide1 s k = .add ↔ s.pending k = none := by
  unfold decide1
  cases h : s.pending k with
  | none => simp
  | some id =>
    simp only [reduceCtorEq, iff_false]
    split
    · simp
    · split <;> simp

@[simp] theorem alloc_opened (s : State) (k : Key) : (alloc s k).opened = s.opened := rfl
@[simp] theorem alloc_closed (s : State) (k : Key) : (alloc s k).closed = s.closed := rfl
@[simp] theorem alloc_adds (s : State) (k : Key) : (alloc s k).adds = s.adds := rfl
@[simp] theorem alloc_ks (s : State) (k : Key) : (alloc s k).ks = s.ks := rfl
@[simp] theorem alloc_next (s : State) (k : Key) : (alloc s k).next = s.next + 1 := rfl
theorem alloc_pending (s : State) (k x : Key) :
    (alloc s k).pending x = if x = k then some (.fresh s.next) else s.pending x := rfl

/-- keys added by the memory loop. -/
def addsOf (s : State) (b : List Key) : List Key := pick (commitLoop s b).2 (· == .add)

theorem commitLoop_frame (s : State) (b : List Key) :
    (commitLoop s b).1.opened = s.opened ∧ (commitLoop s b).1.closed = s.closed ∧
    (commitLoop s b).1.adds = s.adds ∧ (commitLoop s b).1.ks = s.ks := by
  induction b generalizing s with
  | nil => simp [commitLoop]
  | cons k rest ih =>
    simp only [commitLoop]
    split
    · have := ih (alloc s k); simpa using this
    · exact ih s

theorem addsOf_cons (s : State) (k : Key) (rest : List Key) :
    addsOf s (k :: rest) =
      if s.pending k = none then k :: addsOf (alloc s k) rest else addsOf s rest := by
  unfold addsOf
  simp only [commitLoop, pick]
  by_cases h : s.pending k = none
  · have hd : decide1 s k = .add := (decide1_add_iff s k).2 h
    simp [hd, h]
  · have hd : decide1 s k ≠ .add := fun hh => h ((decide1_add_iff s k).1 hh)
    simp [hd, h]

theorem commitLoop_fst_cons (s : State) (k : Key) (rest : List Key) :
    (commitLoop s (k :: rest)).1 =
      if s.pending k = none then (commitLoop (alloc s k) rest).1 else (commitLoop s rest).1 := by
  simp only [commitLoop]
  by_cases h : s.pending k = none
  · have hd : decide1 s k = .add := (decide1_add_iff s k).2 h
    simp [hd, h]
  · have hd : decide1 s k ≠ .add := fun hh => h ((decide1_add_iff s k).1 hh)
    simp [hd, h]

/-- pending after the loop: old entries are kept (same object), added keys become pending. -/
theorem commitLoop_pending (s : State) (b : List Key) (x : Key) :
    ((commitLoop s b).1.pending x).isSome = ((s.pending x).isSome || decide (x ∈ addsOf s b)) ∧
    (∀ id, s.pending x = some id → (commitLoop s b).1.pending x = some id) ∧
    (x ∉ addsOf s b → (commitLoop s b).1.pending x = s.pending x) := by
  induction b generalizing s with
  | nil => simp [commitLoop, addsOf, pick]
  | cons k rest ih =>
    rw [commitLoop_fst_cons, addsOf_cons]
    by_cases h : s.pending k = none
    · simp only [h, if_true]
      have := ih (alloc s k)
      obtain ⟨h1, h2, h3⟩ := this
      refine ⟨?_, ?_, ?_⟩
      · rw [h1, alloc_pending]
        by_cases hx : x = k
        · subst hx; simp
        · simp [hx]
      · intro id hid
        apply h2
        rw [alloc_pending]
        have : x ≠ k := by intro hx; subst hx; rw [h] at hid; cases hid
        simp [this, hid]
      · intro hx
        have hxk : x ≠ k := by intro e; apply hx; subst e; simp
        have hx' : x ∉ addsOf (alloc s k) rest := by intro e; apply hx; simp [e]
        rw [h3 hx', alloc_pending]; simp [hxk]
    · simp only [h, if_false]
      exact ih s

theorem addsOf_fresh (s : State) (b : List Key) : ∀ x ∈ addsOf s b, s.pending x = none := by
  induction b generalizing s with
  | nil => simp [addsOf, commitLoop, pick]
  | cons k rest ih =>
    intro x hx
    rw [addsOf_cons] at hx
    by_cases h : s.pending k = none
    · simp only [h, if_true, List.mem_cons] at hx
      cases hx with
      | inl e => subst e; exact h
      | inr hx =>
        have := ih (alloc s k) x hx
        rw [alloc_pending] at this
        by_cases e : x = k
        · subst e; exact h
        · simpa [e] using this
    · simp only [h, if_false] at hx
      exact ih s x hx

theorem addsOf_nodup (s : State) (b : List Key) : (addsOf s b).Nodup := by
  induction b generalizing s with
  | nil => simp [addsOf, commitLoop, pick]
  | cons k rest ih =>
    rw [addsOf_cons]
    by_cases h : s.pending k = none
    · simp only [h, if_true, List.nodup_cons]
      refine ⟨?_, ih _⟩
      intro hk
      have := addsOf_fresh (alloc s k) rest k hk
      rw [alloc_pending] at this
      simp at this
    · simp only [h, if_false]; exact ih s

theorem unpend_apply (p : Key → Option ObjId) (l : List Key) (x : Key) :
    unpend p l x = if x ∈ l then none else p x := by
  induction l generalizing p with
  | nil => simp [unpend]
  | cons k rest ih =>
    simp only [unpend, ih, List.mem_cons, upd_apply]
    by_cases h1 : x ∈ rest
    · simp [h1]
    · by_cases h2 : x = k <;> simp [h1, h2]

theorem commit_eq (s : State) (b : List Key) (wf : Bool) :
    commit s b wf =
      if (addsOf s b).isEmpty then
        ((commitLoop s b).1, ⟨[], pick (commitLoop s b).2 (· == .drop), pick (commitLoop s b).2 (· == .fail), false⟩)
      else if !wf then
        ({ (commitLoop s b).1 with adds := (addsOf s b).foldl addsPut (commitLoop s b).1.adds },
          ⟨addsOf s b, pick (commitLoop s b).2 (· == .drop), pick (commitLoop s b).2 (· == .fail), false⟩)
      else
        ({ (commitLoop s b).1 with pending := unpend (commitLoop s b).1.pending (addsOf s b) },
          ⟨[], pick (commitLoop s b).2 (· == .drop), pick (commitLoop s b).2 (· != .drop), true⟩) := rfl

/-- everything the invariants need to know about `CommitCircuits`. -/
theorem commit_spec (s : State) (b : List Key) (wf : Bool) :
    (commit s b wf).2.adds.Nodup ∧
    (∀ x ∈ (commit s b wf).2.adds, s.pending x = none) ∧
    (∀ x, ((commit s b wf).1.pending x).isSome = ((s.pending x).isSome || decide (x ∈ (commit s b wf).2.adds))) ∧
    (∀ x id, s.pending x = some id → (commit s b wf).1.pending x = some id) ∧
    (∀ x, x ∈ (commit s b wf).1.adds ↔ x ∈ s.adds ∨ x ∈ (commit s b wf).2.adds) ∧
    (commit s b wf).1.closed = s.closed ∧ (commit s b wf).1.opened = s.opened ∧
    (commit s b wf).1.ks = s.ks ∧
    ((commit s b wf).2.err = true → (commit s b wf).2.adds = [] ∧ wf = true) := by
  have hfr := commitLoop_frame s b
  have hp := commitLoop_pending s b
  have hnd := addsOf_nodup s b
  have hfresh := addsOf_fresh s b
  rw [commit_eq]
  by_cases he : (addsOf s b).isEmpty
  · rw [if_pos he]
    have he' : addsOf s b = [] := List.isEmpty_iff.mp he
    refine ⟨by simp, by simp, ?_, ?_, ?_, hfr.2.1, hfr.1, hfr.2.2.2, by simp⟩
    · intro x; have := (hp x).1; rw [he'] at this; simpa using this
    · intro x id h; exact (hp x).2.1 id h
    · intro x; simp [hfr.2.2.1]
  · rw [if_neg he]
    cases wf with
    | false =>
      simp only [Bool.not_false, if_true]
      refine ⟨hnd, hfresh, ?_, ?_, ?_, hfr.2.1, hfr.1, hfr.2.2.2, by simp⟩
      · intro x; exact (hp x).1
      · intro x id h; exact (hp x).2.1 id h
      · intro x
        simp only [mem_foldl_addsPut, hfr.2.2.1]
    | true =>
      simp only [Bool.not_true, Bool.false_eq_true, if_false]
      refine ⟨by simp, by simp, ?_, ?_, ?_, hfr.2.1, hfr.1, hfr.2.2.2, by simp⟩
      · intro x
        simp only [unpend_apply, List.not_mem_nil, decide_false, Bool.or_false]
        by_cases hx : x ∈ addsOf s b
        · simp [hx, hfresh x hx]
        · simp [hx, (hp x).2.2 hx]
      · intro x id h
        simp only [unpend_apply]
        have hx : x ∉ addsOf s b := by
          intro hx; rw [hfresh x hx] at h; cases h
        simp [hx, (hp x).2.1 id h]
      · intro x; simp [hfr.2.2.1]

/-! ### OpenCircuits -/

theorem openMem_frame (s : State) (kst : List (Key × Key)) :
    (openMem s kst).pending = s.pending ∧ (openMem s kst).closed = s.closed ∧
    (openMem s kst).adds = s.adds ∧ (openMem s kst).ks = s.ks ∧ (openMem s kst).next = s.next := by
  induction kst generalizing s with
  | nil => simp [openMem]
  | cons p rest ih =>
    obtain ⟨i, o⟩ := p
    simp only [openMem]
    split
    · exact ih s
    · exact ⟨(ih _).1, (ih _).2.1, (ih _).2.2.1, (ih _).2.2.2.1, (ih _).2.2.2.2⟩

theorem open_frame (s : State) (kst : List (Key × Key)) (wf : Bool) :
    (openCircuits s kst wf).1.pending = s.pending ∧ (openCircuits s kst wf).1.closed = s.closed ∧
    (openCircuits s kst wf).1.adds = s.adds := by
  unfold openCircuits
  split
  · simp
  · split
    · simp
    · split
      · simp
      · have := openMem_frame { s with ks := ksPutAll s.ks kst } kst
        exact ⟨this.1, this.2.1, this.2.2.1⟩

/-! ### TrimOpenCircuits -/

theorem trimRun_none (c f i : Nat) (s : State) (h : s.opened ⟨c, i⟩ = none) :
    trimRun c (f + 1) i s = (s, []) := by
  simp only [trimRun, h]

theorem trimRun_some (c f i : Nat) (s : State) (id : ObjId) (h : s.opened ⟨c, i⟩ = some id) :
    trimRun c (f + 1) i s =
      ((trimRun c f (i + 1) (trimStep s ⟨c, i⟩ id)).1,
        ⟨c, i⟩ :: (trimRun c f (i + 1) (trimStep s ⟨c, i⟩ id)).2) := by
  simp only [trimRun, h]

theorem trimRun_frame (c : Nat) (fuel i : Nat) (s : State) :
    (trimRun c fuel i s).1.pending = s.pending ∧ (trimRun c fuel i s).1.closed = s.closed ∧
    (trimRun c fuel i s).1.adds = s.adds ∧ (trimRun c fuel i s).1.ks = s.ks ∧
    (trimRun c fuel i s).1.next = s.next := by
  induction fuel generalizing i s with
  | zero => simp [trimRun]
  | succ f ih =>
    cases ho : s.opened ⟨c, i⟩ with
    | none => rw [trimRun_none c f i s ho]; simp
    | some id =>
      rw [trimRun_some c f i s id ho]
      exact ih (i + 1) (trimStep s ⟨c, i⟩ id)

theorem trim_eq (s : State) (c start : Nat) (wf : Bool) :
    trim s c start wf =
      if (trimRun c (trimFuel start) start s).2.isEmpty then ((trimRun c (trimFuel start) start s).1, false)
      else if wf then ((trimRun c (trimFuel start) start s).1, true)
      else ({ (trimRun c (trimFuel start) start s).1 with
                ks := (trimRun c (trimFuel start) start s).1.ks.filter
                        (fun p => !((trimRun c (trimFuel start) start s).2.contains p.1)) }, false) := rfl

theorem trim_frame (s : State) (c start : Nat) (wf : Bool) :
    (trim s c start wf).1.pending = s.pending ∧ (trim s c start wf).1.closed = s.closed ∧
    (trim s c start wf).1.adds = s.adds := by
  have h := trimRun_frame c (trimFuel start) start s
  rw [trim_eq]
  split
  · exact ⟨h.1, h.2.1, h.2.2.1⟩
  · split
    · exact ⟨h.1, h.2.1, h.2.2.1⟩
    · exact ⟨h.1, h.2.1, h.2.2.1⟩

/-! ### CloseCircuit / FailCircuit -/

theorem fail_spec (s : State) (k : Key) :
    (failCircuit s k).1.pending = s.pending ∧ (failCircuit s k).1.adds = s.adds ∧
    (failCircuit s k).1.opened = s.opened ∧ (failCircuit s k).1.ks = s.ks ∧
    (failCircuit s k).1.objs = s.objs ∧
    (match (failCircuit s k).2 with
     | .ok i => i = k ∧ s.closed i = false ∧ (s.pending k).isSome ∧
                (failCircuit s k).1.closed = upd s.closed i true
     | _ => (failCircuit s k).1.closed = s.closed) := by
  unfold failCircuit
  cases h : s.pending k with
  | none => simp
  | some id =>
    simp only
    by_cases hc : s.closed k = true
    · simp [hc]
    · simp [hc]

theorem close_spec (s : State) (o : Key) :
    (closeCircuit s o).1.pending = s.pending ∧ (closeCircuit s o).1.adds = s.adds ∧
    (closeCircuit s o).1.opened = s.opened ∧ (closeCircuit s o).1.ks = s.ks ∧
    (closeCircuit s o).1.objs = s.objs ∧
    (match (closeCircuit s o).2 with
     | .ok i => s.closed i = false ∧ (∃ id, s.opened o = some id ∧ (s.objs id).inKey = i) ∧
                (closeCircuit s o).1.closed = upd s.closed i true
     | _ => (closeCircuit s o).1.closed = s.closed) := by
  unfold closeCircuit
  cases h : s.opened o with
  | none => simp
  | some id =>
    simp only
    by_cases hc : s.closed (s.objs id).inKey = true
    · simp [hc]
    · simp [hc]

/-! ### DeleteCircuits -/

theorem deleteMem_none (s : State) (k : Key) (rest : List Key) (h : s.pending k = none) :
    deleteMem s (k :: rest) = deleteMem s rest := by
  simp only [deleteMem, h]

theorem deleteMem_some (s : State) (k : Key) (rest : List Key) (id : ObjId)
    (h : s.pending k = some id) :
    deleteMem s (k :: rest) =
      ((deleteMem (delStep s k id) rest).1, ⟨k, id, s.closed k⟩ :: (deleteMem (delStep s k id) rest).2) := by
  simp only [deleteMem, h]

theorem deleteMem_frame (s : State) (keys : List Key) :
    (deleteMem s keys).1.adds = s.adds ∧ (deleteMem s keys).1.ks = s.ks ∧
    (deleteMem s keys).1.objs = s.objs ∧ (deleteMem s keys).1.next = s.next := by
  induction keys generalizing s with
  | nil => simp [deleteMem]
  | cons k rest ih =>
    simp only [deleteMem, delStep]
    split
    · exact ih s
    · exact ⟨(ih _).1, (ih _).2.1, (ih _).2.2.1, (ih _).2.2.2⟩

theorem deleteMem_pending (s : State) (keys : List Key) (x : Key) :
    (deleteMem s keys).1.pending x = if x ∈ keys then none else s.pending x := by
  induction keys generalizing s with
  | nil => simp [deleteMem]
  | cons k rest ih =>
    simp only [deleteMem, delStep]
    split
    · rename_i hk
      rw [ih s]
      by_cases h1 : x ∈ rest
      · simp [h1]
      · by_cases h2 : x = k
        · subst h2; simp [h1, hk]
        · simp [h1, h2]
    · rw [ih]
      simp only [upd_apply, List.mem_cons]
      by_cases h1 : x ∈ rest
      · simp [h1]
      · by_cases h2 : x = k <;> simp [h1, h2]

theorem deleteMem_closed (s : State) (keys : List Key) (x : Key) :
    (deleteMem s keys).1.closed x =
      if x ∈ keys ∧ (s.pending x).isSome then false else s.closed x := by
  induction keys generalizing s with
  | nil => simp [deleteMem]
  | cons k rest ih =>
    simp only [deleteMem, delStep]
    split
    · rename_i hk
      rw [ih s]
      by_cases h2 : x = k
      · subst h2; simp [hk]
      · simp [h2]
    · rename_i id hk
      rw [ih]
      simp only [upd_apply, List.mem_cons]
      by_cases h2 : x = k
      · subst h2; simp [hk]
      · simp [h2]

/-- every removed entry records the original object and the original closing flag. -/
theorem deleteMem_removed (s : State) (keys : List Key) :
    ∀ r ∈ (deleteMem s keys).2,
      s.pending r.key = some r.obj ∧ r.wasClosing = s.closed r.key ∧ r.key ∈ keys := by
  induction keys generalizing s with
  | nil => simp [deleteMem]
  | cons k rest ih =>
    intro r hr
    simp only [deleteMem, delStep] at hr
    split at hr
    · have := ih s r hr
      exact ⟨this.1, this.2.1, List.mem_cons_of_mem _ this.2.2⟩
    · rename_i id hk
      simp only [List.mem_cons] at hr
      cases hr with
      | inl e => subst e; simp [hk]
      | inr hr =>
        have := ih _ r hr
        obtain ⟨h1, h2, h3⟩ := this
        simp only [upd_apply] at h1 h2
        have hne : r.key ≠ k := by
          intro e; rw [e] at h1; simp at h1
        simp only [hne, if_false] at h1 h2
        exact ⟨h1, h2, List.mem_cons_of_mem _ h3⟩

theorem deleteMem_removed_complete (s : State) (keys : List Key) (x : Key) (id : ObjId)
    (hx : x ∈ keys) (hp : s.pending x = some id) : ∃ r ∈ (deleteMem s keys).2, r.key = x := by
  induction keys generalizing s with
  | nil => cases hx
  | cons k rest ih =>
    simp only [deleteMem, delStep]
    split
    · rename_i hk
      have : x ≠ k := by intro e; subst e; rw [hk] at hp; cases hp
      have hx' : x ∈ rest := by
        cases hx with
        | head => exact absurd rfl this
        | tail _ h => exact h
      exact ih s hx' hp
    · rename_i id' hk
      by_cases e : x = k
      · subst e; exact ⟨_, List.mem_cons_self, rfl⟩
      · have hx' : x ∈ rest := by
          cases hx with
          | head => exact absurd rfl e
          | tail _ h => exact h
        have := ih (delStep s k id') hx' (by simp [delStep, upd_apply, e, hp])
        obtain ⟨r, hr, hk'⟩ := this
        exact ⟨r, List.mem_cons_of_mem _ hr, hk'⟩

theorem deleteDisk_frame (s : State) (rm : List Removed) :
    (deleteDisk s rm).pending = s.pending ∧ (deleteDisk s rm).closed = s.closed ∧
    (deleteDisk s rm).opened = s.opened ∧ (deleteDisk s rm).objs = s.objs ∧
    (deleteDisk s rm).next = s.next := by
  induction rm generalizing s with
  | nil => simp [deleteDisk]
  | cons r rest ih =>
    simp only [deleteDisk]
    exact ⟨(ih _).1, (ih _).2.1, (ih _).2.2.1, (ih _).2.2.2.1, (ih _).2.2.2.2⟩

theorem deleteDisk_adds (s : State) (rm : List Removed) (x : Key) :
    x ∈ (deleteDisk s rm).adds ↔ x ∈ s.adds ∧ ∀ r ∈ rm, r.key ≠ x := by
  induction rm generalizing s with
  | nil => simp [deleteDisk]
  | cons r rest ih =>
    simp only [deleteDisk]
    rw [ih]
    simp only [mem_addsDel, List.mem_cons, forall_eq_or_imp]
    constructor
    · rintro ⟨⟨h1, h2⟩, h3⟩; exact ⟨h1, fun e => h2 e.symm, h3⟩
    · rintro ⟨h1, h2, h3⟩; exact ⟨⟨h1, fun e => h2 e.symm⟩, h3⟩

theorem deleteRollback_frame (s : State) (rm : List Removed) :
    (deleteRollback s rm).adds = s.adds ∧ (deleteRollback s rm).ks = s.ks ∧
    (deleteRollback s rm).objs = s.objs ∧ (deleteRollback s rm).next = s.next := by
  induction rm generalizing s with
  | nil => simp [deleteRollback]
  | cons r rest ih =>
    simp only [deleteRollback]
    exact ⟨(ih _).1, (ih _).2.1, (ih _).2.2.1, (ih _).2.2.2⟩

/-- rolling back re-installs any target `g` that agrees with the recorded objects. -/
theorem deleteRollback_pending (g : Key → Option ObjId) (s : State) (rm : List Removed)
    (h1 : ∀ r ∈ rm, g r.key = some r.obj)
    (h2 : ∀ x, s.pending x = g x ∨ ∃ r ∈ rm, r.key = x) :
    ∀ x, (deleteRollback s rm).pending x = g x := by
  induction rm generalizing s with
  | nil =>
    intro x
    cases h2 x with
    | inl h => simpa [deleteRollback] using h
    | inr h => obtain ⟨r, hr, _⟩ := h; cases hr
  | cons r rest ih =>
    simp only [deleteRollback]
    apply ih
    · intro r' hr'; exact h1 r' (List.mem_cons_of_mem _ hr')
    · intro x
      simp only [upd_apply]
      by_cases e : x = r.key
      · left; simp [e, h1 r List.mem_cons_self]
      · simp only [e, if_false]
        cases h2 x with
        | inl h => exact Or.inl h
        | inr h =>
          obtain ⟨r', hr', hk⟩ := h
          cases hr' with
          | head => exact absurd hk.symm e
          | tail _ hr'' => exact Or.inr ⟨r', hr'', hk⟩

theorem deleteRollback_closed (g : Key → Bool) (s : State) (rm : List Removed)
    (h1 : ∀ r ∈ rm, r.wasClosing = g r.key)
    (h2 : ∀ x, s.closed x = g x ∨ (s.closed x = false ∧ ∃ r ∈ rm, r.key = x)) :
    ∀ x, (deleteRollback s rm).closed x = g x := by
  induction rm generalizing s with
  | nil =>
    intro x
    cases h2 x with
    | inl h => simpa [deleteRollback] using h
    | inr h => obtain ⟨_, r, hr, _⟩ := h; cases hr
  | cons r rest ih =>
    simp only [deleteRollback]
    apply ih
    · intro r' hr'; exact h1 r' (List.mem_cons_of_mem _ hr')
    · intro x
      have hr := h1 r List.mem_cons_self
      by_cases e : x = r.key
      · subst e
        left
        cases hw : r.wasClosing with
        | true => simp [← hr, hw]
        | false =>
          simp only [Bool.false_eq_true, if_false]
          cases h2 r.key with
          | inl h => exact h
          | inr h => rw [h.1, ← hr, hw]
      · have hx : (if r.wasClosing = true then upd s.closed r.key true else s.closed) x = s.closed x := by
          split
          · simp [upd_apply, e]
          · rfl
        simp only [hx]
        cases h2 x with
        | inl h => exact Or.inl h
        | inr h =>
          obtain ⟨hc, r', hr', hk⟩ := h
          cases hr' with
          | head => exact absurd hk.symm e
          | tail _ hr'' => exact Or.inr ⟨hc, r', hr'', hk⟩

/-- everything the invariants need to know about `DeleteCircuits`. -/
theorem delete_spec (s : State) (keys : List Key) (wf : Bool) :
    (deleteCircuits s keys wf).2 = wf ∧
    (wf = false →
      (∀ x, (deleteCircuits s keys wf).1.pending x = if x ∈ keys then none else s.pending x) ∧
      (∀ x, (deleteCircuits s keys wf).1.closed x =
              if x ∈ keys ∧ (s.pending x).isSome then false else s.closed x) ∧
      (∀ x, x ∈ (deleteCircuits s keys wf).1.adds ↔ x ∈ s.adds ∧ ¬(x ∈ keys ∧ (s.pending x).isSome))) ∧
    (wf = true →
      (∀ x, (deleteCircuits s keys wf).1.pending x = s.pending x) ∧
      (∀ x, (deleteCircuits s keys wf).1.closed x = s.closed x) ∧
      (deleteCircuits s keys wf).1.adds = s.adds ∧ (deleteCircuits s keys wf).1.ks = s.ks ∧
      (deleteCircuits s keys wf).1.objs = s.objs) := by
  have hfr := deleteMem_frame s keys
  have hrm := deleteMem_removed s keys
  cases wf with
  | false =>
    refine ⟨rfl, fun _ => ?_, fun h => (by cases h)⟩
    simp only [deleteCircuits, Bool.not_false, if_true]
    have hd := deleteDisk_frame (deleteMem s keys).1 (deleteMem s keys).2
    refine ⟨?_, ?_, ?_⟩
    · intro x; rw [hd.1]; exact deleteMem_pending s keys x
    · intro x; rw [hd.2.1]; exact deleteMem_closed s keys x
    · intro x
      rw [deleteDisk_adds, hfr.1]
      constructor
      · rintro ⟨h1, h2⟩
        refine ⟨h1, ?_⟩
        rintro ⟨hk, hp⟩
        obtain ⟨id, hid⟩ := Option.isSome_iff_exists.mp hp
        obtain ⟨r, hr, hk'⟩ := deleteMem_removed_complete s keys x id hk hid
        exact h2 r hr hk'
      · rintro ⟨h1, h2⟩
        refine ⟨h1, ?_⟩
        intro r hr e
        have := hrm r hr
        apply h2
        subst e
        exact ⟨this.2.2, by simp [this.1]⟩
  | true =>
    refine ⟨rfl, fun h => (by cases h), fun _ => ?_⟩
    simp only [deleteCircuits, Bool.not_true, Bool.false_eq_true, if_false]
    have hb := deleteRollback_frame (deleteMem s keys).1 (deleteMem s keys).2
    refine ⟨?_, ?_, ?_, ?_, ?_⟩
    · apply deleteRollback_pending s.pending
      · intro r hr; exact (hrm r hr).1
      · intro x
        rw [deleteMem_pending]
        by_cases hk : x ∈ keys
        · cases hp : s.pending x with
          | none => left; simp [hk]
          | some id =>
            right
            exact deleteMem_removed_complete s keys x id hk hp
        · left; simp [hk]
    · apply deleteRollback_closed s.closed
      · intro r hr; exact (hrm r hr).2.1
      · intro x
        rw [deleteMem_closed]
        by_cases hk : x ∈ keys ∧ (s.pending x).isSome
        · right
          obtain ⟨hk1, hk2⟩ := hk
          obtain ⟨id, hid⟩ := Option.isSome_iff_exists.mp hk2
          refine ⟨by simp [hk1, hk2], ?_⟩
          exact deleteMem_removed_complete s keys x id hk1 hid
        · left; simp [hk]
    · rw [hb.1, hfr.1]
    · rw [hb.2.1, hfr.2.1]
    · rw [hb.2.2.1, hfr.2.2.1]

/-! ### restart -/

theorem trimAll_frame (s : State) (l : List ActiveChan) :
    (trimAll s l).pending = s.pending ∧ (trimAll s l).closed = s.closed ∧
    (trimAll s l).adds = s.adds := by
  induction l generalizing s with
  | nil => simp [trimAll]
  | cons a rest ih =>
    simp only [trimAll]
    split
    · exact ih s
    · have h := trim_frame s a.chan (nextLocalHtlcIndex a) false
      have := ih (trim s a.chan (nextLocalHtlcIndex a) false).1
      exact ⟨this.1.trans h.1, this.2.1.trans h.2.1, this.2.2.trans h.2.2⟩

theorem cleanClosed_frame (e : Env) (s : State) :
    (cleanClosed e s).pending = s.pending ∧ (cleanClosed e s).closed = s.closed ∧
    (cleanClosed e s).opened = s.opened ∧ (cleanClosed e s).objs = s.objs := by
  unfold cleanClosed
  simp only []
  split <;> simp

theorem restart_pending (e : Env) (s : State) (x : Key) :
    (restart e s).pending x = if x ∈ (cleanClosed e s).adds then some (.disk x) else none := by
  unfold restart
  rw [(trimAll_frame _ _).1]
  simp [restore]

theorem restart_closed (e : Env) (s : State) (x : Key) : (restart e s).closed x = false := by
  unfold restart
  rw [(trimAll_frame _ _).2.1]
  simp [restore]

theorem restart_adds (e : Env) (s : State) : (restart e s).adds = (cleanClosed e s).adds := by
  unfold restart
  rw [(trimAll_frame _ _).2.2]
  simp [restore]

theorem cleanClosed_adds_sub (e : Env) (s : State) (x : Key) :
    x ∈ (cleanClosed e s).adds → x ∈ s.adds := by
  unfold cleanClosed
  simp only []
  split
  · exact id
  · intro h; exact (List.mem_filter.mp h).1

end LndModel.C07
