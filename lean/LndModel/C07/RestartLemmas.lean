/-
C07 — restart level, helper lemmas: the inductive invariant `SInv` of the system model
(`Restart.lean`) and its preservation by every operation.
-/
import LndModel.C07.Restart
import LndModel.C07.Hist

namespace LndModel.C07

/-! ### small list facts -/

theorem popFirst_spec {α : Type} (p : α → Bool) (l : List α) (x : α) (rest : List α)
    (h : popFirst p l = some (x, rest)) : p x = true ∧ List.Perm l (x :: rest) := by
  induction l generalizing x rest with
  | nil => simp [popFirst] at h
  | cons y ys ih =>
    simp only [popFirst] at h
    by_cases hy : p y = true
    · simp only [hy, if_true, Option.some.injEq, Prod.mk.injEq] at h
      obtain ⟨h1, h2⟩ := h
      subst h1; subst h2
      exact ⟨hy, List.Perm.refl _⟩
    · simp only [hy, Bool.false_eq_true, if_false] at h
      cases hr : popFirst p ys with
      | none => rw [hr] at h; cases h
      | some q =>
        obtain ⟨z, rest'⟩ := q
        rw [hr] at h
        simp only [Option.some.injEq, Prod.mk.injEq] at h
        obtain ⟨h1, h2⟩ := h
        subst h1; subst h2
        obtain ⟨hp, hperm⟩ := ih z rest' hr
        refine ⟨hp, ?_⟩
        exact (List.Perm.cons y hperm).trans (List.Perm.swap z y rest')

theorem nodup_map_inj {α β : Type} (f : α → β) (l : List α) (h : (l.map f).Nodup) (a b : α)
    (ha : a ∈ l) (hb : b ∈ l) (e : f a = f b) : a = b := by
  induction l with
  | nil => cases ha
  | cons x xs ih =>
    rw [List.map_cons, List.nodup_cons] at h
    cases ha with
    | head =>
      cases hb with
      | head => rfl
      | tail _ hb => exact absurd (List.mem_map.mpr ⟨b, hb, e.symm⟩) h.1
    | tail _ ha =>
      cases hb with
      | head => exact absurd (List.mem_map.mpr ⟨a, ha, e⟩) h.1
      | tail _ hb => exact ih h.2 ha hb

theorem mkEnts_out (c h : Nat) (i : Nat) (l : List (Key × Bool)) :
    (mkEnts c h i l).map (·.out) = l.map (·.1) := by
  induction l generalizing i with
  | nil => rfl
  | cons p rest ih =>
    obtain ⟨o, s⟩ := p
    simp [mkEnts, ih]

theorem ackRefs_out (ents : List FEnt) (refs : List Ref) :
    (ackRefs ents refs).map (·.out) = ents.map (·.out) := by
  simp only [ackRefs, List.map_map]
  apply List.map_congr_left
  intro e _
  simp only [Function.comp]
  split <;> rfl

/-- every entry survives an ack with the same coordinates; acked bits only grow. -/
theorem ackRefs_mem (ents : List FEnt) (refs : List Ref) (e : FEnt) (he : e ∈ ents) :
    ∃ e' ∈ ackRefs ents refs, e'.out = e.out ∧ e'.ref = e.ref ∧
      (e.acked = true → e'.acked = true) ∧ (refs.contains e.ref = true → e'.acked = true) := by
  refine ⟨if refs.contains e.ref then { e with acked := true } else e, ?_, ?_, ?_, ?_, ?_⟩
  · exact List.mem_map.mpr ⟨e, he, rfl⟩
  · split <;> rfl
  · split <;> rfl
  · intro h; split
    · rfl
    · exact h
  · intro h; rw [if_pos h]

/-! ### keystone-bucket facts -/

theorem mem_ksPutAll_keep (l kst : List (Key × Key)) (p : Key × Key) (hp : p ∈ l)
    (hne : ∀ q ∈ kst, q.2 ≠ p.1) : p ∈ ksPutAll l kst := by
  induction kst generalizing l with
  | nil => exact hp
  | cons q rest ih =>
    obtain ⟨i, o⟩ := q
    simp only [ksPutAll]
    apply ih
    · simp only [ksPut, List.mem_append, mem_ksDel, List.mem_singleton]
      left
      refine ⟨hp, ?_⟩
      have := hne (i, o) (List.mem_cons_self ..)
      exact fun e => this e.symm
    · intro q hq; exact hne q (List.mem_cons_of_mem _ hq)

theorem open_ks_keep (s : State) (kst : List (Key × Key)) (wf : Bool) (hok : OpenOk s kst)
    (p : Key × Key) (hp : p ∈ s.ks) : p ∈ (openCircuits s kst wf).1.ks := by
  unfold openCircuits
  split
  · exact hp
  · split
    · exact hp
    · split
      · exact hp
      · rw [(openMem_frame _ kst).2.2.2.1]
        apply mem_ksPutAll_keep _ _ _ hp
        intro q hq e
        have := (hok.2.2 q hq).2 p.2
        apply this
        rw [e]; exact hp

/-- a successful `DeleteCircuits` leaves the keystones of every circuit it did not remove. -/
theorem delete_ks_keep (s : State) (keys : List Key) (h : WF s) (o k : Key) (hp : (o, k) ∈ s.ks)
    (hk : k ∉ keys) : (o, k) ∈ (deleteCircuits s keys false).1.ks := by
  simp only [deleteCircuits, Bool.not_false, if_true]
  have hfr := deleteMem_frame s keys
  have hrm := deleteMem_removed s keys
  rw [deleteDisk_ks, hfr.2.1, hfr.2.2.1]
  refine ⟨hp, ?_⟩
  intro r hr hout
  obtain ⟨hr1, _, hr3⟩ := hrm r hr
  have hop := h.filed r.key r.obj o hr1 hout
  have hd := h.durable o r.obj hop
  rw [h.inKey r.key r.obj hr1] at hd
  have := ksFun_unique s.ks h.ksFun (o, k) (o, r.key) hp hd rfl
  injection this with _ this
  exact hk (this ▸ hr3)

/-- `TrimOpenCircuits(c, start)` only removes keystones of channel `c` with an id at or after
    `start`. -/
theorem trim_ks_keep (s : State) (c start : Nat) (p : Key × Key) (hp : p ∈ s.ks)
    (hlt : p.1.chan = c → p.1.id < start) : p ∈ (trim s c start false).1.ks := by
  rw [trim_ks]
  refine ⟨hp, ?_⟩
  intro hm
  have hc := trimRun_chan c (trimFuel start) start s _ hm
  have hlt' := hlt hc
  have hm' : (⟨c, p.1.id⟩ : Key) ∈ (trimRun c (trimFuel start) start s).2 := by
    have : p.1 = ⟨c, p.1.id⟩ := by rw [← hc]
    rw [← this]; exact hm
  have := (trimRun_mem c (trimFuel start) start s p.1.id).mp hm'
  omega

theorem trimAll_ks_keep (s : State) (l : List ActiveChan) (p : Key × Key) (hp : p ∈ s.ks)
    (hlt : ∀ a ∈ l, a.isPending = false → a.chan ≠ sourceChan → p.1.chan = a.chan →
      p.1.id < nextLocalHtlcIndex a) : p ∈ (trimAll s l).ks := by
  induction l generalizing s with
  | nil => exact hp
  | cons a rest ih =>
    simp only [trimAll]
    split
    · exact ih s hp (fun b hb => hlt b (List.mem_cons_of_mem _ hb))
    · rename_i hlive
      simp only [Bool.or_eq_true, decide_eq_true_eq, not_or, Bool.not_eq_true] at hlive
      apply ih
      · apply trim_ks_keep _ _ _ _ hp
        intro hc
        exact hlt a (List.mem_cons_self ..) hlive.1 hlive.2 hc
      · exact fun b hb => hlt b (List.mem_cons_of_mem _ hb)

/-- a keystone whose circuit survives the restart and whose HTLC id is below the next local htlc
    index of its (live) channel survives the restart. -/
theorem restart_ks_keep (e : Env) (s : State) (hf : KsFun s.ks) (o k : Key) (hp : (o, k) ∈ s.ks)
    (hk : k ∈ (restart e s).adds)
    (hlt : ∀ a ∈ e.active, a.isPending = false → a.chan ≠ sourceChan → o.chan = a.chan →
      o.id < nextLocalHtlcIndex a) : (o, k) ∈ (restart e s).ks := by
  rw [restart_adds] at hk
  unfold restart
  apply trimAll_ks_keep _ _ _ _ hlt
  rw [restore_ks]
  have hpurge := ((cleanClosed_adds e s k).mp hk).2.2 (o, k) hp rfl
  refine ⟨(cleanClosed_ks e s hf (o, k)).mpr ⟨hp, hpurge⟩, ?_⟩
  rintro ⟨_, hn⟩
  exact hn hk

/-! ### the invariant -/

structure SInv (σ : Sys) : Prop where
  wf : WF σ.cm
  pai : PendingIffAdds σ.cm
  /-- the peer answers an outgoing HTLC at most once: out keys of all entries are distinct -/
  outs : (σ.ents.map (·.out)).Nodup
  /-- a response in flight holds the `closed` marker of its circuit and stems from an entry whose
      out key is the (durable) keystone of that circuit -/
  live : ∀ r ∈ σ.mbox ++ σ.inbox, σ.cm.closed r.inKey = true ∧
    ∃ e ∈ σ.ents, e.ref = r.ref ∧ (e.out, r.inKey) ∈ σ.cm.ks
  liveNodup : ((σ.mbox ++ σ.inbox).map (·.inKey)).Nodup
  /-- no response is in flight for a circuit whose response has been committed -/
  excl : ∀ r ∈ σ.mbox ++ σ.inbox, σ.committed r.inKey = 0
  /-- a committed response left its entry acknowledged, for as long as the circuit exists -/
  done : ∀ k, 1 ≤ σ.committed k → (σ.cm.pending k).isSome = true →
    ∃ e ∈ σ.ents, e.acked = true ∧ (e.out, k) ∈ σ.cm.ks
  le : ∀ k, σ.committed k ≤ 1
  signedOk : ∀ k ∈ σ.signed, 1 ≤ σ.committed k ∧ (σ.cm.pending k).isSome = true

theorem sinv_init : SInv Sys.init := by
  constructor
  · exact wf_init
  · intro k; simp [Sys.init, State.init]
  all_goals simp [Sys.init, State.init]

/-- changes of the circuit map (and shrinking of the counters / the signed list) that keep what the
    responses in flight and the committed responses rely on. -/
theorem sinv_update (σ : Sys) (cm' : State) (cmt' : Key → Nat) (sg' : List Key) (h : SInv σ)
    (hwf : WF cm') (hpai : PendingIffAdds cm')
    (hcmt : ∀ k, cmt' k ≤ σ.committed k)
    (hpend : ∀ k, 1 ≤ cmt' k → (cm'.pending k).isSome = true → (σ.cm.pending k).isSome = true)
    (hsg : ∀ k ∈ sg', 1 ≤ cmt' k ∧ (cm'.pending k).isSome = true)
    (hclosed : ∀ r ∈ σ.mbox ++ σ.inbox, cm'.closed r.inKey = true)
    (hks : ∀ e ∈ σ.ents, ∀ k, (e.out, k) ∈ σ.cm.ks → (cm'.pending k).isSome = true →
      (e.out, k) ∈ cm'.ks) :
    SInv { σ with cm := cm', committed := cmt', signed := sg' } := by
  constructor
  · exact hwf
  · exact hpai
  · exact h.outs
  · intro r hr
    have hc := hclosed r hr
    obtain ⟨_, e, he, hre, hk⟩ := h.live r hr
    exact ⟨hc, e, he, hre, hks e he _ hk (hwf.closedPending _ hc)⟩
  · exact h.liveNodup
  · intro r hr
    have := h.excl r hr
    have := hcmt r.inKey
    show cmt' r.inKey = 0
    omega
  · intro k hk hp
    have hk' : 1 ≤ σ.committed k := Nat.le_trans hk (hcmt k)
    obtain ⟨e, he, ha, hks'⟩ := h.done k hk' (hpend k hk hp)
    exact ⟨e, he, ha, hks e he _ hks' hp⟩
  · intro k; exact Nat.le_trans (hcmt k) (h.le k)
  · exact hsg

/-! ### forwarding one settle/fail -/

theorem fwdEntry_frame (σ : Sys) (e : FEnt) :
    (fwdEntry σ e).ents = σ.ents ∧ (fwdEntry σ e).committed = σ.committed ∧
    (fwdEntry σ e).signed = σ.signed ∧ (fwdEntry σ e).inbox = σ.inbox := by
  unfold fwdEntry
  rcases closeCircuit σ.cm e.out with ⟨cm', res⟩
  cases res with
  | ok k => simp only []; split <;> simp
  | unknown => simp
  | closing => simp

theorem sinv_fwdEntry (σ : Sys) (e : FEnt) (h : SInv σ) (he : e ∈ σ.ents) (hna : e.acked = false) :
    SInv (fwdEntry σ e) := by
  have hs := close_spec σ.cm e.out
  have hwf' := wf_close σ.cm e.out h.wf
  have hpai' := pendingIffAdds_step σ.cm (.close e.out) h.pai
  simp only [step] at hpai'
  unfold fwdEntry
  rcases hcc : closeCircuit σ.cm e.out with ⟨cm', res⟩
  rw [hcc] at hs hwf' hpai'
  obtain ⟨hp, ha, ho, hk, hob, hres⟩ := hs
  simp only at hp ha ho hk hob hres hwf' hpai'
  cases res with
  | closing => exact h
  | unknown =>
    exact ⟨h.wf, h.pai, h.outs, h.live, h.liveNodup, h.excl, h.done, h.le, h.signedOk⟩
  | ok k =>
    simp only at hres
    obtain ⟨hck, ⟨id, hid, hin⟩, hcl⟩ := hres
    have hks : (e.out, k) ∈ σ.cm.ks := by
      have := h.wf.durable e.out id hid
      rwa [hin] at this
    have hpk : (σ.cm.pending k).isSome = true := by
      have := (h.wf.openedOk e.out id hid).2
      rw [hin] at this; simp [this]
    -- no response has been committed for k: its entry would be acknowledged
    have hzero : σ.committed k = 0 := by
      have hle := h.le k
      by_cases hz : σ.committed k = 0
      · exact hz
      · exfalso
        obtain ⟨e1, he1, ha1, hk1⟩ := h.done k (by omega) hpk
        have hout : e1.out = e.out := h.wf.ksInj _ _ _ hk1 hks
        have := nodup_map_inj _ _ h.outs e1 e he1 he hout
        subst this
        rw [hna] at ha1; cases ha1
    -- k has no response in flight
    have hfresh : k ∉ (σ.mbox ++ σ.inbox).map (·.inKey) := by
      intro hm
      obtain ⟨r, hr, hrk⟩ := List.mem_map.mp hm
      have := (h.live r hr).1
      rw [hrk, hck] at this; cases this
    have hclosedKeep : ∀ x, σ.cm.closed x = true → cm'.closed x = true := by
      intro x hx; rw [hcl, upd_apply]; split <;> simp [hx]
    have hbase : SInv { σ with cm := cm' } := by
      have := sinv_update σ cm' σ.committed σ.signed h hwf' hpai' (fun _ => Nat.le_refl _)
        (fun k _ hp' => by rw [hp] at hp'; exact hp')
        (fun k hk' => by rw [hp]; exact h.signedOk k hk')
        (fun r hr => hclosedKeep _ (h.live r hr).1)
        (fun _ _ k' hok _ => by rw [hk]; exact hok)
      exact this
    simp only []
    split
    · exact hbase
    · -- delivered to the mailbox of the incoming link
      have hperm : List.Perm ((σ.mbox ++ [⟨k, e.ref, e.settle⟩]) ++ σ.inbox)
          ((⟨k, e.ref, e.settle⟩ : Resp) :: (σ.mbox ++ σ.inbox)) := by
        rw [List.append_assoc, List.singleton_append]
        exact List.perm_middle
      have hmem : ∀ r, r ∈ (σ.mbox ++ [⟨k, e.ref, e.settle⟩]) ++ σ.inbox →
          r = ⟨k, e.ref, e.settle⟩ ∨ r ∈ σ.mbox ++ σ.inbox := by
        intro r hr
        have := (hperm.mem_iff).mp hr
        simpa using this
      constructor
      · exact hwf'
      · exact hpai'
      · exact h.outs
      · intro r hr
        cases hmem r hr with
        | inl e1 =>
          subst e1
          refine ⟨by simp [hcl], e, he, rfl, ?_⟩
          show (e.out, k) ∈ cm'.ks
          rw [hk]; exact hks
        | inr hr' => exact hbase.live r hr'
      · show (List.map (fun r : Resp => r.inKey)
          ((σ.mbox ++ [(⟨k, e.ref, e.settle⟩ : Resp)]) ++ σ.inbox)).Nodup
        rw [(hperm.map _).nodup_iff, List.map_cons, List.nodup_cons]
        exact ⟨hfresh, h.liveNodup⟩
      · intro r hr
        cases hmem r hr with
        | inl e1 => subst e1; exact hzero
        | inr hr' => exact h.excl r hr'
      · exact hbase.done
      · exact h.le
      · exact hbase.signedOk

theorem sinv_foldl_fwdEntry (l : List FEnt) (σ : Sys) (h : SInv σ)
    (hl : ∀ e ∈ l, e ∈ σ.ents ∧ e.acked = false) :
    SInv (l.foldl fwdEntry σ) ∧ (l.foldl fwdEntry σ).ents = σ.ents := by
  induction l generalizing σ with
  | nil => exact ⟨h, rfl⟩
  | cons e rest ih =>
    simp only [List.foldl_cons]
    have he := hl e (List.mem_cons_self ..)
    have hfr := (fwdEntry_frame σ e).1
    have := ih (fwdEntry σ e) (sinv_fwdEntry σ e h he.1 he.2)
      (fun x hx => by rw [hfr]; exact hl x (List.mem_cons_of_mem _ hx))
    exact ⟨this.1, this.2.trans hfr⟩

theorem sinv_reforward (σ : Sys) (sel : FEnt → Bool) (h : SInv σ) :
    SInv (reforward σ sel) ∧ (reforward σ sel).ents = σ.ents := by
  unfold reforward
  apply sinv_foldl_fwdEntry _ σ h
  intro e he
  have := List.mem_filter.mp he
  refine ⟨this.1, ?_⟩
  have := this.2
  simp only [Bool.and_eq_true, Bool.not_eq_true'] at this
  exact this.2

theorem sinv_reforwardAll (l : List ActiveChan) (σ : Sys) (h : SInv σ) :
    SInv (reforwardAll σ l) := by
  induction l generalizing σ with
  | nil => exact h
  | cons a rest ih =>
    simp only [reforwardAll]
    split
    · exact ih σ h
    · exact ih _ (sinv_reforward σ _ h).1

/-! ### the operations -/

/-- what the environment (links, peers) guarantees when it issues an operation. -/
def SOpOk (σ : Sys) : SOp → Prop
  /- link discipline of `Wf.lean`: one fresh keystone per circuit -/
  | .open kst _ => OpenOk σ.cm kst
  /- the peer settles/fails an outgoing HTLC at most once (outgoing channel state machine) -/
  | .pkg _ _ l => (l.map (·.1)).Nodup ∧ ∀ p ∈ l, p.1 ∉ σ.ents.map (·.out)
  /- the peer only answers HTLCs that reached a commitment: every answered out id lies below the
     channel's next local htlc index, so the startup trim does not touch it -/
  | .restart e => ∀ a ∈ e.active, a.isPending = false → a.chan ≠ sourceChan →
      ∀ x ∈ σ.ents, x.out.chan = a.chan → x.out.id < nextLocalHtlcIndex a
  | _ => True

def Good : Sys → List SOp → Prop
  | _, [] => True
  | σ, op :: rest => SOpOk σ op ∧ Good (sstep σ op) rest

/-- the responses in flight may be reordered between mailbox and update log. -/
theorem sinv_perm (σ : Sys) (mb ib : List Resp) (h : SInv σ)
    (hperm : List.Perm (mb ++ ib) (σ.mbox ++ σ.inbox)) :
    SInv { σ with mbox := mb, inbox := ib } := by
  constructor
  · exact h.wf
  · exact h.pai
  · exact h.outs
  · intro r hr; exact h.live r (hperm.mem_iff.mp hr)
  · show (List.map (fun r : Resp => r.inKey) (mb ++ ib)).Nodup
    rw [(hperm.map _).nodup_iff]; exact h.liveNodup
  · intro r hr; exact h.excl r (hperm.mem_iff.mp hr)
  · exact h.done
  · exact h.le
  · exact h.signedOk

theorem sinv_commit (σ : Sys) (b : List Key) (wf : Bool) (h : SInv σ) : SInv (sstep σ (.commit b wf)) := by
  obtain ⟨_, hfresh, hpend, hkeep, _, hcl, _, hks, _⟩ := commit_spec σ.cm b wf
  have hpai := pendingIffAdds_step σ.cm (.commit b wf) h.pai
  have hnotadd : ∀ k, (σ.cm.pending k).isSome = true → k ∉ (commit σ.cm b wf).2.adds := by
    intro k hk hm; rw [hfresh k hm] at hk; cases hk
  have := sinv_update σ (commit σ.cm b wf).1
    (fun k => if k ∈ (commit σ.cm b wf).2.adds then 0 else σ.committed k) σ.signed h
    (wf_commit σ.cm b wf h.wf) hpai
    (by intro k; split <;> omega)
    (by
      intro k hk hp
      split at hk
      · omega
      · rename_i hn
        rw [hpend k] at hp
        simpa [hn] using hp)
    (by
      intro k hk
      obtain ⟨h1, h2⟩ := h.signedOk k hk
      have hn := hnotadd k h2
      refine ⟨by simp only [hn, if_false]; exact h1, ?_⟩
      rw [hpend k]; simp [h2])
    (by intro r hr; rw [hcl]; exact (h.live r hr).1)
    (by intro e _ k hk _; rw [hks]; exact hk)
  exact this

theorem sinv_open (σ : Sys) (kst : List (Key × Key)) (wf : Bool) (h : SInv σ)
    (hok : OpenOk σ.cm kst) : SInv (sstep σ (.open kst wf)) := by
  obtain ⟨hp, hc, _⟩ := open_frame σ.cm kst wf
  have hpai := pendingIffAdds_step σ.cm (.open kst wf) h.pai
  have := sinv_update σ (openCircuits σ.cm kst wf).1 σ.committed σ.signed h
    (wf_open σ.cm kst wf h.wf hok) hpai (fun _ => Nat.le_refl _)
    (by intro k _ hk; rw [hp] at hk; exact hk)
    (by intro k hk; rw [hp]; exact h.signedOk k hk)
    (by intro r hr; rw [hc]; exact (h.live r hr).1)
    (by intro e _ k hk _; exact open_ks_keep σ.cm kst wf hok _ hk)
  exact this

theorem sinv_pkg (σ : Sys) (c ht : Nat) (l : List (Key × Bool)) (h : SInv σ)
    (hok : (l.map (·.1)).Nodup ∧ ∀ p ∈ l, p.1 ∉ σ.ents.map (·.out)) :
    SInv (sstep σ (.pkg c ht l)) := by
  constructor
  · exact h.wf
  · exact h.pai
  · show ((σ.ents ++ mkEnts c ht 0 l).map (·.out)).Nodup
    rw [List.map_append, mkEnts_out, List.nodup_append]
    refine ⟨h.outs, hok.1, ?_⟩
    intro a ha b hb e
    obtain ⟨p, hp, hpb⟩ := List.mem_map.mp hb
    apply hok.2 p hp
    rw [hpb, ← e]; exact ha
  · intro r hr
    obtain ⟨h1, e, he, h2⟩ := h.live r hr
    exact ⟨h1, e, List.mem_append_left _ he, h2⟩
  · exact h.liveNodup
  · exact h.excl
  · intro k hk hp
    obtain ⟨e, he, h2⟩ := h.done k hk hp
    exact ⟨e, List.mem_append_left _ he, h2⟩
  · exact h.le
  · exact h.signedOk

theorem sinv_acked (σ : Sys) (refs : List Ref) (pa : List Ref) (h : SInv σ) :
    SInv { σ with ents := ackRefs σ.ents refs, pendAcks := pa } := by
  constructor
  · exact h.wf
  · exact h.pai
  · show ((ackRefs σ.ents refs).map (·.out)).Nodup
    rw [ackRefs_out]; exact h.outs
  · intro r hr
    obtain ⟨h1, e, he, h2, h3⟩ := h.live r hr
    obtain ⟨e', he', ho, hr', _⟩ := ackRefs_mem σ.ents refs e he
    exact ⟨h1, e', he', hr'.trans h2, by rw [ho]; exact h3⟩
  · exact h.liveNodup
  · exact h.excl
  · intro k hk hp
    obtain ⟨e, he, h2, h3⟩ := h.done k hk hp
    obtain ⟨e', he', ho, _, ha, _⟩ := ackRefs_mem σ.ents refs e he
    exact ⟨e', he', ha h2, by rw [ho]; exact h3⟩
  · exact h.le
  · exact h.signedOk

theorem sinv_recv (σ : Sys) (sid : Nat) (h : SInv σ) : SInv (sstep σ (.recv sid)) := by
  simp only [sstep]
  cases hpop : popFirst (fun r : Resp => decide (r.inKey.chan = sid)) σ.mbox with
  | none => exact h
  | some q =>
    obtain ⟨r, rest⟩ := q
    obtain ⟨_, hperm⟩ := popFirst_spec _ _ _ _ hpop
    apply sinv_perm σ rest (σ.inbox ++ [r]) h
    have h1 : List.Perm (rest ++ (σ.inbox ++ [r])) (r :: (rest ++ σ.inbox)) := by
      rw [← List.append_assoc]; exact List.perm_append_singleton _ _
    have h2 : List.Perm (r :: (rest ++ σ.inbox)) (σ.mbox ++ σ.inbox) := by
      have := List.Perm.append_right σ.inbox hperm.symm
      simpa using this
    exact h1.trans h2

theorem sinv_sign (σ : Sys) (sid : Nat) (h : SInv σ) : SInv (sstep σ (.sign sid)) := by
  simp only [sstep]
  cases hpop : popFirst (fun r : Resp => decide (r.inKey.chan = sid)) σ.inbox with
  | none => exact h
  | some q =>
    obtain ⟨r, rest⟩ := q
    obtain ⟨_, hperm⟩ := popFirst_spec _ _ _ _ hpop
    -- the signed response was in flight
    have hall : List.Perm (σ.mbox ++ σ.inbox) (r :: (σ.mbox ++ rest)) :=
      (List.Perm.append_left σ.mbox hperm).trans List.perm_middle
    have hr : r ∈ σ.mbox ++ σ.inbox := hall.mem_iff.mpr (List.mem_cons_self ..)
    have hsub : ∀ x, x ∈ σ.mbox ++ rest → x ∈ σ.mbox ++ σ.inbox :=
      fun x hx => hall.mem_iff.mpr (List.mem_cons_of_mem _ hx)
    obtain ⟨hclosed, e, he, href, hks⟩ := h.live r hr
    have hzero := h.excl r hr
    have hnd : (List.map (fun x : Resp => x.inKey) (r :: (σ.mbox ++ rest))).Nodup :=
      ((hall.map _).nodup_iff).mp h.liveNodup
    rw [List.map_cons, List.nodup_cons] at hnd
    have hne : ∀ x ∈ σ.mbox ++ rest, x.inKey ≠ r.inKey := by
      intro x hx e1
      exact hnd.1 (List.mem_map.mpr ⟨x, hx, e1⟩)
    obtain ⟨e', he', ho', _, _, hack'⟩ := ackRefs_mem σ.ents [r.ref] e he
    have hack : e'.acked = true := hack' (by simp [href])
    constructor
    · exact h.wf
    · exact h.pai
    · show ((ackRefs σ.ents [r.ref]).map (·.out)).Nodup
      rw [ackRefs_out]; exact h.outs
    · intro x hx
      obtain ⟨h1, e1, he1, h2, h3⟩ := h.live x (hsub x hx)
      obtain ⟨e2, he2, ho2, hr2, _⟩ := ackRefs_mem σ.ents [r.ref] e1 he1
      exact ⟨h1, e2, he2, hr2.trans h2, by rw [ho2]; exact h3⟩
    · exact hnd.2
    · intro x hx
      show σ.committed x.inKey + (if x.inKey = r.inKey then 1 else 0) = 0
      rw [if_neg (hne x hx), h.excl x (hsub x hx)]
    · intro k hk hp
      by_cases hkr : k = r.inKey
      · subst hkr
        exact ⟨e', he', hack, by rw [ho']; exact hks⟩
      · simp only [hkr, if_false, Nat.add_zero] at hk
        obtain ⟨e1, he1, h2, h3⟩ := h.done k hk hp
        obtain ⟨e2, he2, ho2, _, ha2, _⟩ := ackRefs_mem σ.ents [r.ref] e1 he1
        exact ⟨e2, he2, ha2 h2, by rw [ho2]; exact h3⟩
    · intro k
      show σ.committed k + (if k = r.inKey then 1 else 0) ≤ 1
      by_cases hkr : k = r.inKey
      · subst hkr; rw [hzero]; simp
      · simp only [hkr, if_false, Nat.add_zero]; exact h.le k
    · intro k hk
      show 1 ≤ σ.committed k + (if k = r.inKey then 1 else 0) ∧ _
      cases List.mem_append.mp hk with
      | inl hk' =>
        obtain ⟨h1, h2⟩ := h.signedOk k hk'
        exact ⟨by omega, h2⟩
      | inr hk' =>
        have : k = r.inKey := by simpa using hk'
        subst this
        exact ⟨by simp, h.wf.closedPending _ hclosed⟩

theorem sinv_del (σ : Sys) (sid : Nat) (wf : Bool) (h : SInv σ) : SInv (sstep σ (.del sid wf)) := by
  have hspec := delete_spec σ.cm (σ.signed.filter (fun k => decide (k.chan = sid))) wf
  have hwf' := wf_delete σ.cm (σ.signed.filter (fun k => decide (k.chan = sid))) wf h.wf
  have hpai := pendingIffAdds_step σ.cm (.delete (σ.signed.filter (fun k => decide (k.chan = sid))) wf) h.pai
  simp only [step] at hpai
  simp only [sstep, hspec.1]
  cases wf with
  | true =>
    obtain ⟨hp, hc, _, hk, _⟩ := hspec.2.2 rfl
    simp only [if_true]
    have := sinv_update σ _ σ.committed σ.signed h hwf' hpai (fun _ => Nat.le_refl _)
      (by intro k _ hk'; rw [hp] at hk'; exact hk')
      (by intro k hk'; rw [hp]; exact h.signedOk k hk')
      (by intro r hr; rw [hc]; exact (h.live r hr).1)
      (by intro e _ k hk' _; rw [hk]; exact hk')
    exact this
  | false =>
    obtain ⟨hp, hc, _⟩ := hspec.2.1 rfl
    simp only [Bool.false_eq_true, if_false]
    have := sinv_update σ _ σ.committed (σ.signed.filter (fun k => !decide (k.chan = sid))) h hwf' hpai
      (fun _ => Nat.le_refl _)
      (by
        intro k _ hk'
        rw [hp] at hk'
        split at hk'
        · cases hk'
        · exact hk')
      (by
        intro k hk'
        obtain ⟨hk1, hk2⟩ := List.mem_filter.mp hk'
        obtain ⟨h1, h2⟩ := h.signedOk k hk1
        refine ⟨h1, ?_⟩
        rw [hp]
        have : k ∉ σ.signed.filter (fun k => decide (k.chan = sid)) := by
          intro hm
          have := (List.mem_filter.mp hm).2
          simp only [Bool.not_eq_true', decide_eq_false_iff_not] at hk2
          simp only [decide_eq_true_eq] at this
          exact hk2 this
        simp only [this, if_false]; exact h2)
      (by
        intro r hr
        rw [hc]
        have hz := h.excl r hr
        have : r.inKey ∉ σ.signed.filter (fun k => decide (k.chan = sid)) := by
          intro hm
          have := (h.signedOk _ (List.mem_filter.mp hm).1).1
          omega
        simp only [this, false_and, if_false]
        exact (h.live r hr).1)
      (by
        intro e _ k hk' hpk
        apply delete_ks_keep σ.cm _ h.wf _ _ hk'
        intro hm
        rw [hp] at hpk
        simp [hm] at hpk)
    exact this

theorem sinv_restart (σ : Sys) (e : Env) (h : SInv σ) (hok : SOpOk σ (.restart e)) :
    SInv (sstep σ (.restart e)) := by
  simp only [sstep]
  apply sinv_reforwardAll
  have hpai := pendingIffAdds_step σ.cm (.restart e) h.pai
  simp only [step] at hpai
  have hc : SInv { σ with mbox := [], inbox := [], pendAcks := [] } := by
    constructor
    · exact h.wf
    · exact h.pai
    · exact h.outs
    · intro r hr; cases hr
    · exact List.nodup_nil
    · intro r hr; cases hr
    · exact h.done
    · exact h.le
    · exact h.signedOk
  have := sinv_update _ (restart e σ.cm)
    (fun k => if (restart e σ.cm).adds.contains k then σ.committed k else 0)
    (σ.signed.filter (fun k => (restart e σ.cm).adds.contains k)) hc
    (wf_restart e σ.cm h.wf.ksFun h.wf.ksInj) hpai
    (by intro k; show (if (restart e σ.cm).adds.contains k then σ.committed k else 0) ≤ σ.committed k
        split <;> omega)
    (by
      intro k hk _
      split at hk
      · rename_i hm
        have hm' : k ∈ (restart e σ.cm).adds := by simpa using hm
        rw [restart_adds] at hm'
        exact (h.pai k).mpr (cleanClosed_adds_sub e σ.cm k hm')
      · omega)
    (by
      intro k hk
      obtain ⟨hk1, hk2⟩ := List.mem_filter.mp hk
      refine ⟨by simp only [hk2, if_true]; exact (h.signedOk k hk1).1, ?_⟩
      exact (hpai k).mpr (by simpa using hk2))
    (by intro r hr; cases hr)
    (by
      intro x hx k hk hpk
      have hm : k ∈ (restart e σ.cm).adds := (hpai k).mp hpk
      apply restart_ks_keep e σ.cm h.wf.ksFun _ _ hk hm
      intro a ha hp hs hch
      exact hok a ha hp hs x hx hch)
  exact this

theorem sinv_sstep (σ : Sys) (op : SOp) (h : SInv σ) (hok : SOpOk σ op) : SInv (sstep σ op) := by
  cases op with
  | commit b wf => exact sinv_commit σ b wf h
  | «open» kst wf => exact sinv_open σ kst wf h hok
  | pkg c ht l => exact sinv_pkg σ c ht l h hok
  | fwd c ht => exact (sinv_reforward σ _ h).1
  | swAck wf =>
    simp only [sstep]
    split
    · exact h
    · exact sinv_acked σ σ.pendAcks [] h
  | recv sid => exact sinv_recv σ sid h
  | sign sid => exact sinv_sign σ sid h
  | del sid wf => exact sinv_del σ sid wf h
  | restart e => exact sinv_restart σ e h hok

theorem sinv_srun (σ : Sys) (ops : List SOp) (h : SInv σ) (hg : Good σ ops) : SInv (srun σ ops) := by
  induction ops generalizing σ with
  | nil => exact h
  | cons op rest ih => exact ih _ (sinv_sstep σ op h hg.1) hg.2

end LndModel.C07
