/-
C07, mailbox level — model of `htlcswitch/mailbox.go`: `mailOrchestrator`
(`GetOrCreateMailBox`, `BindLiveShortChanID`, `Deliver`, unclaimed packets) and
the packet side of `memoryMailBox` (`AddPacket` with its per-inKey index,
`AckPacket`, `ResetPackets`, the courier's head pointers), plus the two switch
entry points that feed it, `Switch.handlePacketSettle` / `handlePacketFail`
(via `Model.swCloseCircuit`).

The two Go queues with a head pointer are modelled as (done, todo): `done` =
elements before the head (handed to the link since the last reset, not acked),
`todo` = the head and everything after it.  The link is modelled the way the
harness plays it: while it is `up` it receives whatever the courier offers
(replies before adds), a link (re)start is bind ; `ResetPackets` ; receive.
One mailbox per short channel id (aliases sharing a mailbox are not modelled).

History variables per channel: `got u` = times packet `u` was handed to the link
since the last reset, `acked u`, `gotAfterAck u`.
-/
import LndModel.C07.Model

namespace LndModel.C07

/-- an `*htlcPacket` handed to `Deliver`; `uid` is its identity, `typ` 0 settle, 1 fail, 2 add. -/
structure Pkt where
  uid : Nat
  inKey : Key
  typ : Nat
deriving DecidableEq, Repr

def Pkt.isRep (p : Pkt) : Bool := decide (p.typ < 2)

structure Chan where
  hasBox : Bool
  live : Bool
  up : Bool
  unclaimed : List Pkt
  repDone : List Pkt
  repTodo : List Pkt
  addDone : List Pkt
  addTodo : List Pkt
  got : Nat → Nat
  acked : Nat → Bool
  gotAfterAck : Nat → Nat

def Chan.empty : Chan :=
  { hasBox := false, live := false, up := false, unclaimed := [], repDone := [], repTodo := [],
    addDone := [], addTodo := [], got := fun _ => 0, acked := fun _ => false,
    gotAfterAck := fun _ => 0 }

def hasKey (l : List Pkt) (k : Key) : Bool := l.any (fun p => decide (p.inKey = k))

/-- `memoryMailBox.AddPacket`; `true` = `ErrPacketAlreadyExists`. -/
def addPacket (c : Chan) (p : Pkt) : Chan × Bool :=
  if p.isRep then
    if hasKey (c.repDone ++ c.repTodo) p.inKey then (c, true)
    else ({ c with repTodo := c.repTodo ++ [p] }, false)
  else
    if hasKey (c.addDone ++ c.addTodo) p.inKey then (c, true)
    else ({ c with addTodo := c.addTodo ++ [p] }, false)

def addPackets (c : Chan) : List Pkt → Chan
  | [] => c
  | p :: rest => addPackets (addPacket c p).1 rest

/-- occurrences of packet `u` in a queue. -/
def cnt (u : Nat) (l : List Pkt) : Nat := l.countP (fun p => decide (p.uid = u))

/-- history bookkeeping for packets handed to the link. -/
def noteGot (c : Chan) (l : List Pkt) : Chan :=
  { c with got := fun u => c.got u + cnt u l,
           gotAfterAck := fun u => c.gotAfterAck u + (if c.acked u then cnt u l else 0) }

/-- the running link receives everything from the head on: replies first, then adds. -/
def drain (c : Chan) : Chan × List Pkt :=
  if c.up then
    let l := c.repTodo ++ c.addTodo
    (noteGot { c with repDone := c.repDone ++ c.repTodo, repTodo := [],
                      addDone := c.addDone ++ c.addTodo, addTodo := [] } l, l)
  else (c, [])

/-- `ResetPackets`: both heads back to the front; a new delivery round starts. -/
def resetPkts (c : Chan) : Chan :=
  { c with repTodo := c.repDone ++ c.repTodo, repDone := [],
           addTodo := c.addDone ++ c.addTodo, addDone := [],
           got := fun u => if 0 < cnt u (c.repDone ++ c.repTodo ++ c.addDone ++ c.addTodo)
                           then 0 else c.got u }

def eraseKey (l : List Pkt) (k : Key) : List Pkt := l.eraseP (fun p => decide (p.inKey = k))
def findKey (l : List Pkt) (k : Key) : Option Pkt := l.find? (fun p => decide (p.inKey = k))

def markAcked (c : Chan) (p : Pkt) : Chan := { c with acked := upd c.acked p.uid true }

/-- `AckPacket(inKey)`: the reply with that key if there is one, else the add. -/
def ackPacket (c : Chan) (k : Key) : Chan × Bool :=
  match findKey c.repDone k with
  | some p => (markAcked { c with repDone := eraseKey c.repDone k } p, true)
  | none =>
  match findKey c.repTodo k with
  | some p => (markAcked { c with repTodo := eraseKey c.repTodo k } p, true)
  | none =>
  match findKey c.addDone k with
  | some p => (markAcked { c with addDone := eraseKey c.addDone k } p, true)
  | none =>
  match findKey c.addTodo k with
  | some p => (markAcked { c with addTodo := eraseKey c.addTodo k } p, true)
  | none => (c, false)

/-- `mailOrchestrator.Deliver` for one channel. -/
def deliverChan (c : Chan) (p : Pkt) : Chan × Bool :=
  if c.live then addPacket { c with hasBox := true } p
  else ({ c with unclaimed := c.unclaimed ++ [p] }, false)

/-- `BindLiveShortChanID`: the parked packets move to the mailbox exactly once. -/
def bindChan (c : Chan) : Chan :=
  addPackets { c with hasBox := true, live := true, unclaimed := [] } c.unclaimed

inductive MOp where
  | deliver (sid : Nat) (inKey : Key) (typ : Nat)
  | getBox (sid : Nat)
  | linkUp (sid : Nat)       -- GetOrCreateMailBox ; BindLiveShortChanID ; ResetPackets ; link receives
  | linkDown (sid : Nat)
  | reset (sid : Nat)
  | ack (sid : Nat) (inKey : Key)
  | restart

structure MState where
  chans : Nat → Chan
  next : Nat

def MState.init : MState := { chans := fun _ => Chan.empty, next := 0 }

structure MRes where
  flag : Bool := false         -- deliver: already exists; ack: removed
  recv : List Pkt := []

/-- the per-channel effect of an operation (the packet of a `deliver` gets uid `next`). -/
def chanStep (c : Chan) (next : Nat) : MOp → Chan × MRes
  | .deliver _ k t =>
    let r := deliverChan c ⟨next, k, t⟩
    let d := drain r.1
    (d.1, { flag := r.2, recv := d.2 })
  | .getBox _ => ({ c with hasBox := true }, {})
  | .linkUp _ =>
    let d := drain { resetPkts (bindChan c) with up := true }
    (d.1, { recv := d.2 })
  | .linkDown _ => ({ c with up := false }, {})
  | .reset _ =>
    let d := drain (resetPkts c)
    (d.1, { recv := d.2 })
  | .ack _ k =>
    let r := ackPacket c k
    (r.1, { flag := r.2 })
  | .restart => (Chan.empty, {})

def MOp.sid? : MOp → Option Nat
  | .deliver s _ _ | .getBox s | .linkUp s | .linkDown s | .reset s | .ack s _ => some s
  | .restart => none

def mstep (s : MState) (op : MOp) : MState × MRes :=
  match op.sid? with
  | some sid =>
    let r := chanStep (s.chans sid) s.next op
    ({ chans := upd s.chans sid r.1, next := s.next + 1 }, r.2)
  | none => ({ chans := fun _ => Chan.empty, next := s.next + 1 }, {})

def mrun (s : MState) : List MOp → MState
  | [] => s
  | op :: rest => mrun (mstep s op).1 rest

/-- result of `Switch.handlePacketSettle` / `handlePacketFail` for a response from the outgoing
    link (no `hasSource`), in terms of the circuit map's answer. -/
inductive RelayRes where
  | deliver (inKey : Key)   -- circuit closed now: the packet goes to `Deliver(inKey.chan)`
  | dropNil                 -- settle: ErrCircuitClosing or unknown circuit → nil
  | closing                 -- fail: ErrCircuitClosing returned
  | otherErr                -- fail: unknown circuit
deriving DecidableEq, Repr

def relay (s : State) (o : Key) (isSettle : Bool) : State × RelayRes :=
  match swCloseCircuit s false o o isSettle with
  | (s', .ok k) => (s', .deliver k)
  | (s', .closing) => (s', if isSettle then .dropNil else .closing)
  | (s', .nilNil) => (s', .dropNil)
  | (s', .unknown) => (s', .otherErr)
  | (s', .otherErr) => (s', .otherErr)

end LndModel.C07
