/-
C07 helper lemmas, part 2: the keystone bucket is a map (`KsFun`), exact effect of
`TrimOpenCircuits`, of `cleanClosedChannels` and of `restoreMemState`.
-/
import LndModel.C07.Lemmas

namespace LndModel.C07

/-! ### the keystone bucket has one value per out key (it is a bbolt bucket) -/

def KsFun (l : List (Key × Key)) : Prop := l.Pairwise (fun p q => p.1 ≠ q.1)

theorem ksFun_filter (l : List (Key × Key)) (f : Key × Key → Bool) (h : KsFun l) :
    KsFun (l.filter f) := List.Pairwise.filter f h

theorem ksFun_ksDel (l : List (Key × Key)) (o : Key) (h : KsFun l) : KsFun (ksDel l o) :=
  ksFun_filter l _ h

theorem ksFun_ksPut (l : List (Key × Key)) (o i : Key) (h : KsFun l) : KsFun (ksPut l o i) := by
  unfold ksPut KsFun
  rw [List.pairwise_append]
  refine ⟨ksFun_ksDel l o h, by simp, ?_⟩
  intro p hp q hq
  simp only [List.mem_singleton] at hq
  subst hq
  exact ((mem_ksDel l o p).mp hp).2

theorem ksFun_ksPutAll (l kst : List (Key × Key)) (h : KsFun l) : KsFun (ksPutAll l kst) := by
  induction kst generalizing l with
  | nil => exact h
  | cons p rest ih =>
    obtain ⟨i, o⟩ := p
    simp only [ksPutAll]
    exact ih _ (ksFun_ksPut l o i h)

theorem ksFun_unique (l : List (Key × Key)) (h : KsFun l) (p q : Key × Key)
    (hp : p ∈ l) (hq : q ∈ l) (e : p.1 = q.1) : p = q := by
  induction l with
  | nil => cases hp
  | cons a rest ih =>
    rw [KsFun, List.pairwise_cons] at h
    cases hp with
    | head =>
      cases hq with
      | head => rfl
      | tail _ hq => exact absurd e (h.1 q hq)
    | tail _ hp =>
      cases hq with
      | head => exact absurd e.symm (h.1 p hp)
      | tail _ hq => exact ih h.2 hp hq

theorem ksGet_eq_some_iff (l : List (Key × Key)) (h : KsFun l) (o k : Key) :
    ksGet l o = some k ↔ (o, k) ∈ l := by
  unfold ksGet
  constructor
  · intro hg
    cases hf : l.find? (fun p => decide (p.1 = o)) with
    | none => rw [hf] at hg; cases hg
    | some p =>
      rw [hf] at hg
      simp only [Option.map_some, Option.some.injEq] at hg
      have hm := List.mem_of_find?_eq_some hf
      have hp := List.find?_some hf
      simp only [decide_eq_true_eq] at hp
      have : p = (o, k) := by
        cases p; simp only at hp hg; subst hp; subst hg; rfl
      rw [← this]; exact hm
  · intro hm
    cases hf : l.find? (fun p => decide (p.1 = o)) with
    | none =>
      have := List.find?_eq_none.mp hf (o, k) hm
      simp at this
    | some p =>
      have hm' := List.mem_of_find?_eq_some hf
      have hp := List.find?_some hf
      simp only [decide_eq_true_eq] at hp
      have := ksFun_unique l h p (o, k) hm' hm hp
      subst this
      rfl

theorem ksGet_eq_none_iff (l : List (Key × Key)) (o : Key) :
    ksGet l o = none ↔ ∀ k, (o, k) ∉ l := by
  unfold ksGet
  constructor
  · intro hg k hm
    cases hf : l.find? (fun p => decide (p.1 = o)) with
    | none =>
      have := List.find?_eq_none.mp hf (o, k) hm
      simp at this
    | some p => rw [hf] at hg; cases hg
  · intro hn
    cases hf : l.find? (fun p => decide (p.1 = o)) with
    | none => rfl
    | some p =>
      have hm' := List.mem_of_find?_eq_some hf
      have hp := List.find?_some hf
      simp only [decide_eq_true_eq] at hp
      exfalso
      apply hn p.2
      rw [← hp]; exact hm'

/-! ### TrimOpenCircuits, exactly -/

/-- the trimmed keys are exactly the maximal contiguous run of opened ids from `i` (within fuel). -/
theorem trimRun_mem (c : Nat) (f i : Nat) (s : State) (j : Nat) :
    (⟨c, j⟩ : Key) ∈ (trimRun c f i s).2 ↔
      i ≤ j ∧ j < i + f ∧ ∀ m, i ≤ m → m ≤ j → s.opened ⟨c, m⟩ ≠ none := by
  induction f generalizing i s with
  | zero => simp only [trimRun, List.not_mem_nil, false_iff]; omega
  | succ f ih =>
    cases ho : s.opened ⟨c, i⟩ with
    | none =>
      rw [trimRun_none c f i s ho]
      simp only [List.not_mem_nil, false_iff]
      rintro ⟨h1, _, h3⟩
      exact h3 i (Nat.le_refl _) h1 ho
    | some id =>
      rw [trimRun_some c f i s id ho]
      simp only [List.mem_cons, ih, trimStep]
      constructor
      · rintro (e | ⟨h1, h2, h3⟩)
        · have : j = i := by injection e
          subst this
          refine ⟨Nat.le_refl _, by omega, ?_⟩
          intro m hm1 hm2
          have : m = j := by omega
          subst this; simp [ho]
        · refine ⟨by omega, by omega, ?_⟩
          intro m hm1 hm2
          by_cases e : m = i
          · subst e; simp [ho]
          · have := h3 m (by omega) hm2
            simp only [upd_apply] at this
            have hne : (⟨c, m⟩ : Key) ≠ ⟨c, i⟩ := by intro hh; injection hh with _ hh; exact e hh
            simpa [hne] using this
      · rintro ⟨h1, h2, h3⟩
        by_cases e : j = i
        · left; rw [e]
        · right
          refine ⟨by omega, by omega, ?_⟩
          intro m hm1 hm2
          have := h3 m (by omega) hm2
          simp only [upd_apply]
          have hne : (⟨c, m⟩ : Key) ≠ ⟨c, i⟩ := by
            intro hh; injection hh with _ hh; omega
          simpa [hne] using this

theorem trimRun_chan (c : Nat) (f i : Nat) (s : State) :
    ∀ x ∈ (trimRun c f i s).2, x.chan = c := by
  induction f generalizing i s with
  | zero => simp [trimRun]
  | succ f ih =>
    cases ho : s.opened ⟨c, i⟩ with
    | none => rw [trimRun_none c f i s ho]; simp
    | some id =>
      rw [trimRun_some c f i s id ho]
      intro x hx
      simp only [List.mem_cons] at hx
      cases hx with
      | inl e => rw [e]
      | inr hx => exact ih _ _ x hx

theorem trimRun_opened (c : Nat) (f i : Nat) (s : State) (x : Key) :
    (trimRun c f i s).1.opened x = if x ∈ (trimRun c f i s).2 then none else s.opened x := by
  induction f generalizing i s with
  | zero => simp [trimRun]
  | succ f ih =>
    cases ho : s.opened ⟨c, i⟩ with
    | none => rw [trimRun_none c f i s ho]; simp
    | some id =>
      rw [trimRun_some c f i s id ho]
      simp only []
      rw [ih]
      simp only [List.mem_cons]
      by_cases h1 : x ∈ (trimRun c f (i + 1) (trimStep s ⟨c, i⟩ id)).2
      · simp [h1]
      · simp only [h1, if_false, or_false]
        simp only [trimStep, upd_apply]

/-- objects: `loaded` and `inKey` are never touched by a trim. -/
theorem trimRun_objs (c : Nat) (f i : Nat) (s : State) (id : ObjId) :
    ((trimRun c f i s).1.objs id).loaded = (s.objs id).loaded ∧
    ((trimRun c f i s).1.objs id).inKey = (s.objs id).inKey := by
  induction f generalizing i s with
  | zero => simp [trimRun]
  | succ f ih =>
    cases ho : s.opened ⟨c, i⟩ with
    | none => rw [trimRun_none c f i s ho]; simp
    | some id' =>
      rw [trimRun_some c f i s id' ho]
      have := ih (i + 1) (trimStep s ⟨c, i⟩ id')
      simp only []
      rw [this.1, this.2]
      simp only [trimStep, upd_apply]
      by_cases e : id = id' <;> simp [e]

theorem trim_opened (s : State) (c start : Nat) (wf : Bool) (x : Key) :
    (trim s c start wf).1.opened x =
      if x ∈ (trimRun c (trimFuel start) start s).2 then none else s.opened x := by
  rw [trim_eq]
  split
  · exact trimRun_opened _ _ _ _ _
  · split
    · exact trimRun_opened _ _ _ _ _
    · exact trimRun_opened _ _ _ _ _

theorem trim_ks (s : State) (c start : Nat) (p : Key × Key) :
    p ∈ (trim s c start false).1.ks ↔ p ∈ s.ks ∧ p.1 ∉ (trimRun c (trimFuel start) start s).2 := by
  have hk := (trimRun_frame c (trimFuel start) start s).2.2.2.1
  rw [trim_eq]
  split
  · rename_i he
    have : (trimRun c (trimFuel start) start s).2 = [] := List.isEmpty_iff.mp he
    simp [hk, this]
  · simp [hk]

theorem trim_objs (s : State) (c start : Nat) (wf : Bool) (id : ObjId) :
    ((trim s c start wf).1.objs id).loaded = (s.objs id).loaded ∧
    ((trim s c start wf).1.objs id).inKey = (s.objs id).inKey := by
  rw [trim_eq]
  split
  · exact trimRun_objs _ _ _ _ _
  · split
    · exact trimRun_objs _ _ _ _ _
    · exact trimRun_objs _ _ _ _ _

theorem trim_ksFun (s : State) (c start : Nat) (wf : Bool) (h : KsFun s.ks) :
    KsFun (trim s c start wf).1.ks := by
  have hk := (trimRun_frame c (trimFuel start) start s).2.2.2.1
  rw [trim_eq]
  split
  · rw [hk]; exact h
  · split
    · rw [hk]; exact h
    · simp only [hk]; exact ksFun_filter _ _ h

/-! ### cleanClosedChannels, exactly -/

def Env.isClosed (e : Env) (c : Nat) : Bool := isClosedChan (closedSet e) c

/-- `isClosedChannel`: listed as closed, not pending, and never the zero channel id. -/
theorem Env.isClosed_iff (e : Env) (c : Nat) :
    e.isClosed c = true ↔ c ≠ 0 ∧ ∃ x ∈ e.closed, x.chan = c ∧ x.isPending = false := by
  simp only [Env.isClosed, isClosedChan, closedSet, Bool.and_eq_true, decide_eq_true_eq,
    List.contains_iff_mem, List.mem_map, List.mem_filter, Bool.not_eq_true']
  constructor
  · rintro ⟨h0, x, ⟨hx, hp⟩, hc⟩; exact ⟨h0, x, hx, hc, hp⟩
  · rintro ⟨h0, x, hx, hc, hp⟩; exact ⟨h0, x, ⟨hx, hp⟩, hc⟩

/-- the predicate under which `cleanClosedChannels` deletes a keystone (and its circuit). -/
def purgeP (e : Env) (p : Key × Key) : Bool :=
  e.isClosed p.2.chan || (e.isClosed p.1.chan && !(e.resMsg.contains p.1))

theorem purgeP_eq (e : Env) (p : Key × Key) :
    purgeP e p = (isClosedChan (closedSet e) p.2.chan ||
      (isClosedChan (closedSet e) p.1.chan && !decide (p.1 ∈ e.resMsg))) := by
  simp [purgeP, Env.isClosed]

theorem isClosed_of_empty (e : Env) (h : (closedSet e).isEmpty = true) (c : Nat) :
    e.isClosed c = false := by
  have : closedSet e = [] := List.isEmpty_iff.mp h
  simp [Env.isClosed, isClosedChan, this]

theorem cleanClosed_adds (e : Env) (s : State) (k : Key) :
    k ∈ (cleanClosed e s).adds ↔
      k ∈ s.adds ∧ e.isClosed k.chan = false ∧ ∀ p ∈ s.ks, p.2 = k → purgeP e p = false := by
  unfold cleanClosed
  simp only []
  split
  · rename_i he
    have hc := isClosed_of_empty e he
    simp [purgeP, hc]
  · simp only [List.mem_filter, Bool.not_eq_true', List.contains_eq_mem, List.mem_append,
      List.mem_map, decide_eq_false_iff_not, purgedKs, not_or, not_exists, not_and]
    constructor
    · rintro ⟨h1, h2, h3⟩
      refine ⟨h1, ?_, ?_⟩
      · cases hh : e.isClosed k.chan with
        | false => rfl
        | true => exact absurd hh (h2 h1)
      · intro p hp hk
        cases hh : purgeP e p with
        | false => rfl
        | true => rw [purgeP_eq] at hh; exact absurd hk (h3 p ⟨hp, hh⟩)
    · rintro ⟨h1, h2, h3⟩
      refine ⟨h1, ?_, ?_⟩
      · intro _ hh; rw [Env.isClosed] at h2; rw [h2] at hh; cases hh
      · intro p hp hk
        have := h3 p hp.1 hk
        rw [purgeP_eq] at this
        rw [this] at hp
        exact Bool.false_ne_true hp.2

theorem cleanClosed_ks (e : Env) (s : State) (h : KsFun s.ks) (p : Key × Key) :
    p ∈ (cleanClosed e s).ks ↔ p ∈ s.ks ∧ purgeP e p = false := by
  unfold cleanClosed
  simp only []
  split
  · rename_i he
    have hc := isClosed_of_empty e he
    simp [purgeP, hc]
  · simp only [List.mem_filter, Bool.not_eq_true', List.contains_eq_mem, List.mem_map,
      decide_eq_false_iff_not, purgedKs, not_exists, not_and]
    constructor
    · rintro ⟨h1, h2⟩
      refine ⟨h1, ?_⟩
      cases hh : purgeP e p with
      | false => rfl
      | true => rw [purgeP_eq] at hh; exact absurd rfl (h2 p ⟨h1, hh⟩)
    · rintro ⟨h1, h2⟩
      refine ⟨h1, ?_⟩
      intro q hq e1
      have := ksFun_unique s.ks h q p hq.1 h1 e1
      subst this
      rw [purgeP_eq] at h2
      rw [h2] at hq
      exact Bool.false_ne_true hq.2

theorem cleanClosed_ksFun (e : Env) (s : State) (h : KsFun s.ks) : KsFun (cleanClosed e s).ks := by
  unfold cleanClosed
  simp only []
  split
  · exact h
  · exact ksFun_filter _ _ h

/-! ### restoreMemState -/

theorem restore_opened (s : State) (h : KsFun s.ks) (o : Key) (id : ObjId) :
    (restore s).opened o = some id ↔ ∃ k, id = .disk k ∧ (o, k) ∈ s.ks ∧ k ∈ s.adds := by
  simp only [restore]
  cases hg : ksGet s.ks o with
  | none =>
    have := (ksGet_eq_none_iff s.ks o).mp hg
    simp only [reduceCtorEq, false_iff, not_exists, not_and]
    intro k _ hk; exact absurd hk (this k)
  | some k =>
    have hm := (ksGet_eq_some_iff s.ks h o k).mp hg
    simp only [List.contains_eq_mem, decide_eq_true_eq]
    constructor
    · intro hh
      split at hh
      · rename_i hk
        exact ⟨k, by injection hh with hh; exact hh.symm, hm, hk⟩
      · cases hh
    · rintro ⟨k', e, hm', hk'⟩
      have := ksFun_unique s.ks h (o, k) (o, k') hm hm' rfl
      injection this with _ this
      subst this
      simp [hk', e]

theorem restore_ks (s : State) (p : Key × Key) :
    p ∈ (restore s).ks ↔ p ∈ s.ks ∧ ¬(p.1.chan = sourceChan ∧ p.2 ∉ s.adds) := by
  simp only [restore, List.mem_filter, Bool.not_eq_true', Bool.and_eq_false_imp, decide_eq_true_eq,
    Bool.not_eq_false', List.contains_eq_mem, not_and, Decidable.not_not]

theorem restore_ksFun (s : State) (h : KsFun s.ks) : KsFun (restore s).ks :=
  ksFun_filter _ _ h

/-! ### trimAllOpenCircuits -/

theorem trimAll_ksFun (s : State) (l : List ActiveChan) (h : KsFun s.ks) : KsFun (trimAll s l).ks := by
  induction l generalizing s with
  | nil => exact h
  | cons a rest ih =>
    simp only [trimAll]
    split
    · exact ih s h
    · exact ih _ (trim_ksFun s _ _ _ h)

/-- the relation "opened = keystones whose circuit exists" is kept by every (successful) trim. -/
def OpenedIffKs (s : State) : Prop :=
  ∀ o, (s.opened o).isSome ↔ ∃ k, (o, k) ∈ s.ks ∧ k ∈ s.adds

theorem trim_openedIffKs (s : State) (c start : Nat) (h : OpenedIffKs s) :
    OpenedIffKs (trim s c start false).1 := by
  intro o
  rw [trim_opened, (trim_frame s c start false).2.2]
  by_cases hm : o ∈ (trimRun c (trimFuel start) start s).2
  · simp only [hm, if_true, Option.isSome_none, Bool.false_eq_true, false_iff, not_exists, not_and]
    intro k hk
    exact absurd hm ((trim_ks s c start (o, k)).mp hk).2
  · simp only [hm, if_false, h o]
    constructor
    · rintro ⟨k, hk, ha⟩; exact ⟨k, (trim_ks s c start (o, k)).mpr ⟨hk, hm⟩, ha⟩
    · rintro ⟨k, hk, ha⟩; exact ⟨k, ((trim_ks s c start (o, k)).mp hk).1, ha⟩

theorem trimAll_openedIffKs (s : State) (l : List ActiveChan) (h : OpenedIffKs s) :
    OpenedIffKs (trimAll s l) := by
  induction l generalizing s with
  | nil => exact h
  | cons a rest ih =>
    simp only [trimAll]
    split
    · exact ih s h
    · exact ih _ (trim_openedIffKs s _ _ h)

theorem trimAll_objs (s : State) (l : List ActiveChan) (id : ObjId) :
    ((trimAll s l).objs id).loaded = (s.objs id).loaded ∧
    ((trimAll s l).objs id).inKey = (s.objs id).inKey := by
  induction l generalizing s with
  | nil => simp [trimAll]
  | cons a rest ih =>
    simp only [trimAll]
    split
    · exact ih s
    · have h1 := ih (trim s a.chan (nextLocalHtlcIndex a) false).1
      have h2 := trim_objs s a.chan (nextLocalHtlcIndex a) false id
      exact ⟨h1.1.trans h2.1, h1.2.trans h2.2⟩

/-- trims only ever remove entries of `opened`. -/
theorem trimAll_opened_sub (s : State) (l : List ActiveChan) (o : Key) :
    s.opened o = none → (trimAll s l).opened o = none := by
  induction l generalizing s with
  | nil => exact id
  | cons a rest ih =>
    intro h
    simp only [trimAll]
    split
    · exact ih s h
    · apply ih
      rw [trim_opened]; simp [h]

/-- a trim of another channel does not touch this channel's entries. -/
theorem trim_opened_other (s : State) (c start : Nat) (wf : Bool) (o : Key) (h : o.chan ≠ c) :
    (trim s c start wf).1.opened o = s.opened o := by
  rw [trim_opened]
  have : o ∉ (trimRun c (trimFuel start) start s).2 := by
    intro hm; exact h (trimRun_chan _ _ _ _ o hm)
  simp [this]

/-! ### the keystone bucket stays a map along every run -/

theorem deleteDisk_ksFun (s : State) (rm : List Removed) (h : KsFun s.ks) :
    KsFun (deleteDisk s rm).ks := by
  induction rm generalizing s with
  | nil => exact h
  | cons r rest ih =>
    simp only [deleteDisk]
    apply ih
    simp only [ksDelOpt]
    split
    · exact ksFun_ksDel _ _ h
    · exact h

theorem ksFun_step (s : State) (op : Op) (h : KsFun s.ks) : KsFun (step s op).1.ks := by
  cases op with
  | commit b wf =>
    simp only [step, (commit_spec s b wf).2.2.2.2.2.2.2.1]; exact h
  | «open» kst wf =>
    simp only [step, openCircuits]
    split
    · exact h
    · split
      · exact h
      · split
        · exact h
        · rw [(openMem_frame _ _).2.2.2.1]; exact ksFun_ksPutAll _ _ h
  | trim c st wf => exact trim_ksFun s c st wf h
  | close o => simp only [step, (close_spec s o).2.2.2.1]; exact h
  | fail k => simp only [step, (fail_spec s k).2.2.2.1]; exact h
  | delete keys wf =>
    cases wf with
    | false =>
      simp only [step, deleteCircuits, Bool.not_false, if_true]
      apply deleteDisk_ksFun
      rw [(deleteMem_frame s keys).2.1]; exact h
    | true =>
      simp only [step, ((delete_spec s keys true).2.2 rfl).2.2.2.1]; exact h
  | restart e =>
    exact trimAll_ksFun _ _ (restore_ksFun _ (cleanClosed_ksFun e s h))

theorem ksFun_run (s : State) (ops : List Op) (h : KsFun s.ks) : KsFun (run s ops).ks := by
  induction ops generalizing s with
  | nil => exact h
  | cons op rest ih => exact ih _ (ksFun_step s op h)

/-! ### commit: objects that already exist are not touched -/

theorem commitLoop_objs (s : State) (b : List Key) :
    s.next ≤ (commitLoop s b).1.next ∧
    (∀ k, (commitLoop s b).1.objs (.disk k) = s.objs (.disk k)) ∧
    (∀ n, n < s.next → (commitLoop s b).1.objs (.fresh n) = s.objs (.fresh n)) := by
  induction b generalizing s with
  | nil => simp [commitLoop]
  | cons k rest ih =>
    rw [commitLoop_fst_cons]
    split
    · have := ih (alloc s k)
      simp only [alloc_next] at this
      refine ⟨by omega, ?_, ?_⟩
      · intro k'; rw [this.2.1]; simp [alloc, upd_apply]
      · intro n hn
        rw [this.2.2 n (by omega)]
        simp only [alloc, upd_apply]
        have : ObjId.fresh n ≠ ObjId.fresh s.next := by intro e; injection e; omega
        simp [this]
    · exact ih s

/-! ### delete: exact rollback of `opened` -/

theorem deleteMem_opened (s : State) (keys : List Key) (x : Key) :
    (deleteMem s keys).1.opened x = s.opened x ∨
      ∃ r ∈ (deleteMem s keys).2, (s.objs r.obj).outgoing = some x := by
  induction keys generalizing s with
  | nil => simp [deleteMem]
  | cons k rest ih =>
    cases hp : s.pending k with
    | none => rw [deleteMem_none s k rest hp]; exact ih s
    | some id =>
      rw [deleteMem_some s k rest id hp]
      have hobjs : (delStep s k id).objs = s.objs := rfl
      cases ih (delStep s k id) with
      | inl h =>
        simp only [h]
        cases ho : (s.objs id).outgoing with
        | none => left; simp [delStep, openedDel, ho]
        | some o =>
          by_cases e : x = o
          · right; exact ⟨_, List.mem_cons_self, by simp [ho, e]⟩
          · left; simp [delStep, openedDel, ho, upd_apply, e]
      | inr h =>
        obtain ⟨r, hr, ho⟩ := h
        rw [hobjs] at ho
        right; exact ⟨r, List.mem_cons_of_mem _ hr, ho⟩

theorem deleteRollback_opened (g : Key → Option ObjId) (objs : ObjId → Circuit) (s : State)
    (rm : List Removed) (hobjs : s.objs = objs)
    (h1 : ∀ r ∈ rm, ∀ o, (objs r.obj).outgoing = some o → g o = some r.obj)
    (h2 : ∀ x, s.opened x = g x ∨ ∃ r ∈ rm, (objs r.obj).outgoing = some x) :
    ∀ x, (deleteRollback s rm).opened x = g x := by
  induction rm generalizing s with
  | nil =>
    intro x
    cases h2 x with
    | inl h => simpa [deleteRollback] using h
    | inr h => obtain ⟨r, hr, _⟩ := h; cases hr
  | cons r rest ih =>
    simp only [deleteRollback]
    apply ih
    · exact hobjs
    · intro r' hr'; exact h1 r' (List.mem_cons_of_mem _ hr')
    · intro x
      simp only [hobjs]
      cases ho : (objs r.obj).outgoing with
      | none =>
        simp only [openedSet]
        cases h2 x with
        | inl h => exact Or.inl h
        | inr h =>
          obtain ⟨r', hr', hk⟩ := h
          cases hr' with
          | head => rw [ho] at hk; cases hk
          | tail _ hr'' => exact Or.inr ⟨r', hr'', hk⟩
      | some o =>
        simp only [openedSet, upd_apply]
        by_cases e : x = o
        · left; simp [e, h1 r List.mem_cons_self o ho]
        · simp only [e, if_false]
          cases h2 x with
          | inl h => exact Or.inl h
          | inr h =>
            obtain ⟨r', hr', hk⟩ := h
            cases hr' with
            | head => rw [ho] at hk; injection hk with hk; exact absurd hk.symm e
            | tail _ hr'' => exact Or.inr ⟨r', hr'', hk⟩

end LndModel.C07
