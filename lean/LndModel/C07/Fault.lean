/-
C07 — startup trim with failing store reads.

`circuitMap.trimAllOpenCircuits` (htlcswitch/circuit_map.go) calls
`OpenChannel.NextLocalHtlcIndex` (chanstate/open_channel.go) for every live channel, which reads
the pending remote commitment through `Store.RemoteCommitChainTip`.  That read has three outcomes:
`ErrNoPendingCommit`, a commit diff, or another (storage) error.  This file models the third one:
`NextLocalHtlcIndex` returns the error and `NewCircuitMap` fails, leaving on disk whatever the
purge, the stray-keystone pruning and the trims of the channels visited earlier already wrote.

Tied to the code by the `htlcswitch` harness stream: restarts with the k-th store read failing
(`restart … fail=k`), full dump of both buckets after a failed start, and `nextidx` lines with a
failing read.
-/
import LndModel.C07.Model

namespace LndModel.C07

/-- outcome of `Store.RemoteCommitChainTip`. -/
inductive TipRead where
  | noPending            -- ErrNoPendingCommit
  | pending (idx : Nat)  -- a signed, not yet revoked remote commitment; its LocalHtlcIndex
  | readErr              -- any other error
deriving DecidableEq, Repr

/-- `OpenChannel.NextLocalHtlcIndex`: `none` = the error is returned to the caller. -/
def nextLocalHtlcIndexE (remoteIdx : Nat) : TipRead → Option Nat
  | .noPending => some remoteIdx
  | .pending n => some n
  | .readErr => none

/-- what the store holds for a channel of the restart environment. -/
def tipOf (a : ActiveChan) : TipRead :=
  match a.pendingIdx with
  | some n => .pending n
  | none => .noPending

/-- `trimAllOpenCircuits` when the `f`-th call of `RemoteCommitChainTip` (0-based, in
    `FetchAllOpenChannels` order over the channels that are neither pending nor `hop.Source`)
    fails.  Returns the state reached and whether an error was returned. -/
def trimAllF (s : State) : Option Nat → List ActiveChan → State × Bool
  | _, [] => (s, false)
  | f, a :: rest =>
    if a.isPending || decide (a.chan = sourceChan) then trimAllF s f rest
    else
      match nextLocalHtlcIndexE a.remoteIdx (if f = some 0 then .readErr else tipOf a) with
      | none => (s, true)
      | some n => trimAllF (trim s a.chan n false).1 (f.map (· - 1)) rest

/-- `NewCircuitMap` on an existing DB with a failing read. -/
def restartF (e : Env) (f : Option Nat) (s : State) : State × Bool :=
  trimAllF (restore (cleanClosed e s)) f e.active

end LndModel.C07
