/-
C07 — a torn record is never accepted: no strict prefix of `Encode(c)` decodes
(`decode_truncated`), because `Decode` consumes at least the bytes `Encode` of its result writes
(`decode_consumes`).  Backs the monitor clause `truncated-record-accepted`.
-/
import LndModel.C07.CodecProps

namespace LndModel.C07

theorem readN_ok {n : Nat} {bs a r : Bytes} (h : readN n bs = .ok (a, r)) :
    bs = a ++ r ∧ a.length = n := by
  unfold readN at h
  split at h
  · cases h
  · split at h
    · cases h
    · rename_i h1 h2
      injection h with h
      injection h with ha hr
      subst ha; subst hr
      exact ⟨(List.take_append_drop n bs).symm, List.length_take_of_le (by omega)⟩

theorem decodeEnc_len {vk : Bytes → Bool} {t : Nat} {r : Bytes} {enc : Option Enc}
    (h : decodeEnc vk t r = .ok enc) : (encBytes enc).length ≤ 1 + r.length := by
  unfold decodeEnc at h
  split at h
  · cases h; simp [encBytes]
  · split at h
    · cases h; simp [encBytes]
    · split at h
      · split at h
        · cases h
        · rename_i e rest hr
          obtain ⟨h1, h2⟩ := readN_ok hr
          split at h
          · cases h; simp only [encBytes, List.length_cons, h2]
            rw [h1, List.length_append, h2]; omega
          · cases h
      · cases h

/-- `Decode` consumes at least what `Encode` of its result writes. -/
theorem decode_consumes (vk : Bytes → Bool) (bs : Bytes) (c : PCircuit)
    (h : decodeCircuit vk bs = .ok c) : (encodeCircuit c).length ≤ bs.length := by
  unfold decodeCircuit at h
  split at h; · cases h
  rename_i a1 r1 h1
  split at h; · cases h
  rename_i a2 r2 h2
  split at h; · cases h
  rename_i a3 r3 h3
  split at h; · cases h
  rename_i a4 r4 h4
  split at h; · cases h
  rename_i a5 r5 h5
  split at h; · cases h
  rename_i a6 r6 h6
  split at h; · cases h
  rename_i a7 r7 h7
  split at h; · cases h
  rename_i enc henc
  cases h
  obtain ⟨e1, l1⟩ := readN_ok h1
  obtain ⟨e2, l2⟩ := readN_ok h2
  obtain ⟨e3, l3⟩ := readN_ok h3
  obtain ⟨e4, l4⟩ := readN_ok h4
  obtain ⟨e5, l5⟩ := readN_ok h5
  obtain ⟨e6, l6⟩ := readN_ok h6
  obtain ⟨e7, l7⟩ := readN_ok h7
  have he := decodeEnc_len henc
  have b1 : bs.length = a1.length + r1.length := by rw [e1, List.length_append]
  have b2 : r1.length = a2.length + r2.length := by rw [e2, List.length_append]
  have b3 : r2.length = a3.length + r3.length := by rw [e3, List.length_append]
  have b4 : r3.length = a4.length + r4.length := by rw [e4, List.length_append]
  have b5 : r4.length = a5.length + r5.length := by rw [e5, List.length_append]
  have b6 : r5.length = a6.length + r6.length := by rw [e6, List.length_append]
  have b7 : r6.length = a7.length + r7.length := by rw [e7, List.length_append]
  simp only [encodeCircuit, List.length_append, beEnc_length, keyBytes_length]
  omega


theorem readN_mono {n : Nat} {bs a r : Bytes} (q : Bytes) (hn : 0 < n) (h : readN n bs = .ok (a, r)) :
    readN n (bs ++ q) = .ok (a, r ++ q) := by
  obtain ⟨e, l⟩ := readN_ok h
  rw [e, List.append_assoc]
  exact readN_append n a (r ++ q) l hn

theorem decodeEnc_mono {vk : Bytes → Bool} {t : Nat} {r : Bytes} {enc : Option Enc} (q : Bytes)
    (h : decodeEnc vk t r = .ok enc) : decodeEnc vk t (r ++ q) = .ok enc := by
  unfold decodeEnc at h ⊢
  by_cases t0 : t = 0
  · simp only [t0, if_true] at h ⊢; exact h
  · by_cases t2 : t = 2
    · simp only [t2, if_true] at h ⊢; exact h
    · by_cases hs : sphinxLike t = true
      · simp only [t0, t2, hs, if_false, if_true] at h ⊢
        split at h
        · cases h
        · rename_i e rest hr
          rw [readN_mono q (by omega) hr]
          exact h
      · simp only [t0, t2, hs, if_false] at h ⊢
        exact h

/-- `Decode` only looks at a prefix: more bytes behind an accepted input change nothing. -/
theorem decode_mono (vk : Bytes → Bool) (bs q : Bytes) (c : PCircuit)
    (h : decodeCircuit vk bs = .ok c) : decodeCircuit vk (bs ++ q) = .ok c := by
  unfold decodeCircuit at h ⊢
  split at h; · cases h
  rename_i a1 r1 h1
  split at h; · cases h
  rename_i a2 r2 h2
  split at h; · cases h
  rename_i a3 r3 h3
  split at h; · cases h
  rename_i a4 r4 h4
  split at h; · cases h
  rename_i a5 r5 h5
  split at h; · cases h
  rename_i a6 r6 h6
  split at h; · cases h
  rename_i a7 r7 h7
  split at h; · cases h
  rename_i enc henc
  rw [readN_mono q (by omega) h1]; simp only
  rw [readN_mono q (by omega) h2]; simp only
  rw [readN_mono q (by omega) h3]; simp only
  rw [readN_mono q (by omega) h4]; simp only
  rw [readN_mono q (by omega) h5]; simp only
  rw [readN_mono q (by omega) h6]; simp only
  rw [readN_mono q (by omega) h7]; simp only
  rw [decodeEnc_mono q henc]
  exact h

/-- **no torn record is accepted**: a strict prefix of a record never decodes. -/
theorem decode_truncated (vk : Bytes → Bool) (c : PCircuit) (ok : c.Ok vk) (n : Nat)
    (hn : n < (encodeCircuit c).length) :
    ∃ e, decodeCircuit vk ((encodeCircuit c).take n) = .error e := by
  cases hd : decodeCircuit vk ((encodeCircuit c).take n) with
  | error e => exact ⟨e, rfl⟩
  | ok c' =>
    exfalso
    have hlen := decode_consumes vk _ c' hd
    have hfull := decode_mono vk _ ((encodeCircuit c).drop n) c' hd
    rw [List.take_append_drop, decode_encode' vk c ok] at hfull
    have : c = c' := Except.ok.inj hfull
    subst this
    rw [List.length_take] at hlen
    omega

end LndModel.C07
