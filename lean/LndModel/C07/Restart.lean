/-
C07 — restart level: the response path of the switch across node restarts.

Model of `Switch.Start` → `reforwardResponses` → `reforwardSettleFails`
(htlcswitch/switch.go) over the durable forwarding packages of the outgoing
channels with their per-index `SettleFailFilter` acks (channeldb packager:
`AddFwdPkg`, `AckSettleFails`, `LoadChannelFwdPkgs`), of
`handlePacketSettle` / `handlePacketFail` → `closeCircuit` for responses that
carry a `destRef` (circuit-map arbitration, `pendingSettleFails` for unknown
circuits, `mailOrchestrator.Deliver` to the incoming link), of the switch's
batched ack of `pendingSettleFails`, and of the incoming link as the harness
plays it:

  receive a response from the mailbox            (volatile: the link's update log)
  sign the next commitment                       (durable, ONE transaction: the commit diff
                                                  and `AckSettleFails(destRef)`; this is the
                                                  moment the response is "delivered back to the
                                                  incoming channel" for good)
  delete the circuits closed by that commitment  (`DeleteCircuits`, then mailbox `AckPacket`)

A node restart may happen between any two of these steps.  The circuit map
underneath is the heap model of `Model.lean` (same `State`, same functions).

Hand-written; tied to the code by the `swrestart` harness stream, which drives
the real `Switch` (`New`, `Start`, `ForwardPackets`, `Stop`) over a real bbolt
file with real forwarding packages and compares the circuit map, the filter
bits of every package, `pendingSettleFails` and the mailbox queues with this
model after every operation.
-/
import LndModel.C07.Model

namespace LndModel.C07

/-- `channeldb.SettleFailRef`: (Source, Height, Index). -/
structure Ref where
  chan : Nat
  height : Nat
  idx : Nat
deriving DecidableEq, Repr

/-- one settle/fail of a forwarding package, with its `SettleFailFilter` bit. The packages are
    kept flat: the entries of package (chan, height) are those with that `ref.chan`/`ref.height`. -/
structure FEnt where
  ref : Ref
  /-- (fwdPkg.Source, msg.ID): the outgoing HTLC the peer answered -/
  out : Key
  settle : Bool
  acked : Bool
deriving DecidableEq, Repr

/-- a response packet after `closeCircuit` filled in the incoming key. -/
structure Resp where
  inKey : Key
  ref : Ref
  settle : Bool
deriving DecidableEq, Repr

structure Sys where
  cm : State
  /-- durable: all forwarding-package settle/fails, in the order the packages were written -/
  ents : List FEnt
  /-- volatile: `Switch.pendingSettleFails` -/
  pendAcks : List Ref
  /-- volatile: responses handed to `mailOrchestrator.Deliver`, not yet taken by the incoming link -/
  mbox : List Resp
  /-- volatile: responses the incoming link applied to its update log, not yet signed -/
  inbox : List Resp
  /-- circuits closed by the incoming links' last commitments, not yet deleted (the commit diff's
      `ClosedCircuitKeys`: durable, the link deletes them after signing or after a reconnect) -/
  signed : List Key
  /-- history: responses durably committed on the incoming channel for the key since it was last
      returned in `CircuitFwdActions.Adds` -/
  committed : Key → Nat

def Sys.init : Sys :=
  { cm := State.init, ents := [], pendAcks := [], mbox := [], inbox := [], signed := [],
    committed := fun _ => 0 }

/-- `AckSettleFails(refs...)`: set the filter bits. -/
def ackRefs (ents : List FEnt) (refs : List Ref) : List FEnt :=
  ents.map (fun e => if refs.contains e.ref then { e with acked := true } else e)

/-- `handlePacketSettle` / `handlePacketFail` for a packet built from a forwarding-package entry
    (`destRef` set, `hasSource` false): `closeCircuit` → `CloseCircuit(outKey)`. -/
def fwdEntry (σ : Sys) (e : FEnt) : Sys :=
  match closeCircuit σ.cm e.out with
  | (cm', .ok k) =>
    -- responses for locally initiated payments go to the network result store, not to a mailbox
    if k.chan = sourceChan then { σ with cm := cm' }
    else { σ with cm := cm', mbox := σ.mbox ++ [⟨k, e.ref, e.settle⟩] }
  | (_, .closing) => σ
  | (_, .unknown) => { σ with pendAcks := σ.pendAcks ++ [e.ref] }

/-- forward every not yet acknowledged settle/fail selected by `sel`, in package order
    (`reforwardSettleFails`, and the outgoing link's `processRemoteSettleFails`). -/
def reforward (σ : Sys) (sel : FEnt → Bool) : Sys :=
  (σ.ents.filter (fun e => sel e && !e.acked)).foldl fwdEntry σ

/-- `reforwardResponses`: every known, non-pending channel except `hop.Source`, in
    `FetchAllChannels` order. -/
def reforwardAll (σ : Sys) : List ActiveChan → Sys
  | [] => σ
  | a :: rest =>
    if a.isPending || decide (a.chan = sourceChan) then reforwardAll σ rest
    else reforwardAll (reforward σ (fun e => decide (e.ref.chan = a.chan))) rest

/-- first element satisfying `p`, and the list without it. -/
def popFirst {α : Type} (p : α → Bool) : List α → Option (α × List α)
  | [] => none
  | x :: rest =>
    if p x then some (x, rest)
    else match popFirst p rest with
      | none => none
      | some (y, rest') => some (y, x :: rest')

inductive SOp where
  /-- `ForwardPackets` with adds / `CommitCircuits` -/
  | commit (batch : List Key) (wf : Bool)
  /-- the outgoing link opens circuits -/
  | open (kst : List (Key × Key)) (wf : Bool)
  /-- the outgoing channel received a revocation: `AddFwdPkg(chan, height, settle/fails)` -/
  | pkg (chan height : Nat) (ents : List (Key × Bool))
  /-- the outgoing link hands the un-acked settle/fails of package (chan, height) to the switch
      (first time, or again after a link restart) -/
  | fwd (chan height : Nat)
  /-- the ack ticker fires: `ackSettleFail(pendingSettleFails...)`; `wf` = the write fails -/
  | swAck (wf : Bool)
  /-- incoming link `sid` takes the next response out of its mailbox -/
  | recv (sid : Nat)
  /-- incoming link `sid` signs a commitment containing its oldest applied response -/
  | sign (sid : Nat)
  /-- incoming link `sid` deletes the circuits closed by its last commitment(s) -/
  | del (sid : Nat) (wf : Bool)
  /-- node restart: everything volatile is gone; `NewCircuitMap` ; `Switch.Start` -/
  | restart (e : Env)

def mkEnts (chan height : Nat) : Nat → List (Key × Bool) → List FEnt
  | _, [] => []
  | i, (o, s) :: rest => ⟨⟨chan, height, i⟩, o, s, false⟩ :: mkEnts chan height (i + 1) rest

def sstep (σ : Sys) : SOp → Sys
  | .commit b wf =>
    let r := commit σ.cm b wf
    { σ with cm := r.1, committed := fun k => if k ∈ r.2.adds then 0 else σ.committed k }
  | .open kst wf => { σ with cm := (openCircuits σ.cm kst wf).1 }
  | .pkg c h l => { σ with ents := σ.ents ++ mkEnts c h 0 l }
  | .fwd c h => reforward σ (fun e => decide (e.ref.chan = c) && decide (e.ref.height = h))
  | .swAck wf =>
    if wf then σ else { σ with ents := ackRefs σ.ents σ.pendAcks, pendAcks := [] }
  | .recv sid =>
    match popFirst (fun r : Resp => decide (r.inKey.chan = sid)) σ.mbox with
    | none => σ
    | some (r, rest) => { σ with mbox := rest, inbox := σ.inbox ++ [r] }
  | .sign sid =>
    match popFirst (fun r : Resp => decide (r.inKey.chan = sid)) σ.inbox with
    | none => σ
    | some (r, rest) =>
      { σ with inbox := rest, ents := ackRefs σ.ents [r.ref], signed := σ.signed ++ [r.inKey],
               committed := fun k => σ.committed k + (if k = r.inKey then 1 else 0) }
  | .del sid wf =>
    let keys := σ.signed.filter (fun k => decide (k.chan = sid))
    let r := deleteCircuits σ.cm keys wf
    if r.2 then { σ with cm := r.1 }
    else { σ with cm := r.1, signed := σ.signed.filter (fun k => !decide (k.chan = sid)) }
  | .restart e =>
    let cm' := restart e σ.cm
    reforwardAll
      { cm := cm', ents := σ.ents, pendAcks := [], mbox := [], inbox := [],
        signed := σ.signed.filter (fun k => cm'.adds.contains k),
        committed := fun k => if cm'.adds.contains k then σ.committed k else 0 }
      e.active

def srun (σ : Sys) : List SOp → Sys
  | [] => σ
  | op :: rest => srun (sstep σ op) rest

end LndModel.C07
