/-
C07 — restart level, property theorems: across any number of node restarts, with a crash possible
between any two durable writes of the response path (forwarding package written / response relayed
into the incoming link's mailbox / incoming commitment signed together with the ack of the
`SettleFailRef` / circuit deleted), at most one settle-or-fail per incoming HTLC is committed on
the incoming channel, and once one is committed the switch never relays another one.

Model: `Restart.lean` (system state = circuit map of `Model.lean` + forwarding packages with
`SettleFailFilter` bits + `pendingSettleFails` + mailbox + the incoming link's update log and
closed-circuit list).  Invariant and step lemmas: `RestartLemmas.lean`.

Hypotheses (`Good`, all about the environment, none about the switch):
  * `OpenOk` — the outgoing link files one fresh keystone per circuit (as in `wf_run`);
  * the peer settles/fails an outgoing HTLC at most once (out keys of all package entries are
    distinct) — outgoing channel state machine;
  * at a restart every answered out id lies below `NextLocalHtlcIndex` of its channel (the peer only
    answers HTLCs that reached a commitment), so the startup trim does not roll back a circuit whose
    response is already in a forwarding package.
Not in this model (see notes): responses without a `destRef` (local failures by the outgoing
link's mailbox, on-chain resolution messages), re-forwarding of Adds by the incoming link's own
forwarding packages (`FwdFilter`, property C08).
-/
import LndModel.C07.RestartLemmas

namespace LndModel.C07

/-- **at_most_one_response.** Along any operation list — forwards, package writes, (re)forwards of
    packages by the outgoing link, mailbox deliveries, commitments of the incoming link, circuit
    deletions with or without write failure, the switch's batched acks, and node restarts with
    arbitrary closed-channel sets at ANY point in between — the number of responses durably
    committed on the incoming channel for an HTLC since it was forwarded is at most one. -/
theorem at_most_one_response (ops : List SOp) (hg : Good Sys.init ops) (k : Key) :
    (srun Sys.init ops).committed k ≤ 1 :=
  (sinv_srun Sys.init ops sinv_init hg).le k

/-- **no_relay_after_durable_ack.** Once the incoming link has durably committed a response for an
    HTLC (commit diff + `AckSettleFails` in one transaction), no further response for that HTLC is
    in, or ever enters, the incoming link's mailbox or update log — whether or not the circuit was
    deleted before the node went down, and however often the node restarts. -/
theorem no_relay_after_durable_ack (ops : List SOp) (hg : Good Sys.init ops) (k : Key)
    (hk : (srun Sys.init ops).committed k = 1) :
    ∀ r ∈ (srun Sys.init ops).mbox ++ (srun Sys.init ops).inbox, r.inKey ≠ k := by
  intro r hr e
  have := (sinv_srun Sys.init ops sinv_init hg).excl r hr
  rw [e, hk] at this
  cases this

/-- at most one response per incoming HTLC is in flight (mailbox + update log) at any time. -/
theorem one_response_in_flight (ops : List SOp) (hg : Good Sys.init ops) :
    (((srun Sys.init ops).mbox ++ (srun Sys.init ops).inbox).map (·.inKey)).Nodup :=
  (sinv_srun Sys.init ops sinv_init hg).liveNodup

/-- a committed response keeps its forwarding-package entry acknowledged for as long as the circuit
    exists: this is what makes `reforwardSettleFails` skip it after a restart. -/
theorem committed_entry_stays_acked (ops : List SOp) (hg : Good Sys.init ops) (k : Key)
    (hk : (srun Sys.init ops).committed k = 1)
    (hp : ((srun Sys.init ops).cm.pending k).isSome = true) :
    ∃ e ∈ (srun Sys.init ops).ents, e.acked = true ∧ (e.out, k) ∈ (srun Sys.init ops).cm.ks :=
  (sinv_srun Sys.init ops sinv_init hg).done k (by omega) hp

/-! ### `reforwardSettleFails` never relays an acknowledged entry (no hypothesis at all) -/

theorem foldl_fwdEntry_mbox (l : List FEnt) (σ : Sys) (r : Resp)
    (hr : r ∈ (l.foldl fwdEntry σ).mbox) : r ∈ σ.mbox ∨ ∃ e ∈ l, e.ref = r.ref := by
  induction l generalizing σ with
  | nil => exact Or.inl hr
  | cons e rest ih =>
    simp only [List.foldl_cons] at hr
    cases ih (fwdEntry σ e) hr with
    | inr h =>
      obtain ⟨x, hx, hxr⟩ := h
      exact Or.inr ⟨x, List.mem_cons_of_mem _ hx, hxr⟩
    | inl h =>
      unfold fwdEntry at h
      rcases hcc : closeCircuit σ.cm e.out with ⟨cm', res⟩
      rw [hcc] at h
      cases res with
      | closing => exact Or.inl h
      | unknown => exact Or.inl h
      | ok k =>
        dsimp only at h
        split at h
        · exact Or.inl h
        · cases List.mem_append.mp h with
          | inl h1 => exact Or.inl h1
          | inr h1 =>
            have : r = ⟨k, e.ref, e.settle⟩ := by simpa using h1
            exact Or.inr ⟨e, List.mem_cons_self .., by rw [this]⟩

theorem reforward_mbox (σ : Sys) (sel : FEnt → Bool) (r : Resp) (hr : r ∈ (reforward σ sel).mbox) :
    r ∈ σ.mbox ∨ ∃ e ∈ σ.ents, e.ref = r.ref ∧ e.acked = false := by
  unfold reforward at hr
  cases foldl_fwdEntry_mbox _ σ r hr with
  | inl h => exact Or.inl h
  | inr h =>
    obtain ⟨e, he, her⟩ := h
    have := List.mem_filter.mp he
    refine Or.inr ⟨e, this.1, her, ?_⟩
    have := this.2
    simp only [Bool.and_eq_true, Bool.not_eq_true'] at this
    exact this.2

theorem reforward_ents (σ : Sys) (sel : FEnt → Bool) : (reforward σ sel).ents = σ.ents := by
  unfold reforward
  generalize σ.ents.filter (fun e => sel e && !e.acked) = l
  induction l generalizing σ with
  | nil => rfl
  | cons e rest ih => simp only [List.foldl_cons]; rw [ih, (fwdEntry_frame σ e).1]

theorem reforwardAll_mbox (l : List ActiveChan) (σ : Sys) (r : Resp)
    (hr : r ∈ (reforwardAll σ l).mbox) :
    r ∈ σ.mbox ∨ ∃ e ∈ σ.ents, e.ref = r.ref ∧ e.acked = false := by
  induction l generalizing σ with
  | nil => exact Or.inl hr
  | cons a rest ih =>
    simp only [reforwardAll] at hr
    split at hr
    · exact ih σ hr
    · cases ih _ hr with
      | inl h => exact reforward_mbox σ _ r h
      | inr h => rw [reforward_ents] at h; exact Or.inr h

/-- **restart_relays_only_unacked.** Whatever the state before the crash: every response found in a
    mailbox after `Switch.Start` stems from a forwarding-package entry whose `SettleFailFilter` bit
    was NOT set on disk. -/
theorem restart_relays_only_unacked (σ : Sys) (e : Env) (r : Resp)
    (hr : r ∈ (sstep σ (.restart e)).mbox) : ∃ x ∈ σ.ents, x.ref = r.ref ∧ x.acked = false := by
  simp only [sstep] at hr
  cases reforwardAll_mbox _ _ r hr with
  | inl h => cases h
  | inr h => exact h

/-! ### non-vacuity: the crash window of the property, on a concrete history

Two HTLCs 1.0, 1.1 are forwarded over channel 2 (out ids 0, 1); the peer settles 2.0 and fails 2.1
in ONE forwarding package (height 7); the switch relays both; the incoming link takes both out of
its mailbox, signs a commitment with the first one only (ack of entry 0 persisted) and the node goes
down before the circuit is deleted.  After the restart both circuits are still open, only the
un-acked entry 1 is relayed again, and the committed counter of 1.0 stays at one. -/

def crashOps : List SOp :=
  [ .commit [⟨1, 0⟩, ⟨1, 1⟩] false,
    .open [(⟨1, 0⟩, ⟨2, 0⟩), (⟨1, 1⟩, ⟨2, 1⟩)] false,
    .pkg 2 7 [(⟨2, 0⟩, true), (⟨2, 1⟩, false)],
    .fwd 2 7, .recv 1, .recv 1, .sign 1,
    .restart ⟨[], [⟨1, false, 0, none⟩, ⟨2, false, 2, none⟩], []⟩ ]

theorem crashOps_good : Good Sys.init crashOps := by
  refine ⟨trivial, ⟨?_, ⟨?_, trivial, trivial, trivial, trivial, ?_, trivial⟩⟩⟩
  · refine ⟨by decide, by decide, ?_⟩
    intro p _
    have hks : (sstep Sys.init (.commit [⟨1, 0⟩, ⟨1, 1⟩] false)).cm.ks = [] := by
      simp only [sstep, (commit_spec _ _ _).2.2.2.2.2.2.2.1]; rfl
    rw [hks]; simp
  · exact ⟨by decide, by intro p _; simp [sstep, Sys.init]⟩
  · simp only [SOpOk]; decide

example : (srun Sys.init crashOps).committed ⟨1, 0⟩ = 1 ∧
    (srun Sys.init crashOps).mbox = [⟨⟨1, 1⟩, ⟨2, 7, 1⟩, false⟩] ∧
    ((srun Sys.init crashOps).cm.pending ⟨1, 0⟩).isSome = true ∧
    ((srun Sys.init crashOps).cm.opened ⟨2, 0⟩).isSome = true := by
  decide

end LndModel.C07
