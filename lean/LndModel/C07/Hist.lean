/-
C07 — history variables for the circuit-map model and their inductive step lemmas
(used by the property theorems in Props.lean).

`Hist` records, per incoming key, how often it has been returned in
`CircuitFwdActions.Adds` and how often a `CloseCircuit` / `FailCircuit` call has
returned its circuit during the current incarnation.  An incarnation of an in
key ends when the circuit is durably removed: by a successful `DeleteCircuits`
naming the key, or by the purge in `cleanClosedChannels` at a restart (for the
response counter also by any restart, because the `closed` set is volatile by
design and the durable circuit is still there to answer the re-delivered
response).
-/
import LndModel.C07.Wf

namespace LndModel.C07

/-! ## history variables -/

structure Hist where
  st : State
  /-- times the key was returned in `Adds` in its current incarnation -/
  addCnt : Key → Nat
  /-- times `CloseCircuit`/`FailCircuit` returned the circuit in its current incarnation -/
  respCnt : Key → Nat

def bump (f : Key → Nat) : CloseRes → Key → Nat
  | .ok k => fun x => f x + (if x = k then 1 else 0)
  | _ => f

def stepH (h : Hist) : Op → Hist
  | .commit b wf =>
    { h with st := (commit h.st b wf).1,
             addCnt := fun k => h.addCnt k + (commit h.st b wf).2.adds.count k }
  | .open k wf => { h with st := (openCircuits h.st k wf).1 }
  | .trim c st wf => { h with st := (trim h.st c st wf).1 }
  | .close o => { h with st := (closeCircuit h.st o).1, respCnt := bump h.respCnt (closeCircuit h.st o).2 }
  | .fail k => { h with st := (failCircuit h.st k).1, respCnt := bump h.respCnt (failCircuit h.st k).2 }
  | .delete keys wf =>
    if (deleteCircuits h.st keys wf).2 then { h with st := (deleteCircuits h.st keys wf).1 }
    else { st := (deleteCircuits h.st keys wf).1,
           addCnt := fun k => if k ∈ keys then 0 else h.addCnt k,
           respCnt := fun k => if k ∈ keys then 0 else h.respCnt k }
  | .restart e =>
    { st := restart e h.st,
      addCnt := fun k => if k ∈ (restart e h.st).adds then h.addCnt k else 0,
      respCnt := fun _ => 0 }

def runH (h : Hist) : List Op → Hist
  | [] => h
  | op :: rest => runH (stepH h op) rest

def Hist.init : Hist := { st := State.init, addCnt := fun _ => 0, respCnt := fun _ => 0 }

/-- the history variables are pure observers: the instrumented run is the plain run. -/
theorem stepH_st (h : Hist) (op : Op) : (stepH h op).st = (step h.st op).1 := by
  cases op <;> simp only [stepH, step]
  split <;> rfl

theorem runH_st (h : Hist) (ops : List Op) : (runH h ops).st = run h.st ops := by
  induction ops generalizing h with
  | nil => rfl
  | cons op rest ih => simp only [runH, run, ih, stepH_st]

/-! ## mem_disk_agree: `pending` and the `circuit-adds` bucket have the same keys -/

def PendingIffAdds (s : State) : Prop := ∀ k, (s.pending k).isSome ↔ k ∈ s.adds

theorem pendingIffAdds_step (s : State) (op : Op) (h : PendingIffAdds s) :
    PendingIffAdds (step s op).1 := by
  intro k
  cases op with
  | commit b wf =>
    obtain ⟨_, _, h3, _, h5, _⟩ := commit_spec s b wf
    simp only [step]
    rw [h5 k, h3 k, Bool.or_eq_true, decide_eq_true_eq, h k]
  | «open» kst wf =>
    have := open_frame s kst wf
    simp only [step, this.1, this.2.2]; exact h k
  | trim c st wf =>
    have := trim_frame s c st wf
    simp only [step, this.1, this.2.2]; exact h k
  | close o =>
    have := close_spec s o
    simp only [step, this.1, this.2.1]; exact h k
  | fail x =>
    have := fail_spec s x
    simp only [step, this.1, this.2.1]; exact h k
  | delete keys wf =>
    have hs := delete_spec s keys wf
    simp only [step]
    cases wf with
    | false =>
      obtain ⟨h1, _, h3⟩ := hs.2.1 rfl
      rw [h1 k, h3 k, ← h k]
      by_cases hk : k ∈ keys
      · simp only [hk, if_true, true_and]
        cases s.pending k <;> simp
      · simp [hk]
    | true =>
      obtain ⟨h1, _, h3, _⟩ := hs.2.2 rfl
      rw [h1 k, h3]; exact h k
  | restart e =>
    simp only [step, restart_pending, restart_adds]
    split <;> simp_all


/-- inductive invariant: a key counted once is pending; the count never exceeds one. -/
structure FwdInv (h : Hist) : Prop where
  agree : PendingIffAdds h.st
  le : ∀ k, h.addCnt k ≤ 1
  live : ∀ k, h.addCnt k = 1 → (h.st.pending k).isSome

theorem count_le_one_of_nodup (l : List Key) (k : Key) (h : l.Nodup) : l.count k ≤ 1 :=
  List.nodup_iff_count.mp h k

theorem fwdInv_step (h : Hist) (op : Op) (inv : FwdInv h) : FwdInv (stepH h op) := by
  have hag : PendingIffAdds (stepH h op).st := by
    rw [stepH_st]; exact pendingIffAdds_step _ _ inv.agree
  refine ⟨hag, ?_, ?_⟩
  · intro k
    cases op with
    | commit b wf =>
      obtain ⟨hnd, hfresh, _⟩ := commit_spec h.st b wf
      simp only [stepH]
      by_cases hk : k ∈ (commit h.st b wf).2.adds
      · have h0 : h.addCnt k = 0 := by
          have := inv.le k
          have hp := hfresh k hk
          by_cases h1 : h.addCnt k = 1
          · have := inv.live k h1; rw [hp] at this; cases this
          · omega
        have := count_le_one_of_nodup _ k hnd
        omega
      · have : (commit h.st b wf).2.adds.count k = 0 := List.count_eq_zero.mpr hk
        have := inv.le k
        omega
    | «open» kst wf => exact inv.le k
    | trim c st wf => exact inv.le k
    | close o => exact inv.le k
    | fail x => exact inv.le k
    | delete keys wf =>
      simp only [stepH]
      split
      · exact inv.le k
      · simp only; split
        · omega
        · exact inv.le k
    | restart e =>
      simp only [stepH]; split
      · exact inv.le k
      · omega
  · intro k hk
    cases op with
    | commit b wf =>
      obtain ⟨hnd, hfresh, h3, _⟩ := commit_spec h.st b wf
      simp only [stepH] at hk ⊢
      rw [h3 k]
      by_cases hm : k ∈ (commit h.st b wf).2.adds
      · simp [hm]
      · have : (commit h.st b wf).2.adds.count k = 0 := List.count_eq_zero.mpr hm
        have h1 : h.addCnt k = 1 := by omega
        simp [inv.live k h1]
    | «open» kst wf => simp only [stepH, (open_frame _ _ _).1]; exact inv.live k hk
    | trim c st wf => simp only [stepH, (trim_frame _ _ _ _).1]; exact inv.live k hk
    | close o => simp only [stepH, (close_spec _ _).1]; exact inv.live k hk
    | fail x => simp only [stepH, (fail_spec _ _).1]; exact inv.live k hk
    | delete keys wf =>
      have hs := delete_spec h.st keys wf
      simp only [stepH] at hk ⊢
      cases wf with
      | false =>
        rw [hs.1] at hk ⊢
        simp only [Bool.false_eq_true, if_false] at hk ⊢
        obtain ⟨h1, _⟩ := hs.2.1 rfl
        rw [h1 k]
        by_cases hm : k ∈ keys
        · simp [hm] at hk
        · simp only [hm, if_false] at hk ⊢; exact inv.live k hk
      | true =>
        rw [hs.1] at hk ⊢
        simp only [if_true] at hk ⊢
        obtain ⟨h1, _⟩ := hs.2.2 rfl
        rw [h1 k]; exact inv.live k hk
    | restart e =>
      simp only [stepH] at hk ⊢
      by_cases hm : k ∈ (restart e h.st).adds
      · exact (hag k).mpr hm
      · simp [hm] at hk

theorem fwdInv_run (h : Hist) (ops : List Op) (inv : FwdInv h) : FwdInv (runH h ops) := by
  induction ops generalizing h with
  | nil => exact inv
  | cons op rest ih => exact ih _ (fwdInv_step h op inv)

theorem fwdInv_init : FwdInv Hist.init :=
  ⟨by intro k; simp [Hist.init, State.init], by intro k; simp [Hist.init], by intro k; simp [Hist.init]⟩


structure RespInv (h : Hist) : Prop where
  le : ∀ k, h.respCnt k ≤ 1
  closed : ∀ k, h.respCnt k = 1 → h.st.closed k = true

theorem respInv_bump (h : Hist) (s' : State) (r : CloseRes) (inv : RespInv h)
    (hr : match r with
          | .ok i => h.st.closed i = false ∧ s'.closed = upd h.st.closed i true
          | _ => s'.closed = h.st.closed) :
    RespInv { h with st := s', respCnt := bump h.respCnt r } := by
  cases r with
  | ok i =>
    obtain ⟨hc, hs⟩ := hr
    have h0 : h.respCnt i = 0 := by
      have := inv.le i
      by_cases h1 : h.respCnt i = 1
      · have := inv.closed i h1; rw [hc] at this; cases this
      · omega
    constructor
    · intro k; simp only [bump]
      by_cases e : k = i
      · subst e; simp [h0]
      · simp only [e, if_false, Nat.add_zero]; exact inv.le k
    · intro k hk; simp only [bump] at hk
      simp only [hs, upd_apply]
      by_cases e : k = i
      · simp [e]
      · simp only [e, if_false, Nat.add_zero] at hk ⊢; exact inv.closed k hk
  | unknown => exact ⟨inv.le, fun k hk => by simp only [hr]; exact inv.closed k hk⟩
  | closing => exact ⟨inv.le, fun k hk => by simp only [hr]; exact inv.closed k hk⟩

theorem respInv_step (h : Hist) (op : Op) (inv : RespInv h) : RespInv (stepH h op) := by
  cases op with
  | commit b wf =>
    obtain ⟨_, _, _, _, _, hc, _⟩ := commit_spec h.st b wf
    exact ⟨inv.le, fun k hk => by simp only [stepH, hc]; exact inv.closed k hk⟩
  | «open» kst wf =>
    exact ⟨inv.le, fun k hk => by simp only [stepH, (open_frame _ _ _).2.1]; exact inv.closed k hk⟩
  | trim c st wf =>
    exact ⟨inv.le, fun k hk => by simp only [stepH, (trim_frame _ _ _ _).2.1]; exact inv.closed k hk⟩
  | close o =>
    have hs := (close_spec h.st o).2.2.2.2.2
    apply respInv_bump h _ _ inv
    revert hs
    cases (closeCircuit h.st o).2 with
    | ok i => intro hs; exact ⟨hs.1, hs.2.2⟩
    | unknown => exact id
    | closing => exact id
  | fail x =>
    have hs := (fail_spec h.st x).2.2.2.2.2
    apply respInv_bump h _ _ inv
    revert hs
    cases (failCircuit h.st x).2 with
    | ok i => intro hs; exact ⟨hs.2.1, hs.2.2.2⟩
    | unknown => exact id
    | closing => exact id
  | delete keys wf =>
    have hs := delete_spec h.st keys wf
    simp only [stepH]
    cases wf with
    | false =>
      rw [hs.1]; simp only [Bool.false_eq_true, if_false]
      obtain ⟨_, h2, _⟩ := hs.2.1 rfl
      constructor
      · intro k; simp only; split
        · omega
        · exact inv.le k
      · intro k hk
        simp only at hk ⊢
        by_cases hm : k ∈ keys
        · simp [hm] at hk
        · simp only [hm, if_false] at hk
          rw [h2 k]; simp only [hm, false_and, if_false]; exact inv.closed k hk
    | true =>
      rw [hs.1]; simp only [if_true]
      obtain ⟨_, h2, _⟩ := hs.2.2 rfl
      exact ⟨inv.le, fun k hk => by simp only [h2 k]; exact inv.closed k hk⟩
  | restart e =>
    exact ⟨fun k => by simp [stepH], fun k hk => by simp [stepH] at hk⟩

theorem respInv_run (h : Hist) (ops : List Op) (inv : RespInv h) : RespInv (runH h ops) := by
  induction ops generalizing h with
  | nil => exact inv
  | cons op rest ih => exact ih _ (respInv_step h op inv)


theorem pick_partition (ds : List (Key × Decision)) :
    (pick ds (· == .add)).length + (pick ds (· == .drop)).length + (pick ds (· == .fail)).length
      = ds.length ∧
    (pick ds (· == .drop)).length + (pick ds (· != .drop)).length = ds.length := by
  induction ds with
  | nil => simp [pick]
  | cons d rest ih =>
    obtain ⟨k, dd⟩ := d
    simp only [pick, List.length_map] at ih ⊢
    cases dd <;> simp <;> omega

theorem commitLoop_length (s : State) (b : List Key) : (commitLoop s b).2.length = b.length := by
  induction b generalizing s with
  | nil => simp [commitLoop]
  | cons k rest ih => simp only [commitLoop, List.length_cons]; rw [ih]


end LndModel.C07
