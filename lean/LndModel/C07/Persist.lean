/-
C07 — payload layer of the circuit map (round 7): the circuit map of Model.lean together with
WHAT is stored, not only under which key.

`PState` adds to `State`
* `pay`  — the persisted fields (AddRef, PaymentHash, amounts, error encrypter) of every heap
  object, i.e. of every `*PaymentCircuit` the map holds;
* `vals` — the raw values of the `circuit-adds` bucket (bucket key ↦ bytes).

`pcommit` writes `encodeCircuit` of exactly the circuits decided `add`, in input order
(`CommitCircuits`: `bs[i]` ↦ `circuitBkt.Put(inKey, bs[i])`); `pdelete` removes the values with
their keys; `prestart` is `NewCircuitMap` on the existing DB with the DECODING in it:
`cleanClosedChannels` and `restoreMemState` visit the bucket in key order, run
`circuitMap.decodeCircuit` (= `Decode` + `Reextract`) on every value and abort the start with the
first error (before anything is written); the restored object of key `k` carries the decoded payload.  `pcorrupt`
overwrites one stored value (only used to reach the decode-error path of the start-up and to show
that the restored payload is the DISK content, not a memory left-over).

The `State` component is by construction the run of Model.lean (`pstep_st`), so every theorem of
Props.lean applies to it.  Not modelled: a stored record whose decoded `Incoming` differs from
its bucket key (the code files it under the decoded key); the harness never writes such a value.
-/
import LndModel.C07.Codec

namespace LndModel.C07

structure PState where
  st : State
  /-- persisted fields of each heap object -/
  pay : ObjId → PCircuit
  /-- `circuit-adds` bucket: bucket key ↦ stored bytes -/
  vals : List (Key × Bytes)

def PState.init : PState := ⟨State.init, fun _ => default, []⟩

def valPut (l : List (Key × Bytes)) (k : Key) (v : Bytes) : List (Key × Bytes) :=
  if l.any (fun p => decide (p.1 = k)) then l.map (fun p => if p.1 = k then (k, v) else p)
  else l ++ [(k, v)]

def valGet (l : List (Key × Bytes)) (k : Key) : Option Bytes :=
  (l.find? (fun p => decide (p.1 = k))).map (·.2)

/-- the payload side of `commitLoop`: the object allocated for an `add` decision gets the
    caller's circuit; returns the circuits decided `add`, in input order. -/
def payLoop (s : State) (pay : ObjId → PCircuit) : List PCircuit → (ObjId → PCircuit) × List PCircuit
  | [] => (pay, [])
  | c :: rest =>
    if decide1 s c.inKey = .add then
      let r := payLoop (alloc s c.inKey) (upd pay (.fresh s.next) c) rest
      (r.1, c :: r.2)
    else payLoop s pay rest

def putAll (l : List (Key × Bytes)) : List PCircuit → List (Key × Bytes)
  | [] => l
  | c :: rest => putAll (valPut l c.inKey (encodeCircuit c)) rest

/-- `CommitCircuits(circuits...)` with payloads. -/
def pcommit (ps : PState) (batch : List PCircuit) (wf : Bool) : PState × Actions :=
  let r := commit ps.st (batch.map (·.inKey)) wf
  let pl := payLoop ps.st ps.pay batch
  ({ st := r.1, pay := pl.1,
     vals := if r.2.err then ps.vals else putAll ps.vals pl.2 }, r.2)

/-- the values that are left when the bucket's key set shrinks to `adds`. -/
def keepVals (vals : List (Key × Bytes)) (adds : List Key) : List (Key × Bytes) :=
  vals.filter (fun p => adds.contains p.1)

def pdelete (ps : PState) (keys : List Key) (wf : Bool) : PState × Bool :=
  let r := deleteCircuits ps.st keys wf
  ({ ps with st := r.1, vals := keepVals ps.vals r.1.adds }, r.2)

/-- raw overwrite of one stored value (fault injection, not an API of the circuit map). -/
def pcorrupt (ps : PState) (k : Key) (v : Bytes) : PState :=
  if ps.st.adds.contains k then { ps with vals := valPut ps.vals k v } else ps

def insertVal (p : Key × Bytes) : List (Key × Bytes) → List (Key × Bytes)
  | [] => [p]
  | x :: xs => if p.1.lt x.1 then p :: x :: xs else x :: insertVal p xs

/-- bucket order (`keyBytes_lexLt`: bbolt's byte order on keys = `Key.lt`). -/
def sortVals (l : List (Key × Bytes)) : List (Key × Bytes) := l.foldr insertVal []

/-- the first decoding error `restoreMemState` meets, in bucket order. -/
def firstErr (vk ex : Bytes → Bool) : List (Key × Bytes) → Option DecErr
  | [] => none
  | p :: rest =>
    match decodeStored vk ex p.2 with
    | .error e => some e
    | .ok _ => firstErr vk ex rest

def restoredPay (vk ex : Bytes → Bool) (vals : List (Key × Bytes)) : ObjId → PCircuit
  | .disk k =>
    match valGet vals k with
    | some v => (match decodeStored vk ex v with | .ok c => c | .error _ => default)
    | none => default
  | .fresh _ => default

/-- `NewCircuitMap` on the existing DB; `some e` = the start is aborted with error `e`.
    Both `cleanClosedChannels` (when at least one channel is closed; in a read transaction, BEFORE
    it deletes anything) and `restoreMemState` run `decodeCircuit` over the bucket in key order, the
    second over a subset of the first; so the first bad record of the whole bucket aborts the start
    and an aborted start has written nothing. -/
def prestart (vk ex : Bytes → Bool) (e : Env) (ps : PState) : PState × Option DecErr :=
  match firstErr vk ex (sortVals ps.vals) with
  | some err =>
    ({ st := { State.init with adds := ps.st.adds, ks := ps.st.ks }, pay := fun _ => default,
       vals := ps.vals }, some err)
  | none =>
    let vals1 := keepVals ps.vals (cleanClosed e ps.st).adds
    ({ st := restart e ps.st, pay := restoredPay vk ex vals1, vals := vals1 }, none)

inductive POp where
  | commit (batch : List PCircuit) (wf : Bool)
  | open (kst : List (Key × Key)) (wf : Bool)
  | trim (chan start : Nat) (wf : Bool)
  | close (o : Key)
  | fail (k : Key)
  | delete (keys : List Key) (wf : Bool)
  | restart (e : Env)

/-- the circuit-map operation a payload operation projects to. -/
def POp.toOp : POp → Op
  | .commit b wf => .commit (b.map (·.inKey)) wf
  | .open k wf => .open k wf
  | .trim c s wf => .trim c s wf
  | .close o => .close o
  | .fail k => .fail k
  | .delete ks wf => .delete ks wf
  | .restart e => .restart e

/-- one step; restarts are those of a healthy DB (`prestart` without a decoding error keeps
    going, with an error the node does not come up: the state is the aborted one). -/
def pstep (vk ex : Bytes → Bool) (ps : PState) : POp → PState
  | .commit b wf => (pcommit ps b wf).1
  | .open k wf => { ps with st := (openCircuits ps.st k wf).1 }
  | .trim c s wf => { ps with st := (trim ps.st c s wf).1 }
  | .close o => { ps with st := (closeCircuit ps.st o).1 }
  | .fail k => { ps with st := (failCircuit ps.st k).1 }
  | .delete ks wf => (pdelete ps ks wf).1
  | .restart e => (prestart vk ex e ps).1

def prun (vk ex : Bytes → Bool) (ps : PState) : List POp → PState
  | [] => ps
  | op :: rest => prun vk ex (pstep vk ex ps op) rest

/-- `LookupCircuit(k)` with the persisted fields. -/
def lookupPay (ps : PState) (k : Key) : Option PCircuit := (ps.st.pending k).map ps.pay

end LndModel.C07
