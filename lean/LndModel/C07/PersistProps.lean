/-
C07 — theorems about the payload layer (Persist.lean): "after a restart the switch knows exactly
the circuits that were durably recorded", for the CONTENT of the circuits.

* `pstep_st` — the `State` component of a payload run is the run of Model.lean (so every theorem of
  Props / RestartProps / FaultProps applies to it), provided the start is not aborted.
* `restart_restores_payload` — for ANY state, environment and key `k` that survives the purge: if
  the bucket value of `k` is the record `Encode(c)` of a Go-representable circuit `c` whose onion
  key can be re-extracted, and no record of the bucket is refused, then after `NewCircuitMap` the
  map's circuit for `k` carries exactly the payload `c` (AddRef, hash, amounts, encrypter).
* `restart_restores_disk_not_memory` — corollary: what is restored is the DISK record, whatever
  payload the pre-restart heap object held.
* `prestart_abort_iff` / `prestart_abort_keeps_disk` — the start is aborted iff some record of the
  bucket is refused by `decodeCircuit`, with the first error in bucket order, and an aborted start
  leaves both buckets untouched.
* `firstErr_none_of_records` — records written by `Encode` with extractable keys never abort a start.
-/
import LndModel.C07.Persist
import LndModel.C07.CodecProps
import LndModel.C07.Lemmas2

namespace LndModel.C07

theorem valGet_keepVals (l : List (Key × Bytes)) (adds : List Key) (k : Key)
    (h : adds.contains k = true) : valGet (keepVals l adds) k = valGet l k := by
  unfold valGet keepVals
  congr 1
  induction l with
  | nil => rfl
  | cons p rest ih =>
    by_cases hp : p.1 = k
    · simp only [List.filter_cons, List.find?_cons, hp, decide_true]
      rw [if_pos h]
      simp [hp]
    · by_cases hq : adds.contains p.1 = true
      · simp only [List.filter_cons, hq, if_true, List.find?_cons, hp, decide_false]
        exact ih
      · simp only [List.filter_cons, hq, List.find?_cons, hp, decide_false]
        exact ih

theorem pstep_st (vk ex : Bytes → Bool) (ps : PState) (op : POp)
    (h : ∀ e, op = .restart e → (prestart vk ex e ps).2 = none) :
    (pstep vk ex ps op).st = (step ps.st op.toOp).1 := by
  cases op with
  | restart e =>
    have := h e rfl
    simp only [pstep, POp.toOp, step]
    unfold prestart at this ⊢
    split <;> simp_all
  | _ => rfl

theorem prestart_abort_iff (vk ex : Bytes → Bool) (e : Env) (ps : PState) :
    (prestart vk ex e ps).2 = firstErr vk ex (sortVals ps.vals) := by
  unfold prestart
  split <;> simp_all

theorem prestart_abort_keeps_disk (vk ex : Bytes → Bool) (e : Env) (ps : PState) (err : DecErr)
    (h : (prestart vk ex e ps).2 = some err) :
    (prestart vk ex e ps).1.vals = ps.vals ∧ (prestart vk ex e ps).1.st.adds = ps.st.adds ∧
    (prestart vk ex e ps).1.st.ks = ps.st.ks := by
  unfold prestart at h ⊢
  split <;> simp_all

/-- **restored = durable content.** -/
theorem restart_restores_payload (vk ex : Bytes → Bool) (e : Env) (ps : PState) (k : Key) (c : PCircuit)
    (hrec : valGet ps.vals k = some (encodeCircuit c)) (hok : c.Ok vk)
    (hex : ∀ x, c.enc = some x → x.typ = 2 ∨ ex x.eph = true)
    (hsurv : k ∈ (cleanClosed e ps.st).adds)
    (hstart : (prestart vk ex e ps).2 = none) :
    lookupPay (prestart vk ex e ps).1 k = some c := by
  have hfe : firstErr vk ex (sortVals ps.vals) = none := by rw [← prestart_abort_iff vk ex e ps]; exact hstart
  unfold prestart lookupPay
  simp only [hfe]
  rw [restart_pending, if_pos hsurv]
  simp only [Option.map_some, restoredPay]
  rw [valGet_keepVals _ _ _ (by simpa using hsurv), hrec]
  simp only [decodeStored_encode vk ex c hok]
  cases henc : c.enc with
  | none => rfl
  | some x =>
    rcases hex x henc with h | h
    · simp [h]
    · simp [h]

/-- what comes back is the disk record, not what the heap object held before the restart. -/
theorem restart_restores_disk_not_memory (vk ex : Bytes → Bool) (e : Env) (ps : PState) (k : Key)
    (c : PCircuit) (other : ObjId → PCircuit)
    (hrec : valGet ps.vals k = some (encodeCircuit c)) (hok : c.Ok vk)
    (hex : ∀ x, c.enc = some x → x.typ = 2 ∨ ex x.eph = true)
    (hsurv : k ∈ (cleanClosed e ps.st).adds)
    (hstart : (prestart vk ex e ps).2 = none) :
    lookupPay (prestart vk ex e { ps with pay := other }).1 k = some c :=
  restart_restores_payload vk ex e { ps with pay := other } k c hrec hok hex hsurv
    (by rw [prestart_abort_iff] at hstart ⊢; exact hstart)

/-- records written by `Encode` whose onion keys can be re-extracted never abort a start. -/
theorem firstErr_none_of_records (vk ex : Bytes → Bool) (l : List (Key × Bytes))
    (h : ∀ p ∈ l, ∃ c : PCircuit, p.2 = encodeCircuit c ∧ c.Ok vk ∧
      ∀ x, c.enc = some x → x.typ = 2 ∨ ex x.eph = true) :
    firstErr vk ex l = none := by
  induction l with
  | nil => rfl
  | cons p rest ih =>
    obtain ⟨c, hc, hok, hex⟩ := h p (List.mem_cons_self ..)
    have hd : decodeStored vk ex p.2 = .ok c := by
      rw [hc, decodeStored_encode vk ex c hok]
      cases henc : c.enc with
      | none => rfl
      | some x => rcases hex x henc with h | h <;> simp [h]
    simp only [firstErr, hd]
    exact ih (fun q hq => h q (List.mem_cons_of_mem _ hq))

/-! ### non-vacuity: a committed Sphinx circuit on a big key survives a restart with its payload -/

def exKey : Bytes := 3 :: List.replicate 32 7
def exCirc : PCircuit :=
  ⟨2 ^ 63, 65535, ⟨2 ^ 32 + 1, 2 ^ 56⟩, List.replicate 32 255, 2 ^ 64 - 1, 900, some ⟨1, exKey⟩⟩
def exVk (b : Bytes) : Bool := b == exKey
def exAfterCommit : PState := (pcommit PState.init [exCirc] false).1
def exEnv : Env := ⟨[⟨7, false⟩], [⟨2 ^ 32 + 1, false, 0, none⟩], []⟩

example : exCirc.Ok exVk :=
  ⟨by decide, by decide, by decide, by decide, by decide, by decide, by decide,
   fun e h => by
     have : e = ⟨1, exKey⟩ := by simpa [exCirc] using h.symm
     subst this; exact Or.inr ⟨by decide, by decide, by decide⟩⟩

example : valGet exAfterCommit.vals exCirc.inKey = some (encodeCircuit exCirc) := by decide
example : (prestart exVk (fun _ => true) exEnv exAfterCommit).2 = none := by decide
example : lookupPay (prestart exVk (fun _ => true) exEnv exAfterCommit).1 exCirc.inKey = some exCirc := by
  decide
/-- the same record, extractor refusing the key: the start is aborted with `extract`. -/
example : (prestart exVk (fun _ => false) exEnv exAfterCommit).2 = some .extract := by decide

end LndModel.C07
