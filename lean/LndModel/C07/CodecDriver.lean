/-
C07 driver, `codec` stream: replays the trace of
harness/overlay/htlcswitch/zz_c07_codec_verif_test.go on Codec.lean / Persist.lean.

(X) correspondence: every `Encode` output, every `Decode` / `decodeCircuit` answer, every
    `Bytes` / `SetBytes`, every answer of the persistence operations and, after every operation,
    the payload of every pending circuit plus the RAW bytes of both buckets in iteration order.
(S) monitor on the implementation's answers only:
    codec-roundtrip            Decode(Encode(c) [‖ garbage]) differs from c
    truncated-record-accepted  a strict prefix of a record decodes
    key-roundtrip              SetBytes(Bytes(k)) ≠ k
    payload-agree              the circuit the map holds for k (before or after a restart) does not
                               carry the payload durably recorded for k
    corrupt-record-swallowed   a start-up reported success although an undecodable record is still
                               in the bucket afterwards
-/
import LndModel.Prelude.Lines
import LndModel.C07.Persist
import LndModel.C07.Kinds

open LndModel LndModel.Lines LndModel.C07

namespace LndModel.C07.CodecDriver

def keyStr (k : Key) : String := s!"{k.chan}.{k.id}"

def key? (s : String) : Option Key :=
  match s.splitOn "." with
  | [a, b] => do
    let c ← nat? a
    let i ← nat? b
    pure ⟨c, i⟩
  | _ => none

def list? {α : Type} (f : String → Option α) (s : String) : Option (List α) :=
  if s == "-" then some [] else (s.splitOn ",").mapM f

def joinStr (l : List String) : String := if l.isEmpty then "-" else ",".intercalate l

def insertKey (k : Key) : List Key → List Key
  | [] => [k]
  | x :: xs => if k.lt x then k :: x :: xs else x :: insertKey k xs

def sortKeys (l : List Key) : List Key := l.foldr insertKey []

def insertPair (p : Key × Key) : List (Key × Key) → List (Key × Key)
  | [] => [p]
  | x :: xs => if p.1.lt x.1 then p :: x :: xs else x :: insertPair p xs

def sortPairs (l : List (Key × Key)) : List (Key × Key) := l.foldr insertPair []

def afterArrow (ws : List String) : List String := (ws.dropWhile (· ≠ "=>")).drop 1

def payStr (c : PCircuit) : String :=
  let (t, e) := match c.enc with
    | none => (0, [])
    | some x => (x.typ, x.eph)
  s!"{keyStr c.inKey}/{c.refHeight}/{c.refIndex}/{bytesHex c.hash}/{c.inAmt}/{c.outAmt}/{t}/{bytesHex e}"

def pay? (s : String) : Option PCircuit :=
  match s.splitOn "/" with
  | [k, h, i, hash, ia, oa, t, e] => do
    let k ← key? k
    let h ← nat? h
    let i ← nat? i
    let hash ← hexBytes? hash
    let ia ← nat? ia
    let oa ← nat? oa
    let t ← nat? t
    let e ← hexBytes? e
    pure ⟨h, i, k, hash, ia, oa, if t == 0 then none else some ⟨t, e⟩⟩
  | _ => none

def errStr : DecErr → String
  | .eof => "eof" | .ueof => "ueof" | .keyLen => "keylen"
  | .unknownEncrypter t => s!"unkenc:{t}" | .badPoint => "badkey" | .extract => "extract"

def decStr : Except DecErr PCircuit → String
  | .ok c => "ok " ++ payStr c
  | .error e => errStr e

structure CSt where
  caseId : String := "0"
  vkL : List Bytes := []
  noex : List Bytes := []
  ps : PState := PState.init
  seen : List Key := []
  lastEnc : Option String := none
  -- monitor (implementation answers only)
  durable : List (Key × String) := []      -- payload recorded for k by the last successful Add
  bad : Option (Key × String) := none      -- an undecodable value written by `corrupt`
  afterRestart : Bool := false
  lines : Nat := 0
  cases : Nat := 0
  ops : Nat := 0
  nontrivial : Nat := 0
  mismatches : Nat := 0
  monitorFails : Nat := 0
  samples : Nat := 0
  nEnc : Nat := 0
  nDecOk : Nat := 0
  nDecErr : Nat := 0
  nTrunc : Nat := 0
  nExtractErr : Nat := 0
  nCommits : Nat := 0
  nCommitWf : Nat := 0
  nRestarts : Nat := 0
  nAborted : Nat := 0
  nRestoredPayloads : Nat := 0
  nRewrites : Nat := 0
  nBigKeys : Nat := 0
  nSnaps : Nat := 0

def mismatch (s : CSt) (detail : String) : IO CSt := do
  if s.mismatches < 40 then
    IO.println s!"MISMATCH case={s.caseId} line={s.lines} {detail}"
  return { s with mismatches := s.mismatches + 1 }

def monitor (s : CSt) (clause detail : String) : IO CSt := do
  if s.monitorFails < 40 then
    IO.println s!"MONITOR case={s.caseId} clause={clause} line={s.lines} {detail}"
  return { s with monitorFails := s.monitorFails + 1 }

def vk (s : CSt) (b : Bytes) : Bool := s.vkL.contains b
def ex (s : CSt) (b : Bytes) : Bool := !(s.noex.contains b)

def addSeen (s : CSt) (ks : List Key) : CSt :=
  { s with seen := ks.foldl (fun l k => if l.contains k then l else k :: l) s.seen }

def renderDisk (ps : PState) : String :=
  let a := (sortVals ps.vals).map (fun p => s!"{bytesHex (keyBytes p.1)}:{bytesHex p.2}")
  let k := (sortPairs ps.st.ks).map (fun p => s!"{bytesHex (keyBytes p.1)}:{bytesHex (keyBytes p.2)}")
  s!"A={joinStr a} K={joinStr k}"

def optKeyStr : Option Key → String
  | none => "-"
  | some k => keyStr k

def renderP (seen : List Key) (ps : PState) : String :=
  let u := sortKeys seen
  let p := u.filterMap (fun k => (ps.st.pending k).map (fun id =>
    let c := ps.st.objs id
    s!"{keyStr k}/{payStr (ps.pay id)}/{optKeyStr c.outgoing}/{if c.loaded then "1" else "0"}"))
  let o := u.filterMap (fun k => (ps.st.opened k).map (fun id => s!"{keyStr k}>{keyStr (ps.st.objs id).inKey}"))
  let cl := (u.filter ps.st.closed).map keyStr
  s!"P={joinStr p} O={joinStr o} C={joinStr cl} {renderDisk ps}"

def pair? (sep : String) (s : String) : Option (Key × Key) :=
  match s.splitOn sep with
  | [a, b] => do
    let x ← key? a
    let y ← key? b
    pure (x, y)
  | _ => none

def mclosed? (s : String) : Option ClosedChan :=
  match s.splitOn ":" with
  | [a, b] => do
    let c ← nat? a
    pure ⟨c, b == "1"⟩
  | _ => none

def mactive? (s : String) : Option KChan :=
  match s.splitOn ":" with
  | [a, b, c, d, k, rl] => do
    let ch ← nat? a
    let r ← nat? c
    let p ← if d == "-" then some none else (nat? d).map some
    let kd ← nat? k
    let re ← nat? rl
    pure { scid := ch,
           kind := match kd with
             | 1 => .scidAlias | 2 => .zeroConfUnconfirmed | 3 => .zeroConfConfirmed re | _ => .regular,
           isPending := b == "1", remoteIdx := r, pendingIdx := p }
  | _ => none

def lookupS (l : List (Key × String)) (k : Key) : Option String := (l.find? (fun p => p.1 == k)).map (·.2)

def stepOp (s : CSt) (line : String) (ws : List String) : IO CSt := do
  match ws with
  | "pcommit" :: bw :: wfw :: _ =>
    let s := { s with ops := s.ops + 1, nCommits := s.nCommits + 1 }
    let some batch := (bw.splitOn ";").mapM pay? | mismatch s "bad batch"
    let wf := wfw == "wf=1"
    let rs := afterArrow ws
    let some iAdds := (kv? rs "adds").bind (list? key?) | mismatch s "commit answer"
    let some iDrops := (kv? rs "drops").bind (list? key?) | mismatch s "commit answer"
    let some iFails := (kv? rs "fails").bind (list? key?) | mismatch s "commit answer"
    let some ai := (kv? rs "ai").bind (list? nat?) | mismatch s "commit answer"
    let iErr := (kv? rs "err").getD "?"
    let mut s := addSeen s (batch.map (·.inKey))
    let (ps', act) := pcommit s.ps batch wf
    let mErr := if act.err then "wferr" else "ok"
    if act.adds != iAdds || act.drops != iDrops || act.fails != iFails || mErr != iErr then
      s ← mismatch s s!"pcommit: model=adds={act.adds.map keyStr},drops={act.drops.map keyStr},fails={act.fails.map keyStr},{mErr} impl={" ".intercalate rs}"
    s := { s with ps := ps' }
    -- monitor bookkeeping: the payload recorded for an added key is the one of the batch element
    -- the implementation says it added
    for j in ai do
      match batch[j]? with
      | some c =>
        s := { s with durable := (c.inKey, payStr c) :: s.durable.filter (fun p => p.1 != c.inKey) }
      | none => pure ()
    return { s with nCommitWf := s.nCommitWf + (if iErr == "wferr" then 1 else 0),
                    nontrivial := s.nontrivial + 1 }
  | "open" :: kss :: wfw :: _ =>
    let s := { s with ops := s.ops + 1 }
    let some kst := list? (pair? ">") kss | mismatch s "bad keystones"
    let wf := wfw == "wf=1"
    let r := (afterArrow ws).headD "?"
    let mut s := addSeen s (kst.map (·.2))
    let (m', mr) := openCircuits s.ps.st kst wf
    let mRes := match mr with
      | .ok => "ok" | .dupKeystone => "dupks" | .unknownCircuit => "unknown" | .writeErr => "wferr"
    if mRes != r then s ← mismatch s s!"open {kss}: model={mRes} impl={r}"
    return { s with ps := { s.ps with st := m' }, nontrivial := s.nontrivial + 1 }
  | "delete" :: ksw :: wfw :: _ =>
    let s := { s with ops := s.ops + 1 }
    let some keys := list? key? ksw | mismatch s "bad keys"
    let wf := wfw == "wf=1"
    let r := (afterArrow ws).headD "?"
    let mut s := addSeen s keys
    let (ps', me) := pdelete s.ps keys wf
    let mRes := if me then "wferr" else "ok"
    if mRes != r then s ← mismatch s s!"delete {ksw}: model={mRes} impl={r}"
    s := { s with ps := ps' }
    if r == "ok" then
      s := { s with durable := s.durable.filter (fun p => !(keys.contains p.1)) }
    return { s with nontrivial := s.nontrivial + 1 }
  | "fail" :: kw :: _ =>
    let s := { s with ops := s.ops + 1 }
    let some k := key? kw | mismatch s "bad key"
    let r := (afterArrow ws).headD "?"
    let mut s := s
    let (m', mr) := failCircuit s.ps.st k
    let mRes := match mr with
      | .ok k => "ok:" ++ keyStr k | .unknown => "unknown" | .closing => "closing"
    if mRes != r then s ← mismatch s s!"fail {kw}: model={mRes} impl={r}"
    return { s with ps := { s.ps with st := m' } }
  | "corrupt" :: kw :: hw :: mw :: plw :: _ =>
    let s := { s with ops := s.ops + 1 }
    let some k := key? kw | mismatch s "bad key"
    let some v := hexBytes? hw | mismatch s "bad hex"
    let mut s := s
    s := { s with ps := pcorrupt s.ps k v }
    if mw == "mode=rewrite" then
      match kv? [plw] "pl" with
      | some p => s := { s with durable := (k, p) :: s.durable.filter (fun q => q.1 != k),
                                nRewrites := s.nRewrites + 1, bad := none }
      | none => pure ()
    else if mw == "mode=repair" then
      s := { s with bad := none }
    else
      s := { s with bad := some (k, hw) }
    return s
  | "restart" :: clw :: acw :: _ =>
    let s := { s with ops := s.ops + 1, nRestarts := s.nRestarts + 1 }
    let some cl := (kv? [clw] "closed").bind (list? mclosed?) | mismatch s "bad closed list"
    let some ac := (kv? [acw] "active").bind (list? mactive?) | mismatch s "bad active list"
    let r := (afterArrow ws).headD "?"
    let env : Env := KEnv.toEnv trimKey { closed := cl, chans := ac, resMsg := [] }
    let (ps', me) := prestart (vk s) (ex s) env s.ps
    let mRes := match me with
      | none => "ok"
      | some e => errStr e
    let mut s := s
    if mRes != r then s ← mismatch s s!"restart: model={mRes} impl={r}"
    return { s with ps := ps', afterRestart := r == "ok", nAborted := s.nAborted + (if r == "ok" then 0 else 1),
                    nontrivial := s.nontrivial + 1 }
  | "pdsnap" :: rest =>
    let s := { s with nSnaps := s.nSnaps + 1 }
    let m := renderDisk s.ps
    let i := " ".intercalate rest
    if m != i then mismatch s s!"disk after aborted start: model[{m.take 300}] impl[{i.take 300}]" else return s
  | "psnap" :: rest =>
    let mut s := { s with nSnaps := s.nSnaps + 1 }
    -- keys the implementation reports are enumerated too
    let pEnts := ((kv? rest "P").getD "-")
    let ents := if pEnts == "-" then [] else pEnts.splitOn ","
    let implP : List (Key × String) := ents.filterMap (fun e =>
      match e.splitOn "/" with
      | k :: rest => (key? k).map (fun kk => (kk, "/".intercalate (rest.take 8)))
      | _ => none)
    s := addSeen s (implP.map (·.1))
    let m := renderP s.seen s.ps
    let i := " ".intercalate rest
    if m != i then
      s ← mismatch s s!"state: model[{m.take 400}] impl[{i.take 400}]"
    -- (S) payload-agree: the map's circuit for k carries the payload recorded for k
    for (k, p) in implP do
      match lookupS s.durable k with
      | some d =>
        if d != p then
          s ← monitor s "payload-agree" s!"circuit {keyStr k}{if s.afterRestart then " after restart" else ""}: the map holds payload {p}, durably recorded was {d}"
        else if s.afterRestart then s := { s with nRestoredPayloads := s.nRestoredPayloads + 1 }
      | none => pure ()
    -- (S) corrupt-record-swallowed
    if s.afterRestart then
      match s.bad with
      | some (k, hv) =>
        let aEnts := ((kv? rest "A").getD "-").splitOn ","
        if aEnts.contains s!"{bytesHex (keyBytes k)}:{hv}" then
          s ← monitor s "corrupt-record-swallowed" s!"start-up reported success although the undecodable record of {keyStr k} is still stored"
      | none => pure ()
      -- circuits purged by the start are no longer recorded
      s := { s with durable := s.durable.filter (fun q => implP.any (fun e => e.1 == q.1)), bad := none }
    if s.samples < 5 && s.ops % 61 == 7 then
      IO.println s!"SAMPLE case={s.caseId} {line.take 260}"
      s := { s with samples := s.samples + 1 }
    return { s with afterRestart := false }
  | [] => return s
  | _ => mismatch s s!"unparsed line: {line.take 60}"

def step (s : CSt) (line : String) : IO CSt := do
  let s := { s with lines := s.lines + 1 }
  let ws := words line
  match ws with
  | "FACT" :: rest =>
    let some v := (kv? rest "vk").bind (list? hexBytes?) | mismatch s "bad FACT vk"
    let some n := (kv? rest "noextract").bind (list? hexBytes?) | mismatch s "bad FACT noextract"
    return { s with vkL := v, noex := n }
  | "CASE" :: id :: _ =>
    let s := { s with caseId := id, ps := PState.init, seen := [], lastEnc := none, durable := [],
                      bad := none, afterRestart := false, cases := s.cases + 1 }
    if s.samples < 2 then
      IO.println s!"SAMPLE {line}"
      return { s with samples := s.samples + 1 }
    return s
  | ["END"] => return s
  | "kb" :: cw :: iw :: _ =>
    let s := { s with ops := s.ops + 1 }
    let some c := nat? cw | mismatch s "bad chan"
    let some i := nat? iw | mismatch s "bad id"
    let r := (afterArrow ws).headD "?"
    let m := bytesHex (keyBytes ⟨c, i⟩)
    let mut s := s
    if m != r then s ← mismatch s s!"kb {c} {i}: model={m} impl={r}"
    return { s with lastEnc := some s!"{c}.{i}" }
  | "sb" :: hw :: _ =>
    let s := { s with ops := s.ops + 1 }
    let some b := hexBytes? hw | mismatch s "bad hex"
    let r := (afterArrow ws).headD "?"
    let m := match setBytes b with
      | .ok k => "ok:" ++ keyStr k
      | .error e => errStr e
    let mut s := s
    if m != r then s ← mismatch s s!"sb {hw}: model={m} impl={r}"
    -- monitor: the 16 bytes of a key give the key back (other lengths: correspondence only)
    if b.length == 16 then
      match s.lastEnc with
      | some k => if r != "ok:" ++ k then s ← monitor s "key-roundtrip" s!"SetBytes(Bytes({k})) = {r}"
      | none => pure ()
    return { s with nontrivial := s.nontrivial + 1 }
  | "enc" :: pw :: _ =>
    let s := { s with ops := s.ops + 1, nEnc := s.nEnc + 1 }
    let some c := pay? pw | mismatch s "bad payload"
    let r := (afterArrow ws).headD "?"
    let m := bytesHex (encodeCircuit c)
    let mut s := s
    if m != r then s ← mismatch s s!"enc {pw}: model={m} impl={r}"
    if c.inKey.chan ≥ 2 ^ 32 || c.inKey.id ≥ 2 ^ 32 then s := { s with nBigKeys := s.nBigKeys + 1 }
    return { s with lastEnc := some pw, nontrivial := s.nontrivial + 1 }
  | dw :: _ :: mw :: hw :: _ =>
    if dw == "dec" || dw == "dst" then
      let s := { s with ops := s.ops + 1 }
      let some b := hexBytes? hw | mismatch s "bad hex"
      let r := " ".intercalate (afterArrow ws)
      let m := if dw == "dec" then decStr (decodeCircuit (vk s) b) else decStr (decodeStored (vk s) (ex s) b)
      let mut s := s
      if m != r then s ← mismatch s s!"{dw} {hw.take 40}…: model={m} impl={r}"
      let ok := r.startsWith "ok "
      if mw == "mode=full" || mw == "mode=ext" then
        match s.lastEnc with
        | some p =>
          -- `dst` may legitimately fail with `extract` when the extractor refuses the key
          if r != "ok " ++ p && !(dw == "dst" && r == "extract") then
            s ← monitor s "codec-roundtrip" s!"{dw}(Encode({p})) = {r}"
        | none => pure ()
      if mw == "mode=trunc" then
        s := { s with nTrunc := s.nTrunc + 1 }
        if ok then
          s ← monitor s "truncated-record-accepted" s!"{dw} of a {b.length}-byte prefix of a record = {r}"
      return { s with nDecOk := s.nDecOk + (if ok then 1 else 0), nDecErr := s.nDecErr + (if ok then 0 else 1),
                      nExtractErr := s.nExtractErr + (if r == "extract" then 1 else 0),
                      nontrivial := s.nontrivial + 1 }
    else stepOp s line ws
  | _ => stepOp s line ws

def report (s : CSt) : IO Unit := do
  IO.println s!"STAT lines={s.lines}"
  IO.println s!"STAT cases={s.cases}"
  IO.println s!"STAT evaluations={s.ops}"
  IO.println s!"STAT nontrivial={s.nontrivial}"
  IO.println s!"STAT snapshots={s.nSnaps}"
  IO.println s!"STAT circuits_encoded={s.nEnc}"
  IO.println s!"STAT encoded_with_key_fields_above_2_32={s.nBigKeys}"
  IO.println s!"STAT decodes_ok={s.nDecOk}"
  IO.println s!"STAT decodes_refused={s.nDecErr}"
  IO.println s!"STAT truncated_records_tried={s.nTrunc}"
  IO.println s!"STAT reextract_failures={s.nExtractErr}"
  IO.println s!"STAT commits_with_payload={s.nCommits}"
  IO.println s!"STAT commit_write_failures={s.nCommitWf}"
  IO.println s!"STAT restarts={s.nRestarts}"
  IO.println s!"STAT restarts_aborted_by_bad_record={s.nAborted}"
  IO.println s!"STAT restored_payloads_checked={s.nRestoredPayloads}"
  IO.println s!"STAT stored_records_rewritten_before_restart={s.nRewrites}"
  IO.println s!"STAT mismatches={s.mismatches}"
  IO.println s!"STAT monitor_failures={s.monitorFails}"

end LndModel.C07.CodecDriver
