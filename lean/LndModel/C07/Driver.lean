/-
C07 driver: replays a harness trace on the model (correspondence, `MISMATCH`)
and evaluates the property monitor on the implementation's answers (`MONITOR`).

The monitor (everything prefixed `mon`) never consults the model state: it
works on the implementation's own snapshots and answers and recomputes the
expected outcome from them with its own list-comprehension style definitions.
-/
import LndModel.Prelude.Lines
import LndModel.C07.Model
import LndModel.C07.Mailbox
import LndModel.C07.Fault
import LndModel.C07.Kinds
import LndModel.C07.Restart
import LndModel.C07.CodecDriver

open LndModel LndModel.Lines LndModel.C07

namespace LndModel.C07.Driver

/-! ### parsing / printing -/

def keyStr (k : Key) : String := s!"{k.chan}.{k.id}"

def key? (s : String) : Option Key :=
  match s.splitOn "." with
  | [a, b] => do
    let c ← nat? a
    let i ← nat? b
    pure ⟨c, i⟩
  | _ => none

def list? {α : Type} (f : String → Option α) (s : String) : Option (List α) :=
  if s == "-" then some [] else (s.splitOn ",").mapM f

def pair? (sep : String) (s : String) : Option (Key × Key) :=
  match s.splitOn sep with
  | [a, b] => do
    let x ← key? a
    let y ← key? b
    pure (x, y)
  | _ => none

def optKey? (s : String) : Option (Option Key) :=
  if s == "-" then some none else (key? s).map some

def optKeyStr : Option Key → String
  | none => "-"
  | some k => keyStr k

def joinStr (l : List String) : String := if l.isEmpty then "-" else ",".intercalate l

def keysStr (l : List Key) : String := joinStr (l.map keyStr)

def insertKey (k : Key) : List Key → List Key
  | [] => [k]
  | x :: xs => if k.lt x then k :: x :: xs else x :: insertKey k xs

def sortKeys (l : List Key) : List Key := l.foldr insertKey []

def insertPair (p : Key × Key) : List (Key × Key) → List (Key × Key)
  | [] => [p]
  | x :: xs => if p.1.lt x.1 then p :: x :: xs else x :: insertPair p xs

def sortPairs (l : List (Key × Key)) : List (Key × Key) := l.foldr insertPair []

def b01 (b : Bool) : String := if b then "1" else "0"

def resOf (ws : List String) : String :=
  match ws.dropWhile (· ≠ "=>") with
  | _ :: r :: _ => r
  | _ => "?"

def afterArrow (ws : List String) : List String := (ws.dropWhile (· ≠ "=>")).drop 1

/-! ### implementation snapshot -/

structure PEnt where
  key : Key
  inKey : Key
  out : Option Key
  loaded : Bool
deriving DecidableEq, Repr

structure OEnt where
  key : Key
  inKey : Key
  out : Option Key
  loaded : Bool
  same : Bool
deriving DecidableEq, Repr

structure Snap where
  np : Nat := 0
  no : Nat := 0
  rp : Nat := 0
  ro : Nat := 0
  p : List PEnt := []
  o : List OEnt := []
  c : List Key := []
  a : List Key := []
  k : List (Key × Key) := []
  raw : String := ""
deriving Repr

def pent? (s : String) : Option PEnt :=
  match s.splitOn "/" with
  | [a, b, c, d] => do
    let k ← key? a
    let i ← key? b
    let o ← optKey? c
    pure ⟨k, i, o, d == "1"⟩
  | _ => none

def oent? (s : String) : Option OEnt :=
  match s.splitOn "/" with
  | [a, b, c, d, e] => do
    let k ← key? a
    let i ← key? b
    let o ← optKey? c
    pure ⟨k, i, o, d == "1", e == "1"⟩
  | _ => none

def snap? (ws : List String) : Option Snap := do
  let np ← kvNat? ws "np"
  let no ← kvNat? ws "no"
  let rp ← kvNat? ws "rp"
  let ro ← kvNat? ws "ro"
  let p ← (kv? ws "P").bind (list? pent?)
  let o ← (kv? ws "O").bind (list? oent?)
  let c ← (kv? ws "C").bind (list? key?)
  let a ← (kv? ws "A").bind (list? key?)
  let k ← (kv? ws "K").bind (list? (pair? ">"))
  pure { np, no, rp, ro, p, o, c, a, k, raw := " ".intercalate (ws.drop 1) }

/-- canonical rendering of the MODEL state, same format as the Go `snap` line. -/
def renderModel (u : List Key) (s : State) : String :=
  let circ (c : Circuit) : String := s!"{keyStr c.inKey}/{optKeyStr c.outgoing}/{b01 c.loaded}"
  let p := u.filterMap (fun k => (s.pending k).map (fun id => s!"{keyStr k}/{circ (s.objs id)}"))
  let o := u.filterMap (fun k => (s.opened k).map (fun id =>
    let c := s.objs id
    s!"{keyStr k}/{circ c}/{b01 (s.pending c.inKey == some id)}"))
  let cl := (u.filter s.closed).map keyStr
  let a := (sortKeys s.adds).map keyStr
  let k := (sortPairs s.ks).map (fun p => s!"{keyStr p.1}>{keyStr p.2}")
  let np := numPending u s
  let no := numOpen u s
  s!"np={np} no={no} rp={np} ro={no} P={joinStr p} O={joinStr o} C={joinStr cl} A={joinStr a} K={joinStr k}"

/-! ### monitor-side specification of a restart (independent of `Model.restart`) -/

structure MClosed where
  chan : Nat
  pend : Bool

structure MActive where
  chan : Nat
  pend : Bool
  remote : Nat
  pendingIdx : Option Nat
  /-- 0 regular, 1 option-scid-alias, 2 zero-conf unconfirmed, 3 zero-conf confirmed -/
  kind : Nat := 0
  real : Nat := 0

structure MEnv where
  closed : List MClosed := []
  active : List MActive := []
  res : List Key := []

def mclosed? (s : String) : Option MClosed :=
  match s.splitOn ":" with
  | [a, b] => do
    let c ← nat? a
    pure ⟨c, b == "1"⟩
  | _ => none

def mactive? (s : String) : Option MActive :=
  match s.splitOn ":" with
  | [a, b, c, d] => do
    let ch ← nat? a
    let r ← nat? c
    let p ← if d == "-" then some none else (nat? d).map some
    pure { chan := ch, pend := b == "1", remote := r, pendingIdx := p }
  | [a, b, c, d, k, rl] => do
    let ch ← nat? a
    let r ← nat? c
    let p ← if d == "-" then some none else (nat? d).map some
    let kd ← nat? k
    let re ← nat? rl
    pure { chan := ch, pend := b == "1", remote := r, pendingIdx := p, kind := kd, real := re }
  | _ => none

/-- the channel as the channel DB reports it (model side). -/
def MActive.toK (a : MActive) : KChan :=
  { scid := a.chan,
    kind := match a.kind with
      | 1 => .scidAlias | 2 => .zeroConfUnconfirmed | 3 => .zeroConfConfirmed a.real | _ => .regular,
    isPending := a.pend, remoteIdx := a.remote, pendingIdx := a.pendingIdx }

def mkEnv (cl : List MClosed) (ac : List MActive) (res : List Key) : Env :=
  KEnv.toEnv trimKey { closed := cl.map (fun c => ⟨c.chan, c.pend⟩), chans := ac.map MActive.toK, resMsg := res }

structure MExpect where
  a : List Key
  k : List (Key × Key)
  o : List (Key × Key)      -- opened: out ↦ in
  /-- channels (with bound) whose opened ids at/after the bound were one contiguous block; last
      component: channel kind and the number of keystones the trim has to roll back -/
  bounds : List (Nat × Nat × Bool × Nat × Nat)
  purged : Nat
  trimmed : Nat
  resKept : Nat

/-- how many consecutive ids from `i` are present on channel `c` (bounded by the list length). -/
def monRunLen (o : List (Key × Key)) (c : Nat) : Nat → Nat → Nat
  | 0, _ => 0
  | f + 1, i => if o.any (fun p => p.1 == (⟨c, i⟩ : Key)) then 1 + monRunLen o c f (i + 1) else 0

def monRestart (e : MEnv) (a : List Key) (k : List (Key × Key)) : MExpect :=
  let cc := (e.closed.filter (fun c => !c.pend && c.chan != 0)).map (·.chan)
  let isC (c : Nat) : Bool := cc.contains c
  let purgeK (p : Key × Key) : Bool := isC p.2.chan || (isC p.1.chan && !(e.res.contains p.1))
  let a1 := a.filter (fun x => !(isC x.chan) && !(k.any (fun p => p.2 == x && purgeK p)))
  let k1 := k.filter (fun p => !(purgeK p))
  let resKept := (k.filter (fun p => !(isC p.2.chan) && isC p.1.chan && e.res.contains p.1)).length
  let k2 := k1.filter (fun p => !(p.1.chan == 0 && !(a1.contains p.2)))
  let o0 := k1.filter (fun p => a1.contains p.2)
  -- trims
  let live := e.active.filter (fun x => !x.pend && x.chan != 0)
  let step (acc : List (Key × Key) × List (Key × Key) × List (Nat × Nat × Bool × Nat × Nat) × Nat) (x : MActive) :=
    let (o, kk, bs, nt) := acc
    let start := x.pendingIdx.getD x.remote
    let n := monRunLen o x.chan (o.length + 1) start
    let gone (q : Key) : Bool := q.chan == x.chan && start ≤ q.id && q.id < start + n
    let contiguous := !(o.any (fun p => p.1.chan == x.chan && p.1.id ≥ start + n))
    (o.filter (fun p => !(gone p.1)), kk.filter (fun p => !(gone p.1)), (x.chan, start, contiguous, x.kind, n) :: bs, nt + n)
  let (o1, k3, bs, nt) := live.foldl step (o0, k2, [], 0)
  { a := a1, k := k3, o := o1, bounds := bs, purged := a.length - a1.length, trimmed := nt, resKept := resKept }

/-! ### driver state -/

structure St where
  caseId : String := "0"
  kind : String := ""
  univ : List Key := []
  model : State := State.init
  /-- correspondence switched off (after a `race` line) -/
  xOff : Bool := false
  -- monitor
  prev : Snap := {}
  live : List Key := []
  responded : List Key := []
  disciplined : Bool := true
  expectSame : Option (String × String) := none     -- (op, snapshot raw)
  expectRestart : Option MExpect := none
  -- counters
  lines : Nat := 0
  cases : Nat := 0
  ops : Nat := 0
  nontrivial : Nat := 0
  mismatches : Nat := 0
  monitorFails : Nat := 0
  samples : Nat := 0
  snaps : Nat := 0
  cAdds : Nat := 0
  cDrops : Nat := 0
  cFails : Nat := 0
  cWf : Nat := 0
  cDupInBatch : Nat := 0
  oOk : Nat := 0
  oDup : Nat := 0
  oUnknown : Nat := 0
  oWf : Nat := 0
  tNonEmpty : Nat := 0
  tWf : Nat := 0
  rOk : Nat := 0
  rClosing : Nat := 0
  rUnknown : Nat := 0
  dOk : Nat := 0
  dWf : Nat := 0
  tearPanic : Nat := 0
  restarts : Nat := 0
  purged : Nat := 0
  trimmedAtRestart : Nat := 0
  resKept : Nat := 0
  gapRestarts : Nat := 0
  trimsByKind : List Nat := [0, 0, 0, 0]
  expectDisk : Option MExpect := none
  lastFault : Bool := false
  faultRestarts : Nat := 0
  faultAborts : Nat := 0
  faultReads : Nat := 0
  faultKeptCommitted : Nat := 0
  undisciplined : Nat := 0
  races : Nat := 0
  raceWinners : Nat := 0
  -- mailbox stream: model
  mch : Nat → Chan := fun _ => Chan.empty
  -- mailbox stream: monitor (implementation answers only)
  mRound : List (Nat × Nat) := []          -- (sid, uid) handed to the link since its last reset
  mInfo : List (Nat × Nat × Key × Nat) := []   -- uid, sid, inKey, typ
  mUnacked : List (Nat × Nat) := []        -- (sid, uid) received, not yet acked
  mAcked : List Nat := []
  mUp : List Nat := []                     -- links the harness currently plays as running
  mLive : List Nat := []                   -- sids bound since the last restart
  mParkedL : List (Nat × Nat) := []        -- (sid, uid) parked as unclaimed, in order
  mQueued : List (Nat × Nat) := []         -- (sid, uid) replies known to sit in the mailbox queue
  mOps : Nat := 0
  mReceived : Nat := 0
  mParked : Nat := 0
  mLinkUps : Nat := 0
  mRedeliveredUnacked : Nat := 0
  mAcks : Nat := 0
  mExists : Nat := 0
  mRelayed : Nat := 0
  -- swrestart stream: model
  sys : Sys := Sys.init
  -- swrestart stream: monitor (implementation answers only)
  wDurable : List Key := []      -- in keys whose response was durably committed (signed + acked) since their add
  wRun : List Key := []          -- in keys for which a response reached the incoming link in this run
  wEver : List Key := []         -- … in an earlier run of the same incarnation
  wEnts : List FEnt := []        -- packages as last dumped by the implementation
  noClosedCheck : Bool := false
  wOps : Nat := 0
  wRestarts : Nat := 0
  wRecvd : Nat := 0
  wRedelivered : Nat := 0
  wSigned : Nat := 0
  wWindow : Nat := 0
  wPartial : Nat := 0
  wPendAcks : Nat := 0
  wClosingDrops : Nat := 0

def mismatch (s : St) (detail : String) : IO St := do
  if s.mismatches < 40 then
    IO.println s!"MISMATCH case={s.caseId} line={s.lines} {detail}"
  return { s with mismatches := s.mismatches + 1 }

def monitor (s : St) (clause detail : String) : IO St := do
  if s.monitorFails < 40 then
    IO.println s!"MONITOR case={s.caseId} clause={clause} line={s.lines} {detail}"
  return { s with monitorFails := s.monitorFails + 1 }

def undiscipline (s : St) : St :=
  if s.disciplined then { s with disciplined := false, undisciplined := s.undisciplined + 1 } else s

def eraseAll (l : List Key) (ks : List Key) : List Key := l.filter (fun x => !(ks.contains x))

def hasDup : List Key → Bool
  | [] => false
  | k :: rest => rest.contains k || hasDup rest

/-! ### monitor pieces -/

/-- decision table recomputed from the implementation's previous snapshot. -/
def monDecide (prev : Snap) (batch : List Key) : List (Key × String) :=
  let rec go (seen : List Key) : List Key → List (Key × String)
    | [] => []
    | k :: rest =>
      match prev.p.find? (fun e => e.key == k) with
      | some e =>
        let d := if e.out.isSome then "drop" else if !e.loaded then "drop" else "fail"
        (k, d) :: go seen rest
      | none =>
        if seen.contains k then (k, "drop") :: go seen rest
        else (k, "add") :: go (k :: seen) rest
  go [] batch

def monSel (ds : List (Key × String)) (p : String → Bool) : List Key :=
  (ds.filter (fun x => p x.2)).map (·.1)

/-- invariants every snapshot of the implementation has to satisfy. -/
def monSnap (s : St) (sn : Snap) : IO St := do
  let mut s := s
  let pk := sn.p.map (·.key)
  if sortKeys pk != sortKeys sn.a then
    s ← monitor s "mem-disk-agree" s!"pending keys {keysStr pk} differ from the circuit-adds bucket {keysStr sn.a}"
  if sn.np != sn.p.length || sn.rp != sn.p.length || sn.no != sn.o.length || sn.ro != sn.o.length then
    s ← monitor s "counts" s!"NumPending={sn.np}/{sn.rp} NumOpen={sn.no}/{sn.ro} but lookups find {sn.p.length}/{sn.o.length}"
  if sn.p.any (fun e => e.inKey != e.key) then
    s ← monitor s "index" "a pending entry is filed under a key different from its Incoming key"
  -- a forwarded circuit stays known until it is deleted or purged
  for k in s.live do
    if !(pk.contains k) then
      s ← monitor s "no-loss" s!"circuit {keyStr k} was forwarded and never deleted but is no longer pending"
  if s.disciplined then
    for e in sn.o do
      if !e.same || e.out != some e.key then
        s ← monitor s "open-agree" s!"opened[{keyStr e.key}] is not the pending circuit of {keyStr e.inKey} with that keystone"
      if !(sn.k.contains (e.key, e.inKey)) then
        s ← monitor s "open-durable" s!"opened[{keyStr e.key}] has no keystone on disk"
    for e in sn.p do
      match e.out with
      | some o =>
        if !(sn.o.any (fun x => x.key == o && x.inKey == e.key)) then
          s ← monitor s "open-agree" s!"pending {keyStr e.key} carries keystone {keyStr o} which is not in opened"
      | none => pure ()
    for p in sn.k do
      if sn.a.contains p.2 && !(sn.o.any (fun x => x.key == p.1 && x.inKey == p.2)) then
        s ← monitor s "keystone-agree" s!"disk keystone {keyStr p.1}>{keyStr p.2} of a live circuit is not in opened"
    for k in sn.c do
      if !(pk.contains k) then
        s ← monitor s "closed-dangling" s!"closed set contains {keyStr k} which is not pending"
  return s

def monAfterRestart (s : St) (ex : MExpect) (sn : Snap) : IO St := do
  let mut s := s
  let pk := sn.p.map (·.key)
  if sortKeys pk != sortKeys ex.a || sortKeys sn.a != sortKeys ex.a then
    s ← monitor s "restart-exact" s!"circuits after restart: mem={keysStr pk} disk={keysStr sn.a}, durable minus purged = {keysStr (sortKeys ex.a)}"
  if sn.p.any (fun e => !e.loaded) then
    s ← monitor s "restart-loaded" "a circuit restored from disk is not marked LoadedFromDisk"
  if !sn.c.isEmpty && !s.noClosedCheck then
    s ← monitor s "restart-closed-empty" "closed set survives a restart"
  let oGot := sortPairs (sn.o.map (fun e => (e.key, e.inKey)))
  if oGot != sortPairs ex.o then
    s ← monitor s "restart-open" s!"opened after restart = {joinStr (oGot.map (fun p => keyStr p.1 ++ ">" ++ keyStr p.2))}, expected {joinStr ((sortPairs ex.o).map (fun p => keyStr p.1 ++ ">" ++ keyStr p.2))}"
  if s.lastFault then
    for p in ex.k do
      if !(sn.k.contains p) then
        s ← monitor s "committed-keystone-trimmed" s!"a start during which a read of the pending remote commitment failed reported success and removed keystone {keyStr p.1}>{keyStr p.2} whose HTLC is on a commitment"
    s := { s with lastFault := false }
  if sortPairs sn.k != sortPairs ex.k then
    s ← monitor s "restart-keystones" s!"keystone bucket after restart = {joinStr ((sortPairs sn.k).map (fun p => keyStr p.1 ++ ">" ++ keyStr p.2))}, expected {joinStr ((sortPairs ex.k).map (fun p => keyStr p.1 ++ ">" ++ keyStr p.2))}"
  -- half-open rollback, stated directly
  for (c, start, contiguous, kind, n) in ex.bounds do
    if n > 0 then
      s := { s with trimsByKind := s.trimsByKind.modify kind (· + 1) }
    if contiguous then
      if sn.o.any (fun e => e.key.chan == c && e.key.id ≥ start) then
        s ← monitor s "half-open-rollback" s!"channel {c} (kind={kind}: 0 regular, 1 scid-alias, 2 zero-conf unconfirmed, 3 zero-conf confirmed): a keystone with id >= {start} (not committed) is still open after restart"
    else
      s := { s with gapRestarts := s.gapRestarts + 1 }
  if s.disciplined then
    for e in sn.p do
      let want := (ex.o.find? (fun p => p.2 == e.key)).map (·.1)
      if e.out != want then
        s ← monitor s "restart-outgoing" s!"circuit {keyStr e.key} has Outgoing={optKeyStr e.out}, durable keystone={optKeyStr want}"
  return { s with live := s.live.filter (fun k => sn.a.contains k), responded := [],
                  purged := s.purged + ex.purged, trimmedAtRestart := s.trimmedAtRestart + ex.trimmed,
                  resKept := s.resKept + ex.resKept,
                  nontrivial := s.nontrivial + (if ex.purged + ex.trimmed + sn.p.length > 0 then 1 else 0) }

/-- a close/fail style answer: `ok:<key>` is a response handed to the incoming link. -/
def respKey? (r : String) : Option Key :=
  if r.startsWith "ok:" then key? (r.drop 3).toString else none

def monResponse (s : St) (r : String) (target : Option Key) (avail : Bool) : IO St := do
  let mut s := s
  match respKey? r with
  | some k =>
    if s.responded.contains k then
      s ← monitor s "respond-once" s!"a second settle/fail for circuit {keyStr k} was accepted before it was deleted"
    s := { s with responded := k :: s.responded, rOk := s.rOk + 1, nontrivial := s.nontrivial + 1 }
  | none =>
    if r == "closing" then s := { s with rClosing := s.rClosing + 1, nontrivial := s.nontrivial + 1 }
    else s := { s with rUnknown := s.rUnknown + 1 }
    match target with
    | some k =>
      if avail && s.disciplined && !(s.responded.contains k) then
        s ← monitor s "respond-available" s!"the first response for live circuit {keyStr k} was refused ({r})"
    | none => pure ()
  return s

def monDeleted (s : St) (keys : List Key) : St :=
  { s with live := eraseAll s.live keys, responded := eraseAll s.responded keys }

/-! ### mailbox stream -/

def uidsStr (l : List Nat) : String := if l.isEmpty then "-" else ".".intercalate (l.map toString)

def uids? (s : String) : Option (List Nat) :=
  if s == "-" then some [] else (s.splitOn ".").mapM nat?

/-- `recv=sid:u.u;sid:u` -/
def recv? (s : String) : Option (List (Nat × List Nat)) :=
  if s == "-" then some [] else
  (s.splitOn ";").mapM (fun part =>
    match part.splitOn ":" with
    | [a, b] => do
      let sid ← nat? a
      let l ← uids? b
      pure (sid, l)
    | _ => none)

def mSids : List Nat := [1, 2]

def renderChans (m : Nat → Chan) : String :=
  " ".intercalate (mSids.map (fun sid =>
    let c := m sid
    let u (l : List Pkt) := uidsStr (l.map (·.uid))
    s!"{sid}/{b01 c.live}/{b01 c.hasBox}/{b01 c.up}/U={u c.unclaimed}/RD={u c.repDone}/RT={u c.repTodo}/AD={u c.addDone}/AT={u c.addTodo}"))

/-- monitor: packets handed to a link. `newRound` = this operation reset the mailbox of `sid`. -/
def monRecv (s : St) (newRound : Option Nat) (recvs : List (Nat × List Nat)) : IO St := do
  let mut s := s
  match newRound with
  | some sid =>
    let again := (recvs.filter (fun r => r.1 == sid)).flatMap (·.2)
    -- a running link gets every un-acked packet again after ResetPackets (nothing is lost)
    if s.mUp.contains sid then
      for (sd, u) in s.mUnacked do
        if sd == sid && !(again.contains u) then
          s ← monitor s "unacked-not-redelivered" s!"packet {u} was handed to link {sid}, never acked, and is not re-offered after ResetPackets"
    s := { s with mRound := s.mRound.filter (fun x => x.1 != sid),
                  mRedeliveredUnacked := s.mRedeliveredUnacked +
                    (again.filter (fun u => s.mUnacked.contains (sid, u))).length }
  | none => pure ()
  for (sid, l) in recvs do
    for u in l do
      match s.mInfo.find? (fun x => x.1 == u) with
      | none =>
        s ← monitor s "mailbox-unknown-packet" s!"link {sid} received packet {u} that was never handed to Deliver"
      | some (_, dsid, k, typ) =>
        if dsid != sid then
          s ← monitor s "mailbox-wrong-link" s!"packet {u} delivered to {dsid} reached link {sid}"
        if s.mAcked.contains u then
          let clause := if typ < 2 then "response-redelivered" else "add-redelivered"
          s ← monitor s clause s!"packet {u} (inKey {keyStr k}, type {typ}) reached link {sid} again after it had been acked"
        else if s.mRound.contains (sid, u) then
          s ← monitor s "redelivered-without-reset" s!"packet {u} (inKey {keyStr k}) handed to link {sid} twice without a ResetPackets in between"
      s := { s with mRound := (sid, u) :: s.mRound,
                    mUnacked := if s.mUnacked.contains (sid, u) then s.mUnacked else (sid, u) :: s.mUnacked,
                    mReceived := s.mReceived + 1 }
  return s

/-- monitor: what has to happen to a packet right after `Deliver` accepted or refused it. -/
def monDelivered (s : St) (sid u : Nat) (k : Key) (typ : Nat) (res : String)
    (recvs : List (Nat × List Nat)) : IO St := do
  let mut s := s
  let live := s.mLive.contains sid
  if res == "ok" then
    if live && typ < 2 then
      s := { s with mQueued := (sid, u) :: s.mQueued }
    if !live then
      s := { s with mParkedL := s.mParkedL ++ [(sid, u)] }
    else if s.mUp.contains sid && !(recvs.any (fun r => r.1 == sid && r.2.contains u)) then
      s ← monitor s "delivery-lost" s!"packet {u} (inKey {keyStr k}) was accepted for the running link {sid} but not handed to it"
  else if res == "exists" then
    -- refused as a duplicate: an earlier packet of the same class and key must still be un-acked
    let cls (t : Nat) : Bool := t < 2
    let earlier := s.mInfo.filter (fun i => i.1 != u && i.2.1 == sid && i.2.2.1 == k && cls i.2.2.2 == cls typ)
    if typ < 2 && earlier.all (fun i => s.mAcked.contains i.1) then
      s ← monitor s "response-refused" s!"response {u} for {keyStr k} was refused as a duplicate although every earlier response for that key on link {sid} has been acked"
  return s

/-- monitor: at the first bind after a restart the parked packets reach the link: replies before
    adds, the first one per (class, key). -/
def monFirstBind (s : St) (sid : Nat) (recvs : List (Nat × List Nat)) : IO St := do
  if s.mLive.contains sid then return s
  let mut s := s
  let got := (recvs.filter (fun r => r.1 == sid)).flatMap (·.2)
  let parked := (s.mParkedL.filter (fun x => x.1 == sid)).map (·.2)
  let info (u : Nat) : Option (Key × Bool) :=
    (s.mInfo.find? (fun i => i.1 == u)).map (fun i => (i.2.2.1, decide (i.2.2.2 < 2)))
  let rec firsts (seen : List (Key × Bool)) : List Nat → List Nat
    | [] => []
    | u :: rest =>
      match info u with
      | some kc => if seen.contains kc then firsts seen rest else u :: firsts (kc :: seen) rest
      | none => firsts seen rest
  for u in firsts [] parked do
    if !(got.contains u) then
      s ← monitor s "parked-lost" s!"packet {u} was parked for link {sid} before it was registered and did not reach it at the first bind"
  let reps := (firsts [] parked).filter (fun u => (info u).any (·.2))
  return { s with mLive := sid :: s.mLive, mParkedL := s.mParkedL.filter (fun x => x.1 != sid),
                  mQueued := reps.map (fun u => (sid, u)) ++ s.mQueued }

def recvOf (ws : List String) : Option (List (Nat × List Nat)) := (kv? (afterArrow ws) "recv").bind recv?

/-- compare the model's received list for `sid` with the implementation's. -/
def xRecv (s : St) (sid : Nat) (m : List Pkt) (impl : List (Nat × List Nat)) : IO St := do
  let want := if m.isEmpty then [] else [(sid, m.map (·.uid))]
  if want != impl then
    mismatch s s!"mailbox recv: model={want.map (fun r => s!"{r.1}:{uidsStr r.2}")} impl={impl.map (fun r => s!"{r.1}:{uidsStr r.2}")}"
  else pure s

/-! ### swrestart stream -/

def refStr (r : Ref) : String := s!"{r.chan}:{r.height}:{r.idx}"

def ref? (s : String) : Option Ref :=
  match s.splitOn ":" with
  | [a, b, c] => do
    let x ← nat? a
    let y ← nat? b
    let z ← nat? c
    pure ⟨x, y, z⟩
  | _ => none

/-- `2:5:0/2.0/s/1` -/
def fent? (s : String) : Option FEnt :=
  match s.splitOn "/" with
  | [r, o, t, a] => do
    let rf ← ref? r
    let ok ← key? o
    pure ⟨rf, ok, t == "s", a == "1"⟩
  | _ => none

def fentStr (e : FEnt) : String :=
  s!"{refStr e.ref}/{keyStr e.out}/{if e.settle then "s" else "f"}/{b01 e.acked}"

/-- `1.0@2:5:0:s` -/
def resp? (s : String) : Option Resp :=
  match s.splitOn "@" with
  | [k, rest] =>
    match rest.splitOn ":" with
    | [a, b, c, t] => do
      let key ← key? k
      let rf ← ref? s!"{a}:{b}:{c}"
      if t == "s" || t == "f" then pure ⟨key, rf, t == "s"⟩ else none
    | _ => none
  | _ => none

def respStr (r : Resp) : String :=
  s!"{keyStr r.inKey}@{refStr r.ref}:{if r.settle then "s" else "f"}"

def refLt (a b : Ref) : Bool :=
  decide (a.chan < b.chan) || (decide (a.chan = b.chan) && (decide (a.height < b.height) ||
    (decide (a.height = b.height) && decide (a.idx < b.idx))))

def insertEnt (e : FEnt) : List FEnt → List FEnt
  | [] => [e]
  | x :: xs => if refLt e.ref x.ref then e :: x :: xs else x :: insertEnt e xs

def wInSids : List Nat := [1, 3]

def renderSys (σ : Sys) : String :=
  let e := (σ.ents.foldr insertEnt []).map fentStr
  let pa := σ.pendAcks.map refStr
  let per (l : List Resp) := wInSids.flatMap (fun sid => (l.filter (fun r => r.inKey.chan == sid)).map respStr)
  let sg := wInSids.flatMap (fun sid => (σ.signed.filter (fun k => k.chan == sid)).map keyStr)
  s!"E={joinStr e} PA={joinStr pa} MB={joinStr (per σ.mbox)} IB={joinStr (per σ.inbox)} SG={joinStr sg} un=0"

/-- the model's link `sid` takes everything out of its mailbox. -/
def sysRecvAll (σ : Sys) (sid : Nat) : Nat → Sys × List Resp
  | 0 => (σ, [])
  | fuel + 1 =>
    match popFirst (fun r : Resp => decide (r.inKey.chan = sid)) σ.mbox with
    | none => (σ, [])
    | some (r, _) =>
      let x := sysRecvAll (sstep σ (.recv sid)) sid fuel
      (x.1, r :: x.2)

def sysSignN (σ : Sys) (sid : Nat) : Nat → Sys × List Key
  | 0 => (σ, [])
  | n + 1 =>
    match popFirst (fun r : Resp => decide (r.inKey.chan = sid)) σ.inbox with
    | none => (σ, [])
    | some (r, _) =>
      let x := sysSignN (sstep σ (.sign sid)) sid n
      (x.1, r.inKey :: x.2)

/-- `2.0:s` -/
def pkgEnt? (s : String) : Option (Key × Bool) :=
  match s.splitOn ":" with
  | [k, t] => (key? k).map (fun x => (x, t == "s"))
  | _ => none

/-! ### one trace line -/

def step (s : St) (line : String) : IO St := do
  let s := { s with lines := s.lines + 1 }
  let ws := words line
  match ws with
  | "FACT" :: rest =>
    let chans := (kvNat? rest "chans").getD 0
    let ids := (kvNat? rest "ids").getD 0
    let u := (List.range chans).flatMap (fun c => (List.range ids).map (fun i => (⟨c, i⟩ : Key)))
    let s := { s with univ := u }
    if kvNat? rest "source" == some sourceChan then pure s
    else mismatch s s!"fact source: model={sourceChan}"
  | "CASE" :: id :: rest =>
    let s := { s with caseId := id, kind := (kv? rest "kind").getD "", model := State.init, xOff := false,
                      prev := {}, live := [], responded := [], disciplined := true,
                      expectSame := none, expectRestart := none, expectDisk := none, cases := s.cases + 1,
                      mch := fun _ => Chan.empty, mRound := [], mInfo := [], mUnacked := [], mAcked := [],
                      mUp := [], mLive := [], mParkedL := [], mQueued := [],
                      sys := Sys.init, wDurable := [], wRun := [], wEver := [], wEnts := [],
                      noClosedCheck := false, lastFault := false }
    if s.samples < 3 && s.kind != "race" && !(s.kind.startsWith "script") then
      IO.println s!"SAMPLE {line}"
      return { s with samples := s.samples + 1 }
    return s
  | ["END"] => return s
  | "snap" :: _ =>
    let some sn := snap? ws | mismatch s "unparsed snapshot"
    let mut s := { s with snaps := s.snaps + 1 }
    if !s.xOff then
      let m := renderModel s.univ s.model
      if m != sn.raw then
        s ← mismatch s s!"state: model[{m}] impl[{sn.raw}]"
    match s.expectSame with
    | some (op, raw) =>
      if raw != sn.raw then
        s ← monitor s "rollback" s!"{op} reported a write failure but the state changed: before[{raw}] after[{sn.raw}]"
      s := { s with expectSame := none }
    | none => pure ()
    match s.expectRestart with
    | some ex =>
      s ← monAfterRestart s ex sn
      s := { s with expectRestart := none }
    | none => pure ()
    s ← monSnap s sn
    if s.samples < 6 && s.ops % 97 == 5 then
      IO.println s!"SAMPLE case={s.caseId} {line.take 300}"
      s := { s with samples := s.samples + 1 }
    return { s with prev := sn }
  | "commit" :: bs :: wfw :: _ =>
    let s := { s with ops := s.ops + 1 }
    let some batch := list? key? bs | mismatch s "bad batch"
    let wf := wfw == "wf=1"
    let rs := afterArrow ws
    let some iAdds := (kv? rs "adds").bind (list? key?) | mismatch s s!"commit answer: {line.take 120}"
    let some iDrops := (kv? rs "drops").bind (list? key?) | mismatch s "commit answer"
    let some iFails := (kv? rs "fails").bind (list? key?) | mismatch s "commit answer"
    let iErr := (kv? rs "err").getD "?"
    let mut s := s
    -- (X) model
    let (m', act) := commit s.model batch wf
    let mErr := if act.err then "wferr" else "ok"
    if act.adds != iAdds || act.drops != iDrops || act.fails != iFails || mErr != iErr then
      s ← mismatch s s!"commit {bs}: model=adds={keysStr act.adds},drops={keysStr act.drops},fails={keysStr act.fails},{mErr} impl={" ".intercalate rs}"
    if kv? rs "own" != some "1" then
      s ← mismatch s "commit returned a circuit object that was not passed in"
    s := { s with model := m' }
    -- (S) monitor
    for k in iAdds do
      if s.live.contains k then
        s ← monitor s "forward-once" s!"circuit {keyStr k} handed to the switch again while its earlier forward is still live"
    if hasDup iAdds then
      s ← monitor s "forward-once" s!"Adds contains a key twice: {keysStr iAdds}"
    let ds := monDecide s.prev batch
    let eAdds := monSel ds (· == "add")
    let eDrops := monSel ds (· == "drop")
    let eFails := monSel ds (· == "fail")
    let failed := iErr != "ok"
    if failed && !(wf && !eAdds.isEmpty) then
      s ← monitor s "commit-error" s!"CommitCircuits failed ({iErr}) without an injected write failure on a non-empty add set"
    if !failed then
      if iAdds != eAdds || iDrops != eDrops || iFails != eFails then
        s ← monitor s "decision-table" s!"batch {bs}: adds={keysStr iAdds} drops={keysStr iDrops} fails={keysStr iFails}; the table over the previous state gives adds={keysStr eAdds} drops={keysStr eDrops} fails={keysStr eFails}"
    else
      let eAddFails := monSel ds (· != "drop")
      if !iAdds.isEmpty || iDrops != eDrops || iFails != eAddFails then
        s ← monitor s "rollback" s!"failed commit of {bs} reports adds={keysStr iAdds} drops={keysStr iDrops} fails={keysStr iFails}"
      s := { s with expectSame := some ("commit", s.prev.raw) }
    s := { s with live := iAdds ++ s.live,
                  -- a new incarnation starts without a response
                  responded := eraseAll s.responded iAdds,
                  cAdds := s.cAdds + iAdds.length, cDrops := s.cDrops + iDrops.length,
                  cFails := s.cFails + (if failed then 0 else iFails.length),
                  cWf := s.cWf + (if failed then 1 else 0),
                  cDupInBatch := s.cDupInBatch + (if hasDup batch then 1 else 0),
                  nontrivial := s.nontrivial + (if batch.isEmpty then 0 else 1) }
    return s
  | "open" :: kss :: wfw :: _ =>
    let s := { s with ops := s.ops + 1 }
    let some kst := list? (pair? ">") kss | mismatch s "bad keystones"
    let wf := wfw == "wf=1"
    let r := resOf ws
    let mut s := s
    let (m', mr) := openCircuits s.model kst wf
    let mRes := match mr with
      | .ok => "ok" | .dupKeystone => "dupks" | .unknownCircuit => "unknown" | .writeErr => "wferr"
    if mRes != r then
      s ← mismatch s s!"open {kss}: model={mRes} impl={r}"
    s := { s with model := m' }
    -- monitor
    if r == "wferr" then
      s := { s with expectSame := some ("open", s.prev.raw), oWf := s.oWf + 1 }
    else if r == "dupks" then
      if !(kst.any (fun p => s.prev.o.any (fun e => e.key == p.2))) then
        s ← monitor s "open-dup" "ErrDuplicateKeystone although no out key of the batch is open"
      s := { s with expectSame := some ("open-rejected", s.prev.raw), oDup := s.oDup + 1 }
    else if r == "unknown" then
      if !(kst.any (fun p => !(s.prev.p.any (fun e => e.key == p.1)))) then
        s ← monitor s "open-unknown" "ErrUnknownCircuit although every in key of the batch is pending"
      s := { s with expectSame := some ("open-rejected", s.prev.raw), oUnknown := s.oUnknown + 1 }
    else if r == "ok" then
      -- link discipline: one keystone per circuit, fresh out keys
      let ins := kst.map (·.1)
      let outs := kst.map (·.2)
      let bad := hasDup ins || hasDup outs
        || kst.any (fun p => s.prev.p.any (fun e => e.key == p.1 && e.out.isSome))
        || kst.any (fun p => s.prev.k.any (fun q => q.1 == p.2))
        || kst.any (fun p => s.prev.k.any (fun q => q.2 == p.1))
      if bad then s := undiscipline s
      if kst.any (fun p => s.prev.o.any (fun e => e.key == p.2)) then
        s ← monitor s "open-dup" "a keystone was accepted for an out key that is already open"
      s := { s with oOk := s.oOk + 1, nontrivial := s.nontrivial + (if kst.isEmpty then 0 else 1) }
    else
      s ← monitor s "open-error" s!"unexpected OpenCircuits answer {r}"
    return s
  | "trim" :: cw :: sw :: wfw :: _ =>
    let s := { s with ops := s.ops + 1 }
    let some c := nat? cw | mismatch s "bad chan"
    let some st := nat? sw | mismatch s "bad start"
    let wf := wfw == "wf=1"
    let r := resOf ws
    let mut s := s
    let (m', me) := trim s.model c st wf
    let mRes := if me then "wferr" else "ok"
    if mRes != r then
      s ← mismatch s s!"trim {c} {st}: model={mRes} impl={r}"
    s := { s with model := m' }
    if r == "wferr" then
      -- documented: TrimOpenCircuits has no rollback; memory and disk now differ
      s := undiscipline { s with tWf := s.tWf + 1 }
    else if r != "ok" then
      s ← monitor s "trim-error" s!"unexpected TrimOpenCircuits answer {r}"
    if s.prev.o.any (fun e => e.key == (⟨c, st⟩ : Key)) then
      s := { s with tNonEmpty := s.tNonEmpty + 1, nontrivial := s.nontrivial + 1 }
    return s
  | "close" :: ow :: _ =>
    let s := { s with ops := s.ops + 1 }
    let some o := key? ow | mismatch s "bad key"
    let r := resOf ws
    let mut s := s
    let (m', mr) := closeCircuit s.model o
    let mRes := match mr with
      | .ok k => "ok:" ++ keyStr k | .unknown => "unknown" | .closing => "closing"
    if mRes != r then
      s ← mismatch s s!"close {ow}: model={mRes} impl={r}"
    s := { s with model := m' }
    let tgt := (s.prev.o.find? (fun e => e.key == o)).map (·.inKey)
    monResponse s r tgt true
  | "fail" :: kw :: _ =>
    let s := { s with ops := s.ops + 1 }
    let some k := key? kw | mismatch s "bad key"
    let r := resOf ws
    let mut s := s
    let (m', mr) := failCircuit s.model k
    let mRes := match mr with
      | .ok k => "ok:" ++ keyStr k | .unknown => "unknown" | .closing => "closing"
    if mRes != r then
      s ← mismatch s s!"fail {kw}: model={mRes} impl={r}"
    s := { s with model := m' }
    let tgt := if s.prev.p.any (fun e => e.key == k) then some k else none
    monResponse s r tgt true
  | "swclose" :: srcw :: kw :: ow :: setw :: _ =>
    let s := { s with ops := s.ops + 1 }
    let some k := key? kw | mismatch s "bad key"
    let some o := key? ow | mismatch s "bad key"
    let src := srcw == "src=1"
    let settle := setw == "settle=1"
    let r := resOf ws
    let mut s := s
    let (m', mr) := swCloseCircuit s.model src k o settle
    let mRes := match mr with
      | .ok k => "ok:" ++ keyStr k | .closing => "closing" | .unknown => "unknown"
      | .nilNil => "nil" | .otherErr => "err"
    if mRes != r then
      s ← mismatch s s!"swclose: model={mRes} impl={r}"
    s := { s with model := m' }
    let tgt := if src then (if s.prev.p.any (fun e => e.key == k) then some k else none)
               else (s.prev.o.find? (fun e => e.key == o)).map (·.inKey)
    monResponse s r tgt true
  | "delete" :: ksw :: wfw :: _ =>
    let s := { s with ops := s.ops + 1 }
    let some keys := list? key? ksw | mismatch s "bad keys"
    let wf := wfw == "wf=1"
    let r := resOf ws
    let mut s := s
    let (m', me) := deleteCircuits s.model keys wf
    let mRes := if me then "wferr" else "ok"
    if mRes != r then
      s ← mismatch s s!"delete {ksw}: model={mRes} impl={r}"
    s := { s with model := m' }
    if r == "ok" then
      let hit := keys.any (fun k => s.prev.p.any (fun e => e.key == k))
      s := { monDeleted s keys with dOk := s.dOk + 1, nontrivial := s.nontrivial + (if hit then 1 else 0) }
    else if r == "wferr" && wf then
      s := { s with expectSame := some ("delete", s.prev.raw), dWf := s.dWf + 1, nontrivial := s.nontrivial + 1 }
    else
      s ← monitor s "delete-error" s!"unexpected DeleteCircuits answer {r}"
    return s
  | "swtear" :: kw :: tw :: cw :: wfw :: _ =>
    let s := { s with ops := s.ops + 1 }
    let some k := key? kw | mismatch s "bad key"
    let okType := tw != "typ=2"
    let circ := cw == "circ=1"
    let wf := wfw == "wf=1"
    let r := resOf ws
    let mut s := s
    let (m', mr) := swTeardown s.model okType k circ wf
    let mRes := match mr with
      | .ok => "ok" | .badType => "badtype" | .err => "wferr" | .panic => "panic"
    if mRes != r then
      s ← mismatch s s!"swtear: model={mRes} impl={r}"
    s := { s with model := m' }
    if r == "ok" then
      s := { monDeleted s [k] with dOk := s.dOk + 1 }
    else if r == "badtype" then
      s := { s with expectSame := some ("teardown-badtype", s.prev.raw) }
    else if (r == "wferr" || r == "panic") && wf then
      s := { s with expectSame := some ("teardown", s.prev.raw), dWf := s.dWf + 1,
                    tearPanic := s.tearPanic + (if r == "panic" then 1 else 0) }
    else
      s ← monitor s "delete-error" s!"unexpected teardownCircuit answer {r}"
    return s
  | "restart" :: clw :: acw :: resw :: _ =>
    let s := { s with ops := s.ops + 1, restarts := s.restarts + 1 }
    let some cl := (kv? [clw] "closed").bind (list? mclosed?) | mismatch s "bad closed list"
    let some ac := (kv? [acw] "active").bind (list? mactive?) | mismatch s "bad active list"
    let some res := (kv? [resw] "res").bind (list? key?) | mismatch s "bad res list"
    -- fault injection: the k-th (1-based) read of a pending remote commitment fails
    let fail : Option Nat := ((kv? ws "fail").bind nat?).map (· - 1)
    let r := resOf ws
    let mut s := s
    let env : Env := mkEnv cl ac res
    let (m', mErr) := restartF env fail s.model
    let mRes := if mErr then "rderr" else "ok"
    if mRes != r then
      s ← mismatch s s!"restart fail={fail}: model={mRes} impl={r}"
    let ex := monRestart { closed := cl, active := ac, res := res } s.prev.a s.prev.k
    if fail.isSome then
      -- the class the fault matters for: open keystones between the revoked and the pending index
      let between := ac.any (fun a => !a.pend && a.chan != 0 && (match a.pendingIdx with
        | some p => s.prev.k.any (fun q => q.1.chan == a.chan && a.remote ≤ q.1.id && q.1.id < p)
        | none => false))
      s := { s with faultRestarts := s.faultRestarts + 1, lastFault := true,
                    faultKeptCommitted := s.faultKeptCommitted + (if between then 1 else 0) }
    if r == "rderr" then
      -- aborted start: the disk is dumped next (`dsnap`), then the harness starts again
      return { s with model := m', expectDisk := some ex, faultAborts := s.faultAborts + 1 }
    else
      -- a start that reports success must have produced the fault-free result
      s := { s with model := if mErr then restart env s.model else m' }
      return { s with expectRestart := some ex }
  | "dsnap" :: rest =>
    let some a := (kv? rest "A").bind (list? key?) | mismatch s "bad dsnap"
    let some k := (kv? rest "K").bind (list? (pair? ">")) | mismatch s "bad dsnap"
    let mut s := s
    if sortKeys a != sortKeys s.model.adds || sortPairs k != sortPairs s.model.ks then
      s ← mismatch s s!"disk after aborted start: model A={keysStr (sortKeys s.model.adds)} K={(sortPairs s.model.ks).map (fun p => keyStr p.1 ++ ">" ++ keyStr p.2)} impl {" ".intercalate rest}"
    match s.expectDisk with
    | some ex =>
      -- whatever the aborted start wrote, it may not have removed a circuit or a keystone that a
      -- fault-free start keeps (in particular keystones below the true next htlc index)
      for p in ex.k do
        if !(k.contains p) then
          s ← monitor s "committed-keystone-trimmed" s!"a start aborted by a failing read removed keystone {keyStr p.1}>{keyStr p.2} whose HTLC is on a commitment"
      for x in ex.a do
        if !(a.contains x) then
          s ← monitor s "restart-exact" s!"a start aborted by a failing read removed circuit {keyStr x}"
    | none => pure ()
    return { s with expectDisk := none, lastFault := false, prev := { s.prev with a := a, k := k } }
  | "nextidx" :: rw :: pw :: _ =>
    let some rI := nat? rw | mismatch s "bad idx"
    let p := if pw == "-" then none else nat? pw
    let fault := kv? ws "fail" == some "1"
    let r := resOf ws
    let tip : TipRead := if fault then .readErr else match p with | some n => .pending n | none => .noPending
    let m := match nextLocalHtlcIndexE rI tip with | some n => toString n | none => "err"
    let mut s := s
    if m != r then
      s ← mismatch s s!"nextidx: model={m} impl={r}"
    if fault then
      s := { s with faultReads := s.faultReads + 1 }
      if r != "err" then
        s ← monitor s "read-error-swallowed" s!"NextLocalHtlcIndex(remote={rI}, pending={pw}) = {r} although reading the pending remote commitment failed: the error must surface, not fall back to the revoked commitment's index"
    else
      let want := match p with | some n => n | none => rI
      if toString want != r then
        s ← monitor s "next-index" s!"NextLocalHtlcIndex(remote={rI}, pending={pw}) = {r}"
    return s
  | "msnap" :: rest =>
    let m := renderChans s.mch
    let impl := " ".intercalate rest
    if m != impl then mismatch s s!"mailboxes: model[{m}] impl[{impl}]" else return s
  | "mdeliver" :: sw :: uw :: kw :: tw :: _ =>
    let s := { s with ops := s.ops + 1, mOps := s.mOps + 1 }
    let some sid := nat? sw | mismatch s "bad sid"
    let some u := nat? uw | mismatch s "bad uid"
    let some k := key? kw | mismatch s "bad key"
    let some t := nat? tw | mismatch s "bad typ"
    let some recvs := recvOf ws | mismatch s "bad recv"
    let r := resOf ws
    let mut s := s
    let parked := !(s.mch sid).live
    let (c', mr) := chanStep (s.mch sid) u (.deliver sid k t)
    let want := if mr.flag then "exists" else "ok"
    if want != r then
      s ← mismatch s s!"mdeliver: model={want} impl={r}"
    s ← xRecv s sid mr.recv recvs
    s := { s with mch := upd s.mch sid c', mInfo := (u, sid, k, t) :: s.mInfo,
                  mParked := s.mParked + (if parked then 1 else 0),
                  mExists := s.mExists + (if r == "exists" then 1 else 0),
                  nontrivial := s.nontrivial + 1 }
    s ← monDelivered s sid u k t r recvs
    monRecv s none recvs
  | "mgetbox" :: sw :: _ =>
    let s := { s with ops := s.ops + 1, mOps := s.mOps + 1 }
    let some sid := nat? sw | mismatch s "bad sid"
    let some recvs := recvOf ws | mismatch s "bad recv"
    let (c', mr) := chanStep (s.mch sid) 0 (.getBox sid)
    let s ← xRecv s sid mr.recv recvs
    monRecv { s with mch := upd s.mch sid c' } none recvs
  | "mlinkup" :: sw :: _ =>
    let s := { s with ops := s.ops + 1, mOps := s.mOps + 1, mLinkUps := s.mLinkUps + 1 }
    let some sid := nat? sw | mismatch s "bad sid"
    let some recvs := recvOf ws | mismatch s "bad recv"
    let (c', mr) := chanStep (s.mch sid) 0 (.linkUp sid)
    let mut s ← xRecv s sid mr.recv recvs
    if resOf ws != "ok" then
      s ← mismatch s "mlinkup: ResetPackets failed"
    s := { s with mUp := if s.mUp.contains sid then s.mUp else sid :: s.mUp }
    s ← monFirstBind s sid recvs
    monRecv { s with mch := upd s.mch sid c', nontrivial := s.nontrivial + 1 } (some sid) recvs
  | "mlinkdown" :: sw :: _ =>
    let s := { s with ops := s.ops + 1, mOps := s.mOps + 1 }
    let some sid := nat? sw | mismatch s "bad sid"
    let (c', _) := chanStep (s.mch sid) 0 (.linkDown sid)
    return { s with mch := upd s.mch sid c', mUp := s.mUp.filter (· != sid) }
  | "mreset" :: sw :: _ =>
    let s := { s with ops := s.ops + 1, mOps := s.mOps + 1 }
    let some sid := nat? sw | mismatch s "bad sid"
    let some recvs := recvOf ws | mismatch s "bad recv"
    let (c', mr) := chanStep (s.mch sid) 0 (.reset sid)
    let s ← xRecv s sid mr.recv recvs
    monRecv { s with mch := upd s.mch sid c', nontrivial := s.nontrivial + 1 } (some sid) recvs
  | "mack" :: sw :: kw :: _ =>
    let s := { s with ops := s.ops + 1, mOps := s.mOps + 1 }
    let some sid := nat? sw | mismatch s "bad sid"
    let some k := key? kw | mismatch s "bad key"
    let some recvs := recvOf ws | mismatch s "bad recv"
    let r := resOf ws
    let mut s := s
    let c := s.mch sid
    let wantHas := b01 (hasKey (c.repDone ++ c.repTodo) k)
    let (c', mr) := chanStep c 0 (.ack sid k)
    if b01 mr.flag != r then
      s ← mismatch s s!"mack: model={b01 mr.flag} impl={r}"
    if kv? (afterArrow ws) "has" != some wantHas then
      s ← mismatch s s!"HasPacket: model={wantHas}"
    s ← xRecv s sid mr.recv recvs
    s := { s with mch := upd s.mch sid c' }
    -- monitor: the first successful ack of inKey k after a response with that key was handed to
    -- this link removes exactly that response (one reply per key in a mailbox)
    if r == "1" then
      -- a mailbox holds at most one reply per key and `AckPacket` prefers the reply: a successful
      -- ack of key k removes the queued reply with that key, received or not
      let cand := s.mQueued.filter (fun x => x.1 == sid &&
        (s.mInfo.any (fun i => i.1 == x.2 && i.2.2.1 == k)))
      match cand.head? with
      | some (_, u) =>
        s := { s with mAcked := u :: s.mAcked, mUnacked := s.mUnacked.filter (fun x => x != (sid, u)),
                      mQueued := s.mQueued.filter (fun x => x != (sid, u)),
                      mAcks := s.mAcks + 1, nontrivial := s.nontrivial + 1 }
      | none =>
        -- no reply with that key: the ack took a queued add; adds with that key are no longer
        -- expected back
        s := { s with mUnacked := s.mUnacked.filter (fun x => !(x.1 == sid &&
          s.mInfo.any (fun i => i.1 == x.2 && i.2.2.1 == k && i.2.2.2 == 2))) }
    monRecv s none recvs
  | "mrelay" :: ow :: setw :: uw :: _ =>
    let s := { s with ops := s.ops + 1, mOps := s.mOps + 1 }
    let some o := key? ow | mismatch s "bad key"
    let some u := nat? uw | mismatch s "bad uid"
    let some recvs := recvOf ws | mismatch s "bad recv"
    let settle := setw == "settle=1"
    let typ := if settle then 0 else 1
    let r := resOf ws
    let implIn := (kv? (afterArrow ws) "in").getD "-"
    let mut s := s
    let (m', rr) := relay s.model o settle
    s := { s with model := m' }
    match rr with
    | .deliver k =>
      let sid := k.chan
      let (c', mr) := chanStep (s.mch sid) u (.deliver sid k typ)
      let want := if mr.flag then "exists" else "ok"
      if want != r || implIn != keyStr k then
        s ← mismatch s s!"mrelay: model={want} in={keyStr k} impl={r} in={implIn}"
      s ← xRecv s sid mr.recv recvs
      s := { s with mch := upd s.mch sid c', mInfo := (u, sid, k, typ) :: s.mInfo, mRelayed := s.mRelayed + 1 }
    | .dropNil =>
      if r != "ok" || implIn != "-" then s ← mismatch s s!"mrelay: model=ok (dropped) impl={r} in={implIn}"
      s ← xRecv s 0 [] recvs
    | .closing =>
      if r != "closing" then s ← mismatch s s!"mrelay: model=closing impl={r}"
      s ← xRecv s 0 [] recvs
    | .otherErr =>
      if r != "err" then s ← mismatch s s!"mrelay: model=err impl={r}"
      s ← xRecv s 0 [] recvs
    -- monitor: an accepted response is one response of the circuit (respond-once), and it is a
    -- packet handed to Deliver for the incoming channel
    match key? implIn with
    | some k =>
      s ← monResponse s ("ok:" ++ implIn) none false
      if !(s.mInfo.any (fun i => i.1 == u)) then
        s := { s with mInfo := (u, k.chan, k, typ) :: s.mInfo }
      s ← monDelivered s k.chan u k typ r recvs
    | none => pure ()
    monRecv s none recvs
  | "mrestart" :: _ =>
    return { s with mch := fun _ => Chan.empty, mRound := [], mUnacked := [], mUp := [], mLive := [],
                    mParkedL := [], mQueued := [] }
  | "wsnap" :: rest =>
    let impl := " ".intercalate rest
    let m := renderSys s.sys
    let mut s := s
    if m != impl then
      s ← mismatch s s!"switch state: model[{m}] impl[{impl}]"
    let ents := ((kv? rest "E").bind (list? fent?)).getD []
    let pa := ((kv? rest "PA").bind (list? ref?)).getD []
    return { s with wEnts := ents, wPendAcks := s.wPendAcks + (if pa.isEmpty then 0 else 1) }
  | "wadd" :: kw :: ow :: _ =>
    let s := { s with ops := s.ops + 1, wOps := s.wOps + 1 }
    let some k := key? kw | mismatch s "bad key"
    let some o := key? ow | mismatch s "bad key"
    let r := resOf ws
    let mut s := s
    let added := (commit s.sys.cm [k] false).2.adds == [k]
    let σ1 := sstep s.sys (.commit [k] false)
    let opened := (openCircuits σ1.cm [(k, o)] false).2 == .ok
    let σ2 := sstep σ1 (.open [(k, o)] false)
    let mRes := if added && opened then "ok" else "refused"
    if mRes != r then
      s ← mismatch s s!"wadd {kw} {ow}: model={mRes} impl={r}"
    s := { s with sys := σ2, model := σ2.cm }
    if r == "ok" then
      if s.live.contains k then
        s ← monitor s "forward-once" s!"circuit {keyStr k} handed to the outgoing link again while its earlier forward is still live"
      -- a new incarnation of the in key
      s := { s with live := k :: s.live, wDurable := eraseAll s.wDurable [k], wRun := eraseAll s.wRun [k],
                    wEver := eraseAll s.wEver [k], responded := eraseAll s.responded [k],
                    nontrivial := s.nontrivial + 1 }
    return s
  | "wpkg" :: cw :: hw :: ew :: _ =>
    let s := { s with ops := s.ops + 1, wOps := s.wOps + 1 }
    let some c := nat? cw | mismatch s "bad chan"
    let some h := nat? hw | mismatch s "bad height"
    let some l := list? pkgEnt? ew | mismatch s "bad entries"
    let r := resOf ws
    let mut s := s
    if r != "ok" then
      s ← mismatch s s!"wpkg: impl={r}"
    let σ := sstep s.sys (.pkg c h l)
    return { s with sys := σ, model := σ.cm, nontrivial := s.nontrivial + 1 }
  | "wfwd" :: cw :: hw :: _ =>
    let s := { s with ops := s.ops + 1, wOps := s.wOps + 1 }
    let some c := nat? cw | mismatch s "bad chan"
    let some h := nat? hw | mismatch s "bad height"
    let r := resOf ws
    let mut s := s
    if r != "ok" then
      s ← mismatch s s!"wfwd: impl={r}"
    let σ := sstep s.sys (.fwd c h)
    -- statistics: entries that met a circuit already answered in this run
    let closing := (s.sys.ents.filter (fun e => e.ref.chan == c && e.ref.height == h && !e.acked &&
      (match closeCircuit s.sys.cm e.out with | (_, .closing) => true | _ => false))).length
    return { s with sys := σ, model := σ.cm, wClosingDrops := s.wClosingDrops + closing,
                    nontrivial := s.nontrivial + 1 }
  | "wrecv" :: sw :: _ =>
    let s := { s with ops := s.ops + 1, wOps := s.wOps + 1 }
    let some sid := nat? sw | mismatch s "bad sid"
    let r := resOf ws
    let mut s := s
    let (σ, mGot) := sysRecvAll s.sys sid (s.sys.mbox.length + 1)
    let mStr := joinStr (mGot.map respStr)
    if mStr != r then
      s ← mismatch s s!"wrecv {sid}: model={mStr} impl={r}"
    s := { s with sys := σ, model := σ.cm }
    -- monitor, on what the implementation handed to the incoming link
    match list? resp? r with
    | none => s ← monitor s "delivery-garbled" s!"incoming link {sid} received something that is not a settle/fail with a destination reference: {r}"
    | some got =>
      for x in got do
        let k := x.inKey
        if k.chan != sid then
          s ← monitor s "mailbox-wrong-link" s!"response for {keyStr k} reached link {sid}"
        if s.wDurable.contains k then
          s ← monitor s "response-after-durable-ack" s!"a settle/fail for incoming HTLC {keyStr k} (package entry {refStr x.ref}) was relayed to the incoming link although an earlier response for it is durably committed on the incoming channel (its SettleFailRef is acked)"
        else if s.wRun.contains k then
          s ← monitor s "respond-once" s!"a second settle/fail for incoming HTLC {keyStr k} reached the incoming link in one run"
        if s.wEver.contains k && !(s.wRun.contains k) then
          s := { s with wRedelivered := s.wRedelivered + 1 }
        s := { s with wRun := if s.wRun.contains k then s.wRun else k :: s.wRun,
                      wEver := if s.wEver.contains k then s.wEver else k :: s.wEver,
                      wRecvd := s.wRecvd + 1, nontrivial := s.nontrivial + 1 }
    return s
  | "wsign" :: sw :: nw :: _ =>
    let s := { s with ops := s.ops + 1, wOps := s.wOps + 1 }
    let some sid := nat? sw | mismatch s "bad sid"
    let some n := nat? nw | mismatch s "bad count"
    let r := resOf ws
    let implKeys := ((kv? (afterArrow ws) "keys").bind (list? key?)).getD []
    let mut s := s
    let (σ, mKeys) := sysSignN s.sys sid n
    if r != "ok" || mKeys != implKeys then
      s ← mismatch s s!"wsign: model=ok keys={keysStr mKeys} impl={r} keys={keysStr implKeys}"
    s := { s with sys := σ, model := σ.cm }
    for k in implKeys do
      if s.wDurable.contains k then
        s ← monitor s "response-committed-twice" s!"the incoming link committed a second settle/fail for HTLC {keyStr k}"
      s := { s with wDurable := k :: s.wDurable, wSigned := s.wSigned + 1, nontrivial := s.nontrivial + 1 }
    return s
  | "wdel" :: sw :: ksw :: wfw :: _ =>
    let s := { s with ops := s.ops + 1, wOps := s.wOps + 1 }
    let some sid := nat? sw | mismatch s "bad sid"
    let some keys := list? key? ksw | mismatch s "bad keys"
    let wf := wfw == "wf=1"
    let r := resOf ws
    let mut s := s
    let mKeys := s.sys.signed.filter (fun k => k.chan == sid)
    let mRes := if wf then "wferr" else "ok"
    if mRes != r || mKeys != keys then
      s ← mismatch s s!"wdel: model={mRes} keys={keysStr mKeys} impl={r} keys={keysStr keys}"
    let σ := sstep s.sys (.del sid wf)
    s := { s with sys := σ, model := σ.cm }
    if r == "ok" then
      s := monDeleted s keys
      s := { s with wRun := eraseAll s.wRun keys, dOk := s.dOk + 1,
                    nontrivial := s.nontrivial + (if keys.isEmpty then 0 else 1) }
    else if r == "wferr" && wf then
      s := { s with expectSame := some ("delete", s.prev.raw), dWf := s.dWf + 1 }
    else
      s ← monitor s "delete-error" s!"unexpected DeleteCircuits answer {r}"
    return s
  | "wack" :: wfw :: _ =>
    let s := { s with ops := s.ops + 1, wOps := s.wOps + 1 }
    let σ := sstep s.sys (.swAck (wfw == "wf=1"))
    return { s with sys := σ, model := σ.cm }
  | "wrestart" :: _ :: acw :: _ =>
    let s := { s with ops := s.ops + 1, wOps := s.wOps + 1, wRestarts := s.wRestarts + 1, restarts := s.restarts + 1 }
    let some ac := (kv? [acw] "active").bind (list? mactive?) | mismatch s "bad active list"
    let r := resOf ws
    let mut s := s
    if r != "ok" then
      s ← mismatch s s!"wrestart: impl={r}"
    let env : Env := mkEnv [] ac []
    -- statistics on the implementation's own last dump: the crash window of the property
    let window := s.wEnts.any (fun e => e.acked && s.prev.o.any (fun x => x.key == e.out))
    let partialPkg := s.wEnts.any (fun e => e.acked && s.wEnts.any (fun e' =>
      e'.ref.chan == e.ref.chan && e'.ref.height == e.ref.height && !e'.acked))
    let σ := sstep s.sys (.restart env)
    let ex := monRestart { closed := [], active := ac, res := [] } s.prev.a s.prev.k
    return { s with sys := σ, model := σ.cm, expectRestart := some ex, noClosedCheck := true,
                    wRun := [], wWindow := s.wWindow + (if window then 1 else 0),
                    wPartial := s.wPartial + (if partialPkg then 1 else 0),
                    nontrivial := s.nontrivial + 1 }
  | "race" :: _ =>
    let s := { s with ops := s.ops + 1, races := s.races + 1, xOff := true }
    let rs := (afterArrow ws).headD ""
    let parts := rs.splitOn ","
    let wins := parts.filter (fun p => (p.startsWith "close=ok:" || p.startsWith "fail=ok:"))
    let mut s := s
    if wins.length > 1 then
      s ← monitor s "race-respond-once" s!"{wins.length} concurrent settle/fail calls for one circuit were all accepted: {rs}"
    if parts.any (fun p => p.endsWith "=panic") then
      s ← monitor s "race-panic" rs
    let deleted := parts.any (fun p => p == "delete=ok")
    -- after the race the circuit is either deleted or still pending; the volatile bookkeeping
    -- of the monitor restarts from the next snapshot
    let inK := (kv? ws "in").bind key?
    s := match inK with
      | some k => if deleted then monDeleted s [k] else s
      | none => s
    return { s with raceWinners := s.raceWinners + wins.length, nontrivial := s.nontrivial + 1 }
  | [] => return s
  | _ => mismatch s s!"unparsed line: {line.take 60}"

end LndModel.C07.Driver

open LndModel.C07.Driver in
def main (args : List String) : IO Unit := do
  if args.head? == some "codec" then
    let s ← LndModel.Lines.foldStdin LndModel.C07.CodecDriver.step {}
    LndModel.C07.CodecDriver.report s
    return
  let s ← LndModel.Lines.foldStdin step {}
  IO.println s!"STAT lines={s.lines}"
  IO.println s!"STAT cases={s.cases}"
  IO.println s!"STAT evaluations={s.ops}"
  IO.println s!"STAT nontrivial={s.nontrivial}"
  IO.println s!"STAT snapshots={s.snaps}"
  IO.println s!"STAT commit_adds={s.cAdds}"
  IO.println s!"STAT commit_drops={s.cDrops}"
  IO.println s!"STAT commit_fails={s.cFails}"
  IO.println s!"STAT commit_write_failures={s.cWf}"
  IO.println s!"STAT commit_batches_with_duplicates={s.cDupInBatch}"
  IO.println s!"STAT open_ok={s.oOk}"
  IO.println s!"STAT open_dup_keystone={s.oDup}"
  IO.println s!"STAT open_unknown_circuit={s.oUnknown}"
  IO.println s!"STAT open_write_failures={s.oWf}"
  IO.println s!"STAT trims_nonempty={s.tNonEmpty}"
  IO.println s!"STAT trim_write_failures={s.tWf}"
  IO.println s!"STAT responses_accepted={s.rOk}"
  IO.println s!"STAT responses_refused_closing={s.rClosing}"
  IO.println s!"STAT responses_unknown={s.rUnknown}"
  IO.println s!"STAT deletes_ok={s.dOk}"
  IO.println s!"STAT delete_write_failures={s.dWf}"
  IO.println s!"STAT teardown_nil_circuit_panics={s.tearPanic}"
  IO.println s!"STAT restarts={s.restarts}"
  IO.println s!"STAT restart_circuits_purged={s.purged}"
  IO.println s!"STAT restart_keystones_trimmed={s.trimmedAtRestart}"
  IO.println s!"STAT restart_keystones_kept_for_resolution={s.resKept}"
  IO.println s!"STAT restart_bounds_with_gap={s.gapRestarts}"
  IO.println s!"STAT restart_rollbacks_on_regular_channels={s.trimsByKind.getD 0 0}"
  IO.println s!"STAT restart_rollbacks_on_scid_alias_channels={s.trimsByKind.getD 1 0}"
  IO.println s!"STAT restart_rollbacks_on_unconfirmed_zero_conf_channels={s.trimsByKind.getD 2 0}"
  IO.println s!"STAT restart_rollbacks_on_confirmed_zero_conf_channels={s.trimsByKind.getD 3 0}"
  IO.println s!"STAT restarts_with_failing_commit_tip_read={s.faultRestarts}"
  IO.println s!"STAT restarts_aborted_by_read_error={s.faultAborts}"
  IO.println s!"STAT fault_restarts_with_keystones_between_revoked_and_pending_index={s.faultKeptCommitted}"
  IO.println s!"STAT next_index_calls_with_failing_read={s.faultReads}"
  IO.println s!"STAT undisciplined_cases={s.undisciplined}"
  IO.println s!"STAT races={s.races}"
  IO.println s!"STAT race_winners={s.raceWinners}"
  IO.println s!"STAT mailbox_ops={s.mOps}"
  IO.println s!"STAT mailbox_packets_parked_unclaimed={s.mParked}"
  IO.println s!"STAT mailbox_link_starts={s.mLinkUps}"
  IO.println s!"STAT mailbox_packets_received={s.mReceived}"
  IO.println s!"STAT mailbox_unacked_redelivered_by_reset={s.mRedeliveredUnacked}"
  IO.println s!"STAT mailbox_acks_of_received_responses={s.mAcks}"
  IO.println s!"STAT mailbox_duplicates_refused={s.mExists}"
  IO.println s!"STAT mailbox_responses_relayed_by_switch={s.mRelayed}"
  IO.println s!"STAT swrestart_ops={s.wOps}"
  IO.println s!"STAT swrestart_node_restarts={s.wRestarts}"
  IO.println s!"STAT swrestart_restarts_with_acked_entry_of_open_circuit={s.wWindow}"
  IO.println s!"STAT swrestart_restarts_with_partially_acked_package={s.wPartial}"
  IO.println s!"STAT swrestart_responses_received_by_incoming_links={s.wRecvd}"
  IO.println s!"STAT swrestart_responses_relayed_again_after_restart={s.wRedelivered}"
  IO.println s!"STAT swrestart_responses_committed={s.wSigned}"
  IO.println s!"STAT swrestart_duplicates_dropped_circuit_closing={s.wClosingDrops}"
  IO.println s!"STAT swrestart_snapshots_with_pending_settle_fail_acks={s.wPendAcks}"
  IO.println s!"STAT mismatches={s.mismatches}"
  IO.println s!"STAT monitor_failures={s.monitorFails}"
