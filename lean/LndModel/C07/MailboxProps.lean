/-
C07, mailbox level — property theorem for the mailbox/orchestrator model
(`Mailbox.lean`): along any history of deliver / getBox / linkUp (bind ; reset ;
receive) / linkDown / reset / ack / restart operations on any channels, a packet
handed to `Deliver` is handed to the link at most once per delivery round
(between two `ResetPackets` of its mailbox), and never again once it has been
acked.  `ResetPackets` re-delivers only packets that are still un-acked.
-/
import LndModel.C07.MailboxLemmas

namespace LndModel.C07

/-- **delivered_at_most_once_per_bind_history.** Along ANY history of deliveries (to live or not yet
    registered links), mailbox creations, link starts (`BindLiveShortChanID` ; `ResetPackets` ;
    receive), link stops, resets, acks and restarts, on any channels: every packet handed to
    `Deliver` is handed to the link at most once per delivery round of its mailbox (`got ≤ 1`,
    the counter restarts only at `ResetPackets`, which re-offers exactly the packets that are still
    queued, i.e. un-acked), and a packet that has been acked is never handed to the link again
    (`gotAfterAck = 0`) — in particular a re-bind cannot re-deliver parked packets. -/
theorem delivered_at_most_once_per_bind_history (ops : List MOp) (sid u : Nat) :
    ((mrun MState.init ops).chans sid).got u ≤ 1 ∧
    ((mrun MState.init ops).chans sid).gotAfterAck u = 0 := by
  have h := minv_run MState.init ops (fun _ => minv_empty _) sid
  exact ⟨h.le u, h.gaa u⟩

/-- an acked packet is in no queue any more (so no later bind/reset can find it). -/
theorem acked_packet_gone (ops : List MOp) (sid u : Nat)
    (h : ((mrun MState.init ops).chans sid).acked u = true) :
    cntAll u ((mrun MState.init ops).chans sid) = 0 :=
  (minv_run MState.init ops (fun _ => minv_empty _) sid).ackd u h

/-- binding moves the parked packets out of `unclaimed` (exactly once). -/
theorem bind_clears_unclaimed (c : Chan) : (bindChan c).unclaimed = [] := by
  unfold bindChan; rw [(addPackets_spec _ _).1]

/-- non-vacuity: a parked settle is received once at the first link start, re-offered by a reset
    while un-acked, and not again after the ack, however often the link is re-bound. -/
example :
    let ops := [MOp.deliver 1 ⟨1, 0⟩ 0, .linkUp 1, .reset 1, .ack 1 ⟨1, 0⟩, .linkDown 1, .linkUp 1, .linkUp 1]
    ((mrun MState.init ops).chans 1).got 0 = 1 ∧ ((mrun MState.init ops).chans 1).acked 0 = true ∧
    ((mstep (mrun MState.init (ops.take 2)) (.reset 1)).2.recv.map (·.uid)) = [0] ∧
    ((mstep (mrun MState.init (ops.take 5)) (.linkUp 1)).2.recv.map (·.uid)) = [] := by
  decide

end LndModel.C07
