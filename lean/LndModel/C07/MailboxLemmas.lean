/-
C07, mailbox level — counting lemmas and the per-channel inductive invariant `MInv` for the
mailbox/orchestrator model (`Mailbox.lean`); used by `MailboxProps.lean`.
-/
import LndModel.C07.Mailbox
import LndModel.C07.Lemmas

namespace LndModel.C07

theorem cnt_append (u : Nat) (a b : List Pkt) : cnt u (a ++ b) = cnt u a + cnt u b := by
  simp [cnt, List.countP_append]

theorem cnt_nil (u : Nat) : cnt u [] = 0 := rfl

theorem cnt_single (u : Nat) (p : Pkt) : cnt u [p] = if p.uid = u then 1 else 0 := by
  simp [cnt, List.countP_cons]

theorem cnt_cons (u : Nat) (p : Pkt) (l : List Pkt) :
    cnt u (p :: l) = cnt u l + (if p.uid = u then 1 else 0) := by
  simp [cnt, List.countP_cons]

def cntAll (u : Nat) (c : Chan) : Nat :=
  cnt u c.unclaimed + cnt u c.repDone + cnt u c.repTodo + cnt u c.addDone + cnt u c.addTodo

/-- per-channel invariant; `n` is the next unused packet id. -/
structure MInv (c : Chan) (n : Nat) : Prop where
  nd : ∀ u, cntAll u c ≤ 1
  lt : ∀ u, n ≤ u → cntAll u c = 0
  todo0 : ∀ u, 0 < cnt u c.unclaimed + cnt u c.repTodo + cnt u c.addTodo → c.got u = 0
  le : ∀ u, c.got u ≤ 1
  ackd : ∀ u, c.acked u = true → cntAll u c = 0
  fresh : ∀ u, n ≤ u → c.got u = 0 ∧ c.acked u = false
  gaa : ∀ u, c.gotAfterAck u = 0

theorem minv_empty (n : Nat) : MInv Chan.empty n := by
  constructor <;> simp [Chan.empty, cntAll, cnt]

theorem minv_mono (c : Chan) (n : Nat) (h : MInv c n) : MInv c (n + 1) :=
  ⟨h.nd, fun u hu => h.lt u (by omega), h.todo0, h.le, h.ackd, fun u hu => h.fresh u (by omega), h.gaa⟩

/-! ### AddPacket -/

theorem addPacket_spec (c : Chan) (p : Pkt) :
    (addPacket c p).1.unclaimed = c.unclaimed ∧ (addPacket c p).1.repDone = c.repDone ∧
    (addPacket c p).1.addDone = c.addDone ∧ (addPacket c p).1.got = c.got ∧
    (addPacket c p).1.acked = c.acked ∧ (addPacket c p).1.gotAfterAck = c.gotAfterAck ∧
    (addPacket c p).1.up = c.up ∧
    ∀ u, cnt u (addPacket c p).1.repTodo + cnt u (addPacket c p).1.addTodo ≤
           cnt u c.repTodo + cnt u c.addTodo + cnt u [p] ∧
         cnt u c.repTodo ≤ cnt u (addPacket c p).1.repTodo ∧
         cnt u c.addTodo ≤ cnt u (addPacket c p).1.addTodo := by
  unfold addPacket
  split
  · split
    · simp
    · refine ⟨rfl, rfl, rfl, rfl, rfl, rfl, rfl, ?_⟩
      intro u; simp only [cnt_append]; omega
  · split
    · simp
    · refine ⟨rfl, rfl, rfl, rfl, rfl, rfl, rfl, ?_⟩
      intro u; simp only [cnt_append]; omega

theorem addPackets_spec (c : Chan) (l : List Pkt) :
    (addPackets c l).unclaimed = c.unclaimed ∧ (addPackets c l).repDone = c.repDone ∧
    (addPackets c l).addDone = c.addDone ∧ (addPackets c l).got = c.got ∧
    (addPackets c l).acked = c.acked ∧ (addPackets c l).gotAfterAck = c.gotAfterAck ∧
    (addPackets c l).up = c.up ∧
    ∀ u, cnt u (addPackets c l).repTodo + cnt u (addPackets c l).addTodo ≤
           cnt u c.repTodo + cnt u c.addTodo + cnt u l ∧
         cnt u c.repTodo ≤ cnt u (addPackets c l).repTodo ∧
         cnt u c.addTodo ≤ cnt u (addPackets c l).addTodo := by
  induction l generalizing c with
  | nil => simp [addPackets, cnt_nil]
  | cons p rest ih =>
    simp only [addPackets]
    obtain ⟨a1, a2, a3, a4, a5, a6, a7, a8⟩ := addPacket_spec c p
    obtain ⟨b1, b2, b3, b4, b5, b6, b7, b8⟩ := ih (addPacket c p).1
    refine ⟨b1.trans a1, b2.trans a2, b3.trans a3, b4.trans a4, b5.trans a5, b6.trans a6,
      b7.trans a7, ?_⟩
    intro u
    have := a8 u; have := b8 u
    simp only [cnt_cons, cnt_nil] at *
    omega

/-! ### AckPacket -/

theorem eraseKey_cnt (l : List Pkt) (k : Key) (p : Pkt) (h : findKey l k = some p) :
    ∀ u, cnt u (eraseKey l k) + (if p.uid = u then 1 else 0) = cnt u l := by
  induction l with
  | nil => simp [findKey] at h
  | cons q rest ih =>
    intro u
    simp only [findKey, List.find?_cons] at h
    by_cases hq : q.inKey = k
    · simp only [hq, decide_true] at h
      injection h with h; subst h
      simp only [eraseKey, List.eraseP_cons, hq, decide_true, cond_true, cnt_cons]
    · simp only [hq, decide_false] at h
      have := ih h u
      simp only [eraseKey, List.eraseP_cons, hq, decide_false, cond_false, cnt_cons]
      simp only [eraseKey] at this
      omega

/-- a successful ack removes exactly one packet `p` and marks it acked. -/
theorem ackPacket_spec (c : Chan) (k : Key) :
    ((ackPacket c k).2 = false ∧ (ackPacket c k).1 = c) ∨
    ∃ p : Pkt, (ackPacket c k).2 = true ∧
      (∀ u, cntAll u (ackPacket c k).1 + (if p.uid = u then 1 else 0) = cntAll u c) ∧
      (∀ u, cnt u (ackPacket c k).1.unclaimed = cnt u c.unclaimed ∧
            cnt u (ackPacket c k).1.repTodo ≤ cnt u c.repTodo ∧
            cnt u (ackPacket c k).1.addTodo ≤ cnt u c.addTodo) ∧
      (ackPacket c k).1.got = c.got ∧ (ackPacket c k).1.gotAfterAck = c.gotAfterAck ∧
      (ackPacket c k).1.acked = upd c.acked p.uid true := by
  unfold ackPacket
  cases h1 : findKey c.repDone k with
  | some p =>
    right; refine ⟨p, rfl, ?_, ?_, rfl, rfl, rfl⟩
    · intro u; have := eraseKey_cnt _ k p h1 u
      simp only [cntAll, markAcked]; omega
    · intro u; simp [markAcked]
  | none =>
  cases h2 : findKey c.repTodo k with
  | some p =>
    right; refine ⟨p, rfl, ?_, ?_, rfl, rfl, rfl⟩
    · intro u; have := eraseKey_cnt _ k p h2 u
      simp only [cntAll, markAcked]; omega
    · intro u; have := eraseKey_cnt _ k p h2 u
      simp only [markAcked]; refine ⟨trivial, by omega, Nat.le_refl _⟩
  | none =>
  cases h3 : findKey c.addDone k with
  | some p =>
    right; refine ⟨p, rfl, ?_, ?_, rfl, rfl, rfl⟩
    · intro u; have := eraseKey_cnt _ k p h3 u
      simp only [cntAll, markAcked]; omega
    · intro u; simp [markAcked]
  | none =>
  cases h4 : findKey c.addTodo k with
  | some p =>
    right; refine ⟨p, rfl, ?_, ?_, rfl, rfl, rfl⟩
    · intro u; have := eraseKey_cnt _ k p h4 u
      simp only [cntAll, markAcked]; omega
    · intro u; have := eraseKey_cnt _ k p h4 u
      simp only [markAcked]; refine ⟨trivial, Nat.le_refl _, by omega⟩
  | none => left; exact ⟨rfl, rfl⟩

theorem minv_ack (c : Chan) (n : Nat) (k : Key) (h : MInv c n) : MInv (ackPacket c k).1 n := by
  cases ackPacket_spec c k with
  | inl hh => rw [hh.2]; exact h
  | inr hh =>
    obtain ⟨p, _, hc, hl, hg, hga, hak⟩ := hh
    have hp1 : cntAll p.uid c = 1 := by
      have := hc p.uid; have := h.nd p.uid; simp at *; omega
    constructor
    · intro u; have := hc u; have := h.nd u; omega
    · intro u hu; have := hc u; have := h.lt u hu; omega
    · intro u hu; rw [hg]; apply h.todo0; have := hl u; omega
    · intro u; rw [hg]; exact h.le u
    · intro u hu
      rw [hak] at hu; simp only [upd_apply] at hu
      by_cases e : u = p.uid
      · subst e; have := hc p.uid; simp at this; omega
      · simp only [e, if_false] at hu
        have := hc u; have := h.ackd u hu; omega
    · intro u hu
      rw [hg, hak]; simp only [upd_apply]
      have hne : u ≠ p.uid := by
        intro e; subst e; have := h.lt p.uid hu; omega
      simp only [hne, if_false]; exact h.fresh u hu
    · intro u; rw [hga]; exact h.gaa u

/-! ### the link receives -/

theorem minv_drain (c : Chan) (n : Nat) (h : MInv c n) : MInv (drain c).1 n := by
  unfold drain
  split
  · constructor
    · intro u; have := h.nd u
      simp only [cntAll, noteGot, cnt_append, cnt_nil] at *; omega
    · intro u hu; have := h.lt u hu
      simp only [cntAll, noteGot, cnt_append, cnt_nil] at *; omega
    · intro u hu
      simp only [noteGot, cnt_append, cnt_nil] at *
      have := h.nd u; have := h.todo0 u (by omega)
      simp only [cntAll] at *; omega
    · intro u
      simp only [noteGot, cnt_append]
      have := h.nd u; have := h.le u
      simp only [cntAll] at *
      by_cases hz : 0 < cnt u c.repTodo + cnt u c.addTodo
      · have := h.todo0 u (by omega); omega
      · omega
    · intro u hu
      simp only [noteGot] at hu
      have := h.ackd u hu
      simp only [cntAll, noteGot, cnt_append, cnt_nil] at *; omega
    · intro u hu
      simp only [noteGot, cnt_append]
      have := h.lt u hu; have := h.fresh u hu
      simp only [cntAll] at *
      exact ⟨by omega, this.2⟩
    · intro u
      simp only [noteGot, cnt_append]
      have := h.gaa u
      split
      · rename_i ha; have := h.ackd u ha; simp only [cntAll] at *; omega
      · omega
  · exact h

theorem minv_reset (c : Chan) (n : Nat) (h : MInv c n) : MInv (resetPkts c) n := by
  constructor
  · intro u; have := h.nd u
    simp only [cntAll, resetPkts, cnt_append, cnt_nil] at *; omega
  · intro u hu; have := h.lt u hu
    simp only [cntAll, resetPkts, cnt_append, cnt_nil] at *; omega
  · intro u hu
    simp only [resetPkts, cnt_append] at *
    split
    · rfl
    · apply h.todo0; omega
  · intro u; simp only [resetPkts]; split
    · omega
    · exact h.le u
  · intro u hu
    simp only [resetPkts] at hu
    have := h.ackd u hu
    simp only [cntAll, resetPkts, cnt_append, cnt_nil] at *; omega
  · intro u hu
    simp only [resetPkts]
    have := h.fresh u hu
    refine ⟨?_, this.2⟩
    split
    · rfl
    · exact this.1
  · intro u; exact h.gaa u

/-! ### Deliver / BindLiveShortChanID -/

theorem minv_addPackets (c : Chan) (l : List Pkt) (n : Nat)
    (hnd : ∀ u, cntAll u c + cnt u l ≤ 1) (hlt : ∀ u, n ≤ u → cntAll u c + cnt u l = 0)
    (htodo : ∀ u, 0 < cnt u c.unclaimed + cnt u c.repTodo + cnt u c.addTodo + cnt u l → c.got u = 0)
    (hle : ∀ u, c.got u ≤ 1) (hack : ∀ u, c.acked u = true → cntAll u c + cnt u l = 0)
    (hfresh : ∀ u, n ≤ u → c.got u = 0 ∧ c.acked u = false) (hgaa : ∀ u, c.gotAfterAck u = 0) :
    MInv (addPackets c l) n := by
  obtain ⟨b1, b2, b3, b4, b5, b6, _, b8⟩ := addPackets_spec c l
  constructor
  · intro u; have := hnd u; have := b8 u
    simp only [cntAll, b1, b2, b3] at *; omega
  · intro u hu; have := hlt u hu; have := b8 u
    simp only [cntAll, b1, b2, b3] at *; omega
  · intro u hu; rw [b4]; apply htodo; have := b8 u
    simp only [b1] at hu; omega
  · intro u; rw [b4]; exact hle u
  · intro u hu; rw [b5] at hu; have := hack u hu; have := b8 u
    simp only [cntAll, b1, b2, b3] at *; omega
  · intro u hu; rw [b4, b5]; exact hfresh u hu
  · intro u; rw [b6]; exact hgaa u

theorem minv_bind (c : Chan) (n : Nat) (h : MInv c n) : MInv (bindChan c) n := by
  unfold bindChan
  apply minv_addPackets
  · intro u; have := h.nd u; simp only [cntAll, cnt_nil] at *; omega
  · intro u hu; have := h.lt u hu; simp only [cntAll, cnt_nil] at *; omega
  · intro u hu; apply h.todo0; simp only [cnt_nil] at hu; omega
  · exact h.le
  · intro u hu; have := h.ackd u hu; simp only [cntAll, cnt_nil] at *; omega
  · exact h.fresh
  · exact h.gaa

theorem minv_deliver (c : Chan) (n : Nat) (k : Key) (t : Nat) (h : MInv c n) :
    MInv (deliverChan c ⟨n, k, t⟩).1 (n + 1) := by
  have hn0 : cntAll n c = 0 := h.lt n (Nat.le_refl _)
  have hfr := h.fresh n (Nat.le_refl _)
  unfold deliverChan
  split
  · -- live: AddPacket of one packet = addPackets of a singleton
    have : (addPacket { c with hasBox := true } ⟨n, k, t⟩).1
        = addPackets { c with hasBox := true } [⟨n, k, t⟩] := rfl
    rw [this]
    apply minv_addPackets
    · intro u; have := h.nd u; simp only [cntAll, cnt_single] at *
      split
      · rename_i e; subst e; omega
      · omega
    · intro u hu; have := h.lt u (by omega); simp only [cntAll, cnt_single] at *
      have : ¬ n = u := by omega
      simp only [this, if_false]; omega
    · intro u hu; simp only [cnt_single] at hu
      by_cases e : n = u
      · subst e; exact hfr.1
      · simp only [e, if_false] at hu; apply h.todo0; omega
    · exact h.le
    · intro u hu; have := h.ackd u hu; simp only [cntAll, cnt_single] at *
      have : ¬ n = u := by intro e; subst e; rw [hfr.2] at hu; cases hu
      simp only [this, if_false]; omega
    · intro u hu; exact h.fresh u (by omega)
    · exact h.gaa
  · constructor
    · intro u; have := h.nd u; simp only [cntAll, cnt_append, cnt_single] at *
      split
      · rename_i e; subst e; omega
      · omega
    · intro u hu; have := h.lt u (by omega); simp only [cntAll, cnt_append, cnt_single] at *
      have : ¬ n = u := by omega
      simp only [this, if_false]; omega
    · intro u hu; simp only [cnt_append, cnt_single] at hu
      by_cases e : n = u
      · subst e; exact hfr.1
      · simp only [e, if_false] at hu; apply h.todo0; omega
    · exact h.le
    · intro u hu; have := h.ackd u hu; simp only [cntAll, cnt_append, cnt_single] at *
      have : ¬ n = u := by intro e; subst e; rw [hfr.2] at hu; cases hu
      simp only [this, if_false]; omega
    · intro u hu; exact h.fresh u (by omega)
    · exact h.gaa

/-! ### all operations -/

theorem minv_chanStep (c : Chan) (n : Nat) (op : MOp) (h : MInv c n) :
    MInv (chanStep c n op).1 (n + 1) := by
  cases op with
  | deliver s k t => exact minv_drain _ _ (minv_deliver c n k t h)
  | getBox s =>
    exact minv_mono _ _ ⟨h.nd, h.lt, h.todo0, h.le, h.ackd, h.fresh, h.gaa⟩
  | linkUp s =>
    apply minv_mono
    apply minv_drain
    have hr := minv_reset _ n (minv_bind c n h)
    exact ⟨hr.nd, hr.lt, hr.todo0, hr.le, hr.ackd, hr.fresh, hr.gaa⟩
  | linkDown s =>
    exact minv_mono _ _ ⟨h.nd, h.lt, h.todo0, h.le, h.ackd, h.fresh, h.gaa⟩
  | reset s => exact minv_mono _ _ (minv_drain _ _ (minv_reset c n h))
  | ack s k => exact minv_mono _ _ (minv_ack c n k h)
  | restart => exact minv_empty _

theorem minv_step (s : MState) (op : MOp) (h : ∀ sid, MInv (s.chans sid) s.next) :
    ∀ sid, MInv ((mstep s op).1.chans sid) (mstep s op).1.next := by
  intro sid
  unfold mstep
  cases ho : op.sid? with
  | none => exact minv_empty _
  | some t =>
    simp only [upd_apply]
    by_cases e : sid = t
    · subst e; simp only [if_true]; exact minv_chanStep _ _ op (h sid)
    · simp only [e, if_false]; exact minv_mono _ _ (h sid)

theorem minv_run (s : MState) (ops : List MOp) (h : ∀ sid, MInv (s.chans sid) s.next) :
    ∀ sid, MInv ((mrun s ops).chans sid) (mrun s ops).next := by
  induction ops generalizing s with
  | nil => exact h
  | cons op rest ih => exact ih _ (minv_step s op h)

end LndModel.C07
