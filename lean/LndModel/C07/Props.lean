/-
C07 — property theorems for the circuit-map model (`Model.lean`).  Definitions of the
history variables and their step lemmas: `Hist.lean`; structural invariant `WF` and the
link discipline `OpenOk` / `Disciplined`: `Wf.lean`; effect lemmas: `Lemmas.lean`, `Lemmas2.lean`.

History variables (`Hist`) record, per incoming key, how often it has been
returned in `CircuitFwdActions.Adds` and how often a `CloseCircuit` /
`FailCircuit` call has returned its circuit during the current incarnation.  An
incarnation of an in key ends when the circuit is durably removed: by a
successful `DeleteCircuits` naming the key, or by the purge in
`cleanClosedChannels` at a restart (for the response counter also by any
restart, because the `closed` set is volatile by design and the durable circuit
is still there to answer the re-delivered response).
-/
import LndModel.C07.Hist

namespace LndModel.C07

/-- **mem_disk_agree** (the part that holds without any discipline of the callers): after any
    operation list — any batches, any write failures, any restarts — the in-memory `pending` map
    and the durable `circuit-adds` bucket have exactly the same keys. -/
theorem mem_disk_agree (ops : List Op) : PendingIffAdds (run State.init ops) := by
  suffices h : ∀ s, PendingIffAdds s → PendingIffAdds (run s ops) by
    apply h; intro k; simp [State.init]
  induction ops with
  | nil => intro s h; exact h
  | cons op rest ih => intro s h; exact ih _ (pendingIffAdds_step s op h)

/-! ## forward_at_most_once -/

/-- **forward_at_most_once.** Along ANY operation list (arbitrary batches with duplicates, arbitrary
    re-forwards, write failures, restarts with arbitrary closed-channel sets), within one incarnation
    of an in key — i.e. until a successful `DeleteCircuits` naming it or its purge at a restart —
    the key is returned in `CommitCircuits(...).Adds` at most once.  In particular a circuit
    restored from disk is never handed to the switch again. -/
theorem forward_at_most_once (ops : List Op) (k : Key) : (runH Hist.init ops).addCnt k ≤ 1 :=
  (fwdInv_run _ ops fwdInv_init).le k

/-- a single `Adds` list never contains a key twice, and never a key that is already pending. -/
theorem adds_fresh_nodup (s : State) (b : List Key) (wf : Bool) :
    (commit s b wf).2.adds.Nodup ∧ ∀ k ∈ (commit s b wf).2.adds, s.pending k = none :=
  ⟨(commit_spec s b wf).1, (commit_spec s b wf).2.1⟩

/-- a forwarded circuit stays known (pending and durable) for its whole incarnation:
    nothing but delete/purge removes it, so the HTLC is not lost either. -/
theorem forwarded_stays_known (ops : List Op) (k : Key)
    (h : (runH Hist.init ops).addCnt k = 1) :
    ((run State.init ops).pending k).isSome ∧ k ∈ (run State.init ops).adds := by
  have inv := fwdInv_run _ ops fwdInv_init
  have hp := inv.live k h
  rw [runH_st] at hp
  exact ⟨hp, (mem_disk_agree ops k).mp hp⟩

/-! ## respond_at_most_once -/

/-- **respond_at_most_once.** Along ANY operation list, per incarnation of an in key (until a
    successful delete naming it, or a restart), at most one of all `CloseCircuit` / `FailCircuit`
    calls returns the circuit; every further settle or fail gets `ErrCircuitClosing` or
    `ErrUnknownCircuit`.  No discipline of the callers is needed: two keystones for one circuit,
    stale `opened` entries etc. do not break it, because the arbitration is on the in key. -/
theorem respond_at_most_once (ops : List Op) (k : Key) : (runH Hist.init ops).respCnt k ≤ 1 :=
  (respInv_run _ ops ⟨by intro k; simp [Hist.init], by intro k hk; simp [Hist.init] at hk⟩).le k

/-- … and the response is not lost by a restart: the `closed` set is empty again and every durable
    circuit that was not purged is pending, so the re-delivered fail is accepted (exactly once). -/
theorem response_redeliverable_after_restart (e : Env) (s : State) (k : Key)
    (hk : k ∈ (cleanClosed e s).adds) :
    (failCircuit (restart e s) k).2 = .ok k ∧
    (failCircuit (failCircuit (restart e s) k).1 k).2 = .closing := by
  have hp : (restart e s).pending k = some (.disk k) := by rw [restart_pending]; simp [hk]
  have hc : (restart e s).closed k = false := restart_closed e s k
  constructor
  · simp [failCircuit, hp, hc]
  · simp [failCircuit, hp, hc]

/-- same for an open circuit: after a restart `CloseCircuit` on a surviving keystone answers once. -/
theorem close_after_restart_once (e : Env) (s : State) (o : Key) (id : ObjId)
    (ho : (restart e s).opened o = some id) :
    (closeCircuit (restart e s) o).2 = .ok ((restart e s).objs id).inKey ∧
    (closeCircuit (closeCircuit (restart e s) o).1 o).2 = .closing := by
  have hc : (restart e s).closed ((restart e s).objs id).inKey = false := restart_closed e s _
  constructor
  · simp [closeCircuit, ho, hc]
  · simp [closeCircuit, ho, hc]

/-! ## the decision table of CommitCircuits -/

/-- **decision table**, one circuit: fresh key → Add (Fail if the write fails); pending with a
    keystone → Drop; pending in memory only → Drop; pending, restored from disk, no keystone → Fail.
    Nothing else is possible, and only the Add case changes the circuit map. -/
theorem commit_single (s : State) (k : Key) (wf : Bool) :
    (commit s [k] wf).2 =
      match s.pending k with
      | none => if wf then ⟨[], [], [k], true⟩ else ⟨[k], [], [], false⟩
      | some id =>
        if (s.objs id).outgoing.isSome then ⟨[], [k], [], false⟩
        else if !(s.objs id).loaded then ⟨[], [k], [], false⟩
        else ⟨[], [], [k], false⟩ := by
  cases hp : s.pending k with
  | none =>
    have hd : decide1 s k = .add := (decide1_add_iff s k).2 hp
    cases wf <;> simp [commit, commitLoop, pick, hd]
  | some id =>
    simp only [commit, commitLoop, pick, decide1, hp]
    by_cases h1 : (s.objs id).outgoing.isSome = true
    · simp [h1]
    · by_cases h2 : (s.objs id).loaded = true
      · simp [h1, h2]
      · simp [h1, h2]

/-- every circuit of a batch gets exactly one verdict — none is lost, none is answered twice —
    also when the write fails (then nothing is an Add). -/
theorem commit_partition (s : State) (b : List Key) (wf : Bool) :
    (commit s b wf).2.adds.length + (commit s b wf).2.drops.length + (commit s b wf).2.fails.length
      = b.length := by
  have hp := pick_partition (commitLoop s b).2
  have hl := commitLoop_length s b
  rw [commit_eq]
  split
  · rename_i he
    have : (pick (commitLoop s b).2 (· == .add)).length = 0 := by
      have : addsOf s b = [] := List.isEmpty_iff.mp he
      simp only [addsOf] at this; simp [this]
    simp only [List.length_nil]; omega
  · split
    · simp only [addsOf]; omega
    · simp only [List.length_nil]; omega

/-! ## rollback_on_write_failure -/

/-- **rollback (CommitCircuits).** If the batch write fails, nothing is reported as an Add and the
    circuit map — memory and disk — is exactly what it was; circuit objects that existed before are
    untouched. -/
theorem commit_rollback_on_write_failure (s : State) (b : List Key) (wf : Bool)
    (herr : (commit s b wf).2.err = true) :
    (commit s b wf).2.adds = [] ∧
    (∀ k, (commit s b wf).1.pending k = s.pending k) ∧
    (commit s b wf).1.opened = s.opened ∧ (commit s b wf).1.closed = s.closed ∧
    (commit s b wf).1.adds = s.adds ∧ (commit s b wf).1.ks = s.ks ∧
    (∀ k, (commit s b wf).1.objs (.disk k) = s.objs (.disk k)) ∧
    (∀ n, n < s.next → (commit s b wf).1.objs (.fresh n) = s.objs (.fresh n)) := by
  obtain ⟨_, _, h3, h4, _, h6, h7, h8, h9⟩ := commit_spec s b wf
  have hadds := (h9 herr).1
  have hob := commitLoop_objs s b
  have hfr := commitLoop_frame s b
  refine ⟨hadds, ?_, h7, h6, ?_, h8, ?_, ?_⟩
  · intro k
    cases hp : s.pending k with
    | some id => exact h4 k id hp
    | none =>
      have := h3 k
      rw [hadds, hp] at this
      simpa using this
  all_goals
    revert herr
    rw [commit_eq]
    split
    · simp
    · split
      · simp
      · intro _
        first
          | exact hfr.2.2.1
          | exact hob.2.1
          | exact hob.2.2

/-- the structural fact rollback of `opened` relies on: a pending circuit's keystone is filed in
    `opened` under that circuit (holds for every link-disciplined history, see `wf_run`). -/
def KeystoneFiled (s : State) : Prop :=
  ∀ k id o, s.pending k = some id → (s.objs id).outgoing = some o → s.opened o = some id

/-- **rollback (DeleteCircuits).** If the batch delete fails, memory (pending, closed, and — for
    a well-formed map — opened) and both buckets are exactly what they were. -/
theorem delete_rollback_on_write_failure (s : State) (keys : List Key) (hwf : KeystoneFiled s) :
    (deleteCircuits s keys true).2 = true ∧
    (∀ k, (deleteCircuits s keys true).1.pending k = s.pending k) ∧
    (∀ k, (deleteCircuits s keys true).1.closed k = s.closed k) ∧
    (∀ o, (deleteCircuits s keys true).1.opened o = s.opened o) ∧
    (deleteCircuits s keys true).1.adds = s.adds ∧ (deleteCircuits s keys true).1.ks = s.ks ∧
    (deleteCircuits s keys true).1.objs = s.objs := by
  obtain ⟨h0, _, h2⟩ := delete_spec s keys true
  obtain ⟨hp, hc, ha, hk, ho⟩ := h2 rfl
  refine ⟨h0, hp, hc, ?_, ha, hk, ho⟩
  simp only [deleteCircuits, Bool.not_true, Bool.false_eq_true, if_false]
  have hrm := deleteMem_removed s keys
  apply deleteRollback_opened s.opened s.objs
  · exact (deleteMem_frame s keys).2.2.1
  · intro r hr o hout
    exact hwf r.key r.obj o (hrm r hr).1 hout
  · intro x; exact deleteMem_opened s keys x

/-- without a write failure nothing of a deleted circuit stays behind. -/
theorem delete_removes (s : State) (keys : List Key) (k : Key) (hk : k ∈ keys) :
    (deleteCircuits s keys false).1.pending k = none ∧
    (deleteCircuits s keys false).1.closed k = (if (s.pending k).isSome then false else s.closed k) ∧
    ((s.pending k).isSome → k ∉ (deleteCircuits s keys false).1.adds) := by
  obtain ⟨h1, h2, h3⟩ := (delete_spec s keys false).2.1 rfl
  refine ⟨by rw [h1 k]; simp [hk], by rw [h2 k]; simp [hk], ?_⟩
  intro hp hm
  exact ((h3 k).mp hm).2 ⟨hk, hp⟩

/-! ## purge_closed -/

/-- **purge_closed (circuits).** After a restart a durable circuit survives iff its incoming channel
    is not fully closed and none of its keystones points into a fully closed channel without a
    pending resolution message. (`e.isClosed c` ⇔ `c ≠ 0` and `c` is listed closed, not pending:
    `Env.isClosed_iff`.) -/
theorem purge_closed_circuits (e : Env) (s : State) (k : Key) :
    k ∈ (restart e s).adds ↔
      k ∈ s.adds ∧ e.isClosed k.chan = false ∧
      ∀ o, (o, k) ∈ s.ks → e.isClosed o.chan = true → o ∈ e.resMsg := by
  rw [restart_adds, cleanClosed_adds]
  constructor
  · rintro ⟨h1, h2, h3⟩
    refine ⟨h1, h2, ?_⟩
    intro o ho hc
    have := h3 (o, k) ho rfl
    simp only [purgeP, h2, hc, Bool.false_or, Bool.true_and, Bool.not_eq_false',
      List.contains_eq_mem, decide_eq_true_eq] at this
    exact this
  · rintro ⟨h1, h2, h3⟩
    refine ⟨h1, h2, ?_⟩
    rintro ⟨o, k'⟩ hp hk
    simp only at hk; subst hk
    simp only [purgeP, h2, Bool.false_or]
    cases hc : e.isClosed o.chan with
    | false => simp
    | true => simp [h3 o hp hc]

/-- **purge_closed (keystones).** `cleanClosedChannels` keeps a keystone iff its incoming channel is
    not fully closed and its outgoing channel is not fully closed either — or it is, but a
    resolution message for that out key still has to be delivered (the exception). -/
theorem purge_closed_keystones (e : Env) (s : State) (h : KsFun s.ks) (o k : Key) :
    (o, k) ∈ (cleanClosed e s).ks ↔
      (o, k) ∈ s.ks ∧ e.isClosed k.chan = false ∧ (e.isClosed o.chan = true → o ∈ e.resMsg) := by
  rw [cleanClosed_ks e s h]
  simp only [purgeP, Bool.or_eq_false_iff, Bool.and_eq_false_imp, Bool.not_eq_false',
    List.contains_eq_mem, decide_eq_true_eq]

/-! ## restart_exact -/

/-- **restart_exact (pending).** After a restart the switch knows exactly the durably recorded
    circuits that were not purged, each as a fresh object marked `LoadedFromDisk`, and the volatile
    `closed` set is empty. -/
theorem restart_exact_pending (e : Env) (s : State) :
    (∀ k, (restart e s).pending k = if k ∈ (restart e s).adds then some (.disk k) else none) ∧
    (∀ k, (restart e s).closed k = false) ∧
    (∀ k, ((restart e s).objs (.disk k)).loaded = true ∧ ((restart e s).objs (.disk k)).inKey = k) := by
  refine ⟨?_, restart_closed e s, ?_⟩
  · intro k; rw [restart_pending, restart_adds]
  · intro k
    unfold restart
    have := trimAll_objs (restore (cleanClosed e s)) e.active (.disk k)
    rw [this.1, this.2]
    simp [restore]

/-- **restart_exact (opened).** After a restart (including `trimAllOpenCircuits`) the opened map
    is exactly the set of durable keystones whose circuit exists. -/
theorem restart_exact_opened (e : Env) (s : State) (h : KsFun s.ks) : OpenedIffKs (restart e s) := by
  unfold restart
  apply trimAll_openedIffKs
  intro o
  have hk := cleanClosed_ksFun e s h
  constructor
  · intro ho
    obtain ⟨id, hid⟩ := Option.isSome_iff_exists.mp ho
    obtain ⟨k, _, hm, ha⟩ := (restore_opened _ hk o id).mp hid
    refine ⟨k, (restore_ks _ (o, k)).mpr ⟨hm, ?_⟩, ?_⟩
    · rintro ⟨_, hn⟩; exact hn ha
    · simpa [restore] using ha
  · rintro ⟨k, hm, ha⟩
    have hm' := ((restore_ks _ (o, k)).mp hm).1
    have ha' : k ∈ (cleanClosed e s).adds := by simpa [restore] using ha
    have := (restore_opened _ hk o (.disk k)).mpr ⟨k, rfl, hm', ha'⟩
    simp [this]

/-- the same along any history from the empty map (the bucket is a map by construction). -/
theorem restart_exact_opened_run (ops : List Op) (e : Env) :
    OpenedIffKs (restart e (run State.init ops)) :=
  restart_exact_opened e _ (ksFun_run State.init ops (by simp [State.init, KsFun]))

/-- a circuit restored from disk is never forwarded again: re-committing it yields a Fail when it is
    half-open (no keystone: the HTLC is failed back, not lost, not doubled) and a Drop when it is
    open (a response is still expected from the outgoing link). -/
theorem restored_circuit_not_readded (e : Env) (s : State) (k : Key) (wf : Bool)
    (hk : k ∈ (restart e s).adds) :
    (commit (restart e s) [k] wf).2 =
      if ((restart e s).objs (.disk k)).outgoing.isSome then ⟨[], [k], [], false⟩
      else ⟨[], [], [k], false⟩ := by
  obtain ⟨hp, _, hl⟩ := restart_exact_pending e s
  rw [commit_single, hp k]
  simp [hk, (hl k).1]

/-! ## half-open rollback (TrimOpenCircuits) -/

/-- the opened out ids of channel `c` at or after `start` form one block beginning at `start`
    (the outgoing link allocates htlc ids sequentially). -/
def ContiguousFrom (op : Key → Option ObjId) (c start : Nat) : Prop :=
  ∀ i, start ≤ i → op ⟨c, i⟩ ≠ none → ∀ m, start ≤ m → m ≤ i → op ⟨c, m⟩ ≠ none

/-- htlc ids are 64-bit. -/
def IdsBounded (op : Key → Option ObjId) (c : Nat) : Prop := ∀ i, 2 ^ 64 ≤ i → op ⟨c, i⟩ = none

/-- the keystone AT the bound is always rolled back. -/
theorem trim_first (s : State) (c start : Nat) (wf : Bool) (h : start < 2 ^ 64) :
    (trim s c start wf).1.opened ⟨c, start⟩ = none := by
  rw [trim_opened]
  split
  · rfl
  · rename_i hn
    cases ho : s.opened ⟨c, start⟩ with
    | none => rfl
    | some id =>
      exfalso; apply hn
      rw [trimRun_mem]
      refine ⟨Nat.le_refl _, by unfold trimFuel; omega, ?_⟩
      intro m h1 h2
      have : m = start := by omega
      subst this; simp [ho]

/-- **half-open rollback.** Under `ContiguousFrom`, `TrimOpenCircuits(c, start)` leaves no open
    circuit on `c` with an id at or after `start` — whether or not the disk write succeeds. -/
theorem trim_contiguous (s : State) (c start : Nat) (wf : Bool)
    (hc : ContiguousFrom s.opened c start) (hb : IdsBounded s.opened c) :
    ∀ i, start ≤ i → (trim s c start wf).1.opened ⟨c, i⟩ = none := by
  intro i hi
  rw [trim_opened]
  split
  · rfl
  · rename_i hn
    cases ho : s.opened ⟨c, i⟩ with
    | none => rfl
    | some id =>
      exfalso; apply hn
      rw [trimRun_mem]
      have hlt : i < 2 ^ 64 := by
        apply Nat.lt_of_not_le; intro hge; rw [hb i hge] at ho; cases ho
      refine ⟨hi, by unfold trimFuel; omega, ?_⟩
      intro m h1 h2
      exact hc i hi (by simp [ho]) m h1 h2

/-- … and the trimmed circuits are still pending, now without keystone: they are rolled back to
    half-open, not deleted. -/
theorem trim_keeps_pending (s : State) (c start : Nat) (wf : Bool) :
    (trim s c start wf).1.pending = s.pending ∧ (trim s c start wf).1.adds = s.adds :=
  ⟨(trim_frame s c start wf).1, (trim_frame s c start wf).2.2⟩

/-- the contiguity hypothesis is needed: with opened ids {0, 2} and bound 1 the scan stops at the
    gap and the uncommitted keystone 2 stays open. -/
def gapState : State :=
  { State.init with opened := fun o => if o = ⟨2, 0⟩ ∨ o = ⟨2, 2⟩ then some (.fresh 0) else none }

theorem trim_gap_counterexample :
    IdsBounded gapState.opened 2 ∧ ¬ ContiguousFrom gapState.opened 2 1 ∧
      ((trim gapState 2 1 false).1.opened ⟨2, 2⟩).isSome = true := by
  refine ⟨?_, ?_, ?_⟩
  · intro i hi
    simp only [gapState]
    have h1 : (⟨2, i⟩ : Key) ≠ ⟨2, 0⟩ := by intro e; injection e; omega
    have h2 : (⟨2, i⟩ : Key) ≠ ⟨2, 2⟩ := by intro e; injection e; omega
    simp [h1, h2]
  · intro hc
    have := hc 2 (by omega) (by simp [gapState]) 1 (by omega) (by omega)
    simp [gapState] at this
  · rw [trim_opened]
    have hn : (⟨2, 2⟩ : Key) ∉ (trimRun 2 (trimFuel 1) 1 gapState).2 := by
      rw [trimRun_mem]
      rintro ⟨_, _, h3⟩
      have := h3 1 (by omega) (by omega)
      simp [gapState] at this
    rw [if_neg hn]
    simp [gapState]

/-- **restart_exact (half-open rollback).** For every live channel listed once among the active
    channels, under `ContiguousFrom` no keystone with an id at or after `NextLocalHtlcIndex`
    is open after the restart. -/
theorem trimAll_half_open (s : State) (l : List ActiveChan) (a : ActiveChan)
    (ha : a ∈ l) (hlive : a.isPending = false ∧ a.chan ≠ sourceChan)
    (hdist : l.Pairwise (fun x y => x.chan ≠ y.chan))
    (hc : ContiguousFrom s.opened a.chan (nextLocalHtlcIndex a)) (hb : IdsBounded s.opened a.chan) :
    ∀ i, nextLocalHtlcIndex a ≤ i → (trimAll s l).opened ⟨a.chan, i⟩ = none := by
  induction l generalizing s with
  | nil => cases ha
  | cons b rest ih =>
    rw [List.pairwise_cons] at hdist
    intro i hi
    cases ha with
    | head =>
      simp only [trimAll, hlive.1, hlive.2, Bool.false_or, decide_false, Bool.false_eq_true, if_false]
      apply trimAll_opened_sub
      exact trim_contiguous s a.chan _ false hc hb i hi
    | tail _ ha' =>
      simp only [trimAll]
      split
      · exact ih s ha' hdist.2 hc hb i hi
      · have hne : ∀ o : Key, o.chan = a.chan → (trim s b.chan (nextLocalHtlcIndex b) false).1.opened o = s.opened o := by
          intro o ho
          apply trim_opened_other
          rw [ho]; exact fun e => hdist.1 a ha' e.symm
        apply ih _ ha' hdist.2
        · intro j hj hoj m hm1 hm2
          rw [hne _ rfl] at hoj ⊢
          exact hc j hj hoj m hm1 hm2
        · intro j hj; rw [hne _ rfl]; exact hb j hj
        · exact hi

theorem restart_half_open (e : Env) (s : State) (a : ActiveChan)
    (ha : a ∈ e.active) (hlive : a.isPending = false ∧ a.chan ≠ sourceChan)
    (hdist : e.active.Pairwise (fun x y => x.chan ≠ y.chan))
    (hc : ContiguousFrom (restore (cleanClosed e s)).opened a.chan (nextLocalHtlcIndex a))
    (hb : IdsBounded (restore (cleanClosed e s)).opened a.chan) :
    ∀ i, nextLocalHtlcIndex a ≤ i → (restart e s).opened ⟨a.chan, i⟩ = none :=
  trimAll_half_open _ _ a ha hlive hdist hc hb

/-! ## non-vacuity of the hypotheses -/

/-- a state with keystones 1 and 2 open on channel 2: contiguous from 1 and bounded, so
    `trim_contiguous` applies with a non-trivial run … -/
def blockState : State :=
  { State.init with opened := fun o => if o = ⟨2, 1⟩ ∨ o = ⟨2, 2⟩ then some (.fresh 0) else none }

example : ContiguousFrom blockState.opened 2 1 ∧ IdsBounded blockState.opened 2 := by
  constructor
  · intro i hi ho m hm1 hm2
    have hi' : i = 1 ∨ i = 2 := by
      simp only [blockState, ne_eq, ite_eq_right_iff, reduceCtorEq, imp_false, Decidable.not_not] at ho
      cases ho with
      | inl e => injection e with _ e; exact Or.inl e
      | inr e => injection e with _ e; exact Or.inr e
    have hm : m = 1 ∨ m = 2 := by omega
    cases hm with
    | inl e => subst e; simp [blockState]
    | inr e => subst e; simp [blockState]
  · intro i hi
    have h1 : (⟨2, i⟩ : Key) ≠ ⟨2, 1⟩ := by intro e; injection e; omega
    have h2 : (⟨2, i⟩ : Key) ≠ ⟨2, 2⟩ := by intro e; injection e; omega
    simp [blockState, h1, h2]

/-- … and both keystones are in fact removed. -/
example : (trim blockState 2 1 false).1.opened ⟨2, 2⟩ = none := by
  apply trim_contiguous
  · intro i hi ho m hm1 hm2
    have hi' : i = 1 ∨ i = 2 := by
      simp only [blockState, ne_eq, ite_eq_right_iff, reduceCtorEq, imp_false, Decidable.not_not] at ho
      cases ho with
      | inl e => injection e with _ e; exact Or.inl e
      | inr e => injection e with _ e; exact Or.inr e
    have hm : m = 1 ∨ m = 2 := by omega
    cases hm with
    | inl e => subst e; simp [blockState]
    | inr e => subst e; simp [blockState]
  · intro i hi
    have h1 : (⟨2, i⟩ : Key) ≠ ⟨2, 1⟩ := by intro e; injection e; omega
    have h2 : (⟨2, i⟩ : Key) ≠ ⟨2, 2⟩ := by intro e; injection e; omega
    simp [blockState, h1, h2]
  · omega

/-- `KeystoneFiled` holds for a map with an open circuit filed correctly. -/
example : KeystoneFiled
    { State.init with
        objs := fun _ => ⟨⟨1, 0⟩, some ⟨2, 0⟩, false⟩,
        pending := fun k => if k = ⟨1, 0⟩ then some (.fresh 0) else none,
        opened := fun o => if o = ⟨2, 0⟩ then some (.fresh 0) else none } := by
  intro k id o hp ho
  simp only at hp ho
  split at hp
  · injection hp with hp; subst hp
    injection ho with ho; subst ho; simp
  · cases hp

/-- the history counters are not vacuous: a commit really counts, a delete really resets. -/
example : (runH Hist.init [.commit [⟨1, 0⟩, ⟨1, 0⟩] false]).addCnt ⟨1, 0⟩ = 1 := by decide
example : (runH Hist.init [.commit [⟨1, 0⟩] false, .fail ⟨1, 0⟩, .fail ⟨1, 0⟩]).respCnt ⟨1, 0⟩ = 1 := by decide
example : (runH Hist.init [.commit [⟨1, 0⟩] false, .fail ⟨1, 0⟩, .delete [⟨1, 0⟩] false,
    .commit [⟨1, 0⟩] false]).addCnt ⟨1, 0⟩ = 1 := by decide

/-! ## mem_disk_agree, full strength, for link-disciplined histories -/

/-- **mem_disk_agree (structure).** Along any history in which every `OpenCircuits` call
    respects the link discipline `OpenOk` (distinct circuits, fresh out keys, one keystone per
    circuit) — with arbitrary batches, duplicates, write failures (also in `TrimOpenCircuits`),
    deletes and restarts — the map is well-formed: `opened` entries are exactly the pending circuit
    objects carrying that keystone, each has its keystone on disk, only pending circuits are marked
    closed, and a circuit has at most one keystone on disk. -/
theorem wf_run (ops : List Op) (hd : Disciplined State.init ops) : WF (run State.init ops) :=
  wf_run_from State.init ops wf_init hd

/-- a response is only ever accepted for a circuit that is pending: in a well-formed map
    `CloseCircuit` cannot answer for a circuit that has been deleted. -/
theorem close_only_live (s : State) (o k : Key) (h : WF s) (hr : (closeCircuit s o).2 = .ok k) :
    (s.pending k).isSome := by
  have hs := (close_spec s o).2.2.2.2.2
  rw [hr] at hs
  obtain ⟨_, ⟨id, ho, hk⟩, _⟩ := hs
  have := (h.openedOk o id ho).2
  rw [hk] at this; simp [this]

/-- in a well-formed map the rollback of a failed `DeleteCircuits` is exact. -/
theorem delete_rollback_exact_run (ops : List Op) (hd : Disciplined State.init ops) (keys : List Key) :
    ∀ o, (deleteCircuits (run State.init ops) keys true).1.opened o = (run State.init ops).opened o :=
  (delete_rollback_on_write_failure _ keys (wf_run ops hd).filed).2.2.2.1

/-- the discipline is needed, and this is what the code does without it: a second keystone for a
    circuit that already has one leaves a stale `opened` entry behind after the delete, and
    `CloseCircuit` then returns the deleted circuit. (The link never does this: a circuit is opened
    once per packet and trimmed before it is opened again.) -/
theorem double_open_counterexample :
    let ops := [Op.commit [⟨1, 0⟩] false, .open [(⟨1, 0⟩, ⟨2, 0⟩)] false,
                .open [(⟨1, 0⟩, ⟨2, 1⟩)] false, .delete [⟨1, 0⟩] false]
    ((run State.init ops).pending ⟨1, 0⟩).isSome = false ∧
    (closeCircuit (run State.init ops) ⟨2, 0⟩).2 = .ok ⟨1, 0⟩ := by
  decide

/-- `Disciplined` is satisfiable by a non-trivial history (forward, open, restart, settle, delete,
    re-forward of the next HTLC). -/
example : Disciplined State.init
    [.commit [⟨1, 0⟩, ⟨1, 1⟩] false, .open [(⟨1, 0⟩, ⟨2, 0⟩), (⟨1, 1⟩, ⟨2, 1⟩)] false,
     .restart ⟨[], [⟨2, false, 1, none⟩], []⟩, .close ⟨2, 0⟩, .delete [⟨1, 0⟩] false,
     .commit [⟨1, 1⟩] false] := by
  refine ⟨trivial, ⟨?_, trivial, trivial, trivial, trivial, trivial⟩⟩
  refine ⟨by decide, by decide, ?_⟩
  intro p hp
  have hks : (step State.init (.commit [⟨1, 0⟩, ⟨1, 1⟩] false)).1.ks = [] := by
    simp only [step, (commit_spec _ _ _).2.2.2.2.2.2.2.1]; rfl
  rw [hks]; simp

end LndModel.C07
