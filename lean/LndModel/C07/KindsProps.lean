/-
C07 — the restart clauses per channel kind (`Kinds.lean`): because the startup trim addresses
every channel by `ShortChanID()` — the id the links key their keystones with — the half-open
rollback and "committed circuits stay open" hold for regular, option-scid-alias, unconfirmed and
confirmed zero-conf channels alike; trimming a confirmed zero-conf channel by its real scid loses
the rollback.
-/
import LndModel.C07.Kinds
import LndModel.C07.FaultProps
import LndModel.C07.Props

namespace LndModel.C07

theorem toEnv_active_mem (e : KEnv) (key : KChan → Nat) (a : ActiveChan)
    (ha : a ∈ (e.toEnv key).active) : ∃ c ∈ e.chans, a = c.toActive key := by
  simp only [KEnv.toEnv, List.mem_map] at ha
  obtain ⟨c, hc, rfl⟩ := ha
  exact ⟨c, hc, rfl⟩

/-- the next local htlc index the store really holds for the channel. -/
def KChan.nextIdx (c : KChan) : Nat := nextLocalHtlcIndex (c.toActive trimKey)

/-- **rollback_every_kind.** Keystones are keyed by `ShortChanID()` (`⟨c.scid, i⟩`; this is what
    links do).  For a live channel `c` of ANY kind, listed once, whose open out ids from the next
    local htlc index on are contiguous, no keystone `⟨c.scid, i⟩` with `i ≥ NextLocalHtlcIndex` is
    open after the start: the HTLCs that never reached a commitment are rolled back to half-open. -/
theorem rollback_every_kind (e : KEnv) (s : State) (c : KChan) (hc : c ∈ e.chans)
    (hlive : c.isPending = false ∧ c.scid ≠ sourceChan)
    (hdist : e.chans.Pairwise (fun x y => x.scid ≠ y.scid))
    (hcont : ContiguousFrom (restore (cleanClosed (e.toEnv trimKey) s)).opened c.scid c.nextIdx)
    (hb : IdsBounded (restore (cleanClosed (e.toEnv trimKey) s)).opened c.scid) :
    ∀ i, c.nextIdx ≤ i → (restartK trimKey e none s).1.opened ⟨c.scid, i⟩ = none := by
  intro i hi
  unfold restartK
  rw [restartF_no_fault]
  apply restart_half_open (e.toEnv trimKey) s (c.toActive trimKey)
  · exact List.mem_map.mpr ⟨c, hc, rfl⟩
  · exact hlive
  · simp only [KEnv.toEnv]
    rw [List.pairwise_map]
    exact hdist
  · exact hcont
  · exact hb
  · exact hi

/-- **committed_stay_open_every_kind.** For a start that succeeds or is aborted by a failing read:
    a durable keystone `⟨c.scid, i⟩` of a channel of any kind whose circuit survives the purge and
    whose id is below the true next index of every listed channel with that `ShortChanID()` is
    still on disk and open. -/
theorem committed_stay_open_every_kind (e : KEnv) (f : Option Nat) (s : State) (hf : KsFun s.ks)
    (o k : Key) (hk : (o, k) ∈ s.ks) (ha : k ∈ (cleanClosed (e.toEnv trimKey) s).adds)
    (hc : ∀ c ∈ e.chans, c.isPending = false → c.scid ≠ sourceChan → o.chan = c.scid →
      o.id < c.nextIdx) :
    (o, k) ∈ (restartK trimKey e f s).1.ks ∧ (restartK trimKey e f s).1.opened o = some (.disk k) := by
  apply committed_circuits_stay_open (e.toEnv trimKey) f s hf o k hk ha
  intro a ha' hp hs hch
  obtain ⟨c, hcm, rfl⟩ := toEnv_active_mem e trimKey a ha'
  exact hc c hcm hp hs hch

/-! ### the kinds agree on everything except a confirmed zero-conf channel -/

theorem realScidKey_eq (c : KChan) (h : ∀ r, c.kind ≠ .zeroConfConfirmed r) :
    realScidKey c = trimKey c := by
  unfold realScidKey trimKey
  cases hk : c.kind with
  | zeroConfConfirmed r => exact absurd hk (h r)
  | _ => rfl

/-! ### witness: trimming by the real scid loses the rollback

Channel with alias 7 (what the link uses), confirmed as 9.  Circuits 1.0, 1.1 are open under the
keystones 7.0, 7.1; only 7.0 reached a commitment (`NextLocalHtlcIndex = 1`). -/

def zcOps : List Op :=
  [.commit [⟨1, 0⟩, ⟨1, 1⟩] false, .open [(⟨1, 0⟩, ⟨7, 0⟩), (⟨1, 1⟩, ⟨7, 1⟩)] false]

def zcEnv (kind : ChanKind) : KEnv := ⟨[], [⟨7, kind, false, 1, none⟩], []⟩

/-- with `trimKey` the uncommitted keystone 7.1 is rolled back for every kind, 7.0 stays, and the
    re-forwarded Add of 1.1 is FAILED back … -/
example :
    ∀ kind ∈ [ChanKind.regular, .scidAlias, .zeroConfUnconfirmed, .zeroConfConfirmed 9],
      ((restartK trimKey (zcEnv kind) none (run State.init zcOps)).1.opened ⟨7, 1⟩).isSome = false ∧
      ((restartK trimKey (zcEnv kind) none (run State.init zcOps)).1.opened ⟨7, 0⟩).isSome = true ∧
      (commit (restartK trimKey (zcEnv kind) none (run State.init zcOps)).1 [⟨1, 1⟩] false).2.fails
        = [⟨1, 1⟩] := by
  decide

/-- … with the real scid as key the trim of the confirmed zero-conf channel is a no-op: 7.1 stays
    open and the re-forwarded Add is DROPPED — neither forwarded nor failed back. -/
theorem realScidKey_loses_rollback :
    ((restartK realScidKey (zcEnv (.zeroConfConfirmed 9)) none (run State.init zcOps)).1.opened
      ⟨7, 1⟩).isSome = true ∧
    (commit (restartK realScidKey (zcEnv (.zeroConfConfirmed 9)) none (run State.init zcOps)).1
      [⟨1, 1⟩] false).2.drops = [⟨1, 1⟩] ∧
    (commit (restartK realScidKey (zcEnv (.zeroConfConfirmed 9)) none (run State.init zcOps)).1
      [⟨1, 1⟩] false).2.fails = [] := by
  decide

/-- the hypotheses of `rollback_every_kind` are satisfiable for a confirmed zero-conf channel. -/
example : (zcEnv (.zeroConfConfirmed 9)).chans.Pairwise (fun x y => x.scid ≠ y.scid) := by
  simp [zcEnv]

end LndModel.C07
