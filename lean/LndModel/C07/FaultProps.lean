/-
C07 — theorems about the startup trim under failing store reads (`Fault.lean`):
"after a restart, circuits whose outgoing HTLC reached a commitment stay open" also holds when a
read fails, because a failed read surfaces as an error and never as a lower trim bound.
-/
import LndModel.C07.Fault
import LndModel.C07.Hist

namespace LndModel.C07

theorem nextLocalHtlcIndexE_tipOf (a : ActiveChan) :
    nextLocalHtlcIndexE a.remoteIdx (tipOf a) = some (nextLocalHtlcIndex a) := by
  unfold tipOf nextLocalHtlcIndex
  cases a.pendingIdx <;> rfl

/-- without a failing read the model is the fault-free `restart`. -/
theorem trimAllF_none (s : State) (l : List ActiveChan) : trimAllF s none l = (trimAll s l, false) := by
  induction l generalizing s with
  | nil => rfl
  | cons a rest ih =>
    simp only [trimAllF, trimAll]
    split
    · exact ih s
    · simp only [reduceCtorEq, if_false, nextLocalHtlcIndexE_tipOf, Option.map_none]
      exact ih _

theorem restartF_no_fault (e : Env) (s : State) : restartF e none s = (restart e s, false) :=
  trimAllF_none _ _

/-- the channels for which `NextLocalHtlcIndex` is called. -/
def liveChans (l : List ActiveChan) : List ActiveChan :=
  l.filter (fun a => !(a.isPending || decide (a.chan = sourceChan)))

/-- **read_error_surfaces.** `NewCircuitMap` reports an error exactly when one of the reads it
    performs fails — a failing read is never swallowed. -/
theorem trimAllF_error_iff (s : State) (f : Option Nat) (l : List ActiveChan) :
    (trimAllF s f l).2 = true ↔ ∃ n, f = some n ∧ n < (liveChans l).length := by
  induction l generalizing s f with
  | nil => simp [trimAllF, liveChans]
  | cons a rest ih =>
    simp only [trimAllF, liveChans, List.filter_cons]
    split
    · rename_i h
      simp only [h, Bool.not_true, Bool.false_eq_true, if_false]
      exact ih s f
    · rename_i h
      simp only [h, Bool.not_false, if_true, List.length_cons]
      cases f with
      | none =>
        simp only [reduceCtorEq, if_false, nextLocalHtlcIndexE_tipOf, Option.map_none]
        rw [ih]; simp
      | some n =>
        cases n with
        | zero => simp [nextLocalHtlcIndexE]
        | succ m =>
          have : (some (m + 1) = some 0) = False := by simp
          simp only [this, if_false, nextLocalHtlcIndexE_tipOf, Option.map_some,
            Nat.add_sub_cancel]
          rw [ih]
          constructor
          · rintro ⟨n, hn, hlt⟩
            injection hn with hn; subst hn
            exact ⟨m + 1, rfl, by simp only [liveChans] at hlt; omega⟩
          · rintro ⟨n, hn, hlt⟩
            injection hn with hn; subst hn
            exact ⟨m, rfl, by simp only [liveChans]; omega⟩

theorem restartF_error_iff (e : Env) (f : Option Nat) (s : State) :
    (restartF e f s).2 = true ↔ ∃ n, f = some n ∧ n < (liveChans e.active).length :=
  trimAllF_error_iff _ _ _

/-! ### committed keystones survive, with or without a failing read -/

theorem trim_opened_keep (s : State) (c start : Nat) (wf : Bool) (o : Key) (id : ObjId)
    (ho : s.opened o = some id) (hlt : o.chan = c → o.id < start) :
    (trim s c start wf).1.opened o = some id := by
  rw [trim_opened, if_neg, ho]
  intro hm
  have hc := trimRun_chan c (trimFuel start) start s _ hm
  have hlt' := hlt hc
  have hm' : (⟨c, o.id⟩ : Key) ∈ (trimRun c (trimFuel start) start s).2 := by
    have : o = ⟨c, o.id⟩ := by rw [← hc]
    rw [← this]; exact hm
  have := (trimRun_mem c (trimFuel start) start s o.id).mp hm'
  omega

theorem trim_ks_keep2 (s : State) (c start : Nat) (p : Key × Key) (hp : p ∈ s.ks)
    (hlt : p.1.chan = c → p.1.id < start) : p ∈ (trim s c start false).1.ks := by
  rw [trim_ks]
  refine ⟨hp, ?_⟩
  intro hm
  have hc := trimRun_chan c (trimFuel start) start s _ hm
  have hlt' := hlt hc
  have hm' : (⟨c, p.1.id⟩ : Key) ∈ (trimRun c (trimFuel start) start s).2 := by
    have : p.1 = ⟨c, p.1.id⟩ := by rw [← hc]
    rw [← this]; exact hm
  have := (trimRun_mem c (trimFuel start) start s p.1.id).mp hm'
  omega

/-- "below the true next index": for every live channel entry of the keystone's channel, the
    out id is smaller than what the store really holds (`nextLocalHtlcIndex` = the pending remote
    commitment's index if there is one, else the remote commitment's). -/
def Committed (l : List ActiveChan) (o : Key) : Prop :=
  ∀ a ∈ l, a.isPending = false → a.chan ≠ sourceChan → o.chan = a.chan → o.id < nextLocalHtlcIndex a

theorem trimAllF_keeps (s : State) (f : Option Nat) (l : List ActiveChan) (o : Key)
    (hc : Committed l o) :
    (∀ id, s.opened o = some id → (trimAllF s f l).1.opened o = some id) ∧
    (∀ k, (o, k) ∈ s.ks → (o, k) ∈ (trimAllF s f l).1.ks) := by
  induction l generalizing s f with
  | nil => exact ⟨fun _ h => h, fun _ h => h⟩
  | cons a rest ih =>
    have hrest : Committed rest o := fun b hb => hc b (List.mem_cons_of_mem _ hb)
    simp only [trimAllF]
    split
    · exact ih s f hrest
    · rename_i hlive
      simp only [Bool.or_eq_true, decide_eq_true_eq, not_or, Bool.not_eq_true] at hlive
      cases hn : nextLocalHtlcIndexE a.remoteIdx (if f = some 0 then .readErr else tipOf a) with
      | none => exact ⟨fun _ h => h, fun _ h => h⟩
      | some n =>
        -- a successful read returns the true index
        have hn' : n = nextLocalHtlcIndex a := by
          split at hn
          · simp [nextLocalHtlcIndexE] at hn
          · rw [nextLocalHtlcIndexE_tipOf] at hn; injection hn with hn; exact hn.symm
        have hlt : o.chan = a.chan → o.id < n := by
          intro hch; rw [hn']; exact hc a (List.mem_cons_self ..) hlive.1 hlive.2 hch
        have := ih (trim s a.chan n false).1 (f.map (· - 1)) hrest
        simp only []
        exact ⟨fun id h => this.1 id (trim_opened_keep s a.chan n false o id h hlt),
               fun k h => this.2 k (trim_ks_keep2 s a.chan n (o, k) h hlt)⟩

/-- **committed_circuits_stay_open.** For every start of the circuit map — successful, or aborted by
    a failing read at any position — a durable keystone whose circuit survives the purge and whose
    out id lies below the true next local htlc index of its channel is still on disk, and (in the
    circuit map that was being built) still open.  In particular whenever the start returns ok,
    trimming kept every keystone whose HTLC index is below the true next index. -/
theorem committed_circuits_stay_open (e : Env) (f : Option Nat) (s : State) (hf : KsFun s.ks)
    (o k : Key) (hk : (o, k) ∈ s.ks) (ha : k ∈ (cleanClosed e s).adds)
    (hc : Committed e.active o) :
    (o, k) ∈ (restartF e f s).1.ks ∧ (restartF e f s).1.opened o = some (.disk k) := by
  have hpurge := ((cleanClosed_adds e s k).mp ha).2.2 (o, k) hk rfl
  have hk1 : (o, k) ∈ (cleanClosed e s).ks := (cleanClosed_ks e s hf (o, k)).mpr ⟨hk, hpurge⟩
  have hk2 : (o, k) ∈ (restore (cleanClosed e s)).ks := by
    rw [restore_ks]; exact ⟨hk1, fun h => h.2 ha⟩
  have ho : (restore (cleanClosed e s)).opened o = some (.disk k) :=
    (restore_opened _ (cleanClosed_ksFun e s hf) o (.disk k)).mpr ⟨k, rfl, hk1, ha⟩
  have := trimAllF_keeps (restore (cleanClosed e s)) f e.active o hc
  exact ⟨this.2 k hk2, this.1 _ ho⟩

/-- the same along any history of the circuit map (the keystone bucket is a map by construction). -/
theorem committed_circuits_stay_open_run (ops : List Op) (e : Env) (f : Option Nat) (o k : Key)
    (hk : (o, k) ∈ (run State.init ops).ks) (ha : k ∈ (cleanClosed e (run State.init ops)).adds)
    (hc : Committed e.active o) :
    (restartF e f (run State.init ops)).1.opened o = some (.disk k) :=
  (committed_circuits_stay_open e f _ (ksFun_run State.init ops (by simp [State.init, KsFun]))
    o k hk ha hc).2

/-- **awaiting_resolution_stays_open.** The exception of the purge, as a statement about the
    circuit map after the start: a circuit whose incoming channel is not fully closed, whose only
    keystone points into a fully closed channel, and for which a resolution message is still stored,
    is pending AND open after the restart (so `reforwardResolutions` finds its open circuit), also
    when some read of the startup trim fails. -/
theorem awaiting_resolution_stays_open (e : Env) (f : Option Nat) (s : State) (hf : KsFun s.ks)
    (hinj : ∀ o1 o2 k, (o1, k) ∈ s.ks → (o2, k) ∈ s.ks → o1 = o2)
    (o k : Key) (hk : (o, k) ∈ s.ks) (ha : k ∈ s.adds)
    (hin : e.isClosed k.chan = false) (hres : o ∈ e.resMsg)
    (hc : Committed e.active o) :
    k ∈ (restart e s).adds ∧ (restartF e f s).1.opened o = some (.disk k) ∧
      (o, k) ∈ (restartF e f s).1.ks := by
  have hadd : k ∈ (cleanClosed e s).adds := by
    rw [cleanClosed_adds]
    refine ⟨ha, hin, ?_⟩
    rintro ⟨o', k'⟩ hp hk'
    simp only at hk'; subst hk'
    have := hinj o' o k' hp hk
    subst this
    simp [purgeP, hin, hres]
  have := committed_circuits_stay_open e f s hf o k hk hadd hc
  exact ⟨by rw [restart_adds]; exact hadd, this.2, this.1⟩

/-! ### non-vacuity: a pending remote commitment carries HTLC 2.1, its read fails

Channel 2: the last revoked remote commitment has index 1, the pending (signed, not revoked) one
has index 2; keystones 2.0 and 2.1 are open.  The start with the failing read returns an error and
both keystones are still there; rolling back to the revoked commitment's index would trim 2.1. -/

def pendingCommitOps : List Op :=
  [.commit [⟨1, 0⟩, ⟨1, 1⟩] false, .open [(⟨1, 0⟩, ⟨2, 0⟩), (⟨1, 1⟩, ⟨2, 1⟩)] false]

def pendingCommitEnv : Env := ⟨[], [⟨2, false, 1, some 2⟩], []⟩

example : Committed pendingCommitEnv.active ⟨2, 1⟩ := by
  intro a ha _ _ _
  simp only [pendingCommitEnv, List.mem_singleton] at ha
  subst ha; decide

example : (restartF pendingCommitEnv (some 0) (run State.init pendingCommitOps)).2 = true ∧
    ((restartF pendingCommitEnv (some 0) (run State.init pendingCommitOps)).1.opened ⟨2, 1⟩).isSome = true ∧
    -- what a silent fallback to the revoked commitment's index would do:
    ((trim (restore (cleanClosed pendingCommitEnv (run State.init pendingCommitOps))) 2 1 false).1.opened
      ⟨2, 1⟩).isSome = false := by
  decide

end LndModel.C07

namespace LndModel.C07

/-- the purge exception is not vacuous: channel 2 is fully closed; with a stored resolution message
    for 2.0 the circuit 1.0 stays pending and open, without one it is purged. -/
example :
    let s := run State.init [.commit [⟨1, 0⟩] false, .open [(⟨1, 0⟩, ⟨2, 0⟩)] false]
    ((restart ⟨[⟨2, false⟩], [], [⟨2, 0⟩]⟩ s).opened ⟨2, 0⟩).isSome = true ∧
    ((restart ⟨[⟨2, false⟩], [], [⟨2, 0⟩]⟩ s).pending ⟨1, 0⟩).isSome = true ∧
    ((restart ⟨[⟨2, false⟩], [], []⟩ s).pending ⟨1, 0⟩).isSome = false := by
  decide

end LndModel.C07
